"""Generator 'intervals': GAM._get_quantiles and its public callers (pygam/pygam.py) -> coq/Gen/Intervals.v.

Extracted, fail-closed, statement by statement (any statement of `_get_quantiles` that is not one of the recognised
shapes, in the recognised order, raises Unsupported):
  (a) width -> alpha = (1 - width) / 2, quantiles [alpha, 1 - alpha]            (scalar expressions translated by py2coq.Tr)
  (b) the rejection guard of each quantile level                                    (boolean expression translated)
  (c) idxs / covariance block / row-wise quadratic form / `+ scale iff prediction`  (array idioms recognised by shape)
  (d) the quantile function per branch of `if self.distribution._known_scale`        (each branch translated generically:
      sp.stats.norm.ppf(q) -> ppf_norm q ; sp.stats.t.ppf(q, df=e) -> ppf_t e q)
  (e) line = lp + q * var ** 0.5                                                     (translated)
  (f) inverse link iff xform
and from confidence_intervals / LinearGAM.prediction_intervals / partial_dependence the arguments they pass
(prediction, xform, term, modelmat, lp), bound against the signature and defaults of `_get_quantiles`.
Primitives (lsum, dotl, rowquad, block, select) are in coq/Model/Intervals.v."""
import ast
import os

from py2coq import Env, Tr, Unsupported, fail, find_class, find_method, strip_doc, argnames, PRELUDE

FILENAME = 'Intervals.v'


class TrB(Tr):
    """Tr + `a or b` / `a and b` on booleans"""

    def boolean(self, n):
        if isinstance(n, ast.BoolOp):
            op = 'orb' if isinstance(n.op, ast.Or) else 'andb'
            parts = [self.boolean(v) for v in n.values]
            out = parts[-1]
            for p in reversed(parts[:-1]):
                out = '(%s %s %s)' % (op, p, out)
            return out
        return Tr.boolean(self, n)


def ppf_hook(tr, n):
    f = ast.unparse(n.func)
    if f == 'sp.stats.norm.ppf':
        if len(n.args) != 1 or n.keywords:
            fail(n, 'norm.ppf with location/scale arguments')
        return '(ppf_norm %s)' % tr.expr(n.args[0])
    if f == 'sp.stats.t.ppf':
        got = {}
        for i, a in enumerate(n.args):
            if i > 1:
                fail(n, 't.ppf with location/scale arguments')
            got[['q', 'df'][i]] = a
        for kw in n.keywords:
            if kw.arg != 'df' or 'df' in got:
                fail(n, 't.ppf keyword')
            got['df'] = kw.value
        if sorted(got) != ['df', 'q']:
            fail(n, 't.ppf arguments')
        return '(ppf_t %s %s)' % (tr.expr(got['df']), tr.expr(got['q']))
    return None


def u(n):
    return ast.unparse(n)


def is_none_test(test, name, negate=False):
    return (isinstance(test, ast.Compare) and isinstance(test.left, ast.Name) and test.left.id == name and len(test.ops) == 1
            and isinstance(test.ops[0], ast.IsNot if negate else ast.Is) and isinstance(test.comparators[0], ast.Constant)
            and test.comparators[0].value is None)


def bind_call(call, fn, skip_self=True):
    """bind positional/keyword arguments of `call` against the signature of FunctionDef fn; returns name -> ast (defaults filled)"""
    params = [a.arg for a in fn.args.args]
    if skip_self:
        params = params[1:]
    defaults = dict(zip(params[len(params) - len(fn.args.defaults):], fn.args.defaults))
    if fn.args.vararg or fn.args.kwarg or fn.args.kwonlyargs:
        fail(fn, 'signature with *args / **kwargs')
    got = {}
    for i, a in enumerate(call.args):
        if isinstance(a, ast.Starred) or i >= len(params):
            fail(call, 'positional arguments')
        got[params[i]] = a
    for kw in call.keywords:
        if kw.arg is None or kw.arg not in params or kw.arg in got:
            fail(call, 'keyword argument')
        got[kw.arg] = kw.value
    for p in params:
        if p not in got:
            if p not in defaults:
                fail(call, 'missing argument %s' % p)
            got[p] = defaults[p]
    return got


def const_bool(n, what):
    if isinstance(n, ast.Constant) and isinstance(n.value, bool):
        return n.value
    fail(n, '%s must be a literal True/False' % what)


def generate(repo):
    tree = ast.parse(open(os.path.join(repo, 'pygam', 'pygam.py')).read())
    gam = find_class(tree, 'GAM')
    gq = find_method(gam, '_get_quantiles')
    if gq is None:
        raise Unsupported('GAM._get_quantiles missing')
    if argnames(gq) != ['self', 'X', 'width', 'quantiles', 'modelmat', 'lp', 'prediction', 'xform', 'term']:
        fail(gq, '_get_quantiles signature')
    body = strip_doc(gq.body)
    if len(body) != 13:
        fail(gq, '_get_quantiles has %d statements, expected 13' % len(body))
    out = [PRELUDE % dict(src='pygam/pygam.py (_get_quantiles, confidence_intervals, prediction_intervals, partial_dependence, _linear_predictor)'),
           'From PG Require Import Model.Intervals.']
    # ---- (a) quantiles from width
    st = body[0]
    if not (isinstance(st, ast.If) and is_none_test(st.test, 'quantiles', negate=True) and len(st.body) == 1
            and u(st.body[0]) == 'quantiles = np.atleast_1d(quantiles)' and len(st.orelse) == 2):
        fail(st, 'quantiles / width selection')
    a1, a2 = st.orelse
    if not (isinstance(a1, ast.Assign) and u(a1.targets[0]) == 'alpha' and isinstance(a2, ast.Assign) and u(a2.targets[0]) == 'quantiles'
            and isinstance(a2.value, ast.List)):
        fail(st, 'alpha / quantiles from width')
    tr = TrB(Env(names={'width': 'width'}))
    alpha = tr.expr(a1.value)
    tr.env.names['alpha'] = 'v_alpha'
    qs = [tr.expr(e) for e in a2.value.elts]
    out.append('(* (a) width -> quantile levels *)')
    out.append('Definition Gen_width_quantiles (width : R) : list R :=\n    let v_alpha := %s in\n    [%s].' % (alpha, '; '.join(qs)))
    # ---- (b) guard
    st = body[1]
    if not (isinstance(st, ast.For) and u(st.target) == 'quantile' and u(st.iter) == 'quantiles' and len(st.body) == 1 and not st.orelse
            and isinstance(st.body[0], ast.If) and not st.body[0].orelse and len(st.body[0].body) == 1
            and isinstance(st.body[0].body[0], ast.Raise) and u(st.body[0].body[0].exc.func) == 'ValueError'):
        fail(st, 'quantile guard loop')
    guard = TrB(Env(names={'quantile': 'quantile'})).boolean(st.body[0].test)
    out.append('(* (b) a level is rejected with ValueError when this holds *)')
    out.append('Definition Gen_quantile_rejected (quantile : R) : bool :=\n    %s.' % guard)
    # ---- modelmat / lp defaults
    st = body[2]
    if not (isinstance(st, ast.If) and is_none_test(st.test, 'modelmat') and not st.orelse and len(st.body) == 1):
        fail(st, 'modelmat default')
    MODELMAT = 'self._modelmat(X, term=term)'
    LP = 'self._linear_predictor(modelmat=modelmat, term=term)'
    if u(st.body[0]) != 'modelmat = ' + MODELMAT:
        fail(st, 'modelmat default')
    st = body[3]
    if not (isinstance(st, ast.If) and is_none_test(st.test, 'lp') and not st.orelse and len(st.body) == 1 and u(st.body[0]) == 'lp = ' + LP):
        fail(st, 'lp default')
    # _linear_predictor: modelmat.dot(self.coef_[self.terms.get_coef_indices(term)]).flatten()
    lpf = find_method(gam, '_linear_predictor')
    if argnames(lpf) != ['self', 'X', 'modelmat', 'b', 'term']:
        fail(lpf, '_linear_predictor signature')
    lb = [u(s) for s in strip_doc(lpf.body)]
    expect = ['if modelmat is None:\n    modelmat = self._modelmat(X, term=term)',
              'if b is None:\n    b = self.coef_[self.terms.get_coef_indices(term)]',
              'return modelmat.dot(b).flatten()']
    if lb != expect:
        raise Unsupported('_linear_predictor changed shape:\n' + '\n'.join(lb))
    out.append('(* _linear_predictor(modelmat=row, term): row . coef_[idxs] *)')
    out.append('Definition Gen_lp (modelmat coef : list R) (idxs : list nat) : R := dotl modelmat (select idxs coef).')
    # ---- (c) idxs, covariance block, variance
    if u(body[4]) != 'idxs = self.terms.get_coef_indices(term)':
        fail(body[4], 'idxs')
    if u(body[5]) != "cov = self.statistics_['cov'][idxs][:, idxs]":
        fail(body[5], 'covariance block')
    out.append("(* (c) cov = statistics_['cov'][idxs][:, idxs] *)")
    out.append('Definition Gen_cov_block (idxs : list nat) (cov : list (list R)) : list (list R) := block idxs cov.')
    if u(body[6]) != 'var = (modelmat.dot(cov) * modelmat.A).sum(axis=1)':
        fail(body[6], 'row-wise quadratic form')
    st = body[7]
    if not (isinstance(st, ast.If) and isinstance(st.test, ast.Name) and st.test.id == 'prediction' and not st.orelse and len(st.body) == 1
            and isinstance(st.body[0], ast.AugAssign) and u(st.body[0].target) == 'var'):
        fail(st, 'prediction variance')
    op = {ast.Add: '+', ast.Sub: '-', ast.Mult: '*', ast.Div: '/'}.get(type(st.body[0].op))
    if op is None:
        fail(st, 'prediction variance operator')
    add = Tr(Env(attrs={('self', 'distribution', 'scale'): 'scale'})).expr(st.body[0].value)
    out.append('(*     var = row-wise quadratic form of that block; `if prediction: var %s= %s` *)' % (op, u(st.body[0].value)))
    out.append('Definition Gen_var (prediction : bool) (scale : R) (modelmat : list R) (cov : list (list R)) : R :=\n'
               '    let v_var0 := rowquad modelmat cov in\n'
               '    let v_var1 := (if prediction then (v_var0 %s %s) else v_var0) in\n    v_var1.' % (op, add))
    # ---- (d), (e) the loop over quantiles
    if u(body[8]) != 'lines = []':
        fail(body[8], 'lines')
    st = body[9]
    if not (isinstance(st, ast.For) and u(st.target) == 'quantile' and u(st.iter) == 'quantiles' and not st.orelse and len(st.body) == 2):
        fail(st, 'loop over quantiles')
    br, app = st.body
    if not (isinstance(br, ast.If) and len(br.body) == 1 and len(br.orelse) == 1
            and all(isinstance(s, ast.Assign) and u(s.targets[0]) == 'q' for s in (br.body[0], br.orelse[0]))):
        fail(br, 'quantile-function branch')
    env = Env(names={'quantile': 'quantile'}, attrs={('self', 'distribution', '_known_scale'): 'known_scale'},
              bools={('self', 'distribution', '_known_scale')}, call_hook=ppf_hook,
              subscripts={"self.statistics_['n_samples']": 'n_samples', "self.statistics_['edof']": 'edof'})
    t = TrB(env)
    zq = '(if %s then %s else %s)' % (t.boolean(br.test), t.expr(br.body[0].value), t.expr(br.orelse[0].value))
    out.append('(* (d) reference quantile: ppf_norm = scipy.stats.norm.ppf, ppf_t df = scipy.stats.t.ppf(., df) *)')
    out.append('Definition Gen_zq (ppf_norm : R -> R) (ppf_t : R -> R -> R) (known_scale : bool) (n_samples edof quantile : R) : R :=\n    %s.' % zq)
    if not (isinstance(app, ast.Expr) and isinstance(app.value, ast.Call) and u(app.value.func) == 'lines.append' and len(app.value.args) == 1):
        fail(app, 'lines.append')
    line = Tr(Env(names={'lp': 'lp', 'q': 'q', 'var': 'var'})).expr(app.value.args[0])
    out.append('(* (e) one bound on the link scale *)')
    out.append('Definition Gen_line (lp q var : R) : R :=\n    %s.' % line)
    if u(body[10]) != 'lines = np.vstack(lines).T':
        fail(body[10], 'stacking')
    # ---- (f) inverse link iff xform
    st = body[11]
    if not (isinstance(st, ast.If) and isinstance(st.test, ast.Name) and st.test.id == 'xform' and not st.orelse and len(st.body) == 1
            and u(st.body[0]) == 'lines = self.link.mu(lines, self.distribution)'):
        fail(st, 'xform')
    out.append('(* (f) inverse link (mu = self.link.mu(., self.distribution)) iff xform *)')
    out.append('Definition Gen_xform (xform : bool) (mu : R -> R) (line : R) : R := if xform then mu line else line.')
    if u(body[12]) != 'return lines':
        fail(body[12], 'return')
    out.append("""(* one bound, and the whole method for one row of the model matrix (None = ValueError) *)
Definition Gen_bound (ppf_norm : R -> R) (ppf_t : R -> R -> R) (mu : R -> R) (known_scale : bool) (scale n_samples edof : R)
    (cov : list (list R)) (idxs : list nat) (modelmat : list R) (lp : R) (prediction xform : bool) (quantile : R) : R :=
  Gen_xform xform mu (Gen_line lp (Gen_zq ppf_norm ppf_t known_scale n_samples edof quantile)
                               (Gen_var prediction scale modelmat (Gen_cov_block idxs cov))).
Definition Gen_get_quantiles (ppf_norm : R -> R) (ppf_t : R -> R -> R) (mu : R -> R) (known_scale : bool) (scale n_samples edof : R)
    (cov : list (list R)) (idxs : list nat) (modelmat : list R) (lp : R) (width : R) (quantiles : option (list R))
    (prediction xform : bool) : option (list R) :=
  let qs := match quantiles with Some qs => qs | None => Gen_width_quantiles width end in
  if existsb Gen_quantile_rejected qs then None
  else Some (map (Gen_bound ppf_norm ppf_t mu known_scale scale n_samples edof cov idxs modelmat lp prediction xform) qs).""")
    # ---- public callers
    def flags_of(fn, cname, want_given):
        calls = [n for n in ast.walk(fn) if isinstance(n, ast.Call) and u(n.func) == 'self._get_quantiles']
        if len(calls) != 1:
            fail(fn, 'expected exactly one call of _get_quantiles')
        b = bind_call(calls[0], gq)
        if u(b['X']) != 'X' or u(b['width']) != 'width' or u(b['quantiles']) != 'quantiles':
            fail(calls[0], 'X / width / quantiles must be forwarded unchanged')
        pred = const_bool(b['prediction'], 'prediction')
        xf = const_bool(b['xform'], 'xform')
        term = u(b['term'])
        if term == '-1':
            sel = 'AllTerms'
        elif term == 'term' and 'term' in argnames(fn):
            sel = 'TheTerm'
        else:
            fail(calls[0], 'term argument')
        mm, lp = u(b['modelmat']), u(b['lp'])
        if not want_given:
            if mm != 'None' or lp != 'None':
                fail(calls[0], 'modelmat / lp must be left to _get_quantiles')
        else:
            # partial_dependence computes them itself: must be textually the defaults of _get_quantiles
            assigns = {u(s.targets[0]): u(s.value) for s in ast.walk(fn) if isinstance(s, ast.Assign) and len(s.targets) == 1}
            if mm != 'modelmat' or assigns.get('modelmat') != MODELMAT:
                fail(calls[0], 'modelmat passed by partial_dependence')
            if assigns.get(lp) != LP:
                fail(calls[0], 'lp passed by partial_dependence')
            first = [u(e) for s in ast.walk(fn) if isinstance(s, ast.Assign) and u(s.targets[0]) == 'out' and isinstance(s.value, ast.List) for e in s.value.elts]
            if first != [lp]:
                fail(fn, 'partial dependence value returned must be the lp handed to _get_quantiles')
        return 'Definition Gen_flags_%s : qflags := mk_qflags %s %s %s.' % (cname, 'true' if pred else 'false', 'true' if xf else 'false', sel)
    out.append('(* public callers: (prediction, xform, term) handed to _get_quantiles *)')
    out.append(flags_of(find_method(gam, 'confidence_intervals'), 'confidence_intervals', False))
    lg = find_class(tree, 'LinearGAM')
    pi = find_method(lg, 'prediction_intervals')
    if pi is None:
        raise Unsupported('LinearGAM.prediction_intervals missing')
    out.append(flags_of(pi, 'prediction_intervals', False))
    out.append(flags_of(find_method(gam, 'partial_dependence'), 'partial_dependence', True))
    # no other class defines / overrides these
    for cls in tree.body:
        if isinstance(cls, ast.ClassDef):
            for nm in ('_get_quantiles', 'confidence_intervals', 'partial_dependence'):
                if cls.name != 'GAM' and find_method(cls, nm) is not None:
                    raise Unsupported('%s overrides %s' % (cls.name, nm))
            if cls.name not in ('LinearGAM',) and find_method(cls, 'prediction_intervals') is not None:
                raise Unsupported('%s defines prediction_intervals' % cls.name)
    out.append("""(* a public interval method on one query row: fullrow = the row of the full model matrix, term_idxs = coefficient indices
   of the requested term (used only by partial_dependence); modelmat = self._modelmat(X, term=term) is the row restricted to idxs *)
Definition Gen_entry (fl : qflags) (ppf_norm : R -> R) (ppf_t : R -> R -> R) (mu : R -> R) (known_scale : bool) (scale n_samples edof : R)
    (coef : list R) (cov : list (list R)) (term_idxs : list nat) (fullrow : list R) (width : R) (quantiles : option (list R)) : option (list R) :=
  let idxs := match qf_term fl with AllTerms => seq 0 (length coef) | TheTerm => term_idxs end in
  let modelmat := select idxs fullrow in
  let lp := Gen_lp modelmat coef idxs in
  Gen_get_quantiles ppf_norm ppf_t mu known_scale scale n_samples edof cov idxs modelmat lp width quantiles (qf_prediction fl) (qf_xform fl).""")
    return '\n'.join(out) + '\n'
