#!/usr/bin/env python3
"""Fail-closed translator: scalar formulas of pyGAM (Python `ast`) -> Gallina definitions over R.

Targets (each regenerated from the working tree of the repository on every check):
  links   -> coq/Gen/Links.v    link / mu / gradient of every class in pygam/links.py
  dists   -> coq/Gen/Dists.v    V, deviance, log_pdf (as SciPy spec function applied to the translated argument
                                expressions), sample (argument record of the NumPy primitive), phi, ylogydu
  stats   -> coq/Gen/Stats.v    AIC, AICc, GCV/UBRE, pseudo-R2, _W, _pseudo_data, ExpectileGAM._W, _exposure_to_weights
Any AST node outside the supported subset raises Unsupported: the caller records a broken translation obligation.
The file is only rewritten when its text changes (so `make` rebuilds exactly when the code changed).
"""
import ast
import os
import sys


class Unsupported(Exception):
    pass


def fail(node, why):
    raise Unsupported('%s at line %s: %s' % (why, getattr(node, 'lineno', '?'), ast.unparse(node) if isinstance(node, ast.AST) else node))


# ----------------------------------------------------------------------------- expressions
class Env:
    """names: python name -> coq term (string);  attrs: ('self','scale') -> coq term;  bools: set of python names that are booleans
    calls: callable taking (translator, call_node) -> coq term or None"""

    def __init__(self, names=None, attrs=None, bools=None, call_hook=None, subscripts=None):
        self.names = dict(names or {})
        self.attrs = dict(attrs or {})
        self.bools = set(bools or ())
        self.call_hook = call_hook
        self.subscripts = dict(subscripts or {})

    def child(self):
        e = Env(self.names, self.attrs, self.bools, self.call_hook, self.subscripts)
        return e


def const(v):
    if isinstance(v, bool):
        fail(v, 'bare boolean constant in arithmetic')
    if isinstance(v, int):
        return str(v) if v >= 0 else '(%d)' % v
    if isinstance(v, float):
        if v != v or v in (float('inf'), float('-inf')):
            fail(v, 'non-finite constant')
        num, den = v.as_integer_ratio()
        # decimal literals such as 0.5, 1.4, 0.01 are written by the programmer in decimal; the float differs from the
        # decimal by < 1 ulp.  We keep the *float's exact value* only when it is dyadic with a small denominator,
        # otherwise the shortest decimal repr (what the source says), as an exact rational.
        if den <= 1 << 20:
            s = '%d' % num if den == 1 else '(%d / %d)' % (num, den)
            return s if num >= 0 else '(%s)' % s
        from fractions import Fraction
        fr = Fraction(repr(v))
        return '(%d / %d)' % (fr.numerator, fr.denominator)
    fail(v, 'constant type')


POW_TABLE = {2: lambda b: '(%s * %s)' % (b, b), 3: lambda b: '(%s * %s * %s)' % (b, b, b),
             -1: lambda b: '(/ %s)' % b, -2: lambda b: '(/ (%s * %s))' % (b, b), -3: lambda b: '(/ (%s * %s * %s))' % (b, b, b),
             0.5: lambda b: '(sqrt %s)' % b, -0.5: lambda b: '(/ sqrt %s)' % b, 1: lambda b: b}


GETATTR_DEFAULTS = {}


def getattr_default(n, env):
    """`getattr(obj, 'name', <numeric constant>)` where (obj, name) is a known attribute: the generated definition takes the attribute as a
    parameter; the default is what the caller must pass for objects without it (recorded in GETATTR_DEFAULTS and written into the file)"""
    if (isinstance(n.func, ast.Name) and n.func.id == 'getattr' and len(n.args) == 3 and not n.keywords and isinstance(n.args[0], ast.Name)
            and isinstance(n.args[1], ast.Constant) and isinstance(n.args[1].value, str)
            and isinstance(n.args[2], ast.Constant) and isinstance(n.args[2].value, (int, float)) and not isinstance(n.args[2].value, bool)):
        key = (n.args[0].id, n.args[1].value)
        if key in env.attrs:
            GETATTR_DEFAULTS[key] = n.args[2].value
            return env.attrs[key]
    return None


class Tr:
    def __init__(self, env):
        self.env = env

    def num_const(self, node):
        """literal exponent value (handles unary minus)"""
        if isinstance(node, ast.Constant) and isinstance(node.value, (int, float)) and not isinstance(node.value, bool):
            return node.value
        if isinstance(node, ast.UnaryOp) and isinstance(node.op, ast.USub):
            v = self.num_const(node.operand)
            return None if v is None else -v
        return None

    def expr(self, n):
        env = self.env
        if isinstance(n, ast.Constant):
            return const(n.value)
        if isinstance(n, ast.Name):
            if n.id in env.names:
                if n.id in env.bools:
                    return '(b2r %s)' % env.names[n.id]
                return env.names[n.id]
            fail(n, 'unknown name')
        if isinstance(n, ast.Attribute):
            key = self.attr_key(n)
            if key in env.attrs:
                return env.attrs[key]
            fail(n, 'unknown attribute')
        if isinstance(n, ast.Subscript):
            key = ast.unparse(n)
            if key in env.subscripts:
                return env.subscripts[key]
            fail(n, 'unknown subscript')
        if isinstance(n, ast.UnaryOp):
            if isinstance(n.op, ast.USub):
                return '(- %s)' % self.expr(n.operand)
            if isinstance(n.op, ast.UAdd):
                return self.expr(n.operand)
            if isinstance(n.op, ast.Invert):
                # Python: ~True == -2, ~False == -1  (integer bitwise not of a bool)
                b = self.boolean(n.operand)
                return '(- 1 - b2r %s)' % b
            if isinstance(n.op, ast.Not):
                return '(b2r (negb %s))' % self.boolean(n.operand)
            fail(n, 'unary operator')
        if isinstance(n, ast.BinOp):
            if isinstance(n.op, ast.Pow):
                c = self.num_const(n.right)
                if c is None or c not in POW_TABLE:
                    fail(n, 'power with unsupported exponent')
                return POW_TABLE[c](self.expr(n.left))
            op = {ast.Add: '+', ast.Sub: '-', ast.Mult: '*', ast.Div: '/'}.get(type(n.op))
            if op is None:
                fail(n, 'binary operator')
            return '(%s %s %s)' % (self.expr(n.left), op, self.expr(n.right))
        if isinstance(n, ast.Compare):
            return '(b2r %s)' % self.boolean(n)
        if isinstance(n, ast.IfExp):
            return '(if %s then %s else %s)' % (self.boolean(n.test), self.expr(n.body), self.expr(n.orelse))
        if isinstance(n, ast.Call):
            g = getattr_default(n, env)
            if g is not None:
                return g
            return self.call(n)
        fail(n, 'expression form')

    def attr_key(self, n):
        parts = []
        while isinstance(n, ast.Attribute):
            parts.append(n.attr)
            n = n.value
        if isinstance(n, ast.Name):
            parts.append(n.id)
        else:
            fail(n, 'attribute base')
        return tuple(reversed(parts))

    def boolean(self, n):
        """Coq bool term"""
        env = self.env
        if isinstance(n, ast.Name):
            if n.id in env.bools:
                return env.names[n.id]
            if n.id in env.names:          # truthiness of a number: x != 0
                return '(negb (Reqb %s 0))' % env.names[n.id]
            fail(n, 'unknown name in test')
        if isinstance(n, ast.Attribute):
            key = self.attr_key(n)
            if key in env.attrs:
                t = env.attrs[key]
                if key in env.bools:
                    return t
                return '(negb (Reqb %s 0))' % t
            fail(n, 'unknown attribute in test')
        if isinstance(n, ast.UnaryOp) and isinstance(n.op, ast.Not):
            return '(negb %s)' % self.boolean(n.operand)
        if isinstance(n, ast.Compare) and len(n.ops) == 1:
            a, b = self.expr(n.left), self.expr(n.comparators[0])
            f = {ast.Lt: 'Rltb %s %s', ast.LtE: 'Rleb %s %s', ast.Gt: 'Rltb %s %s', ast.GtE: 'Rleb %s %s',
                 ast.Eq: 'Reqb %s %s', ast.NotEq: 'negb (Reqb %s %s)'}.get(type(n.ops[0]))
            if f is None:
                fail(n, 'comparison')
            if isinstance(n.ops[0], (ast.Gt, ast.GtE)):
                a, b = b, a
            return '(' + f % (a, b) + ')'
        fail(n, 'boolean form')

    def call(self, n):
        env = self.env
        if env.call_hook:
            r = env.call_hook(self, n)
            if r is not None:
                return r
        f = ast.unparse(n.func)
        args = n.args
        if f in ('np.log',) and len(args) == 1:
            return '(ln %s)' % self.expr(args[0])
        if f in ('np.exp',) and len(args) == 1:
            return '(exp %s)' % self.expr(args[0])
        if f in ('np.sqrt',) and len(args) == 1:
            return '(sqrt %s)' % self.expr(args[0])
        if f in ('np.abs',) and len(args) == 1:
            return '(Rabs %s)' % self.expr(args[0])
        if f in ('np.ones_like',) and len(args) == 1:
            self.expr(args[0])
            return '1'
        fail(n, 'call')


PRELUDE = """(* GENERATED by /verif/translator/py2coq.py from %(src)s -- do not edit; regenerated on every check *)
From Coq Require Import Reals List.
From PG Require Import Base.Ops.
Import ListNotations.
Open Scope R_scope.
Definition b2r (b : bool) : R := if b then 1 else 0.
Definition Reqb (a b : R) : bool := if Req_EM_T a b then true else false.
"""


def strip_doc(body):
    if body and isinstance(body[0], ast.Expr) and isinstance(getattr(body[0], 'value', None), ast.Constant) and isinstance(body[0].value.value, str):
        return body[1:]
    return body


def is_default_weights_idiom(st):
    """if weights is None: weights = np.ones_like(mu)"""
    return (isinstance(st, ast.If) and isinstance(st.test, ast.Compare) and isinstance(st.test.left, ast.Name)
            and st.test.left.id == 'weights' and isinstance(st.test.ops[0], ast.Is)
            and isinstance(st.test.comparators[0], ast.Constant) and st.test.comparators[0].value is None
            and len(st.body) == 1 and not st.orelse and ast.unparse(st.body[0]).startswith('weights = np.ones_like('))


def body_to_expr(tr, body, ret_hook=None):
    """straight-line body: assignments (incl. augmented) to fresh/rebound locals, `if <bool param>: x op= e`, final return.
    Returns the Coq expression of the returned value with lets inlined as `let`."""
    lets = []
    env = tr.env
    body = strip_doc(body)
    for i, st in enumerate(body):
        if is_default_weights_idiom(st):
            continue
        if isinstance(st, ast.Assign) and len(st.targets) == 1 and isinstance(st.targets[0], ast.Name):
            nm = st.targets[0].id
            val = tr.expr(st.value)
            cn = 'v_%s%d' % (nm, len(lets))
            lets.append((cn, val))
            env.names[nm] = cn
            env.bools.discard(nm)
        elif isinstance(st, ast.AugAssign) and isinstance(st.target, ast.Name):
            nm = st.target.id
            op = {ast.Add: '+', ast.Sub: '-', ast.Mult: '*', ast.Div: '/'}.get(type(st.op))
            if op is None:
                fail(st, 'augmented operator')
            val = '(%s %s %s)' % (tr.expr(ast.Name(id=nm, ctx=ast.Load())), op, tr.expr(st.value))
            cn = 'v_%s%d' % (nm, len(lets))
            lets.append((cn, val))
            env.names[nm] = cn
        elif isinstance(st, ast.If) and not st.orelse and len(st.body) == 1 and isinstance(st.body[0], (ast.AugAssign, ast.Assign)):
            cond = tr.boolean(st.test)
            inner = st.body[0]
            if isinstance(inner, ast.AugAssign) and isinstance(inner.target, ast.Name):
                nm = inner.target.id
                op = {ast.Add: '+', ast.Sub: '-', ast.Mult: '*', ast.Div: '/'}[type(inner.op)]
                old = tr.expr(ast.Name(id=nm, ctx=ast.Load()))
                val = '(if %s then (%s %s %s) else %s)' % (cond, old, op, tr.expr(inner.value), old)
            elif isinstance(inner, ast.Assign) and isinstance(inner.targets[0], ast.Name):
                nm = inner.targets[0].id
                old = tr.expr(ast.Name(id=nm, ctx=ast.Load()))
                val = '(if %s then %s else %s)' % (cond, tr.expr(inner.value), old)
            else:
                fail(st, 'conditional statement')
            cn = 'v_%s%d' % (nm, len(lets))
            lets.append((cn, val))
            env.names[nm] = cn
        elif isinstance(st, ast.Return):
            if i != len(body) - 1:
                fail(st, 'return before end')
            out = ret_hook(tr, st.value) if ret_hook else tr.expr(st.value)
            for cn, val in reversed(lets):
                out = 'let %s := %s in\n    %s' % (cn, val, out)
            return out
        else:
            fail(st, 'statement form')
    fail(body[-1] if body else 'empty', 'no return')


def find_class(tree, name):
    for n in tree.body:
        if isinstance(n, ast.ClassDef) and n.name == name:
            return n
    raise Unsupported('class %s not found' % name)


def find_method(cls, name):
    for n in cls.body:
        if isinstance(n, ast.FunctionDef) and n.name == name:
            return n
    return None


def find_func(tree, name):
    for n in tree.body:
        if isinstance(n, ast.FunctionDef) and n.name == name:
            return n
    raise Unsupported('function %s not found' % name)


def argnames(fn):
    return [a.arg for a in fn.args.args]


# ----------------------------------------------------------------------------- extended-real (NaN-aware) mode
class TrE:
    """translates the same Python expression into IEEE special-value semantics (Base/ExtReal.v); tiny subset, fail closed"""

    def __init__(self, env):
        self.env = env

    def expr(self, n):
        env = self.env
        if isinstance(n, ast.Constant) and isinstance(n.value, (int, float)) and not isinstance(n.value, bool):
            return '(Fin %s)' % const(n.value)
        if isinstance(n, ast.Name) and n.id in env.names:
            return env.names[n.id]
        if isinstance(n, ast.Attribute):
            key = Tr(env).attr_key(n)
            if key in env.attrs:
                return '(Fin %s)' % env.attrs[key]
        if isinstance(n, ast.BinOp):
            if isinstance(n.op, ast.Sub):
                return '(Esub %s %s)' % (self.expr(n.left), self.expr(n.right))
            if isinstance(n.op, ast.Add):
                return '(Eadd %s %s)' % (self.expr(n.left), self.expr(n.right))
            if isinstance(n.op, ast.Pow):
                c = Tr(env).num_const(n.right)
                if c in (-1, -2, -1.0, -2.0):
                    return '(Epow_neg %d %s)' % (int(-c), self.expr(n.left))
        if isinstance(n, ast.Call) and ast.unparse(n.func) == 'np.log' and len(n.args) == 1:
            return '(Eln %s)' % self.expr(n.args[0])
        if isinstance(n, ast.Call) and getattr_default(n, env) is not None:
            return '(Fin %s)' % getattr_default(n, env)
        fail(n, 'expression outside the NaN-aware subset')


# ----------------------------------------------------------------------------- links
LINK_CLASSES = ['IdentityLink', 'LogitLink', 'LogLink', 'InverseLink', 'InvSquaredLink']


CHECK_Y_NAN_TEST = "if np.any(np.isnan(link.link(y, dist))):"


def gen_links(repo):
    src = os.path.join(repo, 'pygam', 'links.py')
    tree = ast.parse(open(src).read())
    out = [PRELUDE % dict(src='pygam/links.py'), 'From PG Require Import Base.ExtReal.']
    # utils.check_y rejects exactly when the link of some target is NaN
    usrc = open(os.path.join(repo, 'pygam', 'utils.py')).read()
    cy = find_func(ast.parse(usrc), 'check_y')
    tests = [ast.unparse(n.test) for n in ast.walk(cy) if isinstance(n, ast.If)]
    if 'np.any(np.isnan(link.link(y, dist)))' not in tests:
        raise Unsupported('check_y no longer tests np.any(np.isnan(link.link(y, dist)))')
    # the LINKS registry must name exactly the classes we translate
    reg = None
    for n in tree.body:
        if isinstance(n, ast.Assign) and ast.unparse(n.targets[0]) == 'LINKS':
            reg = {k.value: ast.unparse(v) for k, v in zip(n.value.keys, n.value.values)}
    if reg is None or sorted(reg.values()) != sorted(LINK_CLASSES):
        raise Unsupported('LINKS registry changed: %r' % (reg,))
    out.append('(* LINKS registry: %s *)' % ', '.join('%s -> %s' % kv for kv in sorted(reg.items())))
    for cname in LINK_CLASSES:
        cls = find_class(tree, cname)
        for meth, arg in (('link', 'mu'), ('mu', 'lp'), ('gradient', 'mu')):
            fn = find_method(cls, meth)
            if fn is None:
                raise Unsupported('%s.%s missing' % (cname, meth))
            if argnames(fn) != ['self', arg, 'dist']:
                fail(fn, 'signature')
            env = Env(names={arg: arg}, attrs={('dist', 'levels'): 'levels'})
            body = body_to_expr(Tr(env), fn.body)
            out.append('Definition Gen_%s_%s (levels %s : R) : R :=\n    %s.' % (cname, meth, arg, body))
            if meth == 'link':
                st = strip_doc(fn.body)
                if len(st) != 1 or not isinstance(st[0], ast.Return):
                    fail(fn, 'link body must be a single return for the NaN-aware translation')
                e = TrE(Env(names={arg: arg}, attrs={('dist', 'levels'): 'levels'})).expr(st[0].value)
                out.append('Definition GenE_%s_link (levels : R) (%s : ER) : ER :=\n    %s.' % (cname, arg, e))
    d = GETATTR_DEFAULTS.get(('dist', 'levels'))
    if d is not None and d != 1:
        raise Unsupported("getattr(dist, 'levels', %r): the models pass levels = 1 for distributions without levels" % (d,))
    out.append('(* `levels` is dist.levels%s *)' % ("; the source reads it as getattr(dist, 'levels', 1): a distribution without the attribute counts as one trial"
                                                 if d is not None else ''))
    out.append('Definition Gen_levels_default : R := 1.')
    return '\n'.join(out) + '\n'


# ----------------------------------------------------------------------------- distributions
DIST_CLASSES = ['NormalDist', 'BinomialDist', 'PoissonDist', 'GammaDist', 'InvGaussDist']

YLOGYDU_EXPECT = ("mask = np.atleast_1d(y) != 0.0\nout = np.zeros_like(u)\n"
                  "out[mask] = y[mask] * np.log(y[mask] / u[mask])\nreturn out")

SPEC = """
(* --- specification functions of the SciPy / NumPy primitives the code calls (DESIGN 3.6); the correspondence check
   exercises each against the real library on every run --- *)
Definition Spec_norm_logpdf (x loc sc : R) : R := - ln sc - ln (2 * PI) / 2 - (x - loc) * (x - loc) / (2 * (sc * sc)).
(* binomial / poisson / gamma / inverse-gaussian log densities are given up to the additive term that does not depend on
   the mean parameter (lnGamma / ln y! / ln choose): the properties only use differences at a fixed y.  *)
Definition xlny (x y : R) : R := if Req_EM_T x 0 then 0 else x * ln y.
Definition Spec_binom_logpmf_kernel (k n p : R) : R := xlny k p + xlny (n - k) (1 - p).
Definition Spec_poisson_logpmf_kernel (k mu : R) : R := xlny k mu - mu.
Definition Spec_gamma_logpdf_kernel (x a sc : R) : R := - a * ln sc - x / sc.            (* + (a-1) ln x - lnGamma a *)
(* scipy.stats.invgauss.logpdf(x, mu, scale=s): density of s * IG(mu, 1) at x *)
Definition Spec_invgauss_logpdf (x mu s : R) : R :=
  let z := x / s in - ln s - ln (2 * PI * (z * z * z)) / 2 - (z - mu) * (z - mu) / (2 * z * (mu * mu)).
(* documented moments of the NumPy samplers *)
Definition Spec_normal_mean (loc sc : R) := loc.      Definition Spec_normal_var (loc sc : R) := sc * sc.
Definition Spec_binomial_mean (n p : R) := n * p.      Definition Spec_binomial_var (n p : R) := n * p * (1 - p).
Definition Spec_poisson_mean (lam : R) := lam.         Definition Spec_poisson_var (lam : R) := lam.
Definition Spec_gamma_mean (shape sc : R) := shape * sc.   Definition Spec_gamma_var (shape sc : R) := shape * (sc * sc).
Definition Spec_wald_mean (mean sc : R) := mean.       Definition Spec_wald_var (mean sc : R) := mean * mean * mean / sc.
"""

LOGPDF_CALLS = {
    'sp.stats.norm.logpdf': ('Spec_norm_logpdf', ['x', 'loc', 'scale']),
    'sp.stats.binom.logpmf': ('Spec_binom_logpmf_kernel', ['k', 'n', 'p']),
    'sp.stats.poisson.logpmf': ('Spec_poisson_logpmf_kernel', ['k', 'mu']),
    'sp.stats.gamma.logpdf': ('Spec_gamma_logpdf_kernel', ['x', 'a', 'scale']),
    'sp.stats.invgauss.logpdf': ('Spec_invgauss_logpdf', ['x', 'mu', 'scale']),
}
SAMPLE_CALLS = {
    'np.random.normal': ('normal', ['loc', 'scale']),
    'np.random.binomial': ('binomial', ['n', 'p']),
    'np.random.poisson': ('poisson', ['lam']),
    'np.random.gamma': ('gamma', ['shape', 'scale']),
    'np.random.wald': ('wald', ['mean', 'scale']),
}


def bind_call_args(call, names, allow_extra=()):
    """positional + keyword arguments of a library call -> dict name -> ast"""
    got = {}
    for i, a in enumerate(call.args):
        if i >= len(names):
            fail(call, 'too many positional arguments')
        got[names[i]] = a
    for kw in call.keywords:
        if kw.arg in allow_extra:
            continue
        if kw.arg not in names or kw.arg in got:
            fail(call, 'unexpected keyword %s' % kw.arg)
        got[kw.arg] = kw.value
    if sorted(got) != sorted(names):
        fail(call, 'arguments %s, expected %s' % (sorted(got), names))
    return got


def dist_call_hook(tr, n):
    f = ast.unparse(n.func)
    if f == 'ylogydu' and len(n.args) == 2:
        return '(Gen_ylogydu %s %s)' % (tr.expr(n.args[0]), tr.expr(n.args[1]))
    return None


def decorator_names(fn):
    return [ast.unparse(d) for d in fn.decorator_list]


def gen_dists(repo):
    src = os.path.join(repo, 'pygam', 'distributions.py')
    tree = ast.parse(open(src).read())
    utree = ast.parse(open(os.path.join(repo, 'pygam', 'utils.py')).read())
    out = [PRELUDE % dict(src='pygam/distributions.py, pygam/utils.py (ylogydu)'), SPEC]
    # ylogydu: array idiom, recognised by shape (fail closed on any edit)
    yl = find_func(utree, 'ylogydu')
    got = '\n'.join(ast.unparse(s) for s in strip_doc(yl.body))
    if got != YLOGYDU_EXPECT or argnames(yl) != ['y', 'u']:
        raise Unsupported('utils.ylogydu changed shape:\n' + got)
    out.append('(* utils.ylogydu: 0 where y = 0, y * log(y/u) elsewhere *)\n'
               'Definition Gen_ylogydu (y u : R) : R := if Req_EM_T y 0 then 0 else y * ln (y / u).')
    # decorators
    for dname, expect in (('multiply_weights', 'return deviance(self, y, mu, **kwargs) * weights'),
                          ('divide_weights', 'return V(self, mu, **kwargs) / weights')):
        d = find_func(utree if False else tree, dname)
        inner = [x for x in d.body if isinstance(x, ast.FunctionDef)]
        if len(inner) != 1 or ast.unparse(inner[0].body[-1]) != expect or not is_default_weights_idiom(inner[0].body[0]):
            raise Unsupported('decorator %s changed' % dname)
    reg = None
    for n in tree.body:
        if isinstance(n, ast.Assign) and ast.unparse(n.targets[0]) == 'DISTRIBUTIONS':
            reg = {k.value: ast.unparse(v) for k, v in zip(n.value.keys, n.value.values)}
    if reg is None or sorted(reg.values()) != sorted(DIST_CLASSES):
        raise Unsupported('DISTRIBUTIONS registry changed: %r' % (reg,))
    attrs = {('self', 'scale'): 'scale', ('self', 'levels'): 'levels'}
    for cname in DIST_CLASSES:
        cls = find_class(tree, cname)
        # V
        fn = find_method(cls, 'V')
        if argnames(fn) != ['self', 'mu'] or decorator_names(fn) != ['divide_weights']:
            fail(fn, 'V signature/decorator')
        body = body_to_expr(Tr(Env(names={'mu': 'mu'}, attrs=attrs, call_hook=dist_call_hook)), fn.body)
        out.append('Definition Gen_%s_V0 (levels mu : R) : R :=\n    %s.' % (cname, body))
        out.append('Definition Gen_%s_V (levels w mu : R) : R := Gen_%s_V0 levels mu / w.   (* @divide_weights *)' % (cname, cname))
        # deviance
        fn = find_method(cls, 'deviance')
        if argnames(fn) != ['self', 'y', 'mu', 'scaled'] or decorator_names(fn) != ['multiply_weights']:
            fail(fn, 'deviance signature/decorator')
        env = Env(names={'y': 'y', 'mu': 'mu', 'scaled': 'scaled'}, attrs=attrs, bools={'scaled'}, call_hook=dist_call_hook)
        body = body_to_expr(Tr(env), fn.body)
        out.append('Definition Gen_%s_deviance0 (scaled : bool) (scale levels y mu : R) : R :=\n    %s.' % (cname, body))
        out.append('Definition Gen_%s_deviance (scaled : bool) (scale levels w y mu : R) : R := Gen_%s_deviance0 scaled scale levels y mu * w.   (* @multiply_weights *)' % (cname, cname))
        # log_pdf
        fn = find_method(cls, 'log_pdf')
        if argnames(fn) != ['self', 'y', 'mu', 'weights']:
            fail(fn, 'log_pdf signature')
        env = Env(names={'y': 'y', 'mu': 'mu', 'weights': 'w'}, attrs=attrs, call_hook=dist_call_hook)

        def ret_logpdf(tr, value):
            if not isinstance(value, ast.Call) or ast.unparse(value.func) not in LOGPDF_CALLS:
                fail(value, 'log_pdf must return a known scipy.stats log density')
            spec, names = LOGPDF_CALLS[ast.unparse(value.func)]
            b = bind_call_args(value, names, allow_extra=())
            if 'loc' in names and 'loc' not in b:
                fail(value, 'loc missing')
            return '%s %s' % (spec, ' '.join(tr.expr(b[k]) for k in names))
        body = body_to_expr(Tr(env), fn.body, ret_hook=ret_logpdf)
        out.append('Definition Gen_%s_log_pdf (scale levels w y mu : R) : R :=\n    %s.' % (cname, body))
        # sample
        fn = find_method(cls, 'sample')
        if argnames(fn) != ['self', 'mu']:
            fail(fn, 'sample signature')
        env = Env(names={'mu': 'mu'}, attrs=attrs, call_hook=dist_call_hook)
        holder = {}

        def ret_sample(tr, value):
            if not isinstance(value, ast.Call) or ast.unparse(value.func) not in SAMPLE_CALLS:
                fail(value, 'sample must return a known numpy.random primitive')
            prim, names = SAMPLE_CALLS[ast.unparse(value.func)]
            b = bind_call_args(value, names, allow_extra=('size',))
            holder['prim'] = prim
            return '(%s)' % ', '.join(tr.expr(b[k]) for k in names) if len(names) > 1 else tr.expr(b[names[0]])
        body = body_to_expr(Tr(env), fn.body, ret_hook=ret_sample)
        prim = holder['prim']
        names = dict((v[0], v[1]) for v in SAMPLE_CALLS.values())[prim]
        ty = 'R * R' if len(names) == 2 else 'R'
        out.append('(* %s.sample draws np.random.%s(%s) *)' % (cname, prim, ', '.join(names)))
        out.append('Definition Gen_%s_sample_args (scale levels mu : R) : %s :=\n    %s.' % (cname, ty, body))
        if len(names) == 2:
            out.append('Definition Gen_%s_sample_mean (scale levels mu : R) : R := let a := Gen_%s_sample_args scale levels mu in Spec_%s_mean (fst a) (snd a).' % (cname, cname, prim))
            out.append('Definition Gen_%s_sample_var (scale levels mu : R) : R := let a := Gen_%s_sample_args scale levels mu in Spec_%s_var (fst a) (snd a).' % (cname, cname, prim))
        else:
            out.append('Definition Gen_%s_sample_mean (scale levels mu : R) : R := Spec_%s_mean (Gen_%s_sample_args scale levels mu).' % (cname, prim, cname))
            out.append('Definition Gen_%s_sample_var (scale levels mu : R) : R := Spec_%s_var (Gen_%s_sample_args scale levels mu).' % (cname, prim, cname))
    # Distribution.phi
    base = find_class(tree, 'Distribution')
    fn = find_method(base, 'phi')
    expect = ("if self._known_scale:\n    return self.scale\nelse:\n    return np.sum(weights * self.V(mu) ** (-1) * (y - mu) ** 2) / (len(mu) - edof)")
    got = '\n'.join(ast.unparse(s) for s in strip_doc(fn.body))
    if got != expect or argnames(fn) != ['self', 'y', 'mu', 'edof', 'weights']:
        raise Unsupported('Distribution.phi changed shape:\n' + got)
    out.append("""(* Distribution.phi: the user's scale if known, else the weighted Pearson statistic / (n - edof);
   V is the family's variance function at unit weight (self.V(mu) is called without weights) *)
Fixpoint Gen_pearson (V0 : R -> R) (ws ys mus : list R) : R :=
  match ws, ys, mus with
  | w :: ws', y :: ys', mu :: mus' => w * / V0 mu * ((y - mu) * (y - mu)) + Gen_pearson V0 ws' ys' mus'
  | _, _, _ => 0
  end.
Definition Gen_phi (known_scale : bool) (scale : R) (V0 : R -> R) (edof : R) (ws ys mus : list R) : R :=
  if known_scale then scale else Gen_pearson V0 ws ys mus / (INR (length mus) - edof).""")
    return '\n'.join(out) + '\n'


# ----------------------------------------------------------------------------- GAM.fit prefix (order of validation vs. state change)
def gen_fitprefix(repo):
    tree = ast.parse(open(os.path.join(repo, 'pygam', 'pygam.py')).read())
    fit = find_method(find_class(tree, 'GAM'), 'fit')
    if argnames(fit) != ['self', 'X', 'y', 'weights']:
        fail(fit, 'fit signature')
    evs = []
    for st in strip_doc(fit.body):
        txt = ast.unparse(st)
        uses_y = any(isinstance(n, ast.Name) and n.id == 'y' for n in ast.walk(st))
        if txt == 'self._validate_params()':
            ev = 'EvValidateParams'
        elif txt.startswith('y = check_y(y, self.link, self.distribution'):
            ev = 'EvCheckY'
        elif txt.startswith('X = check_X(X'):
            ev = 'EvCheckX'
        elif txt == 'check_X_y(X, y)':
            ev = 'EvCheckXy'
        elif isinstance(st, ast.If) and txt.startswith('if weights is not None:'):
            ev = 'EvWeights'
        elif txt == 'self._validate_data_dep_params(X)':
            ev = 'EvDataDep'
        elif isinstance(st, ast.If) and "hasattr(self, 'logs_')" in txt:
            ev = 'EvLogs'
        elif isinstance(st, ast.Assign) and txt.startswith('self.statistics_'):
            ev = 'EvStats'
        elif txt == 'self._pirls(X, y, weights)':
            ev = 'EvPirls'
        elif txt == 'return self':
            ev = 'EvReturn'
        else:
            fail(st, 'unrecognised statement in GAM.fit')
        evs.append('(%s, %s)' % (ev, 'true' if uses_y else 'false'))
    return ('(* GENERATED by /verif/translator/py2coq.py from pygam/pygam.py (GAM.fit) -- do not edit *)\n'
            'From Coq Require Import List Bool.\nImport ListNotations.\n'
            'Inductive fit_event := EvValidateParams | EvCheckY | EvCheckX | EvCheckXy | EvWeights | EvDataDep | EvLogs | EvStats | EvPirls | EvReturn.\n'
            '(* top-level statements of GAM.fit in order; the flag says whether the statement mentions y *)\n'
            'Definition Gen_fit_events : list (fit_event * bool) :=\n  [%s].\n' % ';\n   '.join(evs))


# ----------------------------------------------------------------------------- driver
GENERATORS = {'links': ('Links.v', gen_links), 'dists': ('Dists.v', gen_dists), 'fitprefix': ('FitPrefix.v', gen_fitprefix)}


def register(name, filename, fn):
    GENERATORS[name] = (filename, fn)


def generate(target, repo, coqdir):
    if target not in GENERATORS:
        # optional extra generators living in sibling modules: gen_<target>.py with FILENAME and generate(repo)
        mod = __import__('gen_' + target)
        GENERATORS[target] = (mod.FILENAME, mod.generate)
    fname, fn = GENERATORS[target]
    path = os.path.join(coqdir, 'Gen', fname)
    try:
        text = fn(repo)
    except Exception:
        # fail closed: never leave a stale definition file from an earlier (possibly different) tree in place
        stub = '(* translation of target %s FAILED on this tree: see the broken translation obligation *)\nDefinition translation_failed_%s : False := I.\n' % (target, target)
        os.makedirs(os.path.dirname(path), exist_ok=True)
        if not os.path.exists(path) or open(path).read() != stub:
            with open(path, 'w') as f:
                f.write(stub)
        raise
    os.makedirs(os.path.dirname(path), exist_ok=True)
    old = open(path).read() if os.path.exists(path) else None
    if old != text:
        with open(path, 'w') as f:
            f.write(text)
    return path


def generate_everything(repo, coqdir):
    """regenerate every Gen file from `repo` (what `--all` does), quietly; returns {target: error}.  Called at the start of every
    check so that coq/Gen never holds definitions (or failure stubs) of another tree."""
    here = os.path.dirname(os.path.abspath(__file__))
    if here not in sys.path:
        sys.path.insert(0, here)
    failed = {}
    targets = list(GENERATORS)
    for f in sorted(os.listdir(here)):
        if f.startswith('gen_') and f.endswith('.py') and f[4:-3] not in targets:
            targets.append(f[4:-3])
    for f in sorted(os.listdir(here)):
        if f.startswith('skel_') and f.endswith('.py'):
            try:
                mod = __import__(f[:-3])
                if hasattr(mod, 'generate_all'):
                    mod.generate_all(repo, coqdir)
                elif hasattr(mod, 'generate'):
                    mod.generate(repo, coqdir)
            except Exception as e:
                failed[f[:-3]] = '%s: %s' % (type(e).__name__, e)
    for t in targets:
        try:
            generate(t, repo, coqdir)
        except Exception as e:
            failed[t] = '%s: %s' % (type(e).__name__, e)
    return failed


def main():
    here = os.path.dirname(os.path.abspath(__file__))
    sys.path.insert(0, here)
    repo = os.environ.get('VERIF_REPO', '/repo')
    coqdir = os.path.join(os.path.dirname(here), 'coq')
    targets = sys.argv[1:]
    if targets == ['--all'] or not targets:
        targets = list(GENERATORS)
        for f in sorted(os.listdir(here)):
            if f.startswith('gen_') and f.endswith('.py'):
                targets.append(f[4:-3])
        for f in sorted(os.listdir(here)):
            if f.startswith('skel_') and f.endswith('.py'):
                try:
                    mod = __import__(f[:-3])
                    if hasattr(mod, 'generate_all'):
                        mod.generate_all(repo, coqdir)
                        print('generated', f)
                    elif hasattr(mod, 'generate'):
                        mod.generate(repo, coqdir)
                        print('generated', f)
                except Exception as e:
                    print('FAILED', f, type(e).__name__, e)
    rc = 0
    for t in targets:
        try:
            print('generated', generate(t, repo, coqdir))
        except Exception as e:
            print('FAILED', t, type(e).__name__, e)
            rc = 1
    sys.exit(rc)


if __name__ == '__main__':
    main()
