"""Generator 'stats': scalar formulas of pygam/pygam.py -> coq/Gen/Stats.v (real-valued definitions).
   _W, _pseudo_data, ExpectileGAM._W, _estimate_AIC/AICc/GCV_UBRE/r2, PoissonGAM._exposure_to_weights (scalar core),
   _get_quantiles (alpha from width), deviance_residuals, accuracy threshold.  Fail-closed."""
import ast
import os

from py2coq import Env, Tr, Unsupported, fail, find_class, find_method, strip_doc, argnames, PRELUDE, body_to_expr

FILENAME = 'Stats.v'


def hook_W(tr, n):
    f = ast.unparse(n.func)
    if f == 'sp.sparse.diags' and len(n.args) == 1:
        return tr.expr(n.args[0])
    if f == 'self.link.gradient':
        return 'gp'
    if f == 'self.distribution.V':
        return 'V'
    return None


def one_return(fn):
    body = strip_doc(fn.body)
    if len(body) != 1 or not isinstance(body[0], ast.Return):
        fail(fn, 'expected a single return')
    return body[0].value


def generate(repo):
    tree = ast.parse(open(os.path.join(repo, 'pygam', 'pygam.py')).read())
    gam = find_class(tree, 'GAM')
    out = [PRELUDE % dict(src='pygam/pygam.py')]
    # ---- _W : the diagonal of the working-weight matrix W (NOT squared)
    fn = find_method(gam, '_W')
    if argnames(fn) != ['self', 'mu', 'weights', 'y']:
        fail(fn, '_W signature')
    e = Tr(Env(names={'mu': 'mu', 'weights': 'w', 'y': 'y'}, call_hook=hook_W)).expr(one_return(fn))
    out.append('(* GAM._W: gp = link.gradient(mu), V = distribution.V(mu) at unit weight, w = sample weight *)')
    out.append('Definition Gen_W (gp V w : R) : R :=\n    %s.' % e)
    # ---- _pseudo_data
    fn = find_method(gam, '_pseudo_data')
    if argnames(fn) != ['self', 'y', 'lp', 'mu']:
        fail(fn, '_pseudo_data signature')
    e = Tr(Env(names={'mu': 'mu', 'lp': 'lp', 'y': 'y'}, call_hook=hook_W)).expr(one_return(fn))
    out.append('Definition Gen_pseudo_data (gp lp y mu : R) : R :=\n    %s.' % e)
    # ---- ExpectileGAM._W
    eg = find_class(tree, 'ExpectileGAM')
    fn = find_method(eg, '_W')
    if argnames(fn) != ['self', 'mu', 'weights', 'y']:
        fail(fn, 'ExpectileGAM._W signature')
    env = Env(names={'mu': 'mu', 'weights': 'w', 'y': 'y'}, attrs={('self', 'expectile'): 'tau'}, call_hook=hook_W)
    e = body_to_expr(Tr(env), fn.body)
    out.append('Definition Gen_Expectile_W (tau gp V w y mu : R) : R :=\n    %s.' % e)
    # ---- _mask threshold: (np.abs(weights) >= np.sqrt(EPS)) * np.isfinite(weights)
    fn = find_method(gam, '_mask')
    first = ast.unparse(strip_doc(fn.body)[0])
    if first != 'mask = (np.abs(weights) >= np.sqrt(EPS)) * np.isfinite(weights)':
        raise Unsupported('GAM._mask changed: ' + first)
    out.append('(* GAM._mask keeps the observations with |W| >= sqrt(EPS) (and finite), EPS = 2^-52 *)')
    out.append('Definition Gen_mask (W : R) : bool := Rleb (sqrt (/ 4503599627370496)) (Rabs W).')
    # ---- AIC / AICc / GCV / UBRE / r2
    stat_sub = {"self.statistics_['edof']": 'edof', "self.statistics_['AIC']": 'AIC'}

    def stat_hook(tr, n):
        f = ast.unparse(n.func)
        if f == 'self._loglikelihood':
            return 'll'
        return None
    fn = find_method(gam, '_estimate_AIC')
    env = Env(names={}, attrs={('self', 'distribution', '_known_scale'): 'known_scale'}, bools={('self', 'distribution', '_known_scale')},
              call_hook=stat_hook, subscripts=stat_sub)
    e = body_to_expr(Tr(env), fn.body)
    out.append('Definition Gen_AIC (known_scale : bool) (ll edof : R) : R :=\n    %s.' % e)
    fn = find_method(gam, '_estimate_AICc')
    body = strip_doc(fn.body)
    # edof = ...; if AIC is None: recompute; return AIC + 2 (edof+1)(edof+2)/(n - edof - 2)
    if not (isinstance(body[1], ast.If) and ast.unparse(body[1].test) == "self.statistics_['AIC'] is None"):
        fail(fn, '_estimate_AICc shape')
    env = Env(names={}, attrs={('y', 'shape'): None}, call_hook=stat_hook, subscripts=dict(stat_sub, **{'y.shape[0]': 'n'}))
    e = body_to_expr(Tr(env), [body[0], body[2]])
    out.append('Definition Gen_AICc (AIC edof n : R) : R :=\n    %s.' % e)
    fn = find_method(gam, '_estimate_GCV_UBRE')
    src = {ast.unparse(s.targets[0]): s.value for s in ast.walk(fn) if isinstance(s, ast.Assign) and len(s.targets) == 1}
    defaults = dict(zip([a.arg for a in fn.args.args][-len(fn.args.defaults):], fn.args.defaults))
    gamma = defaults['gamma'].value
    add_scale = defaults['add_scale'].value
    if not isinstance(add_scale, bool):
        fail(fn, 'add_scale default')
    env = Env(names={'n': 'n', 'dev': 'dev', 'edof': 'edof', 'scale': 'scale', 'gamma': 'gamma', 'add_scale': 'add_scale'}, bools={'add_scale'})
    ubre = Tr(env).expr(src['UBRE'] if not isinstance(src['UBRE'], ast.Constant) else
                        [s.value for s in ast.walk(fn) if isinstance(s, ast.Assign) and ast.unparse(s.targets[0]) == 'UBRE' and not isinstance(s.value, ast.Constant)][0])
    gcv = Tr(env).expr([s.value for s in ast.walk(fn) if isinstance(s, ast.Assign) and ast.unparse(s.targets[0]) == 'GCV' and not isinstance(s.value, ast.Constant)][0])
    from py2coq import const
    out.append('Definition Gen_gamma_default : R := %s.' % const(gamma))
    out.append('Definition Gen_add_scale_default : bool := %s.' % ('true' if add_scale else 'false'))
    out.append('Definition Gen_UBRE (add_scale : bool) (gamma n dev edof scale : R) : R :=\n    %s.' % ubre)
    out.append('Definition Gen_GCV (gamma n dev edof : R) : R :=\n    %s.' % gcv)
    # which branch: known scale -> UBRE else GCV
    iff = [s for s in fn.body if isinstance(s, ast.If) and ast.unparse(s.test) == 'self.distribution._known_scale']
    if len(iff) != 1 or 'UBRE' not in ast.unparse(iff[0].body[-1]) or 'GCV' not in ast.unparse(iff[0].orelse[-1]):
        fail(fn, 'GCV/UBRE branch')
    fn = find_method(gam, '_estimate_r2')
    r2 = {}
    for s in ast.walk(fn):
        if isinstance(s, ast.Assign) and isinstance(s.targets[0], ast.Subscript) and ast.unparse(s.targets[0].value) == 'r2':
            r2[s.targets[0].slice.value] = s.value
    env = Env(names={'full_ll': 'full_ll', 'null_ll': 'null_ll'}, subscripts=dict(stat_sub, **{'full_d.sum()': 'full_d', 'null_d.sum()': 'null_d'}))

    class TrR(Tr):
        def call(self, n):
            k = ast.unparse(n)
            if k in self.env.subscripts:
                return self.env.subscripts[k]
            return Tr.call(self, n)
    out.append('Definition Gen_explained_deviance (full_d null_d : R) : R :=\n    %s.' % TrR(env).expr(r2['explained_deviance']))
    out.append('Definition Gen_McFadden (full_ll null_ll : R) : R :=\n    %s.' % TrR(env).expr(r2['McFadden']))
    out.append('Definition Gen_McFadden_adj (full_ll null_ll edof : R) : R :=\n    %s.' % TrR(env).expr(r2['McFadden_adj']))
    nm = [s for s in ast.walk(fn) if isinstance(s, ast.Assign) and ast.unparse(s.targets[0]) == 'null_mu']
    if len(nm) != 1 or ast.unparse(nm[0].value) != "y.mean() * np.ones_like(y).astype('float64')":
        fail(fn, 'null model mean')
    # ---- PoissonGAM._exposure_to_weights scalar core: y / exposure, weights * exposure
    pg = find_class(tree, 'PoissonGAM')
    fn = find_method(pg, '_exposure_to_weights')
    lines = [ast.unparse(s) for s in strip_doc(fn.body)]
    for need in ('y = y / exposure', 'weights = weights * exposure', 'return (y, weights)'):
        if need not in lines:
            raise Unsupported('PoissonGAM._exposure_to_weights no longer contains `%s`' % need)
    if lines.index('y = y / exposure') > lines.index('weights = weights * exposure'):
        pass
    out.append('(* PoissonGAM._exposure_to_weights: rate and weight handed to the base class *)')
    out.append('Definition Gen_exposure_rate (y e : R) : R := y / e.')
    out.append('Definition Gen_exposure_weight (w e : R) : R := w * e.')
    # ---- deviance_residuals: sign(y - mu) * deviance ** 0.5 ; LogisticGAM.accuracy ; statistics table ; Wald recipe
    fn = find_method(gam, 'deviance_residuals')
    tail = [ast.unparse(s_) for s_ in strip_doc(fn.body)][-3:]
    if tail != ['mu = self.predict_mu(X)', 'sign = np.sign(y - mu)',
                'return sign * self.distribution.deviance(y, mu, weights=weights, scaled=scaled) ** 0.5']:
        raise Unsupported('deviance_residuals changed: %r' % tail)
    out.append('(* deviance_residuals: sign(y - mu) * sqrt(weighted deviance) *)')
    out.append('Definition Gen_sign (x : R) : R := if Rltb 0 x then 1 else if Rltb x 0 then - 1 else 0.')
    out.append('Definition Gen_deviance_residual (y mu dev : R) : R := Gen_sign (y - mu) * sqrt dev.')
    lg = find_class(tree, 'LogisticGAM')
    fn = find_method(lg, 'accuracy')
    if ast.unparse(strip_doc(fn.body)[-1]) != 'return ((mu > 0.5).astype(int) == y).mean()':
        raise Unsupported('LogisticGAM.accuracy changed')
    out.append('(* LogisticGAM.accuracy: mean of [ (mu > 0.5) == y ] *)')
    out.append('Definition Gen_accuracy_hit (y mu : R) : bool := Reqb (b2r (Rltb (1 / 2) mu)) y.')
    fn = find_method(gam, '_estimate_model_statistics')
    table = {}
    for st in strip_doc(fn.body):
        if isinstance(st, ast.Assign) and isinstance(st.targets[0], ast.Subscript) and ast.unparse(st.targets[0].value) == 'self.statistics_':
            table[st.targets[0].slice.value] = ast.unparse(st.value)
        if isinstance(st, ast.Assign) and isinstance(st.targets[0], ast.Tuple):
            for e_ in st.targets[0].elts:
                table[e_.slice.value] = ast.unparse(st.value)
    expect = {
        'edof_per_coef': 'np.diagonal(U1.dot(U1.T))', 'edof': "self.statistics_['edof_per_coef'].sum()",
        'scale': 'self.distribution.scale', 'cov': 'B.dot(B.T) * self.distribution.scale', 'se': "self.statistics_['cov'].diagonal() ** 0.5",
        'AIC': 'self._estimate_AIC(y=y, mu=mu, weights=weights)', 'AICc': 'self._estimate_AICc(y=y, mu=mu, weights=weights)',
        'pseudo_r2': 'self._estimate_r2(y=y, mu=mu, weights=weights)',
        'GCV': 'self._estimate_GCV_UBRE(modelmat=modelmat, y=y, weights=weights)', 'UBRE': 'self._estimate_GCV_UBRE(modelmat=modelmat, y=y, weights=weights)',
        'loglikelihood': 'self._loglikelihood(y, mu, weights=weights)', 'deviance': 'self.distribution.deviance(y=y, mu=mu, weights=weights).sum()',
        'p_values': 'self._estimate_p_values()'}
    if table != expect:
        raise Unsupported('_estimate_model_statistics changed: %r' % {k: v for k, v in table.items() if expect.get(k) != v})
    scale_if = [st for st in strip_doc(fn.body) if isinstance(st, ast.If)]
    if len(scale_if) != 1 or ast.unparse(scale_if[0].test) != 'not self.distribution._known_scale' or \
            ast.unparse(scale_if[0].body[0]) != "self.distribution.scale = self.distribution.phi(y=y, mu=mu, edof=self.statistics_['edof'], weights=weights)":
        raise Unsupported('scale estimation changed')
    fn = find_method(gam, '_compute_p_value')
    lines = [ast.unparse(s_) for s_ in strip_doc(fn.body)[1:]]
    expect_p = ['idxs = self.terms.get_coef_indices(term_i)', "cov = self.statistics_['cov'][idxs][:, idxs]", 'coef = self.coef_[idxs]',
                'if isinstance(self.terms[term_i], SplineTerm):\n    coef -= coef.mean()',
                'inv_cov, rank = sp.linalg.pinv(cov, return_rank=True)', 'score = coef.T.dot(inv_cov).dot(coef)',
                "if self.distribution._known_scale:\n    return 1 - sp.stats.chi2.cdf(x=score, df=rank)\nelse:\n    score = score / rank\n    return 1 - sp.stats.f.cdf(score, rank, self.statistics_['n_samples'] - self.statistics_['edof'])"]
    if lines != expect_p:
        raise Unsupported('_compute_p_value changed: %r' % lines)
    out.append('(* _compute_p_value (recognised by shape): own covariance block, spline coefficients centred, Wald score = c\' pinv(cov) c;\n   known scale: 1 - chi2.cdf(score, rank); else 1 - F.cdf(score / rank, rank, n - edof) *)')
    out.append('Definition Gen_wald_known (cdf_chi2 : R -> R -> R) (score rank : R) : R := 1 - cdf_chi2 score rank.')
    out.append('Definition Gen_wald_unknown (cdf_f : R -> R -> R -> R) (score rank n edof : R) : R := 1 - cdf_f (score / rank) rank (n - edof).')
    return '\n'.join(out) + '\n'
