"""Generator 'fitquantile': ExpectileGAM.fit_quantile / _get_quantile_ratio / _validate_params -> coq/Gen/FitQuantile.v.

The *shape* of the bisection loop is matched statement by statement (fail closed: any other statement, order or call
raises Unsupported); the *expressions* that decide the behaviour -- argument checks, initial bracket, loop guard, break
test, branch test, what each branch assigns to min_/max_, the new expectile, the counter increment, the expectile range
check of _validate_params and the hit test of _get_quantile_ratio -- are translated from the AST, once over R and once
over binary64 (PrimFloat), so that the theorems of Props/C18.v are re-checked against today's text of the loop."""
import ast
import os

from py2coq import Unsupported, fail, find_class, find_method, strip_doc, argnames

FILENAME = 'FitQuantile.v'


class X:
    """tiny expression translator with two targets: 'R' (Coq reals) and 'F' (PrimFloat)"""

    def __init__(self, target, names, ints=()):
        self.t = target
        self.names = names          # python expression text -> coq variable
        self.ints = set(ints)       # python names that are integers (nat in Coq)

    def num(self, v):
        if isinstance(v, bool) or not isinstance(v, (int, float)):
            raise Unsupported('constant %r' % (v,))
        if self.t == 'R':
            from fractions import Fraction
            fr = Fraction(*float(v).as_integer_ratio())
            if fr.denominator == 1:
                return '%d' % fr.numerator if fr >= 0 else '(%d)' % fr.numerator
            return '(%d / %d)' % (fr.numerator, fr.denominator)
        h = float(v).hex()
        return '(%s)%%float' % h if v >= 0 else '(%s)%%float' % h

    def expr(self, n):
        key = ast.unparse(n)
        if key in self.names:
            return self.names[key]
        if isinstance(n, ast.Constant):
            return self.num(n.value)
        if isinstance(n, ast.BinOp) and isinstance(n.op, (ast.Add, ast.Sub, ast.Mult, ast.Div)):
            op = {ast.Add: '+', ast.Sub: '-', ast.Mult: '*', ast.Div: '/'}[type(n.op)]
            if self.t == 'R':       # real target: every arithmetic result passes through `rnd` (identity = exact reals, or a rounding)
                return '(rnd (%s %s %s))' % (self.expr(n.left), op, self.expr(n.right))
            return '(%s %s %s)%%float' % (self.expr(n.left), op, self.expr(n.right))
        if isinstance(n, ast.Call) and ast.unparse(n.func) == 'np.abs' and len(n.args) == 1 and not n.keywords:
            return '(%s %s)' % ('Rabs' if self.t == 'R' else 'PrimFloat.abs', self.expr(n.args[0]))
        fail(n, 'unsupported expression in fit_quantile')

    def test(self, n):
        if isinstance(n, ast.BoolOp):
            op = ' || ' if isinstance(n.op, ast.Or) else ' && '
            return '(' + op.join(self.test(v) for v in n.values) + ')'
        if isinstance(n, ast.UnaryOp) and isinstance(n.op, ast.Not):
            return '(negb %s)' % self.test(n.operand)
        if isinstance(n, ast.Compare) and len(n.ops) == 1 and isinstance(n.ops[0], ast.In) and isinstance(n.comparators[0], ast.Tuple) \
                and n.comparators[0].elts:
            # `x in (a, b)`: x == a or x == b  (float ==; the identity shortcut of `in` only matters for NaN)
            ex = self.expr(n.left)
            eq = 'fq_Reqb %s %s' if self.t == 'R' else 'PrimFloat.eqb %s %s'
            return '(' + ' || '.join('(' + eq % (ex, self.expr(c)) + ')' for c in n.comparators[0].elts) + ')'
        if isinstance(n, ast.Compare) and len(n.ops) == 1:
            a, b = n.left, n.comparators[0]
            isint = all(isinstance(z, ast.Name) and z.id in self.ints or (isinstance(z, ast.Constant) and isinstance(z.value, int) and not isinstance(z.value, bool)) for z in (a, b)) \
                and any(isinstance(z, ast.Name) and z.id in self.ints for z in (a, b))
            op = type(n.ops[0])
            if isint:
                ea, eb = [('%d%%Z' % z.value) if isinstance(z, ast.Constant) else self.names[z.id] for z in (a, b)]
                f = {ast.Lt: 'Z.ltb %s %s', ast.LtE: 'Z.leb %s %s', ast.Gt: 'Z.ltb %s %s', ast.GtE: 'Z.leb %s %s'}
                if op not in f:
                    fail(n, 'unsupported integer comparison')
                if op in (ast.Gt, ast.GtE):
                    ea, eb = eb, ea
                return '(' + f[op] % (ea, eb) + ')'
            ea, eb = self.expr(a), self.expr(b)
            if op in (ast.Gt, ast.GtE):
                ea, eb = eb, ea
                op = {ast.Gt: ast.Lt, ast.GtE: ast.LtE}[op]
            if op is ast.Lt:
                return '(Rltb %s %s)' % (ea, eb) if self.t == 'R' else '(PrimFloat.ltb %s %s)' % (ea, eb)
            if op is ast.LtE:
                return '(Rleb %s %s)' % (ea, eb) if self.t == 'R' else '(PrimFloat.leb %s %s)' % (ea, eb)
        fail(n, 'unsupported test in fit_quantile')


def is_raise_valueerror(st):
    return isinstance(st, ast.Raise) and isinstance(st.exc, ast.Call) and ast.unparse(st.exc.func) == 'ValueError'


def arg_check(st, var):
    """`if <test on var>: raise ValueError(...)` -> the test"""
    if not (isinstance(st, ast.If) and not st.orelse and len(st.body) == 1 and is_raise_valueerror(st.body[0])):
        fail(st, 'expected an argument check raising ValueError')
    used = {n.id for n in ast.walk(st.test) if isinstance(n, ast.Name)}
    if used != {var}:
        fail(st, 'argument check should mention only `%s`' % var)
    return st.test


def branch_assigns(stmts, where):
    """a branch may only assign min_ / max_ from self.expectile, min_, max_ (simultaneous reading is fine: single assignments)"""
    new = {'min_': 'min_', 'max_': 'max_'}
    for st in stmts:
        if not (isinstance(st, ast.Assign) and len(st.targets) == 1 and isinstance(st.targets[0], ast.Name) and st.targets[0].id in new):
            fail(st, 'unsupported statement in the %s branch of the bisection' % where)
        new[st.targets[0].id] = st.value
    if len(stmts) != 1:
        fail(stmts[0] if stmts else where, 'each bisection branch must be exactly one assignment')
    return new


def generate(repo):
    tree = ast.parse(open(os.path.join(repo, 'pygam', 'pygam.py')).read())
    eg = find_class(tree, 'ExpectileGAM')
    fq = find_method(eg, 'fit_quantile')
    if argnames(fq) != ['self', 'X', 'y', 'quantile', 'max_iter', 'tol', 'weights']:
        fail(fq, 'fit_quantile signature')
    defaults = dict(zip([a.arg for a in fq.args.args][-len(fq.args.defaults):], [ast.literal_eval(d) for d in fq.args.defaults]))
    body = strip_doc(fq.body)
    if len(body) != 11:
        fail(fq, 'fit_quantile: expected 11 top-level statements, found %d' % len(body))
    wt, c_q, c_tol, c_mi, first, a_max, a_min, a_n, loop, warn, ret = body
    # ---- _within_tol
    if not (isinstance(wt, ast.FunctionDef) and wt.name == '_within_tol' and argnames(wt) == ['a', 'b', 'tol'] and len(wt.body) == 1
            and isinstance(wt.body[0], ast.Return)):
        fail(wt, '_within_tol shape')
    # ---- argument checks
    t_q, t_tol, t_mi = arg_check(c_q, 'quantile'), arg_check(c_tol, 'tol'), arg_check(c_mi, 'max_iter')
    # ---- first fit only when unfitted
    # an unfitted model is fitted (which validates X, y, weights); an already fitted model validates X, y and -- when given -- the
    # weights instead (validation only: these statements raise or return their argument as an array, no effect on the bisection)
    FIRST = ast.unparse(ast.parse(
        "if not self._is_fitted:\n    self.fit(X, y, weights=weights)\nelse:\n"
        "    y = check_y(y, self.link, self.distribution, verbose=self.verbose)\n"
        "    X = check_X(X, n_feats=self.statistics_['m_features'], edge_knots=self.edge_knots_, dtypes=self.dtype, "
        "features=self.feature, verbose=self.verbose)\n    check_X_y(X, y)\n"
        "    if weights is not None:\n        weights = np.array(weights).astype('f').ravel()\n"
        "        weights = check_array(weights, name='sample weights', ndim=1, verbose=self.verbose)\n"
        "        check_lengths(y, weights)\n").body[0])
    if ast.unparse(first) != FIRST:
        fail(first, 'initial fit / validation of X, y, weights on an already fitted model')
    # ---- initial bracket and counter
    inits = {}
    for st, nm in ((a_max, 'max_'), (a_min, 'min_'), (a_n, 'n_iter')):
        if not (isinstance(st, ast.Assign) and ast.unparse(st.targets[0]) == nm and isinstance(st.value, ast.Constant)):
            fail(st, 'expected `%s = <constant>`' % nm)
        inits[nm] = st.value
    if not (isinstance(inits['n_iter'].value, int) and inits['n_iter'].value >= 0):
        fail(a_n, 'n_iter must start at a natural number')
    # ---- the loop
    if not (isinstance(loop, ast.While) and not loop.orelse and len(loop.body) == 8):
        fail(loop, 'bisection loop shape (while with 8 statements)')
    s_ratio, s_break, s_branch, s_mid, s_stall, s_set, s_fit, s_inc = loop.body
    if ast.unparse(s_ratio) != 'ratio = self._get_quantile_ratio(X, y)':
        fail(s_ratio, 'ratio statement')
    if not (isinstance(s_break, ast.If) and not s_break.orelse and len(s_break.body) == 1 and isinstance(s_break.body[0], ast.Break)
            and ast.unparse(s_break.test) == '_within_tol(ratio, quantile, tol)'):
        fail(s_break, 'break statement')
    if not (isinstance(s_branch, ast.If) and s_branch.orelse):
        fail(s_branch, 'branch statement')
    up, down = branch_assigns(s_branch.body, 'then'), branch_assigns(s_branch.orelse, 'else')
    if not (isinstance(s_mid, ast.Assign) and ast.unparse(s_mid.targets[0]) == 'expectile'):
        fail(s_mid, 'new expectile statement')
    # the bracket cannot be halved any further: leave the loop BEFORE the new value is stored or fitted
    if not (isinstance(s_stall, ast.If) and not s_stall.orelse and len(s_stall.body) == 1 and isinstance(s_stall.body[0], ast.Break)):
        fail(s_stall, 'expected `if <test on expectile, min_, max_>: break` after the new expectile')
    if {n.id for n in ast.walk(s_stall.test) if isinstance(n, ast.Name)} - {'expectile', 'min_', 'max_'}:
        fail(s_stall, 'stall test may only mention expectile, min_, max_')
    if ast.unparse(s_set) != 'self.set_params(expectile=expectile)':
        fail(s_set, 'set_params statement')
    if ast.unparse(s_fit) != 'self.fit(X, y, weights=weights)':
        fail(s_fit, 'refit statement')
    if not (isinstance(s_inc, ast.AugAssign) and ast.unparse(s_inc.target) == 'n_iter' and isinstance(s_inc.op, ast.Add)
            and isinstance(s_inc.value, ast.Constant) and isinstance(s_inc.value.value, int) and s_inc.value.value >= 0):
        fail(s_inc, 'counter increment')
    if not (isinstance(warn, ast.If) and 'warnings.warn' in ast.unparse(warn) and not any(isinstance(n, (ast.Raise, ast.Assign, ast.Return)) for n in ast.walk(warn))):
        fail(warn, 'diagnostic statement')
    if ast.unparse(ret) != 'return self':
        fail(ret, 'return')
    # ---- _get_quantile_ratio
    gr = find_method(eg, '_get_quantile_ratio')
    grb = strip_doc(gr.body)
    if argnames(gr) != ['self', 'X', 'y'] or len(grb) != 2 or ast.unparse(grb[0]) != 'y_pred = self.predict(X)':
        fail(gr, '_get_quantile_ratio shape')
    rv = grb[1].value if isinstance(grb[1], ast.Return) else None
    if not (isinstance(rv, ast.Call) and isinstance(rv.func, ast.Attribute) and rv.func.attr == 'mean' and not rv.args and not rv.keywords
            and isinstance(rv.func.value, ast.Compare)):
        fail(grb[1], '_get_quantile_ratio must return (<comparison>).mean()')
    hit = rv.func.value
    # ---- _validate_params: the expectile range check comes first and raises ValueError
    vp = strip_doc(find_method(eg, '_validate_params').body)
    if not (isinstance(vp[0], ast.If) and len(vp[0].body) == 1 and is_raise_valueerror(vp[0].body[0]) and not vp[0].orelse):
        fail(vp[0], '_validate_params must start with the expectile range check')
    rng_test = vp[0].test
    # GAM.fit must call self._validate_params() before anything else (so a refit with a bad expectile raises)
    gfit = strip_doc(find_method(find_class(tree, 'GAM'), 'fit').body)
    if ast.unparse(gfit[0]) != 'self._validate_params()':
        fail(gfit[0], 'GAM.fit no longer starts with self._validate_params()')
    if any(isinstance(n, ast.FunctionDef) and n.name == 'fit' for n in eg.body):
        fail(eg, 'ExpectileGAM overrides fit')

    out = ['(* GENERATED by /verif/translator/gen_fitquantile.py from pygam/pygam.py (ExpectileGAM.fit_quantile, _get_quantile_ratio,',
           '   _validate_params) -- do not edit; regenerated on every check.  Statement order of the loop (matched, fail-closed):',
           '   ratio := oracle; if within_tol then break; branch on ratio/quantile assigning the bracket from self.expectile;',
           '   expectile := new value; if stall test then break; set_params(expectile); refit (validates the expectile first); n_iter += step.',
           '   Real target: every arithmetic result passes through the parameter `rnd : R -> R` (identity = exact real arithmetic). *)',
           'From Coq Require Import Reals ZArith Bool PrimFloat.',
           'From PG Require Import Base.Ops.',
           'Open Scope R_scope.',
           'Definition fq_Reqb (a b : R) : bool := if Req_EM_T a b then true else false.',
           '(* before the loop: an unfitted model is fitted; a fitted one runs check_y, check_X, check_X_y and, for given weights, the float32 cast,',
           '   check_array and check_lengths(y, weights) (matched textually): the arguments are validated on every path into the loop *)',
           'Definition Gen_fq_validated_before_loop : bool := true.', '']
    for tgt, ty, sfx in (('R', 'R', ''), ('F', 'float', '_f')):
        nm = {'quantile': 'quantile', 'tol': 'tol', 'max_iter': 'max_iter', 'ratio': 'ratio', 'min_': 'min_', 'max_': 'max_',
              'self.expectile': 'e', 'n_iter': 'n_iter', 'a': 'a', 'b': 'b', 'y_pred': 'y_pred', 'y': 'y', 'expectile': 'e_new'}
        rp = '(rnd : R -> R) ' if tgt == 'R' else ''
        x = X(tgt, nm, ints=('max_iter', 'n_iter'))
        out.append('(* ---- %s ---- *)' % ('real-number semantics' if tgt == 'R' else 'binary64 semantics (PrimFloat), same AST'))
        out.append('Definition Gen_fq_within_tol%s %s(a b tol : %s) : bool := %s.' % (sfx, rp, ty, x.test(wt.body[0].value)))
        out.append('(* fit_quantile raises ValueError when one of these holds *)')
        out.append('Definition Gen_fq_bad_quantile%s (quantile : %s) : bool := %s.' % (sfx, ty, x.test(t_q)))
        out.append('Definition Gen_fq_bad_tol%s (tol : %s) : bool := %s.' % (sfx, ty, x.test(t_tol)))
        if tgt == 'R':
            out.append('Definition Gen_fq_bad_max_iter (max_iter : Z) : bool := %s.' % x.test(t_mi))
            out.append('Definition Gen_fq_guard (n_iter max_iter : Z) : bool := %s.' % x.test(loop.test))
            out.append('Definition Gen_fq_init_n_iter : Z := %d%%Z.' % inits['n_iter'].value)
            out.append('Definition Gen_fq_n_iter_step : Z := %d%%Z.' % s_inc.value.value)
            out.append('Definition Gen_fq_default_max_iter : Z := %d%%Z.' % int(defaults['max_iter']))
        out.append('Definition Gen_fq_init_max%s : %s := %s.' % (sfx, ty, x.expr(inits['max_'])))
        out.append('Definition Gen_fq_init_min%s : %s := %s.' % (sfx, ty, x.expr(inits['min_'])))
        out.append('Definition Gen_fq_default_tol%s : %s := %s.' % (sfx, ty, x.num(defaults['tol'])))
        out.append('(* the branch test and the bracket (min_, max_) after each branch; e = self.expectile *)')
        out.append('Definition Gen_fq_branch_test%s (ratio quantile : %s) : bool := %s.' % (sfx, ty, x.test(s_branch.test)))
        out.append('Definition Gen_fq_bracket%s (ratio quantile min_ max_ e : %s) : %s * %s :=\n  if Gen_fq_branch_test%s ratio quantile then (%s, %s) else (%s, %s).' % (
            sfx, ty, ty, ty, sfx,
            x.expr(up['min_']) if not isinstance(up['min_'], str) else up['min_'], x.expr(up['max_']) if not isinstance(up['max_'], str) else up['max_'],
            x.expr(down['min_']) if not isinstance(down['min_'], str) else down['min_'], x.expr(down['max_']) if not isinstance(down['max_'], str) else down['max_']))
        out.append('Definition Gen_fq_new_expectile%s %s(min_ max_ : %s) : %s := %s.' % (sfx, rp, ty, ty, x.expr(s_mid.value)))
        out.append('(* leave the loop without storing / fitting the new expectile when this holds ("the bracket cannot be halved any further") *)')
        out.append('Definition Gen_fq_stall%s (e_new min_ max_ : %s) : bool := %s.' % (sfx, ty, x.test(s_stall.test)))
        out.append('(* ExpectileGAM._validate_params raises ValueError when this holds (first statement of every fit) *)')
        out.append('Definition Gen_expectile_out_of_range%s (e : %s) : bool := %s.' % (sfx, ty, x.test(rng_test)))
        out.append('(* _get_quantile_ratio: mean over the training rows of this indicator *)')
        out.append('Definition Gen_fq_hit%s (y_pred y : %s) : bool := %s.' % (sfx, ty, x.test(hit)))
        out.append('')
    return '\n'.join(out)
