"""skel_c11.py -- fail-closed extraction of the *validation trace* of every data argument of every public
entry point of every model class of pygam/pygam.py (property C11).

For each (class, public method, data argument p) the method body is abstractly interpreted with p marked as the
traced value ("D"); every other parameter is bound to `U` (some valid value: X, y), to its default constant
(non-data parameters, optional data parameters other than p) -- so the trace is the one of a call that passes
X, y, p and defaults otherwise.  The result is the ordered list of abstract actions applied to p:

  MayRefit   a call that does not receive the traced argument (re)fits a model on the other arguments
  CheckFitted | CheckY params_validated | CheckX nf cats | CheckArray | CheckLen | CheckXy          validators (utils.check_*)
  NeedsArray what                       an ndarray attribute (.ravel(), .astype(), .shape) read off the argument
                                        as passed: AttributeError for a list / tuple, harmless for an ndarray
  (np.array(p), arithmetic, len(p), np.ones_like(p) accept any array-like and validate nothing: no action; their
   result is tracked as "the same data, now an ndarray")
  Use what                                                                     any other read (terminal)
  IfUnfitted [..] | IfFitted [..] | MaybeSkip [..] | TryVE [..]                 structure

`self.m(..)`, `super(..).m(..)` and `<deepcopy(self)>.m(..)` are inlined (dynamic dispatch from the entry class,
depth <= MAX_DEPTH, positional/keyword renaming, default constants, returned values tracked).  Anything the
interpreter does not understand *before the trace is decided* raises Unsupported (fail closed).

Output: coq/Gen/C11Traces.v  (Definition c11_traces : list entry).
"""
import ast
import os

VALIDATORS = {'check_y', 'check_X', 'check_array', 'check_lengths', 'check_X_y'}
DATA_NAMES = ('X', 'y', 'weights', 'exposure', 'sample_at_X')
ALWAYS_GIVEN = ('X', 'y')
NONDATA = {'width', 'quantiles', 'term', 'meshgrid', 'n', 'scaled', 'return_scores', 'keep_best', 'objective',
           'progress', 'quantity', 'n_draws', 'n_bootstraps', 'quantile', 'max_iter', 'tol', 'param_grids', 'mu'}
FITTING = ('fit', 'gridsearch', 'fit_quantile')
ROOT = 'GAM'
MAX_DEPTH = 6

D, A, F, U, S, N, L = 'D', 'A', 'F', 'U', 'S', 'N', 'L'
# F: the same data as a *numeric* ndarray (result of a validator, of .astype(..), or of arithmetic); arithmetic on D / A
#    needs a numeric dtype (strings / None inside -> TypeError): action NeedsNumeric
# L: a value that only carries the *length* of the traced argument (len(p), p.shape, np.ones_like(p), np.ones(p.shape[0]));
#    comparing lengths of p with L is vacuous (no CheckLen is emitted), reading L is not a read of p's content
# D: the traced argument as passed (any container); A: an ndarray holding the same data (np.array(D), D.ravel(), D / w,
# the return value of a validator); U: some valid non-None value; S: alias of self; N: unknown (may be None)


def isD(v):
    return v == D or v == A or v == F


class Unsupported(Exception):
    pass


def C(v):
    return ('C', v)


def isC(v):
    return isinstance(v, tuple) and v[0] == 'C'


def has_D(v):
    if v == D or v == A or v == F:
        return True
    if isinstance(v, tuple) and v[0] == 'T':
        return any(has_D(x) for x in v[1])
    return False


def strip_doc(body):
    if body and isinstance(body[0], ast.Expr) and isinstance(body[0].value, ast.Constant) and isinstance(body[0].value.value, str):
        return body[1:]
    return body


def short(node, n=48):
    s = ' '.join(ast.unparse(node).split())
    return s if len(s) <= n else s[:n - 3] + '...'


class Classes:
    def __init__(self, src):
        tree = ast.parse(src)
        self.defs = {}
        for n in tree.body:
            if isinstance(n, ast.ClassDef):
                bases = [b.id for b in n.bases if isinstance(b, ast.Name)]
                meths = {}
                for f in n.body:
                    if isinstance(f, ast.FunctionDef):
                        meths[f.name] = f
                self.defs[n.name] = (bases, meths)

    def mro(self, cls):
        out = []
        while cls in self.defs:
            out.append(cls)
            bases = [b for b in self.defs[cls][0] if b in self.defs]
            if len(bases) > 1:
                raise Unsupported('multiple in-module bases for %s' % cls)
            cls = bases[0] if bases else None
        return out

    def model_classes(self):
        return [c for c in self.defs if ROOT in self.mro(c)]

    def resolve(self, cls, meth, after=None):
        m = self.mro(cls)
        if after is not None:
            if after not in m:
                raise Unsupported('super() of %s outside the MRO of %s' % (after, cls))
            m = m[m.index(after) + 1:]
        for c in m:
            if meth in self.defs[c][1]:
                return c, self.defs[c][1][meth]
        return None

    def public_methods(self, cls):
        names = []
        for c in self.mro(cls):
            for name, f in self.defs[c][1].items():
                if name.startswith('_') or name in names:
                    continue
                names.append(name)
        out = []
        for name in names:
            origin, f = self.resolve(cls, name)
            if any(isinstance(d, ast.Name) and d.id in ('property', 'staticmethod', 'classmethod') for d in f.decorator_list):
                continue
            out.append((name, origin, f))
        return out


def is_self_fitted(node):
    return (isinstance(node, ast.Attribute) and node.attr == '_is_fitted' and isinstance(node.value, ast.Name)
            and node.value.id == 'self')


def fitted_test(test):
    if isinstance(test, ast.UnaryOp) and isinstance(test.op, ast.Not) and is_self_fitted(test.operand):
        return 'unfitted'
    if is_self_fitted(test):
        return 'fitted'
    return None      # compound tests mentioning _is_fitted are treated as unknown conditions (both branches explored)


def is_raise_of(body, exc):
    return (len(body) == 1 and isinstance(body[0], ast.Raise) and body[0].exc is not None
            and isinstance(body[0].exc, ast.Call) and isinstance(body[0].exc.func, ast.Name) and body[0].exc.func.id == exc)


def only_raises(body):
    return all(isinstance(s, ast.Raise) for s in body) and len(body) > 0


def contains(node_or_list, types):
    nodes = node_or_list if isinstance(node_or_list, list) else [node_or_list]
    for n in nodes:
        for x in ast.walk(n):
            if isinstance(x, types):
                return True
    return False


class Tracer:
    def __init__(self, classes, cls):
        self.k = classes
        self.cls = cls
        self.vp = False      # self._validate_params() seen: self.link / self.distribution are objects, not strings

    # ------------------------------------------------------------------ helpers
    def mentions(self, node, env):
        nodes = node if isinstance(node, list) else [node]
        for n in nodes:
            for x in ast.walk(n):
                if isinstance(x, ast.Name) and has_D(env.get(x.id, U)):
                    return True
        return False

    def try_const(self, node, env):
        ok = (ast.Compare, ast.BoolOp, ast.UnaryOp, ast.BinOp, ast.Name, ast.Constant, ast.Set, ast.Tuple, ast.List,
              ast.Load, ast.cmpop, ast.boolop, ast.unaryop, ast.operator, ast.expr_context)
        g = {}
        for x in ast.walk(node):
            if not isinstance(x, ok):
                return None
            if isinstance(x, ast.Name):
                v = env.get(x.id, U)
                if not isC(v):
                    return None
                g[x.id] = v[1]
        try:
            return C(bool(eval(compile(ast.Expression(node), '<c11>', 'eval'), {'__builtins__': {}}, g)))
        except Exception:
            return None

    def guarded(self, meth, depth=0):
        r = self.k.resolve(self.cls, meth)
        if r is None or depth > 3:
            return False
        body = strip_doc(r[1].body)
        if not body:
            return False
        s = body[0]
        if isinstance(s, ast.If) and fitted_test(s.test) == 'unfitted' and is_raise_of(s.body, 'AttributeError'):
            return True
        v = s.value if isinstance(s, (ast.Return, ast.Assign, ast.Expr)) else None
        for c in ([x for x in ast.walk(v) if isinstance(x, ast.Call)] if v is not None else []):
            if isinstance(c.func, ast.Attribute) and isinstance(c.func.value, ast.Name) and c.func.value.id == 'self':
                if self.guarded(c.func.attr, depth + 1):
                    return True
        return False

    def validating(self, origin, fn, pname, depth=0):
        """syntactic over-approximation of 'this callee may validate its parameter pname (or guards on the fitted
        state)': a validator called on the name, a fitted guard, or the name handed on to a validating method."""
        if depth > 6:
            return False
        for n in ast.walk(fn):
            if isinstance(n, ast.If) and fitted_test(n.test) == 'unfitted' and is_raise_of(n.body, 'AttributeError'):
                return True
            if not isinstance(n, ast.Call):
                continue
            sc0 = self.self_call(n, {}, origin)
            if depth == 0 and sc0 is not None and sc0[1] is None and self.guarded(sc0[0]):
                return True
            hits = [i for i, a in enumerate(n.args) if isinstance(a, ast.Name) and a.id == pname]
            khits = [k.arg for k in n.keywords if isinstance(k.value, ast.Name) and k.value.id == pname and k.arg]
            if not hits and not khits:
                continue
            if isinstance(n.func, ast.Name) and n.func.id in VALIDATORS:
                return True
            sc = self.self_call(n, {}, origin)
            if sc is None and isinstance(n.func, ast.Attribute) and isinstance(n.func.value, ast.Name):
                sc = (n.func.attr, None)        # possibly an alias of self (deepcopy): over-approximate
            if sc is None:
                continue
            r = self.k.resolve(self.cls, sc[0], sc[1])
            if r is None:
                continue
            ps = [p.arg for p in r[1].args.args][1:]
            for i in hits:
                if i < len(ps) and self.validating(r[0], r[1], ps[i], depth + 1):
                    return True
            for kname in khits:
                if kname in ps and self.validating(r[0], r[1], kname, depth + 1):
                    return True
        return False

    def may_refit(self, meth, depth=0):
        """does this method (transitively) fit a model -- .fit(..) / .gridsearch(..) / ._pirls(..) on self or a copy?"""
        r = self.k.resolve(self.cls, meth)
        if r is None or depth > 4:
            return False
        for n in ast.walk(r[1]):
            if isinstance(n, ast.Call) and isinstance(n.func, ast.Attribute):
                if n.func.attr in ('fit', 'gridsearch', '_pirls'):
                    return True
                if isinstance(n.func.value, ast.Name) and n.func.attr != meth and self.k.resolve(self.cls, n.func.attr) is not None \
                        and self.may_refit(n.func.attr, depth + 1):
                    return True
        return False

    def self_call(self, call, env, fn_cls):
        """-> (method name, after) if the call is self.m(..), <alias of self>.m(..) or super(..).m(..)"""
        f = call.func
        if not isinstance(f, ast.Attribute):
            return None
        b = f.value
        if isinstance(b, ast.Name) and (b.id == 'self' or env.get(b.id) == S):
            return f.attr, None
        if isinstance(b, ast.Call) and isinstance(b.func, ast.Name) and b.func.id == 'super':
            if b.args:
                if not isinstance(b.args[0], ast.Name):
                    raise Unsupported('super(...) with a computed class')
                return f.attr, b.args[0].id
            return f.attr, fn_cls
        return None

    # ------------------------------------------------------------------ expressions
    def ev(self, node, env, ctx):
        """-> (actions, value, dead)"""
        if isinstance(node, ast.Name):
            return [], env.get(node.id, U), False
        if isinstance(node, ast.Constant):
            return [], C(node.value), False
        if not self.mentions(node, env) and not any(
                isinstance(x, ast.Name) and env.get(x.id) == L for x in ast.walk(node)):
            # no traced data inside: only the fitted guard of self-calls and aliases of self matter
            if isinstance(node, ast.Call) and isinstance(node.func, ast.Name) and node.func.id == 'deepcopy' \
                    and len(node.args) == 1 and isinstance(node.args[0], ast.Name) and node.args[0].id == 'self':
                return [], S, False
            acts = []
            for c in ast.walk(node):
                if isinstance(c, ast.Call):
                    sc = self.self_call(c, env, ctx['fn_cls'])
                    if sc and sc[0] == '_validate_params':
                        self.vp = True
                    if sc and sc[1] is None and self.guarded(sc[0]):
                        acts.append(('CheckFitted',))
                    if sc and sc[1] is None and self.may_refit(sc[0]):
                        acts.append(('MayRefit',))
            try:
                return acts, C(ast.literal_eval(node)), False
            except Exception:
                pass
            root = node
            while isinstance(root, (ast.Call, ast.Attribute)):
                root = root.func if isinstance(root, ast.Call) else root.value
            if isinstance(node, ast.Call) and isinstance(root, ast.Name) and root.id in ('np', 'check_y', 'check_X', 'check_array'):
                return acts, U, False          # numpy constructors never return None
            if isinstance(node, (ast.BinOp, ast.Compare, ast.UnaryOp, ast.JoinedStr, ast.Dict, ast.Set, ast.ListComp)):
                return acts, U, False          # neither do arithmetic / comparisons / displays
            return acts, N, False
        if isinstance(node, (ast.Tuple, ast.List)):
            acts, vals = [], []
            for e in node.elts:
                a, v, dead = self.ev(e, env, ctx)
                acts += a
                if dead:
                    return acts, U, True
                vals.append(v)
            return acts, ('T', vals), False
        if isinstance(node, ast.BinOp) and isinstance(node.op, (ast.Mult, ast.Div, ast.Add, ast.Sub)):
            a1, v1, d1 = self.ev(node.left, env, ctx)
            if d1:
                return a1, U, True
            a2, v2, d2 = self.ev(node.right, env, ctx)
            if d2:
                return a1 + a2, U, True
            if isD(v1) or isD(v2):
                # numpy arithmetic accepts any array-like container, but not strings / None
                raw = v1 in (D, A) or v2 in (D, A)
                return a1 + a2 + ([('NeedsNumeric', short(node))] if raw else []), F, False
            if has_D(v1) or has_D(v2):
                return a1 + a2 + [('Use', short(node))], U, True
            return a1 + a2, U, False
        if isinstance(node, ast.Call):
            return self.ev_call(node, env, ctx)
        if isinstance(node, ast.Attribute) and node.attr == 'shape':
            a, v, dead = self.ev(node.value, env, ctx)
            if dead:
                return a, U, True
            if isD(v):
                return a + ([('NeedsArray', short(node))] if v == D else []), L, False
        if isinstance(node, ast.Subscript) and isinstance(node.value, ast.Attribute) and node.value.attr == 'shape' \
                and not self.mentions(node.slice, env):
            return self.ev(node.value, env, ctx)
        return self.fallback(node, env, ctx)

    def fallback(self, node, env, ctx):
        """an expression this interpreter has no rule for: nested validator / self calls are evaluated first (they
        may validate or raise), any other contact with the traced value is a terminal Use."""
        acts, direct = [], [False]

        def visit(n):
            if isinstance(n, ast.Call) and self.mentions(n, env) and (
                    (isinstance(n.func, ast.Name) and n.func.id in VALIDATORS) or self.self_call(n, env, ctx['fn_cls']) is not None):
                a, v, dead = self.ev_call(n, env, ctx)
                acts.extend(a)
                if dead:
                    return True
                if has_D(v):
                    direct[0] = True
                return False
            if isinstance(n, ast.Attribute) and n.attr == 'shape' and isinstance(n.value, ast.Name) \
                    and isD(env.get(n.value.id, U)):
                if env.get(n.value.id) == D:
                    acts.append(('NeedsArray', short(n)))
                return False
            if isinstance(n, ast.Name) and has_D(env.get(n.id, U)):
                direct[0] = True
                return False
            for c in ast.iter_child_nodes(n):
                if visit(c):
                    return True
            return False
        dead = False
        for c in ast.iter_child_nodes(node):
            if visit(c):
                dead = True
                break
        if dead:
            return acts, U, True
        if direct[0]:
            return acts + [('Use', short(node))], U, True
        return acts, N, False

    def ev_args(self, call, env, ctx):
        acts, pos, kw = [], [], {}
        for a in call.args:
            if isinstance(a, ast.Starred):
                if self.mentions(a, env):
                    return acts + [('Use', short(call))], None, None, True
                pos.append(U)
                continue
            x, v, dead = self.ev(a, env, ctx)
            acts += x
            if dead:
                return acts, None, None, True
            pos.append(v)
        for k in call.keywords:
            x, v, dead = self.ev(k.value, env, ctx)
            acts += x
            if dead:
                return acts, None, None, True
            if k.arg is None:
                if has_D(v):
                    return acts + [('Use', short(call))], None, None, True
                continue
            kw[k.arg] = v
        return acts, pos, kw, False

    def ev_call(self, node, env, ctx):
        f = node.func
        # ---- validators
        if isinstance(f, ast.Name) and f.id in VALIDATORS:
            acts, pos, kw, dead = self.ev_args(node, env, ctx)
            if dead:
                return acts, U, True
            kwn = {k.arg: k.value for k in node.keywords}
            if f.id in ('check_lengths', 'check_X_y'):
                if kw:
                    raise Unsupported('keywords in %s' % short(node))
                if any(isD(v) for v in pos) and any(not isD(v) and v != L for v in pos):
                    acts.append(('CheckLen',) if f.id == 'check_lengths' else ('CheckXy',))
                elif any(has_D(v) and not isD(v) for v in pos):
                    raise Unsupported('tuple passed to %s' % f.id)
                return acts, U, False
            if not pos:
                raise Unsupported('validator without positional subject: %s' % short(node))
            subj = pos[0]
            if has_D(subj) and not isD(subj):
                raise Unsupported('tuple passed to %s' % f.id)
            if any(has_D(v) for v in pos[1:]) or any(has_D(v) for v in kw.values()):
                return acts + [('Use', short(node))], U, True
            if f.id == 'check_y':
                if set(kwn) - {'verbose', 'min_samples'} or len(pos) != 3:
                    raise Unsupported('check_y call shape: %s' % short(node))
                act = ('CheckY', self.vp)
            elif f.id == 'check_X':
                if set(kwn) - {'verbose', 'min_samples', 'n_feats', 'edge_knots', 'dtypes', 'features'} or len(pos) != 1:
                    raise Unsupported('check_X call shape: %s' % short(node))

                def given(name):
                    return name in kwn and not (isinstance(kwn[name], ast.Constant) and kwn[name].value is None)
                act = ('CheckX', given('n_feats'), given('edge_knots') and given('dtypes') and given('features'))
            else:
                if 'force_2d' in kwn and isinstance(kwn['force_2d'], ast.Constant) and kwn['force_2d'].value is False:
                    kwn = {k: v for k, v in kwn.items() if k != 'force_2d'}      # the default, spelled out
                if set(kwn) - {'verbose', 'name', 'ndim'} or len(pos) != 1:
                    raise Unsupported('check_array call shape: %s' % short(node))
                act = ('CheckArray',)
            if isD(subj):
                return acts + [act], F, False
            return acts, (L if subj == L else U), False
        # ---- self / super / alias method calls
        sc = self.self_call(node, env, ctx['fn_cls'])
        if sc is not None:
            meth, after = sc
            acts, pos, kw, dead = self.ev_args(node, env, ctx)
            if dead:
                return acts, U, True
            r = self.k.resolve(self.cls, meth, after)
            tainted = any(has_D(v) for v in pos) or any(has_D(v) for v in kw.values())
            if not tainted:
                if meth == '_validate_params':
                    self.vp = True
                if r is not None and after is None and self.guarded(meth):
                    acts.append(('CheckFitted',))
                if r is not None and after is None and self.may_refit(meth):
                    acts.append(('MayRefit',))
                return acts, U, False
            if r is None:
                return acts + [('Use', 'call ' + meth)], U, True
            ps = [p.arg for p in r[1].args.args][1:]
            tnames = [ps[i] for i, v in enumerate(pos) if has_D(v) and i < len(ps)] + [k for k, v in kw.items() if has_D(v)]
            if not any(self.validating(r[0], r[1], t) for t in tnames):
                return acts + [('Use', 'call %s (non-validating)' % meth)], U, True
            if ctx['depth'] >= MAX_DEPTH:
                return acts + [('Use', 'call %s (inlining depth)' % meth)], U, True
            a, v, dead = self.inline(r[0], r[1], pos, kw, ctx['depth'] + 1)
            return acts + a, v, dead
        # ---- shape-only reads of the traced value: len(v), np.ones_like(v), np.zeros_like(v)
        if not node.keywords and len(node.args) == 1 and (
                (isinstance(f, ast.Name) and f.id == 'len') or
                (isinstance(f, ast.Attribute) and isinstance(f.value, ast.Name) and f.value.id == 'np'
                 and f.attr in ('ones_like', 'zeros_like'))):
            a, v, dead = self.ev(node.args[0], env, ctx)
            if dead:
                return a, U, True
            if isD(v) or v == L:
                return a, L, False
            if has_D(v):
                return a + [('Use', short(node))], U, True
            return a, U, False
        # ---- transparent conversions of the traced value
        if isinstance(f, ast.Attribute) and f.attr in ('astype', 'ravel', 'flatten') and not node.keywords \
                and not (isinstance(f.value, ast.Name) and f.value.id == 'np'):
            a, v, dead = self.ev(f.value, env, ctx)
            if dead:
                return a, U, True
            if isD(v) and not self.mentions(node.args, env):
                out = F if (f.attr == 'astype' or v == F) else A
                return a + ([('NeedsArray', short(node))] if v == D else []), out, False
            if not has_D(v) and not self.mentions(node.args, env):
                return a, (L if v == L else U), False
            return a + [('Use', short(node))], U, True
        if isinstance(f, ast.Attribute) and isinstance(f.value, ast.Name) and f.value.id == 'np' \
                and f.attr in ('array', 'asarray', 'ravel') and len(node.args) == 1 and not node.keywords:
            a, v, dead = self.ev(node.args[0], env, ctx)
            if dead:
                return a, U, True
            if isD(v):
                return a, (F if v == F else A), False
            if not has_D(v):
                return a, (L if v == L else U), False
            return a + [('Use', short(node))], U, True
        # ---- np.ones(p.shape[0]) and friends: only the length of the traced value is read
        if isinstance(f, ast.Attribute) and isinstance(f.value, ast.Name) and f.value.id == 'np' \
                and f.attr in ('ones', 'zeros', 'empty', 'arange') and len(node.args) == 1 and not node.keywords:
            a, v, dead = self.ev(node.args[0], env, ctx)
            if not dead and v == L:
                return a, L, False
        # ---- anything else touching the traced value
        return self.fallback(node, env, ctx)

    # ------------------------------------------------------------------ inlining
    def inline(self, origin, fn, pos, kw, depth, entry_env=None):
        a = fn.args
        if a.posonlyargs:
            raise Unsupported('positional-only parameters in %s' % fn.name)
        params = [p.arg for p in a.args][1:]
        defaults = dict(zip([p.arg for p in a.args][len(a.args) - len(a.defaults):], a.defaults))
        for p, dflt in zip(a.kwonlyargs, a.kw_defaults):
            params.append(p.arg)
            if dflt is not None:
                defaults[p.arg] = dflt
        env = {}
        if entry_env is not None:
            env = dict(entry_env)
        else:
            if len(pos) > len(a.args) - 1 and a.vararg is None:
                raise Unsupported('too many positional arguments for %s' % fn.name)
            for i, p in enumerate(params):
                if i < len(pos) and i < len(a.args) - 1:
                    env[p] = pos[i]
                elif p in kw:
                    env[p] = kw[p]
                elif p in defaults:
                    try:
                        env[p] = C(ast.literal_eval(defaults[p]))
                    except Exception:
                        env[p] = U
                else:
                    env[p] = U
            extra = [k for k in kw if k not in params]
            if extra and a.kwarg is None:
                raise Unsupported('unknown keyword %s for %s' % (extra, fn.name))
            if any(has_D(kw[k]) for k in extra):
                raise Unsupported('traced value captured by **%s of %s' % (a.kwarg.arg, fn.name))
        if a.vararg is not None:
            env[a.vararg.arg] = U
        if a.kwarg is not None:
            env[a.kwarg.arg] = U
        ctx = dict(depth=depth, fn_cls=origin, top=(depth == 0))
        acts, status = self.block(strip_doc(fn.body), env, ctx, fn_top=True)
        if status == 'dead':
            return acts, U, True
        if status == 'fall':
            return acts, C(None), False
        return acts, status[1], False

    # ------------------------------------------------------------------ statements
    def merge(self, env, envs):
        """envs: list of environments of branches that fall through; the traced value must be bound alike."""
        if not envs:
            return
        names = set()
        for e in envs:
            names |= set(e)
        for n in names:
            vals = [e.get(n, U) for e in envs]
            if any(has_D(v) for v in vals) and any(v != vals[0] for v in vals):
                raise Unsupported('branches bind the traced value differently (%s)' % n)
            env[n] = vals[0] if all(v == vals[0] for v in vals) else U

    def block(self, stmts, env, ctx, fn_top=False):
        acts = []
        for i, s in enumerate(stmts):
            rest = stmts[i + 1:]
            a, status = self.stmt(s, env, ctx, rest if fn_top else None)
            acts += a
            if status != 'fall':
                return acts, status
        return acts, 'fall'

    def sub(self, stmts, env, ctx):
        e = dict(env)
        a, st = self.block(stmts, e, ctx)
        return a, st, e

    def stmt(self, s, env, ctx, rest):
        if isinstance(s, (ast.Pass, ast.Break, ast.Continue, ast.Import, ast.ImportFrom)):
            return [], 'fall'
        if isinstance(s, ast.Expr):
            a, v, dead = self.ev(s.value, env, ctx)
            return a, ('dead' if dead else 'fall')
        if isinstance(s, ast.Return):
            if s.value is None:
                return [], ('ret', C(None))
            a, v, dead = self.ev(s.value, env, ctx)
            if dead:
                return a, 'dead'
            if ctx['top'] and has_D(v):
                return a + [('Use', 'returned: ' + short(s.value))], 'dead'
            return a, ('ret', v)
        if isinstance(s, ast.Assign):
            a, v, dead = self.ev(s.value, env, ctx)
            if dead:
                return a, 'dead'
            if len(s.targets) != 1:
                if has_D(v):
                    raise Unsupported('chained assignment of the traced value')
                for t in s.targets:
                    for n in ast.walk(t):
                        if isinstance(n, ast.Name):
                            env[n.id] = U
                return a, 'fall'
            t = s.targets[0]
            if isinstance(t, ast.Name):
                env[t.id] = v
            elif isinstance(t, ast.Tuple) and all(isinstance(e, ast.Name) for e in t.elts):
                if isinstance(v, tuple) and v[0] == 'T' and len(v[1]) == len(t.elts):
                    for e, x in zip(t.elts, v[1]):
                        env[e.id] = x
                elif has_D(v):
                    return a + [('Use', 'unpacked: ' + short(s))], 'dead'
                else:
                    for e in t.elts:
                        env[e.id] = U
            else:
                if has_D(v) or self.mentions(t, env):
                    return a + [('Use', 'stored: ' + short(s))], 'dead'
            return a, 'fall'
        if isinstance(s, ast.AugAssign):
            if self.mentions(s, env):
                return [('Use', short(s))], 'dead'
            if isinstance(s.target, ast.Name):
                env[s.target.id] = U
            return [], 'fall'
        if isinstance(s, ast.Assert):
            if self.mentions(s, env):
                return [('Use', short(s))], 'dead'
            return [], 'fall'
        if isinstance(s, ast.FunctionDef):
            if self.mentions(s, env):
                raise Unsupported('nested function closes over the traced value')
            env[s.name] = U
            return [], 'fall'
        if isinstance(s, ast.Raise):
            if self.mentions(s, env):
                return [('Use', short(s))], 'dead'
            raise Unsupported('unconditional raise outside a parameter check: %s' % short(s))
        if isinstance(s, ast.If):
            return self.do_if(s, env, ctx, rest)
        if isinstance(s, (ast.For, ast.While)):
            return self.do_loop(s, env, ctx, rest)
        if isinstance(s, ast.Try):
            return self.do_try(s, env, ctx, rest)
        raise Unsupported('statement %s: %s' % (type(s).__name__, short(s)))

    def irrelevant_tail(self, s, env, rest):
        """a compound statement without the traced value that may return: fine only when nothing after it (in the
        function body) touches the traced value either -- then the trace is over."""
        return rest is not None and not self.mentions(rest, env)

    def do_if(self, s, env, ctx, rest):
        ft = fitted_test(s.test)
        if ft is not None:
            if ft == 'unfitted' and is_raise_of(s.body, 'AttributeError') and not s.orelse:
                return [('CheckFitted',)], 'fall'
            bu, bf = (s.body, s.orelse) if ft == 'unfitted' else (s.orelse, s.body)
            au, su, eu = self.sub(bu, env, ctx)
            af, sf, ef = self.sub(bf, env, ctx)
            for st in (su, sf):
                if st not in ('fall', 'dead'):
                    raise Unsupported('return inside a fitted-state branch')
            acts = []
            if au or su == 'dead':
                acts.append(('IfUnfitted', au))
            if af or sf == 'dead':
                acts.append(('IfFitted', af))
            self.merge(env, [e for e, st in ((eu, su), (ef, sf)) if st == 'fall'])
            return acts, ('dead' if su == 'dead' and sf == 'dead' else 'fall')
        t = s.test
        known = None
        if isinstance(t, ast.Compare) and len(t.ops) == 1 and isinstance(t.ops[0], (ast.Is, ast.IsNot)) \
                and isinstance(t.left, ast.Name) and isinstance(t.comparators[0], ast.Constant) and t.comparators[0].value is None:
            v = env.get(t.left.id, U)
            isnone = None
            if isD(v) or v in (S, U, L) or (isinstance(v, tuple) and v[0] == 'T'):
                isnone = False
            elif isC(v):
                isnone = v[1] is None
            if isnone is not None:
                known = isnone if isinstance(t.ops[0], ast.Is) else not isnone
        if known is None and not self.mentions(t, env):
            c = self.try_const(t, env)
            if c is not None:
                known = c[1]
        if known is not None:
            a, st = self.block(s.body if known else s.orelse, env, ctx)
            return a, st
        if self.mentions(t, env):
            return [('Use', 'if ' + short(t))], 'dead'
        # unknown test on other values
        acts = [('CheckFitted',)] if self.ev(t, env, ctx)[0] else []
        if only_raises(s.body) and not s.orelse and not self.mentions(s.body, env):
            return acts, 'fall'
        a1, s1, e1 = self.sub(s.body, env, ctx)
        a2, s2, e2 = self.sub(s.orelse, env, ctx)
        if a1 == a2 and s1 == s2:
            self.merge(env, [e1, e2] if s1 == 'fall' else [])
            return acts + a1, s1
        if not a1 and not a2 and self.irrelevant_tail(s, env, rest):
            return acts, ('ret', U)
        raise Unsupported('branch on an unknown condition changes the validation trace: if %s' % short(t))

    def do_loop(self, s, env, ctx, rest):
        head = s.iter if isinstance(s, ast.For) else s.test
        if self.mentions(head, env) or (isinstance(s, ast.For) and self.mentions(s.target, env)):
            return [('Use', 'loop over ' + short(head))], 'dead'
        if s.orelse:
            raise Unsupported('loop with else')
        if not self.mentions(s.body, env) and not self._has_fitted(s.body):
            if contains(s.body, ast.Return) and not self.irrelevant_tail(s, env, rest):
                raise Unsupported('return inside a loop before the trace is decided')
            for n in ast.walk(s):
                if isinstance(n, ast.Name) and isinstance(n.ctx, ast.Store):
                    env[n.id] = U
            if contains(s.body, ast.Return):
                return [], ('ret', U)
            return [], 'fall'
        at_least_once = False
        if isinstance(s, ast.While):
            c = self.try_const(s.test, env)
            at_least_once = c is not None and c[1] is True
        e = dict(env)
        for n in ast.walk(s):
            if isinstance(n, ast.Name) and isinstance(n.ctx, ast.Store) and not has_D(e.get(n.id, U)):
                e[n.id] = U
        a, st = self.loop_block(s.body, e, ctx)
        if st not in ('fall', 'dead'):
            raise Unsupported('return inside a loop that touches the traced value')
        self.merge(env, [e] + ([] if at_least_once else [dict(env)]) if st == 'fall' else [dict(env)])
        if at_least_once:
            return a, st
        return ([('MaybeSkip', a)] if a else []), 'fall'

    @staticmethod
    def _may_leave(stmt):
        """does this statement contain a break / continue of the enclosing loop?"""
        def walk(n):
            if isinstance(n, (ast.Break, ast.Continue)):
                return True
            if isinstance(n, (ast.For, ast.While, ast.FunctionDef)):
                return False
            return any(walk(c) for c in ast.iter_child_nodes(n))
        return walk(stmt)

    def loop_block(self, stmts, env, ctx):
        """a loop body: whatever follows a conditional `break` / `continue` may be skipped (MaybeSkip)"""
        acts = []
        for i, st in enumerate(stmts):
            if isinstance(st, (ast.Break, ast.Continue)):
                return acts, 'fall'
            leaves = self._may_leave(st)
            if leaves and isinstance(st, ast.If) and not self.mentions(st.test, env):
                c = self.try_const(st.test, env)
                if c is not None:
                    branch = st.body if c[1] else st.orelse
                    if any(self._may_leave(b) for b in branch):
                        a, status = self.loop_block(branch, env, ctx)
                        return acts + a, status
                    leaves = False
            a, status = self.stmt(st, env, ctx, None)
            acts += a
            if status != 'fall':
                return acts, status
            if leaves:
                e2 = dict(env)
                a2, st2 = self.loop_block(stmts[i + 1:], e2, ctx)
                if st2 not in ('fall', 'dead'):
                    raise Unsupported('return inside a loop after a conditional break')
                self.merge(env, [e2, dict(env)] if st2 == 'fall' else [dict(env)])
                return acts + ([('MaybeSkip', a2)] if a2 else []), 'fall'
        return acts, 'fall'

    def _has_fitted(self, body):
        for b in body:
            for n in ast.walk(b):
                if isinstance(n, ast.Attribute) and n.attr == '_is_fitted':
                    return True
        return False

    def do_try(self, s, env, ctx, rest):
        if not self.mentions(s, env):
            if contains(s, ast.Return) and not self.irrelevant_tail(s, env, rest):
                raise Unsupported('return inside try before the trace is decided')
            for n in ast.walk(s):
                if isinstance(n, ast.Name) and isinstance(n.ctx, ast.Store):
                    env[n.id] = U
            return [], 'fall'
        if s.orelse or s.finalbody:
            raise Unsupported('try with else/finally')
        catches_ve = False
        for h in s.handlers:
            if self.mentions(h.body, env):
                raise Unsupported('exception handler touches the traced value')
            if contains(h.body, ast.Return):
                raise Unsupported('exception handler returns')
            names = []
            if h.type is None:
                names = ['BaseException']
            else:
                for n in ([h.type] if not isinstance(h.type, ast.Tuple) else h.type.elts):
                    if not isinstance(n, ast.Name):
                        raise Unsupported('computed exception class')
                    names.append(n.id)
            if set(names) & {'ValueError', 'Exception', 'BaseException'}:
                catches_ve = True
        e = dict(env)
        a, st = self.block(s.body, e, ctx)
        if st not in ('fall', 'dead'):
            raise Unsupported('return inside try')
        self.merge(env, [e, dict(env)] if st == 'fall' else [dict(env)])
        if catches_ve:
            return ([('TryVE', a)] if a else []), 'fall'
        return a, st


# ---------------------------------------------------------------------- driver
def extract(repo):
    src = open(os.path.join(repo, 'pygam', 'pygam.py')).read()
    k = Classes(src)
    entries, nodata = [], []
    classes = k.model_classes()
    if ROOT not in classes or len(classes) < 2:
        raise Unsupported('model classes not found')
    for cls in classes:
        for name, origin, fn in k.public_methods(cls):
            a = fn.args
            params = [p.arg for p in a.args][1:] + [p.arg for p in a.kwonlyargs] + ([a.kwarg.arg] if a.kwarg else []) \
                + ([a.vararg.arg] if a.vararg else [])
            for p in params:
                if p not in DATA_NAMES and p not in NONDATA:
                    raise Unsupported('%s.%s: parameter %r is not classified as data or non-data' % (cls, name, p))
            data = [p for p in params if p in DATA_NAMES]
            if not data:
                nodata.append((cls, name))
                continue
            defaults = dict(zip([p.arg for p in a.args][len(a.args) - len(a.defaults):], a.defaults))
            for p, dflt in zip(a.kwonlyargs, a.kw_defaults):
                if dflt is not None:
                    defaults[p.arg] = dflt
            for arg in data:
                env = {}
                for p in params:
                    if p == arg:
                        env[p] = D
                    elif p in ALWAYS_GIVEN:
                        env[p] = U
                    elif p in defaults:
                        try:
                            env[p] = C(ast.literal_eval(defaults[p]))
                        except Exception:
                            env[p] = U
                    else:
                        env[p] = U
                tr = Tracer(k, cls)
                try:
                    acts, v, dead = tr.inline(origin, fn, [], {}, 0, entry_env=env)
                except Unsupported as e:
                    raise Unsupported('%s.%s[%s]: %s' % (cls, name, arg, e))
                entries.append(dict(cls=cls, origin=origin, meth=name, arg=arg, has_y=('y' in params and arg != 'y') or
                                    (arg == 'y'), others=[p for p in data if p != arg],
                                    fitting=name in FITTING, actions=acts))
    return entries, nodata


def qs(s):
    return '"' + s.replace('"', '""') + '"'


def act_coq(a):
    t = a[0]
    if t in ('CheckFitted', 'CheckArray', 'CheckLen', 'CheckXy', 'MayRefit'):
        return t
    if t == 'CheckY':
        return '(CheckY %s)' % ('true' if a[1] else 'false')
    if t in ('NeedsArray', 'NeedsNumeric'):
        return '(%s %s)' % (t, qs(a[1]))
    if t == 'CheckX':
        return '(CheckX %s %s)' % ('true' if a[1] else 'false', 'true' if a[2] else 'false')
    if t == 'Use':
        return '(Use %s)' % qs(a[1])
    if t in ('IfUnfitted', 'IfFitted', 'MaybeSkip', 'TryVE'):
        return '(%s %s)' % (t, acts_coq(a[1]))
    raise Unsupported('action %r' % (a,))


def acts_coq(acts):
    return '[' + '; '.join(act_coq(a) for a in acts) + ']'


def arg_coq(arg):
    return {'X': 'AX', 'y': 'AY', 'weights': 'AW', 'exposure': 'AE', 'sample_at_X': 'AXs'}[arg]


def emit(entries, nodata):
    out = ['(* GENERATED by translator/skel_c11.py from pygam/pygam.py -- do not edit *)',
           'From Coq Require Import List String Bool.',
           'From PG Require Import Model.Validation.',
           'Import ListNotations.',
           'Open Scope string_scope.',
           '',
           'Definition c11_traces : list entry := [']
    rows = []
    for e in entries:
        rows.append('  mk_entry %s %s %s %s %s %s\n    %s' % (
            qs(e['cls']), qs(e['origin']), qs(e['meth']), arg_coq(e['arg']), 'true' if e['fitting'] else 'false',
            'true' if e['has_y'] else 'false', acts_coq(e['actions'])))
    out.append(';\n'.join(rows))
    out.append('].')
    out.append('')
    out.append('Definition c11_nodata_methods : list (string * string) := [%s].' %
               '; '.join('(%s, %s)' % (qs(c), qs(m)) for c, m in nodata))
    return '\n'.join(out) + '\n'


def generate(repo, coqdir):
    entries, nodata = extract(repo)
    text = emit(entries, nodata)
    path = os.path.join(coqdir, 'Gen', 'C11Traces.v')
    os.makedirs(os.path.dirname(path), exist_ok=True)
    old = open(path).read() if os.path.exists(path) else None
    if old != text:
        with open(path, 'w') as f:
            f.write(text)
    return entries, nodata


if __name__ == '__main__':
    import sys
    repo = sys.argv[1] if len(sys.argv) > 1 else os.environ.get('VERIF_REPO', '/repo')
    ents, nod = extract(repo)
    for e in ents:
        print('%-12s %-22s %-11s %s' % (e['cls'], e['meth'], e['arg'], acts_coq(e['actions'])))
    print('no data arguments:', nod)
