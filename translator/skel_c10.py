"""skel_c10 -- extract the facts about GAM.gridsearch / PoissonGAM.gridsearch / utils.combine that the C10
theorems rely on, from the Python AST of <repo>/pygam, into coq/Gen/C10Skeleton.v.

Pure `ast`, FAIL-CLOSED: each fact is recognised by an exact statement shape (compared through ast.unparse, i.e. up to
formatting and comments); anything else raises Unsupported.  On failure a stub is written that makes the theorems fail.
"""
import ast
import os


class Unsupported(Exception):
    pass


def coq_str(s):
    return '"%s"' % s.replace('"', '""')


def coq_list(xs):
    return '[' + '; '.join(xs) + ']'


def coq_bool(b):
    return 'true' if b else 'false'


def U(node):
    return ast.unparse(node)


def parse(repo, rel):
    with open(os.path.join(repo, 'pygam', rel)) as f:
        return ast.parse(f.read())


def find_class(tree, name):
    for n in tree.body:
        if isinstance(n, ast.ClassDef) and n.name == name:
            return n
    raise Unsupported('class %s not found' % name)


def find_fn(body, name):
    hits = [n for n in body if isinstance(n, ast.FunctionDef) and n.name == name]
    if len(hits) != 1:
        raise Unsupported('%s: %d definitions' % (name, len(hits)))
    return hits[0]


def strip_doc(body):
    if body and isinstance(body[0], ast.Expr) and isinstance(body[0].value, ast.Constant) and isinstance(body[0].value.value, str):
        return body[1:]
    return body


def need(cond, why):
    if not cond:
        raise Unsupported(why)


CMPOPS = {ast.Lt: 'OLt', ast.LtE: 'OLe', ast.Gt: 'OGt', ast.GtE: 'OGe'}
FLIP = {'OLt': 'OGt', 'OLe': 'OGe', 'OGt': 'OLt', 'OGe': 'OLe'}


def body_text(stmts):
    return [U(s) for s in stmts]


# ------------------------------------------------------------------------------------------ utils.combine
def check_combine(tree):
    fn = find_fn(tree.body, 'combine')
    need(fn.args.vararg is not None and fn.args.vararg.arg == 'args' and not fn.args.args, 'combine: signature is not (*args)')
    body = strip_doc(fn.body)
    need(len(body) == 1 and isinstance(body[0], ast.If), 'combine: body is not a single if/else')
    iff = body[0]
    need(U(iff.test) == "hasattr(args, '__iter__') and len(args) > 1", 'combine: test changed: ' + U(iff.test))
    want_then = ['subtree = combine(*args[:-1])', 'tree = []',
                 "for leaf in subtree:\n    for node in args[-1]:\n        if hasattr(leaf, '__iter__'):\n            tree.append(leaf + [node])\n        else:\n            tree.append([leaf] + [node])",
                 'return tree']
    need(body_text(iff.body) == want_then, 'combine: recursive branch changed:\n' + '\n'.join(body_text(iff.body)))
    need(body_text(iff.orelse) == ['return [[arg] for arg in args[0]]'], 'combine: base case changed: ' + '\n'.join(body_text(iff.orelse)))
    return True


# ------------------------------------------------------------------------------------------ gridsearch
GUARDS = {'not self._is_fitted': 'GNotFitted', 'self._is_fitted': 'GFitted', 'keep_best': 'GKeepBest',
          'return_scores': 'GReturnScores', 'len(models) == 0': 'GNoModels'}


def guard_of(test, neg=False):
    t = U(test)
    if not neg and t in GUARDS:
        return GUARDS[t]
    return '(GOtherGuard %s)' % coq_str(('else: ' if neg else '') + t[:60])


def effects_of(fn, cand_loop):
    out = []

    def expr_effects(node, guards):
        for n in ast.walk(node):
            if isinstance(n, ast.Call):
                f = n.func
                fname = f.attr if isinstance(f, ast.Attribute) else (f.id if isinstance(f, ast.Name) else U(f))
                if isinstance(f, ast.Attribute) and isinstance(f.value, ast.Name) and f.value.id in ('self', 'gam'):
                    out.append(('RSelf' if f.value.id == 'self' else 'RCopy', fname, list(guards)))
                for a in list(n.args) + [k.value for k in n.keywords]:
                    if isinstance(a, ast.Name) and a.id in ('self', 'gam'):
                        out.append(('RSelf' if a.id == 'self' else 'RCopy', fname, list(guards)))
                    if isinstance(a, ast.Starred) and isinstance(a.value, ast.Name) and a.value.id in ('self', 'gam'):
                        raise Unsupported('gridsearch: *self / *gam passed to a call')
            if isinstance(n, (ast.Attribute, ast.Subscript)) and isinstance(n.ctx, (ast.Store, ast.Del)):
                base = n.value
                if isinstance(base, ast.Name) and base.id in ('self', 'gam'):
                    out.append(('RSelf' if base.id == 'self' else 'RCopy', 'store:' + (n.attr if isinstance(n, ast.Attribute) else '[]'), list(guards)))
                if isinstance(base, ast.Attribute) and isinstance(base.value, ast.Name) and base.value.id == 'self':
                    out.append(('RSelf', 'store:' + base.attr + '.*', list(guards)))

    def walk(stmts, guards):
        for s in stmts:
            if isinstance(s, ast.If):
                expr_effects(s.test, guards)
                walk(s.body, guards + [guard_of(s.test)])
                walk(s.orelse, guards + [guard_of(s.test, neg=True)])
            elif isinstance(s, ast.For):
                expr_effects(s.iter, guards)
                walk(s.body, guards + (['GInLoop'] if s is cand_loop else []))
                need(not s.orelse, 'gridsearch: for-else')
            elif isinstance(s, ast.Try):
                need(not s.finalbody and not s.orelse, 'gridsearch: try with else/finally')
                walk(s.body, guards)
                for h in s.handlers:
                    walk(h.body, guards)
            elif isinstance(s, (ast.While, ast.With, ast.FunctionDef)) and not (isinstance(s, ast.FunctionDef) and s.name == 'pbar'):
                raise Unsupported('gridsearch: unsupported compound statement ' + type(s).__name__)
            elif isinstance(s, ast.FunctionDef):
                continue
            elif isinstance(s, ast.Return):
                if s.value is not None:
                    expr_effects(s.value, guards)
            else:
                expr_effects(s, guards)
    walk(strip_doc(fn.body), [])
    # the model object may not be rebound
    for n in ast.walk(fn):
        if isinstance(n, ast.Name) and n.id == 'self' and isinstance(n.ctx, ast.Store):
            raise Unsupported('gridsearch: self rebound')
    return out


def gridsearch_facts(gam_cls):
    fn = find_fn(gam_cls.body, 'gridsearch')
    a = fn.args
    params = [x.arg for x in a.args]
    need(params == ['self', 'X', 'y', 'weights', 'return_scores', 'keep_best', 'objective', 'progress'] and a.kwarg is not None
         and a.kwarg.arg == 'param_grids', 'gridsearch: signature changed: %s' % params)
    defaults = dict(zip(params[len(params) - len(a.defaults):], [U(d) for d in a.defaults]))
    need(defaults.get('keep_best') == 'True' and defaults.get('return_scores') == 'False' and defaults.get('objective') == "'auto'",
         'gridsearch: defaults changed: %s' % defaults)
    body = strip_doc(fn.body)
    F = {}

    # --- objective validation
    allowed = None
    for s in body:
        if isinstance(s, ast.If) and isinstance(s.test, ast.Compare) and U(s.test.left) == 'objective' \
                and len(s.test.ops) == 1 and isinstance(s.test.ops[0], ast.NotIn) and isinstance(s.test.comparators[0], ast.List) \
                and len(s.body) == 1 and isinstance(s.body[0], ast.Raise) and U(s.body[0].exc.func) == 'ValueError':
            allowed = [e.value for e in s.test.comparators[0].elts]
    need(allowed is not None, 'gridsearch: `if objective not in [...]: raise ValueError` not found')
    F['allowed'] = allowed

    def branch(stmts, which):
        need(len(stmts) == 2 and all(isinstance(x, ast.If) and not x.orelse for x in stmts), 'gridsearch: %s-scale branch shape' % which)
        rej, auto = stmts
        need(isinstance(rej.test, ast.Compare) and U(rej.test.left) == 'objective' and isinstance(rej.test.ops[0], ast.Eq)
             and len(rej.body) == 1 and isinstance(rej.body[0], ast.Raise) and U(rej.body[0].exc.func) == 'ValueError',
             'gridsearch: %s-scale rejection' % which)
        need(U(auto.test) == "objective == 'auto'" and len(auto.body) == 1 and isinstance(auto.body[0], ast.Assign)
             and U(auto.body[0].targets[0]) == 'objective' and isinstance(auto.body[0].value, ast.Constant),
             'gridsearch: %s-scale auto default' % which)
        return rej.test.comparators[0].value, auto.body[0].value.value
    tab = [s for s in body if isinstance(s, ast.If) and U(s.test) == 'self.distribution._known_scale']
    need(len(tab) == 1, 'gridsearch: `if self.distribution._known_scale:` not found exactly once')
    F['known_reject'], F['known_auto'] = branch(tab[0].body, 'known')
    F['unknown_reject'], F['unknown_auto'] = branch(tab[0].orelse, 'unknown')
    need(body.index(tab[0]) > [i for i, s in enumerate(body) if isinstance(s, ast.If) and 'objective not in' in U(s.test)][0],
         'gridsearch: objective table before validation')

    # --- default grid
    dflt = [s for s in body if isinstance(s, ast.If) and U(s.test) == 'not bool(param_grids)']
    need(len(dflt) == 1 and len(dflt[0].body) == 1 and isinstance(dflt[0].body[0], ast.Assign)
         and isinstance(dflt[0].body[0].targets[0], ast.Subscript) and U(dflt[0].body[0].targets[0].value) == 'param_grids',
         'gridsearch: default grid')
    F['default_param'] = dflt[0].body[0].targets[0].slice.value
    need(U(dflt[0].body[0].value) == 'np.logspace(-3, 3, 11)', 'gridsearch: default grid values changed')

    # --- grid preparation loop
    ploops = [s for s in body if isinstance(s, ast.For) and U(s.iter) == 'list(param_grids.items())']
    need(len(ploops) == 1, 'gridsearch: parameter loop')
    pl = ploops[0]
    txt = body_text(pl.body)
    need(len(pl.body) == 5, 'gridsearch: parameter loop has %d statements' % len(pl.body))
    need(txt[0].startswith('if param not in admissible_params:\n    raise ValueError('), 'gridsearch: unknown-parameter check')
    need(txt[1].startswith('if not (isiterable(grid) and len(grid) > 1):\n    raise ValueError('), 'gridsearch: grid length check: ' + txt[1][:80])
    prep = pl.body[2]
    need(isinstance(prep, ast.If) and U(prep.test) == 'any((isiterable(g) for g in grid))' and not prep.orelse, 'gridsearch: any(isiterable) test')
    pt = body_text(prep.body)
    need(len(pt) == 6, 'gridsearch: grid preparation block has %d statements' % len(pt))
    need(pt[0] == 'target_len = len(flatten(getattr(self, param)))', 'gridsearch: target_len: ' + pt[0])
    need(pt[1] == 'cartesian = not isinstance(grid, np.ndarray) or grid.ndim != 2', 'gridsearch: cartesian: ' + pt[1])
    need(pt[2] == 'grid = [np.atleast_1d(g) for g in grid]', 'gridsearch: atleast_1d: ' + pt[2])
    need(pt[3].startswith('msg = '), 'gridsearch: msg')
    need(pt[4] == 'if cartesian:\n    if len(grid) != target_len:\n        raise ValueError(msg)\n    grid = combine(*grid)', 'gridsearch: cartesian block: ' + pt[4])
    need(pt[5] == 'if not all([len(subgrid) == target_len for subgrid in grid]):\n    raise ValueError(msg)', 'gridsearch: row length check: ' + pt[5])
    need(txt[3] == 'params.append(param)' and txt[4] == 'grids.append(grid)', 'gridsearch: params/grids append')
    F['cartesian_lists'] = True

    gl = [s for s in body if isinstance(s, ast.For) and U(s.iter) == 'combine(*grids)']
    need(len(gl) == 1 and U(gl[0].target) == 'candidate' and body_text(gl[0].body) == ['param_grid_list.append(dict(zip(params, candidate)))'],
         'gridsearch: candidate list is not combine(*grids) zipped with params')
    need('param_grid_list = []' in body_text(body), 'gridsearch: param_grid_list init')
    F['grid_product'] = True

    # --- best tracking
    top = body_text(body)
    need('best_model = None' in top and 'best_score = np.inf' in top and 'scores = []' in top and 'models = []' in top,
         'gridsearch: best/scores/models initialisation changed')
    F['init_inf'] = True
    seed = [s for s in body if isinstance(s, ast.If) and U(s.test) == 'self._is_fitted']
    need(len(seed) == 1 and not seed[0].orelse and body_text(seed[0].body) ==
         ['models.append(self)', 'scores.append(self.statistics_[objective])', 'best_model = models[-1]', 'best_score = scores[-1]'],
         'gridsearch: seeding from the fitted self changed')
    F['seed_self'] = True

    cl = [s for s in body if isinstance(s, ast.For) and 'param_grid_list' in U(s.iter)]
    need(len(cl) == 1 and U(cl[0].iter) == 'pbar(param_grid_list)' and U(cl[0].target) == 'param_grid', 'gridsearch: candidate loop')
    cand = cl[0]
    need(len(cand.body) == 4 and isinstance(cand.body[0], ast.Try), 'gridsearch: candidate loop body shape')
    tr = cand.body[0]
    need(body_text(tr.body) == ['gam = deepcopy(self)', 'gam.set_params(self.get_params())', 'gam.set_params(**param_grid)',
                                'if models:\n    coef = models[-1].coef_\n    gam.set_params(coef_=coef, force=True, verbose=False)',
                                'gam.fit(X, y, weights=weights)'], 'gridsearch: try body changed:\n' + '\n'.join(body_text(tr.body)))
    need(len(tr.handlers) == 1 and U(tr.handlers[0].type) == 'ValueError' and isinstance(tr.handlers[0].body[-1], ast.Continue)
         and not tr.orelse and not tr.finalbody, 'gridsearch: except ValueError: ... continue')
    F['skip_valueerror'] = True
    need(U(cand.body[1]) == 'models.append(gam)' and U(cand.body[2]) == 'scores.append(gam.statistics_[objective])', 'gridsearch: recording results')
    trk = cand.body[3]
    need(isinstance(trk, ast.If) and not trk.orelse and isinstance(trk.test, ast.Compare) and len(trk.test.ops) == 1
         and type(trk.test.ops[0]) in CMPOPS and body_text(trk.body) == ['best_model = models[-1]', 'best_score = scores[-1]'],
         'gridsearch: best tracking shape')
    l, r = U(trk.test.left), U(trk.test.comparators[0])
    op = CMPOPS[type(trk.test.ops[0])]
    if (l, r) == ('scores[-1]', 'best_score'):
        F['cmp'] = op
    elif (l, r) == ('best_score', 'scores[-1]'):
        F['cmp'] = FLIP[op]
    else:
        raise Unsupported('gridsearch: best tracking compares %s with %s' % (l, r))
    # order of the top-level pieces
    order = [body.index(x) for x in (tab[0], dflt[0], pl, gl[0], seed[0], cand)]
    need(order == sorted(order), 'gridsearch: top-level order changed')
    need(top.index('best_score = np.inf') < body.index(seed[0]) and top.index('models = []') < body.index(seed[0]), 'gridsearch: init after seeding')

    # --- tail
    tail = body[body.index(cand) + 1:]
    need(len(tail) == 3, 'gridsearch: tail has %d statements' % len(tail))
    need(isinstance(tail[0], ast.If) and U(tail[0].test) == 'len(models) == 0' and U(tail[0].body[-1]) == 'return self', 'gridsearch: no-models exit')
    need(U(tail[1]) == 'if keep_best:\n    self.set_params(deep=True, force=True, **deepcopy(best_model.get_params(deep=True)))', 'gridsearch: keep_best copy: ' + U(tail[1]))
    F['keep_copies_best'] = True
    F['keep_deepcopies'] = True      # self receives a deep COPY of the winner's attributes (no object shared with a returned candidate)
    need(U(tail[2]) == 'if return_scores:\n    return OrderedDict(zip(models, scores))\nelse:\n    return self', 'gridsearch: return shape: ' + U(tail[2]))
    F['return_scores_zip'] = True
    F['effects'] = effects_of(fn, cand)
    return F


def poisson_forwarding(cls):
    fn = find_fn(cls.body, 'gridsearch')
    body = strip_doc(fn.body)
    need(len(body) == 2 and U(body[0]) == 'y, weights = self._exposure_to_weights(y, exposure, weights)', 'PoissonGAM.gridsearch: exposure front-end changed')
    r = body[1]
    need(isinstance(r, ast.Return) and isinstance(r.value, ast.Call) and U(r.value.func) == 'super(PoissonGAM, self).gridsearch'
         and [U(x) for x in r.value.args] == ['X', 'y'], 'PoissonGAM.gridsearch: does not return super().gridsearch(X, y, ...)')
    fw = []
    for kw in r.value.keywords:
        if kw.arg is None:
            need(U(kw.value) == 'param_grids', 'PoissonGAM.gridsearch: **kwargs forwarding')
            fw.append('**param_grids')
        elif isinstance(kw.value, ast.Name) and kw.value.id == kw.arg:
            fw.append(kw.arg)
    return fw


def generate_text(repo):
    pg = parse(repo, 'pygam.py')
    ut = parse(repo, 'utils.py')
    check_combine(ut)
    F = gridsearch_facts(find_class(pg, 'GAM'))
    fw = poisson_forwarding(find_class(pg, 'PoissonGAM'))
    eff = ['{| e_recv := %s; e_what := %s; e_guards := %s |}' % (r, coq_str(w), coq_list(g)) for r, w, g in F['effects']]
    L = ['(* GENERATED by translator/skel_c10.py from %s/pygam/{pygam,utils}.py -- do not edit *)' % repo,
         'From Coq Require Import List String.', 'From PG Require Import Model.Grid.', 'Import ListNotations.', 'Open Scope string_scope.', '',
         '(* utils.combine matched the modelled recursion (Model/Grid.v combine_rev) statement by statement *)',
         'Definition Gen_combine_matches_model : bool := true.', '',
         'Definition Gen_gridsearch : gs_skel :=',
         '  {| k_allowed := %s;' % coq_list(map(coq_str, F['allowed'])),
         '     k_known_reject := %s; k_known_auto := %s;' % (coq_str(F['known_reject']), coq_str(F['known_auto'])),
         '     k_unknown_reject := %s; k_unknown_auto := %s;' % (coq_str(F['unknown_reject']), coq_str(F['unknown_auto'])),
         '     k_default_param := %s;' % coq_str(F['default_param']),
         '     k_init_inf := %s; k_seed_self := %s; k_cmp := %s; k_skip_valueerror := %s;' % (
             coq_bool(F['init_inf']), coq_bool(F['seed_self']), F['cmp'], coq_bool(F['skip_valueerror'])),
         '     k_grid_product := %s; k_cartesian_lists := %s; k_keep_copies_best := %s; k_keep_deepcopies := %s; k_return_scores_zip := %s;' % (
             coq_bool(F['grid_product']), coq_bool(F['cartesian_lists']), coq_bool(F['keep_copies_best']), coq_bool(F['keep_deepcopies']), coq_bool(F['return_scores_zip'])),
         '     k_effects :=\n  [ ' + ';\n    '.join(eff) + ' ] |}.', '',
         'Definition Gen_poisson_forwards : list string := %s.' % coq_list(map(coq_str, fw))]
    return '\n'.join(L) + '\n'


STUB = """(* GENERATED STUB: translator/skel_c10.py refused today's source (fail-closed):
   %s *)
From Coq Require Import List String.
From PG Require Import Model.Grid.
Import ListNotations.
Open Scope string_scope.
Definition Gen_combine_matches_model : bool := false.
Definition Gen_gridsearch : gs_skel :=
  {| k_allowed := []; k_known_reject := ""; k_known_auto := ""; k_unknown_reject := ""; k_unknown_auto := ""; k_default_param := "";
     k_init_inf := false; k_seed_self := false; k_cmp := OGe; k_skip_valueerror := false; k_grid_product := false;
     k_cartesian_lists := false; k_keep_copies_best := false; k_keep_deepcopies := false; k_return_scores_zip := false; k_effects := [] |}.
Definition Gen_poisson_forwards : list string := [].
"""


def write_if_changed(out, text):
    os.makedirs(os.path.dirname(out), exist_ok=True)
    old = open(out).read() if os.path.exists(out) else None
    if old != text:
        with open(out, 'w') as f:
            f.write(text)


def generate(repo, coqdir):
    out = os.path.join(coqdir, 'Gen', 'C10Skeleton.v')
    try:
        text = generate_text(repo)
    except Exception as e:
        write_if_changed(out, STUB % str(e).replace('*)', '* )').replace('(*', '( *'))
        raise
    write_if_changed(out, text)
    return out


if __name__ == '__main__':
    import sys
    repo = sys.argv[1] if len(sys.argv) > 1 else os.environ.get('VERIF_REPO', '/repo')
    coqdir = sys.argv[2] if len(sys.argv) > 2 else os.path.join(os.path.dirname(os.path.dirname(os.path.abspath(__file__))), 'coq')
    print(generate(repo, coqdir))
