"""skel_c20 -- extract the control skeleton of GAM._pirls, the callback dispatch loops, the built-in callback
table and the constructor forwarding table from the Python AST of <repo>/pygam into coq/Gen/C20Skeleton.v.

Pure `ast`; FAIL-CLOSED: any statement that does not match one of the shapes below raises Unsupported, which the
check records as a broken translation obligation.

Supported shapes inside `for _ in range(self.max_iter)` of `_pirls` (and after it):
  x [, y ...] = <expr>                         -> AAssign [x; y] kind   (kind from the target/right-hand side, see akind_of)
  self.coef_ = coef_new                        -> ASetCoef
  self._on_loop_start(vars()) / _on_loop_end   -> ALog HStart / HEnd
  np.fill_diagonal(...)                        -> AEffect
  self._estimate_model_statistics(...)         -> AStats [names read]
  print('<literal>')                           -> APrint
  break / return / raise X(...)                -> ABreak / AReturn / ARaise
  if <cond>: <atoms>   (no else)               -> SIf cond [atoms]
      cond in { self.terms.hasconstraint ; not np.isfinite(Q).all() or not np.isfinite(R).all() ; diff <op> self.tol }
"""
import ast
import os


class Unsupported(Exception):
    pass


def _fail(node, why):
    raise Unsupported('%s at line %s: %s' % (why, getattr(node, 'lineno', '?'), ast.unparse(node)[:120] if node is not None else ''))


def coq_str(s):
    return '"%s"' % s.replace('"', '""')


def coq_list(xs):
    return '[' + '; '.join(xs) + ']'


def parse(repo, rel):
    with open(os.path.join(repo, 'pygam', rel)) as f:
        return ast.parse(f.read())


def find_class(tree, name):
    for n in tree.body:
        if isinstance(n, ast.ClassDef) and n.name == name:
            return n
    raise Unsupported('class %s not found' % name)


def find_method(cls, name):
    hits = [n for n in cls.body if isinstance(n, ast.FunctionDef) and n.name == name]
    if len(hits) != 1:
        raise Unsupported('method %s.%s: %d definitions' % (cls.name, name, len(hits)))
    return hits[0]


def strip_doc(body):
    if body and isinstance(body[0], ast.Expr) and isinstance(body[0].value, ast.Constant) and isinstance(body[0].value.value, str):
        return body[1:]
    return body


def is_self_attr(node, attr):
    return isinstance(node, ast.Attribute) and isinstance(node.value, ast.Name) and node.value.id == 'self' and node.attr == attr


def names_read(node):
    return sorted({n.id for n in ast.walk(node) if isinstance(n, ast.Name) and isinstance(n.ctx, ast.Load)})


# ------------------------------------------------------------------------------------------ _pirls
def is_self_call(node, meth):
    return (isinstance(node, ast.Call) and isinstance(node.func, ast.Attribute) and node.func.attr == meth
            and isinstance(node.func.value, ast.Name) and node.func.value.id == 'self')


def is_vars_call(node):
    return isinstance(node, ast.Call) and isinstance(node.func, ast.Name) and node.func.id == 'vars' and not node.args and not node.keywords


def is_np_norm(node, inner_check):
    """np.linalg.norm(<e>) with inner_check(e)"""
    if not (isinstance(node, ast.Call) and len(node.args) == 1 and not node.keywords):
        return False
    f = node.func
    if ast.unparse(f) != 'np.linalg.norm':
        return False
    return inner_check(node.args[0])


def is_diff_expr(node):
    """np.linalg.norm(self.coef_ - coef_new) / np.linalg.norm(coef_new)"""
    if not (isinstance(node, ast.BinOp) and isinstance(node.op, ast.Div)):
        return False

    def num_ok(e):
        return (isinstance(e, ast.BinOp) and isinstance(e.op, ast.Sub) and
                ((is_self_attr(e.left, 'coef_') and isinstance(e.right, ast.Name) and e.right.id == 'coef_new') or
                 (is_self_attr(e.right, 'coef_') and isinstance(e.left, ast.Name) and e.left.id == 'coef_new')))

    def den_ok(e):
        return isinstance(e, ast.Name) and e.id == 'coef_new'
    return is_np_norm(node.left, num_ok) and is_np_norm(node.right, den_ok)


def target_names(t):
    if isinstance(t, ast.Name):
        return [t.id]
    if isinstance(t, ast.Tuple) and all(isinstance(e, ast.Name) for e in t.elts):
        return [e.id for e in t.elts]
    return None


def akind_of(stmt, names, linpred_reads_coef):
    v = stmt.value
    reads_selfcoef = any(is_self_attr(n, 'coef_') for n in ast.walk(v))
    if names == ['coef_new']:
        if reads_selfcoef:
            _fail(stmt, 'coef_new computed from self.coef_ directly (not modelled)')
        return 'KSolve'
    if names == ['diff']:
        if not is_diff_expr(v):
            _fail(stmt, 'diff is not norm(self.coef_ - coef_new) / norm(coef_new)')
        return 'KDiff'
    if 'coef_new' in names or 'diff' in names:
        _fail(stmt, 'tuple assignment to a tracked variable')
    if is_self_call(v, '_linear_predictor'):
        if names != ['lp']:
            _fail(stmt, 'linear predictor bound to an unexpected name')
        if not linpred_reads_coef:
            _fail(stmt, '_linear_predictor does not read self.coef_')
        kws = {k.arg for k in v.keywords}
        if 'b' in kws or len(v.args) > 2:
            _fail(stmt, '_linear_predictor called with explicit coefficients')
        return 'KLinPred'
    if names == ['lp'] or names == ['mu']:
        # masking update x = x[mask] keeps the provenance
        if (isinstance(v, ast.Subscript) and isinstance(v.value, ast.Name) and v.value.id == names[0]
                and isinstance(v.slice, ast.Name) and v.slice.id == 'mask'):
            return 'KKeep'
        if names == ['mu'] and isinstance(v, ast.Call) and ast.unparse(v.func) == 'self.link.mu' \
                and len(v.args) >= 1 and isinstance(v.args[0], ast.Name) and v.args[0].id == 'lp':
            return 'KMuOfLp'
        _fail(stmt, 'unrecognised definition of %s' % names[0])
    if 'lp' in names or 'mu' in names:
        _fail(stmt, 'tuple assignment to a tracked variable')
    if reads_selfcoef:
        _fail(stmt, 'local computed from self.coef_ outside the modelled shapes')
    return 'KOther'


CMPOPS = {ast.Lt: 'OLt', ast.LtE: 'OLe', ast.Gt: 'OGt', ast.GtE: 'OGe'}
FLIP = {'OLt': 'OGt', 'OLe': 'OGe', 'OGt': 'OLt', 'OGe': 'OLe'}


def cond_of(test):
    if ast.unparse(test) == 'self.terms.hasconstraint':
        return 'CHasConstraint'
    if isinstance(test, ast.Compare) and len(test.ops) == 1 and type(test.ops[0]) in CMPOPS:
        op = CMPOPS[type(test.ops[0])]
        l, r = test.left, test.comparators[0]
        if isinstance(l, ast.Name) and l.id == 'diff' and is_self_attr(r, 'tol'):
            return '(CDiffTol %s)' % op
        if isinstance(r, ast.Name) and r.id == 'diff' and is_self_attr(l, 'tol'):
            return '(CDiffTol %s)' % FLIP[op]
    if isinstance(test, ast.BoolOp) and isinstance(test.op, ast.Or) and all(
            isinstance(x, ast.UnaryOp) and isinstance(x.op, ast.Not) and ast.unparse(x.operand).startswith('np.isfinite(')
            and ast.unparse(x.operand).endswith('.all()') for x in test.values):
        return 'CNumFail'
    _fail(test, 'unsupported condition')


def atom_of(stmt, ctx):
    if isinstance(stmt, ast.Assign):
        if len(stmt.targets) != 1:
            _fail(stmt, 'chained assignment')
        t = stmt.targets[0]
        if is_self_attr(t, 'coef_'):
            if not (isinstance(stmt.value, ast.Name) and stmt.value.id == 'coef_new'):
                _fail(stmt, 'self.coef_ assigned from something other than coef_new')
            return 'ASetCoef'
        names = target_names(t)
        if names is None:
            _fail(stmt, 'assignment target is not a local name')
        return '(AAssign %s %s)' % (coq_list(map(coq_str, names)), akind_of(stmt, names, ctx['linpred_reads_coef']))
    if isinstance(stmt, ast.Expr):
        v = stmt.value
        if is_self_call(v, '_on_loop_start') and len(v.args) == 1 and is_vars_call(v.args[0]) and not v.keywords:
            return '(ALog HStart)'
        if is_self_call(v, '_on_loop_end') and len(v.args) == 1 and is_vars_call(v.args[0]) and not v.keywords:
            return '(ALog HEnd)'
        if is_self_call(v, '_estimate_model_statistics'):
            return '(AStats %s)' % coq_list(map(coq_str, [n for n in names_read(v) if n != 'self']))
        if isinstance(v, ast.Call) and ast.unparse(v.func) == 'np.fill_diagonal':
            return '(AEffect "np.fill_diagonal")'
        if isinstance(v, ast.Call) and isinstance(v.func, ast.Name) and v.func.id == 'print' and len(v.args) == 1 \
                and isinstance(v.args[0], ast.Constant) and isinstance(v.args[0].value, str) and not v.keywords:
            return '(APrint %s)' % coq_str(v.args[0].value)
        _fail(stmt, 'unsupported expression statement')
    if isinstance(stmt, ast.Break):
        return 'ABreak'
    if isinstance(stmt, ast.Return):
        if stmt.value is not None:
            _fail(stmt, 'return with a value')
        return 'AReturn'
    if isinstance(stmt, ast.Raise):
        return 'ARaise'
    _fail(stmt, 'unsupported statement')


def sstmt_of(stmt, ctx):
    if isinstance(stmt, ast.If):
        if stmt.orelse:
            _fail(stmt, 'if with else')
        return '(SIf %s %s)' % (cond_of(stmt.test), coq_list([atom_of(s, ctx) for s in stmt.body]))
    return '(SAtom %s)' % atom_of(stmt, ctx)


def pirls_skeleton(gam_cls):
    fn = find_method(gam_cls, '_pirls')
    lp = find_method(gam_cls, '_linear_predictor')
    linpred_reads_coef = any(is_self_attr(n, 'coef_') for n in ast.walk(lp))
    ctx = dict(linpred_reads_coef=linpred_reads_coef)
    body = strip_doc(fn.body)
    loops = [i for i, s in enumerate(body) if isinstance(s, (ast.For, ast.While))]
    if len(loops) != 1 or not isinstance(body[loops[0]], ast.For):
        raise Unsupported('_pirls must contain exactly one top-level for loop')
    k = loops[0]
    for s in body[:k]:
        for n in ast.walk(s):
            if isinstance(n, (ast.Return, ast.For, ast.While, ast.Break, ast.Continue, ast.Try, ast.With)):
                _fail(n, 'control flow before the loop')
            if isinstance(n, ast.Call) and (is_self_call(n, '_on_loop_start') or is_self_call(n, '_on_loop_end')
                                            or is_self_call(n, '_estimate_model_statistics')):
                _fail(n, 'logging/statistics before the loop')
    loop = body[k]
    if loop.orelse:
        _fail(loop, 'for ... else')
    if not (isinstance(loop.target, ast.Name)):
        _fail(loop, 'loop target')
    it = loop.iter
    if not (isinstance(it, ast.Call) and isinstance(it.func, ast.Name) and it.func.id == 'range' and len(it.args) == 1
            and is_self_attr(it.args[0], 'max_iter') and not it.keywords):
        _fail(it, 'loop range is not range(self.max_iter)')
    for s in loop.body:
        for n in ast.walk(s):
            if isinstance(n, (ast.For, ast.While, ast.Continue, ast.Try, ast.With)):
                _fail(n, 'nested control flow in the loop body')
            # self.max_iter / self.tol must not be written inside the loop
            if isinstance(n, ast.Attribute) and isinstance(n.ctx, ast.Store) and n.attr in ('max_iter', 'tol', 'callbacks', 'logs_'):
                _fail(n, 'loop writes a loop-control attribute')
    return [sstmt_of(s, ctx) for s in loop.body], [sstmt_of(s, ctx) for s in body[k + 1:]]


def dispatch_of(gam_cls, name):
    fn = find_method(gam_cls, name)
    body = strip_doc(fn.body)
    if len(body) != 1 or not isinstance(body[0], ast.For):
        raise Unsupported('%s: body is not a single for loop' % name)
    loop = body[0]
    if not (isinstance(loop.target, ast.Name) and is_self_attr(loop.iter, 'callbacks') and not loop.orelse):
        _fail(loop, '%s: not `for callback in self.callbacks`' % name)
    cb = loop.target.id
    if len(loop.body) != 1 or not isinstance(loop.body[0], ast.If) or loop.body[0].orelse:
        _fail(loop, '%s: loop body is not a single if' % name)
    iff = loop.body[0]
    t = iff.test
    if not (isinstance(t, ast.Call) and isinstance(t.func, ast.Name) and t.func.id == 'hasattr' and len(t.args) == 2
            and isinstance(t.args[0], ast.Name) and t.args[0].id == cb and isinstance(t.args[1], ast.Constant)):
        _fail(t, '%s: guard is not hasattr(callback, <name>)' % name)
    guard = t.args[1].value
    if len(iff.body) != 1 or not isinstance(iff.body[0], ast.Expr):
        _fail(iff, '%s: guarded body is not a single call' % name)
    call = iff.body[0].value
    # self.logs_[str(callback)].append(callback.<m>(**variables))
    ok = (isinstance(call, ast.Call) and isinstance(call.func, ast.Attribute) and call.func.attr == 'append'
          and len(call.args) == 1 and not call.keywords)
    if ok:
        tgt = call.func.value
        ok = (isinstance(tgt, ast.Subscript) and is_self_attr(tgt.value, 'logs_')
              and ast.unparse(tgt.slice) == 'str(%s)' % cb)
    if ok:
        inner = call.args[0]
        ok = (isinstance(inner, ast.Call) and isinstance(inner.func, ast.Attribute) and isinstance(inner.func.value, ast.Name)
              and inner.func.value.id == cb and not inner.args and len(inner.keywords) == 1 and inner.keywords[0].arg is None
              and isinstance(inner.keywords[0].value, ast.Name) and inner.keywords[0].value.id == fn.args.args[1].arg)
    if not ok:
        _fail(call, '%s: not self.logs_[str(callback)].append(callback.<m>(**variables))' % name)
    called = inner.func.attr
    hk = {'on_loop_start': 'HStart', 'on_loop_end': 'HEnd'}
    if guard not in hk or called not in hk:
        _fail(call, '%s: unknown callback method' % name)
    return '{| d_guard := %s; d_call := %s |}' % (hk[guard], hk[called])


# ------------------------------------------------------------------------------------------ callbacks.py
VARS = {'gam': 'VGam', 'y': 'VY', 'lp': 'VLp', 'mu': 'VMu', 'coef_new': 'VCoefNew', 'diff': 'VDiff'}


def var_of(name):
    return VARS.get(name, '(VOther %s)' % coq_str(name))


def retkind_of(fn, args):
    body = strip_doc(fn.body)
    if len(body) != 1 or not isinstance(body[0], ast.Return) or body[0].value is None:
        return 'ROpaque'
    e = body[0].value
    src = ast.unparse(e)
    used = [a for a in args if any(isinstance(n, ast.Name) and n.id == a for n in ast.walk(e))]
    if src == 'gam.distribution.deviance(y=y, mu=mu, scaled=False).sum()':
        return '(RDeviance %s)' % coq_list([var_of(a) for a in used if a != 'gam'])
    if src == 'np.mean(y == (mu > 0.5))':
        return '(RAccuracy %s)' % coq_list([var_of(a) for a in used])
    if src == 'diff':
        return 'RDiff'
    if src == 'gam.coef_':
        return 'RCoef'
    return 'ROpaque'


def builtin_callbacks(tree):
    table = None
    for n in tree.body:
        if isinstance(n, ast.Assign) and len(n.targets) == 1 and isinstance(n.targets[0], ast.Name) and n.targets[0].id == 'CALLBACKS':
            if not isinstance(n.value, ast.Dict):
                _fail(n, 'CALLBACKS is not a dict literal')
            table = [(k.value, v.id) for k, v in zip(n.value.keys, n.value.values)]
    if table is None:
        raise Unsupported('CALLBACKS not found')
    out = []
    for key, clsname in table:
        cls = find_class(tree, clsname)
        if [ast.unparse(d) for d in cls.decorator_list] != ['validate_callback']:
            _fail(cls, 'callback class not decorated with validate_callback only')
        init = find_method(cls, '__init__')
        name = None
        for n in ast.walk(init):
            if isinstance(n, ast.Call) and isinstance(n.func, ast.Attribute) and n.func.attr == '__init__':
                for kw in n.keywords:
                    if kw.arg == 'name' and isinstance(kw.value, ast.Constant):
                        name = kw.value.value
        if name is None:
            _fail(init, 'callback name not a literal')
        meths = {}
        rk = 'ROpaque'
        for m in cls.body:
            if isinstance(m, ast.FunctionDef) and m.name in ('on_loop_start', 'on_loop_end'):
                a = m.args
                if a.vararg or a.kwarg or a.kwonlyargs or a.defaults or a.posonlyargs:
                    _fail(m, 'callback method signature')
                args = [x.arg for x in a.args]
                if args[:1] != ['self']:
                    _fail(m, 'callback method without self')
                # validate_callback_data uses co_varnames: arguments *and* locals; require no locals
                stores = {n.id for n in ast.walk(m) if isinstance(n, ast.Name) and isinstance(n.ctx, ast.Store)}
                if stores:
                    _fail(m, 'callback method with local variables')
                meths[m.name] = args[1:]
                rk = retkind_of(m, args[1:])
        if len(meths) == 0:
            _fail(cls, 'callback without methods')

        def opt(mn):
            return '(Some %s)' % coq_list([var_of(a) for a in meths[mn]]) if mn in meths else 'None'
        out.append('{| b_key := %s; b_cb := {| cb_name := %s; cb_start := %s; cb_end := %s |}; b_ret := %s |}' % (
            coq_str(key), coq_str(name), opt('on_loop_start'), opt('on_loop_end'), rk))
    return out


# ------------------------------------------------------------------------------------------ constructors
def ctor_table(tree):
    out = []
    for cls in tree.body:
        if not isinstance(cls, ast.ClassDef):
            continue
        bases = [ast.unparse(b) for b in cls.bases]
        if cls.name != 'GAM' and 'GAM' not in bases:
            continue
        inits = [n for n in cls.body if isinstance(n, ast.FunctionDef) and n.name == '__init__']
        if len(inits) != 1:
            raise Unsupported('class %s: %d __init__' % (cls.name, len(inits)))
        init = inits[0]
        a = init.args
        if a.vararg or a.posonlyargs or a.kwonlyargs:
            _fail(init, 'constructor signature')
        params = [x.arg for x in a.args][1:]
        cb_default = []
        if 'callbacks' in params:
            allargs = [x.arg for x in a.args]
            dmap = dict(zip(allargs[len(allargs) - len(a.defaults):], a.defaults))
            d = dmap.get('callbacks')
            if not (isinstance(d, ast.List) and all(isinstance(e, ast.Constant) and isinstance(e.value, str) for e in d.elts)):
                _fail(init, 'class %s: default of `callbacks` is not a list of string literals' % cls.name)
            cb_default = [e.value for e in d.elts]
        stored = []
        for n in init.body:
            if isinstance(n, ast.Assign) and len(n.targets) == 1 and isinstance(n.targets[0], ast.Attribute) \
                    and isinstance(n.targets[0].value, ast.Name) and n.targets[0].value.id == 'self' \
                    and isinstance(n.value, ast.Name) and n.value.id == n.targets[0].attr:
                stored.append(n.value.id)
        forwarded = []
        if cls.name != 'GAM':
            calls = [n for n in ast.walk(init) if isinstance(n, ast.Call) and isinstance(n.func, ast.Attribute)
                     and n.func.attr == '__init__' and isinstance(n.func.value, ast.Call)
                     and isinstance(n.func.value.func, ast.Name) and n.func.value.func.id == 'super']
            if len(calls) != 1:
                _fail(init, 'class %s: expected exactly one super().__init__ call' % cls.name)
            c = calls[0]
            if c.args:
                _fail(c, 'positional arguments to super().__init__')
            for kw in c.keywords:
                if kw.arg is None:
                    continue  # **kwargs
                # forwarded = passed under the same name with the parameter itself as value
                if isinstance(kw.value, ast.Name) and kw.value.id == kw.arg and kw.arg in params:
                    forwarded.append(kw.arg)
        out.append('{| c_class := %s; c_base := %s; c_params := %s; c_forwarded := %s; c_stored := %s; c_cb_default := %s |}' % (
            coq_str(cls.name), coq_str(bases[0] if bases else ''), coq_list(map(coq_str, params)),
            coq_list(map(coq_str, forwarded)), coq_list(map(coq_str, stored)), coq_list(map(coq_str, cb_default))))
    if len(out) < 2:
        raise Unsupported('model classes not found')
    return out


def max_iter_constraint(gam_cls):
    fn = find_method(gam_cls, '_validate_params')
    for n in ast.walk(fn):
        if isinstance(n, ast.Assign) and len(n.targets) == 1 and is_self_attr(n.targets[0], 'max_iter') \
                and isinstance(n.value, ast.Call) and ast.unparse(n.value.func) == 'check_param':
            kw = {k.arg: k.value for k in n.value.keywords}
            if is_self_attr(n.value.args[0], 'max_iter') and isinstance(kw.get('constraint'), ast.Constant) \
                    and isinstance(kw.get('dtype'), ast.Constant):
                return kw['constraint'].value, kw['dtype'].value
    raise Unsupported('_validate_params: max_iter = check_param(self.max_iter, ..., dtype=, constraint=) not found')


def fit_calls_pirls_once(gam_cls):
    fn = find_method(gam_cls, 'fit')
    body = strip_doc(fn.body)
    calls = [n for n in ast.walk(fn) if is_self_call(n, '_pirls')]
    top = [s for s in body if isinstance(s, ast.Expr) and is_self_call(s.value, '_pirls')]
    if len(calls) != 1 or len(top) != 1:
        raise Unsupported('fit: expected exactly one unconditional self._pirls(...) call')
    first = body[0]
    if not (isinstance(first, ast.Expr) and is_self_call(first.value, '_validate_params')):
        raise Unsupported('fit: does not begin with self._validate_params()')
    return True


STUB = """(* GENERATED STUB: translator/skel_c20.py refused today's source (fail-closed):
   %s
   The empty skeleton below makes every theorem of Props/C20.v about the loop fail to re-check. *)
From Coq Require Import List String.
From PG Require Import Model.Loop.
Import ListNotations.
Open Scope string_scope.
Definition Gen_pirls_body : list sstmt := [].
Definition Gen_pirls_post : list sstmt := [].
Definition Gen_pirls : prog := {| p_body := []; p_post := []; p_start := {| d_guard := HStart; d_call := HStart |}; p_end := {| d_guard := HEnd; d_call := HEnd |} |}.
Definition Gen_builtins : list builtin := [].
Definition Gen_ctors : list ctor := [].
Definition Gen_max_iter_constraint : string := "".
Definition Gen_max_iter_dtype : string := "".
"""


def write_if_changed(out, text):
    os.makedirs(os.path.dirname(out), exist_ok=True)
    old = open(out).read() if os.path.exists(out) else None
    if old != text:          # keep the timestamp when nothing changed so that make does not rebuild
        with open(out, 'w') as f:
            f.write(text)


def generate(repo, coqdir):
    out = os.path.join(coqdir, 'Gen', 'C20Skeleton.v')
    try:
        text = generate_text(repo)
    except Exception as e:
        write_if_changed(out, STUB % str(e).replace('*)', '* )').replace('(*', '( *'))
        raise
    write_if_changed(out, text)
    return out


def generate_text(repo):
    pg = parse(repo, 'pygam.py')
    cbt = parse(repo, 'callbacks.py')
    gam = find_class(pg, 'GAM')
    body, post = pirls_skeleton(gam)
    d_start = dispatch_of(gam, '_on_loop_start')
    d_end = dispatch_of(gam, '_on_loop_end')
    builtins = builtin_callbacks(cbt)
    ctors = ctor_table(pg)
    cons, dt = max_iter_constraint(gam)
    fit_calls_pirls_once(gam)
    L = []
    L.append('(* GENERATED by translator/skel_c20.py from %s/pygam/{pygam,callbacks}.py -- do not edit *)' % repo)
    L.append('From Coq Require Import List String.')
    L.append('From PG Require Import Model.Loop.')
    L.append('Import ListNotations.')
    L.append('Open Scope string_scope.')
    L.append('')
    L.append('Definition Gen_pirls_body : list sstmt :=\n  [ ' + ';\n    '.join(body) + ' ].')
    L.append('')
    L.append('Definition Gen_pirls_post : list sstmt :=\n  [ ' + ';\n    '.join(post) + ' ].')
    L.append('')
    L.append('Definition Gen_pirls : prog :=\n  {| p_body := Gen_pirls_body; p_post := Gen_pirls_post;\n     p_start := %s;\n     p_end := %s |}.' % (d_start, d_end))
    L.append('')
    L.append('Definition Gen_builtins : list builtin :=\n  [ ' + ';\n    '.join(builtins) + ' ].')
    L.append('')
    L.append('Definition Gen_ctors : list ctor :=\n  [ ' + ';\n    '.join(ctors) + ' ].')
    L.append('')
    L.append('Definition Gen_max_iter_constraint : string := %s.' % coq_str(cons))
    L.append('Definition Gen_max_iter_dtype : string := %s.' % coq_str(dt))
    return '\n'.join(L) + '\n'


if __name__ == '__main__':
    import sys
    repo = sys.argv[1] if len(sys.argv) > 1 else os.environ.get('VERIF_REPO', '/repo')
    coqdir = sys.argv[2] if len(sys.argv) > 2 else os.path.join(os.path.dirname(os.path.dirname(os.path.abspath(__file__))), 'coq')
    print(generate(repo, coqdir))
