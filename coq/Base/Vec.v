(* Base/Vec.v -- executable list vectors / row-major matrices, parametric in the number type.
   Definitions only (so the models still run when a proof breaks).                     *)
From Coq Require Import List ZArith Bool Arith.
From PG Require Import Base.Ops.
Import ListNotations.

Section V.
Context {T : Type} (o : rops T).
Notation "0" := (r0 o). Notation "1" := (r1 o).
Infix "+" := (radd o). Infix "-" := (rsub o). Infix "*" := (rmul o).

Fixpoint vadd (u v : list T) : list T :=
  match u, v with a :: u', b :: v' => (a + b) :: vadd u' v' | _, _ => [] end.
Fixpoint vsub (u v : list T) : list T :=
  match u, v with a :: u', b :: v' => (a - b) :: vsub u' v' | _, _ => [] end.
Definition vscale (c : T) (u : list T) : list T := map (fun x => c * x) u.
Fixpoint dot (u v : list T) : T :=
  match u, v with a :: u', b :: v' => a * b + dot u' v' | _, _ => 0 end.
Definition sumsq (u : list T) : T := dot u u.
Fixpoint vsum (u : list T) : T := match u with [] => 0 | a :: u' => a + vsum u' end.
Definition zeros (p : nat) : list T := repeat 0 p.
Definition ones (p : nat) : list T := repeat 1 p.

(* np.diff along the last axis, and its d-fold iterate *)
Definition diff (l : list T) : list T := vsub (tl l) l.
Fixpoint diffn (d : nat) (l : list T) : list T :=
  match d with O => l | S d' => diff (diffn d' l) end.
(* cyclic first difference: (l[1]-l[0], ..., l[n-1]-l[n-2], l[0]-l[n-1]) *)
Definition rotl (l : list T) : list T := match l with [] => [] | a :: l' => l' ++ [a] end.
Definition cdiff (l : list T) : list T := vsub (rotl l) l.
Fixpoint cdiffn (d : nat) (l : list T) : list T :=
  match d with O => l | S d' => cdiff (cdiffn d' l) end.

(* matrices: list of rows *)
Definition mat := list (list T).
Definition matvec (M : mat) (v : list T) : list T := map (fun r => dot r v) M.
Definition quad (M : mat) (v : list T) : T := dot v (matvec M v).
Definition gram (rows : mat) : mat := map (fun ri => map (dot ri) rows) rows.   (* rows * rows^T *)
Fixpoint lincomb (p : nat) (bs : list T) (rows : mat) : list T :=
  match bs, rows with b :: bs', r :: rows' => vadd (vscale b r) (lincomb p bs' rows') | _, _ => zeros p end.
Fixpoint ident (n : nat) : mat :=
  match n with O => [] | S n' => (1 :: zeros n') :: map (cons 0) (ident n') end.
Definition mzero (n m : nat) : mat := repeat (zeros m) n.
Fixpoint madd (A B : mat) : mat :=
  match A, B with a :: A', b :: B' => vadd a b :: madd A' B' | _, _ => [] end.
Definition mscale (c : T) (A : mat) : mat := map (vscale c) A.
Fixpoint zipcons (r : list T) (t : mat) : mat :=
  match r, t with x :: r', c :: t' => (x :: c) :: zipcons r' t' | _, _ => [] end.
Fixpoint transpose (m : nat) (A : mat) : mat :=       (* m = number of columns *)
  match A with [] => repeat [] m | r :: A' => zipcons r (transpose m A') end.
Definition mmul (A : mat) (Bt : mat) : mat := map (fun r => map (dot r) Bt) A.   (* A * Bt^T *)

(* Kronecker product (scipy.sparse.kron): block (i,j) = A[i][j] * B *)
Definition kron_row (ra : list T) (rb : list T) : list T :=
  flat_map (fun a => vscale a rb) ra.
Definition kron (A B : mat) : mat :=
  flat_map (fun ra => map (kron_row ra) B) A.

(* block diagonal of square blocks, given total width bookkeeping *)
Fixpoint block_diag_aux (left : nat) (blocks : list mat) (right_total : nat) : mat :=
  match blocks with
  | [] => []
  | Bk :: rest =>
      let w := length Bk in
      let right := Nat.sub right_total w in
      map (fun r => zeros left ++ r ++ zeros right) Bk
        ++ block_diag_aux (Nat.add left w) rest right
  end.
Definition block_diag (blocks : list mat) : mat :=
  block_diag_aux O blocks (fold_right (fun Bk acc => Nat.add (length Bk) acc) O blocks).

(* slices *)
Definition slice {A} (l : list A) (start len : nat) : list A := firstn len (skipn start l).
(* every s-th element starting at offset: l[off], l[off+s], ... (count of them) *)
Fixpoint strided {A} (d : A) (l : list A) (off s count : nat) : list A :=
  match count with O => [] | S c => nth off l d :: strided d l (Nat.add off s) s c end.

Definition veqb (eqb : T -> T -> bool) (u v : list T) : bool :=
  Nat.eqb (length u) (length v) && forallb (fun p => eqb (fst p) (snd p)) (combine u v).
Definition meqb (eqb : T -> T -> bool) (A B : mat) : bool :=
  Nat.eqb (length A) (length B) && forallb (fun p => veqb eqb (fst p) (snd p)) (combine A B).
Definition req (a b : T) : bool := rleb o a b && rleb o b a.
End V.
