(* Base/Transfer.v -- Paramcoq relations between the computing instances (Z, dyadic, Q)
   and the real instance.  Every parametric model function f gets a free theorem
   f_R; instantiating it with the relations below gives
       Q2R (f Qfops x) = f Rfops (map Q2R x)       etc.                          *)
From Coq Require Import List ZArith QArith Qround Qreals Reals Lra Lia Bool.
From Param Require Import Param.
From PG Require Import Base.Ops.
Import ListNotations.

Parametricity bool. Parametricity nat. Parametricity list. Parametricity option.
Parametricity prod.
Parametricity positive. Parametricity Z.
Parametricity rops. Parametricity fops.

Definition QR (q : Q) (r : R) : Type := Q2R q = r.
Definition ZR (z : Z) (r : R) : Type := IZR z = r.
Definition dval (d : dy) : R := (IZR (dm d) * powerRZ 2 (de d))%R.
Definition DR (d : dy) (r : R) : Type := dval d = r.

(* equal Z on both sides *)
Lemma Z_R_refl (z : Z) : Z_R z z.
Proof.
  assert (P : forall p, positive_R p p) by (induction p; constructor; assumption).
  destruct z; constructor; apply P.
Qed.
Lemma Z_R_eq (a b : Z) : Z_R a b -> a = b.
Proof.
  assert (P : forall p q, positive_R p q -> p = q) by (induction 1; congruence).
  destruct 1; try reflexivity; f_equal; apply P; assumption.
Qed.
Lemma bool_R_refl (b : bool) : bool_R b b. Proof. destruct b; constructor. Qed.
Lemma bool_R_eq a b : bool_R a b -> a = b. Proof. destruct 1; reflexivity. Qed.
Lemma nat_R_refl (n : nat) : nat_R n n. Proof. induction n; constructor; assumption. Qed.
Lemma nat_R_eq a b : nat_R a b -> a = b. Proof. induction 1; congruence. Qed.

Lemma Q2R_red q : Q2R (Qred q) = Q2R q. Proof. apply Qeq_eqR, Qred_correct. Qed.
Lemma Q2R_0 : Q2R 0 = 0%R. Proof. unfold Q2R; cbn; lra. Qed.
Lemma Q2R_1 : Q2R 1 = 1%R. Proof. unfold Q2R; cbn; lra. Qed.
Lemma Q2R_inject_Z z : Q2R (inject_Z z) = IZR z. Proof. unfold Q2R; cbn. lra. Qed.

Lemma Int_part_spec (r : R) (z : Z) : (IZR z <= r < IZR z + 1)%R -> Int_part r = z.
Proof.
  intros [H1 H2]. unfold Int_part. destruct (archimed r) as [A1 A2].
  assert (IZR (up r) - 1 <= r)%R by lra.
  assert (Hlt1 : (IZR z < IZR (up r))%R) by lra.
  assert (Hlt2 : (IZR (up r) < IZR z + 2)%R) by lra.
  apply lt_IZR in Hlt1. replace (IZR z + 2)%R with (IZR (z + 2)) in Hlt2 by (rewrite plus_IZR; lra).
  apply lt_IZR in Hlt2. lia.
Qed.

Lemma Qfloor_Int_part q : Qfloor q = Int_part (Q2R q).
Proof.
  symmetry. apply Int_part_spec. split.
  - rewrite <- Q2R_inject_Z. apply Qle_Rle. apply Qfloor_le.
  - replace (IZR (Qfloor q) + 1)%R with (Q2R (inject_Z (Qfloor q + 1))).
    + apply Qlt_Rlt. apply Qlt_floor.
    + rewrite Q2R_inject_Z, plus_IZR. lra.
Qed.

Arguments Qred : simpl never. Arguments Qplus : simpl never. Arguments Qminus : simpl never.
Arguments Qmult : simpl never. Arguments Qdiv : simpl never.

Lemma Qrops_R : rops_R Q R QR Qrops Rrops.
Proof.
  constructor; cbn; unfold QR.
  - apply Q2R_0.
  - apply Q2R_1.
  - intros a1 a2 Ha b1 b2 Hb. unfold Qadd'. rewrite Q2R_red, Q2R_plus. congruence.
  - intros a1 a2 Ha b1 b2 Hb. unfold Qsub'. rewrite Q2R_red, Q2R_minus. congruence.
  - intros a1 a2 Ha b1 b2 Hb. unfold Qmul'. rewrite Q2R_red, Q2R_mult. congruence.
  - intros a1 a2 Ha b1 b2 Hb. subst. unfold Rleb. destruct (Rle_dec (Q2R a1) (Q2R b1)) as [h|h].
    + apply Rle_Qle in h. apply Qle_bool_iff in h. rewrite h. constructor.
    + destruct (Qle_bool a1 b1) eqn:E; [|constructor]. apply Qle_bool_iff in E. apply Qle_Rle in E. contradiction.
  - intros a1 a2 Ha b1 b2 Hb. subst. unfold Rltb, Qltb. destruct (Rlt_dec (Q2R a1) (Q2R b1)) as [h|h].
    + destruct (Qle_bool b1 a1) eqn:E; [|constructor]. apply Qle_bool_iff in E. apply Qle_Rle in E. lra.
    + destruct (Qle_bool b1 a1) eqn:E; [constructor|].
      assert (~ (b1 <= a1)%Q) as N by (intro X; apply Qle_bool_iff in X; congruence).
      exfalso. apply N. apply Rle_Qle. lra.
  - intros z1 z2 Hz. apply Z_R_eq in Hz. subst. apply Q2R_inject_Z.
Qed.

Lemma Qfops_R : fops_R Q R QR Qfops Rfops.
Proof.
  constructor; cbn.
  - apply Qrops_R.
  - unfold QR. intros a1 a2 Ha b1 b2 Hb. unfold Qdiv'. rewrite Q2R_red. unfold Rdivt. subst.
    destruct (Req_EM_T (Q2R b1) 0) as [e|ne].
    + assert (b1 == 0)%Q as Hz by (apply eqR_Qeq; rewrite e; rewrite Q2R_0; reflexivity).
      unfold Qdiv. rewrite Hz. unfold Qinv; cbn. rewrite Qmult_0_r. apply Q2R_0.
    + apply Q2R_div. intro Hz. apply ne. rewrite (Qeq_eqR _ _ Hz). apply Q2R_0.
  - unfold QR. intros a1 a2 Ha. subst. rewrite Qfloor_Int_part. apply Z_R_refl.
Qed.

Lemma Zrops_R : rops_R Z R ZR Zrops Rrops.
Proof.
  constructor; cbn; unfold ZR.
  - reflexivity.
  - reflexivity.
  - intros a1 a2 Ha b1 b2 Hb. rewrite plus_IZR. congruence.
  - intros a1 a2 Ha b1 b2 Hb. rewrite minus_IZR. congruence.
  - intros a1 a2 Ha b1 b2 Hb. rewrite mult_IZR. congruence.
  - intros a1 a2 Ha b1 b2 Hb. subst. unfold Rleb. destruct (Rle_dec (IZR a1) (IZR b1)) as [h|h].
    + apply le_IZR in h. apply Z.leb_le in h. rewrite h. constructor.
    + destruct (Z.leb a1 b1) eqn:E; [|constructor]. apply Z.leb_le in E. apply IZR_le in E. contradiction.
  - intros a1 a2 Ha b1 b2 Hb. subst. unfold Rltb. destruct (Rlt_dec (IZR a1) (IZR b1)) as [h|h].
    + apply lt_IZR in h. apply Z.ltb_lt in h. rewrite h. constructor.
    + destruct (Z.ltb a1 b1) eqn:E; [|constructor]. apply Z.ltb_lt in E. apply IZR_lt in E. contradiction.
  - intros z1 z2 Hz. apply Z_R_eq in Hz. subst. reflexivity.
Qed.

(* ---- dyadics ---- *)
Lemma shiftl_IZR m k : (0 <= k)%Z -> IZR (Z.shiftl m k) = (IZR m * powerRZ 2 k)%R.
Proof.
  intros Hk. rewrite Z.shiftl_mul_pow2 by assumption. rewrite mult_IZR. f_equal.
  rewrite <- (Z2Nat.id k) by assumption. rewrite <- pow_IZR. apply pow_powerRZ.
Qed.
Lemma pow2_pos e : (0 < powerRZ 2 e)%R. Proof. apply powerRZ_lt. lra. Qed.
Lemma dalign_spec a b x y e : dalign a b = (x, y, e) ->
  dval a = (IZR x * powerRZ 2 e)%R /\ dval b = (IZR y * powerRZ 2 e)%R.
Proof.
  unfold dalign, dval. destruct (Z.leb_spec (de a) (de b)) as [H|H]; intros E; inversion E; subst; clear E.
  - split; [reflexivity|]. rewrite shiftl_IZR by lia. rewrite Rmult_assoc, <- powerRZ_add by lra.
    f_equal. f_equal. lia.
  - split; [|reflexivity]. rewrite shiftl_IZR by lia. rewrite Rmult_assoc, <- powerRZ_add by lra.
    f_equal. f_equal. lia.
Qed.
Lemma dval_add a b : dval (dadd a b) = (dval a + dval b)%R.
Proof. unfold dadd. destruct (dalign a b) as [[x y] e] eqn:E. destruct (dalign_spec _ _ _ _ _ E) as [-> ->].
  unfold dval; cbn. rewrite plus_IZR. lra. Qed.
Lemma dval_sub a b : dval (dsub a b) = (dval a - dval b)%R.
Proof. unfold dsub. destruct (dalign a b) as [[x y] e] eqn:E. destruct (dalign_spec _ _ _ _ _ E) as [-> ->].
  unfold dval; cbn. rewrite minus_IZR. lra. Qed.
Lemma dval_mul a b : dval (dmul a b) = (dval a * dval b)%R.
Proof. unfold dmul, dval; cbn. rewrite mult_IZR, powerRZ_add by lra. lra. Qed.
Lemma dval_leb a b : dleb a b = Rleb (dval a) (dval b).
Proof. unfold dleb. destruct (dalign a b) as [[x y] e] eqn:E. destruct (dalign_spec _ _ _ _ _ E) as [-> ->].
  pose proof (pow2_pos e) as P. unfold Rleb.
  destruct (Rle_dec (IZR x * powerRZ 2 e) (IZR y * powerRZ 2 e)) as [h|h].
  - apply Z.leb_le. apply le_IZR. apply Rmult_le_reg_r with (powerRZ 2 e); assumption.
  - destruct (Z.leb_spec x y) as [L|L]; [|reflexivity]. exfalso. apply h.
    apply Rmult_le_compat_r; [lra|]. apply IZR_le; assumption.
Qed.
Lemma dval_ltb a b : dltb a b = Rltb (dval a) (dval b).
Proof. unfold dltb. destruct (dalign a b) as [[x y] e] eqn:E. destruct (dalign_spec _ _ _ _ _ E) as [-> ->].
  pose proof (pow2_pos e) as P. unfold Rltb.
  destruct (Rlt_dec (IZR x * powerRZ 2 e) (IZR y * powerRZ 2 e)) as [h|h].
  - apply Z.ltb_lt. apply lt_IZR. apply Rmult_lt_reg_r with (powerRZ 2 e); assumption.
  - destruct (Z.ltb_spec x y) as [L|L]; [|reflexivity]. exfalso. apply h.
    apply Rmult_lt_compat_r; [lra|]. apply IZR_lt; assumption.
Qed.

Lemma Drops_R : rops_R dy R DR Drops Rrops.
Proof.
  constructor; cbn; unfold DR.
  - unfold dval; cbn; lra.
  - unfold dval; cbn; lra.
  - intros a1 a2 Ha b1 b2 Hb. rewrite dval_add. congruence.
  - intros a1 a2 Ha b1 b2 Hb. rewrite dval_sub. congruence.
  - intros a1 a2 Ha b1 b2 Hb. rewrite dval_mul. congruence.
  - intros a1 a2 Ha b1 b2 Hb. subst. rewrite dval_leb. apply bool_R_refl.
  - intros a1 a2 Ha b1 b2 Hb. subst. rewrite dval_ltb. apply bool_R_refl.
  - intros z1 z2 Hz. apply Z_R_eq in Hz. subst. unfold dval; cbn. lra.
Qed.

(* lists related pointwise *)
Fixpoint list_QR (l : list Q) : list_R Q R QR l (map Q2R l) :=
  match l with [] => list_R_nil_R _ _ _
  | a :: tl => list_R_cons_R _ _ _ a (Q2R a) eq_refl tl (map Q2R tl) (list_QR tl) end.
Fixpoint list_ZR (l : list Z) : list_R Z R ZR l (map IZR l) :=
  match l with [] => list_R_nil_R _ _ _
  | a :: tl => list_R_cons_R _ _ _ a (IZR a) eq_refl tl (map IZR tl) (list_ZR tl) end.
Fixpoint list_DR (l : list dy) : list_R dy R DR l (map dval l) :=
  match l with [] => list_R_nil_R _ _ _
  | a :: tl => list_R_cons_R _ _ _ a (dval a) eq_refl tl (map dval tl) (list_DR tl) end.
Fixpoint list_nat_refl (l : list nat) : list_R nat nat nat_R l l :=
  match l with [] => list_R_nil_R _ _ _
  | a :: tl => list_R_cons_R _ _ _ a a (nat_R_refl a) tl tl (list_nat_refl tl) end.

Lemma list_R_eq_map {A B} (RR : A -> B -> Type) (f : A -> B) (H : forall a b, RR a b -> f a = b)
  l1 l2 : list_R A B RR l1 l2 -> map f l1 = l2.
Proof. induction 1; cbn; [reflexivity|]. f_equal; auto. Qed.
Lemma list_QR_inv l1 l2 : list_R Q R QR l1 l2 -> map Q2R l1 = l2.
Proof. apply list_R_eq_map. intros a b H; exact H. Qed.
Lemma list_ZR_inv l1 l2 : list_R Z R ZR l1 l2 -> map IZR l1 = l2.
Proof. apply list_R_eq_map. intros a b H; exact H. Qed.
Lemma llist_ZR_inv l1 l2 : list_R (list Z) (list R) (list_R Z R ZR) l1 l2 -> map (map IZR) l1 = l2.
Proof. apply list_R_eq_map. intros a b H; apply list_ZR_inv; exact H. Qed.
Lemma llist_QR_inv l1 l2 : list_R (list Q) (list R) (list_R Q R QR) l1 l2 -> map (map Q2R) l1 = l2.
Proof. apply list_R_eq_map. intros a b H; apply list_QR_inv; exact H. Qed.
