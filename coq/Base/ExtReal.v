(* Base/ExtReal.v -- IEEE special-value semantics (NaN / infinities; no rounding, no signed zero) used to model
   `np.isnan(link.link(y, dist))` in utils.check_y. *)
From Coq Require Import Reals Lra.
Open Scope R_scope.
Inductive ER := Fin (r : R) | PInf | NInf | NaN.
Definition Eisnan (x : ER) : bool := match x with NaN => true | _ => false end.
Definition Eln (x : ER) : ER :=
  match x with
  | Fin r => if Rlt_dec r 0 then NaN else if Req_EM_T r 0 then NInf else Fin (ln r)
  | PInf => PInf | NInf => NaN | NaN => NaN end.
Definition Eneg (x : ER) : ER := match x with Fin r => Fin (- r) | PInf => NInf | NInf => PInf | NaN => NaN end.
Definition Eadd (a b : ER) : ER :=
  match a, b with
  | NaN, _ | _, NaN => NaN
  | Fin x, Fin y => Fin (x + y)
  | PInf, NInf | NInf, PInf => NaN
  | PInf, _ | _, PInf => PInf
  | NInf, _ | _, NInf => NInf
  end.
Definition Esub (a b : ER) : ER := Eadd a (Eneg b).
(* x ** -k for k = 1, 2 (numpy float power): 0 -> +inf, +-inf -> 0 *)
Definition Epow_neg (k : nat) (x : ER) : ER :=
  match x with
  | Fin r => if Req_EM_T r 0 then PInf else Fin (/ (r ^ k))
  | PInf | NInf => Fin 0 | NaN => NaN end.
