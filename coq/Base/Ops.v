(* Base/Ops.v -- number-type interface shared by every executable model.
   rops : ring operations + decidable order + injection of Z   (no division)
   fops : rops + total division (a/0 := 0) + floor
   Instances: Z, dyadic (m * 2^e), Q (Qred-normalised), R.                     *)
From Coq Require Import List ZArith QArith Qround Reals Lra Lia Bool.
Import ListNotations.

Record rops (T : Type) := mk_rops {
  r0 : T; r1 : T;
  radd : T -> T -> T; rsub : T -> T -> T; rmul : T -> T -> T;
  rleb : T -> T -> bool; rltb : T -> T -> bool;
  rofZ : Z -> T }.
Arguments r0 {T}. Arguments r1 {T}. Arguments radd {T}. Arguments rsub {T}.
Arguments rmul {T}. Arguments rleb {T}. Arguments rltb {T}. Arguments rofZ {T}.

Record fops (T : Type) := mk_fops {
  fr : rops T;
  fdiv : T -> T -> T;
  ffloor : T -> Z }.
Arguments fr {T}. Arguments fdiv {T}. Arguments ffloor {T}.

(* ---------- Z ---------- *)
Definition Zrops : rops Z :=
  {| r0 := 0%Z; r1 := 1%Z; radd := Z.add; rsub := Z.sub; rmul := Z.mul;
     rleb := Z.leb; rltb := Z.ltb; rofZ := fun z => z |}.

(* ---------- dyadic rationals m * 2^e ---------- *)
Record dy := mkdy { dm : Z; de : Z }.
Definition dalign (a b : dy) : Z * Z * Z :=
  if Z.leb (de a) (de b) then (dm a, Z.shiftl (dm b) (de b - de a), de a)
  else (Z.shiftl (dm a) (de a - de b), dm b, de b).
Definition dadd (a b : dy) : dy := let '(x, y, e) := dalign a b in mkdy (x + y) e.
Definition dsub (a b : dy) : dy := let '(x, y, e) := dalign a b in mkdy (x - y) e.
Definition dmul (a b : dy) : dy := mkdy (dm a * dm b) (de a + de b).
Definition dleb (a b : dy) : bool := let '(x, y, _) := dalign a b in Z.leb x y.
Definition dltb (a b : dy) : bool := let '(x, y, _) := dalign a b in Z.ltb x y.
Definition Drops : rops dy :=
  {| r0 := mkdy 0 0; r1 := mkdy 1 0; radd := dadd; rsub := dsub; rmul := dmul;
     rleb := dleb; rltb := dltb; rofZ := fun z => mkdy z 0 |}.

(* ---------- Q ---------- *)
Definition Qadd' (a b : Q) := Qred (a + b).
Definition Qsub' (a b : Q) := Qred (a - b).
Definition Qmul' (a b : Q) := Qred (a * b).
Definition Qdiv' (a b : Q) := Qred (a / b).      (* Qinv 0 = 0, so a/0 = 0 *)
Definition Qltb (a b : Q) : bool := negb (Qle_bool b a).
Definition Qrops : rops Q :=
  {| r0 := 0%Q; r1 := 1%Q; radd := Qadd'; rsub := Qsub'; rmul := Qmul';
     rleb := Qle_bool; rltb := Qltb; rofZ := inject_Z |}.
Definition Qfops : fops Q := {| fr := Qrops; fdiv := Qdiv'; ffloor := Qfloor |}.
(* dyadic literal as a rational: m * 2^e *)
Definition Qdy (m e : Z) : Q :=
  if Z.leb 0 e then inject_Z (m * 2 ^ e) else Qred (Qmake m (Z.to_pos (2 ^ (- e)))).

(* ---------- R ---------- *)
Definition Rdivt (a b : R) : R := if Req_EM_T b 0 then 0%R else (a / b)%R.
Definition Rleb (a b : R) : bool := if Rle_dec a b then true else false.
Definition Rltb (a b : R) : bool := if Rlt_dec a b then true else false.
Definition Rrops : rops R :=
  {| r0 := 0%R; r1 := 1%R; radd := Rplus; rsub := Rminus; rmul := Rmult;
     rleb := Rleb; rltb := Rltb; rofZ := IZR |}.
Definition Rfops : fops R := {| fr := Rrops; fdiv := Rdivt; ffloor := Int_part |}.

Lemma Rdivt_ok a b : b <> 0%R -> Rdivt a b = (a / b)%R.
Proof. intros H; unfold Rdivt; destruct (Req_EM_T b 0); [contradiction|reflexivity]. Qed.
Lemma Rleb_true a b : Rleb a b = true <-> (a <= b)%R.
Proof. unfold Rleb; destruct (Rle_dec a b); split; auto; discriminate. Qed.
Lemma Rleb_false a b : Rleb a b = false <-> (b < a)%R.
Proof. unfold Rleb; destruct (Rle_dec a b); split; try discriminate; auto; lra. Qed.
Lemma Rltb_true a b : Rltb a b = true <-> (a < b)%R.
Proof. unfold Rltb; destruct (Rlt_dec a b); split; auto; discriminate. Qed.
Lemma Rltb_false a b : Rltb a b = false <-> (b <= a)%R.
Proof. unfold Rltb; destruct (Rlt_dec a b); split; try discriminate; auto; lra. Qed.
