(* Base/ParamNat.v -- Paramcoq realizers for nat functions whose fixpoints the plugin cannot translate on
   Coq 8.16 ("generated proof obligations" that cannot be opened): since nat_R n m <-> n = m, any function
   between nat/bool is parametric.  Import this file before `Parametricity Recursive f` when f uses them. *)
From Coq Require Import List ZArith Arith.
From Param Require Import Param.
From PG Require Import Base.Ops Base.Transfer.

Lemma nat1_R (f : nat -> nat) n1 n2 (Hn : nat_R n1 n2) : nat_R (f n1) (f n2).
Proof. apply nat_R_eq in Hn. subst. apply nat_R_refl. Qed.
Lemma nat1b_R (f : nat -> bool) n1 n2 (Hn : nat_R n1 n2) : bool_R (f n1) (f n2).
Proof. apply nat_R_eq in Hn. subst. apply bool_R_refl. Qed.
Lemma nat2_R (f : nat -> nat -> nat) n1 n2 (Hn : nat_R n1 n2) m1 m2 (Hm : nat_R m1 m2) : nat_R (f n1 m1) (f n2 m2).
Proof. apply nat_R_eq in Hn, Hm. subst. apply nat_R_refl. Qed.
Lemma nat2b_R (f : nat -> nat -> bool) n1 n2 (Hn : nat_R n1 n2) m1 m2 (Hm : nat_R m1 m2) : bool_R (f n1 m1) (f n2 m2).
Proof. apply nat_R_eq in Hn, Hm. subst. apply bool_R_refl. Qed.

Realizer Nat.sub as Nat_sub_R := (nat2_R Nat.sub).
Realizer Nat.div as Nat_div_R := (nat2_R Nat.div).
Realizer Nat.modulo as Nat_modulo_R := (nat2_R Nat.modulo).
Realizer Nat.mul as Nat_mul_R := (nat2_R Nat.mul).
Realizer Nat.add as Nat_add_R := (nat2_R Nat.add).
Realizer Nat.min as Nat_min_R := (nat2_R Nat.min).
Realizer Nat.max as Nat_max_R := (nat2_R Nat.max).
Realizer Nat.pow as Nat_pow_R := (nat2_R Nat.pow).
Realizer Nat.ltb as Nat_ltb_R := (nat2b_R Nat.ltb).
Realizer Nat.leb as Nat_leb_R := (nat2b_R Nat.leb).
Realizer Nat.eqb as Nat_eqb_R := (nat2b_R Nat.eqb).
Realizer Nat.even as Nat_even_R := (nat1b_R Nat.even).
Realizer Nat.odd as Nat_odd_R := (nat1b_R Nat.odd).
Realizer Nat.pred as Nat_pred_R := (nat1_R Nat.pred).
