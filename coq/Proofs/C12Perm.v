(* Proofs/C12Perm.v -- both sides of the penalised normal equations are sums over the training rows: invariant under
   permutations of the rows, and a row of weight k*w contributes what k rows of weight w contribute.  The same for the
   edof (a sum of leverages over the rows).  Real instance, all sizes. *)
From Coq Require Import List Reals Lra Lia Arith Bool Permutation.
From PG Require Import Base.Ops Base.Vec Model.Pirls Model.Invariance Proofs.VecR Proofs.C01 Proofs.C12Lin.
Import ListNotations.
Open Scope R_scope.

Notation trowR := (@trow R).
Notation rows_lhsR := (rows_lhs Rfops). Notation rows_rhsR := (rows_rhs Rfops). Notation rows_stepR := (rows_step Rfops).
Notation edofR := (edof_rows Rfops). Notation leverageR := (leverage Rfops).

(* ---------- a sum of scaled rows:  L g rows = sum_t g(t) * B_t ---------- *)
Definition rowsum (m : nat) (g : trowR -> R) (rows : list trowR) : list R := lincombR m (map g rows) (rB rows).
Lemma rowsum_cons m g t rows : rowsum m g (t :: rows) = vaddR (vscaleR (g t) (fst (fst t))) (rowsum m g rows).
Proof. reflexivity. Qed.
Lemma vadd_comm_assoc a : forall b c, vaddR a (vaddR b c) = vaddR b (vaddR a c).
Proof. induction a as [|x a IH]; intros [|y b] [|z c]; cbn [vadd]; try reflexivity. rewrite IH. f_equal. cbn. lra. Qed.
Lemma rowsum_perm m g rows rows' : Permutation rows rows' -> rowsum m g rows = rowsum m g rows'.
Proof. induction 1 as [| t l l' _ IH | s t l | l l' l'' _ IH1 _ IH2].
  - reflexivity.
  - rewrite !rowsum_cons, IH. reflexivity.
  - rewrite !rowsum_cons. apply vadd_comm_assoc.
  - congruence. Qed.
Lemma rowsum_length m g rows : Forall (fun t => length (fst (fst t)) = m) rows -> length (rowsum m g rows) = m.
Proof. intros H. unfold rowsum. apply lincomb_length. unfold rB. apply Forall_map. exact H. Qed.

Lemma vmul_map {A} (f h : A -> R) l : vmulR (map f l) (map h l) = map (fun t => f t * h t) l.
Proof. induction l as [|t l IH]; [reflexivity|]. cbn [map vmul]. rewrite IH. reflexivity. Qed.
(* the Gram side and the right-hand side as row sums *)
Lemma gram_side_rowsum m rows b :
  Bt_mulR m (rB rows) (vmulR (rW rows) (matvecR (rB rows) b)) = rowsum m (fun t => snd (fst t) * dotR (fst (fst t)) b) rows.
Proof. unfold Bt_mul, rowsum. change (fr Rfops) with Rrops. f_equal.
  unfold matvec, rB, rW. rewrite map_map. apply (vmul_map (fun t : trowR => snd (fst t)) (fun t => dotR (fst (fst t)) b)). Qed.
Lemma rhs_rowsum m rows : rows_rhsR m rows = rowsum m (fun t => snd (fst t) * snd t) rows.
Proof. unfold rows_rhs, neq_rhs, Bt_mul, rowsum. change (fr Rfops) with Rrops. f_equal.
  unfold rW, rZ. apply (vmul_map (fun t : trowR => snd (fst t)) (fun t => snd t)). Qed.
Lemma lhs_rowsum m rows Ptot b :
  rows_lhsR m rows Ptot b = vaddR (rowsum m (fun t => snd (fst t) * dotR (fst (fst t)) b) rows) (matvecR Ptot b).
Proof. unfold rows_lhs, neq_lhs. change (fr Rfops) with Rrops. rewrite gram_side_rowsum. reflexivity. Qed.

(* ---------- permutation of the training rows ---------- *)
Theorem perm_gram_side m rows rows' b : Permutation rows rows' ->
  Bt_mulR m (rB rows) (vmulR (rW rows) (matvecR (rB rows) b)) = Bt_mulR m (rB rows') (vmulR (rW rows') (matvecR (rB rows') b)).
Proof. intros H. rewrite !gram_side_rowsum. apply rowsum_perm, H. Qed.
Theorem perm_rhs m rows rows' : Permutation rows rows' ->
  Bt_mulR m (rB rows) (vmulR (rW rows) (rZ rows)) = Bt_mulR m (rB rows') (vmulR (rW rows') (rZ rows')).
Proof. intros H. change (rows_rhsR m rows = rows_rhsR m rows'). rewrite !rhs_rowsum. apply rowsum_perm, H. Qed.
Theorem perm_lhs m rows rows' Ptot b : Permutation rows rows' -> rows_lhsR m rows Ptot b = rows_lhsR m rows' Ptot b.
Proof. intros H. rewrite !lhs_rowsum, (rowsum_perm _ _ _ _ H). reflexivity. Qed.
Theorem perm_step m rows rows' Ptot b : Permutation rows rows' -> (rows_stepR m rows Ptot b <-> rows_stepR m rows' Ptot b).
Proof. intros H. unfold rows_step, is_step. change (rows_lhsR m rows Ptot b = rows_rhsR m rows <-> rows_lhsR m rows' Ptot b = rows_rhsR m rows').
  rewrite (perm_lhs m rows rows' Ptot b H). unfold rows_rhs, neq_rhs. rewrite (perm_rhs m rows rows' H). tauto. Qed.
(* the fitted linear predictor of the permuted data is the permuted linear predictor *)
Theorem perm_fitted rows rows' b : Permutation rows rows' -> Permutation (matvecR (rB rows) b) (matvecR (rB rows') b).
Proof. intros H. unfold matvec, rB. rewrite !map_map. apply Permutation_map, H. Qed.

(* ---------- sums of scalars over the rows (edof) ---------- *)
Lemma vsum_perm (u v : list R) : Permutation u v -> vsumR u = vsumR v.
Proof. induction 1; cbn; try lra. Qed.
Theorem perm_edof_same_solver sol rows rows' : Permutation rows rows' -> edofR sol rows = edofR sol rows'.
Proof. intros H. unfold edof_rows. apply vsum_perm, Permutation_map, H. Qed.

(* a solver of the operator on the model-matrix rows; with a positive definite operator any two solvers agree there *)
Definition solves m rows Ptot (sol : list R -> list R) : Prop :=
  forall t, In t rows -> length (sol (fst (fst t))) = m /\ rows_lhsR m rows Ptot (sol (fst (fst t))) = fst (fst t).
Definition wellformed m rows (Ptot : list (list R)) : Prop :=
  Forall (fun t : trowR => length (fst (fst t)) = m /\ 0 <= snd (fst t)) rows /\ length Ptot = m /\ pdef Ptot m.
Lemma wf_parts m rows Ptot : wellformed m rows Ptot ->
  Forall (fun r => length r = m) (rB rows) /\ length (rW rows) = length (rB rows) /\ Forall (fun w => 0 <= w) (rW rows).
Proof. intros [H _]. unfold rB, rW. rewrite !map_length. split; [|split; [reflexivity|]]; apply Forall_map;
  (eapply Forall_impl; [|exact H]); intros t [A B]; assumption. Qed.
Lemma edof_ext sol sol' rows : (forall t, In t rows -> sol (fst (fst t)) = sol' (fst (fst t))) -> edofR sol rows = edofR sol' rows.
Proof. intros H. unfold edof_rows. f_equal. apply map_ext_in. intros t Ht. unfold leverage. rewrite (H t Ht). reflexivity. Qed.
Theorem edof_solver_independent m rows Ptot sol sol' : wellformed m rows Ptot ->
  solves m rows Ptot sol -> solves m rows Ptot sol' -> edofR sol rows = edofR sol' rows.
Proof. intros WF S S'. destruct (wf_parts m rows Ptot WF) as [HB [HW Hw]]. destruct WF as [_ [HP Hpd]].
  apply edof_ext. intros t Ht. destruct (S t Ht) as [L1 E1]. destruct (S' t Ht) as [L2 E2].
  apply (neq_lhs_injective m (rB rows) (rW rows) Ptot); try assumption. unfold rows_lhs in *. congruence. Qed.

Lemma solves_perm m rows rows' Ptot sol : Permutation rows rows' -> solves m rows Ptot sol -> solves m rows' Ptot sol.
Proof. intros H S t Ht. apply Permutation_sym in H. destruct (S t (Permutation_in _ H Ht)) as [L E]. split; [exact L|].
  rewrite <- E at 2. apply perm_lhs. exact H. Qed.
Lemma wellformed_perm m rows rows' Ptot : Permutation rows rows' -> wellformed m rows Ptot -> wellformed m rows' Ptot.
Proof. intros H [A B]. split; [|exact B]. eapply Permutation_Forall; eassumption. Qed.
(* edof of the permuted problem, each side with its OWN solver (its own factorisation) *)
Theorem perm_edof m rows rows' Ptot sol sol' : Permutation rows rows' -> wellformed m rows Ptot ->
  solves m rows Ptot sol -> solves m rows' Ptot sol' -> edofR sol rows = edofR sol' rows'.
Proof. intros H WF S S'. rewrite (perm_edof_same_solver sol rows rows' H).
  apply (edof_solver_independent m rows' Ptot); [eapply wellformed_perm; eassumption | eapply solves_perm; eassumption | exact S']. Qed.
(* coefficients: the same unique solution *)
Theorem perm_coefficients m rows rows' Ptot b b' : Permutation rows rows' -> wellformed m rows Ptot ->
  length b = m -> length b' = m -> rows_stepR m rows Ptot b -> rows_stepR m rows' Ptot b' -> b = b'.
Proof. intros H WF Lb Lb' S S'. apply (perm_step m rows rows' Ptot b' H) in S'.
  destruct (wf_parts m rows Ptot WF) as [HB [HW Hw]]. destruct WF as [_ [HP Hpd]].
  apply (step_unique m (rB rows) (rW rows) Ptot (rZ rows)); assumption. Qed.

(* ---------- integer weights versus replicated rows ---------- *)
Lemma ofnat_R k : ofnat Rfops k = INR k. Proof. unfold ofnat. cbn. symmetry. apply INR_IZR_INZ. Qed.
Lemma rowsum_app m g l1 l2 : Forall (fun t : trowR => length (fst (fst t)) = m) l2 ->
  rowsum m g (l1 ++ l2) = fold_right (fun t acc => vaddR (vscaleR (g t) (fst (fst t))) acc) (rowsum m g l2) l1.
Proof. intros _. induction l1 as [|t l1 IH]; [reflexivity|]. cbn [app fold_right]. rewrite rowsum_cons, IH. reflexivity. Qed.
Lemma rowsum_repeat m g (t : trowR) k acc : length (fst (fst t)) = m -> length acc = m ->
  fold_right (fun t acc => vaddR (vscaleR (g t) (fst (fst t))) acc) acc (repeat t k) = vaddR (vscaleR (INR k * g t) (fst (fst t))) acc.
Proof. intros Lt La. induction k as [|k IH].
  - cbn [repeat fold_right INR]. rewrite Rmult_0_l.
    replace (vscaleR 0 (fst (fst t))) with (zerosR m).
    + symmetry. apply vadd_zeros_l. exact La.
    + rewrite <- Lt. clear. induction (fst (fst t)) as [|x l IH]; [reflexivity|]. cbn [length]. rewrite zeros_S, IH. unfold vscale. cbn [map]. f_equal. cbn. lra.
  - cbn [repeat fold_right]. rewrite IH, S_INR.
    replace ((INR k + 1) * g t) with (g t + INR k * g t) by lra. rewrite vscale_plus.
    clear. generalize (vscaleR (g t) (fst (fst t))) (vscaleR (INR k * g t) (fst (fst t))).
    intros a. revert acc. induction a as [|x a IH]; intros [|z c] [|y b]; cbn [vadd]; try reflexivity. rewrite IH. f_equal. cbn. lra. Qed.

(* g' on a weighted row = k * g on the original row  ==>  equal row sums *)
Lemma rowsum_weighted_replicated m (g g' : trowR -> R) rk :
  Forall (fun p : trowR * nat => length (fst (fst (fst p))) = m) rk ->
  (forall p, In p rk -> g' (fst (fst (fst p)), rmul Rrops (ofnat Rfops (snd p)) (snd (fst (fst p))), snd (fst p)) = INR (snd p) * g (fst p)) ->
  rowsum m g' (weighted Rfops rk) = rowsum m g (replicated rk).
Proof. intros HF Hg. induction rk as [|p rk IH]; [reflexivity|].
  pose proof (Forall_inv HF) as Hp. pose proof (Forall_inv_tail HF) as HF'. cbn beta in Hp.
  assert (Lrep : Forall (fun t : trowR => length (fst (fst t)) = m) (replicated rk)).
  { clear -HF'. induction rk as [|q rk IH]; [constructor|]. pose proof (Forall_inv HF') as Hq. pose proof (Forall_inv_tail HF') as HF''. cbn beta in Hq.
    unfold replicated. cbn [flat_map].
    apply Forall_app. split; [|apply IH; assumption]. apply Forall_forall. intros t Ht. apply repeat_spec in Ht. rewrite Ht. exact Hq. }
  unfold weighted. cbn [map]. fold (weighted Rfops rk). rewrite rowsum_cons. cbn [fst snd].
  unfold replicated. cbn [flat_map]. fold (replicated rk).
  rewrite rowsum_app by exact Lrep. rewrite (rowsum_repeat m); [| exact Hp | apply rowsum_length; exact Lrep].
  f_equal; [f_equal; exact (Hg p (or_introl eq_refl)) | apply IH; [exact HF' | intros q Hq; apply Hg; right; exact Hq]]. Qed.

Theorem repl_lhs m rk Ptot b : Forall (fun p : trowR * nat => length (fst (fst (fst p))) = m) rk ->
  rows_lhsR m (weighted Rfops rk) Ptot b = rows_lhsR m (replicated rk) Ptot b.
Proof. intros HF. rewrite !lhs_rowsum. f_equal. apply rowsum_weighted_replicated; [exact HF|].
  intros p _. cbn [fst snd]. rewrite ofnat_R. cbn. ring. Qed.
Theorem repl_rhs m rk : Forall (fun p : trowR * nat => length (fst (fst (fst p))) = m) rk ->
  rows_rhsR m (weighted Rfops rk) = rows_rhsR m (replicated rk).
Proof. intros HF. rewrite !rhs_rowsum. apply rowsum_weighted_replicated; [exact HF|].
  intros p _. cbn [fst snd]. rewrite ofnat_R. cbn. ring. Qed.
Theorem repl_step m rk Ptot b : Forall (fun p : trowR * nat => length (fst (fst (fst p))) = m) rk ->
  (rows_stepR m (weighted Rfops rk) Ptot b <-> rows_stepR m (replicated rk) Ptot b).
Proof. intros HF. unfold rows_step, is_step.
  change (rows_lhsR m (weighted Rfops rk) Ptot b = rows_rhsR m (weighted Rfops rk) <->
          rows_lhsR m (replicated rk) Ptot b = rows_rhsR m (replicated rk)).
  rewrite repl_lhs, repl_rhs by exact HF. tauto. Qed.

(* edof: the leverage of the weight-(k w) row is k times the leverage of each of its k copies *)
Lemma vsum_app (u v : list R) : vsumR (u ++ v) = vsumR u + vsumR v.
Proof. induction u as [|a u IH]; cbn [app vsum]; [cbn; lra|]. rewrite IH. cbn. lra. Qed.
Lemma vsum_repeat (x : R) k : vsumR (repeat x k) = INR k * x.
Proof. induction k as [|k IH]; [cbn; lra|]. cbn [repeat vsum]. rewrite IH, S_INR. cbn. lra. Qed.
Lemma map_repeat' {A B} (f : A -> B) x k : map f (repeat x k) = repeat (f x) k.
Proof. induction k as [|k IH]; [reflexivity|]. cbn. rewrite IH. reflexivity. Qed.
Theorem repl_leverage sol (t : trowR) k :
  leverageR sol (fst (fst t), rmul Rrops (ofnat Rfops k) (snd (fst t)), snd t) = INR k * leverageR sol t.
Proof. unfold leverage. cbn [fst snd]. rewrite ofnat_R. cbn. ring. Qed.
Theorem repl_edof_same_solver sol rk : edofR sol (weighted Rfops rk) = edofR sol (replicated rk).
Proof. unfold edof_rows. change (fr Rfops) with Rrops. induction rk as [|p rk IH]; [reflexivity|].
  unfold weighted, replicated in *. cbn [map flat_map]. rewrite map_app, vsum_app, <- IH. cbn [vsum].
  rewrite map_repeat', vsum_repeat. change (radd Rrops) with Rplus. f_equal. apply (repl_leverage sol (fst p) (snd p)). Qed.

Lemma In_weighted_replicated rk x : In x (rB (replicated rk)) -> In x (rB (weighted Rfops rk)).
Proof. unfold rB, replicated, weighted. rewrite map_map. cbn [fst]. induction rk as [|p rk IH]; [tauto|].
  cbn [flat_map map]. rewrite map_app, in_app_iff. intros [H|H]; [left|right; apply IH, H].
  apply in_map_iff in H. destruct H as [t [E Ht]]. apply repeat_spec in Ht. subst. reflexivity. Qed.
(* each side with its own solver *)
Theorem repl_edof m rk Ptot sol sol' : Forall (fun p : trowR * nat => length (fst (fst (fst p))) = m) rk ->
  wellformed m (replicated rk) Ptot ->
  solves m (weighted Rfops rk) Ptot sol -> solves m (replicated rk) Ptot sol' ->
  edofR sol (weighted Rfops rk) = edofR sol' (replicated rk).
Proof. intros HF WF S S'. rewrite repl_edof_same_solver.
  apply (edof_solver_independent m (replicated rk) Ptot); [exact WF | | exact S'].
  intros t Ht. assert (Hin : In (fst (fst t)) (rB (weighted Rfops rk))).
  { apply In_weighted_replicated. unfold rB. apply in_map_iff. exists t. split; [reflexivity|exact Ht]. }
  unfold rB in Hin. apply in_map_iff in Hin. destruct Hin as [t' [E Ht']].
  destruct (S t' Ht') as [L Eq]. rewrite E in L, Eq. split; [exact L|]. rewrite <- repl_lhs by exact HF. exact Eq. Qed.
Theorem repl_coefficients m rk Ptot b b' : Forall (fun p : trowR * nat => length (fst (fst (fst p))) = m) rk ->
  wellformed m (replicated rk) Ptot -> length b = m -> length b' = m ->
  rows_stepR m (weighted Rfops rk) Ptot b -> rows_stepR m (replicated rk) Ptot b' -> b = b'.
Proof. intros HF WF Lb Lb' S S'. apply (repl_step m rk Ptot b HF) in S.
  destruct (wf_parts m _ Ptot WF) as [HB [HW Hw]]. destruct WF as [_ [HP Hpd]].
  apply (step_unique m (rB (replicated rk)) (rW (replicated rk)) Ptot (rZ (replicated rk))); assumption. Qed.

Ltac listeq := repeat (apply (f_equal2 (@cons R)); [lra|]); try reflexivity.
(* ---------- the hypotheses are satisfiable: two rows, ridge penalty, explicit solver ---------- *)
Definition ex_rows : list trowR := [([1; 0], 1, 3); ([0; 1], 2, 5)].
Definition ex_P : list (list R) := [[1; 0]; [0; 1]].
Definition ex_sol (x : list R) : list R := match x with [a; b] => [a / 2; b / 3] | _ => [0; 0] end.
Example ex_wellformed : wellformed 2 ex_rows ex_P.
Proof. split; [|split; [reflexivity|]].
  - constructor; [split; [reflexivity|cbn; lra]|constructor; [split; [reflexivity|cbn; lra]|constructor]].
  - replace ex_P with (mscaleR 1 (identR 2)) by (unfold ex_P; cbn; repeat (apply (f_equal2 (@cons (list R))); [listeq|]); reflexivity). apply ridge_pdef. lra. Qed.
Example ex_solves : solves 2 ex_rows ex_P ex_sol.
Proof. intros t [H|[H|[]]]; subst; split; try reflexivity; cbn; listeq. Qed.
Example ex_perm : Permutation ex_rows (rev ex_rows). Proof. apply Permutation_rev. Qed.
Example ex_step : rows_stepR 2 ex_rows ex_P [3 / 2; 10 / 3].
Proof. unfold rows_step, is_step. cbn. listeq. Qed.
