(* Proofs/C10.v -- grid preparation, objective table, best tracking (fold invariant), purity *)
From Coq Require Import List String Bool Arith Lia QArith.
From PG Require Import Model.Grid Gen.C10Skeleton Proofs.C10Combine.
Import ListNotations.
Open Scope nat_scope.
Notation length := List.length (only parsing).   (* String.length would shadow it *)
Open Scope list_scope.

(* ---------- order on extended scores ---------- *)
Definition elt_prop (a b : escore) : Prop :=
  match a, b with Fin x, Fin y => (x < y)%Q | Fin _, Inf => True | Inf, _ => False end.
Definition ele_prop (a b : escore) : Prop :=
  match a, b with Fin x, Fin y => (x <= y)%Q | _, Inf => True | Inf, Fin _ => False end.

Lemma elt_iff a b : elt a b = true <-> elt_prop a b.
Proof.
  destruct a as [x|], b as [y|]; cbn; try tauto; try (split; [discriminate|tauto]).
  rewrite negb_true_iff. split.
  - intros H. apply Qnot_le_lt. intros Hle. apply Qle_bool_iff in Hle. congruence.
  - intros H. destruct (Qle_bool y x) eqn:E; [|reflexivity]. apply Qle_bool_iff in E. exfalso. apply (Qlt_not_le _ _ H E).
Qed.

Lemma ele_iff a b : ele a b = true <-> ele_prop a b.
Proof.
  unfold ele. destruct a as [x|], b as [y|]; cbn.
  - rewrite negb_involutive. apply Qle_bool_iff.
  - split; [intros _; exact I|reflexivity].
  - split; [discriminate|tauto].
  - split; [intros _; exact I|reflexivity].
Qed.

Lemma elt_ele_trans a b c : elt a b = true -> ele b c = true -> elt a c = true.
Proof.
  rewrite !elt_iff, ele_iff. destruct a as [x|], b as [y|], c as [z|]; cbn; try tauto.
  apply Qlt_le_trans.
Qed.

Lemma elt_trans a b c : elt a b = true -> elt b c = true -> elt a c = true.
Proof.
  rewrite !elt_iff. destruct a as [x|], b as [y|], c as [z|]; cbn; try tauto. apply Qlt_trans.
Qed.

Lemma ele_refl a : ele a a = true.
Proof. apply ele_iff. destruct a; cbn; [apply Qle_refl|exact I]. Qed.

Lemma not_elt_ele a b : elt a b = false -> ele b a = true.
Proof. unfold ele. intros ->. reflexivity. Qed.

Lemma elt_Inf_r a : elt a Inf = false -> a = Inf.
Proof. destruct a; [discriminate|reflexivity]. Qed.

(* ---------- best tracking ---------- *)
Definition argmin_first (ms : list (mid * escore)) (m : mid) (s : escore) : Prop :=
  exists l1 l2, ms = l1 ++ (m, s) :: l2 /\
    (forall p, In p l1 -> elt s (snd p) = true) /\     (* everything fitted earlier is strictly worse *)
    (forall p, In p l2 -> ele s (snd p) = true).       (* everything fitted later is not better *)

Definition best_ok (st : gstate) : Prop :=
  match best_model st with
  | Some m => argmin_first (models st) m (best_score st)
  | None => best_score st = Inf /\ forall p, In p (models st) -> snd p = Inf
  end.

Section Track.
Variable k : gs_skel.
Hypothesis Hcmp : k_cmp k = OLt.
Hypothesis Hseed : k_seed_self k = true.

Lemma init_ok self_score : best_ok (g_init k self_score).
Proof.
  unfold g_init. rewrite Hseed. destruct self_score as [s|]; cbn.
  - exists [], []. split; [reflexivity|]. split; intros p [].
  - split; [reflexivity|intros p []].
Qed.

Lemma step_ok st i o : best_ok st -> best_ok (g_step k st i o).
Proof.
  intros Hok. destruct o as [s|]; [|exact Hok]. unfold g_step. rewrite Hcmp. cbn [better].
  destruct (elt s (best_score st)) eqn:E; unfold best_ok in *; cbn [best_model best_score models].
  - (* strictly better than everything so far *)
    exists (models st), []. split; [reflexivity|]. split; [|intros p []].
    intros p Hp. destruct (best_model st) as [m|].
    + destruct Hok as (l1 & l2 & Hm & H1 & H2). rewrite Hm in Hp. apply in_app_or in Hp as [Hp|[<-|Hp]].
      * apply (elt_trans _ _ _ E). apply H1. exact Hp.
      * exact E.
      * apply (elt_ele_trans _ _ _ E). apply H2. exact Hp.
    + destruct Hok as (Hb & Hall). rewrite (Hall p Hp). rewrite Hb in E. exact E.
  - destruct (best_model st) as [m|].
    + destruct Hok as (l1 & l2 & Hm & H1 & H2). exists l1, (l2 ++ [(MCand i, s)]). split.
      * rewrite Hm, <- app_assoc. reflexivity.
      * split; [exact H1|]. intros p Hp. apply in_app_or in Hp as [Hp|[<-|[]]]; [apply H2; exact Hp|].
        cbn. apply not_elt_ele. exact E.
    + destruct Hok as (Hb & Hall). split; [exact Hb|]. intros p Hp. apply in_app_or in Hp as [Hp|[<-|[]]]; [apply Hall; exact Hp|].
      cbn. rewrite Hb in E. apply elt_Inf_r. exact E.
Qed.

Lemma loop_ok outs : forall st i, best_ok st -> best_ok (g_loop k st i outs).
Proof. induction outs as [|o r IH]; intros st i H; [exact H|]. cbn. apply IH. apply step_ok. exact H. Qed.

Lemma run_ok self_score outs : best_ok (g_run k self_score outs).
Proof. apply loop_ok. apply init_ok. Qed.
End Track.

(* which models are fitted, in which order, with which score *)
Fixpoint cand_entries (i : nat) (outs : list (option escore)) : list (mid * escore) :=
  match outs with
  | [] => []
  | o :: r => (match o with Some s => [(MCand i, s)] | None => [] end) ++ cand_entries (S i) r
  end.

Lemma step_models k st i o : models (g_step k st i o) = models st ++ match o with Some s => [(MCand i, s)] | None => [] end.
Proof.
  destruct o as [s|]; cbn; [|rewrite app_nil_r; reflexivity].
  destruct (better (k_cmp k) s (best_score st)); reflexivity.
Qed.

Lemma loop_models k outs : forall st i, models (g_loop k st i outs) = models st ++ cand_entries i outs.
Proof.
  induction outs as [|o r IH]; intros st i; cbn; [rewrite app_nil_r; reflexivity|].
  rewrite IH, step_models, <- app_assoc. reflexivity.
Qed.

Lemma run_models k self_score outs : k_seed_self k = true ->
  models (g_run k self_score outs) =
  (match self_score with Some s => [(MSelf, s)] | None => [] end) ++ cand_entries 0 outs.
Proof. intros Hs. unfold g_run. rewrite loop_models. unfold g_init. rewrite Hs. destruct self_score; reflexivity. Qed.

(* ---------- grid preparation ---------- *)
Section Prep.
Context {A : Type}.

Lemma prepare_1d tl (xs : list A) v : prepare tl (G1d xs) = Some v -> v = map Scalar xs /\ 1 < length xs.
Proof.
  unfold prepare. destruct (Nat.ltb 1 (length xs)) eqn:E; [|discriminate]. intros [= <-].
  split; [reflexivity|]. apply Nat.ltb_lt. exact E.
Qed.

Lemma prepare_2d tl (rows : list (list A)) v : prepare tl (G2d rows) = Some v ->
  v = map Vector rows /\ 1 < length rows /\ forall r, In r rows -> length r = tl.
Proof.
  unfold prepare. destruct (Nat.ltb 1 (length rows)) eqn:E1; [|discriminate]. cbn [andb].
  destruct (forallb (fun r => Nat.eqb (length r) tl) rows) eqn:E; [|discriminate]. intros [= <-].
  split; [reflexivity|]. split; [apply Nat.ltb_lt; exact E1|]. intros r Hr. rewrite forallb_forall in E. apply Nat.eqb_eq. apply E. exact Hr.
Qed.

Lemma forallb_product_len (gs : list (list A)) : forallb (fun s => Nat.eqb (length s) (length gs)) (product gs) = true.
Proof. apply forallb_forall. intros c Hc. apply Nat.eqb_eq. apply product_elem_length. exact Hc. Qed.

Lemma prepare_lists tl (gs : list (list A)) :
  prepare tl (GLists gs) = if Nat.ltb 1 (length gs) && Nat.eqb (length gs) tl then Some (map Vector (product gs)) else None.
Proof.
  unfold prepare. destruct (Nat.ltb 1 (length gs)) eqn:H1; [|reflexivity]. cbn [andb]. apply Nat.ltb_lt in H1.
  destruct (Nat.eqb_spec (length gs) tl) as [E|E]; [|reflexivity].
  rewrite combine_is_product by (destruct gs; [cbn in H1; lia|discriminate]).
  rewrite <- E, forallb_product_len. reflexivity.
Qed.

Lemma prepare_all_length (ps : list (string * nat * grid A)) vs : prepare_all ps = Some vs -> length vs = length ps.
Proof.
  revert vs. induction ps as [|[[n tl] g] r IH]; intros vs; cbn; [intros [= <-]; reflexivity|].
  destruct (prepare tl g); [|discriminate]. destruct (prepare_all r) as [vr|]; [|discriminate].
  intros [= <-]. cbn. rewrite (IH vr eq_refl). reflexivity.
Qed.

Lemma candidates_spec (ps : list (string * nat * grid A)) cs : ps <> [] -> candidates ps = Some cs ->
  exists vs, prepare_all ps = Some vs /\
    cs = map (fun c => List.combine (map (fun p => fst (fst p)) ps) c) (product vs) /\
    length cs = prod_len vs.
Proof.
  intros Hne. unfold candidates. destruct (prepare_all ps) as [vs|] eqn:E; [|discriminate]. intros [= <-].
  exists vs. split; [reflexivity|].
  assert (Hv : vs <> []). { intros ->. apply prepare_all_length in E. destruct ps; [congruence|discriminate]. }
  rewrite combine_is_product by exact Hv. split; [reflexivity|]. rewrite map_length. apply product_length.
Qed.
End Prep.

(* ---------- objective table ---------- *)
Lemma smem_false x l : ~ In x l -> smem x l = false.
Proof.
  induction l as [|a l IH]; intros H; [reflexivity|]. cbn in *. destruct (String.eqb_spec x a) as [->|Hne]; [tauto|].
  apply IH. tauto.
Qed.

Lemma objective_table :
  resolve_objective Gen_gridsearch false "auto" = Some "GCV"%string /\
  resolve_objective Gen_gridsearch true "auto" = Some "UBRE"%string /\
  resolve_objective Gen_gridsearch true "GCV" = None /\
  resolve_objective Gen_gridsearch false "UBRE" = None /\
  resolve_objective Gen_gridsearch false "GCV" = Some "GCV"%string /\
  resolve_objective Gen_gridsearch true "UBRE" = Some "UBRE"%string /\
  (forall ks, resolve_objective Gen_gridsearch ks "AIC" = Some "AIC"%string /\
              resolve_objective Gen_gridsearch ks "AICc" = Some "AICc"%string) /\
  (forall ks o, ~ In o ["auto"; "GCV"; "UBRE"; "AIC"; "AICc"]%string -> resolve_objective Gen_gridsearch ks o = None) /\
  k_default_param Gen_gridsearch = "lam"%string.
Proof.
  repeat split; try reflexivity; try (destruct ks; reflexivity).
  intros ks o Hn. unfold resolve_objective.
  change (k_allowed Gen_gridsearch) with ["auto"; "GCV"; "UBRE"; "AIC"; "AICc"]%string.
  rewrite (smem_false _ _ Hn). reflexivity.
Qed.

(* ---------- statements about the generated skeleton ---------- *)
Lemma gen_cmp : k_cmp Gen_gridsearch = OLt. Proof. reflexivity. Qed.
Lemma gen_seed : k_seed_self Gen_gridsearch = true. Proof. reflexivity. Qed.

Lemma best_is_argmin self_score outs :
  let st := g_run Gen_gridsearch self_score outs in
  models st = (match self_score with Some s => [(MSelf, s)] | None => [] end) ++ cand_entries 0 outs /\
  match best_model st with
  | Some m => argmin_first (models st) m (best_score st)
  | None => best_score st = Inf /\ forall p, In p (models st) -> snd p = Inf
  end.
Proof.
  cbn zeta. split; [apply run_models; reflexivity|]. apply (run_ok Gen_gridsearch gen_cmp gen_seed).
Qed.

Lemma keep_best_semantics self_score outs rs :
  let st := g_run Gen_gridsearch self_score outs in
  fst (g_finish Gen_gridsearch false rs st) = None /\
  (forall m, best_model st = Some m -> fst (g_finish Gen_gridsearch true rs st) = Some m /\
             snd (g_finish Gen_gridsearch true rs st) = if rs then RetScores (models st) else RetSelf) /\
  (models st <> [] -> snd (g_finish Gen_gridsearch false rs st) = if rs then RetScores (models st) else RetSelf).
Proof.
  cbn zeta. set (st := g_run Gen_gridsearch self_score outs). unfold g_finish.
  change (k_keep_copies_best Gen_gridsearch) with true. cbn [andb].
  split; [destruct (models st); reflexivity|]. split.
  - intros m Hm. pose proof (run_ok Gen_gridsearch gen_cmp gen_seed self_score outs) as Hok. fold st in Hok.
    unfold best_ok in Hok. rewrite Hm in *. destruct Hok as (l1 & l2 & E & _). rewrite E.
    destruct l1; cbn; split; reflexivity.
  - intros Hne. destruct (models st); [congruence|reflexivity].
Qed.

Lemma keep_best_copy_independent self_score outs keep :
  g_aliases Gen_gridsearch keep (g_run Gen_gridsearch self_score outs) = false.
Proof.
  unfold g_aliases. change (k_keep_deepcopies Gen_gridsearch) with true. cbn [negb].
  rewrite andb_false_r. reflexivity.
Qed.

Lemma keep_best_false_pure : forall e, In e (k_effects Gen_gridsearch) -> e_recv e = RSelf ->
  pure_on_self (e_what e) = true \/ exists g, In g (e_guards e) /\ guard_excluded g = true.
Proof.
  assert (H : forallb effect_harmless (k_effects Gen_gridsearch) = true) by (vm_compute; reflexivity).
  rewrite forallb_forall in H. intros e He Hr. specialize (H e He). unfold effect_harmless in H. rewrite Hr in H.
  apply orb_prop in H as [H|H]; [left; exact H|right]. apply existsb_exists in H. exact H.
Qed.

Lemma loop_effects_on_copy : forall e, In e (k_effects Gen_gridsearch) -> In GInLoop (e_guards e) ->
  e_recv e = RCopy \/ pure_on_self (e_what e) = true.
Proof.
  assert (H : forallb (fun e => negb (existsb (fun g => match g with GInLoop => true | _ => false end) (e_guards e)) ||
                               match e_recv e with RCopy => true | _ => pure_on_self (e_what e) end) (k_effects Gen_gridsearch) = true)
    by (vm_compute; reflexivity).
  rewrite forallb_forall in H. intros e He Hg. specialize (H e He). apply orb_prop in H as [H|H].
  - exfalso. rewrite negb_true_iff in H. assert (Hx : existsb (fun g => match g with GInLoop => true | _ => false end) (e_guards e) = true).
    { apply existsb_exists. exists GInLoop. split; [exact Hg|reflexivity]. } congruence.
  - destruct (e_recv e); [right; exact H|left; reflexivity|right; exact H].
Qed.

Lemma poisson_forwards : forall a, In a ["weights"; "return_scores"; "keep_best"; "objective"; "**param_grids"]%string ->
  In a Gen_poisson_forwards.
Proof. intros a Ha. vm_compute in *. tauto. Qed.

Lemma skeleton_flags : Gen_combine_matches_model = true /\ k_grid_product Gen_gridsearch = true /\
  k_cartesian_lists Gen_gridsearch = true /\ k_skip_valueerror Gen_gridsearch = true /\ k_init_inf Gen_gridsearch = true /\
  k_return_scores_zip Gen_gridsearch = true /\ k_keep_copies_best Gen_gridsearch = true /\
  k_keep_deepcopies Gen_gridsearch = true.
Proof. repeat split. Qed.

(* ---------- hypotheses are satisfiable / non-trivial examples ---------- *)
Example combine_example : combine [[1; 2]; [10; 20; 30]] = [[1; 10]; [1; 20]; [1; 30]; [2; 10]; [2; 20]; [2; 30]] /\
  combine [[1; 2; 3]] = [[1]; [2]; [3]].
Proof. split; reflexivity. Qed.

Example tracking_example :   (* ties keep the earlier model; a fitted self participates; a skipped candidate leaves no trace *)
  let st := g_run Gen_gridsearch (Some (Fin (3#2))) [Some (Fin 2); Some (Fin (3#2)); None; Some (Fin 1); Some (Fin 1); Some Inf] in
  best_model st = Some (MCand 3) /\ map fst (models st) = [MSelf; MCand 0; MCand 1; MCand 3; MCand 4; MCand 5].
Proof. split; reflexivity. Qed.

Example prepare_example :
  prepare 2 (GLists [[1; 2]; [5; 6]]) = Some [Vector [1; 5]; Vector [1; 6]; Vector [2; 5]; Vector [2; 6]] /\
  prepare 2 (G2d [[1; 5]; [2; 6]]) = Some [Vector [1; 5]; Vector [2; 6]] /\
  prepare 2 (G1d [1; 2; 3]) = Some [Scalar 1; Scalar 2; Scalar 3] /\
  prepare 1 (GLists [[1; 2; 3]]) = None /\ prepare 3 (G2d [[1; 5]; [2; 6]]) = None /\ prepare 2 (G1d [1]) = None.
Proof. repeat split. Qed.
