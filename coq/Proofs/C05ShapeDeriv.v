(* Proofs/C05ShapeDeriv.v -- B-spline derivative formula for the Cox-de Boor recursion of coq/Model/BSpline.v (Bix) over ANY
   strictly increasing knot sequence, for the polynomial piece j0 (order-0 row = indicator of interval j0):
       d/dx B_{i,k}(x) = k * ( B_{i,k-1}(x)/(t_{i+k}-t_i) - B_{i+1,k-1}(x)/(t_{i+k+1}-t_{i+1}) )        (k >= 1, every real x)
   and, by Abel summation, for the spline piece  sum_i c_i B_{i,k}:
       d/dx = c_a u_a - c_{last} u_{end} + sum_i (c_i - c_{i-1}) u_i ,   u_i = k B_{i,k-1}/(t_{i+k}-t_i).
   Derivatives are the standard library's derivable_pt_lim (equivalent to Coquelicot's is_derive). *)
From Coq Require Import List ZArith Reals Lra Lia Bool Arith.
From PG Require Import Base.Ops Base.Vec Model.BSpline Proofs.C03Basis.
Import ListNotations.
Open Scope R_scope.

(* the one-step algebra of the induction (pure reals).  K = k-1, B0 B1 B2 = order k-2 values at i, i+1, i+2 *)
Lemma deriv_step_algebra x ti ti1 ti2 a b c B0 B1 B2 K :
  a - ti <> 0 -> b - ti1 <> 0 -> c - ti2 <> 0 -> b - ti <> 0 -> c - ti1 <> 0 ->
  let Bi := (x - ti) / (a - ti) * B0 + (b - x) / (b - ti1) * B1 in
  let Bi1 := (x - ti1) / (b - ti1) * B1 + (c - x) / (c - ti2) * B2 in
  let dBi := K * (B0 / (a - ti) - B1 / (b - ti1)) in
  let dBi1 := K * (B1 / (b - ti1) - B2 / (c - ti2)) in
  (1 / (b - ti) * Bi + (x - ti) / (b - ti) * dBi) + (- 1 / (c - ti1) * Bi1 + (c - x) / (c - ti1) * dBi1)
  = (K + 1) * (Bi / (b - ti) - Bi1 / (c - ti1)).
Proof. intros. unfold Bi, Bi1, dBi, dBi1. field. repeat split; assumption. Qed.

Section Knots.
Variable t : nat -> R.
Hypothesis tinc : forall i, t i < t (S i).
Variable h : nat -> R.
Notation B := (fun k i x => Bix Rfops t h x k i).

(* derivative of the recursion, by the product rule *)
Fixpoint dB (k i : nat) (x : R) : R :=
  match k with
  | O => 0
  | S j => (1 / (t (i + S j)%nat - t i) * B j i x + (x - t i) / (t (i + S j)%nat - t i) * dB j i x)
           + (- 1 / (t (i + S (S j))%nat - t (S i)) * B j (S i) x
              + (t (i + S (S j))%nat - x) / (t (i + S (S j))%nat - t (S i)) * dB j (S i) x)
  end.

Lemma derivable_pt_lim_ext (f g : R -> R) x l : (forall y, f y = g y) -> derivable_pt_lim f x l -> derivable_pt_lim g x l.
Proof. intros E D eps He. destruct (D eps He) as [delta Hd]. exists delta. intros hh Hh1 Hh2. rewrite <- !E. apply Hd; assumption. Qed.

Lemma dlim_affine_over a d x : derivable_pt_lim (fun x => (x - a) / d) x (1 / d).
Proof.
  replace (1 / d) with ((1 - 0) * / d) by (unfold Rdiv; ring).
  apply (derivable_pt_lim_ext (fun y => (fun y => y - a) y * / d)); [intros; reflexivity|].
  apply (derivable_pt_lim_scal_right (fun y => y - a) x (1 - 0) (/ d)).
  apply (derivable_pt_lim_ext (minus_fct id (fct_cte a))); [intros; reflexivity|].
  apply derivable_pt_lim_minus; [apply derivable_pt_lim_id|apply derivable_pt_lim_const].
Qed.
Lemma dlim_affine_over' a d x : derivable_pt_lim (fun x => (a - x) / d) x (- 1 / d).
Proof.
  replace (- 1 / d) with ((0 - 1) * / d) by (unfold Rdiv; ring).
  apply (derivable_pt_lim_ext (fun y => (fun y => a - y) y * / d)); [intros; reflexivity|].
  apply (derivable_pt_lim_scal_right (fun y => a - y) x (0 - 1) (/ d)).
  apply (derivable_pt_lim_ext (minus_fct (fct_cte a) id)); [intros; reflexivity|].
  apply derivable_pt_lim_minus; [apply derivable_pt_lim_const|apply derivable_pt_lim_id].
Qed.

Theorem Bix_derivable k : forall i x, derivable_pt_lim (B k i) x (dB k i x).
Proof.
  induction k as [|k IH]; intros i x.
  - cbn [Bix dB]. apply derivable_pt_lim_const.
  - apply (derivable_pt_lim_ext
      (fun x => (x - t i) / (t (i + S k)%nat - t i) * B k i x
                + (t (i + S (S k))%nat - x) / (t (i + S (S k))%nat - t (S i)) * B k (S i) x)).
    + intros y. symmetry. apply (BS t tinc).
    + cbn [dB].
      apply (derivable_pt_lim_ext
               (plus_fct (mult_fct (fun x => (x - t i) / (t (i + S k)%nat - t i)) (B k i))
                         (mult_fct (fun x => (t (i + S (S k))%nat - x) / (t (i + S (S k))%nat - t (S i))) (B k (S i))))); [intros; reflexivity|].
      apply derivable_pt_lim_plus.
      * apply (derivable_pt_lim_mult (fun x => (x - t i) / (t (i + S k)%nat - t i)) (B k i)); [apply dlim_affine_over|apply IH].
      * apply (derivable_pt_lim_mult (fun x => (t (i + S (S k))%nat - x) / (t (i + S (S k))%nat - t (S i))) (B k (S i)));
          [apply dlim_affine_over'|apply IH].
Qed.

(* the closed form *)
Definition dform (k i : nat) (x : R) : R :=
  INR k * (B (pred k) i x / (t (i + k)%nat - t i) - B (pred k) (S i) x / (t (i + S k)%nat - t (S i))).

Lemma tdiff_ne a b : (a < b)%nat -> t b - t a <> 0.
Proof. intros H. pose proof (tsmono t tinc a b H). lra. Qed.

Theorem dB_closed_form k : forall i x, dB (S k) i x = dform (S k) i x.
Proof.
  induction k as [|k IH]; intros i x.
  - unfold dform. cbn [dB pred Bix INR].
    replace (i + 1)%nat with (S i) by lia. replace (i + 2)%nat with (S (S i)) by lia.
    pose proof (tdiff_ne i (S i) ltac:(lia)). pose proof (tdiff_ne (S i) (S (S i)) ltac:(lia)). field. split; assumption.
  - unfold dform. change (pred (S (S k))) with (S k).
    change (dB (S (S k)) i x) with
      ((1 / (t (i + S (S k))%nat - t i) * B (S k) i x + (x - t i) / (t (i + S (S k))%nat - t i) * dB (S k) i x)
       + (- 1 / (t (i + S (S (S k)))%nat - t (S i)) * B (S k) (S i) x
          + (t (i + S (S (S k)))%nat - x) / (t (i + S (S (S k)))%nat - t (S i)) * dB (S k) (S i) x)).
    rewrite (IH i x), (IH (S i) x). unfold dform. change (pred (S k)) with k.
    rewrite (BS t tinc x h k i), (BS t tinc x h k (S i)).
    replace (S i + S k)%nat with (i + S (S k))%nat by lia.
    replace (S i + S (S k))%nat with (i + S (S (S k)))%nat by lia.
    replace (INR (S (S k))) with (INR (S k) + 1) by (rewrite (S_INR (S k)); reflexivity).
    pose proof (deriv_step_algebra x (t i) (t (S i)) (t (S (S i))) (t (i + S k)%nat) (t (i + S (S k))%nat) (t (i + S (S (S k)))%nat)
                  (B k i x) (B k (S i) x) (B k (S (S i)) x) (INR (S k))
                  (tdiff_ne i (i + S k) ltac:(lia)) (tdiff_ne (S i) (i + S (S k)) ltac:(lia)) (tdiff_ne (S (S i)) (i + S (S (S k))) ltac:(lia))
                  (tdiff_ne i (i + S (S k)) ltac:(lia)) (tdiff_ne (S i) (i + S (S (S k))) ltac:(lia))) as A.
    cbv zeta in A. exact A.
Qed.

(* the B-spline derivative formula *)
Theorem Bix_derivative k i x : (1 <= k)%nat -> derivable_pt_lim (B k i) x (dform k i x).
Proof. intros Hk. destruct k as [|k]; [lia|]. rewrite <- dB_closed_form. apply Bix_derivable. Qed.
End Knots.
