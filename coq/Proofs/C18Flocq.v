(* Proofs/C18Flocq.v -- the IEEE contract assumed about `rnd` in Proofs/C18Bisect.v (Section Rounded) holds for binary64
   round-to-nearest-even as formalised by Flocq (FLT format, precision 53, emin -1074; no overflow: irrelevant on [0,2]). *)
From Coq Require Import Reals ZArith Lra Lia.
From Flocq Require Import Core.
Open Scope R_scope.
Section B64.
Let prec := 53%Z. Let emin := (-1074)%Z.
Instance prec_gt_0_53 : Prec_gt_0 prec. Proof. unfold Prec_gt_0, prec. lia. Qed.
Definition fexp64 := FLT_exp emin prec.
Definition fmt64 (x : R) : Prop := generic_format radix2 fexp64 x.
Definition rnd64 (x : R) : R := round radix2 fexp64 ZnearestE x.
Lemma fmt64_double x : fmt64 x -> fmt64 (2 * x).
Proof. intros H. apply generic_format_FLT. apply FLT_format_generic in H; [|exact prec_gt_0_53].
  destruct H as [f Hx Hm He]. exists (Float radix2 (Fnum f) (Fexp f + 1)).
  - rewrite Hx. unfold F2R. cbn [Fnum Fexp]. rewrite bpow_plus. cbn. lra.
  - exact Hm.
  - cbn [Fexp]. lia. Qed.
Lemma b64_contract : (forall x y, x <= y -> rnd64 x <= rnd64 y) /\ (forall x, fmt64 x -> rnd64 x = x) /\ (forall x, fmt64 (rnd64 x)) /\
  (forall x, fmt64 x -> fmt64 (2 * x)) /\ fmt64 0 /\ fmt64 1.
Proof. repeat split.
  - intros x y H. apply round_le; [apply FLT_exp_valid; exact prec_gt_0_53|apply valid_rnd_N|exact H].
  - intros x H. apply round_generic; [apply valid_rnd_N|exact H].
  - intros x. apply generic_format_round; [apply FLT_exp_valid; exact prec_gt_0_53|apply valid_rnd_N].
  - exact fmt64_double.
  - apply generic_format_0.
  - change 1 with (bpow radix2 0). apply generic_format_FLT_bpow; [exact prec_gt_0_53|unfold emin; lia]. Qed.
End B64.
