(* Proofs/C09.v -- interval bounds: lemmas about the definitions GENERATED from GAM._get_quantiles (Gen/Intervals.v).
   scipy.stats.norm.ppf / scipy.stats.t.ppf are Section variables; all that is assumed of them is: strictly increasing in
   the level on (0,1) (t: for every df > 0) and zero at 1/2.                                                          *)
From Coq Require Import Reals Lra List Bool Lia.
From PG Require Import Base.Ops Model.Intervals Gen.Links Gen.Intervals Proofs.C09Sum.
Import ListNotations.
Open Scope R_scope.

(* ---- the inverse links of the named model classes are increasing (generated Gen_*_mu) ---- *)
Lemma identity_mu_increasing L : increasing (Gen_IdentityLink_mu L).
Proof. intros a b H. exact H. Qed.
Lemma log_mu_increasing L : increasing (Gen_LogLink_mu L).
Proof. intros a b H. unfold Gen_LogLink_mu. destruct H as [H|H]; [left; apply exp_increasing; exact H|right; rewrite H; reflexivity]. Qed.
Lemma logit_mu_increasing L : 0 < L -> increasing (Gen_LogitLink_mu L).
Proof. intros HL a b H. unfold Gen_LogitLink_mu.
  pose proof (exp_pos (- a)) as Ha. pose proof (exp_pos (- b)) as Hb.
  assert (Hab : exp (- b) <= exp (- a)).
  { destruct H as [H|H]; [left; apply exp_increasing; lra|right; rewrite H; reflexivity]. }
  unfold Rdiv. apply Rmult_le_compat_l; [lra|]. apply Rinv_le_contravar; lra. Qed.

(* ---- level guard ---- *)
Lemma rejected_iff q : Gen_quantile_rejected q = true <-> (q <= 0 \/ 1 <= q).
Proof. unfold Gen_quantile_rejected. rewrite orb_true_iff, !Rleb_true. tauto. Qed.
Lemma accepted_iff q : Gen_quantile_rejected q = false <-> 0 < q < 1.
Proof. destruct (Gen_quantile_rejected q) eqn:E.
  - apply rejected_iff in E. split; [discriminate|lra].
  - split; [intros _|reflexivity]. destruct (Rle_dec q 0) as [H|H].
    + assert (Gen_quantile_rejected q = true) by (apply rejected_iff; left; exact H). congruence.
    + destruct (Rle_dec 1 q) as [H1|H1].
      * assert (Gen_quantile_rejected q = true) by (apply rejected_iff; right; exact H1). congruence.
      * lra. Qed.
Lemma existsb_rejected qs : existsb Gen_quantile_rejected qs = true <-> exists q, In q qs /\ (q <= 0 \/ 1 <= q).
Proof. rewrite existsb_exists. split; intros [q [Hi Hq]]; exists q; (split; [exact Hi|apply rejected_iff; exact Hq]). Qed.
Lemma existsb_accepted qs : (forall q, In q qs -> 0 < q < 1) -> existsb Gen_quantile_rejected qs = false.
Proof. intros H. destruct (existsb Gen_quantile_rejected qs) eqn:E; [|reflexivity].
  apply existsb_rejected in E. destruct E as [q [Hi Hq]]. specialize (H q Hi). lra. Qed.

Lemma width_quantiles_eq w : Gen_width_quantiles w = [(1 - w) / 2; (1 + w) / 2].
Proof. unfold Gen_width_quantiles. cbv zeta. f_equal. f_equal. field. Qed.

Lemma width_rejected_iff w : existsb Gen_quantile_rejected (Gen_width_quantiles w) = true <-> (w <= -1 \/ 1 <= w).
Proof. rewrite width_quantiles_eq, existsb_rejected. split.
  - intros [q [[Hq|[Hq|[]]] H]]; subst q; lra.
  - intros [H|H]; exists ((1 - w) / 2); (split; [left; reflexivity|lra]). Qed.

Section PPF.
  Variable ppf_norm : R -> R.
  Variable ppf_t : R -> R -> R.
  Hypothesis Hn_inc : forall p q, 0 < p -> p < q -> q < 1 -> ppf_norm p < ppf_norm q.
  Hypothesis Hn_half : ppf_norm (1 / 2) = 0.
  Hypothesis Ht_inc : forall df p q, 0 < df -> 0 < p -> p < q -> q < 1 -> ppf_t df p < ppf_t df q.
  Hypothesis Ht_half : forall df, 0 < df -> ppf_t df (1 / 2) = 0.

  (* the reference distribution is defined: scale known (normal), or positive residual degrees of freedom (Student t) *)
  Definition df_ok (known : bool) (n edof : R) : Prop := known = true \/ 0 < n - edof.

  Lemma zq_inc known n edof p q : df_ok known n edof -> 0 < p -> p < q -> q < 1 ->
    Gen_zq ppf_norm ppf_t known n edof p < Gen_zq ppf_norm ppf_t known n edof q.
  Proof. intros [Hk|Hdf] H0 Hpq H1; unfold Gen_zq.
    - rewrite Hk. apply Hn_inc; assumption.
    - destruct known; [apply Hn_inc|apply Ht_inc]; assumption. Qed.
  Lemma zq_le known n edof p q : df_ok known n edof -> 0 < p -> p <= q -> q < 1 ->
    Gen_zq ppf_norm ppf_t known n edof p <= Gen_zq ppf_norm ppf_t known n edof q.
  Proof. intros Hd H0 [Hpq|Hpq] H1; [left; apply zq_inc; assumption|right; rewrite Hpq; reflexivity]. Qed.
  Lemma zq_half known n edof : df_ok known n edof -> Gen_zq ppf_norm ppf_t known n edof (1 / 2) = 0.
  Proof. intros [Hk|Hdf]; unfold Gen_zq.
    - rewrite Hk. exact Hn_half.
    - destruct known; [exact Hn_half|apply Ht_half; exact Hdf]. Qed.

  Lemma line_mono lp var z z' : z <= z' -> Gen_line lp z var <= Gen_line lp z' var.
  Proof. intros H. unfold Gen_line. pose proof (sqrt_pos var) as Hs. nra. Qed.
  Lemma xform_mono xf mu a b : increasing mu -> a <= b -> Gen_xform xf mu a <= Gen_xform xf mu b.
  Proof. intros Hmu H. destruct xf; cbn; [apply Hmu; exact H|exact H]. Qed.

  (* bounds are ordered in the level *)
  Lemma bound_ordered mu known scale n edof cov idxs row lp pred xf p q :
    increasing mu -> df_ok known n edof -> 0 < p -> p <= q -> q < 1 ->
    Gen_bound ppf_norm ppf_t mu known scale n edof cov idxs row lp pred xf p
    <= Gen_bound ppf_norm ppf_t mu known scale n edof cov idxs row lp pred xf q.
  Proof. intros Hmu Hd H0 Hpq H1. unfold Gen_bound. apply xform_mono; [exact Hmu|]. apply line_mono. apply zq_le; assumption. Qed.

  (* the bound at level 1/2 is the prediction (the pure linear predictor when xform = False) *)
  Lemma bound_half mu known scale n edof cov idxs row lp pred xf : df_ok known n edof ->
    Gen_bound ppf_norm ppf_t mu known scale n edof cov idxs row lp pred xf (1 / 2) = Gen_xform xf mu lp.
  Proof. intros Hd. unfold Gen_bound. rewrite zq_half by exact Hd. unfold Gen_line. f_equal. ring. Qed.

  Lemma bound_brackets mu known scale n edof cov idxs row lp pred xf p q :
    increasing mu -> df_ok known n edof -> 0 < p -> p < 1 / 2 -> 1 / 2 < q -> q < 1 ->
    Gen_bound ppf_norm ppf_t mu known scale n edof cov idxs row lp pred xf p <= Gen_xform xf mu lp
    /\ Gen_xform xf mu lp <= Gen_bound ppf_norm ppf_t mu known scale n edof cov idxs row lp pred xf q.
  Proof. intros Hmu Hd H0 Hp Hq H1. rewrite <- (bound_half mu known scale n edof cov idxs row lp pred xf Hd).
    split; apply bound_ordered; try assumption; lra. Qed.

  (* the interval of width w is [bound((1-w)/2), bound((1+w)/2)]; it grows with w *)
  Lemma bound_nested mu known scale n edof cov idxs row lp pred xf w w' :
    increasing mu -> df_ok known n edof -> 0 < w -> w <= w' -> w' < 1 ->
    let lo x := Gen_bound ppf_norm ppf_t mu known scale n edof cov idxs row lp pred xf ((1 - x) / 2) in
    let hi x := Gen_bound ppf_norm ppf_t mu known scale n edof cov idxs row lp pred xf ((1 + x) / 2) in
    lo w' <= lo w /\ lo w <= hi w /\ hi w <= hi w'.
  Proof. intros Hmu Hd H0 Hww H1 lo hi. unfold lo, hi. repeat split; apply bound_ordered; try assumption; lra. Qed.

  (* adding a non-negative scale to a non-negative variance moves each bound away from the centre *)
  Lemma pred_contains_conf mu known scale n edof cov idxs row lp xf p q :
    increasing mu -> df_ok known n edof -> 0 <= scale -> 0 <= rowquad row (block idxs cov) ->
    0 < p -> p <= 1 / 2 -> 1 / 2 <= q -> q < 1 ->
    Gen_bound ppf_norm ppf_t mu known scale n edof cov idxs row lp true xf p
      <= Gen_bound ppf_norm ppf_t mu known scale n edof cov idxs row lp false xf p
    /\ Gen_bound ppf_norm ppf_t mu known scale n edof cov idxs row lp false xf q
      <= Gen_bound ppf_norm ppf_t mu known scale n edof cov idxs row lp true xf q.
  Proof. intros Hmu Hd Hs Hv H0 Hp Hq H1. unfold Gen_bound, Gen_var, Gen_cov_block. cbv zeta.
    set (v := rowquad row (block idxs cov)) in *.
    assert (Hsq : sqrt v <= sqrt (v + scale)) by (apply sqrt_le_1_alt; lra).
    pose proof (sqrt_pos v) as Hsv.
    assert (Hzp : Gen_zq ppf_norm ppf_t known n edof p <= 0).
    { rewrite <- (zq_half known n edof Hd). apply zq_le; try assumption; lra. }
    assert (Hzq : 0 <= Gen_zq ppf_norm ppf_t known n edof q).
    { rewrite <- (zq_half known n edof Hd). apply zq_le; try assumption; lra. }
    split; apply xform_mono; try exact Hmu; unfold Gen_line; nra. Qed.

  (* ---- the public methods ---- *)
  Definition z_ref (known : bool) (n edof q : R) : R := if known then ppf_norm q else ppf_t (n - edof) q.

  Lemma entry_accepts fl mu known scale n edof coef cov tidx row w qs :
    (forall q, In q qs -> 0 < q < 1) ->
    Gen_entry fl ppf_norm ppf_t mu known scale n edof coef cov tidx row w (Some qs)
    = let idxs := match qf_term fl with AllTerms => seq 0 (length coef) | TheTerm => tidx end in
      Some (map (fun q => Gen_xform (qf_xform fl) mu
                            (dotl (select idxs row) (select idxs coef)
                             + z_ref known n edof q
                               * sqrt (let v := rowquad (select idxs row) (block idxs cov) in if qf_prediction fl then v + scale else v))) qs).
  Proof. intros Hq. unfold Gen_entry, Gen_get_quantiles. cbv zeta. rewrite existsb_accepted by exact Hq. reflexivity. Qed.

  Lemma formula_confidence mu known scale n edof coef cov tidx row w qs :
    (forall q, In q qs -> 0 < q < 1) ->
    Gen_entry Gen_flags_confidence_intervals ppf_norm ppf_t mu known scale n edof coef cov tidx row w (Some qs)
    = Some (map (fun q => mu (dotl (select (seq 0 (length coef)) row) coef
                              + z_ref known n edof q * sqrt (rowquad (select (seq 0 (length coef)) row) (block (seq 0 (length coef)) cov)))) qs).
  Proof. intros Hq. rewrite entry_accepts by exact Hq. unfold Gen_flags_confidence_intervals, Gen_xform.
    cbv zeta. cbn [qf_term qf_xform qf_prediction]. rewrite select_all. reflexivity. Qed.
  Lemma formula_prediction mu known scale n edof coef cov tidx row w qs :
    (forall q, In q qs -> 0 < q < 1) ->
    Gen_entry Gen_flags_prediction_intervals ppf_norm ppf_t mu known scale n edof coef cov tidx row w (Some qs)
    = Some (map (fun q => mu (dotl (select (seq 0 (length coef)) row) coef
                              + z_ref known n edof q * sqrt (rowquad (select (seq 0 (length coef)) row) (block (seq 0 (length coef)) cov) + scale))) qs).
  Proof. intros Hq. rewrite entry_accepts by exact Hq. unfold Gen_flags_prediction_intervals, Gen_xform.
    cbv zeta. cbn [qf_term qf_xform qf_prediction]. rewrite select_all. reflexivity. Qed.
  Lemma formula_pdep mu known scale n edof coef cov tidx row w qs :
    (forall q, In q qs -> 0 < q < 1) ->
    Gen_entry Gen_flags_partial_dependence ppf_norm ppf_t mu known scale n edof coef cov tidx row w (Some qs)
    = Some (map (fun q => dotl (select tidx row) (select tidx coef)
                          + z_ref known n edof q * sqrt (rowquad (select tidx row) (block tidx cov))) qs).
  Proof. intros Hq. rewrite entry_accepts by exact Hq. reflexivity. Qed.

  (* every public method returns, per accepted level, Gen_bound of the selected columns / coefficients / flags *)
  Lemma entry_bounds fl mu known scale n edof coef cov tidx row w qs :
    (forall q, In q qs -> 0 < q < 1) ->
    Gen_entry fl ppf_norm ppf_t mu known scale n edof coef cov tidx row w (Some qs)
    = let idxs := match qf_term fl with AllTerms => seq 0 (length coef) | TheTerm => tidx end in
      Some (map (Gen_bound ppf_norm ppf_t mu known scale n edof cov idxs (select idxs row) (Gen_lp (select idxs row) coef idxs)
                           (qf_prediction fl) (qf_xform fl)) qs).
  Proof. intros Hq. unfold Gen_entry, Gen_get_quantiles. cbv zeta. rewrite existsb_accepted by exact Hq. reflexivity. Qed.

  (* width w is the same call as quantiles [(1-w)/2, (1+w)/2], for every public method and every w *)
  Lemma width_is_quantiles fl mu known scale n edof coef cov tidx row w w' :
    Gen_entry fl ppf_norm ppf_t mu known scale n edof coef cov tidx row w None
    = Gen_entry fl ppf_norm ppf_t mu known scale n edof coef cov tidx row w' (Some [(1 - w) / 2; (1 + w) / 2]).
  Proof. unfold Gen_entry, Gen_get_quantiles. cbv zeta. rewrite width_quantiles_eq. reflexivity. Qed.

  (* partial dependence: nothing outside the term's block of the covariance / the term's coefficients / columns is used *)
  Lemma pdep_block_only mu mu' known scale scale' n edof coef coef' cov cov' tidx row row' w qs :
    (forall i j, In i tidx -> In j tidx -> entry cov i j = entry cov' i j) ->
    (forall i, In i tidx -> nth i coef 0 = nth i coef' 0) ->
    (forall i, In i tidx -> nth i row 0 = nth i row' 0) ->
    Gen_entry Gen_flags_partial_dependence ppf_norm ppf_t mu known scale n edof coef cov tidx row w qs
    = Gen_entry Gen_flags_partial_dependence ppf_norm ppf_t mu' known scale' n edof coef' cov' tidx row' w qs.
  Proof. intros Hc Hb Hr. unfold Gen_entry, Gen_get_quantiles, Gen_bound, Gen_var, Gen_cov_block, Gen_lp, Gen_flags_partial_dependence, Gen_xform.
    cbv zeta. cbn [qf_term qf_xform qf_prediction].
    rewrite (block_ext tidx cov cov' Hc), (select_ext tidx coef coef' Hb), (select_ext tidx row row' Hr). reflexivity. Qed.

  Lemma rejects fl mu known scale n edof coef cov tidx row w qs :
    Gen_entry fl ppf_norm ppf_t mu known scale n edof coef cov tidx row w (Some qs) = None
    <-> exists q, In q qs /\ (q <= 0 \/ 1 <= q).
  Proof. rewrite <- existsb_rejected. unfold Gen_entry, Gen_get_quantiles. cbv zeta.
    destruct (existsb Gen_quantile_rejected qs); split; intros H; try reflexivity; try discriminate. Qed.
  Lemma rejects_width fl mu known scale n edof coef cov tidx row w :
    Gen_entry fl ppf_norm ppf_t mu known scale n edof coef cov tidx row w None = None <-> (w <= -1 \/ 1 <= w).
  Proof. rewrite <- width_rejected_iff. unfold Gen_entry, Gen_get_quantiles. cbv zeta.
    destruct (existsb Gen_quantile_rejected (Gen_width_quantiles w)); split; intros H; try reflexivity; try discriminate. Qed.
End PPF.

(* hypotheses are satisfiable: an increasing function on (0,1) vanishing at 1/2, and a PSD covariance *)
Lemma example_ppf : (forall p q : R, 0 < p -> p < q -> q < 1 -> p - 1 / 2 < q - 1 / 2) /\ (1 / 2 - 1 / 2 = 0).
Proof. split; intros; lra. Qed.
Lemma example_gram : forall i j, entry [[10; 22]; [22; 50]] i j
   = 2 * lsum (fun k => entry [[1; 2]; [3; 4]] i k * entry [[1; 2]; [3; 4]] j k) (seq 0 2).
Proof. intros i j. unfold entry.
  destruct i as [|[|i]]; destruct j as [|[|j]]; cbn; try ring; try (destruct j; cbn; ring); try (destruct i; cbn; ring). Qed.
