(* Proofs/C12Affine.v -- change of units x -> a x + b (a > 0) of a feature that enters the model only through spline
   bases: the compiled edge knots move with the data (min / max are equivariant), and every model-matrix row is
   unchanged (C03 affine invariance of the basis row, lifted through by-variables, tensor terms (row-wise Kronecker
   products of the marginal blocks, C16) and term lists).  Real instance. *)
From Coq Require Import List ZArith Reals Lra Lia Bool Arith.
From PG Require Import Base.Ops Base.Vec Model.BSpline Model.Columns Model.Invariance
  Proofs.C03Scale Proofs.C16.
Import ListNotations.
Open Scope R_scope.

Notation amapR := (amap Rfops).
Lemma amap_R a b x : amapR a b x = a * x + b. Proof. reflexivity. Qed.

(* ---------- gen_edge_knots is equivariant ---------- *)
Lemma lmin_affine a b : 0 < a -> forall l d, lmin Rfops (a * d + b) (map (amapR a b) l) = a * lmin Rfops d l + b.
Proof. intros Ha. induction l as [|x l IH]; intros d; [reflexivity|]. cbn [map]. rewrite !lmin_cons, amap_R, Rmin_affine by assumption. apply IH. Qed.
Lemma lmax_affine a b : 0 < a -> forall l d, lmax Rfops (a * d + b) (map (amapR a b) l) = a * lmax Rfops d l + b.
Proof. intros Ha. induction l as [|x l IH]; intros d; [reflexivity|]. cbn [map]. rewrite !lmax_cons, amap_R, Rmax_affine by assumption. apply IH. Qed.
Theorem edge_knots_equivariant a b col : 0 < a ->
  gen_edge_knots Rfops false (map (amapR a b) col) =
  option_map (fun e => (amapR a b (fst e), amapR a b (snd e))) (gen_edge_knots Rfops false col).
Proof. intros Ha. destruct col as [|x rest]; [reflexivity|]. cbn [map gen_edge_knots option_map fst snd].
  rewrite !amap_R, lmin_affine, lmax_affine by assumption. reflexivity. Qed.
Theorem compile_spline_equivariant a b f n k p by_ col : 0 < a ->
  compile_spline Rfops f n k p by_ (map (amapR a b) col) = option_map (map_simple Rfops f a b) (compile_spline Rfops f n k p by_ col).
Proof. intros Ha. unfold compile_spline. rewrite edge_knots_equivariant by assumption.
  destruct (gen_edge_knots Rfops false col) as [[lo hi]|]; [|reflexivity]. cbn [option_map fst snd map_simple].
  rewrite Nat.eqb_refl. reflexivity. Qed.
(* distinct knots <-> the column is not constant: the guard of the invariance theorem is a property of the data *)
Lemma edge_knots_distinct col lo hi x y : gen_edge_knots Rfops false col = Some (lo, hi) -> In x col -> In y col -> x <> y -> lo <> hi.
Proof. intros E Hx Hy Hne. destruct (gen_edge_knots_min_max col lo hi E) as [_ [_ HF]]. rewrite Forall_forall in HF.
  pose proof (HF x Hx). pose proof (HF y Hy). intro. subst. apply Hne. lra. Qed.

(* ---------- one row: blocks are unchanged ---------- *)
Section Row.
Variables (f : nat) (a b : R) (row row' : list R).
Hypothesis Ha : 0 < a.
Hypothesis Hf : nth f row' 0 = a * nth f row 0 + b.
Hypothesis Hother : forall j, j <> f -> nth j row' 0 = nth j row 0.

Lemma scale_by_same by_ v : by_not f by_ = true -> scale_by Rfops by_ row' v = scale_by Rfops by_ row v.
Proof. destruct by_ as [j|]; [|reflexivity]. cbn. intros H. apply negb_true_iff, Nat.eqb_neq in H.
  unfold feat. cbn. rewrite (Hother j H). reflexivity. Qed.
Theorem block_simple_affine s : only_spline_simple f s = true -> knots_distinct_simple f s ->
  block_simpleR (map_simple Rfops f a b s) row' = block_simpleR s row.
Proof. destruct s as [f'|f' e0 e1 n k p by_|f' e0 e1 n d]; cbn [only_spline_simple knots_distinct_simple map_simple].
  - intros H _. apply negb_true_iff, Nat.eqb_neq in H. cbn. unfold feat. cbn. rewrite (Hother f' H). reflexivity.
  - intros Hby Hk. destruct (Nat.eqb f' f) eqn:E.
    + apply Nat.eqb_eq in E. cbn [block_simple]. unfold feat. cbn [fr Rfops r0 Rrops]. rewrite E, Hf, !amap_R.
      rewrite bspline_row_affine by (try assumption; apply Hk; exact E).
      destruct (bspline_row Rfops e0 e1 n k p (nth f row 0)); [|reflexivity]. cbn [option_map]. rewrite scale_by_same by assumption. reflexivity.
    + apply Nat.eqb_neq in E. cbn [block_simple]. unfold feat. cbn [fr Rfops r0 Rrops]. rewrite (Hother f' E).
      destruct (bspline_row Rfops e0 e1 n k p (nth f' row 0)); [|reflexivity]. cbn [option_map]. rewrite scale_by_same by assumption. reflexivity.
  - intros H _. apply negb_true_iff, Nat.eqb_neq in H. cbn. unfold feat. cbn. rewrite (Hother f' H). reflexivity. Qed.

Lemma tensor_blocks_affine ms : forallb (only_spline_simple f) ms = true -> Forall (knots_distinct_simple f) ms ->
  forall acc, tensor_blocks Rfops acc (map (map_simple Rfops f a b) ms) row' = tensor_blocks Rfops acc ms row.
Proof. induction ms as [|m ms IH]; intros Ho Hk acc; [reflexivity|]. cbn [forallb] in Ho. apply andb_true_iff in Ho. destruct Ho as [Ho1 Ho2].
  inversion Hk as [|? ? Hk1 Hk2]; subst. cbn [map tensor_blocks]. rewrite block_simple_affine by assumption.
  destruct (block_simpleR m row); [|reflexivity]. apply IH; assumption. Qed.
Theorem block_affine t : only_spline f t = true -> knots_distinct f t ->
  blockR (map_cterm Rfops f a b t) row' = blockR t row.
Proof. destruct t as [|s|ms by_]; cbn [only_spline knots_distinct map_cterm].
  - reflexivity.
  - intros. cbn [block]. apply block_simple_affine; assumption.
  - intros Ho Hk. apply andb_true_iff in Ho. destruct Ho as [Ho Hby]. cbn [block]. destruct ms as [|m ms]; [reflexivity|].
    cbn [forallb] in Ho. apply andb_true_iff in Ho. destruct Ho as [Ho1 Ho2]. inversion Hk as [|? ? Hk1 Hk2]; subst.
    cbn [map]. rewrite block_simple_affine by assumption. destruct (block_simpleR m row); [|reflexivity].
    rewrite tensor_blocks_affine by assumption. destruct (tensor_blocks Rfops l ms row); [|reflexivity].
    cbn [option_map]. rewrite scale_by_same by assumption. reflexivity. Qed.
Theorem row_blocks_affine ts : Forall (fun t => only_spline f t = true /\ knots_distinct f t) ts ->
  row_blocksR (map (map_cterm Rfops f a b) ts) row' = row_blocksR ts row.
Proof. induction 1 as [|t ts [Ho Hk] _ IH]; [reflexivity|]. cbn [map row_blocks]. rewrite block_affine, IH by assumption. reflexivity. Qed.
End Row.

(* map_row realises the hypotheses on the mapped row *)
Lemma map_row_nth f a b (row : list R) : (f < length row)%nat ->
  nth f (map_row Rfops f a b row) 0 = a * nth f row 0 + b /\ forall j, j <> f -> nth j (map_row Rfops f a b row) 0 = nth j row 0.
Proof. intros Hlt. unfold map_row.
  assert (Lf : length (firstn f row) = f) by (rewrite firstn_length; lia).
  pose proof (firstn_skipn f row) as Es. destruct (skipn f row) as [|x rest] eqn:Esk.
  - exfalso. rewrite app_nil_r in Es. rewrite <- Es, Lf in Hlt. lia.
  - assert (Ex : nth f row 0 = x). { rewrite <- Es. rewrite app_nth2 by lia. rewrite Lf, Nat.sub_diag. reflexivity. }
    split.
    + rewrite app_nth2 by lia. rewrite Lf, Nat.sub_diag. cbn [nth]. rewrite Ex. reflexivity.
    + intros j Hj. rewrite <- Es at 2. destruct (Nat.lt_ge_cases j f) as [H|H].
      * rewrite !app_nth1 by lia. reflexivity.
      * rewrite !app_nth2 by lia. rewrite Lf. destruct (j - f)%nat eqn:D; [lia|]. reflexivity. Qed.

(* the hypotheses are satisfiable: a spline term on feature 0 with by-variable 1 and a tensor term of splines on 0 and 1 *)
Definition ex_terms : list (cterm R) :=
  [CIntercept; CSimple (SSpline 0 1 3 5 2 false (Some 1%nat)); CTensor [SSpline 0 1 3 4 1 false None; SSpline 1 0 1 4 1 false None] None].
Example ex_affine_hyps : Forall (fun t => only_spline 0 t = true /\ knots_distinct 0 t) ex_terms.
Proof. unfold ex_terms. repeat constructor; cbn; intros; lra. Qed.
