(* Proofs/C12Main.v -- the statements of Props/C12.v assembled from C12Lin / C12Perm / C12Affine / C12Stats. *)
From Coq Require Import List Reals Lra Lia Arith Bool Permutation.
From PG Require Import Base.Ops Base.Vec Model.BSpline Model.Columns Model.Pirls Model.Invariance Proofs.VecR Proofs.C04 Proofs.C01
  Proofs.C12Lin Proofs.C12Perm Proofs.C12Affine Proofs.C12Stats Proofs.C16 Gen.Dists Gen.Stats.
Import ListNotations.
Open Scope R_scope.

Lemma permutation_main m (rows rows' : list trowR) Ptot b : Permutation rows rows' ->
  Bt_mulR m (rB rows) (vmulR (rW rows) (matvecR (rB rows) b)) = Bt_mulR m (rB rows') (vmulR (rW rows') (matvecR (rB rows') b)) /\
  Bt_mulR m (rB rows) (vmulR (rW rows) (rZ rows)) = Bt_mulR m (rB rows') (vmulR (rW rows') (rZ rows')) /\
  (rows_stepR m rows Ptot b <-> rows_stepR m rows' Ptot b) /\
  Permutation (matvecR (rB rows) b) (matvecR (rB rows') b) /\
  (forall sol, edofR sol rows = edofR sol rows').
Proof. intros H. split; [apply perm_gram_side, H|]. split; [apply perm_rhs, H|]. split; [apply perm_step, H|].
  split; [apply perm_fitted, H | intros sol; apply perm_edof_same_solver, H]. Qed.
Lemma permutation_unique_fit m (rows rows' : list trowR) Ptot b b' sol sol' : Permutation rows rows' -> wellformed m rows Ptot ->
  length b = m -> length b' = m -> rows_stepR m rows Ptot b -> rows_stepR m rows' Ptot b' ->
  solves m rows Ptot sol -> solves m rows' Ptot sol' ->
  b = b' /\ Permutation (matvecR (rB rows) b) (matvecR (rB rows') b') /\ edofR sol rows = edofR sol' rows'.
Proof. intros H WF Lb Lb' S S' So So'. assert (E : b = b') by (eapply perm_coefficients; eassumption). subst b'.
  split; [reflexivity|]. split; [apply perm_fitted, H|]. eapply perm_edof; eassumption. Qed.

Lemma replication_main m (rk : list (trowR * nat)) Ptot b :
  Forall (fun p : trowR * nat => length (fst (fst (fst p))) = m) rk ->
  rows_lhsR m (weighted Rfops rk) Ptot b = rows_lhsR m (replicated rk) Ptot b /\
  rows_rhsR m (weighted Rfops rk) = rows_rhsR m (replicated rk) /\
  (rows_stepR m (weighted Rfops rk) Ptot b <-> rows_stepR m (replicated rk) Ptot b) /\
  (forall sol, edofR sol (weighted Rfops rk) = edofR sol (replicated rk)) /\
  (forall sol t k, leverageR sol (fst (fst t), rmul Rrops (ofnat Rfops k) (snd (fst t)), snd t) = INR k * leverageR sol t).
Proof. intros HF. split; [apply repl_lhs, HF|]. split; [apply repl_rhs, HF|]. split; [apply repl_step, HF|].
  split; [intros; apply repl_edof_same_solver | intros; apply repl_leverage]. Qed.
Lemma replication_unique_fit m (rk : list (trowR * nat)) Ptot b b' sol sol' :
  Forall (fun p : trowR * nat => length (fst (fst (fst p))) = m) rk -> wellformed m (replicated rk) Ptot ->
  length b = m -> length b' = m -> rows_stepR m (weighted Rfops rk) Ptot b -> rows_stepR m (replicated rk) Ptot b' ->
  solves m (weighted Rfops rk) Ptot sol -> solves m (replicated rk) Ptot sol' ->
  b = b' /\ edofR sol (weighted Rfops rk) = edofR sol' (replicated rk).
Proof. intros HF WF Lb Lb' S S' So So'. split; [eapply repl_coefficients; eassumption | eapply repl_edof; eassumption]. Qed.

Lemma affine_main f a b (ts : list (cterm R)) row row' : 0 < a ->
  Forall (fun t => only_spline f t = true /\ knots_distinct f t) ts ->
  nth f row' 0 = a * nth f row 0 + b -> (forall j, j <> f -> nth j row' 0 = nth j row 0) ->
  row_blocksR (map (map_cterm Rfops f a b) ts) row' = row_blocksR ts row.
Proof. intros Ha HF Hf Ho. apply (row_blocks_affine f a b row row' Ha Hf Ho ts HF). Qed.
Lemma affine_compile a b f n k p by_ col : 0 < a ->
  gen_edge_knots Rfops false (map (amapR a b) col) =
    option_map (fun e => (amapR a b (fst e), amapR a b (snd e))) (gen_edge_knots Rfops false col) /\
  compile_spline Rfops f n k p by_ (map (amapR a b) col) = option_map (map_simple Rfops f a b) (compile_spline Rfops f n k p by_ col) /\
  (forall lo hi x y, gen_edge_knots Rfops false col = Some (lo, hi) -> In x col -> In y col -> x <> y -> lo <> hi).
Proof. intros Ha. split; [apply edge_knots_equivariant, Ha|]. split; [apply compile_spline_equivariant, Ha|].
  intros lo hi x y. apply edge_knots_distinct. Qed.
(* a whole training column mapped and the term compiled on it: same row as the term compiled on the original column *)
Lemma affine_spline_term a b f n k p by_ col s row row' : 0 < a -> by_not f by_ = true ->
  compile_spline Rfops f n k p by_ col = Some s -> (exists x y, In x col /\ In y col /\ x <> y) ->
  nth f row' 0 = a * nth f row 0 + b -> (forall j, j <> f -> nth j row' 0 = nth j row 0) ->
  exists s', compile_spline Rfops f n k p by_ (map (amapR a b) col) = Some s' /\ block_simpleR s' row' = block_simpleR s row.
Proof. intros Ha Hby Hc [x [y [Hx [Hy Hne]]]] Hf Ho. exists (map_simple Rfops f a b s). split.
  - rewrite compile_spline_equivariant, Hc by assumption. reflexivity.
  - unfold compile_spline in Hc. destruct (gen_edge_knots Rfops false col) as [[lo hi]|] eqn:E; [|discriminate].
    cbn in Hc. injection Hc as <-. apply (block_simple_affine f a b row row' Ha Hf Ho); [exact Hby|].
    cbn. intros _. exact (edge_knots_distinct col lo hi x y E Hx Hy Hne). Qed.

Lemma linear_in_y_main m B w Ptot y1 y2 b1 b2 c : Forall (fun r => length r = m) B -> length b1 = length b2 -> length y1 = length y2 ->
  is_step Rfops m B w Ptot y1 b1 -> is_step Rfops m B w Ptot y2 b2 ->
  is_step Rfops m B w Ptot (vaddR y1 y2) (vaddR b1 b2) /\ is_step Rfops m B w Ptot (vscaleR c y1) (vscaleR c b1) /\
  matvecR B (vaddR b1 b2) = vaddR (matvecR B b1) (matvecR B b2) /\ matvecR B (vscaleR c b1) = vscaleR c (matvecR B b1).
Proof. intros HB Lb Ly S1 S2. split; [apply step_vadd; assumption|]. split; [apply step_vscale; assumption|].
  split; [apply fitted_vadd; assumption | apply fitted_vscale]. Qed.
Lemma linear_in_y_statistics L c s s' edof gamma n ws ys mus Binv :
  Gen_phi false s (Gen_NormalDist_V0 L) edof ws (vscaleR c ys) (vscaleR c mus) = c * c * Gen_phi false s (Gen_NormalDist_V0 L) edof ws ys mus /\
  Gen_GCV gamma n (normal_dev_sum s' L ws (vscaleR c ys) (vscaleR c mus)) edof = c * c * Gen_GCV gamma n (normal_dev_sum s L ws ys mus) edof /\
  mscaleR (c * c * s) (gramR Binv) = mscaleR (c * c) (mscaleR s (gramR Binv)).
Proof. split; [apply phi_normal_scale|]. split; [apply GCV_normal_scale | apply cov_scale]. Qed.
