(* Proofs/C05TensorQuad.v -- TensorTerm._build_marginal_constraints: the composite matrix built by scattering each slice's
   constraint matrix through np.meshgrid(slice_, slice_) (transposed block, see Model/Constraints.v scatter_assign) has the
   quadratic form  sum over the slices f of  quad (C_f) (v restricted to f).  Hence it vanishes at the coefficients iff every
   slice (fibre) of the coefficient tensor satisfies every constraint of that marginal. *)
From Coq Require Import List Reals Lra Lia Arith Bool Permutation.
From PG Require Import Base.Ops Base.Vec Model.Constraints Proofs.VecR Proofs.C03Basis Proofs.C05 Proofs.C05Bound Proofs.C05Fibres
  Proofs.C05ShapeSum Proofs.C05ShapeModel Proofs.C05TensorSum.
Import ListNotations.
Open Scope R_scope.

Definition ent (A : list (list R)) (r c : nat) : R := nth c (nth r A []) 0.
Notation scatterR := (scatter_assign Rrops).
Notation gatherR := (gather Rrops).

Lemma nth_map_combine_seq {X Y} (f : nat * X -> Y) (l : list X) d d' r : (r < length l)%nat ->
  nth r (map f (combine (seq 0 (length l)) l)) d' = f (r, nth r l d).
Proof.
  intros H. rewrite (nth_indep _ d' (f (O, d))) by (rewrite map_length, combine_length, seq_length; lia).
  rewrite map_nth, combine_nth by (apply seq_length). rewrite seq_nth by exact H. reflexivity.
Qed.

Lemma ent_scatter A idx M N r c : square A N -> (r < N)%nat -> (c < N)%nat ->
  ent (scatterR A idx M) r c =
  match index_of r idx, index_of c idx with Some b, Some a => ent M a b | _, _ => ent A r c end.
Proof.
  intros [LA FA] Hr Hc. unfold ent, scatter_assign.
  rewrite (nth_map_combine_seq _ A [] []) by lia. cbn [fst snd].
  assert (Lr : length (nth r A []) = N). { rewrite Forall_forall in FA. apply FA. apply nth_In. lia. }
  rewrite (nth_map_combine_seq _ (nth r A []) 0 0) by lia. cbn [fst snd].
  destruct (index_of r idx); [destruct (index_of c idx)|]; reflexivity.
Qed.
Lemma scatter_square A idx M N : square A N -> square (scatterR A idx M) N.
Proof.
  intros [LA FA]. unfold scatter_assign. split.
  - rewrite map_length, combine_length, seq_length. lia.
  - apply Forall_map. apply Forall_forall. intros [r row] Hin. cbn [fst snd].
    apply in_combine_r in Hin. rewrite Forall_forall in FA. specialize (FA row Hin).
    rewrite map_length, combine_length, seq_length. lia.
Qed.

Lemma quad_ent A N v : square A N -> length v = N ->
  quadR A v = sumf (fun r => sumf (fun c => nth r v 0 * ent A r c * nth c v 0) 0 N) 0 N.
Proof.
  intros [LA FA] Lv. unfold quad. rewrite dot_sumf. unfold matvec at 2. rewrite map_length, LA.
  apply sumf_ext. intros r Hr. unfold matvec.
  change 0 with (dotR [] v) at 2. rewrite (map_nth (fun row => dotR row v) A [] r).
  rewrite dot_sumf, Lv, <- sumf_scal. apply sumf_ext. intros c _. unfold ent. ring.
Qed.

(* ---------- re-indexing a sum over the members of an index list ---------- *)
Lemma index_of_None x l : ~ In x l -> index_of x l = None.
Proof. induction l as [|y l IH]; intros H; [reflexivity|]. cbn [index_of]. destruct (Nat.eqb_spec x y) as [->|Hne].
  - exfalso. apply H. left. reflexivity.
  - rewrite IH; [reflexivity|]. intros Hin. apply H. right. exact Hin. Qed.
Lemma index_of_Some x l a : index_of x l = Some a -> In x l /\ (a < length l)%nat /\ nth a l O = x.
Proof. revert a. induction l as [|y l IH]; intros a H; [discriminate|]. cbn [index_of] in H.
  destruct (Nat.eqb_spec x y) as [->|Hne].
  - inversion H; subst. split; [left; reflexivity|]. split; [cbn; lia|reflexivity].
  - destruct (index_of x l) as [a'|] eqn:E; [|discriminate]. cbn in H. inversion H; subst.
    destruct (IH a' eq_refl) as [I [L Nn]]. split; [right; exact I|]. split; [cbn; lia|exact Nn]. Qed.
Lemma sumf_single (g : nat -> R) x N : (x < N)%nat -> sumf (fun r => if Nat.eqb r x then g r else 0) 0 N = g x.
Proof. intros H. rewrite (sumf_ext _ (fun r => g r * ind x r)) by (intros r _; unfold ind; destruct (Nat.eqb r x); lra).
  rewrite sumf_ind. destruct (Nat.leb_spec 0 x), (Nat.ltb_spec x (0 + N)); cbn; try lia; reflexivity. Qed.

Lemma sum_over_idx N : forall (idx : list nat) (h : nat -> nat -> R), NoDup idx -> (forall x, In x idx -> (x < N)%nat) ->
  sumf (fun r => match index_of r idx with Some a => h r a | None => 0 end) 0 N =
  sumf (fun a => h (nth a idx O) a) 0 (length idx).
Proof.
  induction idx as [|x idx IH]; intros h ND Hb.
  - cbn [index_of length]. rewrite sumf_0. apply sumf_zero.
  - inversion ND as [|? ? Hx ND']; subst.
    rewrite (sumf_ext _ (fun r => (if Nat.eqb r x then h r O else 0)
                                  + match index_of r idx with Some a => h r (S a) | None => 0 end)).
    2:{ intros r _. cbn [index_of]. destruct (Nat.eqb_spec r x) as [->|Hne].
        - rewrite (index_of_None x idx Hx). lra.
        - destruct (index_of r idx); cbn; lra. }
    rewrite sumf_plus, sumf_single by (apply Hb; left; reflexivity).
    rewrite (IH (fun r a => h r (S a)) ND') by (intros y Hy; apply Hb; right; exact Hy).
    cbn [length]. rewrite sumf_S. cbn [nth]. f_equal. rewrite (sumf_shift _ (length idx) 1). apply sumf_ext. intros a _. reflexivity.
Qed.

(* ---------- one scatter step ---------- *)
Lemma nth_gather v idx a : (a < length idx)%nat -> nth a (gatherR v idx) 0 = nth (nth a idx O) v 0.
Proof. intros H. unfold gather. change (r0 Rrops) with 0.
  rewrite (nth_indep _ 0 ((fun j => nth j v 0) O)) by (rewrite map_length; exact H). apply (map_nth (fun j => nth j v 0)). Qed.
Lemma gather_length v idx : length (gatherR v idx) = length idx. Proof. apply map_length. Qed.

Theorem quad_scatter A idx M N v : square A N -> length v = N -> NoDup idx -> (forall x, In x idx -> (x < N)%nat) ->
  square M (length idx) -> (forall r c, In r idx -> In c idx -> ent A r c = 0) ->
  quadR (scatterR A idx M) v = quadR A v + quadR M (gatherR v idx).
Proof.
  intros SA Lv ND Hb SM Z.
  rewrite (quad_ent _ N v (scatter_square A idx M N SA) Lv), (quad_ent A N v SA Lv).
  rewrite (quad_ent M (length idx) (gatherR v idx) SM (gather_length v idx)).
  set (K := length idx).
  (* split the scattered form into the old form plus the block contribution *)
  rewrite (sumf_ext _ (fun r => sumf (fun c => nth r v 0 * ent A r c * nth c v 0) 0 N
            + match index_of r idx with
              | Some b => sumf (fun c => match index_of c idx with Some a => nth r v 0 * ent M a b * nth c v 0 | None => 0 end) 0 N
              | None => 0 end)).
  2:{ intros r Hr. destruct (index_of r idx) as [b|] eqn:Er.
      - rewrite <- sumf_plus. apply sumf_ext. intros c Hc. rewrite (ent_scatter A idx M N r c SA) by lia. rewrite Er.
        destruct (index_of c idx) as [a|] eqn:Ec; [|lra].
        rewrite (Z r c (proj1 (index_of_Some _ _ _ Er)) (proj1 (index_of_Some _ _ _ Ec))). lra.
      - rewrite Rplus_0_r. apply sumf_ext. intros c Hc. rewrite (ent_scatter A idx M N r c SA) by lia. rewrite Er. reflexivity. }
  rewrite sumf_plus. f_equal.
  rewrite (sum_over_idx N idx (fun r b => sumf (fun c => match index_of c idx with Some a => nth r v 0 * ent M a b * nth c v 0 | None => 0 end) 0 N) ND Hb).
  fold K. rewrite (sumf_ext _ (fun b => sumf (fun a => nth (nth b idx O) v 0 * ent M a b * nth (nth a idx O) v 0) 0 K)).
  2:{ intros b _. apply (sum_over_idx N idx (fun c a => nth (nth b idx O) v 0 * ent M a b * nth c v 0) ND Hb). }
  rewrite sumf_exchange. apply sumf_ext. intros a Ha. apply sumf_ext. intros b Hb'.
  rewrite !nth_gather by (fold K; lia). ring.
Qed.

Lemma ent_scatter_other A idx M N r c : square A N -> (r < N)%nat -> (c < N)%nat -> ~ In r idx -> ent (scatterR A idx M) r c = ent A r c.
Proof. intros SA Hr Hc H. rewrite (ent_scatter A idx M N r c SA Hr Hc), (index_of_None r idx H). reflexivity. Qed.

(* ---------- the whole fold over pairwise disjoint slices ---------- *)
Definition disjoint (l1 l2 : list nat) : Prop := forall x, In x l1 -> ~ In x l2.
Fixpoint rsumL {X} (g : X -> R) (l : list X) : R := match l with [] => 0 | x :: l' => g x + rsumL g l' end.

Theorem quad_fold_scatter (Mof : list nat -> list (list R)) N v : length v = N ->
  forall fibs A, square A N ->
  Forall (fun f => NoDup f /\ (forall x, In x f -> (x < N)%nat) /\ square (Mof f) (length f)) fibs ->
  ForallOrdPairs disjoint fibs ->
  (forall f r c, In f fibs -> In r f -> In c f -> ent A r c = 0) ->
  quadR (fold_left (fun acc f => scatterR acc f (Mof f)) fibs A) v = quadR A v + rsumL (fun f => quadR (Mof f) (gatherR v f)) fibs.
Proof.
  intros Lv. induction fibs as [|f fibs IH]; intros A SA HF HD Z; cbn [fold_left rsumL]; [lra|].
  destruct (Forall_inv HF) as [ND [Hb SM]]. pose proof (Forall_inv_tail HF) as HF'. inversion_clear HD as [|? ? Hdis HD'].
  rewrite IH; [| apply scatter_square; exact SA | exact HF' | exact HD' |].
  - rewrite (quad_scatter A f (Mof f) N v SA Lv ND Hb SM) by (intros r c Hr Hc; apply (Z f r c); [left; reflexivity|exact Hr|exact Hc]). lra.
  - intros f' r c Hf' Hr Hc.
    assert (Hrf : ~ In r f). { rewrite Forall_forall in Hdis. intros Hin. apply (Hdis f' Hf' r Hin Hr). }
    rewrite Forall_forall in HF'. destruct (HF' f' Hf') as [_ [Hb' _]].
    rewrite (ent_scatter_other A f (Mof f) N r c SA (Hb' r Hr) (Hb' c Hc) Hrf). apply (Z f' r c); [right; exact Hf'|exact Hr|exact Hc].
Qed.

(* ---------- instantiation: TensorTerm._build_marginal_constraints ---------- *)
Lemma NoDup_app_parts {X} (l l' : list X) : NoDup (l ++ l') -> NoDup l /\ NoDup l' /\ (forall x, In x l -> ~ In x l').
Proof. induction l as [|a l IH]; cbn [app]; intros H; [split; [constructor|split; [exact H|intros x []]]|].
  inversion H as [|? ? Ha Hl]; subst. destruct (IH Hl) as [N1 [N2 D]]. split; [|split; [exact N2|]].
  - constructor; [|exact N1]. intros Hin. apply Ha. apply in_or_app. left. exact Hin.
  - intros x [<-|Hx]; [intros Hin; apply Ha; apply in_or_app; right; exact Hin|apply D; exact Hx]. Qed.
Lemma NoDup_concat (L : list (list nat)) : NoDup (concat L) -> Forall (@NoDup nat) L /\ ForallOrdPairs disjoint L.
Proof. induction L as [|f L IH]; cbn [concat]; intros H; [split; constructor|].
  destruct (NoDup_app_parts _ _ H) as [N1 [N2 D]]. destruct (IH N2) as [F P]. split; [constructor; assumption|].
  constructor; [|exact P]. apply Forall_forall. intros f' Hf' x Hx Hx'. apply (D x Hx). apply in_concat. exists f'. split; assumption. Qed.

Lemma term_square n beta cons clam cl2 : length beta = n -> square (term_constraints Rrops n beta cons clam cl2) n.
Proof. intros Hb. unfold term_constraints. destruct (constraint_sum_quad n beta cons clam beta Hb Hb) as [S _].
  destruct (any_nonzero _ _); [|exact S]. apply madd_square; [exact S|apply mscale_square, ident_square]. Qed.

Definition dcm : cmargin := mk_cmargin O [].
Theorem marginal_constraints_quadform ms i coef clam cl2 v : (i < length ms)%nat ->
  length coef = nprod (map cm_n ms) -> length v = length coef ->
  quadR (marginal_constraints Rrops ms i coef clam cl2) v =
  rsumL (fun f => quadR (term_constraints Rrops (cm_n (nth i ms dcm)) (gatherR coef f) (cm_cons (nth i ms dcm)) clam cl2) (gatherR v f))
        (fibres (map cm_n ms) i).
Proof.
  intros Hi Lc Lv. unfold marginal_constraints. fold dcm. set (N := length coef). set (dims := map cm_n ms).
  assert (Hid : (i < length dims)%nat) by (unfold dims; rewrite map_length; exact Hi).
  pose proof (fibres_partition dims i Hid) as Perm.
  assert (ND : NoDup (concat (fibres dims i))). { apply (Permutation_NoDup (Permutation_sym Perm)). apply seq_NoDup. }
  destruct (NoDup_concat _ ND) as [FN FD].
  assert (Dn : nth i dims O = cm_n (nth i ms dcm)) by (unfold dims; apply (map_nth cm_n ms dcm i)).
  rewrite (quad_fold_scatter (fun f => term_constraints Rrops (cm_n (nth i ms dcm)) (gatherR coef f) (cm_cons (nth i ms dcm)) clam cl2) N v Lv
             (fibres dims i) (mzeroR N N) (mzero_square N)).
  - rewrite quad_mzero. lra.
  - apply Forall_forall. intros f Hf. rewrite Forall_forall in FN. split; [apply FN; exact Hf|]. split.
    + intros x Hx. assert (In x (seq 0 (nprod dims))) as Hs.
      { apply (Permutation_in x Perm). apply in_concat. exists f. split; assumption. }
      apply in_seq in Hs. unfold N. rewrite Lc. fold dims. lia.
    + assert (Lf : length f = cm_n (nth i ms dcm)).
      { apply in_fibres in Hf. destruct Hf as (a & b & _ & _ & ->). rewrite map_length, seq_length. exact Dn. }
      rewrite Lf. apply term_square. rewrite gather_length. exact Lf.
  - exact FD.
  - intros f r c _ _ _. apply nth_mzero.
Qed.

Lemma rsumL_nonneg {X} (g : X -> R) l : (forall x, In x l -> 0 <= g x) -> 0 <= rsumL g l.
Proof. induction l as [|x l IH]; intros H; cbn [rsumL]; [lra|]. pose proof (H x (or_introl eq_refl)).
  pose proof (IH (fun y Hy => H y (or_intror Hy))). lra. Qed.
Lemma rsumL_zero_iff {X} (g : X -> R) l : (forall x, In x l -> 0 <= g x) -> (rsumL g l = 0 <-> Forall (fun x => g x = 0) l).
Proof. induction l as [|x l IH]; intros H; cbn [rsumL]; [split; auto|].
  pose proof (H x (or_introl eq_refl)) as H0. pose proof (rsumL_nonneg g l (fun y Hy => H y (or_intror Hy))) as H1.
  specialize (IH (fun y Hy => H y (or_intror Hy))). split.
  - intros E. constructor; [lra|apply IH; lra].
  - intros F. inversion F; subst. apply IH in H5. lra. Qed.

(* the marginal's constraint quadratic form vanishes at the coefficients iff EVERY slice satisfies EVERY constraint of the marginal *)
Theorem marginal_constraints_zero_iff ms i coef clam cl2 : (i < length ms)%nat -> length coef = nprod (map cm_n ms) -> 0 < clam -> 0 <= cl2 ->
  (quadR (marginal_constraints Rrops ms i coef clam cl2) coef = 0 <->
   Forall (fun f => Forall (fun cn => satisfies cn (gatherR coef f)) (cm_cons (nth i ms dcm))) (fibres (map cm_n ms) i)).
Proof.
  intros Hi Lc Hl Hl2. rewrite (marginal_constraints_quadform ms i coef clam cl2 coef Hi Lc eq_refl).
  assert (Lf : forall f, In f (fibres (map cm_n ms) i) -> length (gatherR coef f) = cm_n (nth i ms dcm)).
  { intros f Hf. rewrite gather_length. apply in_fibres in Hf. destruct Hf as (a & b & _ & _ & ->).
    rewrite map_length, seq_length. apply (map_nth cm_n ms dcm i). }
  rewrite rsumL_zero_iff.
  - split; intros F; apply Forall_forall; intros f Hf; rewrite Forall_forall in F; specialize (F f Hf);
      apply (term_zero_iff _ (gatherR coef f) _ clam cl2 (Lf f Hf) Hl Hl2); exact F.
  - intros f Hf. apply term_psd; try lra; apply Lf; exact Hf.
Qed.

(* ---------- TensorTerm.build_constraints = sum over the marginals ---------- *)
Lemma marginal_square ms i coef clam cl2 : square (marginal_constraints Rrops ms i coef clam cl2) (length coef).
Proof. unfold marginal_constraints. generalize (fibres (map cm_n ms) i). intros fibs.
  assert (G : forall A, square A (length coef) ->
            square (fold_left (fun acc sl => scatterR acc sl (term_constraints Rrops (cm_n (nth i ms (mk_cmargin 0 []))) (gatherR coef sl)
                                                               (cm_cons (nth i ms (mk_cmargin 0 []))) clam cl2)) fibs A) (length coef)).
  { induction fibs as [|f fibs IH]; intros A SA; cbn [fold_left]; [exact SA|]. apply IH. apply scatter_square. exact SA. }
  apply G. apply mzero_square. Qed.

Lemma quad_fold_madd (G : nat -> list (list R)) N v : forall l acc, square acc N -> (forall i, In i l -> square (G i) N) ->
  square (fold_left (fun acc i => maddR acc (G i)) l acc) N /\
  quadR (fold_left (fun acc i => maddR acc (G i)) l acc) v = quadR acc v + rsumL (fun i => quadR (G i) v) l.
Proof. induction l as [|i l IH]; intros acc SA HG; cbn [fold_left rsumL]; [split; [exact SA|lra]|].
  assert (S1 : square (maddR acc (G i)) N) by (apply madd_square; [exact SA|apply HG; left; reflexivity]).
  destruct (IH _ S1 (fun j Hj => HG j (or_intror Hj))) as [S2 Q]. split; [exact S2|].
  rewrite Q, (quad_madd acc (G i) N v SA (HG i (or_introl eq_refl))). lra. Qed.

Theorem tensor_constraints_quadform ms coef clam cl2 v : length coef = nprod (map cm_n ms) ->
  quadR (tensor_constraints Rrops ms coef clam cl2) v =
  rsumL (fun i => quadR (marginal_constraints Rrops ms i coef clam cl2) v) (seq 0 (length ms)).
Proof. intros Lc. unfold tensor_constraints. rewrite <- Lc.
  destruct (quad_fold_madd (fun i => marginal_constraints Rrops ms i coef clam cl2) (length coef) v (seq 0 (length ms))
              (mzeroR (length coef) (length coef)) (mzero_square _) (fun i _ => marginal_square ms i coef clam cl2)) as [_ Q].
  rewrite Q, quad_mzero. lra. Qed.

Lemma marginal_quad_nonneg ms i coef clam cl2 : (i < length ms)%nat -> length coef = nprod (map cm_n ms) -> 0 <= clam -> 0 <= cl2 ->
  0 <= quadR (marginal_constraints Rrops ms i coef clam cl2) coef.
Proof. intros Hi Lc Hl Hl2. rewrite (marginal_constraints_quadform ms i coef clam cl2 coef Hi Lc eq_refl).
  apply rsumL_nonneg. intros f Hf. apply term_psd; try assumption; rewrite gather_length;
    apply in_fibres in Hf; destruct Hf as (a & b & _ & _ & ->); rewrite map_length, seq_length; apply (map_nth cm_n ms dcm i). Qed.

(* TensorTerm.build_constraints: zero quadratic form at the coefficients iff every slice along every axis satisfies every
   constraint of that axis' marginal *)
Theorem tensor_constraints_zero_iff ms coef clam cl2 : length coef = nprod (map cm_n ms) -> 0 < clam -> 0 <= cl2 ->
  (quadR (tensor_constraints Rrops ms coef clam cl2) coef = 0 <->
   forall i, (i < length ms)%nat ->
     Forall (fun f => Forall (fun cn => satisfies cn (gatherR coef f)) (cm_cons (nth i ms dcm))) (fibres (map cm_n ms) i)).
Proof.
  intros Lc Hl Hl2. rewrite (tensor_constraints_quadform ms coef clam cl2 coef Lc).
  rewrite rsumL_zero_iff by (intros i Hi; apply in_seq in Hi; apply marginal_quad_nonneg; try assumption; lra || lia).
  rewrite Forall_forall. split.
  - intros H i Hi. apply (marginal_constraints_zero_iff ms i coef clam cl2 Hi Lc Hl Hl2). apply H. apply in_seq. lia.
  - intros H i Hi. apply in_seq in Hi. apply (marginal_constraints_zero_iff ms i coef clam cl2 ltac:(lia) Lc Hl Hl2). apply H. lia.
Qed.
