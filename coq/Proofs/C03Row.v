(* Proofs/C03Row.v -- the model's uniform (bumped) knot vector is strictly increasing; the rows computed by
   bspline_scaled (non-periodic) inside the range and under linear extrapolation (real instance).          *)
From Coq Require Import List ZArith Reals Lra Lia Bool Arith.
From PG Require Import Base.Ops Base.Vec Model.BSpline Proofs.C03Basis.
Import ListNotations.
Open Scope R_scope.

Lemma vadd_length' (u : list R) : forall v, length (vadd Rrops u v) = Nat.min (length u) (length v).
Proof. induction u as [|a u IH]; intros [|b v]; simpl; auto. Qed.
Lemma vscale_length' c (u : list R) : length (vscale Rrops c u) = length u.
Proof. apply map_length. Qed.

Lemma hd_map_seq (f : nat -> R) d m : (0 < m)%nat -> hd d (map f (seq 0 m)) = f 0%nat.
Proof. destruct m; [lia|reflexivity]. Qed.

Definition e9 : R := / 1000000000.
Lemma eps9_R : eps9 Rfops = e9.
Proof. unfold eps9, e9; cbn. rewrite Rdivt_ok by lra. lra. Qed.
Lemma e9_pos : 0 < e9. Proof. unfold e9. apply Rinv_0_lt_compat. lra. Qed.

Section K.
Variables n k : nat.
Hypothesis Hkn : (k < n)%nat.
Notation t := (knot Rfops n k).
Definition stepR : R := / IZR (zdiff n k).
Lemma den_pos : 0 < IZR (zdiff n k).
Proof. apply IZR_lt. unfold zdiff. lia. Qed.
Lemma step_pos : 0 < stepR. Proof. apply Rinv_0_lt_compat, den_pos. Qed.
Lemma knot_R j : t j = IZR (zdiff j k) * stepR + (if Nat.leb (n + k) j then e9 else 0).
Proof.
  unfold knot. cbn [Rfops fr fdiv Rrops rmul radd rofZ r1]. rewrite eps9_R.
  pose proof den_pos. rewrite Rdivt_ok by lra. unfold stepR.
  destruct (Nat.leb (n + k) j); lra.
Qed.
Lemma knot_inc j : t j < t (S j).
Proof.
  rewrite !knot_R. pose proof step_pos. pose proof e9_pos.
  replace (zdiff (S j) k) with (zdiff j k + 1)%Z by (unfold zdiff; lia). rewrite plus_IZR.
  destruct (Nat.leb_spec (n + k) j), (Nat.leb_spec (n + k) (S j)); try lia; lra.
Qed.
Lemma knot_k : t k = 0.
Proof. rewrite knot_R. destruct (Nat.leb_spec (n + k) k); [lia|]. unfold zdiff. rewrite Z.sub_diag. lra. Qed.
Lemma knot_n : t n = 1 + (if Nat.eqb k 0 then e9 else 0).
Proof.
  rewrite knot_R. unfold stepR. pose proof den_pos. rewrite Rinv_r by lra.
  destruct (Nat.leb_spec (n + k) n), (Nat.eqb_spec k 0); try lia; lra.
Qed.

(* the Haar row of a point is the indicator of the knot interval that contains it *)
Lemma haar_ind x j0 : t j0 <= x < t (S j0) -> forall i, haar Rfops t x i = ind j0 i.
Proof.
  intros [H1 H2] i. unfold haar, ind. cbn [Rfops fr Rrops rleb rltb r0 r1].
  destruct (Nat.eqb_spec i j0) as [->|Hne].
  - assert (E1 : Rleb (t j0) x = true) by (apply Rleb_true; lra).
    assert (E2 : Rltb x (t (S j0)) = true) by (apply Rltb_true; lra). rewrite E1, E2. reflexivity.
  - destruct (le_lt_dec i j0) as [Hl|Hl].
    + assert (E2 : Rltb x (t (S i)) = false).
      { apply Rltb_false. pose proof (tmono t knot_inc (S i) j0 ltac:(lia)). lra. }
      rewrite E2, andb_false_r. reflexivity.
    + assert (E1 : Rleb (t i) x = false).
      { apply Rleb_false. pose proof (tmono t knot_inc (S j0) i ltac:(lia)). lra. }
      rewrite E1. reflexivity.
Qed.
Lemma locate x : forall d a, t a <= x < t (a + d)%nat -> exists j0, (a <= j0 < a + d)%nat /\ t j0 <= x < t (S j0).
Proof.
  induction d as [|d IH]; intros a H.
  - replace (a + 0)%nat with a in H by lia. lra.
  - destruct (Rlt_dec x (t (a + d)%nat)) as [Hl|Hl].
    + destruct (IH a) as [j0 [Hj Hx]]; [lra|]. exists j0. split; [lia|assumption].
    + exists (a + d)%nat. split; [lia|]. replace (S (a + d)) with (a + S d)%nat by lia. lra.
Qed.

Lemma Bix_ext h h' x : (forall i, h i = h' i) -> forall j i, Bix Rfops t h x j i = Bix Rfops t h' x j i.
Proof. intros E. induction j as [|j IH]; intros i; cbn [Bix]; [apply E|]. rewrite !IH. reflexivity. Qed.

(* ---------- the canonical row of the polynomial piece j0 ---------- *)
Definition crow (j0 : nat) (x : R) : list R := map (Bix Rfops t (ind j0) x k) (seq 0 n).
Lemma crow_length j0 x : length (crow j0 x) = n.
Proof. unfold crow. rewrite map_length, seq_length. reflexivity. Qed.
Lemma crow_sum j0 x : (k <= j0 < n)%nat -> vsumR (crow j0 x) = 1.
Proof.
  intros H. unfold crow. pose proof (partition_of_unity t knot_inc x j0 k 0 (n - k - 1) ltac:(lia)) as P.
  unfold sumB in P. replace (k + S (n - k - 1))%nat with n in P by lia. exact P.
Qed.
Lemma crow_nonneg j0 x : t j0 <= x <= t (S j0) -> Forall (fun v => 0 <= v) (crow j0 x).
Proof. intros H. unfold crow. apply Forall_map_seq. intros i. apply (inonneg t knot_inc x j0 H). Qed.
Lemma crow_support j0 x i : ~ (i <= j0 <= i + k)%nat -> nth i (crow j0 x) 0 = 0.
Proof.
  intros H. unfold crow. rewrite nth_map_seq. destruct (Nat.ltb i n); [|reflexivity].
  apply (isupport t knot_inc x j0 k i H).
Qed.

Lemma deboor_haar x j0 j m : t j0 <= x < t (S j0) ->
  deboor Rfops t x j (haar_row Rfops t (m + j) x) = map (Bix Rfops t (ind j0) x j) (seq 0 m).
Proof.
  intros H. unfold haar_row. rewrite (map_ext _ _ (haar_ind x j0 H)). apply deboor_Bix.
Qed.

(* the row of an interior point (Haar interval located by the comparisons) *)
Definition irow (x : R) : list R := deboor Rfops t x k (haar_row Rfops t (n + k) x).

Lemma irow_spec x : 0 <= x <= 1 -> exists j0, (k <= j0 < n)%nat /\ t j0 <= x <= t (S j0) /\ irow x = crow j0 x.
Proof.
  intros [H0 H1]. pose proof knot_k as Tk. pose proof knot_n as Tn. pose proof e9_pos.
  destruct (Rlt_dec x (t n)) as [Hl|Hl].
  - destruct (locate x (n - k) k) as [j0 [Hj Hx]]; [replace (k + (n - k))%nat with n by lia; lra|].
    exists j0. split; [lia|]. split; [lra|]. unfold irow. apply deboor_haar. assumption.
  - (* x = 1 = t n and k >= 1: the Haar interval is n, the polynomial piece n-1 agrees there *)
    destruct (Nat.eqb_spec k 0) as [E|E]; [lra|].
    assert (Hx : x = t n) by lra.
    exists (n - 1)%nat. split; [lia|]. replace (S (n - 1)) with n by lia. split.
    + pose proof (knot_inc (n - 1)). replace (S (n - 1)) with n in * by lia. lra.
    + unfold irow. rewrite (deboor_haar x n).
      2:{ pose proof (knot_inc n). lra. }
      unfold crow. apply map_ext. intros i.
      assert (Hx' : x = t (S (n - 1))) by (replace (S (n - 1)) with n by lia; assumption).
      pose proof (continuity_at_knot t knot_inc x (n - 1) k i Hx' ltac:(lia)) as C.
      replace (S (n - 1)) with n in C by lia. symmetry. exact C.
Qed.

(* ---------- the two appended rows (x = 0 and the forced mirror row at x = 1) ---------- *)
Lemma rev_map_seq {A} (f : nat -> A) : forall m, rev (map f (seq 0 m)) = map (fun i => f (m - 1 - i)%nat) (seq 0 m).
Proof.
  induction m as [|m IH]; [reflexivity|].
  rewrite seq_S at 1. rewrite map_app, rev_app_distr. cbn [map rev app Nat.add]. rewrite IH.
  cbn [seq map]. f_equal; [f_equal; lia|]. rewrite <- seq_shift, map_map. apply map_ext. intros i. f_equal. lia.
Qed.
Lemma h0_ind j : haar_row Rfops t (n + j) 0 = map (ind k) (seq 0 (n + j)).
Proof.
  unfold haar_row. apply map_ext. apply haar_ind. rewrite knot_k. pose proof (knot_inc k). rewrite knot_k in *. lra.
Qed.
Lemma h1_ind : rev (haar_row Rfops t (n + k) 0) = map (ind (n - 1)) (seq 0 (n + k)).
Proof.
  rewrite h0_ind, rev_map_seq. apply map_ext_in. intros i Hi. apply in_seq in Hi. unfold ind.
  destruct (Nat.eqb_spec (n + k - 1 - i) k), (Nat.eqb_spec i (n - 1)); try reflexivity; lia.
Qed.

Definition b0row : list R := crow k 0.
Definition b1row : list R := crow (n - 1) 1.
Lemma b0row_length : length b0row = n. Proof. apply crow_length. Qed.
Lemma b1row_length : length b1row = n. Proof. apply crow_length. Qed.
Lemma b0_model : deboor Rfops t 0 k (haar_row Rfops t (n + k) 0) = b0row.
Proof. rewrite h0_ind. apply deboor_Bix. Qed.
Lemma b1_model : deboor Rfops t 1 k (rev (haar_row Rfops t (n + k) 0)) = b1row.
Proof. rewrite h1_ind. apply deboor_Bix. Qed.
Lemma b0_is_irow : irow 0 = b0row.
Proof. unfold irow. apply b0_model. Qed.
Lemma b1_is_irow : (1 <= k)%nat -> irow 1 = b1row.
Proof.
  intros Hk. pose proof knot_n as Tn. destruct (Nat.eqb_spec k 0); [lia|].
  unfold irow. rewrite (deboor_haar 1 n). 2:{ pose proof (knot_inc n). lra. }
  unfold b1row, crow. apply map_ext. intros i.
  assert (Hx' : 1 = t (S (n - 1))) by (replace (S (n - 1)) with n by lia; lra).
  pose proof (continuity_at_knot t knot_inc 1 (n - 1) k i Hx' ltac:(lia)) as C.
  replace (S (n - 1)) with n in C by lia. symmetry. exact C.
Qed.

(* gradients: model expression, sum zero *)
Definition g0row : list R := grads Rfops t k 0 (deboor Rfops t 0 (pred k) (haar_row Rfops t (n + k) 0)).
Definition g1row : list R := grads Rfops t k 0 (deboor Rfops t 1 (pred k) (rev (haar_row Rfops t (n + k) 0))).

Lemma Rdivt_0 d : Rdivt 0 d = 0.
Proof. unfold Rdivt. destruct (Req_EM_T d 0); [reflexivity|]. unfold Rdiv. lra. Qed.
Lemma grads_of_piece x j0 : (1 <= k)%nat -> (k <= j0 < n)%nat ->
  let prev := map (Bix Rfops t (ind j0) x (pred k)) (seq 0 (S n)) in
  length (grads Rfops t k 0 prev) = n /\ vsumR (grads Rfops t k 0 prev) = 0.
Proof.
  intros Hk Hj prev. split.
  - rewrite grads_length. unfold prev. rewrite map_length, seq_length. reflexivity.
  - unfold prev. rewrite seq_S, map_app. cbn [map Nat.add]. rewrite grads_sum.
    rewrite (isupport t knot_inc x j0 (pred k) n) by lia. rewrite Rdivt_0.
    rewrite hd_map_seq by lia.
    rewrite (isupport t knot_inc x j0 (pred k) 0) by lia. rewrite Rdivt_0. lra.
Qed.
Lemma prev0_model : (1 <= k)%nat ->
  deboor Rfops t 0 (pred k) (haar_row Rfops t (n + k) 0) = map (Bix Rfops t (ind k) 0 (pred k)) (seq 0 (S n)).
Proof. intros Hk. rewrite h0_ind. replace (n + k)%nat with (S n + pred k)%nat by lia. apply deboor_Bix. Qed.
Lemma prev1_model : (1 <= k)%nat ->
  deboor Rfops t 1 (pred k) (rev (haar_row Rfops t (n + k) 0)) = map (Bix Rfops t (ind (n - 1)) 1 (pred k)) (seq 0 (S n)).
Proof. intros Hk. rewrite h1_ind. replace (n + k)%nat with (S n + pred k)%nat by lia. apply deboor_Bix. Qed.
Lemma g0_facts : (1 <= k)%nat -> length g0row = n /\ vsumR g0row = 0.
Proof. intros Hk. unfold g0row. rewrite prev0_model by assumption. apply grads_of_piece; lia. Qed.
Lemma g1_facts : (1 <= k)%nat -> length g1row = n /\ vsumR g1row = 0.
Proof. intros Hk. unfold g1row. rewrite prev1_model by assumption. apply grads_of_piece; lia. Qed.
End K.

(* ---------- bspline_scaled, non-periodic ---------- *)
Lemma scaled_None n k periodic xs : (n < S k)%nat -> bspline_scaled Rfops n k periodic xs = None.
Proof. intros H. unfold bspline_scaled. destruct (Nat.ltb_spec n (S k)); [reflexivity|lia]. Qed.
Lemma scaled_Some_lt n k periodic xs row : bspline_scaled Rfops n k periodic xs = Some row -> (k < n)%nat.
Proof. unfold bspline_scaled. destruct (Nat.ltb_spec n (S k)); [discriminate|lia]. Qed.

Lemma scaled_inside n k xs : (k < n)%nat -> 0 <= xs <= 1 ->
  bspline_scaled Rfops n k false xs = Some (irow n k xs).
Proof.
  intros Hkn [H0 H1]. unfold bspline_scaled. destruct (Nat.ltb_spec n (S k)); [lia|].
  cbn [Rfops fr Rrops rltb r0 r1 andb orb].
  assert (E1 : Rltb xs 0 = false) by (apply Rltb_false; lra).
  assert (E2 : Rltb 1 xs = false) by (apply Rltb_false; lra).
  rewrite E1, E2. reflexivity.
Qed.
Lemma scaled_order0 n xs : (0 < n)%nat -> bspline_scaled Rfops n 0 false xs = Some (irow n 0 xs).
Proof.
  intros Hn. unfold bspline_scaled. destruct (Nat.ltb_spec n 1); [lia|].
  cbn [Nat.eqb negb andb]. rewrite andb_false_r. reflexivity.
Qed.
Lemma scaled_left n k xs : (1 <= k < n)%nat -> xs < 0 ->
  bspline_scaled Rfops n k false xs = Some (vadd Rrops (vscale Rrops xs (g0row n k)) (b0row n k)).
Proof.
  intros Hkn Hx. unfold bspline_scaled. destruct (Nat.ltb_spec n (S k)); [lia|].
  cbn [Rfops fr Rrops rltb rsub r0 r1 andb orb].
  assert (E1 : Rltb xs 0 = true) by (apply Rltb_true; lra). rewrite E1.
  destruct (Nat.eqb_spec k 0); [lia|]. cbn [orb negb andb].
  fold (g0row n k). change (fr Rfops) with Rrops. rewrite (b0_model n k) by lia.
  destruct (g0_facts n k) as [L _]; [lia|lia|]. rewrite L, b0row_length, Nat.eqb_refl. reflexivity.
Qed.
Lemma scaled_right n k xs : (1 <= k < n)%nat -> 1 < xs ->
  bspline_scaled Rfops n k false xs = Some (vadd Rrops (vscale Rrops (xs - 1) (g1row n k)) (b1row n k)).
Proof.
  intros Hkn Hx. unfold bspline_scaled. destruct (Nat.ltb_spec n (S k)); [lia|].
  cbn [Rfops fr Rrops rltb rsub r0 r1 andb orb].
  assert (E1 : Rltb xs 0 = false) by (apply Rltb_false; lra). rewrite E1.
  assert (E2 : Rltb 1 xs = true) by (apply Rltb_true; lra). rewrite E2.
  destruct (Nat.eqb_spec k 0); [lia|]. cbn [orb negb andb].
  fold (g1row n k). change (fr Rfops) with Rrops. rewrite (b1_model n k) by lia.
  destruct (g1_facts n k) as [L _]; [lia|lia|]. rewrite L, b1row_length, Nat.eqb_refl. reflexivity.
Qed.

(* ---------- theorems about the non-periodic basis ---------- *)
Definition window (k : nat) (row : list R) : Prop :=
  exists j, forall i, (i < j \/ j + k < i)%nat -> nth i row 0 = 0.

Theorem inside_row n k xs row : 0 <= xs <= 1 -> bspline_scaled Rfops n k false xs = Some row ->
  length row = n /\ Forall (fun v => 0 <= v) row /\ vsumR row = 1 /\ window k row.
Proof.
  intros Hx E. pose proof (scaled_Some_lt _ _ _ _ _ E) as Hkn. rewrite scaled_inside in E by assumption.
  inversion E; subst row; clear E. destruct (irow_spec n k Hkn xs Hx) as [j0 [Hj [Hin ->]]].
  split; [apply crow_length|]. split; [apply crow_nonneg; assumption|]. split; [apply crow_sum; assumption|].
  exists (j0 - k)%nat. intros i Hi. apply crow_support; [assumption|lia].
Qed.

Theorem extrap_rowsum n k xs row : (1 <= k)%nat -> xs < 0 \/ 1 < xs ->
  bspline_scaled Rfops n k false xs = Some row -> length row = n /\ vsumR row = 1.
Proof.
  intros Hk Hx E. pose proof (scaled_Some_lt _ _ _ _ _ E) as Hkn.
  destruct Hx as [Hx|Hx].
  - rewrite scaled_left in E by (lia || assumption). inversion E; subst row; clear E.
    destruct (g0_facts n k) as [L S0]; [lia|lia|]. split.
    + rewrite vadd_length', vscale_length', L, b0row_length. lia.
    + rewrite vsum_vadd_vscale by (rewrite L, b0row_length; reflexivity).
      rewrite S0. unfold b0row. rewrite crow_sum by lia. lra.
  - rewrite scaled_right in E by (lia || assumption). inversion E; subst row; clear E.
    destruct (g1_facts n k) as [L S0]; [lia|lia|]. split.
    + rewrite vadd_length', vscale_length', L, b1row_length. lia.
    + rewrite vsum_vadd_vscale by (rewrite L, b1row_length; reflexivity).
      rewrite S0. unfold b1row. rewrite crow_sum by lia. lra.
Qed.

(* affine in x outside [0,1], with the boundary rows as values at the boundary (continuity), slopes summing to 0 *)
Theorem extrap_linear_continuous n k : (1 <= k < n)%nat ->
  exists g0 g1 b0 b1,
    bspline_scaled Rfops n k false 0 = Some b0 /\ bspline_scaled Rfops n k false 1 = Some b1 /\
    length g0 = n /\ length g1 = n /\ length b0 = n /\ length b1 = n /\ vsumR g0 = 0 /\ vsumR g1 = 0 /\
    (forall xs, xs < 0 -> bspline_scaled Rfops n k false xs = Some (vadd Rrops (vscale Rrops xs g0) b0)) /\
    (forall xs, 1 < xs -> bspline_scaled Rfops n k false xs = Some (vadd Rrops (vscale Rrops (xs - 1) g1) b1)).
Proof.
  intros Hkn. exists (g0row n k), (g1row n k), (b0row n k), (b1row n k).
  destruct (g0_facts n k) as [L0 S0]; [lia|lia|]. destruct (g1_facts n k) as [L1 S1]; [lia|lia|].
  split. { rewrite scaled_inside by (lia || lra). rewrite b0_is_irow by lia. reflexivity. }
  split. { rewrite scaled_inside by (lia || lra). rewrite b1_is_irow by lia. reflexivity. }
  repeat split; try assumption; try apply b0row_length; try apply b1row_length.
  - intros xs Hx. apply scaled_left; assumption.
  - intros xs Hx. apply scaled_right; assumption.
Qed.
