(* Proofs/C05ShapeFinal.v -- statements in the user's coordinate x (edge knots ek0, ek1), the combination with the
   constraint matrices (quadratic form = 0 => shape of the FUNCTION), the continuation slope = boundary derivative,
   the derivative of the spline function between knots, and concrete instances. *)
From Coq Require Import List ZArith QArith Qreals Reals Lra Lia Bool Arith.
From PG Require Import Base.Ops Base.Vec Base.Transfer Model.BSpline Model.Constraints Proofs.VecR Proofs.C03Basis Proofs.C03Row Proofs.C03Scale
  Proofs.C03Transfer Proofs.C05 Proofs.C05Bound Proofs.C05ShapeDeriv Proofs.C05ShapeSum Proofs.C05ShapeGlue Proofs.C05ShapeModel
  Proofs.C05ShapeMono Proofs.C05ShapeConvex.
Import ListNotations.
Open Scope R_scope.

(* the fitted function of a spline term in the user's coordinate: coefficients . row of pygam.utils.b_spline_basis *)
Definition spline_at (ek0 ek1 : R) (n k : nat) (c : list R) (x : R) : R :=
  match bspline_row Rfops ek0 ek1 n k false x with Some row => dotR c row | None => 0 end.
Lemma spline_at_sval ek0 ek1 n k c x : spline_at ek0 ek1 n k c x = sval n k c (scaled_x Rfops ek0 ek1 x).
Proof. reflexivity. Qed.

(* scaled_x is an increasing affine map, whatever the edge knots (equal knots: scale 1) *)
Lemma scaled_x_affine_form ek0 ek1 : exists lo r, 0 < r /\ forall x, scaled_x Rfops ek0 ek1 x = (x - lo) * r.
Proof.
  exists (Rmin ek0 ek1). destruct (Req_EM_T (Rmax ek0 ek1 - Rmin ek0 ek1) 0) as [e|ne].
  - exists 1. split; [lra|]. intros x. rewrite C03Scale.scaled_x_R. destruct (Req_EM_T _ _) as [e'|ne']; [lra|contradiction].
  - exists (/ (Rmax ek0 ek1 - Rmin ek0 ek1)). split.
    + apply Rinv_0_lt_compat. pose proof (Rmin_l ek0 ek1). pose proof (Rmax_l ek0 ek1). lra.
    + intros x. rewrite C03Scale.scaled_x_R. destruct (Req_EM_T _ _) as [e'|ne']; [contradiction|reflexivity].
Qed.

(* the shape a constraint promises, as a property of a real function *)
Definition has_shape (cn : con) (f : R -> R) : Prop :=
  match cn with
  | CPyNone | CStrNone => True
  | CMonoInc => forall x y, x <= y -> f x <= f y
  | CMonoDec => forall x y, x <= y -> f y <= f x
  | CConvex => forall x y z, x <= y -> y <= z -> (f y - f x) * (z - y) <= (f z - f y) * (y - x)
  | CConcave => forall x y z, x <= y -> y <= z -> (f z - f y) * (y - x) <= (f y - f x) * (z - y)
  end.

Lemma has_shape_affine cn (g : R -> R) lo r : 0 < r -> has_shape cn g -> has_shape cn (fun x => g ((x - lo) * r)).
Proof.
  intros Hr. destruct cn; cbn [has_shape]; auto; intros H.
  - intros x y Hxy. apply H. apply Rmult_le_compat_r; lra.
  - intros x y Hxy. apply H. apply Rmult_le_compat_r; lra.
  - intros x y z Hxy Hyz.
    pose proof (H ((x - lo) * r) ((y - lo) * r) ((z - lo) * r) ltac:(apply Rmult_le_compat_r; lra) ltac:(apply Rmult_le_compat_r; lra)) as G.
    replace ((z - lo) * r - (y - lo) * r) with ((z - y) * r) in G by ring.
    replace ((y - lo) * r - (x - lo) * r) with ((y - x) * r) in G by ring. nra.
  - intros x y z Hxy Hyz.
    pose proof (H ((x - lo) * r) ((y - lo) * r) ((z - lo) * r) ltac:(apply Rmult_le_compat_r; lra) ltac:(apply Rmult_le_compat_r; lra)) as G.
    replace ((z - lo) * r - (y - lo) * r) with ((z - y) * r) in G by ring.
    replace ((y - lo) * r - (x - lo) * r) with ((y - x) * r) in G by ring. nra.
Qed.

(* coefficients in the zero set of a constraint => the function has the promised shape, for ALL real x (inside the knot
   range and on the linear continuation beyond it), every order k >= 1, every size n > k, any edge knots *)
Theorem coef_to_function cn ek0 ek1 n k c : (1 <= k < n)%nat -> length c = n -> satisfies cn c ->
  has_shape cn (spline_at ek0 ek1 n k c).
Proof.
  intros Hk Hc Hs. destruct (scaled_x_affine_form ek0 ek1) as [lo [r [Hr E]]].
  assert (G : has_shape cn (sval n k c)).
  { destruct cn; cbn [has_shape]; auto.
    - apply spline_nondecreasing; assumption.
    - apply spline_nonincreasing; assumption.
    - apply spline_convex; assumption.
    - apply spline_concave; assumption. }
  pose proof (has_shape_affine cn (sval n k c) lo r Hr G) as A.
  destruct cn; cbn [has_shape] in *; auto; intros; unfold spline_at, bspline_row; fold (sval n k c (scaled_x Rfops ek0 ek1 x));
    fold (sval n k c (scaled_x Rfops ek0 ek1 y)); try fold (sval n k c (scaled_x Rfops ek0 ek1 z)); rewrite !E; apply A; assumption.
Qed.

(* the combination with the matrix-level theorems: zero quadratic form of the constraint matrix => shape of the function *)
Theorem constraint_zero_to_function cn ek0 ek1 n k c : (1 <= k < n)%nat -> length c = n ->
  quadR (con_matrix Rrops n c cn) c = 0 -> has_shape cn (spline_at ek0 ek1 n k c).
Proof. intros Hk Hc Q. apply coef_to_function; try assumption. apply (con_zero_iff cn n c Hc). exact Q. Qed.

Theorem term_constraint_zero_to_function cons clam cl2 ek0 ek1 n k c : (1 <= k < n)%nat -> length c = n -> 0 < clam -> 0 <= cl2 ->
  quadR (term_constraints Rrops n c cons clam cl2) c = 0 -> Forall (fun cn => has_shape cn (spline_at ek0 ek1 n k c)) cons.
Proof.
  intros Hk Hc Hl Hl2 Q. apply (term_zero_iff n c cons clam cl2 Hc Hl Hl2) in Q.
  eapply Forall_impl; [|exact Q]. intros cn Hs. apply coef_to_function; assumption.
Qed.

(* order 0 (step functions), inside the knot range *)
Theorem coef_to_function_order0 ek0 ek1 n c : (0 < n)%nat -> length c = n -> ek0 <> ek1 -> satisfies CMonoInc c ->
  forall x y, Rmin ek0 ek1 <= x -> x <= y -> y <= Rmax ek0 ek1 -> spline_at ek0 ek1 n 0 c x <= spline_at ek0 ek1 n 0 c y.
Proof.
  intros Hn Hc Hne Hs x y Hx Hxy Hy. rewrite !spline_at_sval.
  destruct (scaled_x_affine_form ek0 ek1) as [lo [r [Hr E]]].
  pose proof (scaled_x_inside ek0 ek1 x Hne ltac:(lra)) as Ix. pose proof (scaled_x_inside ek0 ek1 y Hne ltac:(lra)) as Iy.
  apply spline0_nondecreasing; try assumption; try lra. rewrite !E. apply Rmult_le_compat_r; lra.
Qed.

Theorem coef_to_function_order0_dec ek0 ek1 n c : (0 < n)%nat -> length c = n -> ek0 <> ek1 -> satisfies CMonoDec c ->
  forall x y, Rmin ek0 ek1 <= x -> x <= y -> y <= Rmax ek0 ek1 -> spline_at ek0 ek1 n 0 c y <= spline_at ek0 ek1 n 0 c x.
Proof.
  intros Hn Hc Hne Hs x y Hx Hxy Hy.
  assert (S' : satisfies CMonoInc (vneg c)).
  { cbn [satisfies] in *. apply Forall_diff_iff. intros i Hi. rewrite vneg_length in Hi. rewrite !nth_vneg.
    pose proof (proj1 (Forall_diff_iff (fun d => d <= 0) c) Hs i Hi). lra. }
  pose proof (coef_to_function_order0 ek0 ek1 n (vneg c) Hn ltac:(rewrite vneg_length; exact Hc) Hne S' x y Hx Hxy Hy) as G.
  rewrite !spline_at_sval, !sval_vneg in G. rewrite !spline_at_sval. lra.
Qed.

(* ---------- continuation slope = one-sided derivative of the boundary polynomial piece ---------- *)
Lemma nth_crow n k j0 x i : (i < n)%nat -> nth i (crow n k j0 x) 0 = Bix Rfops (knot Rfops n k) (ind j0) x k i.
Proof. intros Hi. unfold crow. rewrite nth_map_seq. destruct (Nat.ltb_spec i n); [reflexivity|lia]. Qed.

Theorem continuation_slope n k : (1 <= k < n)%nat ->
  let t := knot Rfops n k in
  exists g0 g1 : list R,
    (* the code's linear continuation on both sides *)
    (forall xs, xs < 0 -> bspline_scaled Rfops n k false xs = Some (vaddR (vscaleR xs g0) (crow n k k 0))) /\
    (forall xs, 1 < xs -> bspline_scaled Rfops n k false xs = Some (vaddR (vscaleR (xs - 1) g1) (crow n k (n - 1) 1))) /\
    (* the interior basis next to the boundaries is the polynomial piece k resp. n-1 *)
    (forall xs, 0 <= xs < t (S k) -> bspline_scaled Rfops n k false xs = Some (crow n k k xs)) /\
    (forall xs, t (n - 1)%nat <= xs <= 1 -> bspline_scaled Rfops n k false xs = Some (crow n k (n - 1) xs)) /\
    (* and the slopes are the derivatives of those polynomial pieces at the boundary, column by column *)
    (forall i, (i < n)%nat ->
       derivable_pt_lim (fun x => nth i (crow n k k x) 0) 0 (nth i g0 0) /\
       derivable_pt_lim (fun x => nth i (crow n k (n - 1) x) 0) 1 (nth i g1 0)).
Proof.
  intros Hk t. assert (Hkn : (k < n)%nat) by lia. exists (g0row n k), (g1row n k).
  split; [intros xs Hx; apply scaled_left; assumption|].
  split; [intros xs Hx; apply scaled_right; assumption|].
  split; [|split].
  - intros xs [H0 H1]. assert (xs <= 1).
    { pose proof (tmono t (knot_inc n k Hkn) (S k) n ltac:(lia)) as M. unfold t in *. rewrite (tn1 n k Hk (repeat 0 n) (repeat_length _ _)) in M. lra. }
    rewrite scaled_inside by (assumption || lra). f_equal. unfold irow, crow. apply (deboor_haar n k Hkn xs k k n).
    rewrite (tk0 n k Hk). split; [lra|exact H1].
  - intros xs [H0 H1]. pose proof (knot_inc n k Hkn (n - 1)) as T. replace (S (n - 1)) with n in T by lia.
    rewrite (tn1 n k Hk (repeat 0 n) (repeat_length _ _)) in T.
    assert (0 <= xs).
    { pose proof (tmono t (knot_inc n k Hkn) k (n - 1) ltac:(lia)) as M. unfold t in *. rewrite (tk0 n k Hk) in M. lra. }
    rewrite scaled_inside by (assumption || lra). f_equal.
    destruct (Rle_lt_or_eq_dec xs 1 H1) as [Hlt|E].
    + unfold irow, crow. apply (deboor_haar n k Hkn xs (n - 1) k n). replace (S (n - 1)) with n by lia.
      rewrite (tn1 n k Hk (repeat 0 n) (repeat_length _ _)). split; [exact H0|exact Hlt].
    + subst xs. rewrite b1_is_irow by lia. reflexivity.
  - intros i Hi.
    assert (E0 : nth i (g0row n k) 0 = dform t (ind k) k i 0).
    { unfold g0row. rewrite (prev0_model n k Hkn) by lia. rewrite (grads_piece n k Hk (repeat 0 n) (repeat_length _ _)).
      rewrite nth_map_seq. destruct (Nat.ltb_spec i n); [reflexivity|lia]. }
    assert (E1 : nth i (g1row n k) 0 = dform t (ind (n - 1)) k i 1).
    { unfold g1row. rewrite (prev1_model n k Hkn) by lia. rewrite (grads_piece n k Hk (repeat 0 n) (repeat_length _ _)).
      rewrite nth_map_seq. destruct (Nat.ltb_spec i n); [reflexivity|lia]. }
    rewrite E0, E1. split.
    + apply (derivable_pt_lim_ext (fun x => Bix Rfops t (ind k) x k i)); [intros y; symmetry; apply nth_crow; exact Hi|].
      apply (Bix_derivative t (knot_inc n k Hkn)). lia.
    + apply (derivable_pt_lim_ext (fun x => Bix Rfops t (ind (n - 1)) x k i)); [intros y; symmetry; apply nth_crow; exact Hi|].
      apply (Bix_derivative t (knot_inc n k Hkn)). lia.
Qed.

(* ---------- derivative of the spline function strictly between two knots (uniform knots, spacing h = stepR) ---------- *)
Theorem sval_derivative_between_knots n k c j x : (1 <= k < n)%nat -> length c = n -> (k <= j < n)%nat ->
  knot Rfops n k j < x < knot Rfops n k (S j) ->
  derivable_pt_lim (sval n k c) x
    (sumf (fun i => (nth i c 0 - nth (pred i) c 0) / stepR n k * Bix Rfops (knot Rfops n k) (ind j) x (pred k) i) 1 (n - 1)).
Proof.
  intros Hk Hc Hj Hx. assert (Hkn : (k < n)%nat) by lia.
  apply (derivable_pt_lim_locally_ext (Pin n k c j) (sval n k c) x (knot Rfops n k j) (knot Rfops n k (S j))); [exact Hx| |].
  - intros z Hz. unfold sval.
    pose proof (tmono _ (knot_inc n k Hkn) k j ltac:(lia)) as M1. rewrite (tk0 n k Hk) in M1.
    pose proof (tmono _ (knot_inc n k Hkn) (S j) n ltac:(lia)) as M2. rewrite (tn1 n k Hk c Hc) in M2.
    rewrite scaled_inside by (assumption || lra). unfold irow.
    rewrite (deboor_haar n k Hkn z j k n) by lra. symmetry. apply (dot_crow n k c Hc).
  - apply (piece_derivative_formula n k Hk c Hc j x Hj).
Qed.

(* ---------- concrete instances (hypotheses satisfiable, conclusions non-trivial) ---------- *)
Example shape_hypotheses_example :
  (1 <= 1 < 4)%nat /\ length [0; 1; 3; 6] = 4%nat /\ satisfies CMonoInc [0; 1; 3; 6] /\ satisfies CConvex [0; 1; 3; 6]
  /\ satisfies CMonoDec [6; 3; 1; 0] /\ satisfies CConcave [0; 3; 5; 6].
Proof.
  split; [lia|]. split; [reflexivity|]. cbn. repeat split; repeat constructor; lra.
Qed.
(* the increasing, convex spline with coefficients 0,1,3,6 (order 1, edge knots 0 and 1) takes the value -3/2 at x = -1/2
   (on the linear continuation) and 2 at x = 1/2 (inside) *)
Example shape_values_example :
  spline_at 0 1 4 1 [0; 1; 3; 6] (Q2R (-1 # 2)) = - (3 / 2) /\ spline_at 0 1 4 1 [0; 1; 3; 6] (Q2R (1 # 2)) = 2.
Proof.
  unfold spline_at. rewrite ex_extrap_left. destruct ex_inside as [-> _]. unfold Q2R; cbn. split; field.
Qed.
