(* Proofs/C06Score.v -- the score identity: the derivative of the log-density in the mean is (y - mu) / (scale * V(mu)),
   for all five families, derived from the two facts already proved about the GENERATED definitions (deviance = 2 scale x
   log-likelihood gap; d deviance / d mu = -2 (y - mu) / V(mu)).  This is the identity that makes the PIRLS fixed point a
   stationary point of the penalised log-likelihood the model reports. *)
From Coq Require Import Reals Lra Lia List.
From Coquelicot Require Import Coquelicot.
From PG Require Import Base.Ops Gen.Dists Proofs.C06.
Open Scope R_scope.

Lemma score_from_gap (lp dev : R -> R) (c sc d mu : R) (a b : Rbar) :
  Rbar_lt a mu -> Rbar_lt mu b -> sc <> 0 ->
  (forall m : R, Rbar_lt a m -> Rbar_lt m b -> dev m = 2 * sc * (c - lp m)) ->
  is_derive dev mu d -> is_derive lp mu (- d / (2 * sc)).
Proof.
  intros Ha Hb Hsc Hgap Hd.
  apply (is_derive_ext_loc (fun m => c - dev m / (2 * sc))).
  - apply (locally_interval _ mu a b Ha Hb). intros m Hma Hmb. cbv beta. rewrite (Hgap m Hma Hmb). change (c - 2 * sc * (c - lp m) / (2 * sc) = lp m :> R). field. exact Hsc.
  - auto_derive; [exists d; exact Hd|].
    change (fun x : R => dev x) with dev. rewrite (is_derive_unique _ _ _ Hd). field. exact Hsc.
Qed.

Lemma normal_score sc y mu : 0 < sc ->
  is_derive (fun m => Gen_NormalDist_log_pdf sc 1 1 y m) mu ((y - mu) / (sc * Gen_NormalDist_V0 1 mu)).
Proof. intro Hs.
  replace ((y - mu) / (sc * Gen_NormalDist_V0 1 mu)) with (- (-2 * (y - mu) / Gen_NormalDist_V0 1 mu) / (2 * sc))
    by (unfold Gen_NormalDist_V0; field; lra).
  apply (score_from_gap _ (fun m => Gen_NormalDist_deviance0 false sc 1 y m) (Gen_NormalDist_log_pdf sc 1 1 y y) sc _ mu m_infty p_infty);
    [exact I|exact I|lra| |apply normal_dev_derive].
  intros m _ _. apply normal_loglik_gap; assumption. Qed.

Lemma binom_score L y mu : 0 <= y <= L -> 0 < mu < L ->
  is_derive (fun m => Gen_BinomialDist_log_pdf 1 L 1 y m) mu ((y - mu) / (1 * Gen_BinomialDist_V0 L mu)).
Proof. intros Hy [H0 H1].
  replace ((y - mu) / (1 * Gen_BinomialDist_V0 L mu)) with (- (-2 * (y - mu) / Gen_BinomialDist_V0 L mu) / (2 * 1))
    by (unfold Gen_BinomialDist_V0; field; repeat split; lra).
  apply (score_from_gap _ (fun m => Gen_BinomialDist_deviance0 false 1 L y m) (Gen_BinomialDist_log_pdf 1 L 1 y y) 1 _ mu 0 L);
    [exact H0|exact H1|lra| |apply binom_dev_derive; [assumption|split; assumption]].
  intros m Hm0 Hm1. apply binom_loglik_gap; [assumption|split; assumption]. Qed.

Lemma pois_score y mu : 0 <= y -> 0 < mu ->
  is_derive (fun m => Gen_PoissonDist_log_pdf 1 1 1 y m) mu ((y - mu) / (1 * Gen_PoissonDist_V0 1 mu)).
Proof. intros Hy H0.
  replace ((y - mu) / (1 * Gen_PoissonDist_V0 1 mu)) with (- (-2 * (y - mu) / Gen_PoissonDist_V0 1 mu) / (2 * 1))
    by (unfold Gen_PoissonDist_V0; field; lra).
  apply (score_from_gap _ (fun m => Gen_PoissonDist_deviance0 false 1 1 y m) (Gen_PoissonDist_log_pdf 1 1 1 y y) 1 _ mu 0 p_infty);
    [exact H0|exact I|lra| |apply pois_dev_derive; assumption].
  intros m Hm0 _. apply pois_loglik_gap; assumption. Qed.

Lemma gamma_score sc y mu : 0 < sc -> 0 < y -> 0 < mu ->
  is_derive (fun m => Gen_GammaDist_log_pdf sc 1 1 y m) mu ((y - mu) / (sc * Gen_GammaDist_V0 1 mu)).
Proof. intros Hs Hy H0.
  replace ((y - mu) / (sc * Gen_GammaDist_V0 1 mu)) with (- (-2 * (y - mu) / Gen_GammaDist_V0 1 mu) / (2 * sc))
    by (unfold Gen_GammaDist_V0; field; lra).
  apply (score_from_gap _ (fun m => Gen_GammaDist_deviance0 false sc 1 y m) (Gen_GammaDist_log_pdf sc 1 1 y y) sc _ mu 0 p_infty);
    [exact H0|exact I|lra| |apply gamma_dev_derive; assumption].
  intros m Hm0 _. apply gamma_loglik_gap; assumption. Qed.

Lemma ig_score sc y mu : 0 < sc -> 0 < y -> 0 < mu ->
  is_derive (fun m => Gen_InvGaussDist_log_pdf sc 1 1 y m) mu ((y - mu) / (sc * Gen_InvGaussDist_V0 1 mu)).
Proof. intros Hs Hy H0.
  replace ((y - mu) / (sc * Gen_InvGaussDist_V0 1 mu)) with (- (-2 * (y - mu) / Gen_InvGaussDist_V0 1 mu) / (2 * sc))
    by (unfold Gen_InvGaussDist_V0; field; lra).
  apply (score_from_gap _ (fun m => Gen_InvGaussDist_deviance0 false sc 1 y m) (Gen_InvGaussDist_log_pdf sc 1 1 y y) sc _ mu 0 p_infty);
    [exact H0|exact I|lra| |apply ig_dev_derive; assumption].
  intros m Hm0 _. apply ig_loglik_gap; assumption. Qed.
