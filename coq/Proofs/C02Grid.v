(* Proofs/C02Grid.v -- default grids of generate_X_grid / _flatten_mesh (real instance of Model/Predict.v):
   linspace end points and spacing, the single-term grid, the n^k 'ij' mesh in C order, the by-column set to one for
   every term kind (meshgrid off or on), hence the default partial dependence is the term's effect at by = 1.        *)
From Coq Require Import List ZArith Reals Lra Lia Bool Arith.
From PG Require Import Base.Ops Base.Vec Model.BSpline Model.Columns Model.Predict Proofs.VecR Proofs.C16 Proofs.C02.
Import ListNotations.
Open Scope R_scope.

Notation linspaceR := (linspace Rfops). Notation axisR := (axis Rfops). Notation flatten_rowR := (flatten_row Rfops).
Notation default_gridR := (default_grid Rfops). Notation mesh_gridR := (mesh_grid Rfops).

(* ---------- linspace ---------- *)
Lemma linspace_length a b n : length (linspaceR a b n) = n.
Proof. unfold linspace. rewrite map_length, seq_length. reflexivity. Qed.
Lemma linspace_nth a b n i : (i < n)%nat -> nth i (linspaceR a b n) 0 = a + INR i * ((b - a) / (INR n - 1)).
Proof.
  intros Hi. unfold linspace.
  rewrite (nth_indep _ 0 ((fun i => radd (fr Rfops) a (rmul (fr Rfops) (rofZ (fr Rfops) (Z.of_nat i))
     (fdiv Rfops (rsub (fr Rfops) b a) (rofZ (fr Rfops) (zdiff n 1))))) n)) by (rewrite map_length, seq_length; exact Hi).
  rewrite (map_nth (fun i => radd (fr Rfops) a (rmul (fr Rfops) (rofZ (fr Rfops) (Z.of_nat i))
     (fdiv Rfops (rsub (fr Rfops) b a) (rofZ (fr Rfops) (zdiff n 1)))))).
  rewrite seq_nth by exact Hi. cbn [Rfops fr Rrops radd rmul rsub rofZ fdiv Nat.add].
  rewrite <- INR_IZR_INZ. unfold zdiff. rewrite minus_IZR, <- INR_IZR_INZ. change (IZR (Z.of_nat 1)) with 1.
  unfold Rdivt. destruct (Req_EM_T (INR n - 1) 0) as [E|E]; [|reflexivity].
  assert (n = 1)%nat by (apply INR_eq; cbn; lra). subst n. assert (i = 0)%nat by lia. subst i. cbn. lra.
Qed.
Lemma linspace_first a b n : (1 <= n)%nat -> nth 0 (linspaceR a b n) 0 = a.
Proof. intros H. rewrite linspace_nth by lia. cbn. lra. Qed.
Lemma linspace_last a b n : (2 <= n)%nat -> nth (n - 1) (linspaceR a b n) 0 = b.
Proof.
  intros H. rewrite linspace_nth by lia. rewrite minus_INR by lia. cbn [INR].
  assert (2 <= INR n) by (apply (le_INR 2); exact H). field. lra.
Qed.
Lemma linspace_step a b n i : (S i < n)%nat -> nth (S i) (linspaceR a b n) 0 - nth i (linspaceR a b n) 0 = (b - a) / (INR n - 1).
Proof. intros H. rewrite !linspace_nth by lia. rewrite S_INR. lra. Qed.

(* ---------- set_nth ---------- *)
Lemma set_nth_length f v (row : list R) : length (set_nth f v row) = length row.
Proof. revert f. induction row as [|a row IH]; intros [|f]; cbn; try reflexivity. rewrite IH. reflexivity. Qed.
Lemma nth_set_nth_eq f v (row : list R) : (f < length row)%nat -> nth f (set_nth f v row) 0 = v.
Proof. revert f. induction row as [|a row IH]; intros [|f] H; cbn in *; try lia; [reflexivity|]. apply IH. lia. Qed.
Lemma nth_set_nth_neq c f v (row : list R) : c <> f -> nth c (set_nth f v row) 0 = nth c row 0.
Proof.
  revert c f. induction row as [|a row IH]; intros c f H; [destruct f; reflexivity|].
  destruct f as [|f], c as [|c]; cbn; try reflexivity; try lia. apply IH. lia.
Qed.
Lemma nth_zeros c p : nth c (zerosR p) 0 = 0.
Proof. unfold zeros. destruct (Nat.lt_ge_cases c p) as [H|H]; [apply nth_repeat|]. rewrite nth_overflow by (rewrite repeat_length; exact H). reflexivity. Qed.

(* ---------- the grid of a non-tensor term ---------- *)
Theorem grid_simple lin m n s g : (simple_feature s < m)%nat -> (forall j, simple_by s = Some j -> (j < m)%nat /\ j <> simple_feature s) ->
  default_gridR lin m n (CSimple s) = Some g ->
  length g = n /\
  forall i, (i < n)%nat -> let row := nth i g [] in
    length row = m /\ nth (simple_feature s) row 0 = nth i (axisR lin n s) 0 /\
    (forall j, simple_by s = Some j -> nth j row 0 = 1) /\
    (forall c, c <> simple_feature s -> simple_by s <> Some c -> nth c row 0 = 0).
Proof.
  intros Hf Hby E. cbn [default_grid] in E. inversion E as [Eg]. clear E. split.
  - rewrite map_length. unfold axis. apply linspace_length.
  - intros i Hi.
    set (F := fun x => set_by Rfops (simple_by s) (set_nth (simple_feature s) x (zeros (fr Rfops) m))).
    assert (EN : nth i (map F (axisR lin n s)) [] = F (nth i (axisR lin n s) 0)).
    { rewrite (nth_indep _ [] (F 0)) by (rewrite map_length; unfold axis; rewrite linspace_length; exact Hi). apply map_nth. }
    cbv zeta. change (map _ (axisR lin n s)) with (map F (axisR lin n s)). rewrite EN. unfold F, set_by. change (fr Rfops) with Rrops. change (r1 Rrops) with 1.
    destruct (simple_by s) as [j|] eqn:Eb.
    + destruct (Hby j eq_refl) as [Hj Hne]. repeat split.
      * rewrite !set_nth_length. apply zeros_length.
      * rewrite nth_set_nth_neq by congruence. apply nth_set_nth_eq. rewrite zeros_length. exact Hf.
      * intros j' Ej. inversion Ej; subst j'. apply nth_set_nth_eq. rewrite set_nth_length, zeros_length. exact Hj.
      * intros c Hc Hc'. rewrite nth_set_nth_neq by congruence. rewrite nth_set_nth_neq by exact Hc. apply nth_zeros.
    + repeat split.
      * rewrite set_nth_length. apply zeros_length.
      * apply nth_set_nth_eq. rewrite zeros_length. exact Hf.
      * intros j Ej. discriminate.
      * intros c Hc _. rewrite nth_set_nth_neq by exact Hc. apply nth_zeros.
Qed.

(* ---------- mesh: n^k points, C order ---------- *)
Fixpoint ravel (n : nat) (js : list nat) : nat :=
  match js with [] => O | j :: rest => (j * n ^ length rest + ravel n rest)%nat end.
Lemma mesh_length n (axes : list (list R)) : Forall (fun a => length a = n) axes -> length (mesh axes) = (n ^ length axes)%nat.
Proof.
  induction axes as [|a axes IH]; intros H; [reflexivity|]. pose proof (Forall_inv H) as Ha. pose proof (Forall_inv_tail H) as Hr. cbv beta in Ha. specialize (IH Hr).
  cbn [mesh length Nat.pow]. rewrite <- IH, <- Ha. clear H Ha IH Hr. induction a as [|x a IHa]; [reflexivity|].
  cbn [flat_map length]. rewrite app_length, map_length, IHa. lia.
Qed.
Lemma nth_flat_map_block {A B} (f : A -> list B) (L : nat) (d0 : A) (d : B) : forall (a : list A) j r,
  (forall x, length (f x) = L) -> (j < length a)%nat -> (r < L)%nat -> nth (j * L + r) (flat_map f a) d = nth r (f (nth j a d0)) d.
Proof.
  induction a as [|x a IH]; intros j r HL Hj Hr; [cbn in Hj; lia|]. cbn [flat_map]. destruct j as [|j].
  - cbn [Nat.mul Nat.add nth]. apply app_nth1. rewrite HL. exact Hr.
  - rewrite app_nth2 by (rewrite HL; lia). rewrite HL. replace (S j * L + r - L)%nat with (j * L + r)%nat by lia.
    cbn [nth]. apply IH; [exact HL|cbn in Hj; lia|exact Hr].
Qed.
Lemma ravel_lt n : forall js, Forall (fun j => (j < n)%nat) js -> (ravel n js < n ^ length js)%nat.
Proof.
  induction js as [|j js IH]; intros H; [cbn; lia|]. inversion H; subst. specialize (IH H3). cbn [ravel length Nat.pow].
  assert ((j + 1) * n ^ length js <= n * n ^ length js)%nat by (apply Nat.mul_le_mono_r; lia). lia.
Qed.
Theorem mesh_point n : forall (axes : list (list R)) js, Forall (fun a => length a = n) axes -> length js = length axes ->
  Forall (fun j => (j < n)%nat) js ->
  nth (ravel n js) (mesh axes) [] = map (fun ja => nth (fst ja) (snd ja) 0) (combine js axes).
Proof.
  induction axes as [|a axes IH]; intros js Ha Hl Hj.
  - destruct js; [reflexivity|discriminate].
  - destruct js as [|j js]; [discriminate|]. pose proof (Forall_inv Ha) as Hla. pose proof (Forall_inv_tail Ha) as Hr. cbv beta in Hla.
    pose proof (Forall_inv Hj) as Hj0. pose proof (Forall_inv_tail Hj) as Hjr. cbv beta in Hj0. subst n.
    cbn [mesh ravel combine map fst snd]. cbn in Hl.
    replace (length js) with (length axes) by lia. rewrite <- (mesh_length (length a) axes Hr).
    rewrite (nth_flat_map_block (fun x => map (cons x) (mesh axes)) (length (mesh axes)) 0 []).
    + rewrite (nth_indep _ [] (cons (nth j a 0) [])).
      2:{ rewrite map_length, (mesh_length (length a) axes Hr). replace (length axes) with (length js) by lia. apply ravel_lt. exact Hjr. }
      rewrite (map_nth (cons (nth j a 0))). f_equal. apply IH; [exact Hr|lia|exact Hjr].
    + intros x. apply map_length.
    + exact Hj0.
    + rewrite (mesh_length (length a) axes Hr). replace (length axes) with (length js) by lia. apply ravel_lt. exact Hjr.
Qed.
Lemma mesh_point_length (axes : list (list R)) : Forall (fun pt => length pt = length axes) (mesh axes).
Proof.
  induction axes as [|a axes IH]; [repeat constructor|]. cbn [mesh]. apply Forall_forall. intros pt Hp. apply in_flat_map in Hp.
  destruct Hp as [x [_ Hp]]. apply in_map_iff in Hp. destruct Hp as [q [E Hq]]. subst pt. cbn. f_equal.
  rewrite Forall_forall in IH. apply IH. exact Hq.
Qed.

(* ---------- _flatten_mesh ---------- *)
Definition assign (row : list R) (fx : nat * R) : list R := set_nth (fst fx) (snd fx) row.
Lemma flatten_row_unfold m feats pt : flatten_rowR m feats pt = fold_left assign (combine feats pt) (zerosR m).
Proof. reflexivity. Qed.
Lemma fold_assign_length l : forall row, length (fold_left assign l row) = length row.
Proof. induction l as [|p l IH]; intros row; [reflexivity|]. cbn [fold_left]. rewrite IH. apply set_nth_length. Qed.
Lemma fold_assign_notin c : forall feats pt row, ~ In c feats -> nth c (fold_left assign (combine feats pt) row) 0 = nth c row 0.
Proof.
  induction feats as [|f feats IH]; intros pt row H; [reflexivity|]. destruct pt as [|x pt]; [reflexivity|].
  cbn [combine fold_left]. rewrite IH by (intros H'; apply H; right; exact H'). unfold assign. cbn [fst snd].
  apply nth_set_nth_neq. intros E. apply H. left. congruence.
Qed.
Lemma fold_assign_in : forall feats pt row i, NoDup feats -> length pt = length feats -> (i < length feats)%nat ->
  (nth i feats O < length row)%nat -> nth (nth i feats O) (fold_left assign (combine feats pt) row) 0 = nth i pt 0.
Proof.
  induction feats as [|f feats IH]; intros pt row i ND HL Hi Hr; [cbn in Hi; lia|].
  destruct pt as [|x pt]; [discriminate|]. inversion ND as [|? ? Hnin ND']; subst. cbn [combine fold_left]. destruct i as [|i].
  - cbn [nth] in *. rewrite fold_assign_notin by exact Hnin. unfold assign. cbn [fst snd]. apply nth_set_nth_eq. exact Hr.
  - cbn [nth] in *. apply IH; [exact ND'|cbn in HL; lia|cbn in Hi; lia|]. unfold assign. rewrite set_nth_length. exact Hr.
Qed.

(* ---------- the by-column ---------- *)
Notation set_byR := (set_by Rfops).
Lemma set_by_length by_ (row : list R) : length (set_byR by_ row) = length row.
Proof. destruct by_; cbn; [apply set_nth_length|reflexivity]. Qed.
Lemma nth_set_by_eq j (row : list R) : (j < length row)%nat -> nth j (set_byR (Some j) row) 0 = 1.
Proof. intros H. cbn. apply nth_set_nth_eq. exact H. Qed.
Lemma nth_set_by_neq by_ c (row : list R) : by_ <> Some c -> nth c (set_byR by_ row) 0 = nth c row 0.
Proof. destruct by_ as [j|]; intros H; [|reflexivity]. cbn. apply nth_set_nth_neq. congruence. Qed.

(* ---------- the grid of a tensor term (and of any term under meshgrid=True) ---------- *)
Lemma mesh_grid_rows lin m n t : Forall (fun row => exists pt, In pt (mesh (map (axisR lin n) (term_marginals t))) /\
  row = set_byR (term_by t) (flatten_rowR m (map simple_feature (term_marginals t)) pt)) (mesh_gridR lin m n t).
Proof. apply Forall_forall. intros row H. unfold mesh_grid in H. apply in_map_iff in H. destruct H as [pt [E H]]. exists pt. split; [exact H|symmetry; exact E]. Qed.
(* every column that is neither the feature of a marginal nor the by-column is zero in every grid row *)
Theorem mesh_grid_other_columns_zero lin m n t c : ~ In c (map simple_feature (term_marginals t)) -> term_by t <> Some c ->
  Forall (fun row => nth c row 0 = 0) (mesh_gridR lin m n t).
Proof.
  intros H Hb. eapply Forall_impl; [|apply mesh_grid_rows]. intros row [pt [_ E]]. subst row. rewrite nth_set_by_neq by exact Hb.
  rewrite flatten_row_unfold. rewrite fold_assign_notin by exact H. apply nth_zeros.
Qed.
Lemma mesh_grid_is_user_mesh lin m n (t : cterm R) :
  mesh_gridR lin m n t = user_mesh_grid Rfops m t (map (axisR lin n) (term_marginals t)).
Proof. reflexivity. Qed.
(* the by-column is one in every row of the mesh grid: every term kind *)
Theorem mesh_grid_by_one lin m n t j : term_by t = Some j -> (j < m)%nat -> Forall (fun row => nth j row 0 = 1) (mesh_gridR lin m n t).
Proof.
  intros Hb Hj. eapply Forall_impl; [|apply mesh_grid_rows]. intros row [pt [_ E]]. subst row. rewrite Hb. apply nth_set_by_eq.
  rewrite flatten_row_unfold, fold_assign_length. rewrite zeros_length. exact Hj.
Qed.
(* ... and of the default grid (meshgrid=False) *)
Theorem default_grid_by_one lin m n t j g : term_by t = Some j -> (j < m)%nat -> default_gridR lin m n t = Some g ->
  Forall (fun row => nth j row 0 = 1) g.
Proof.
  intros Hb Hj E. destruct t as [|s|ms by_]; cbn [default_grid] in E; [discriminate| |].
  - inversion E. apply Forall_forall. intros row Hr. apply in_map_iff in Hr. destruct Hr as [x [Ex _]]. subst row. cbn [term_by] in Hb.
    rewrite Hb. apply nth_set_by_eq. rewrite set_nth_length. change (fr Rfops) with Rrops. rewrite zeros_length. exact Hj.
  - inversion E. apply mesh_grid_by_one; assumption.
Qed.
(* for a non-tensor term the flattened mesh of meshgrid=True is the default grid of meshgrid=False *)
Lemma mesh_single (a : list R) : mesh [a] = map (fun x => [x]) a.
Proof. change (mesh [a]) with (flat_map (fun x : R => map (cons x) [[]]) a). induction a as [|x a IH]; [reflexivity|]. cbn. cbn in IH. rewrite IH. reflexivity. Qed.
Theorem simple_meshgrid_is_default_grid lin m n s : default_gridR lin m n (CSimple s) = Some (mesh_gridR lin m n (CSimple s)).
Proof.
  cbn [default_grid]. f_equal. unfold mesh_grid. cbn [term_marginals term_by map]. rewrite mesh_single, map_map. apply map_ext. intros x. reflexivity.
Qed.

Theorem grid_tensor lin m n ms by_ g : default_gridR lin m n (CTensor ms by_) = Some g ->
  NoDup (map simple_feature ms) -> Forall (fun s => (simple_feature s < m)%nat) ms ->
  (forall j, by_ = Some j -> (j < m)%nat /\ ~ In j (map simple_feature ms)) ->
  length g = (n ^ length ms)%nat /\
  forall js, length js = length ms -> Forall (fun j => (j < n)%nat) js -> let row := nth (ravel n js) g [] in
    length row = m /\
    (forall i, (i < length ms)%nat -> nth (simple_feature (nth i ms (SLinear O))) row 0 = nth (nth i js O) (axisR lin n (nth i ms (SLinear O))) 0) /\
    (forall j, by_ = Some j -> nth j row 0 = 1) /\
    (forall c, ~ In c (map simple_feature ms) -> by_ <> Some c -> nth c row 0 = 0).
Proof.
  intros E ND Hm Hby. cbn [default_grid] in E. inversion E as [Eg]. clear E. unfold mesh_grid. cbn [term_marginals term_by].
  assert (HA : Forall (fun a => length a = n) (map (axisR lin n) ms)).
  { apply Forall_forall. intros a Ha. apply in_map_iff in Ha. destruct Ha as [s [Es _]]. subst a. unfold axis. apply linspace_length. }
  split.
  - rewrite map_length, (mesh_length n _ HA), map_length. reflexivity.
  - intros js Hl Hj. cbv zeta.
    assert (Hlt : (ravel n js < length (mesh (map (axisR lin n) ms)))%nat).
    { rewrite (mesh_length n _ HA), map_length, <- Hl. apply ravel_lt. exact Hj. }
    set (F := fun pt => set_byR by_ (flatten_rowR m (map simple_feature ms) pt)).
    rewrite (nth_indep _ [] (F [])) by (rewrite map_length; exact Hlt).
    rewrite (map_nth F). unfold F.
    rewrite (mesh_point n) by (try exact HA; try exact Hj; rewrite map_length; exact Hl).
    rewrite flatten_row_unfold. repeat split.
    + rewrite set_by_length, fold_assign_length. apply zeros_length.
    + intros i Hi.
      assert (Hnb : by_ <> Some (simple_feature (nth i ms (SLinear O)))).
      { intros Eb. destruct (Hby _ Eb) as [_ Hn]. apply Hn. apply in_map. apply nth_In. exact Hi. }
      rewrite nth_set_by_neq by exact Hnb.
      replace (simple_feature (nth i ms (SLinear O))) with (nth i (map simple_feature ms) O)
        by (exact (map_nth simple_feature ms (SLinear O) i)).
      rewrite fold_assign_in.
      * rewrite (nth_indep _ 0 ((fun ja => nth (fst ja) (snd ja) 0) (O, axisR lin n (SLinear O))))
          by (rewrite map_length, combine_length, map_length; lia).
        rewrite (map_nth (fun ja : nat * list R => nth (fst ja) (snd ja) 0)). rewrite combine_nth by (rewrite map_length; exact Hl).
        cbn [fst snd]. f_equal. apply map_nth.
      * exact ND.
      * rewrite map_length, combine_length, !map_length. lia.
      * rewrite map_length. exact Hi.
      * rewrite zeros_length. change (nth i (map simple_feature ms) O) with (nth i (map simple_feature ms) (simple_feature (@SLinear R O))).
        rewrite map_nth. rewrite Forall_forall in Hm. apply Hm. apply nth_In. exact Hi.
    + intros j Ej. subst by_. apply nth_set_by_eq. rewrite fold_assign_length, zeros_length. apply (Hby j eq_refl).
    + intros c Hc Hb. rewrite nth_set_by_neq by exact Hb. rewrite fold_assign_notin by exact Hc. apply nth_zeros.
Qed.

(* ---------- at by = 1 a term's columns are those of the same term without its by-variable ---------- *)
Lemma vscale_one (b : list R) : vscaleR 1 b = b.
Proof. unfold vscale. induction b as [|a b IH]; [reflexivity|]. cbn [map]. rewrite IH. f_equal. cbn. lra. Qed.
Theorem block_at_by_one t j row : term_by t = Some j -> nth j row 0 = 1 -> blockR t row = blockR (drop_by t) row.
Proof.
  intros Hb H1. destruct t as [|s|ms by_]; cbn [term_by] in Hb; [discriminate| |].
  - destruct s as [f|f e0 e1 n k p by_|f e0 e1 n d]; cbn [simple_by] in Hb; try discriminate. subst by_.
    cbn [drop_by block]. rewrite by_scales_spline, H1. destruct (block_simpleR (SSpline f e0 e1 n k p None) row); [|reflexivity].
    cbn [option_map]. rewrite vscale_one. reflexivity.
  - subst by_. cbn [drop_by]. rewrite by_scales_tensor, H1. destruct (blockR (CTensor ms None) row); [|reflexivity].
    cbn [option_map]. rewrite vscale_one. reflexivity.
Qed.
Lemma drop_by_none (t : cterm R) : term_by t = None -> drop_by t = t.
Proof. destruct t as [|[f|f e0 e1 n k p by_|f e0 e1 n d]|ms by_]; cbn; intros H; try reflexivity; subst; reflexivity. Qed.
(* partial_dependence(i) without X -- meshgrid False or True -- is, at every grid row, the effect of the term with its
   by-variable removed (i.e. evaluated at by = 1): every term kind *)
Definition effect_without_by ts beta i (row : list R) : option R :=
  option_map (fun b => dotR b (term_coefs ts beta i)) (blockR (drop_by (nth i ts CIntercept)) row).
Lemma pdep_on_by_one_rows ts beta i m (rows : list (list R)) :
  (forall j, term_by (nth i ts CIntercept) = Some j -> (j < m)%nat /\ Forall (fun row => nth j row 0 = 1) rows) ->
  map (pdepR ts beta i) rows = map (effect_without_by ts beta i) rows.
Proof.
  intros H. apply map_ext_in. intros row Hr. unfold pdep, effect_without_by.
  destruct (term_by (nth i ts CIntercept)) as [j|] eqn:Eb.
  - destruct (H j eq_refl) as [_ F]. rewrite Forall_forall in F. rewrite (block_at_by_one _ j row Eb (F row Hr)). reflexivity.
  - rewrite drop_by_none by exact Eb. reflexivity.
Qed.
Theorem default_pdep_is_effect_at_by_one lin m n ts beta i :
  (forall j, term_by (nth i ts CIntercept) = Some j -> (j < m)%nat) ->
  pdep_default Rfops lin m n ts beta i = option_map (map (effect_without_by ts beta i)) (default_gridR lin m n (nth i ts CIntercept)) /\
  pdep_meshgrid Rfops lin m n ts beta i = map (effect_without_by ts beta i) (mesh_gridR lin m n (nth i ts CIntercept)).
Proof.
  intros Hj. split.
  - unfold pdep_default. destruct (default_gridR lin m n (nth i ts CIntercept)) as [g|] eqn:E; [|reflexivity]. cbn [option_map]. f_equal.
    apply (pdep_on_by_one_rows ts beta i m). intros j Eb. split; [apply Hj; exact Eb|]. apply (default_grid_by_one lin m n _ j g Eb (Hj j Eb) E).
  - unfold pdep_meshgrid. apply (pdep_on_by_one_rows ts beta i m). intros j Eb. split; [apply Hj; exact Eb|].
    apply mesh_grid_by_one; [exact Eb|apply Hj; exact Eb].
Qed.

(* ---------- user-supplied meshes (partial_dependence(term, X=<tuple>, meshgrid=True)) ---------- *)
Theorem user_mesh_rows m (t : cterm R) axes :
  length (user_mesh_grid Rfops m t axes) = length (mesh axes) /\
  (forall j, term_by t = Some j -> (j < m)%nat -> Forall (fun row => nth j row 0 = 1) (user_mesh_grid Rfops m t axes)) /\
  (forall c, ~ In c (map simple_feature (term_marginals t)) -> term_by t <> Some c ->
     Forall (fun row => nth c row 0 = 0) (user_mesh_grid Rfops m t axes)) /\
  (NoDup (map simple_feature (term_marginals t)) -> Forall (fun s => (simple_feature s < m)%nat) (term_marginals t) ->
   (forall j, term_by t = Some j -> ~ In j (map simple_feature (term_marginals t))) -> length axes = length (term_marginals t) ->
   forall r i, (r < length (mesh axes))%nat -> (i < length (term_marginals t))%nat ->
     nth (simple_feature (nth i (term_marginals t) (SLinear O))) (nth r (user_mesh_grid Rfops m t axes) []) 0 = nth i (nth r (mesh axes) []) 0).
Proof.
  unfold user_mesh_grid. split; [apply map_length|]. split; [|split].
  - intros j Hb Hj. apply Forall_forall. intros row Hr. apply in_map_iff in Hr. destruct Hr as [pt [E _]]. subst row. rewrite Hb.
    apply nth_set_by_eq. rewrite flatten_row_unfold, fold_assign_length, zeros_length. exact Hj.
  - intros c Hc Hb. apply Forall_forall. intros row Hr. apply in_map_iff in Hr. destruct Hr as [pt [E _]]. subst row.
    rewrite nth_set_by_neq by exact Hb. rewrite flatten_row_unfold, fold_assign_notin by exact Hc. apply nth_zeros.
  - intros ND Hm Hby Hl r i Hr Hi.
    set (F := fun pt => set_byR (term_by t) (flatten_rowR m (map simple_feature (term_marginals t)) pt)).
    rewrite (nth_indep _ [] (F [])) by (rewrite map_length; exact Hr). rewrite (map_nth F). unfold F.
    assert (Hnb : term_by t <> Some (simple_feature (nth i (term_marginals t) (SLinear O)))).
    { intros Eb. apply (Hby _ Eb). apply in_map. apply nth_In. exact Hi. }
    rewrite nth_set_by_neq by exact Hnb. rewrite flatten_row_unfold.
    replace (simple_feature (nth i (term_marginals t) (SLinear O))) with (nth i (map simple_feature (term_marginals t)) O)
      by (exact (map_nth simple_feature (term_marginals t) (SLinear O) i)).
    pose proof (mesh_point_length axes) as PL. rewrite Forall_forall in PL.
    apply fold_assign_in.
    + exact ND.
    + rewrite map_length, <- Hl. apply PL. apply nth_In. exact Hr.
    + rewrite map_length. exact Hi.
    + rewrite zeros_length. change (nth i (map simple_feature (term_marginals t)) O) with (nth i (map simple_feature (term_marginals t)) (simple_feature (@SLinear R O))).
      rewrite map_nth. rewrite Forall_forall in Hm. apply Hm. apply nth_In. exact Hi.
Qed.
