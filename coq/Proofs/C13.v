(* Proofs/C13.v -- per-penalty RSS monotonicity (with other penalised terms present) is FALSE: exact rational witness;
   lam = 0 leaves only the ridge S in the step.  Real instance of the step model (Model/Pirls.v). *)
From Coq Require Import List Reals Lra Lia.
From PG Require Import Base.Ops Base.Vec Model.Pirls Proofs.VecR Proofs.C04 Proofs.C04b Proofs.C01.
Import ListNotations.
Open Scope R_scope.

Definition rss (B : list (list R)) (w z b : list R) : R := dotR (vmul Rfops w (vsubR z (matvecR B b))) (vsubR z (matvecR B b)).
Definition Ptot2 (l1 l2 : R) (P1 P2 : list (list R)) : list (list R) := maddR (mscaleR l1 P1) (mscaleR l2 P2).

(* two coefficients, two observations (B = I), two rank-one penalties P1 = d1 d1', d1 = (2,-1); P2 = d2 d2', d2 = (2,0);
   lam2 = 1 fixed; raising lam1 from 0 to 1 LOWERS the residual sum of squares from 144/25 to 981/196 *)
Theorem rss_monotone_each_refuted :
  exists B w z P1 P2 l2 la lb ba bb,
    la < lb /\ 0 <= la /\
    psd P1 2 /\ psd P2 2 /\
    is_step Rfops 2 B w (Ptot2 la l2 P1 P2) z ba /\
    is_step Rfops 2 B w (Ptot2 lb l2 P1 P2) z bb /\
    rss B w z bb < rss B w z ba.
Proof.
  exists [[1; 0]; [0; 1]], [1; 1], [3; 3], [[4; -2]; [-2; 1]], [[4; 0]; [0; 0]], 1, 0, 1, [3 / 5; 3], [6 / 7; 33 / 14].
  split; [lra|]. split; [lra|].
  split. { intros [|a [|b [|? ?]]] H; try discriminate.
           replace (quadR [[4; -2]; [-2; 1]] [a; b]) with ((2 * a - b) * (2 * a - b)) by (cbn; ring). apply Rle_0_sqr. }
  split. { intros [|a [|b [|? ?]]] H; try discriminate.
           replace (quadR [[4; 0]; [0; 0]] [a; b]) with ((2 * a) * (2 * a)) by (cbn; ring). apply Rle_0_sqr. }
  split. { unfold is_step, neq_lhs, neq_rhs, Bt_mul, Ptot2. cbn.
           match goal with |- [?a; ?b] = [?c; ?d] => replace a with c by field; replace b with d by field; reflexivity end. }
  split. { unfold is_step, neq_lhs, neq_rhs, Bt_mul, Ptot2. cbn.
           match goal with |- [?a; ?b] = [?c; ?d] => replace a with c by field; replace b with d by field; reflexivity end. }
  unfold rss. cbn. lra.
Qed.

(* at lam = 0 the term's penalty vanishes from the normal equations: only the ridge / other terms remain *)
Lemma mscale_zero A v : matvecR (mscaleR 0 A) v = zerosR (length A).
Proof. rewrite matvec_mscale. rewrite <- (matvec_length A v). generalize (matvecR A v). intros u. apply vscale_0. Qed.
Theorem lam0_step m B W2 S P b : square S m -> square P m -> length b = m ->
  neq_lhs Rfops m B W2 (maddR S (mscaleR 0 P)) b = neq_lhs Rfops m B W2 S b.
Proof. intros [LS FS] [LP FP] Lb. unfold neq_lhs. f_equal. change (fr Rfops) with Rrops.
  rewrite (matvec_madd S (mscaleR 0 P) b m); [| assumption | apply (mscale_square 0 P m); split; assumption].
  rewrite mscale_zero. rewrite LP, <- LS, <- (matvec_length S b).
  generalize (matvecR S b). intros u. clear.
  induction u as [|a u IH]; [reflexivity|]. cbn [length]. rewrite zeros_S. cbn [vadd]. rewrite IH. f_equal. cbn. lra. Qed.
