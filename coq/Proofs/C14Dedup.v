(* Proofs/C14Dedup.v -- value equality is decidable by value_eqb; algebra of first-occurrence de-duplication *)
From Coq Require Import List ZArith Ascii String Bool Arith Lia.
From PG Require Import Model.Terms.
Import ListNotations.
Open Scope list_scope.

(* ------------------------------------------------------------------ nested induction for value *)
Section ValueInd.
  Variable P : value -> Prop.
  Hypothesis HNone : P VNone.
  Hypothesis HBool : forall b, P (VBool b).
  Hypothesis HInt : forall z, P (VInt z).
  Hypothesis HFloat : forall m e, P (VFloat m e).
  Hypothesis HStr : forall s, P (VStr s).
  Hypothesis HList : forall l, Forall P l -> P (VList l).
  Fixpoint value_ind' (v : value) : P v :=
    match v with
    | VNone => HNone | VBool b => HBool b | VInt z => HInt z | VFloat m e => HFloat m e | VStr s => HStr s
    | VList l => HList l ((fix go (l : list value) : Forall P l :=
                             match l with [] => Forall_nil P | x :: xs => Forall_cons x (value_ind' x) (go xs) end) l)
    end.
End ValueInd.

Lemma value_eqb_refl : forall a, value_eqb a a = true.
Proof.
  induction a as [| b | z | m e | s | l IH] using value_ind'; simpl; auto.
  - apply Bool.eqb_reflx.
  - apply Z.eqb_refl.
  - now rewrite !Z.eqb_refl.
  - apply String.eqb_refl.
  - induction IH as [| x xs Hx _ IHxs]; auto. now rewrite Hx, IHxs.
Qed.

Lemma value_eqb_eq : forall a b, value_eqb a b = true -> a = b.
Proof.
  induction a as [| b0 | z | m e | s | l IH] using value_ind'; intros b H; destruct b; simpl in H; try discriminate; auto.
  - apply Bool.eqb_prop in H. now subst.
  - apply Z.eqb_eq in H. now subst.
  - apply andb_prop in H. destruct H as [H1 H2]. apply Z.eqb_eq in H1, H2. now subst.
  - apply String.eqb_eq in H. now subst.
  - f_equal. revert l0 H. induction IH as [| x xs Hx _ IHxs]; intros l0 H; destruct l0; try discriminate; auto.
    apply andb_prop in H. destruct H as [H1 H2]. f_equal; [now apply Hx | now apply IHxs].
Qed.

Lemma value_eqb_spec : forall a b, value_eqb a b = true <-> a = b.
Proof. intros a b; split; [apply value_eqb_eq | intros ->; apply value_eqb_refl]. Qed.

(* ------------------------------------------------------------------ de-duplication *)
Section DedupFacts.
  Context {A K : Type} (key : A -> K) (keqb : K -> K -> bool).
  Hypothesis keqb_spec : forall a b, keqb a b = true <-> a = b.

  Lemma mem_In : forall k s, existsb (keqb k) s = true <-> In k s.
  Proof.
    intros k s. rewrite existsb_exists. split.
    - intros [x [Hin Hx]]. apply keqb_spec in Hx. now subst.
    - intros Hin. exists k. split; auto. now apply keqb_spec.
  Qed.

  Lemma mem_ext : forall k s1 s2, (forall k, In k s1 <-> In k s2) -> existsb (keqb k) s1 = existsb (keqb k) s2.
  Proof.
    intros k s1 s2 H. destruct (existsb (keqb k) s1) eqn:E1, (existsb (keqb k) s2) eqn:E2; auto.
    - apply mem_In in E1. apply H in E1. apply mem_In in E1. congruence.
    - apply mem_In in E2. apply H in E2. apply mem_In in E2. congruence.
  Qed.

  Lemma dedup_acc_ext : forall l s1 s2, (forall k, In k s1 <-> In k s2) -> dedup_acc key keqb s1 l = dedup_acc key keqb s2 l.
  Proof.
    induction l as [| x r IH]; intros s1 s2 H; simpl; auto.
    rewrite (mem_ext (key x) s1 s2 H). destruct (existsb (keqb (key x)) s2); [now apply IH |].
    f_equal. apply IH. intros k; simpl. now rewrite H.
  Qed.

  Lemma dedup_acc_app : forall l1 l2 s,
    dedup_acc key keqb s (l1 ++ l2) = dedup_acc key keqb s l1 ++ dedup_acc key keqb (map key l1 ++ s) l2.
  Proof.
    induction l1 as [| x r IH]; intros l2 s; simpl; auto.
    destruct (existsb (keqb (key x)) s) eqn:E.
    - rewrite IH. f_equal. apply dedup_acc_ext. intros k; simpl. apply mem_In in E. rewrite !in_app_iff. split; [tauto |].
      intros [<- | [H | H]]; auto.
    - simpl. f_equal. rewrite IH. f_equal. apply dedup_acc_ext. intros k; simpl. rewrite !in_app_iff; simpl. tauto.
  Qed.

  (* keys kept + keys already seen = keys of the input + keys already seen *)
  Lemma dedup_acc_keys : forall l s k, In k (map key (dedup_acc key keqb s l) ++ s) <-> In k (map key l ++ s).
  Proof.
    induction l as [| x r IH]; intros s k; simpl; [tauto |].
    destruct (existsb (keqb (key x)) s) eqn:E.
    - rewrite IH. apply mem_In in E. rewrite !in_app_iff. split; [tauto |]. intros [<- | H]; auto.
    - simpl. specialize (IH (key x :: s) k). rewrite !in_app_iff in *. simpl in IH. tauto.
  Qed.

  Lemma dedup_acc_absorb : forall l s s', (forall k, In k s' -> In k s) ->
    dedup_acc key keqb s (dedup_acc key keqb s' l) = dedup_acc key keqb s l.
  Proof.
    induction l as [| x r IH]; intros s s' Hsub; simpl; auto.
    destruct (existsb (keqb (key x)) s') eqn:E'.
    - apply mem_In in E'. apply Hsub in E'. apply mem_In in E'. rewrite E'. now apply IH.
    - simpl. destruct (existsb (keqb (key x)) s) eqn:E.
      + apply IH. intros k [<- | H]; [now apply mem_In | now apply Hsub].
      + f_equal. apply IH. intros k [<- | H]; simpl; auto.
  Qed.

  Lemma dedup_idem : forall l, dedup key keqb (dedup key keqb l) = dedup key keqb l.
  Proof. intros l. unfold dedup. now apply dedup_acc_absorb. Qed.

  Lemma dedup_app_l : forall a c, dedup key keqb (dedup key keqb a ++ c) = dedup key keqb (a ++ c).
  Proof.
    intros a c. unfold dedup. rewrite !dedup_acc_app. rewrite (dedup_acc_absorb a [] []) by auto. f_equal.
    apply dedup_acc_ext. intros k. apply (dedup_acc_keys a [] k).
  Qed.

  Lemma dedup_app_r : forall a c, dedup key keqb (a ++ dedup key keqb c) = dedup key keqb (a ++ c).
  Proof.
    intros a c. unfold dedup. rewrite !dedup_acc_app. f_equal. apply dedup_acc_absorb. intros k [].
  Qed.

  Lemma dedup_assoc : forall a b c,
    dedup key keqb (dedup key keqb (a ++ b) ++ c) = dedup key keqb (a ++ dedup key keqb (b ++ c)).
  Proof. intros a b c. now rewrite dedup_app_l, dedup_app_r, app_assoc. Qed.

  (* order preserved, exact duplicates dropped keeping the first: the right-to-left characterisation *)
  Lemma dedup_snoc : forall l x,
    dedup key keqb (l ++ [x]) = if existsb (keqb (key x)) (map key l) then dedup key keqb l else dedup key keqb l ++ [x].
  Proof.
    intros l x. unfold dedup. rewrite dedup_acc_app. simpl. rewrite app_nil_r.
    destruct (existsb (keqb (key x)) (map key l)); [now rewrite app_nil_r | reflexivity].
  Qed.

  Lemma dedup_acc_NoDup : forall l s, NoDup (map key (dedup_acc key keqb s l)) /\
                                      (forall k, In k (map key (dedup_acc key keqb s l)) -> ~ In k s).
  Proof.
    induction l as [| x r IH]; intros s; simpl; [split; [constructor | intros k []] |].
    destruct (existsb (keqb (key x)) s) eqn:E; [apply IH |].
    destruct (IH (key x :: s)) as [H1 H2]. simpl. split.
    - constructor; auto. intros Hin. apply (H2 _ Hin). now left.
    - intros k [<- | Hin].
      + intros Hs. apply mem_In in Hs. congruence.
      + intros Hs. apply (H2 _ Hin). now right.
  Qed.

  Lemma dedup_NoDup : forall l, NoDup (map key (dedup key keqb l)).
  Proof. intros l. apply (dedup_acc_NoDup l []). Qed.

  Lemma dedup_keys : forall l k, In k (map key (dedup key keqb l)) <-> In k (map key l).
  Proof. intros l k. generalize (dedup_acc_keys l [] k). now rewrite !app_nil_r. Qed.

  Lemma dedup_nodup_id : forall l, NoDup (map key l) -> dedup key keqb l = l.
  Proof.
    intros l. unfold dedup. assert (G : forall s, NoDup (map key l) -> (forall k, In k (map key l) -> ~ In k s) ->
                                           dedup_acc key keqb s l = l).
    { induction l as [| x r IH]; intros s Hnd Hs; simpl; auto.
      inversion Hnd as [| ? ? Hx Hr]; subst. destruct (existsb (keqb (key x)) s) eqn:E.
      - apply mem_In in E. exfalso. apply (Hs (key x)); simpl; auto.
      - f_equal. apply IH; auto. intros k Hk [<- | Hks]; [contradiction | apply (Hs k); simpl; auto]. }
    intros Hnd. apply G; auto.
  Qed.
End DedupFacts.

(* ------------------------------------------------------------------ instantiated at term lists *)
Lemma termlist_assoc : forall a b c, termlist (termlist (a ++ b) ++ c) = termlist (a ++ termlist (b ++ c)).
Proof. intros. apply dedup_assoc. apply value_eqb_spec. Qed.

Lemma eval_assoc : forall a b c, eval (EAdd (EAdd a b) c) = eval (EAdd a (EAdd b c)).
Proof. intros. simpl. apply termlist_assoc. Qed.

Lemma termlist_idem : forall l, termlist (termlist l) = termlist l.
Proof. intros. apply dedup_idem. apply value_eqb_spec. Qed.

(* TermList(a, b, c) = a + b + c *)
Lemma eval_list3 : forall a b c, eval (EList [a; b; c]) = eval (EAdd (EAdd a b) c).
Proof.
  intros. simpl. rewrite app_nil_r. unfold termlist. rewrite dedup_app_l by apply value_eqb_spec. now rewrite app_assoc.
Qed.

Lemma termlist_snoc : forall l t,
  termlist (l ++ [t]) = if existsb (value_eqb (info t)) (map info l) then termlist l else termlist l ++ [t].
Proof. intros. apply dedup_snoc. apply value_eqb_spec. Qed.

Lemma termlist_NoDup : forall l, NoDup (map info (termlist l)).
Proof. intros. apply dedup_NoDup. apply value_eqb_spec. Qed.

Lemma termlist_keys : forall l k, In k (map info (termlist l)) <-> In k (map info l).
Proof. intros. apply dedup_keys. apply value_eqb_spec. Qed.

Lemma termlist_nodup_id : forall l, NoDup (map info l) -> termlist l = l.
Proof. intros. apply dedup_nodup_id; auto. apply value_eqb_spec. Qed.
