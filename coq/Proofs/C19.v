(* Proofs/C19.v -- PoissonGAM exposure == rate modelling with exposure weights, about the plumbing GENERATED from the
   source (Gen/Poisson.v) and the scalar core already generated in Gen/Stats.v / Gen/Dists.v. *)
From Coq Require Import Reals Lra ZArith List Bool.
From PG Require Import Base.Ops Gen.Stats Gen.Dists Gen.Poisson.
Import ListNotations.
Open Scope R_scope.

Lemma pois_core_is_stats y e w : Gen_pois_rate y e = Gen_exposure_rate y e /\ Gen_pois_weight w e = Gen_exposure_weight w e.
Proof. split; reflexivity. Qed.

Lemma pair_eq (a b c d : R) : a = c -> b = d -> (a, b) = (c, d). Proof. intros -> ->. reflexivity. Qed.

Theorem fit_equiv y e w :
  Gen_pois_fit_data y (Some e) (Some w) = (y / e, w * e) /\ Gen_pois_fit_data y (Some e) None = (y / e, e).
Proof. unfold Gen_pois_fit_data, Gen_pois_e2w, Gen_pois_rate, Gen_pois_weight, Gen_pois_default_weight. split; apply pair_eq; try reflexivity; ring. Qed.

Theorem default_exposure_one y (ow : option R) w :
  Gen_pois_fit_data y None ow = Gen_pois_fit_data y (Some 1) ow /\
  Gen_pois_fit_data y None (Some w) = (y, w) /\ Gen_pois_fit_data y None None = (y, 1).
Proof. unfold Gen_pois_fit_data, Gen_pois_e2w, Gen_pois_rate, Gen_pois_weight, Gen_pois_default_weight, Gen_pois_default_exposure.
  split; [reflexivity|]. split; apply pair_eq; try (unfold Rdiv; rewrite Rinv_1); ring. Qed.

Theorem predict_scales mu e : Gen_pois_predict mu (Some e) = e * mu /\ Gen_pois_predict mu None = mu.
Proof. unfold Gen_pois_predict. split; ring. Qed.

(* gridsearch: every candidate is fitted on exactly the data a direct fit uses *)
Theorem gridsearch_equiv y e w : Gen_pois_gridsearch_data y e w = Gen_pois_fit_data y e w.
Proof. unfold Gen_pois_gridsearch_data, Gen_pois_candidate_weights_land_in_exposure, Gen_pois_fit_data, Gen_pois_e2w, Gen_pois_rate,
    Gen_pois_weight, Gen_pois_default_exposure, Gen_pois_default_weight. cbn [fst snd].
  apply pair_eq; [unfold Rdiv; rewrite Rinv_1; ring|ring]. Qed.
(* what routing the converted weights into the `exposure` parameter (a positional third argument) does instead:
   the rate is divided by weight * exposure a second time *)
Lemma positional_routing_divides_twice y e w :
  let rw := Gen_pois_e2w y (Some e) (Some w) in
  Gen_pois_fit_data (fst rw) (Some (snd rw)) None = (y / e / (w * e), 1 * (w * e)).
Proof. reflexivity. Qed.
Lemma positional_routing_differs :
  let rw := Gen_pois_e2w 4 (Some 2) (Some 1) in
  fst (Gen_pois_fit_data (fst rw) (Some (snd rw)) None) = 1 /\ fst (Gen_pois_fit_data 4 (Some 2) (Some 1)) = 2.
Proof. cbn. unfold Gen_pois_rate, Gen_pois_weight. split; field. Qed.

(* ---------- np.round: round half to even; rounding an integer is the identity ---------- *)
Definition rfloor (x : R) : Z := (up x - 1)%Z.
Definition rint (x : R) : R :=
  let f := rfloor x in let d := x - IZR f in
  if Rlt_dec d (1/2) then IZR f else if Rlt_dec (1/2) d then IZR (f + 1) else if Z.even f then IZR f else IZR (f + 1).
Lemma rfloor_IZR z : rfloor (IZR z) = z.
Proof. unfold rfloor. rewrite <- (tech_up (IZR z) (z + 1)); [ring| |]; rewrite plus_IZR; lra. Qed.
Lemma rint_IZR z : rint (IZR z) = IZR z.
Proof. unfold rint. rewrite rfloor_IZR. destruct (Rlt_dec (IZR z - IZR z) (1/2)); [reflexivity|]. exfalso. lra. Qed.
Lemma rate_times_exposure y e : e <> 0 -> (y / e) * e = y. Proof. intros. field. assumption. Qed.

(* one row of the log-likelihood: with unit sample weight the count handed to the pmf is the observed count and the mean is
   rate * exposure *)
Theorem loglik_term (rnd : R -> R) (logpmf : R -> R -> R) mu k e :
  (forall z, rnd (IZR z) = IZR z) -> e <> 0 ->
  Gen_pois_ll_term rnd logpmf mu (IZR k) (Some e) None = logpmf (IZR k) (mu * e) /\
  Gen_pois_ll_term rnd logpmf mu (IZR k) None None = logpmf (IZR k) mu.
Proof. intros Hr He. unfold Gen_pois_ll_term, Gen_pois_e2w, Gen_pois_ll_count, Gen_pois_ll_mean, Gen_pois_rate, Gen_pois_weight,
    Gen_pois_default_weight, Gen_pois_default_exposure. cbn [fst snd]. split.
  - replace (IZR k / e * (1 * e)) with (IZR k) by (field; assumption). rewrite Hr. f_equal. ring.
  - replace (IZR k / 1 * (1 * 1)) with (IZR k) by field. rewrite Hr. f_equal. ring. Qed.
(* with sample weights w the code treats them as a further exposure multiplier: count round(k w), mean mu w e *)
Lemma loglik_term_weighted (rnd : R -> R) (logpmf : R -> R -> R) mu k e w : e <> 0 ->
  Gen_pois_ll_term rnd logpmf mu (IZR k) (Some e) (Some w) = logpmf (rnd (IZR k * w)) (mu * (w * e)).
Proof. intros He. unfold Gen_pois_ll_term, Gen_pois_e2w, Gen_pois_ll_count, Gen_pois_ll_mean, Gen_pois_rate, Gen_pois_weight. cbn [fst snd].
  replace (IZR k / e * (w * e)) with (IZR k * w) by (field; assumption). reflexivity. Qed.

(* the whole sum, rows = (fitted rate mu_i, count k_i, exposure e_i) *)
Fixpoint pois_ll (rnd : R -> R) (logpmf : R -> R -> R) (rows : list (R * Z * R)) : R :=
  match rows with [] => 0 | t :: rows' => Gen_pois_ll_term rnd logpmf (fst (fst t)) (IZR (snd (fst t))) (Some (snd t)) None + pois_ll rnd logpmf rows' end.
Fixpoint pois_ll_spec (logpmf : R -> R -> R) (rows : list (R * Z * R)) : R :=
  match rows with [] => 0 | t :: rows' => logpmf (IZR (snd (fst t))) (fst (fst t) * snd t) + pois_ll_spec logpmf rows' end.
Theorem loglik_sum rnd logpmf rows : (forall z, rnd (IZR z) = IZR z) -> Forall (fun t => snd t <> 0) rows ->
  pois_ll rnd logpmf rows = pois_ll_spec logpmf rows.
Proof. intros Hr. induction 1 as [|t rows He _ IH]; [reflexivity|]. cbn [pois_ll pois_ll_spec]. rewrite IH. f_equal.
  apply (loglik_term rnd logpmf); assumption. Qed.
(* the per-row density of the code is the generated PoissonDist.log_pdf = scipy's poisson.logpmf at mean mu * weight *)
Lemma log_pdf_is_kernel scale levels w y mu : Gen_PoissonDist_log_pdf scale levels w y mu = Spec_poisson_logpmf_kernel y (Gen_pois_ll_mean mu w).
Proof. reflexivity. Qed.

Example loglik_example : pois_ll rint Spec_poisson_logpmf_kernel [(3, 4%Z, 2); (1/2, 0%Z, 5/2)] =
  Spec_poisson_logpmf_kernel 4 (3 * 2) + (Spec_poisson_logpmf_kernel 0 (1/2 * (5/2)) + 0).
Proof. rewrite loglik_sum; [reflexivity|apply rint_IZR|]. repeat constructor; cbn; lra. Qed.

(* helpers for the interval-certified correspondence cases *)
Lemma xlny_0 y : xlny 0 y = 0. Proof. unfold xlny. destruct (Req_EM_T 0 0); [reflexivity|contradiction]. Qed.
Lemma xlny_nz x y : x <> 0 -> xlny x y = x * ln y. Proof. intros H. unfold xlny. destruct (Req_EM_T x 0); [contradiction|reflexivity]. Qed.

(* ---- the conversion keeps the weighted count: rate x weight = count x sample weight, whatever the (non-zero) exposure;
   so the exposure only moves mass between "rate" and "weight" and rescaling every exposure by c rescales rates by 1/c and weights by c *)
Lemma rate_times_weight_is_count y e w : e <> 0 ->
  fst (Gen_pois_fit_data y (Some e) (Some w)) * snd (Gen_pois_fit_data y (Some e) (Some w)) = y * w /\
  fst (Gen_pois_fit_data y (Some e) None) * snd (Gen_pois_fit_data y (Some e) None) = y.
Proof. intro He. destruct (fit_equiv y e w) as [H1 H2]. rewrite H1, H2. cbn [fst snd]. split; field; exact He. Qed.
Lemma exposure_units y e w c : e <> 0 -> c <> 0 ->
  Gen_pois_fit_data y (Some (c * e)) (Some w) =
    (fst (Gen_pois_fit_data y (Some e) (Some w)) / c, c * snd (Gen_pois_fit_data y (Some e) (Some w))).
Proof. intros He Hc. destruct (fit_equiv y (c * e) w) as [H1 _]. destruct (fit_equiv y e w) as [H2 _].
  rewrite H1, H2. cbn [fst snd]. f_equal; field; split; assumption. Qed.
