(* Proofs/C18Float.v -- the same loop over binary64 (PrimFloat primitives evaluated by the kernel's vm): the invariant
   "expectile strictly inside (0,1)" FAILS in floating point.  Only PrimFloat / Uint63-level modules are used (no
   Floats.FloatAxioms): every fact here is a closed computation. *)
From Coq Require Import ZArith Bool List PrimFloat.
From PG Require Import Gen.FitQuantile Model.FitQuantile.

(* witness: a quantile the fit can never reach from below (observed ratio stays 0, e.g. because the data set is tiny),
   tol below the resolution of the ratio, budget 100 *)
Definition w_ratio : nat -> float := fun _ => 0%float.
Definition w_quantile : float := 0x1.ff7ced916872bp-1%float.   (* 0.999 *)
Definition w_tol : float := 0x1.12e0be826d695p-30%float.       (* 1e-9 *)
Definition w_e0 : float := 0.5%float.
Definition w_max_iter : Z := 100%Z.
Definition w_run (fuel : nat) : fqstf := fqf_loop fuel w_quantile w_tol w_max_iter w_ratio (fqf_init w_e0).

Lemma float_witness_ok : f_inside w_e0 = true /\ Gen_fq_bad_quantile_f w_quantile = false /\ Gen_fq_bad_tol_f w_tol = false /\
  Gen_fq_bad_max_iter w_max_iter = false.
Proof. vm_compute. repeat split. Qed.

(* 52 refits keep the expectile inside (it is 1 - 2^-53, the largest double below 1) ... *)
Lemma float_52_inside : let s := w_run 52 in f_refits s = 52%nat /\ f_raised s = false /\ f_inside (f_e s) = true /\
  PrimFloat.eqb (f_e s) 0x1.fffffffffffffp-1%float = true.
Proof. vm_compute. repeat split. Qed.
(* ... the 53rd midpoint (1 + (1 - 2^-53)) / 2 rounds to exactly 1.0: set_params stores it and the refit's
   _validate_params raises ValueError; the loop is left by the exception with 48 iterations of budget unused *)
Lemma float_53_saturates : let s := w_run (Z.to_nat w_max_iter) in
  f_raised s = true /\ f_broke s = false /\ f_refits s = 52%nat /\ f_n s = 52%Z /\
  PrimFloat.eqb (f_e s) 1%float = true /\ PrimFloat.eqb (f_e s) (f_max s) = true /\ f_inside (f_e s) = false /\
  Gen_expectile_out_of_range_f (f_e s) = true /\ length (f_trace s) = 53%nat.
Proof. vm_compute. repeat split. Qed.

Theorem bisect_float_refuted :
  exists (ratio : nat -> float) (quantile tol e0 : float) (max_iter : Z),
    f_inside e0 = true /\ Gen_fq_bad_quantile_f quantile = false /\ Gen_fq_bad_tol_f tol = false /\ Gen_fq_bad_max_iter max_iter = false /\
    let s := fqf_loop (Z.to_nat max_iter) quantile tol max_iter ratio (fqf_init e0) in
    f_inside (f_e s) = false /\ PrimFloat.eqb (f_e s) 1%float = true /\ f_raised s = true /\ f_refits s = 52%nat /\ (f_n s < max_iter)%Z.
Proof. exists w_ratio, w_quantile, w_tol, w_e0, w_max_iter. vm_compute. repeat split. Qed.

Corollary bisect_float_not_invariant :
  ~ (forall ratio quantile tol e0 max_iter fuel, f_inside e0 = true -> Gen_fq_bad_quantile_f quantile = false -> Gen_fq_bad_tol_f tol = false ->
       Gen_fq_bad_max_iter max_iter = false -> f_inside (f_e (fqf_loop fuel quantile tol max_iter ratio (fqf_init e0))) = true).
Proof. intros H.
  assert (E : f_inside (f_e (fqf_loop 100 w_quantile w_tol w_max_iter w_ratio (fqf_init w_e0))) = false) by (vm_compute; reflexivity).
  assert (T : f_inside (f_e (fqf_loop 100 w_quantile w_tol w_max_iter w_ratio (fqf_init w_e0))) = true).
  { apply H; vm_compute; reflexivity. }
  rewrite E in T. discriminate T. Qed.
