(* Proofs/C18Float.v -- the same loop over binary64 (PrimFloat primitives evaluated by the kernel's vm), bit-exact with
   CPython.  Only PrimFloat / Uint63-level modules are used (no Floats.FloatAxioms): every fact here is a closed computation.
   Former S11 witness: before the repair (no stall exit) the 53rd upward midpoint from 0.5 rounded to exactly 1.0 and the
   refit raised ValueError; with the stall exit the loop stops there, the expectile stays 1 - 2^-53. *)
From Coq Require Import ZArith Bool List PrimFloat.
From PG Require Import Gen.FitQuantile Model.FitQuantile.

(* a quantile the fit can never reach from below (observed ratio stays 0, e.g. because the data set is tiny),
   tol below the resolution of the ratio, budget 100 *)
Definition w_ratio : nat -> float := fun _ => 0%float.
Definition w_quantile : float := 0x1.ff7ced916872bp-1%float.   (* 0.999 *)
Definition w_tol : float := 0x1.12e0be826d695p-30%float.       (* 1e-9 *)
Definition w_e0 : float := 0.5%float.
Definition w_max_iter : Z := 100%Z.
Definition w_run (fuel : nat) : fqstf := fqf_loop fuel w_quantile w_tol w_max_iter w_ratio (fqf_init w_e0).

Lemma float_witness_ok : f_inside w_e0 = true /\ Gen_fq_bad_quantile_f w_quantile = false /\ Gen_fq_bad_tol_f w_tol = false /\
  Gen_fq_bad_max_iter w_max_iter = false.
Proof. vm_compute. repeat split. Qed.

(* upward chain: 52 refits reach 1 - 2^-53 (the largest double below 1); the 53rd midpoint (1 + (1 - 2^-53)) / 2 rounds to
   exactly 1.0 = max_: the stall test fires, nothing is stored or fitted, no ValueError, expectile strictly inside (0,1) *)
Theorem float_upward_chain_stops : let s := w_run (Z.to_nat w_max_iter) in
  f_stalled s = true /\ f_raised s = false /\ f_broke s = false /\ f_refits s = 52%nat /\ f_n s = 52%Z /\
  PrimFloat.eqb (f_e s) 0x1.fffffffffffffp-1%float = true /\ f_inside (f_e s) = true /\
  PrimFloat.eqb (Gen_fq_new_expectile_f (f_min s) (f_max s)) 1%float = true /\ PrimFloat.eqb (f_max s) 1%float = true /\
  forallb f_inside (f_trace s) = true /\ length (f_trace s) = 52%nat.
Proof. vm_compute. repeat split. Qed.

(* downward chain: quantile 0.001, ratio stuck at 1, budget 2000: 1073 refits reach 2^-1074 (the smallest positive double);
   the next midpoint (2^-1074 + 0) / 2 rounds to 0.0 = min_: stall exit, expectile strictly inside (0,1) *)
Definition d_run : fqstf := fqf_loop 2000 0x1.0624dd2f1a9fcp-10%float w_tol 2000%Z (fun _ => 1%float) (fqf_init w_e0).
Theorem float_downward_chain_stops :
  f_stalled d_run = true /\ f_raised d_run = false /\ f_refits d_run = 1073%nat /\
  PrimFloat.eqb (f_e d_run) 0x0.0000000000001p-1022%float = true /\ f_inside (f_e d_run) = true /\
  PrimFloat.eqb (Gen_fq_new_expectile_f (f_min d_run) (f_max d_run)) 0%float = true /\
  forallb f_inside (f_trace d_run) = true.
Proof. vm_compute. repeat split. Qed.

(* what the stall test is for: without it (the pre-repair loop) the same upward chain stores exactly 1.0 *)
Fixpoint up_chain (n : nat) (e : float) : float :=
  match n with O => e | S k => up_chain k (Gen_fq_new_expectile_f e 1%float) end.
Lemma float_unguarded_midpoint_reaches_one :
  f_inside (up_chain 52 0.5%float) = true /\ PrimFloat.eqb (up_chain 53 0.5%float) 1%float = true /\
  Gen_expectile_out_of_range_f (up_chain 53 0.5%float) = true.
Proof. vm_compute. repeat split. Qed.
