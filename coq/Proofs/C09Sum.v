(* Proofs/C09Sum.v -- finite sums over lists (lsum), entries of blocks, and: a quadratic form of scale * B B^T is >= 0 *)
From Coq Require Import Reals Lra List Lia.
From PG Require Import Model.Intervals.
Import ListNotations.
Open Scope R_scope.

Lemma lsum_ext_in {A} (f g : A -> R) l : (forall x, In x l -> f x = g x) -> lsum f l = lsum g l.
Proof. induction l as [|a l IH]; intros H; cbn; [reflexivity|]. rewrite H by (left; reflexivity). rewrite IH; [reflexivity|].
  intros x Hx. apply H. right. exact Hx. Qed.
Lemma lsum_ext {A} (f g : A -> R) l : (forall x, f x = g x) -> lsum f l = lsum g l.
Proof. intros H. apply lsum_ext_in. intros x _. apply H. Qed.
Lemma lsum_zero {A} (l : list A) : lsum (fun _ => 0) l = 0.
Proof. induction l; cbn; lra. Qed.
Lemma lsum_plus {A} (f g : A -> R) l : lsum (fun x => f x + g x) l = lsum f l + lsum g l.
Proof. induction l as [|a l IH]; cbn; [lra|]. rewrite IH. lra. Qed.
Lemma lsum_scal {A} c (f : A -> R) l : lsum (fun x => c * f x) l = c * lsum f l.
Proof. induction l as [|a l IH]; cbn; [lra|]. rewrite IH. lra. Qed.
Lemma lsum_swap {A B} (f : A -> B -> R) l1 l2 :
  lsum (fun x => lsum (fun y => f x y) l2) l1 = lsum (fun y => lsum (fun x => f x y) l1) l2.
Proof. induction l1 as [|a l1 IH]; cbn.
  - symmetry. apply lsum_zero.
  - rewrite IH. symmetry. apply lsum_plus. Qed.
Lemma lsum_sq_nonneg {A} (f : A -> R) l : 0 <= lsum (fun x => f x * f x) l.
Proof. induction l as [|a l IH]; cbn; [lra|]. pose proof (Rle_0_sqr (f a)) as H. unfold Rsqr in H. lra. Qed.

(* sum_j (sum_i r_i (s sum_k b_ik b_jk)) r_j  =  s sum_k (sum_i r_i b_ik)^2 *)
Lemma quad_gram_form (s : R) (b : nat -> nat -> R) (r : nat -> R) (I K : list nat) :
  lsum (fun j => lsum (fun i => r i * (s * lsum (fun k => b i k * b j k) K)) I * r j) I
  = s * lsum (fun k => lsum (fun i => r i * b i k) I * lsum (fun i => r i * b i k) I) K.
Proof.
  transitivity (lsum (fun j => lsum (fun k => s * (lsum (fun i => r i * b i k) I * (r j * b j k))) K) I).
  - apply lsum_ext; intro j.
    transitivity (lsum (fun i => lsum (fun k => r j * (s * (r i * b i k * b j k))) K) I).
    + rewrite Rmult_comm, <- lsum_scal. apply lsum_ext; intro i. symmetry.
      rewrite (lsum_scal (r j) (fun k => s * (r i * b i k * b j k)) K).
      rewrite (lsum_scal s (fun k => r i * b i k * b j k) K).
      rewrite (lsum_ext (fun k => r i * b i k * b j k) (fun k => r i * (b i k * b j k)) K) by (intro; ring).
      rewrite (lsum_scal (r i) (fun k => b i k * b j k) K). ring.
    + rewrite lsum_swap. apply lsum_ext; intro k.
      rewrite (lsum_ext _ (fun i => (r j * s * b j k) * (r i * b i k))) by (intro; ring).
      rewrite (lsum_scal (r j * s * b j k) (fun i => r i * b i k) I). ring.
  - rewrite lsum_swap. rewrite <- lsum_scal. apply lsum_ext; intro k.
    rewrite (lsum_ext _ (fun j => (s * lsum (fun i => r i * b i k) I) * (r j * b j k))) by (intro; ring).
    rewrite lsum_scal. ring.
Qed.

(* entries of a block *)
Lemma entry_block idxs M a b : (a < length idxs)%nat -> (b < length idxs)%nat ->
  entry (block idxs M) a b = entry M (nth a idxs 0%nat) (nth b idxs 0%nat).
Proof. intros Ha Hb. unfold block. unfold entry at 1.
  set (f := fun i : nat => map (fun j : nat => entry M i j) idxs).
  rewrite (nth_indep (map f idxs) [] (f 0%nat)) by (rewrite map_length; exact Ha).
  rewrite map_nth. unfold f.
  set (g := fun j : nat => entry M (nth a idxs 0%nat) j).
  rewrite (nth_indep (map g idxs) 0 (g 0%nat)) by (rewrite map_length; exact Hb).
  rewrite map_nth. reflexivity. Qed.

Lemma block_ext idxs M M' :
  (forall i j, In i idxs -> In j idxs -> entry M i j = entry M' i j) -> block idxs M = block idxs M'.
Proof. intros H. unfold block. apply map_ext_in. intros i Hi. apply map_ext_in. intros j Hj. apply H; assumption. Qed.

Lemma select_ext idxs v v' : (forall i, In i idxs -> nth i v 0 = nth i v' 0) -> select idxs v = select idxs v'.
Proof. intros H. unfold select. apply map_ext_in. exact H. Qed.

Lemma select_all v : select (seq 0 (length v)) v = v.
Proof. unfold select. apply (nth_ext _ _ 0 0).
  - rewrite map_length, seq_length. reflexivity.
  - intros n Hn. rewrite map_length, seq_length in Hn.
    rewrite (nth_indep _ 0 ((fun i => nth i v 0) 0%nat)) by (rewrite map_length, seq_length; exact Hn).
    rewrite (map_nth (fun i => nth i v 0)). rewrite seq_nth by exact Hn. reflexivity. Qed.

Lemma select_length idxs v : length (select idxs v) = length idxs.
Proof. unfold select. apply map_length. Qed.

(* cov = s * B B^T entrywise (B given by rows, p columns), s >= 0: every quadratic form of every block is >= 0 *)
Lemma rowquad_gram_nonneg (s : R) (B : list (list R)) (p : nat) (cov : list (list R)) (idxs : list nat) (r : list R) :
  0 <= s -> length r = length idxs ->
  (forall i j, entry cov i j = s * lsum (fun k => entry B i k * entry B j k) (seq 0 p)) ->
  0 <= rowquad r (block idxs cov).
Proof. intros Hs Hlen Hcov. unfold rowquad.
  set (I := seq 0 (length r)).
  set (rf := fun i => nth i r 0). set (bf := fun i k => entry B (nth i idxs 0%nat) k).
  assert (E : lsum (fun j => lsum (fun i => nth i r 0 * entry (block idxs cov) i j) I * nth j r 0) I
              = lsum (fun j => lsum (fun i => rf i * (s * lsum (fun k => bf i k * bf j k) (seq 0 p))) I * rf j) I).
  { apply lsum_ext_in; intros j Hj. f_equal. apply lsum_ext_in; intros i Hi. unfold rf. f_equal.
    unfold I in Hi, Hj. apply in_seq in Hi. apply in_seq in Hj.
    rewrite entry_block by lia. rewrite Hcov. reflexivity. }
  rewrite E, quad_gram_form. apply Rmult_le_pos; [exact Hs|]. apply lsum_sq_nonneg. Qed.
