(* Proofs/C18Bisect.v -- invariants of the fit_quantile bisection (GENERATED loop pieces), for every oracle
   `ratio : nat -> R` (what the refits do to the empirical quantile is not assumed).
   Section Rounded: every arithmetic result passes through `rnd`, about which only the IEEE-style contract is assumed
   (monotone, identity on the format, lands in the format, format closed under doubling, 0 and 1 in the format).
   Exact real arithmetic is the instance rnd = identity (Section closed: `rid`), where the stall exit is never taken. *)
From Coq Require Import Reals ZArith Bool List Lra Lia.
From PG Require Import Base.Ops Gen.FitQuantile Model.FitQuantile.
Open Scope R_scope.

Lemma fq_Reqb_true a b : fq_Reqb a b = true <-> a = b.
Proof. unfold fq_Reqb. destruct (Req_EM_T a b); split; auto; discriminate. Qed.
Lemma fq_Reqb_false a b : fq_Reqb a b = false <-> a <> b.
Proof. unfold fq_Reqb. destruct (Req_EM_T a b); split; auto; try discriminate. intros; contradiction. Qed.
Lemma stall_true e mn mx : Gen_fq_stall e mn mx = true <-> (e = mn \/ e = mx).
Proof. unfold Gen_fq_stall. rewrite orb_true_iff, !fq_Reqb_true. tauto. Qed.
Lemma stall_false e mn mx : Gen_fq_stall e mn mx = false <-> (e <> mn /\ e <> mx).
Proof. unfold Gen_fq_stall. rewrite orb_false_iff, !fq_Reqb_false. tauto. Qed.

Lemma fq_loop_preserves rnd (P : fqst -> Prop) quantile tol max_iter ratio :
  (forall s, P s -> fq_running max_iter s = true -> P (fq_body rnd quantile tol (ratio (q_refits s)) s)) ->
  forall fuel s, P s -> P (fq_loop rnd fuel quantile tol max_iter ratio s).
Proof. intros Hstep. induction fuel as [|f IH]; intros s Hs; cbn [fq_loop]; [exact Hs|].
  destruct (fq_running max_iter s) eqn:E; [|exact Hs]. apply IH. apply Hstep; assumption. Qed.

Lemma running_flags max_iter s : fq_running max_iter s = true ->
  q_broke s = false /\ q_stalled s = false /\ Gen_fq_guard (q_n s) max_iter = true.
Proof. unfold fq_running. intros H. apply andb_true_iff in H as [H Hg]. apply andb_true_iff in H as [Hb Hs].
  apply negb_true_iff in Hb. apply negb_true_iff in Hs. auto. Qed.

Section Rounded.
Variable rnd : R -> R.
Variable fmt : R -> Prop.
Hypothesis rnd_le : forall x y, x <= y -> rnd x <= rnd y.
Hypothesis rnd_fmt : forall x, fmt x -> rnd x = x.
Hypothesis fmt_rnd : forall x, fmt (rnd x).
Hypothesis fmt_double : forall x, fmt x -> fmt (2 * x).
Hypothesis fmt_0 : fmt 0.
Hypothesis fmt_1 : fmt 1.

(* the (rounded) midpoint of a bracket with representable ends never leaves the bracket ... *)
Lemma midpoint_in_bracket mn mx : fmt mn -> fmt mx -> mn <= mx ->
  mn <= Gen_fq_new_expectile rnd mn mx <= mx.
Proof. intros Fn Fx Hle. unfold Gen_fq_new_expectile.
  assert (L : 2 * mn <= rnd (mx + mn)). { rewrite <- (rnd_fmt (2 * mn)) by (apply fmt_double; exact Fn). apply rnd_le. lra. }
  assert (U : rnd (mx + mn) <= 2 * mx). { rewrite <- (rnd_fmt (2 * mx)) by (apply fmt_double; exact Fx). apply rnd_le. lra. }
  split.
  - rewrite <- (rnd_fmt mn Fn) at 1. apply rnd_le. lra.
  - rewrite <- (rnd_fmt mx Fx) at 2. apply rnd_le. lra. Qed.
(* ... so it is an end of the bracket (the stall exit) or strictly inside it *)
Lemma midpoint_trichotomy mn mx : fmt mn -> fmt mx -> mn <= mx ->
  let e' := Gen_fq_new_expectile rnd mn mx in (e' = mn \/ e' = mx) \/ (mn < e' < mx).
Proof. intros Fn Fx Hle e'. destruct (midpoint_in_bracket mn mx Fn Fx Hle) as [A B]. fold e' in A, B.
  destruct (Req_dec e' mn) as [E1|N1]; [left; left; exact E1|]. destruct (Req_dec e' mx) as [E2|N2]; [left; right; exact E2|].
  right. lra. Qed.

Definition fq_invf (s : fqst) : Prop := fq_inv s /\ fmt (q_min s) /\ fmt (q_max s) /\ fmt (q_e s).

Lemma fq_init_inv e0 : 0 < e0 < 1 -> fmt e0 -> fq_invf (fq_init e0).
Proof. unfold fq_invf, fq_inv, fq_init, Gen_fq_init_min, Gen_fq_init_max. cbn. intros. repeat split; try lra; assumption. Qed.

Lemma bracket_cases r quantile mn mx e :
  Gen_fq_bracket r quantile mn mx e = (if Rltb r quantile then (e, mx) else (mn, e)).
Proof. reflexivity. Qed.

Lemma fq_body_inv quantile tol r max_iter s : fq_invf s -> fq_running max_iter s = true -> fq_invf (fq_body rnd quantile tol r s).
Proof. intros [(H0 & H1 & He & Hin) (Fn & Fx & Fe)] Hrun. destruct (running_flags _ _ Hrun) as (_ & Hst & _).
  destruct (Hin Hst) as [Hlo Hhi]. unfold fq_body.
  destruct (Gen_fq_within_tol rnd r quantile tol).
  { unfold fq_invf, fq_inv. cbn [q_min q_max q_e q_stalled]. repeat split; try assumption; lra. }
  rewrite bracket_cases. destruct (Rltb r quantile); cbn [fst snd].
  - destruct (midpoint_trichotomy (q_e s) (q_max s) Fe Fx ltac:(lra)) as [St|In].
    + rewrite (proj2 (stall_true _ _ _) St). unfold fq_invf, fq_inv. cbn [q_min q_max q_e q_stalled].
      repeat split; try assumption; try lra; discriminate.
    + assert (Sf : Gen_fq_stall (Gen_fq_new_expectile rnd (q_e s) (q_max s)) (q_e s) (q_max s) = false) by (apply stall_false; lra).
      rewrite Sf. unfold fq_invf, fq_inv. cbn [q_min q_max q_e q_stalled].
      repeat split; try assumption; try lra. unfold Gen_fq_new_expectile. apply fmt_rnd.
  - destruct (midpoint_trichotomy (q_min s) (q_e s) Fn Fe ltac:(lra)) as [St|In].
    + rewrite (proj2 (stall_true _ _ _) St). unfold fq_invf, fq_inv. cbn [q_min q_max q_e q_stalled].
      repeat split; try assumption; try lra; discriminate.
    + assert (Sf : Gen_fq_stall (Gen_fq_new_expectile rnd (q_min s) (q_e s)) (q_min s) (q_e s) = false) by (apply stall_false; lra).
      rewrite Sf. unfold fq_invf, fq_inv. cbn [q_min q_max q_e q_stalled].
      repeat split; try assumption; try lra. unfold Gen_fq_new_expectile. apply fmt_rnd. Qed.

Theorem fq_loop_inv quantile tol max_iter ratio e0 fuel : 0 < e0 < 1 -> fmt e0 ->
  fq_invf (fq_loop rnd fuel quantile tol max_iter ratio (fq_init e0)).
Proof. intros He Fe. apply fq_loop_preserves; [|apply fq_init_inv; assumption]. intros s Hs Hr. eapply fq_body_inv; eassumption. Qed.

Lemma fq_inv_in_range s : fq_inv s -> Gen_expectile_out_of_range (q_e s) = false.
Proof. unfold fq_inv, Gen_expectile_out_of_range. intros (H0 & H1 & H2 & H3).
  apply orb_false_iff; split; apply Rleb_false; lra. Qed.

(* one pass that neither breaks nor stalls moves the expectile strictly toward the side indicated by ratio - quantile, inside the old
   bracket, and strictly shrinks the bracket; a stalled pass leaves expectile and counters untouched *)
Lemma fq_body_direction quantile tol r max_iter s : fq_invf s -> fq_running max_iter s = true ->
  Gen_fq_within_tol rnd r quantile tol = false ->
  let s' := fq_body rnd quantile tol r s in
  (q_stalled s' = true -> q_e s' = q_e s /\ q_refits s' = q_refits s /\ q_n s' = q_n s /\
       Gen_fq_stall (Gen_fq_new_expectile rnd (q_min s') (q_max s')) (q_min s') (q_max s') = true) /\
  (q_stalled s' = false ->
     (r < quantile -> q_e s < q_e s' /\ q_e s' < q_max s /\ q_min s' = q_e s /\ q_max s' = q_max s) /\
     (quantile <= r -> q_e s' < q_e s /\ q_min s < q_e s' /\ q_max s' = q_e s /\ q_min s' = q_min s) /\
     q_max s' - q_min s' < q_max s - q_min s /\ q_e s' = Gen_fq_new_expectile rnd (q_min s') (q_max s') /\
     q_refits s' = S (q_refits s)) /\
  (0 < tol -> r <> quantile).
Proof. intros [(H0 & H1 & He & Hin) (Fn & Fx & Fe)] Hrun Hw. destruct (running_flags _ _ Hrun) as (_ & Hst & _).
  destruct (Hin Hst) as [Hlo Hhi]. unfold fq_body. rewrite Hw. rewrite bracket_cases.
  split; [|split].
  - destruct (Rltb r quantile); cbn [fst snd];
      match goal with |- context [Gen_fq_stall ?e ?a ?b] => destruct (Gen_fq_stall e a b) eqn:St end;
      cbn [q_stalled q_e q_refits q_n q_min q_max]; intros Hs; try discriminate; repeat split; try reflexivity; exact St.
  - destruct (Rltb r quantile) eqn:Hb; cbn [fst snd];
      match goal with |- context [Gen_fq_stall ?e ?a ?b] => destruct (Gen_fq_stall e a b) eqn:St end;
      cbn [q_stalled q_e q_refits q_n q_min q_max]; intros Hs; try discriminate.
    + apply stall_false in St. destruct (midpoint_in_bracket (q_e s) (q_max s) Fe Fx ltac:(lra)) as [A B].
      apply Rltb_true in Hb. repeat split; try reflexivity; try lra.
    + apply stall_false in St. destruct (midpoint_in_bracket (q_min s) (q_e s) Fn Fe ltac:(lra)) as [A B].
      apply Rltb_false in Hb. repeat split; try reflexivity; try lra.
  - intros Ht E. subst r. unfold Gen_fq_within_tol in Hw. apply Rleb_false in Hw.
    replace (quantile - quantile) with 0 in Hw by ring. rewrite (rnd_fmt 0 fmt_0), Rabs_R0 in Hw. lra. Qed.
End Rounded.

(* ---------------- counting, history, termination: independent of the arithmetic ---------------- *)
Definition fq_count (max_iter : Z) (s : fqst) : Prop :=
  q_n s = Z.of_nat (q_refits s) /\ (q_n s <= Z.max 0 max_iter)%Z.
Lemma fq_body_count rnd quantile tol max_iter r s : fq_count max_iter s -> fq_running max_iter s = true -> fq_count max_iter (fq_body rnd quantile tol r s).
Proof. unfold fq_count. intros [Hn Hle] Hrun. destruct (running_flags _ _ Hrun) as (_ & _ & Hg).
  unfold Gen_fq_guard in Hg. apply Z.ltb_lt in Hg. unfold fq_body, Gen_fq_n_iter_step.
  destruct (Gen_fq_within_tol rnd r quantile tol); cbn [q_n q_refits]; [split; assumption|].
  destruct (Gen_fq_stall _ _ _); cbn [q_n q_refits]; split; try assumption; lia. Qed.
Theorem fq_loop_count rnd quantile tol max_iter ratio e0 fuel :
  fq_count max_iter (fq_loop rnd fuel quantile tol max_iter ratio (fq_init e0)).
Proof. apply fq_loop_preserves.
  - intros s Hs Hr. apply fq_body_count; assumption.
  - unfold fq_count, fq_init, Gen_fq_init_n_iter. cbn. lia. Qed.

(* no earlier pass was within tol; a tol-break means the current ratio is within tol; a stall-break means the new value of
   the current bracket equals one of its ends *)
Definition fq_hist rnd quantile tol (ratio : nat -> R) (s : fqst) : Prop :=
  (forall j, (j < q_refits s)%nat -> Gen_fq_within_tol rnd (ratio j) quantile tol = false) /\
  (q_broke s = true -> Gen_fq_within_tol rnd (ratio (q_refits s)) quantile tol = true) /\
  (q_stalled s = true -> Gen_fq_within_tol rnd (ratio (q_refits s)) quantile tol = false /\
       Gen_fq_stall (Gen_fq_new_expectile rnd (q_min s) (q_max s)) (q_min s) (q_max s) = true) /\
  (q_broke s = true -> q_stalled s = false).
Lemma fq_body_hist rnd quantile tol max_iter ratio s : fq_hist rnd quantile tol ratio s -> fq_running max_iter s = true ->
  fq_hist rnd quantile tol ratio (fq_body rnd quantile tol (ratio (q_refits s)) s).
Proof. unfold fq_hist, fq_body. intros (Hj & Hb & Hs & Hx) Hrun.
  destruct (Gen_fq_within_tol rnd (ratio (q_refits s)) quantile tol) eqn:E; cbn [q_refits q_broke q_stalled].
  - repeat split; try assumption; try discriminate. intros _. exact E.
  - match goal with |- context [if Gen_fq_stall ?e ?a ?b then _ else _] => destruct (Gen_fq_stall e a b) eqn:St end;
      cbn [q_refits q_broke q_stalled q_min q_max].
    + repeat split; try assumption; try discriminate.
    + repeat split; try discriminate. intros j Hlt. destruct (Nat.eq_dec j (q_refits s)) as [->|Hne]; [exact E|]. apply Hj. lia. Qed.
Theorem fq_loop_hist rnd quantile tol max_iter ratio e0 fuel :
  fq_hist rnd quantile tol ratio (fq_loop rnd fuel quantile tol max_iter ratio (fq_init e0)).
Proof. apply fq_loop_preserves.
  - intros s Hs Hr. eapply fq_body_hist; eassumption.
  - unfold fq_hist, fq_init. cbn. repeat split; try discriminate. intros j Hj; lia. Qed.

Lemma fq_loop_stops rnd quantile tol max_iter ratio : forall fuel s,
  (q_broke s = true \/ q_stalled s = true \/ (Z.to_nat (max_iter - q_n s) <= fuel)%nat) ->
  fq_running max_iter (fq_loop rnd fuel quantile tol max_iter ratio s) = false.
Proof. induction fuel as [|f IH]; intros s Hf; cbn [fq_loop].
  - unfold fq_running, Gen_fq_guard. destruct (q_broke s); [reflexivity|]. destruct (q_stalled s); [reflexivity|].
    destruct Hf as [Hf|[Hf|Hf]]; try discriminate. cbn. apply Z.ltb_ge. lia.
  - destruct (fq_running max_iter s) eqn:E; [|exact E].
    apply IH. destruct (running_flags _ _ E) as (Hb & Hs & Hg). unfold Gen_fq_guard in Hg. apply Z.ltb_lt in Hg.
    destruct Hf as [Hf|[Hf|Hf]]; try congruence.
    unfold fq_body, Gen_fq_n_iter_step. destruct (Gen_fq_within_tol _ _ _ _); cbn [q_n q_broke q_stalled]; [left; reflexivity|].
    destruct (Gen_fq_stall _ _ _); cbn [q_n q_broke q_stalled]; [right; left; reflexivity|right; right; lia]. Qed.

(* exit, any arithmetic: stopped after at most max_iter refits; by the tol-break iff within tol; by the stall-break only when the
   bracket cannot be halved; else exactly max_iter refits were made *)
Theorem fq_exit rnd quantile tol max_iter ratio e0 :
  let s := fq_loop rnd (Z.to_nat max_iter) quantile tol max_iter ratio (fq_init e0) in
  fq_running max_iter s = false /\
  (q_refits s <= Z.to_nat max_iter)%nat /\ q_n s = Z.of_nat (q_refits s) /\
  (forall j, (j < q_refits s)%nat -> Gen_fq_within_tol rnd (ratio j) quantile tol = false) /\
  ((q_broke s = true /\ q_stalled s = false /\ Gen_fq_within_tol rnd (ratio (q_refits s)) quantile tol = true) \/
   (q_broke s = false /\ q_stalled s = true /\ Gen_fq_within_tol rnd (ratio (q_refits s)) quantile tol = false /\
      Gen_fq_stall (Gen_fq_new_expectile rnd (q_min s) (q_max s)) (q_min s) (q_max s) = true) \/
   (q_broke s = false /\ q_stalled s = false /\ q_refits s = Z.to_nat max_iter)).
Proof. intros s.
  pose proof (fq_loop_count rnd quantile tol max_iter ratio e0 (Z.to_nat max_iter)) as [Hn Hle]. fold s in Hn, Hle.
  pose proof (fq_loop_hist rnd quantile tol max_iter ratio e0 (Z.to_nat max_iter)) as (Hj & Hb & Hs & Hx). fold s in Hj, Hb, Hs, Hx.
  assert (Hstop : fq_running max_iter s = false).
  { apply fq_loop_stops. right. right. unfold fq_init, Gen_fq_init_n_iter. cbn [q_n]. lia. }
  repeat split; try assumption; [lia|].
  unfold fq_running, Gen_fq_guard in Hstop. destruct (q_broke s) eqn:B.
  - left. repeat split; [apply Hx; reflexivity|apply Hb; reflexivity].
  - destruct (q_stalled s) eqn:St.
    + right. left. destruct (Hs eq_refl) as [A C]. repeat split; assumption.
    + right. right. repeat split. cbn in Hstop. apply Z.ltb_ge in Hstop. lia. Qed.

(* ---------------- exact real arithmetic: rnd = identity ---------------- *)
Definition rid (x : R) : R := x.
Definition anyR (x : R) : Prop := True.
Lemma rid_contract : (forall x y, x <= y -> rid x <= rid y) /\ (forall x, anyR x -> rid x = x) /\ (forall x, anyR (rid x)) /\
  (forall x, anyR x -> anyR (2 * x)) /\ anyR 0 /\ anyR 1.
Proof. unfold rid, anyR. repeat split; auto. Qed.

(* in exact arithmetic the midpoint of a non-degenerate bracket is never one of its ends: the stall exit is dead code there *)
Lemma exact_never_stalls mn mx : mn < mx -> Gen_fq_stall (Gen_fq_new_expectile rid mn mx) mn mx = false.
Proof. intros H. apply stall_false. unfold Gen_fq_new_expectile, rid. lra. Qed.
Definition fq_exact_inv (s : fqst) : Prop := fq_inv s /\ q_stalled s = false.
Lemma fq_body_exact quantile tol r max_iter s : fq_exact_inv s -> fq_running max_iter s = true -> fq_exact_inv (fq_body rid quantile tol r s).
Proof. intros [Hi Hs] Hrun. destruct rid_contract as (C1 & C2 & C3 & C4 & C5 & C6).
  assert (Hf : fq_invf anyR s) by (unfold fq_invf, anyR; auto).
  split; [apply (fq_body_inv rid anyR C1 C2 C3 C4 quantile tol r max_iter s Hf Hrun)|].
  destruct Hi as (H0 & H1 & He & Hin). destruct (Hin Hs) as [Hlo Hhi].
  unfold fq_body. destruct (Gen_fq_within_tol _ _ _ _); [reflexivity|]. rewrite bracket_cases.
  destruct (Rltb r quantile); cbn [fst snd]; rewrite exact_never_stalls by lra; reflexivity. Qed.
Theorem fq_loop_exact quantile tol max_iter ratio e0 fuel : 0 < e0 < 1 ->
  fq_exact_inv (fq_loop rid fuel quantile tol max_iter ratio (fq_init e0)).
Proof. intros He. apply fq_loop_preserves.
  - intros s Hs Hr. eapply fq_body_exact; eassumption.
  - split; [|reflexivity]. unfold fq_inv, fq_init, Gen_fq_init_min, Gen_fq_init_max. cbn. repeat split; lra. Qed.

(* the argument checks of fit_quantile: exactly the quantiles outside (0,1), non-positive tol / max_iter are rejected *)
Lemma fq_args quantile tol max_iter :
  (Gen_fq_bad_quantile quantile = false <-> 0 < quantile < 1) /\ (Gen_fq_bad_tol tol = false <-> 0 < tol) /\
  (Gen_fq_bad_max_iter max_iter = false <-> (0 < max_iter)%Z).
Proof. unfold Gen_fq_bad_quantile, Gen_fq_bad_tol, Gen_fq_bad_max_iter. split; [|split].
  - split.
    + intros HH. apply orb_false_iff in HH as [A B]. apply Rleb_false in A. apply Rleb_false in B. split; assumption.
    + intros [A B]. apply orb_false_iff; split; apply Rleb_false; assumption.
  - apply Rleb_false.
  - apply Z.leb_gt. Qed.

(* satisfiability witness: quantile 0.9, ratio 0.5 at expectile 0.5: one refit at expectile 0.75 with bracket (0.5, 1) *)
Example fq_example :
  let s := fq_loop rid 1 (9/10) (1/100) 20 (fun _ => 1/2) (fq_init (1/2)) in
  q_refits s = 1%nat /\ q_broke s = false /\ q_stalled s = false /\ q_e s = 3/4 /\ q_min s = 1/2 /\ q_max s = 1 /\ fq_inv s.
Proof.
  assert (W0 : Gen_fq_within_tol rid (1/2) (9/10) (1/100) = false).
  { unfold Gen_fq_within_tol, rid. apply Rleb_false. unfold Rabs. destruct (Rcase_abs _); lra. }
  assert (B0 : Gen_fq_branch_test (1/2) (9/10) = true) by (apply Rltb_true; lra).
  assert (Rn : fq_running 20 (fq_init (1/2)) = true) by reflexivity.
  intros s. subst s. unfold fq_loop. rewrite Rn. unfold fq_body. rewrite W0. unfold Gen_fq_bracket. rewrite B0.
  cbn [fst snd fq_init q_e q_max]. rewrite exact_never_stalls by (unfold Gen_fq_init_max; lra).
  unfold fq_inv, q_refits, q_broke, q_stalled, q_e, q_min, q_max, Gen_fq_new_expectile, Gen_fq_init_max, rid.
  repeat split; try lra; intros _; lra. Qed.

(* ---------------- assembled statements (Props/C18.v) ---------------- *)
Theorem bisect_rounded (rnd : R -> R) (fmt : R -> Prop) :
  (forall x y, x <= y -> rnd x <= rnd y) -> (forall x, fmt x -> rnd x = x) -> (forall x, fmt (rnd x)) ->
  (forall x, fmt x -> fmt (2 * x)) -> fmt 0 -> fmt 1 ->
  forall quantile tol max_iter (ratio : nat -> R) e0, 0 < e0 < 1 -> fmt e0 ->
  (forall mn mx, fmt mn -> fmt mx -> mn <= mx ->
     let e' := Gen_fq_new_expectile rnd mn mx in (e' = mn \/ e' = mx) \/ (mn < e' < mx)) /\
  (forall fuel, let s := fq_loop rnd fuel quantile tol max_iter ratio (fq_init e0) in
                fq_inv s /\ 0 < q_e s < 1 /\ Gen_expectile_out_of_range (q_e s) = false) /\
  (forall s r, fq_invf fmt s -> fq_running max_iter s = true -> Gen_fq_within_tol rnd r quantile tol = false ->
     let s' := fq_body rnd quantile tol r s in
     (q_stalled s' = true -> q_e s' = q_e s /\ q_refits s' = q_refits s /\ q_n s' = q_n s /\
        Gen_fq_stall (Gen_fq_new_expectile rnd (q_min s') (q_max s')) (q_min s') (q_max s') = true) /\
     (q_stalled s' = false ->
        (r < quantile -> q_e s < q_e s' /\ q_e s' < q_max s /\ q_min s' = q_e s /\ q_max s' = q_max s) /\
        (quantile <= r -> q_e s' < q_e s /\ q_min s < q_e s' /\ q_max s' = q_e s /\ q_min s' = q_min s) /\
        q_max s' - q_min s' < q_max s - q_min s /\ q_e s' = Gen_fq_new_expectile rnd (q_min s') (q_max s') /\
        q_refits s' = S (q_refits s)) /\
     (0 < tol -> r <> quantile)) /\
  (let s := fq_loop rnd (Z.to_nat max_iter) quantile tol max_iter ratio (fq_init e0) in
   fq_running max_iter s = false /\
   (q_refits s <= Z.to_nat max_iter)%nat /\ q_n s = Z.of_nat (q_refits s) /\
   (forall j, (j < q_refits s)%nat -> Gen_fq_within_tol rnd (ratio j) quantile tol = false) /\
   ((q_broke s = true /\ q_stalled s = false /\ Gen_fq_within_tol rnd (ratio (q_refits s)) quantile tol = true) \/
    (q_broke s = false /\ q_stalled s = true /\ Gen_fq_within_tol rnd (ratio (q_refits s)) quantile tol = false /\
       Gen_fq_stall (Gen_fq_new_expectile rnd (q_min s) (q_max s)) (q_min s) (q_max s) = true) \/
    (q_broke s = false /\ q_stalled s = false /\ q_refits s = Z.to_nat max_iter))).
Proof. intros C1 C2 C3 C4 C5 C6 quantile tol max_iter ratio e0 He Fe. split; [|split; [|split]].
  - intros mn mx. apply (midpoint_trichotomy rnd fmt C1 C2 C4).
  - intros fuel s. assert (Hi' : fq_invf fmt s) by (subst s; apply fq_loop_inv; assumption). destruct Hi' as [Hi _].
    split; [exact Hi|]. split; [destruct Hi as (_ & _ & H & _); exact H|apply fq_inv_in_range; exact Hi].
  - intros s r Hs Hr Hw. eapply fq_body_direction; eassumption.
  - apply fq_exit. Qed.

Theorem bisect_exact quantile tol max_iter (ratio : nat -> R) e0 : 0 < e0 < 1 ->
  (forall fuel, let s := fq_loop rid fuel quantile tol max_iter ratio (fq_init e0) in
                0 <= q_min s /\ q_min s < q_e s /\ q_e s < q_max s /\ q_max s <= 1 /\ 0 < q_e s < 1 /\ q_stalled s = false /\
                Gen_expectile_out_of_range (q_e s) = false) /\
  (forall s r, fq_inv s -> fq_running max_iter s = true -> Gen_fq_within_tol rid r quantile tol = false ->
     let s' := fq_body rid quantile tol r s in
     (r < quantile -> q_e s < q_e s' /\ q_e s' < q_max s /\ q_min s' = q_e s /\ q_max s' = q_max s) /\
     (quantile <= r -> q_e s' < q_e s /\ q_min s < q_e s' /\ q_max s' = q_e s /\ q_min s' = q_min s) /\
     (0 < tol -> r <> quantile) /\
     q_max s' - q_min s' < q_max s - q_min s /\ q_e s' = (q_max s' + q_min s') / 2 /\ q_refits s' = S (q_refits s)) /\
  (let s := fq_loop rid (Z.to_nat max_iter) quantile tol max_iter ratio (fq_init e0) in
   fq_running max_iter s = false /\
   (q_refits s <= Z.to_nat max_iter)%nat /\ q_n s = Z.of_nat (q_refits s) /\
   (forall j, (j < q_refits s)%nat -> Gen_fq_within_tol rid (ratio j) quantile tol = false) /\
   ((q_broke s = true /\ Gen_fq_within_tol rid (ratio (q_refits s)) quantile tol = true) \/
    (q_broke s = false /\ q_refits s = Z.to_nat max_iter))).
Proof. intros He. destruct rid_contract as (C1 & C2 & C3 & C4 & C5 & C6). split; [|split].
  - intros fuel s. destruct (fq_loop_exact quantile tol max_iter ratio e0 fuel He) as [Hi Hs]. fold s in Hi, Hs.
    pose proof (fq_inv_in_range s Hi) as Hr. destruct Hi as (H0 & H1 & H2 & Hin). destruct (Hin Hs) as [A B].
    repeat split; try assumption; lra.
  - intros s r Hi Hrun Hw. assert (Hf : fq_invf anyR s) by (unfold fq_invf, anyR; auto).
    assert (HD := fq_body_direction rid anyR). cbv zeta in HD.
    destruct (HD ltac:(assumption) ltac:(assumption) ltac:(assumption) ltac:(assumption) quantile tol r max_iter s Hf Hrun Hw) as (_ & Hd & Ht).
    destruct (running_flags _ _ Hrun) as (_ & Hst & _).
    assert (Hs' : q_stalled (fq_body rid quantile tol r s) = false).
    { apply (fq_body_exact quantile tol r max_iter s); [split; assumption|exact Hrun]. }
    destruct (Hd Hs') as (D1 & D2 & D3 & D4 & D5). cbv zeta.
    repeat split; try (apply D1; assumption); try (apply D2; assumption); try assumption.
  - pose proof (fq_exit rid quantile tol max_iter ratio e0) as Hx. cbv zeta in Hx. destruct Hx as (X1 & X2 & X3 & X4 & X5).
    destruct (fq_loop_exact quantile tol max_iter ratio e0 (Z.to_nat max_iter) He) as [_ Hs].
    cbv zeta. repeat split; try assumption.
    destruct X5 as [(A & _ & B)|[(A & B & _)|(A & _ & B)]]; [left; split; assumption|congruence|right; split; assumption]. Qed.
