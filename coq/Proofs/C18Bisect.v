(* Proofs/C18Bisect.v -- invariants of the fit_quantile bisection (real-number semantics of the GENERATED loop pieces),
   for every oracle `ratio : nat -> R` (what the refits do to the empirical quantile is not assumed). *)
From Coq Require Import Reals ZArith Bool List Lra Lia.
From PG Require Import Base.Ops Gen.FitQuantile Model.FitQuantile.
Open Scope R_scope.

Lemma fq_loop_preserves (P : fqst -> Prop) quantile tol max_iter ratio :
  (forall s, P s -> fq_running max_iter s = true -> P (fq_body quantile tol (ratio (q_refits s)) s)) ->
  forall fuel s, P s -> P (fq_loop fuel quantile tol max_iter ratio s).
Proof. intros Hstep. induction fuel as [|f IH]; intros s Hs; cbn [fq_loop]; [exact Hs|].
  destruct (fq_running max_iter s) eqn:E; [|exact Hs]. apply IH. apply Hstep; assumption. Qed.

(* ---- one non-breaking pass keeps the expectile strictly inside the (shrinking) bracket and moves it the right way ---- *)
Lemma fq_body_inv quantile tol r s : fq_inv s -> fq_inv (fq_body quantile tol r s).
Proof. unfold fq_inv, fq_body. intros (H0 & H1 & H2 & H3).
  destruct (Gen_fq_within_tol r quantile tol); cbn [q_min q_max q_e]; [lra|].
  unfold Gen_fq_bracket, Gen_fq_new_expectile. destruct (Gen_fq_branch_test r quantile); cbn [fst snd]; lra. Qed.

Lemma fq_init_inv e0 : 0 < e0 < 1 -> fq_inv (fq_init e0).
Proof. unfold fq_inv, fq_init, Gen_fq_init_min, Gen_fq_init_max. cbn. lra. Qed.

Lemma fq_body_direction quantile tol r s : fq_inv s -> Gen_fq_within_tol r quantile tol = false ->
  let s' := fq_body quantile tol r s in
  (r < quantile -> q_e s < q_e s' /\ q_e s' < q_max s /\ q_min s' = q_e s /\ q_max s' = q_max s) /\
  (quantile <= r -> q_e s' < q_e s /\ q_min s < q_e s' /\ q_max s' = q_e s /\ q_min s' = q_min s) /\
  (0 < tol -> r <> quantile) /\
  q_max s' - q_min s' < q_max s - q_min s /\ q_e s' = (q_min s' + q_max s') / 2.
Proof. intros (H0 & H1 & H2 & H3) Hw. unfold fq_body. rewrite Hw. cbn [q_min q_max q_e].
  unfold Gen_fq_bracket, Gen_fq_new_expectile, Gen_fq_branch_test.
  split; [|split; [|split; [|split]]].
  - intros Hlt. rewrite (proj2 (Rltb_true _ _) Hlt). cbn. repeat split; lra.
  - intros Hlt. rewrite (proj2 (Rltb_false _ _) Hlt). cbn. repeat split; lra.
  - intros Ht E. subst r. unfold Gen_fq_within_tol in Hw. apply Rleb_false in Hw.
    replace (quantile - quantile) with 0 in Hw by ring. rewrite Rabs_R0 in Hw. lra.
  - destruct (Rltb r quantile); cbn; lra.
  - destruct (Rltb r quantile); cbn; lra.
Qed.

(* ---- the invariant along the whole run ---- *)
Theorem fq_loop_inv quantile tol max_iter ratio e0 fuel : 0 < e0 < 1 ->
  fq_inv (fq_loop fuel quantile tol max_iter ratio (fq_init e0)).
Proof. intros He. apply fq_loop_preserves; [|apply fq_init_inv; exact He]. intros s Hs _. apply fq_body_inv; exact Hs. Qed.

Lemma fq_inv_in_range s : fq_inv s -> Gen_expectile_out_of_range (q_e s) = false.
Proof. unfold fq_inv, Gen_expectile_out_of_range. intros (H0 & H1 & H2 & H3).
  apply orb_false_iff; split; apply Rleb_false; lra. Qed.

(* ---- counting: n_iter counts the refits, never exceeds the budget ---- *)
Definition fq_count (max_iter : Z) (s : fqst) : Prop :=
  q_n s = Z.of_nat (q_refits s) /\ (q_n s <= Z.max 0 max_iter)%Z.
Lemma fq_body_count quantile tol max_iter r s : fq_count max_iter s -> fq_running max_iter s = true -> fq_count max_iter (fq_body quantile tol r s).
Proof. unfold fq_count, fq_running, fq_body, Gen_fq_guard, Gen_fq_n_iter_step. intros [Hn Hle] Hrun.
  apply andb_true_iff in Hrun as [_ Hg]. apply Z.ltb_lt in Hg.
  destruct (Gen_fq_within_tol r quantile tol); cbn [q_n q_refits]; split; try assumption; lia. Qed.
Theorem fq_loop_count quantile tol max_iter ratio e0 fuel :
  fq_count max_iter (fq_loop fuel quantile tol max_iter ratio (fq_init e0)).
Proof. apply fq_loop_preserves.
  - intros s Hs Hr. apply fq_body_count; assumption.
  - unfold fq_count, fq_init, Gen_fq_init_n_iter. cbn. lia. Qed.

(* ---- exit: no earlier pass was within tol; a break means the current ratio is within tol ---- *)
Definition fq_hist quantile tol (ratio : nat -> R) (s : fqst) : Prop :=
  (forall j, (j < q_refits s)%nat -> Gen_fq_within_tol (ratio j) quantile tol = false) /\
  (q_broke s = true -> Gen_fq_within_tol (ratio (q_refits s)) quantile tol = true).
Lemma fq_body_hist quantile tol max_iter ratio s : fq_hist quantile tol ratio s -> fq_running max_iter s = true ->
  fq_hist quantile tol ratio (fq_body quantile tol (ratio (q_refits s)) s).
Proof. unfold fq_hist, fq_running, fq_body. intros [Hj Hb] Hrun. apply andb_true_iff in Hrun as [Hnb _].
  destruct (Gen_fq_within_tol (ratio (q_refits s)) quantile tol) eqn:E; cbn [q_refits q_broke].
  - split; [exact Hj|]. intros _. exact E.
  - split; [|discriminate]. intros j Hlt. destruct (Nat.eq_dec j (q_refits s)) as [->|Hne]; [exact E|]. apply Hj. lia. Qed.
Theorem fq_loop_hist quantile tol max_iter ratio e0 fuel :
  fq_hist quantile tol ratio (fq_loop fuel quantile tol max_iter ratio (fq_init e0)).
Proof. apply fq_loop_preserves.
  - intros s Hs Hr. eapply fq_body_hist; eassumption.
  - unfold fq_hist, fq_init. cbn. split; [intros j Hj; lia|discriminate]. Qed.

(* ---- termination within max_iter passes: with that much fuel the loop has really stopped ---- *)
Lemma fq_loop_stops quantile tol max_iter ratio : forall fuel s,
  (q_broke s = true \/ (Z.to_nat (max_iter - q_n s) <= fuel)%nat) ->
  fq_running max_iter (fq_loop fuel quantile tol max_iter ratio s) = false.
Proof. induction fuel as [|f IH]; intros s Hf; cbn [fq_loop].
  - unfold fq_running, Gen_fq_guard. destruct (q_broke s); [reflexivity|]. destruct Hf as [Hf|Hf]; [discriminate|].
    cbn. apply Z.ltb_ge. lia.
  - destruct (fq_running max_iter s) eqn:E; [|exact E].
    apply IH.
    pose proof E as E'. unfold fq_running, Gen_fq_guard in E'. apply andb_true_iff in E' as [Hb Hg]. apply Z.ltb_lt in Hg.
    apply negb_true_iff in Hb. destruct Hf as [Hf|Hf]; [congruence|].
    unfold fq_body, Gen_fq_n_iter_step. destruct (Gen_fq_within_tol _ _ _); cbn [q_n q_broke]; [left; reflexivity|right; lia]. Qed.

Theorem fq_exit quantile tol max_iter ratio e0 :
  let s := fq_loop (Z.to_nat max_iter) quantile tol max_iter ratio (fq_init e0) in
  (* stopped *) fq_running max_iter s = false /\
  (* at most max_iter refits, counted by n_iter *) (q_refits s <= Z.to_nat max_iter)%nat /\ q_n s = Z.of_nat (q_refits s) /\
  (* no earlier exit was possible *) (forall j, (j < q_refits s)%nat -> Gen_fq_within_tol (ratio j) quantile tol = false) /\
  (* exit iff within tol or budget exhausted *)
  ((q_broke s = true /\ Gen_fq_within_tol (ratio (q_refits s)) quantile tol = true) \/
   (q_broke s = false /\ q_refits s = Z.to_nat max_iter)).
Proof. intros s.
  pose proof (fq_loop_count quantile tol max_iter ratio e0 (Z.to_nat max_iter)) as [Hn Hle]. fold s in Hn, Hle.
  pose proof (fq_loop_hist quantile tol max_iter ratio e0 (Z.to_nat max_iter)) as [Hj Hb]. fold s in Hj, Hb.
  assert (Hstop : fq_running max_iter s = false).
  { apply fq_loop_stops. right. unfold fq_init, Gen_fq_init_n_iter. cbn [q_n]. lia. }
  repeat split; try assumption; [lia|].
  unfold fq_running, Gen_fq_guard in Hstop. destruct (q_broke s) eqn:B.
  - left. split; [reflexivity|apply Hb; reflexivity].
  - right. split; [reflexivity|]. cbn in Hstop. apply Z.ltb_ge in Hstop. lia. Qed.

(* the argument checks of fit_quantile: exactly the quantiles outside (0,1), non-positive tol / max_iter are rejected *)
Lemma fq_args quantile tol max_iter :
  (Gen_fq_bad_quantile quantile = false <-> 0 < quantile < 1) /\ (Gen_fq_bad_tol tol = false <-> 0 < tol) /\
  (Gen_fq_bad_max_iter max_iter = false <-> (0 < max_iter)%Z).
Proof. unfold Gen_fq_bad_quantile, Gen_fq_bad_tol, Gen_fq_bad_max_iter. split; [|split].
  - split.
    + intros HH. apply orb_false_iff in HH as [A B]. apply Rleb_false in A. apply Rleb_false in B. split; assumption.
    + intros [A B]. apply orb_false_iff; split; apply Rleb_false; assumption.
  - apply Rleb_false.
  - apply Z.leb_gt. Qed.

(* satisfiability witness: quantile 0.9, ratio 0.5 at expectile 0.5: one refit at expectile 0.75 with bracket (0.5, 1) *)
Example fq_example :
  let s := fq_loop 1 (9/10) (1/100) 20 (fun _ => 1/2) (fq_init (1/2)) in
  q_refits s = 1%nat /\ q_broke s = false /\ q_e s = 3/4 /\ q_min s = 1/2 /\ q_max s = 1 /\ fq_inv s.
Proof.
  assert (W0 : Gen_fq_within_tol (1/2) (9/10) (1/100) = false).
  { unfold Gen_fq_within_tol. apply Rleb_false. unfold Rabs. destruct (Rcase_abs _); lra. }
  assert (B0 : Gen_fq_branch_test (1/2) (9/10) = true) by (apply Rltb_true; lra).
  assert (Rn : fq_running 20 (fq_init (1/2)) = true) by reflexivity.
  intros s. subst s. unfold fq_loop. rewrite Rn. unfold fq_body. rewrite W0. unfold Gen_fq_bracket. rewrite B0.
  unfold fq_init, fq_inv, q_refits, q_broke, q_e, q_min, q_max, fst, snd, Gen_fq_new_expectile, Gen_fq_init_max.
  repeat split; lra. Qed.
