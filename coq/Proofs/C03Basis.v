(* Proofs/C03Basis.v -- Cox-de Boor recursion over an arbitrary strictly increasing knot sequence (real instance):
   index support, non-negativity, partition of unity, continuity across a knot, telescoping of the gradients,
   and the link between the vectorised list recursion of the model (deboor) and the index function (Bix).   *)
From Coq Require Import List ZArith Reals Lra Lia Bool Arith.
From PG Require Import Base.Ops Base.Vec Model.BSpline.
Import ListNotations.
Open Scope R_scope.

Notation vsumR := (vsum Rrops).
Definition ind (j0 i : nat) : R := if Nat.eqb i j0 then 1 else 0.

(* ---------- list recursion = index function (any knots, any order-0 row) ---------- *)
Lemma rec_step_cons2 t x j i a b (tl : list R) :
  rec_step Rfops t x j i (a :: b :: tl) =
  (Rdivt ((x - t i) * a) (t (i + S j)%nat - t i) + Rdivt ((t (i + S (S j))%nat - x) * b) (t (i + S (S j))%nat - t (S i)))
  :: rec_step Rfops t x j (S i) (b :: tl).
Proof. reflexivity. Qed.
Lemma rec_step_Bix t h x j : forall len i,
  rec_step Rfops t x j i (map (Bix Rfops t h x j) (seq i (S len))) = map (Bix Rfops t h x (S j)) (seq i len).
Proof.
  induction len as [|len IH]; intros i; [reflexivity|].
  change (seq i (S (S len))) with (i :: seq (S i) (S len)).
  specialize (IH (S i)). cbn [seq map] in IH |- *. rewrite rec_step_cons2. cbn [seq map] in IH. rewrite IH. reflexivity.
Qed.
Lemma deboor_Bix t h x k : forall m,
  deboor Rfops t x k (map h (seq 0 (m + k))) = map (Bix Rfops t h x k) (seq 0 m).
Proof.
  induction k as [|k IH]; intros m.
  - rewrite Nat.add_0_r. reflexivity.
  - cbn [deboor]. replace (m + S k)%nat with (S m + k)%nat by lia. rewrite IH. apply rec_step_Bix.
Qed.

Lemma vsum_app (u v : list R) : vsumR (u ++ v) = vsumR u + vsumR v.
Proof. induction u as [|a u IH]; cbn; [lra|]. cbn in IH. rewrite IH. lra. Qed.

Section Knots.
Variable t : nat -> R.
Hypothesis tinc : forall i, t i < t (S i).
Lemma tmono i j : (i <= j)%nat -> t i <= t j.
Proof. induction 1; [lra|]. pose proof (tinc m). lra. Qed.
Lemma tsmono i j : (i < j)%nat -> t i < t j.
Proof. intros H. pose proof (tmono (S i) j H). pose proof (tinc i). lra. Qed.
Lemma tinj_le i j : t i <= t j -> (i <= j)%nat.
Proof. intros H. destruct (le_lt_dec i j); [assumption|]. pose proof (tsmono j i l). lra. Qed.

Variable x : R.
Section H.
Variable h : nat -> R.
Notation B := (Bix Rfops t h x).

Lemma BS j i : B (S j) i =
  (x - t i) / (t (i + S j)%nat - t i) * B j i + (t (i + S (S j))%nat - x) / (t (i + S (S j))%nat - t (S i)) * B j (S i).
Proof.
  cbn [Bix Rfops fr radd rmul rsub fdiv Rrops].
  rewrite !Rdivt_ok.
  - unfold Rdiv. lra.
  - pose proof (tsmono (S i) (i + S (S j))%nat ltac:(lia)). lra.
  - pose proof (tsmono i (i + S j)%nat ltac:(lia)). lra.
Qed.

Definition w k i := (x - t i) / (t (i + S k)%nat - t i).
Lemma BS' k i : B (S k) i = w k i * B k i + (1 - w k (S i)) * B k (S i).
Proof. rewrite BS. unfold w. replace (S i + S k)%nat with (i + S (S k))%nat by lia.
  pose proof (tsmono (S i) (i + S (S k))%nat ltac:(lia)). pose proof (tsmono i (i + S k)%nat ltac:(lia)). field. lra. Qed.

Definition sumB k a len := vsumR (map (B k) (seq a len)).
Lemma sumB_S k a len : sumB k a (S len) = B k a + sumB k (S a) len.
Proof. reflexivity. Qed.
Lemma sumB_snoc k len a : sumB k a (S len) = sumB k a len + B k (a + len)%nat.
Proof. unfold sumB. rewrite seq_S, map_app, vsum_app. cbn. lra. Qed.

Lemma telescope k : forall len a,
  sumB (S k) a (S len) = w k a * B k a + sumB k (S a) len + (1 - w k (a + S len)%nat) * B k (a + S len)%nat.
Proof.
  induction len as [|l IH]; intros a.
  - rewrite sumB_S. unfold sumB at 1 2. cbn [seq map vsum Rrops radd r0]. rewrite BS'. replace (a+1)%nat with (S a) by lia. lra.
  - rewrite sumB_snoc, IH. rewrite BS'. rewrite (sumB_snoc k l (S a)).
    replace (S a + l)%nat with (a + S l)%nat by lia. replace (S (a + S l)) with (a + S (S l))%nat by lia. lra.
Qed.
End H.

(* ---------- order-0 row = indicator of one interval j0 ---------- *)
Variable j0 : nat.
Notation B := (Bix Rfops t (ind j0) x).

Lemma isupport k : forall i, ~ (i <= j0 <= i + k)%nat -> B k i = 0.
Proof.
  induction k as [|k IH]; intros i H.
  - cbn. unfold ind. destruct (Nat.eqb_spec i j0); [lia|reflexivity].
  - rewrite BS. rewrite (IH i) by lia. rewrite (IH (S i)) by lia. lra.
Qed.

Lemma div_nonneg a b : 0 <= a -> 0 < b -> 0 <= a / b.
Proof. intros. unfold Rdiv. apply Rmult_le_pos; [lra| left; apply Rinv_0_lt_compat; lra]. Qed.

Hypothesis xin : t j0 <= x <= t (S j0).
Lemma inonneg k : forall i, 0 <= B k i.
Proof.
  induction k as [|k IH]; intros i.
  - cbn. unfold ind. destruct (Nat.eqb i j0); lra.
  - rewrite BS.
    assert (H1 : 0 <= (x - t i) / (t (i + S k)%nat - t i) * B k i).
    { destruct (le_lt_dec i j0) as [Hl|Hl].
      - apply Rmult_le_pos; [|apply IH]. apply div_nonneg.
        + pose proof (tmono i j0 Hl). lra.
        + pose proof (tsmono i (i + S k)%nat ltac:(lia)). lra.
      - rewrite (isupport k i) by lia. lra. }
    assert (H2 : 0 <= (t (i + S (S k))%nat - x) / (t (i + S (S k))%nat - t (S i)) * B k (S i)).
    { destruct (le_lt_dec j0 (S i + k)) as [Hl|Hl].
      - apply Rmult_le_pos; [|apply IH]. apply div_nonneg.
        + pose proof (tmono (S j0) (i + S (S k))%nat ltac:(lia)). lra.
        + pose proof (tsmono (S i) (i + S (S k))%nat ltac:(lia)). lra.
      - rewrite (isupport k (S i)) by lia. lra. }
    lra.
Qed.
End Knots.

(* partition of unity: an algebraic identity of the polynomial piece j0, valid for every x *)
Section PU.
Variable t : nat -> R.
Hypothesis tinc : forall i, t i < t (S i).
Variable x : R.
Variable j0 : nat.
Notation B := (Bix Rfops t (ind j0) x).
Notation sumB0 := (sumB t x (ind j0)).

Lemma sum_zero k : forall len a, (j0 < a \/ a + len + k <= j0)%nat -> sumB0 k a len = 0.
Proof.
  induction len as [|len IH]; intros a H; [reflexivity|].
  rewrite sumB_S, IH by lia. rewrite (isupport t tinc x j0 k a) by lia. lra.
Qed.
Lemma pu0 : forall len a, (a <= j0 < a + len)%nat -> sumB0 0 a len = 1.
Proof.
  induction len as [|len IH]; intros a H; [lia|].
  rewrite sumB_S. destruct (Nat.eq_dec a j0) as [E|E].
  - rewrite (sum_zero 0) by lia. cbn. unfold ind. subst a. rewrite Nat.eqb_refl. lra.
  - rewrite IH by lia. cbn. unfold ind. destruct (Nat.eqb_spec a j0); [lia|lra].
Qed.
Theorem partition_of_unity k : forall a len, (a + k <= j0 <= a + k + len)%nat -> sumB0 k a (k + S len) = 1.
Proof.
  induction k as [|k IH]; intros a len H.
  - apply pu0. lia.
  - replace (S k + S len)%nat with (S (k + S len)) by lia. rewrite (telescope t tinc).
    rewrite (isupport t tinc x j0 k a) by lia.
    rewrite (isupport t tinc x j0 k (a + S (k + S len))%nat) by lia.
    rewrite (IH (S a) len) by lia. lra.
Qed.

(* continuity across the knot t_{S j0}: the polynomial pieces j0 and j0+1 agree there for every order >= 1 *)
Lemma continuity_at_knot k : forall i, x = t (S j0) -> (1 <= k)%nat ->
  Bix Rfops t (ind j0) x k i = Bix Rfops t (ind (S j0)) x k i.
Proof.
  intros i Hx Hk. revert i. destruct k as [|k]; [lia|]. clear Hk. induction k as [|k IH]; intros i.
  - rewrite !(BS t tinc). cbn [Bix]. unfold ind.
    pose proof (tinc i) as T1. pose proof (tinc (S i)) as T2.
    replace (i + 1)%nat with (S i) by lia. replace (i + 2)%nat with (S (S i)) by lia.
    destruct (Nat.eqb_spec i j0) as [E1|E1]; destruct (Nat.eqb_spec (S i) j0) as [E2|E2];
      destruct (Nat.eqb_spec i (S j0)) as [E3|E3]; destruct (Nat.eqb_spec (S i) (S j0)) as [E4|E4]; try lia.
    + subst i. rewrite Hx. field. lra.
    + subst j0. rewrite Hx. field. lra.
    + subst i. rewrite Hx. field. lra.
    + lra.
  - rewrite (BS t tinc x (ind j0)), (BS t tinc x (ind (S j0))). rewrite !IH. reflexivity.
Qed.
End PU.

(* ---------- gradients telescope ---------- *)
Lemma grads_cons2 t k i a b (tl : list R) :
  grads Rfops t k i (a :: b :: tl) =
  (IZR (zdiff k 0) * (Rdivt a (t (i + k)%nat - t i) - Rdivt b (t (S (i + k)) - t (S i)))) :: grads Rfops t k (S i) (b :: tl).
Proof. reflexivity. Qed.
Lemma grads_sum t k : forall (prev : list R) i d,
  vsumR (grads Rfops t k i (prev ++ [d])) =
  IZR (zdiff k 0) * (Rdivt (hd d prev) (t (i + k)%nat - t i)
                      - Rdivt d (t (i + length prev + k)%nat - t (i + length prev)%nat)).
Proof.
  induction prev as [|a prev IH]; intros i d.
  - cbn. replace (i + 0 + k)%nat with (i + k)%nat by lia. replace (i + 0)%nat with i by lia. lra.
  - destruct prev as [|b prev].
    + cbn. replace (i + 1 + k)%nat with (S (i + k)) by lia. replace (i + 1)%nat with (S i) by lia. lra.
    + change ((a :: b :: prev) ++ [d]) with (a :: b :: (prev ++ [d])).
      rewrite grads_cons2. change (b :: prev ++ [d]) with ((b :: prev) ++ [d]).
      change (vsumR (?u :: ?l)) with (u + vsumR l). rewrite (IH (S i) d).
      cbn [hd length].
      replace (S i + k)%nat with (S (i + k)) by lia.
      replace (S i + S (length prev) + k)%nat with (i + S (S (length prev)) + k)%nat by lia.
      replace (S i + S (length prev))%nat with (i + S (S (length prev)))%nat by lia. lra.
Qed.
Lemma grads_length t k : forall (prev : list R) i, length (grads Rfops t k i prev) = pred (length prev).
Proof.
  induction prev as [|a prev IH]; intros i; [reflexivity|].
  destruct prev as [|b prev]; [reflexivity|]. rewrite grads_cons2. cbn [length]. rewrite (IH (S i)). reflexivity.
Qed.

(* ---------- small list facts ---------- *)
Lemma vsum_vadd_vscale c : forall g b : list R, length g = length b ->
  vsumR (vadd Rrops (vscale Rrops c g) b) = c * vsumR g + vsumR b.
Proof.
  induction g as [|a g IH]; intros [|b0 b] H; try discriminate; cbn; [lra|].
  cbn in IH. unfold vscale in IH. rewrite IH by (cbn in H; lia). lra.
Qed.
Lemma Forall_map_seq {A} (P : A -> Prop) (f : nat -> A) a len : (forall i, P (f i)) -> Forall P (map f (seq a len)).
Proof. intros H. apply Forall_forall. intros y Hy. apply in_map_iff in Hy. destruct Hy as [i [<- _]]. apply H. Qed.
Lemma nth_map_seq (f : nat -> R) n i : nth i (map f (seq 0 n)) 0 = if Nat.ltb i n then f i else 0.
Proof.
  destruct (Nat.ltb_spec i n) as [H|H].
  - rewrite (nth_indep _ 0 (f 0%nat)) by (rewrite map_length, seq_length; assumption).
    rewrite map_nth. rewrite seq_nth by assumption. reflexivity.
  - apply nth_overflow. rewrite map_length, seq_length. assumption.
Qed.
