(* Proofs/C03PeriodicSupport.v -- the columns of the folded (periodic) row as functions of the piece and the position;
   cyclic support: at most k+1 cyclically consecutive columns (indices mod n) are non-zero (real instance).          *)
From Coq Require Import List ZArith Reals Lra Lia Bool Arith.
From PG Require Import Base.Ops Base.Vec Model.BSpline Proofs.C03Basis Proofs.C03Row Proofs.C03Scale Proofs.C03Periodic.
Import ListNotations.
Open Scope R_scope.

(* column j of the periodic basis at scaled position xs0 (0 where the code raises, i.e. only for n < k+1) *)
Definition pcol (n k j : nat) (xs0 : R) : R :=
  match bspline_scaled Rfops n k true xs0 with Some row => nth j row 0 | None => 0 end.

Lemma vmax_length : forall A C : list R, length A = length C -> length (vmax Rfops A C) = length A.
Proof. induction A as [|a A IH]; intros [|c C] H; cbn in *; try lia. rewrite IH by lia. reflexivity. Qed.
Lemma nth_vmax_seq (f : nat -> R) : forall len a b c, (c < len)%nat ->
  nth c (vmax Rfops (map f (seq a len)) (map f (seq b len))) 0 = tmax Rfops (f (a + c)%nat) (f (b + c)%nat).
Proof.
  induction len as [|len IH]; intros a b c Hc; [lia|].
  cbn [seq map vmax]. destruct c as [|c].
  - cbn [nth]. rewrite !Nat.add_0_r. reflexivity.
  - cbn [nth]. rewrite (IH (S a) (S b) c) by lia. f_equal; f_equal; lia.
Qed.
Lemma nth_map_seq_from (f : nat -> R) a len c : (c < len)%nat -> nth c (map f (seq a len)) 0 = f (a + c)%nat.
Proof.
  intros H. rewrite (nth_indep _ 0 (f 0%nat)) by (rewrite map_length, seq_length; assumption).
  rewrite map_nth, seq_nth by assumption. reflexivity.
Qed.
Lemma tmax_0_0 : tmax Rfops 0 0 = 0.
Proof. rewrite tmax_R. unfold Rmax. destruct (Rle_dec 0 0); reflexivity. Qed.
Lemma tmax_l0 a : 0 <= a -> tmax Rfops a 0 = a.
Proof. intros. rewrite tmax_R. unfold Rmax. destruct (Rle_dec a 0); lra. Qed.
Lemma tmax_r0 a : 0 <= a -> tmax Rfops 0 a = a.
Proof. intros. rewrite tmax_R. unfold Rmax. destruct (Rle_dec 0 a); lra. Qed.

Section Cols.
Variables n k : nat.
Hypothesis Hkn : (k < n)%nat.
Hypothesis Hk : (1 <= k)%nat.
Notation t := (knot Rfops (n + k) k).
Lemma Hlt : (k < n + k)%nat. Proof. lia. Qed.
Notation tinc := (knot_inc (n + k) k Hlt).

(* unfolded column i on the polynomial piece j0, and the folded column c *)
Definition ucol (j0 i : nat) (x : R) : R := Bix Rfops t (ind j0) x k i.
Definition fcol (j0 c : nat) (x : R) : R :=
  if Nat.ltb c k then tmax Rfops (ucol j0 c x) (ucol j0 (n + c) x) else ucol j0 c x.

Lemma nth_folded j0 x c : (k <= j0 < n + k)%nat -> (c < n)%nat -> nth c (pfold Rfops k (crow (n + k) k j0 x)) 0 = fcol j0 c x.
Proof.
  intros Hj Hc. rewrite (folded n k Hkn Hk j0 x Hj). unfold fcol, ucol.
  set (f := Bix Rfops t (ind j0) x k).
  assert (LV : length (vmax Rfops (map f (seq 0 k)) (map f (seq n k))) = k).
  { rewrite vmax_length; rewrite !map_length, !seq_length; reflexivity. }
  destruct (Nat.ltb_spec c k) as [H|H].
  - rewrite app_nth1 by (rewrite LV; assumption). rewrite nth_vmax_seq by assumption. reflexivity.
  - rewrite app_nth2 by (rewrite LV; assumption). rewrite LV. rewrite nth_map_seq_from by lia. f_equal. lia.
Qed.

(* on the piece j0 each folded column is ONE unfolded B-spline: the index support does not depend on x *)
Definition sel (j0 c : nat) : nat := if Nat.ltb c k && Nat.leb (n + c) j0 then (n + c)%nat else c.
Lemma ucol_zero j0 i x : ~ (i <= j0 <= i + k)%nat -> ucol j0 i x = 0.
Proof. intros H. unfold ucol. apply (isupport t tinc x j0 k i H). Qed.
Lemma ucol_nonneg j0 i x : t j0 <= x <= t (S j0) -> 0 <= ucol j0 i x.
Proof. intros H. unfold ucol. apply (inonneg t tinc x j0 H). Qed.
Lemma fcol_sel j0 c x : t j0 <= x <= t (S j0) -> fcol j0 c x = ucol j0 (sel j0 c) x.
Proof.
  intros Hx. unfold fcol, sel. destruct (Nat.ltb_spec c k) as [H|H]; [|reflexivity]. cbn [andb].
  destruct (Nat.leb_spec (n + c) j0) as [L|L].
  - rewrite (ucol_zero j0 c x) by lia. apply tmax_r0. apply ucol_nonneg; assumption.
  - rewrite (ucol_zero j0 (n + c) x) by lia. apply tmax_l0. apply ucol_nonneg; assumption.
Qed.
Lemma fcol_nonneg j0 c x : t j0 <= x <= t (S j0) -> 0 <= fcol j0 c x.
Proof. intros Hx. rewrite fcol_sel by assumption. apply ucol_nonneg; assumption. Qed.

(* cyclic window: columns outside { (j0-k+d) mod n : d <= k } vanish *)
Lemma fcol_cyclic_support j0 c x : (k <= j0 < n + k)%nat -> (c < n)%nat ->
  (forall d, (d <= k)%nat -> c <> ((j0 - k + d) mod n)%nat) -> fcol j0 c x = 0.
Proof.
  intros Hj Hc H.
  assert (Z1 : ucol j0 c x = 0).
  { apply ucol_zero. intros [A B]. apply (H (c + k - j0)%nat); [lia|].
    replace (j0 - k + (c + k - j0))%nat with c by lia. symmetry. apply Nat.mod_small. assumption. }
  unfold fcol. destruct (Nat.ltb_spec c k) as [Hck|Hck]; [|exact Z1].
  assert (Z2 : ucol j0 (n + c) x = 0).
  { apply ucol_zero. intros [A B]. apply (H (n + c + k - j0)%nat); [lia|].
    replace (j0 - k + (n + c + k - j0))%nat with (c + 1 * n)%nat by lia.
    rewrite Nat.mod_add by lia. symmetry. apply Nat.mod_small. assumption. }
  rewrite Z1, Z2. apply tmax_0_0.
Qed.
End Cols.

(* the row of the periodic basis is the folded row of a located piece *)
Lemma periodic_row_piece n k xs0 : (1 <= k < n)%nat ->
  exists j0, (k <= j0 < n + k)%nat /\ knot Rfops (n + k) k j0 <= wrapR xs0 <= knot Rfops (n + k) k (S j0) /\
             bspline_scaled Rfops n k true xs0 = Some (pfold Rfops k (crow (n + k) k j0 (wrapR xs0))).
Proof.
  intros Hkn. pose proof (wrap_range xs0) as W.
  destruct (irow_spec (n + k) k ltac:(lia) (wrapR xs0) W) as [j0 [Hj [Hin E]]].
  exists j0. split; [exact Hj|]. split; [exact Hin|]. rewrite periodic_high by assumption. rewrite E. reflexivity.
Qed.
Lemma pcol_piece n k xs0 : (1 <= k < n)%nat ->
  exists j0, (k <= j0 < n + k)%nat /\ knot Rfops (n + k) k j0 <= wrapR xs0 <= knot Rfops (n + k) k (S j0) /\
             forall c, (c < n)%nat -> pcol n k c xs0 = fcol n k j0 c (wrapR xs0).
Proof.
  intros Hkn. destruct (periodic_row_piece n k xs0 Hkn) as [j0 [Hj [Hin E]]]. exists j0. split; [exact Hj|]. split; [exact Hin|].
  intros c Hc. unfold pcol. rewrite E. apply nth_folded; lia.
Qed.

Definition cyclic_window (n k : nat) (row : list R) : Prop :=
  exists s, (s < n)%nat /\ forall c, (c < n)%nat -> (forall d, (d <= k)%nat -> c <> ((s + d) mod n)%nat) -> nth c row 0 = 0.

Theorem periodic_support n k xs0 row : bspline_scaled Rfops n k true xs0 = Some row ->
  length row = n /\ Forall (fun v => 0 <= v) row /\ cyclic_window n k row.
Proof.
  intros E. destruct (periodic_row n k xs0 row E) as [L [NN _]]. split; [exact L|]. split; [exact NN|].
  pose proof (scaled_Some_lt _ _ _ _ _ E) as Hkn.
  destruct (Nat.eq_dec k 0) as [K0|K0].
  - subst k. rewrite periodic_order0 in E by lia. inversion E; subst row; clear E.
    pose proof (wrap_range xs0) as [X0 X1]. set (xs := wrapR xs0) in *.
    assert (Hn : (0 < n + 0)%nat) by lia.
    pose proof (knot_k (n + 0) 0 Hn) as Tk. pose proof (knot_n (n + 0) 0 Hn) as Tn. cbn [Nat.eqb] in Tn. pose proof e9_pos.
    destruct (locate (n + 0) 0 Hn xs (n + 0) 0) as [j0 [Hj Hx]]; [cbn [Nat.add]; lra|].
    unfold irow. rewrite (deboor_haar (n + 0) 0 Hn xs j0 0 (n + 0) Hx).
    exists j0. split; [lia|]. intros c Hc Hw. rewrite nth_map_seq. destruct (Nat.ltb c (n + 0)); [|reflexivity].
    cbn [Bix]. unfold ind. destruct (Nat.eqb_spec c j0) as [->|]; [|reflexivity].
    exfalso. apply (Hw 0%nat); [lia|]. rewrite Nat.add_0_r. symmetry. apply Nat.mod_small. lia.
  - destruct (periodic_row_piece n k xs0 ltac:(lia)) as [j0 [Hj [Hin E']]]. rewrite E' in E. inversion E; subst row; clear E.
    exists (j0 - k)%nat. split; [lia|]. intros c Hc H. rewrite (nth_folded n k ltac:(lia) ltac:(lia) j0 _ c Hj Hc).
    apply fcol_cyclic_support; (lia || assumption).
Qed.
