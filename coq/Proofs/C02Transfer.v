(* Proofs/C02Transfer.v -- Paramcoq free theorems for the prediction model: the rational instance evaluated by the
   correspondence check denotes the real instance the theorems are about.                                          *)
From Coq Require Import List ZArith QArith Qreals Reals Lra Lia Bool.
From Param Require Import Param.
From PG Require Import Base.Ops Base.Transfer Base.ParamNat Base.Vec Model.BSpline Model.Columns Model.Predict
  Proofs.C03Transfer Proofs.C16 Proofs.C16Transfer.
Import ListNotations.

Parametricity Recursive lp.
Parametricity Recursive pdep.
Parametricity Recursive default_grid.

Theorem lp_Q2R (ts : list (cterm Q)) (beta row : list Q) :
  lp Rfops (map cterm_Q2R ts) (map Q2R beta) (map Q2R row) = option_map Q2R (lp Qfops ts beta row).
Proof.
  pose proof (lp_R Q R QR Qfops Rfops Qfops_R ts _ (cterms_QR ts) beta _ (list_QR beta) row _ (list_QR row)) as H.
  destruct H as [q r Hq|]; cbn; [|reflexivity]. f_equal. symmetry. exact Hq.
Qed.
Theorem pdep_Q2R (ts : list (cterm Q)) (beta : list Q) i (row : list Q) :
  pdep Rfops (map cterm_Q2R ts) (map Q2R beta) i (map Q2R row) = option_map Q2R (pdep Qfops ts beta i row).
Proof.
  pose proof (pdep_R Q R QR Qfops Rfops Qfops_R ts _ (cterms_QR ts) beta _ (list_QR beta) i i (nat_R_refl i) row _ (list_QR row)) as H.
  destruct H as [q r Hq|]; cbn; [|reflexivity]. f_equal. symmetry. exact Hq.
Qed.
Definition lin_Q2R (lin : nat -> Q * Q) (f : nat) : R * R := (Q2R (fst (lin f)), Q2R (snd (lin f))).
Lemma lin_QR (lin : nat -> Q * Q) f1 f2 (Hf : nat_R f1 f2) : prod_R Q R QR Q R QR (lin f1) (lin_Q2R lin f2).
Proof. apply nat_R_eq in Hf. subst. unfold lin_Q2R. destruct (lin f2). constructor; reflexivity. Qed.
Theorem default_grid_Q2R (lin : nat -> Q * Q) m n (t : cterm Q) :
  default_grid Rfops (lin_Q2R lin) m n (cterm_Q2R t) = option_map (map (map Q2R)) (default_grid Qfops lin m n t).
Proof.
  pose proof (default_grid_R Q R QR Qfops Rfops Qfops_R lin (lin_Q2R lin) (lin_QR lin) m m (nat_R_refl m) n n (nat_R_refl n)
                t _ (cterm_QR t)) as H.
  destruct H as [q r Hq|]; cbn; [|reflexivity]. f_equal. symmetry. apply llist_QR_inv. exact Hq.
Qed.

Open Scope R_scope.
(* Examples: hypotheses of the C02 theorems are satisfiable by non-trivial values *)
Definition ex2_terms : list (cterm Q) :=
  [CSimple (SSpline 0%nat 0%Q 1%Q 4%nat 1%nat false (Some 1%nat));
   CTensor [SSpline 0%nat 0%Q 1%Q 3%nat 1%nat false None; SLinear 1%nat] (Some 2%nat);
   CIntercept].
Definition ex2_beta : list Q := [1; 2; 3; 4; 1; -1; 2; 5]%Q.
Example ex2_length : length (map Q2R ex2_beta) = total_coefs (map cterm_Q2R ex2_terms). Proof. reflexivity. Qed.
Example ex2_lp : lp Rfops (map cterm_Q2R ex2_terms) (map Q2R ex2_beta) (map Q2R [1 # 2; 3; 2]%Q) = Some (Q2R (13 # 2)).
Proof. rewrite lp_Q2R. vm_compute (lp Qfops _ _ _). reflexivity. Qed.
