(* Proofs/C12Stats.v -- LinearGAM (normal / identity: W2 = w, z = y): everything downstream of the linear solution.
   edof is a function of (B, w, Ptot) only; under y -> c y the Pearson scale estimate, the GCV score (generated formulas)
   and the covariance scale by c^2, the Wald statistic coef' cov^-1 coef is unchanged.  Real instance, all sizes. *)
From Coq Require Import List Reals Lra Lia Arith Bool.
From PG Require Import Base.Ops Base.Vec Model.Pirls Model.Invariance Proofs.VecR Proofs.C04 Proofs.C01 Proofs.C12Lin Proofs.C12Perm
  Gen.Dists Gen.Stats.
Import ListNotations.
Open Scope R_scope.

(* ---------- normal / identity: the step is the weighted penalised least-squares normal equation in (w, y) ---------- *)
Lemma obs_w2_normal (ob : list (R * R * R)) : obs_w2 LIdentity DNormal None 1 ob = map (fun t => fst (fst t)) ob.
Proof. unfold obs_w2. apply map_ext. intros t. unfold w2. cbn. rewrite Rdivt_ok by lra. field. Qed.
Lemma zpd_normal (ob : list (R * R * R)) :
  map (fun t => zpd Rfops LIdentity 1 (snd t) (snd (fst t)) (snd t)) ob = map (fun t => snd (fst t)) ob.
Proof. apply map_ext. intros t. cbn. ring. Qed.
Theorem normal_identity_step m B Ptot (ob : list (R * R * R)) b :
  is_step Rfops m B (obs_w2 LIdentity DNormal None 1 ob) Ptot (map (fun t => zpd Rfops LIdentity 1 (snd t) (snd (fst t)) (snd t)) ob) b
  <-> is_step Rfops m B (map (fun t => fst (fst t)) ob) Ptot (map (fun t => snd (fst t)) ob) b.
Proof. rewrite obs_w2_normal, zpd_normal. tauto. Qed.

(* fitted values (identity link: mu = lp = B b) are linear in the coefficients *)
Theorem fitted_vadd B b1 b2 : length b1 = length b2 -> matvecR B (vaddR b1 b2) = vaddR (matvecR B b1) (matvecR B b2).
Proof. apply matvec_vadd. Qed.
Theorem fitted_vscale B c b : matvecR B (vscaleR c b) = vscaleR c (matvecR B b).
Proof. apply matvec_vscale. Qed.

(* ---------- edof never sees the response ---------- *)
Lemma edof_rows_BW sol (rows : list trowR) :
  edofR sol rows = vsumR (vmulR (rW rows) (map (fun x => dotR x (sol x)) (rB rows))).
Proof. unfold edof_rows, rW, rB. change (fr Rfops) with Rrops. f_equal. rewrite map_map.
  rewrite (vmul_map (fun t : trowR => snd (fst t)) (fun t => dotR (fst (fst t)) (sol (fst (fst t))))). reflexivity. Qed.
Lemma solves_BW m (rows rows' : list trowR) Ptot sol : rB rows = rB rows' -> rW rows = rW rows' ->
  solves m rows Ptot sol -> solves m rows' Ptot sol.
Proof. intros EB EW S t Ht.
  assert (Hin : In (fst (fst t)) (rB rows)). { rewrite EB. unfold rB. apply in_map_iff. exists t. split; [reflexivity|exact Ht]. }
  unfold rB in Hin. apply in_map_iff in Hin. destruct Hin as [t0 [E0 H0]]. destruct (S t0 H0) as [L E]. rewrite E0 in L, E.
  split; [exact L|]. unfold rows_lhs in *. rewrite <- EB, <- EW. exact E. Qed.
Theorem edof_response_free m (rows rows' : list trowR) Ptot sol sol' : rB rows = rB rows' -> rW rows = rW rows' ->
  wellformed m rows' Ptot -> solves m rows Ptot sol -> solves m rows' Ptot sol' -> edofR sol rows = edofR sol' rows'.
Proof. intros EB EW WF S S'. rewrite (edof_rows_BW sol rows), EB, EW, <- edof_rows_BW.
  apply (edof_solver_independent m rows' Ptot); [exact WF | eapply solves_BW; eassumption | exact S']. Qed.

(* ---------- scale: Distribution.phi = Pearson / (n - edof) with V = 1 ---------- *)
Lemma pearson_normal_scale L c ws : forall ys mus,
  Gen_pearson (Gen_NormalDist_V0 L) ws (vscaleR c ys) (vscaleR c mus) = c * c * Gen_pearson (Gen_NormalDist_V0 L) ws ys mus.
Proof. induction ws as [|w ws IH]; intros [|y ys] [|mu mus]; cbn; try lra.
  unfold vscale in IH. rewrite IH. unfold Gen_NormalDist_V0. field. Qed.
Theorem phi_normal_scale L c s edof ws ys mus :
  Gen_phi false s (Gen_NormalDist_V0 L) edof ws (vscaleR c ys) (vscaleR c mus) =
  c * c * Gen_phi false s (Gen_NormalDist_V0 L) edof ws ys mus.
Proof. unfold Gen_phi. rewrite pearson_normal_scale, vscale_length. unfold Rdiv. ring. Qed.
(* a user-supplied (known) scale is not rescaled: the c^2 law is about the ESTIMATED scale *)
Theorem phi_known_scale_fixed L c s edof ws ys mus :
  Gen_phi true s (Gen_NormalDist_V0 L) edof ws (vscaleR c ys) (vscaleR c mus) = s.
Proof. reflexivity. Qed.

(* ---------- deviance and GCV ---------- *)
Fixpoint normal_dev_sum (s L : R) (ws ys mus : list R) : R :=
  match ws, ys, mus with
  | w :: ws', y :: ys', mu :: mus' => Gen_NormalDist_deviance false s L w y mu + normal_dev_sum s L ws' ys' mus'
  | _, _, _ => 0
  end.
Lemma normal_dev_scale s s' L c ws : forall ys mus,
  normal_dev_sum s' L ws (vscaleR c ys) (vscaleR c mus) = c * c * normal_dev_sum s L ws ys mus.
Proof. induction ws as [|w ws IH]; intros [|y ys] [|mu mus]; cbn; try lra.
  unfold vscale in IH. rewrite IH. unfold Gen_NormalDist_deviance, Gen_NormalDist_deviance0. ring. Qed.
Lemma GCV_dev_scale gamma n dev edof k : Gen_GCV gamma n (k * dev) edof = k * Gen_GCV gamma n dev edof.
Proof. unfold Gen_GCV, Rdiv. ring. Qed.
Theorem GCV_normal_scale gamma n edof s s' L c ws ys mus :
  Gen_GCV gamma n (normal_dev_sum s' L ws (vscaleR c ys) (vscaleR c mus)) edof =
  c * c * Gen_GCV gamma n (normal_dev_sum s L ws ys mus) edof.
Proof. rewrite (normal_dev_scale s s'). apply GCV_dev_scale. Qed.

(* ---------- covariance = scale * (Binv Binv'),  Binv = M^-1 (W B)' a function of (B, w, Ptot) only ---------- *)
Lemma mscale_mscale c d A : mscaleR c (mscaleR d A) = mscaleR (c * d) A.
Proof. unfold mscale. rewrite map_map. apply map_ext. intros r. apply vscale_vscale. Qed.
Theorem cov_scale c s Binv : mscaleR (c * c * s) (gramR Binv) = mscaleR (c * c) (mscaleR s (gramR Binv)).
Proof. rewrite mscale_mscale. reflexivity. Qed.

(* ---------- Wald statistic  b' K^-1 b  (K = covariance block, symmetric), through solutions of K a = b ---------- *)
Theorem wald_invariant n K b a a' c : bisym K n -> length a = n -> length a' = n -> c <> 0 ->
  matvecR K a = b -> matvecR (mscaleR (c * c) K) a' = vscaleR c b ->
  dotR (vscaleR c b) a' = dotR b a.
Proof. intros HK La La' Hc Ea Ea'. rewrite matvec_mscale in Ea'.
  assert (H1 : dotR a (vscaleR (c * c) (matvecR K a')) = dotR a (vscaleR c b)) by (rewrite Ea'; reflexivity).
  rewrite !dot_vscale_r in H1.
  rewrite dot_vscale_l. rewrite <- Ea at 1. rewrite (dot_comm (matvecR K a) a'), <- (HK a a' La La').
  rewrite (dot_comm b a). apply Rmult_eq_reg_l with c; [|exact Hc]. lra. Qed.
(* when K is singular and b is in its range the score does not depend on which solution is taken (b' K^+ b) *)
Theorem wald_solution_independent n K b a1 a2 : bisym K n -> length a1 = n -> length a2 = n ->
  matvecR K a1 = b -> matvecR K a2 = b -> dotR b a1 = dotR b a2.
Proof. intros HK L1 L2 E1 E2. rewrite <- E2 at 1. rewrite <- E1 at 1.
  rewrite (dot_comm (matvecR K a2) a1), (dot_comm (matvecR K a1) a2). apply HK; assumption. Qed.

Example ex_wald : bisym [[2]] 1 /\ matvecR [[2]] [2] = [4] /\ matvecR (mscaleR (3 * 3) [[2]]) [2 / 3] = vscaleR 3 [4].
Proof. split; [|split].
  - intros [|x [|]] [|y [|]] Hu Hv; cbn in *; try discriminate. lra.
  - cbn. f_equal. lra.
  - cbn. f_equal. lra. Qed.
