(* Proofs/C07.v -- links: inverse pairs, derivatives, strict monotonicity.  About the GENERATED definitions Gen/Links.v *)
From Coq Require Import Reals Lra Lia.
From Coquelicot Require Import Coquelicot.
From PG Require Import Base.Ops Gen.Links.
Open Scope R_scope.

Lemma div_pos a b : 0 < a -> 0 < b -> 0 < a / b.
Proof. intros. apply Rdiv_lt_0_compat; assumption. Qed.

(* ---------------- identity ---------------- *)
Lemma identity_inv_left L m : Gen_IdentityLink_mu L (Gen_IdentityLink_link L m) = m. Proof. reflexivity. Qed.
Lemma identity_inv_right L e : Gen_IdentityLink_link L (Gen_IdentityLink_mu L e) = e. Proof. reflexivity. Qed.
Lemma identity_gradient L m : is_derive (Gen_IdentityLink_link L) m (Gen_IdentityLink_gradient L m).
Proof. unfold Gen_IdentityLink_link, Gen_IdentityLink_gradient. auto_derive; [trivial|ring]. Qed.
Lemma identity_mono L a b : a < b -> Gen_IdentityLink_link L a < Gen_IdentityLink_link L b.
Proof. unfold Gen_IdentityLink_link. trivial. Qed.

(* ---------------- log ---------------- *)
Lemma log_inv_left L m : 0 < m -> Gen_LogLink_mu L (Gen_LogLink_link L m) = m.
Proof. intros. unfold Gen_LogLink_mu, Gen_LogLink_link. apply exp_ln; assumption. Qed.
Lemma log_inv_right L e : Gen_LogLink_link L (Gen_LogLink_mu L e) = e.
Proof. unfold Gen_LogLink_mu, Gen_LogLink_link. apply ln_exp. Qed.
Lemma log_gradient L m : 0 < m -> is_derive (Gen_LogLink_link L) m (Gen_LogLink_gradient L m).
Proof. intros. unfold Gen_LogLink_link, Gen_LogLink_gradient. auto_derive; [assumption|field; lra]. Qed.
Lemma log_mono L a b : 0 < a -> a < b -> Gen_LogLink_link L a < Gen_LogLink_link L b.
Proof. intros. unfold Gen_LogLink_link. apply ln_increasing; assumption. Qed.
Lemma log_range L e : 0 < Gen_LogLink_mu L e. Proof. apply exp_pos. Qed.

(* ---------------- logit with any number of levels L > 0 ---------------- *)
Lemma logit_inv_left L m : 0 < m < L -> Gen_LogitLink_mu L (Gen_LogitLink_link L m) = m.
Proof. intros [H0 H1]. unfold Gen_LogitLink_mu, Gen_LogitLink_link.
  replace (- (ln m - ln (L - m))) with (ln ((L - m) / m)) by (rewrite ln_div; lra).
  rewrite exp_ln by (apply div_pos; lra). field. lra. Qed.
Lemma logit_mu_range L e : 0 < L -> 0 < Gen_LogitLink_mu L e < L.
Proof. intros HL. unfold Gen_LogitLink_mu. pose proof (exp_pos (- e)) as He. split.
  - apply div_pos; lra.
  - apply Rmult_lt_reg_r with (1 + exp (- e)); [lra|]. unfold Rdiv. rewrite Rmult_assoc, Rinv_l by lra. nra. Qed.
Lemma logit_inv_right L e : 0 < L -> Gen_LogitLink_link L (Gen_LogitLink_mu L e) = e.
Proof. intros HL. pose proof (logit_mu_range L e HL) as [R0 R1]. unfold Gen_LogitLink_link.
  rewrite <- ln_div by lra. unfold Gen_LogitLink_mu in *. pose proof (exp_pos (- e)) as He.
  replace (L / (1 + exp (- e)) / (L - L / (1 + exp (- e)))) with (/ exp (- e)) by (field; repeat split; nra).
  rewrite <- exp_Ropp, Ropp_involutive. apply ln_exp. Qed.
Lemma logit_gradient L m : 0 < m < L -> is_derive (Gen_LogitLink_link L) m (Gen_LogitLink_gradient L m).
Proof. intros [H0 H1]. unfold Gen_LogitLink_link, Gen_LogitLink_gradient. auto_derive; [split; lra|field; lra]. Qed.
Lemma logit_mono L a b : 0 < a -> a < b -> b < L -> Gen_LogitLink_link L a < Gen_LogitLink_link L b.
Proof. intros. unfold Gen_LogitLink_link.
  assert (ln a < ln b) by (apply ln_increasing; lra).
  assert (ln (L - b) < ln (L - a)) by (apply ln_increasing; lra). lra. Qed.

(* ---------------- inverse (positive means; also negative means) ---------------- *)
Lemma inverse_inv_left L m : m <> 0 -> Gen_InverseLink_mu L (Gen_InverseLink_link L m) = m.
Proof. intros. unfold Gen_InverseLink_mu, Gen_InverseLink_link. apply Rinv_inv. Qed.
Lemma inverse_inv_right L e : e <> 0 -> Gen_InverseLink_link L (Gen_InverseLink_mu L e) = e.
Proof. intros. unfold Gen_InverseLink_mu, Gen_InverseLink_link. apply Rinv_inv. Qed.
Lemma inverse_gradient L m : m <> 0 -> is_derive (Gen_InverseLink_link L) m (Gen_InverseLink_gradient L m).
Proof. intros. unfold Gen_InverseLink_link, Gen_InverseLink_gradient. auto_derive; [assumption|field; assumption]. Qed.
Lemma inverse_mono_pos L a b : 0 < a -> a < b -> Gen_InverseLink_link L b < Gen_InverseLink_link L a.
Proof. intros. unfold Gen_InverseLink_link. apply Rinv_lt_contravar; [nra|assumption]. Qed.
Lemma inverse_mono_neg L a b : a < b -> b < 0 -> Gen_InverseLink_link L b < Gen_InverseLink_link L a.
Proof. intros. unfold Gen_InverseLink_link. apply Rinv_lt_contravar; [nra|assumption]. Qed.

(* ---------------- inverse squared (positive means, positive linear predictors) ---------------- *)
Lemma invsq_inv_left L m : 0 < m -> Gen_InvSquaredLink_mu L (Gen_InvSquaredLink_link L m) = m.
Proof. intros. unfold Gen_InvSquaredLink_mu, Gen_InvSquaredLink_link.
  rewrite sqrt_inv, sqrt_square by lra. apply Rinv_inv. Qed.
Lemma invsq_inv_right L e : 0 < e -> Gen_InvSquaredLink_link L (Gen_InvSquaredLink_mu L e) = e.
Proof. intros. unfold Gen_InvSquaredLink_mu, Gen_InvSquaredLink_link.
  rewrite <- Rinv_mult, sqrt_sqrt by lra. apply Rinv_inv. Qed.
Lemma invsq_gradient L m : m <> 0 -> is_derive (Gen_InvSquaredLink_link L) m (Gen_InvSquaredLink_gradient L m).
Proof. intros. unfold Gen_InvSquaredLink_link, Gen_InvSquaredLink_gradient. auto_derive; [nra|field; assumption]. Qed.
Lemma invsq_mono L a b : 0 < a -> a < b -> Gen_InvSquaredLink_link L b < Gen_InvSquaredLink_link L a.
Proof. intros Ha Hab. unfold Gen_InvSquaredLink_link.
  assert (0 < a * a) by nra. assert (0 < b * b) by nra.
  apply Rinv_lt_contravar; [apply Rmult_lt_0_compat; assumption | nra]. Qed.
Lemma invsq_mu_range L e : 0 < e -> 0 < Gen_InvSquaredLink_mu L e.
Proof. intros. unfold Gen_InvSquaredLink_mu. apply Rinv_0_lt_compat. apply sqrt_lt_R0. assumption. Qed.

(* ---------------- domain rejection: check_y raises iff the link of some target is NaN ---------------- *)
From PG Require Import Base.ExtReal Gen.FitPrefix.
From Coq Require Import List Bool.
Import ListNotations.
Lemma nan_identity L y : Eisnan (GenE_IdentityLink_link L (Fin y)) = false. Proof. reflexivity. Qed.
Lemma nan_log L y : Eisnan (GenE_LogLink_link L (Fin y)) = true <-> y < 0.
Proof. unfold GenE_LogLink_link, Eln. destruct (Rlt_dec y 0) as [h|h]; [split; auto|].
  destruct (Req_EM_T y 0); cbn; split; try discriminate; intros; lra. Qed.
Lemma nan_logit L y : 0 < L -> (Eisnan (GenE_LogitLink_link L (Fin y)) = true <-> (y < 0 \/ L < y)).
Proof. intros HL. unfold GenE_LogitLink_link, Esub, Eln, Eneg, Eadd.
  destruct (Rlt_dec y 0) as [h|h]; [split; auto|].
  destruct (Req_EM_T y 0) as [e|e].
  - subst. replace (L + - 0) with L by ring. destruct (Rlt_dec L 0); [lra|]. destruct (Req_EM_T L 0); [lra|].
    cbn. split; [discriminate|intros [?|?]; lra].
  - destruct (Rlt_dec (L + - y) 0) as [h2|h2]; [cbn; split; auto; intros; right; lra|].
    destruct (Req_EM_T (L + - y) 0); cbn; (split; [discriminate|intros [?|?]; lra]). Qed.
Lemma nan_inverse L y : Eisnan (GenE_InverseLink_link L (Fin y)) = false.
Proof. unfold GenE_InverseLink_link, Epow_neg. destruct (Req_EM_T y 0); reflexivity. Qed.
Lemma nan_invsq L y : Eisnan (GenE_InvSquaredLink_link L (Fin y)) = false.
Proof. unfold GenE_InvSquaredLink_link, Epow_neg. destruct (Req_EM_T y 0); reflexivity. Qed.

(* order of events in the generated prefix of GAM.fit: y is validated before any statement that mentions y,
   and before the terms are compiled, logs/statistics are created, or the optimiser runs *)
Definition ev_eqb (a b : fit_event) : bool :=
  match a, b with
  | EvValidateParams, EvValidateParams | EvCheckY, EvCheckY | EvCheckX, EvCheckX | EvCheckXy, EvCheckXy
  | EvWeights, EvWeights | EvDataDep, EvDataDep | EvLogs, EvLogs | EvStats, EvStats | EvPirls, EvPirls
  | EvReturn, EvReturn => true
  | _, _ => false end.
Fixpoint before_check (evs : list (fit_event * bool)) : option (list (fit_event * bool) * list (fit_event * bool)) :=
  match evs with
  | [] => None
  | (e, u) :: rest => if ev_eqb e EvCheckY then Some ([], rest)
                      else match before_check rest with Some (pre, post) => Some ((e, u) :: pre, post) | None => None end
  end.
Definition state_changing (e : fit_event) : bool :=
  match e with EvDataDep | EvLogs | EvStats | EvPirls => true | _ => false end.
Definition fit_prefix_ok (evs : list (fit_event * bool)) : bool :=
  match before_check evs with
  | None => false
  | Some (pre, post) => forallb (fun p => negb (snd p) && negb (state_changing (fst p))) pre
                        && existsb (fun p => ev_eqb (fst p) EvPirls) post
  end.
Lemma fit_prefix_checked : fit_prefix_ok Gen_fit_events = true. Proof. vm_compute. reflexivity. Qed.
