(* Proofs/C02.v -- additivity of the linear predictor over the terms, locality of the partial effects
   (real instance of Model/Predict.v on top of Model/Columns.v).                                                  *)
From Coq Require Import List ZArith Reals Lra Lia Bool Arith.
From PG Require Import Base.Ops Base.Vec Model.BSpline Model.Columns Model.Predict Proofs.VecR Proofs.C16.
Import ListNotations.
Open Scope R_scope.

Notation lpR := (lp Rfops). Notation pdepR := (pdep Rfops). Notation pdepsR := (pdeps Rfops).

(* ---------- dot of a concatenation ---------- *)
Lemma dot_nil_r (u : list R) : dotR u [] = 0. Proof. destruct u; reflexivity. Qed.
Lemma dot_firstn (b : list R) : forall v, dotR b (firstn (length b) v) = dotR b v.
Proof. induction b as [|a b IH]; intros [|c v]; cbn; try reflexivity. rewrite IH. reflexivity. Qed.
Lemma dot_app_split (b : list R) : forall r v, dotR (b ++ r) v = dotR b (firstn (length b) v) + dotR r (skipn (length b) v).
Proof.
  induction b as [|a b IH]; intros r v.
  - cbn. lra.
  - destruct v as [|c v].
    + cbn [app dot firstn skipn length]. rewrite dot_nil_r. cbn. lra.
    + cbn [app dot firstn skipn length]. rewrite IH. cbn. lra.
Qed.
Lemma skipn_add {A} (a : nat) : forall (b : nat) (l : list A), skipn (a + b) l = skipn b (skipn a l).
Proof. induction a as [|a IH]; intros b l; [reflexivity|]. destruct l as [|x l]; [cbn; destruct b; reflexivity|]. cbn. apply IH. Qed.
Lemma vsum_app (u v : list R) : vsumR (u ++ v) = vsumR u + vsumR v.
Proof. induction u as [|a u IH]; cbn; [lra|]. rewrite IH. lra. Qed.

(* ---------- all_some ---------- *)
Lemma all_some_app {A} (l1 l2 : list (option A)) :
  all_some (l1 ++ l2) = match all_some l1, all_some l2 with Some a, Some b => Some (a ++ b) | _, _ => None end.
Proof.
  induction l1 as [|[x|] l1 IH]; cbn.
  - destruct (all_some l2); reflexivity.
  - rewrite IH. destruct (all_some l1), (all_some l2); reflexivity.
  - reflexivity.
Qed.
Lemma all_some_nth {A} (d : A) (l : list (option A)) : forall ps, all_some l = Some ps ->
  length ps = length l /\ forall i, (i < length l)%nat -> nth i l None = Some (nth i ps d).
Proof.
  induction l as [|[x|] l IH]; intros ps E; cbn in E.
  - inversion E. split; [reflexivity|]. cbn. intros; lia.
  - destruct (all_some l) as [r|]; [|discriminate]. inversion E; subst ps. destruct (IH r eq_refl) as [L N]. split; [cbn; lia|].
    intros [|i] Hi; [reflexivity|]. cbn. apply N. cbn in Hi. lia.
  - discriminate.
Qed.
Lemma all_some_none {A} (l : list (option A)) : all_some l = None <-> exists i, (i < length l)%nat /\ nth i l None = None.
Proof.
  induction l as [|[x|] l IH]; cbn.
  - split; [discriminate|]. intros [i [H _]]. lia.
  - destruct (all_some l) as [r|].
    + split; [discriminate|]. intros [[|i] [Hi N]]; [discriminate|]. destruct IH as [_ IH]. discriminate IH. exists i. split; [lia|exact N].
    + split; [|reflexivity]. intros _. destruct IH as [IH _]. destruct (IH eq_refl) as [i [Hi N]]. exists (S i). split; [lia|exact N].
  - split; [|reflexivity]. intros _. exists O. split; [lia|reflexivity].
Qed.

(* ---------- additivity ---------- *)
Lemma term_coefs_S (t : cterm R) ts beta i : term_coefs (t :: ts) beta (S i) = term_coefs ts (skipn (n_coefs t) beta) i.
Proof. unfold term_coefs, slice. rewrite coef_start_S. cbn [nth]. rewrite skipn_add. reflexivity. Qed.
Lemma pdep_S (t : cterm R) ts beta i row : pdepR (t :: ts) beta (S i) row = pdepR ts (skipn (n_coefs t) beta) i row.
Proof. unfold pdep. rewrite term_coefs_S. reflexivity. Qed.
Lemma pdeps_cons (t : cterm R) ts beta row :
  pdepsR (t :: ts) beta row = all_some (pdepR (t :: ts) beta 0 row :: map (fun i => pdepR ts (skipn (n_coefs t) beta) i row) (seq 0 (length ts))).
Proof.
  unfold pdeps. cbn [length seq map]. f_equal. f_equal. rewrite <- seq_shift, map_map. apply map_ext. intros i. apply pdep_S.
Qed.
Lemma pdep_0 (t : cterm R) ts beta row :
  pdepR (t :: ts) beta 0 row = option_map (fun b => dotR b (firstn (n_coefs t) beta)) (blockR t row).
Proof. reflexivity. Qed.

(* the linear predictor of a row is the sum of the per-term partial effects; it is undefined (the code raises) exactly
   when some term's columns are *)
Theorem lp_additive (ts : list (cterm R)) row : forall beta, lpR ts beta row = option_map vsumR (pdepsR ts beta row).
Proof.
  induction ts as [|t ts IH]; intros beta.
  - reflexivity.
  - rewrite pdeps_cons, pdep_0. unfold lp in *. cbn [row_blocks].
    destruct (blockR t row) as [b|] eqn:Eb; [|reflexivity]. cbn [option_map all_some].
    specialize (IH (skipn (n_coefs t) beta)). unfold pdeps in IH.
    destruct (row_blocksR ts row) as [r|]; cbn [option_map] in *.
    + destruct (all_some _) as [ps|]; [|discriminate]. cbn [option_map] in *. f_equal. inversion IH as [IH'].
      change (fr Rfops) with Rrops. cbn [vsum]. rewrite <- IH', dot_app_split, (block_length _ _ _ Eb).
      reflexivity.
    + destruct (all_some _); [discriminate|reflexivity].
Qed.

Lemma nth_map_seq {A} (f : nat -> option A) n i : (i < n)%nat -> nth i (map f (seq 0 n)) None = f i.
Proof.
  intros Hi. rewrite (nth_indep _ None (f n)) by (rewrite map_length, seq_length; exact Hi).
  rewrite (map_nth f). rewrite seq_nth by exact Hi. reflexivity.
Qed.
Theorem additive_terms ts beta row l : lpR ts beta row = Some l ->
  exists ps, length ps = length ts /\ (forall i, (i < length ts)%nat -> pdepR ts beta i row = Some (nth i ps 0)) /\ l = vsumR ps.
Proof.
  rewrite lp_additive. destruct (pdepsR ts beta row) as [ps|] eqn:E; [|discriminate]. cbn. intros H; inversion H. exists ps.
  unfold pdeps in E. destruct (all_some_nth 0 _ _ E) as [L N]. rewrite map_length, seq_length in L, N. split; [exact L|]. split; [|reflexivity].
  intros i Hi. rewrite <- (N i Hi). symmetry. apply (nth_map_seq (fun i => pdepR ts beta i row)). exact Hi.
Qed.
Theorem lp_raises_iff ts beta row : lpR ts beta row = None <-> exists i, (i < length ts)%nat /\ pdepR ts beta i row = None.
Proof.
  rewrite lp_additive. unfold pdeps. split.
  - destruct (all_some _) as [ps|] eqn:E; [discriminate|]. intros _. apply all_some_none in E. destruct E as [i [Hi N]].
    rewrite map_length, seq_length in Hi. exists i. split; [exact Hi|].
    rewrite (nth_map_seq (fun i => pdepR ts beta i row)) in N by exact Hi. exact N.
  - intros [i [Hi N]]. assert (E : all_some (map (fun i => pdepR ts beta i row) (seq 0 (length ts))) = None).
    { apply all_some_none. exists i. rewrite map_length, seq_length. split; [exact Hi|].
      rewrite (nth_map_seq (fun i => pdepR ts beta i row)) by exact Hi. exact N. }
    rewrite E. reflexivity.
Qed.

(* the partial effect of an intercept term is its coefficient *)
Theorem intercept_pdep (ts : list (cterm R)) beta i row : nth i ts CIntercept = CIntercept ->
  pdepR ts beta i row = Some (nth (coef_start ts i) beta 0).
Proof.
  intros E. unfold pdep, term_coefs, slice. rewrite E. cbn [block option_map n_coefs]. f_equal.
  rewrite <- (firstn_skipn (coef_start ts i) beta) at 2.
  destruct (Nat.le_gt_cases (length beta) (coef_start ts i)) as [H|H].
  - rewrite skipn_all2 by exact H. rewrite nth_overflow by (rewrite app_nil_r, firstn_length; lia). reflexivity.
  - rewrite app_nth2 by (rewrite firstn_length; lia). rewrite firstn_length, Nat.min_l by lia. rewrite Nat.sub_diag.
    destruct (skipn (coef_start ts i) beta) as [|c rest]; cbn; lra.
Qed.

(* fit_intercept=True appends an Intercept: lp = sum of the partial effects of the other terms + the last coefficient *)
Lemma coef_start_app (ts ts' : list (cterm R)) i : (i <= length ts)%nat -> coef_start (ts ++ ts') i = coef_start ts i.
Proof. intros H. unfold coef_start. rewrite firstn_app. replace (i - length ts)%nat with O by lia. cbn. rewrite app_nil_r. reflexivity. Qed.
Lemma pdep_app_l (ts ts' : list (cterm R)) beta i row : (i < length ts)%nat -> pdepR (ts ++ ts') beta i row = pdepR ts beta i row.
Proof. intros H. unfold pdep, term_coefs. rewrite coef_start_app by lia. rewrite app_nth1 by exact H. reflexivity. Qed.
Theorem additive_fit_intercept ts beta row :
  lpR (ts ++ [CIntercept]) beta row = option_map (fun ps => vsumR ps + nth (total_coefs ts) beta 0) (pdepsR ts beta row).
Proof.
  rewrite lp_additive. unfold pdeps. rewrite app_length. cbn [length]. rewrite Nat.add_1_r, seq_S, map_app, all_some_app. cbn [map Nat.add].
  rewrite (map_ext_in _ (fun i => pdepR ts beta i row)).
  2:{ intros i Hi. apply in_seq in Hi. apply pdep_app_l. lia. }
  rewrite (intercept_pdep (ts ++ [CIntercept]) beta (length ts) row) by (rewrite app_nth2, Nat.sub_diag by lia; reflexivity).
  rewrite coef_start_app by lia. rewrite coef_start_all. cbn [all_some].
  destruct (all_some _) as [ps|]; [|reflexivity]. cbn. f_equal. rewrite vsum_app. cbn. lra.
Qed.

(* ---------- locality ---------- *)
Definition agree_on (fs : list nat) (r1 r2 : list R) : Prop := forall f, In f fs -> nth f r1 0 = nth f r2 0.
Lemma scale_by_local by_ (r1 r2 b : list R) : agree_on (opt_list by_) r1 r2 -> scale_by Rfops by_ r1 b = scale_by Rfops by_ r2 b.
Proof. destruct by_ as [j|]; [|reflexivity]. intros H. cbn. unfold feat. cbn [Rfops fr Rrops r0]. rewrite (H j) by (left; reflexivity). reflexivity. Qed.
Lemma block_simple_local s r1 r2 : agree_on (simple_reads s) r1 r2 -> block_simpleR s r1 = block_simpleR s r2.
Proof.
  intros H. destruct s as [f|f e0 e1 n k p by_|f e0 e1 n d]; cbn [block_simple]; unfold feat; cbn [Rfops fr Rrops r0];
    rewrite (H f) by (left; reflexivity); try reflexivity.
  destruct (bspline_row Rfops e0 e1 n k p (nth f r2 0)); [|reflexivity]. cbn [option_map]. f_equal. apply scale_by_local.
  intros j Hj. apply H. right. exact Hj.
Qed.
Lemma tensor_blocks_local ms r1 r2 : agree_on (flat_map simple_reads ms) r1 r2 ->
  forall acc, tensor_blocks Rfops acc ms r1 = tensor_blocks Rfops acc ms r2.
Proof.
  induction ms as [|m ms IH]; intros H acc; [reflexivity|]. cbn [tensor_blocks].
  rewrite (block_simple_local m r1 r2) by (intros f Hf; apply H; cbn [flat_map]; apply in_or_app; left; exact Hf).
  destruct (block_simpleR m r2); [|reflexivity]. apply IH. intros f Hf. apply H. cbn [flat_map]. apply in_or_app. right. exact Hf.
Qed.
Theorem block_local t r1 r2 : agree_on (term_reads t) r1 r2 -> blockR t r1 = blockR t r2.
Proof.
  destruct t as [|s|ms by_]; cbn [block term_reads]; intros H.
  - reflexivity.
  - apply block_simple_local. exact H.
  - destruct ms as [|m ms]; [reflexivity|].
    rewrite (block_simple_local m r1 r2) by (intros f Hf; apply H; apply in_or_app; left; cbn [flat_map]; apply in_or_app; left; exact Hf).
    destruct (block_simpleR m r2) as [b|]; [|reflexivity].
    rewrite (tensor_blocks_local ms r1 r2) by (intros f Hf; apply H; apply in_or_app; left; cbn [flat_map]; apply in_or_app; right; exact Hf).
    destruct (tensor_blocks Rfops b ms r2); [|reflexivity]. cbn [option_map]. f_equal. apply scale_by_local.
    intros j Hj. apply H. apply in_or_app. right. exact Hj.
Qed.
Theorem pdep_local ts beta i r1 r2 : agree_on (term_reads (nth i ts CIntercept)) r1 r2 -> pdepR ts beta i r1 = pdepR ts beta i r2.
Proof. intros H. unfold pdep. rewrite (block_local _ r1 r2 H). reflexivity. Qed.
