(* Proofs/C03Transfer.v -- Paramcoq free theorem: the rational instance of the basis model (what the correspondence
   check evaluates by vm_compute) denotes the real instance (what the theorems are about).                     *)
From Coq Require Import List ZArith QArith Qreals Reals Lra Lia Bool.
From Param Require Import Param.
From PG Require Import Base.Ops Base.Transfer Base.ParamNat Base.Vec Model.BSpline Proofs.C03Scale.
Import ListNotations.

Lemma zdiff_param a1 a2 (Ha : nat_R a1 a2) b1 b2 (Hb : nat_R b1 b2) : Z_R (zdiff a1 b1) (zdiff a2 b2).
Proof. apply nat_R_eq in Ha, Hb. subst. apply Z_R_refl. Qed.
Realizer zdiff as zdiff_R := zdiff_param.
Parametricity Recursive bspline_row.
Parametricity Recursive gen_edge_knots.

Theorem bspline_row_Q2R (ek0 ek1 : Q) n k periodic (x : Q) :
  bspline_row Rfops (Q2R ek0) (Q2R ek1) n k periodic (Q2R x) =
  option_map (map Q2R) (bspline_row Qfops ek0 ek1 n k periodic x).
Proof.
  pose proof (bspline_row_R Q R QR Qfops Rfops Qfops_R ek0 _ eq_refl ek1 _ eq_refl n n (nat_R_refl n) k k (nat_R_refl k)
                periodic periodic (bool_R_refl periodic) x _ eq_refl) as H.
  destruct H as [lq lr Hl|]; cbn; [|reflexivity]. f_equal. symmetry. apply list_QR_inv. exact Hl.
Qed.

Open Scope R_scope.
Ltac compute_rows :=
  repeat match goal with
  | |- context [bspline_row Qfops ?a ?b ?n ?k ?p ?x] =>
      let r := eval vm_compute in (bspline_row Qfops a b n k p x) in
      change (bspline_row Qfops a b n k p x) with r
  end; cbn [option_map map].
Lemma Q2R_z z : Q2R (inject_Z z) = IZR z. Proof. apply Q2R_inject_Z. Qed.

(* Degenerate (equal) edge knots: the code replaces the scale 0 by 1, so rescaling x and the knots together changes the
   row.  Witness: knots (0,0), x = 1, a = 2: scaled positions 1 and 2. *)
Theorem affine_degenerate_refuted : exists a b e x n k, 0 < a /\ (k < n)%nat /\
  bspline_row Rfops (a * e + b) (a * e + b) n k false (a * x + b) <> bspline_row Rfops e e n k false x.
Proof.
  exists 2, 0, 0, 1, 1%nat, 0%nat. split; [lra|]. split; [lia|].
  replace (2 * 0 + 0) with (Q2R 0) by (rewrite Q2R_0; lra).
  replace (2 * 1 + 0) with (Q2R (inject_Z 2)) by (rewrite Q2R_z; lra).
  replace 0 with (Q2R 0) by apply Q2R_0. replace 1 with (Q2R 1) by apply Q2R_1.
  rewrite !bspline_row_Q2R. compute_rows. intro H. injection H as H. rewrite Q2R_0, Q2R_1 in H. lra.
Qed.

(* The period of the faithful model is (1+1e-9) * knot range, not the knot range itself: shifting x by exactly one knot
   range moves the wrapped position by 1e-9, which for order 0 can cross a knot.  Witness: knots (0,1), n=2, k=0, x=1/2. *)
Theorem period_knot_range_refuted : exists ek0 ek1 n k x, ek0 <> ek1 /\ (k < n)%nat /\
  bspline_row Rfops ek0 ek1 n k true (x + (Rmax ek0 ek1 - Rmin ek0 ek1)) <> bspline_row Rfops ek0 ek1 n k true x.
Proof.
  exists 0, 1, 2%nat, 0%nat, (/ 2). split; [lra|]. split; [lia|].
  replace (Rmax 0 1 - Rmin 0 1) with 1 by (unfold Rmax, Rmin; destruct (Rle_dec 0 1); lra).
  replace (/ 2 + 1) with (Q2R (3 # 2)) by (unfold Q2R; cbn; lra).
  replace (/ 2) with (Q2R (1 # 2)) by (unfold Q2R; cbn; lra).
  replace 0 with (Q2R 0) by apply Q2R_0. replace 1 with (Q2R 1) by apply Q2R_1.
  rewrite !bspline_row_Q2R. compute_rows. intro H. injection H as H1 H2. rewrite Q2R_0, Q2R_1 in *. lra.
Qed.

(* the former S10 gap point (scaled x = 1 + 5e-10, knots (0,1), n = 6, k = 3): after the repair it gets the right-edge row *)
Theorem periodic_former_gap_point :
  bspline_row Rfops 0 1 6 3 true (Q2R (20000000001 # 20000000000)) = bspline_row Rfops 0 1 6 3 true 1
  /\ bspline_row Rfops 0 1 6 3 true 1 = Some (map Q2R [1 # 6; 2 # 3; 1 # 6; 0; 0; 0]%Q).
Proof.
  replace 0 with (Q2R 0) by apply Q2R_0. replace 1 with (Q2R 1) by apply Q2R_1.
  rewrite !bspline_row_Q2R. compute_rows. split; reflexivity.
Qed.

(* ---------- Examples: the hypotheses of the C03 theorems are satisfiable by non-trivial values ---------- *)
Ltac to_Q := replace 0 with (Q2R 0) by apply Q2R_0; replace 1 with (Q2R 1) by apply Q2R_1.
Example ex_inside : bspline_row Rfops 0 1 4 1 false (Q2R (1 # 2)) = Some (map Q2R [0; 1 # 2; 1 # 2; 0]%Q)
                    /\ 0 <= scaled_x Rfops 0 1 (Q2R (1 # 2)) <= 1.
Proof. split.
  - to_Q. rewrite bspline_row_Q2R. compute_rows. reflexivity.
  - apply scaled_x_inside; [lra|]. unfold Rmin, Rmax, Q2R; cbn. destruct (Rle_dec 0 1); lra.
Qed.
Example ex_extrap_left : bspline_row Rfops 0 1 4 1 false (Q2R (-1 # 2)) = Some (map Q2R [5 # 2; -3 # 2; 0; 0]%Q).
Proof. to_Q. rewrite bspline_row_Q2R. compute_rows. reflexivity. Qed.
Example ex_extrap_right : bspline_row Rfops 0 1 5 3 false (Q2R (3 # 2)) <> None.
Proof. to_Q. rewrite bspline_row_Q2R. compute_rows. discriminate. Qed.
Example ex_periodic : bspline_row Rfops 0 1 6 3 true (Q2R (5 # 2)) <> None.
Proof. to_Q. rewrite bspline_row_Q2R. compute_rows. discriminate. Qed.
Example ex_edge_knots : exists lo hi, gen_edge_knots Rfops false [3; 1; 2] = Some (lo, hi).
Proof. eexists; eexists. reflexivity. Qed.
