(* Proofs/C02Gen.v -- the prediction plumbing generated from the source (Gen/Predict.v), instantiated with the column
   model: predict_mu is the inverse link of the linear predictor, partial_dependence(term, X) is the per-term partial
   effect; the grid facts extracted from generate_X_grid / _flatten_mesh are the ones Model/Predict.v implements.   *)
From Coq Require Import List ZArith Reals Lra Lia Bool Arith.
From PG Require Import Base.Ops Base.Vec Model.BSpline Model.Columns Model.Predict Proofs.VecR Proofs.C16 Proofs.C02 Gen.Predict Gen.Links.
Import ListNotations.
Open Scope R_scope.

(* instantiation of the abstract primitives: a data matrix is a list of rows; a model matrix / vector is None when
   building it raises *)
Definition m_build (ts : list (cterm R)) (x : list (list R)) (term : option nat) : option (list (list R)) :=
  all_some (map (fun row => match term with None => row_blocksR ts row | Some i => blockR (nth i ts CIntercept) row end) x).
Definition m_idx (ts : list (cterm R)) (term : option nat) : list nat :=
  match term with None => seq 0 (total_coefs ts) | Some i => coef_indices ts i end.
Definition m_take (v : option (list R)) (idx : list nat) : option (list R) := option_map (fun c => map (fun j => nth j c 0) idx) v.
Definition m_dot (mm : option (list (list R))) (v : option (list R)) : option (list R) :=
  match mm, v with Some rows, Some c => Some (map (fun r => dotR r c) rows) | _, _ => None end.
Definition m_link (g : R -> R) (v : option (list R)) : option (list R) := option_map (map g) v.
Definition id_ {A} (a : A) : A := a.

Definition model_predict_mu ts beta g x :=
  Gen_predict_mu id_ (m_build ts) (m_idx ts) m_take m_dot id_ (m_link g) (Some beta) x.
Definition model_partial_dependence ts beta i x :=
  Gen_partial_dependence id_ (m_build ts) (m_idx ts) m_take m_dot id_ (Some beta) i x.

Lemma all_some_map {A B C} (f : B -> C) (g : A -> option B) (x : list A) :
  all_some (map (fun a => option_map f (g a)) x) = option_map (map f) (all_some (map g x)).
Proof.
  induction x as [|a x IH]; [reflexivity|]. cbn [map all_some]. destruct (g a); [|reflexivity]. cbn [option_map]. rewrite IH.
  destruct (all_some (map g x)); reflexivity.
Qed.
Lemma map_nth_seq (beta : list R) : forall s n, (s + n <= length beta)%nat -> map (fun j => nth j beta 0) (seq s n) = slice beta s n.
Proof.
  intros s n. revert s. induction n as [|n IH]; intros s H; unfold slice in *; [reflexivity|].
  cbn [seq map]. rewrite IH by lia.
  assert (E : skipn s beta = nth s beta 0 :: skipn (S s) beta).
  { clear IH. revert s H. induction beta as [|c beta IHb]; intros s H; cbn in H; [lia|]. destruct s as [|s]; [reflexivity|].
    cbn [skipn nth]. apply IHb. lia. }
  rewrite E. reflexivity.
Qed.
Lemma take_all (beta : list R) : map (fun j => nth j beta 0) (seq 0 (length beta)) = beta.
Proof. rewrite map_nth_seq by lia. unfold slice. cbn. apply firstn_all. Qed.
Lemma total_coefs_firstn (ts : list (cterm R)) : forall i, (i < length ts)%nat ->
  (coef_start ts i + n_coefs (nth i ts CIntercept) <= total_coefs ts)%nat.
Proof.
  induction ts as [|t ts IH]; intros i Hi; [cbn in Hi; lia|]. destruct i as [|i].
  - rewrite coef_start_0. cbn. lia.
  - rewrite coef_start_S. cbn [nth]. change (total_coefs (t :: ts)) with (n_coefs t + total_coefs ts)%nat.
    specialize (IH i ltac:(cbn in Hi; lia)). lia.
Qed.

Theorem predict_mu_is_inverse_link ts beta g x : length beta = total_coefs ts ->
  model_predict_mu ts beta g x = option_map (map g) (all_some (map (lpR ts beta) x)).
Proof.
  intros L. unfold model_predict_mu, Gen_predict_mu, Gen_linear_predictor_X, Gen_modelmat, id_, m_link, m_take, m_idx, m_build, m_dot.
  cbn [option_map]. rewrite <- L, take_all. f_equal. unfold lp. rewrite all_some_map.
  destruct (all_some _); reflexivity.
Qed.
Theorem partial_dependence_is_pdep ts beta i x : length beta = total_coefs ts -> (i < length ts)%nat ->
  model_partial_dependence ts beta i x = all_some (map (pdepR ts beta i) x).
Proof.
  intros L Hi. unfold model_partial_dependence, Gen_partial_dependence, Gen_linear_predictor_M, Gen_modelmat, id_, m_take, m_idx, m_build, m_dot.
  cbn [option_map]. unfold coef_indices. rewrite map_nth_seq by (rewrite L; apply total_coefs_firstn; exact Hi).
  unfold pdep, term_coefs. rewrite all_some_map. destruct (all_some _); reflexivity.
Qed.

(* the three links used by the six model classes: link(predict_mu) is the linear predictor *)
Theorem link_of_predict_mu ts beta x mus : length beta = total_coefs ts ->
  (model_predict_mu ts beta (Gen_IdentityLink_mu 1) x = Some mus ->
     Some (map (Gen_IdentityLink_link 1) mus) = all_some (map (lpR ts beta) x)) /\
  (model_predict_mu ts beta (Gen_LogLink_mu 1) x = Some mus ->
     Some (map (Gen_LogLink_link 1) mus) = all_some (map (lpR ts beta) x)) /\
  (forall L, 0 < L -> model_predict_mu ts beta (Gen_LogitLink_mu L) x = Some mus ->
     Some (map (Gen_LogitLink_link L) mus) = all_some (map (lpR ts beta) x)).
Proof.
  intros Lb. repeat split; [| |intros L HL]; rewrite predict_mu_is_inverse_link by exact Lb;
    (destruct (all_some _) as [lps|]; [|discriminate]); cbn [option_map]; intros E; inversion E; f_equal; rewrite map_map;
    rewrite <- (map_id lps) at 2; apply map_ext; intros e.
  - reflexivity.
  - unfold Gen_LogLink_link, Gen_LogLink_mu. apply ln_exp.
  - unfold Gen_LogitLink_link, Gen_LogitLink_mu.
    assert (P : 0 < exp (- e)) by apply exp_pos.
    replace (L - L / (1 + exp (- e))) with (L * exp (- e) / (1 + exp (- e))) by (field; lra).
    unfold Rdiv. rewrite !ln_mult; try lra; try (apply Rinv_0_lt_compat; lra). rewrite ln_exp. lra.
    apply Rmult_lt_0_compat; lra.
Qed.

(* facts extracted from generate_X_grid / _flatten_mesh = what Model/Predict.v implements *)
Definition model_grid_facts : grid_facts :=
  {| grid_lo_tensor := 0; grid_hi_tensor := 1; grid_lo_simple := 0; grid_hi_simple := 1;
     grid_ij := true; grid_by_value := 1; flatten_by_value := 1 |}.
Lemma grid_facts_ok : Gen_grid_facts = model_grid_facts. Proof. reflexivity. Qed.
