(* Proofs/C20.v -- lemmas about the interpreter of Model/Loop.v run on the GENERATED skeleton Gen_pirls *)
From Coq Require Import List String Bool Arith Lia.
From PG Require Import Model.Loop Gen.C20Skeleton.
Import ListNotations.
Open Scope string_scope.
Open Scope list_scope.

(* ---------- generic facts about the dispatch loop ---------- *)
Definition entries (d : dispatch) (cs : list callback) (sn : snapshot) : list (string * snapshot) :=
  map (fun cb => (cb_name cb, sn)) (filter (fun cb => is_some (cb_method cb (d_guard d))) cs).

Lemma rev_cons_app {A} (e : A) l t : rev (e :: l) ++ t = rev l ++ e :: t.
Proof. simpl. rewrite <- app_assoc. reflexivity. Qed.

Lemma entries_cons d cb r sn :
  entries d (cb :: r) sn =
  if is_some (cb_method cb (d_guard d)) then (cb_name cb, sn) :: entries d r sn else entries d r sn.
Proof. unfold entries; simpl. destruct (is_some (cb_method cb (d_guard d))); reflexivity. Qed.

Lemma dispatch_spec d cs : forall st,
  (forall cb, In cb cs -> cb_method cb (d_guard d) <> None ->
      exists args, cb_method cb (d_call d) = Some args /\ forallb (arg_bound st) args = true) ->
  dispatch_cbs d cs st = Some (set_logs (rev (entries d cs (snap (d_call d) st)) ++ logs st) st).
Proof.
  induction cs as [|cb r IH]; intros st H.
  - destruct st; reflexivity.
  - rewrite entries_cons. cbn [dispatch_cbs].
    destruct (cb_method cb (d_guard d)) eqn:Eg.
    + destruct (H cb (or_introl eq_refl)) as (args & Ec & Eb). { rewrite Eg; discriminate. }
      rewrite Ec, Eb. rewrite IH.
      * cbn [is_some]. rewrite rev_cons_app. destruct st; reflexivity.
      * intros cb' Hin Hg. destruct (H cb' (or_intror Hin) Hg) as (a & E1 & E2). exists a; split; auto.
    + cbn [is_some]. apply IH. intros cb' Hin Hg. apply (H cb' (or_intror Hin) Hg).
Qed.

(* ---------- one iteration of the generated loop body ---------- *)
Section Iteration.
Variable c : cfg.
Hypothesis Hnf : forall k, numfail c k = false.
Hypothesis Hcbs : cbs_ok (cbs c).

Definition snap_start (k : nat) : snapshot :=   (* iteration k+1 entered holding vector k *)
  {| s_hook := HStart; s_it := S k; s_enter := k; s_coef := k; s_lp := Some k; s_mu := Some k;
     s_cnew := match k with 0 => None | S j => Some k end;
     s_diff := match k with 0 => None | S j => Some (j, k) end |}.
Definition snap_end (k : nat) : snapshot :=
  {| s_hook := HEnd; s_it := S k; s_enter := k; s_coef := S k; s_lp := Some k; s_mu := Some k;
     s_cnew := Some (S k); s_diff := Some (k, S k) |}.

(* the state after k completed iterations *)
Definition iter_logs (cs : list callback) (k : nat) : list (string * snapshot) :=   (* chronological *)
  entries (p_start Gen_pirls) cs (snap_start k) ++ entries (p_end Gen_pirls) cs (snap_end k).

Fixpoint all_logs (cs : list callback) (k : nat) : list (string * snapshot) :=      (* chronological, iterations 1..k *)
  match k with 0 => [] | S j => all_logs cs j ++ iter_logs cs j end.

Definition state_after (k : nat) : state :=
  {| it := k; enter := pred k; coef := k;
     lp_src := match k with 0 => None | S j => Some j end;
     mu_src := match k with 0 => None | S j => Some j end;
     cnew := match k with 0 => None | S j => Some k end;
     diff := match k with 0 => None | S j => Some (j, k) end;
     logs := rev (all_logs (cbs c) k); stats := 0; printed := [] |}.

Lemma arg_bound_start st : lp_src st <> None -> mu_src st <> None ->
  forall cb, In cb (cbs c) -> cb_method cb HStart <> None ->
  exists args, cb_method cb HStart = Some args /\ forallb (arg_bound st) args = true.
Proof.
  intros Hlp Hmu cb Hin Hm. cbn [cb_method] in *. destruct (cb_start cb) as [args|] eqn:E; [|congruence].
  exists args; split; [reflexivity|]. specialize (Hcbs cb Hin args E).
  rewrite forallb_forall in *. intros v Hv. specialize (Hcbs v Hv).
  destruct v; cbn in *; try reflexivity; try discriminate.
  - destruct (lp_src st); [reflexivity|congruence].
  - destruct (mu_src st); [reflexivity|congruence].
Qed.

Lemma arg_bound_end st : lp_src st <> None -> mu_src st <> None -> cnew st <> None -> diff st <> None ->
  forall cb, In cb (cbs c) -> cb_method cb HEnd <> None ->
  exists args, cb_method cb HEnd = Some args /\ forallb (arg_bound st) args = true.
Proof.
  intros Hlp Hmu Hc Hd cb Hin Hm. cbn [cb_method] in *. destruct (cb_end cb) as [args|] eqn:E; [|congruence].
  exists args; split; [reflexivity|]. rewrite forallb_forall. intros v Hv.
  destruct v; cbn; try reflexivity.
  - destruct (lp_src st); [reflexivity|congruence].
  - destruct (mu_src st); [reflexivity|congruence].
  - destruct (cnew st); [reflexivity|congruence].
  - destruct (diff st); [reflexivity|congruence].
Qed.

Lemma eqb_n_Sn k : Nat.eqb k (S k) = false.
Proof. apply Nat.eqb_neq. lia. Qed.

Lemma all_logs_S cs k : rev (all_logs cs (S k)) =
  rev (entries (p_end Gen_pirls) cs (snap_end k)) ++ rev (entries (p_start Gen_pirls) cs (snap_start k)) ++ rev (all_logs cs k).
Proof. cbn [all_logs]. unfold iter_logs. rewrite !rev_app_distr, app_assoc. reflexivity. Qed.

Ltac step_dispatch :=
  first [ rewrite dispatch_spec by (apply arg_bound_start; cbn; discriminate)
        | rewrite dispatch_spec by (apply arg_bound_end; cbn; discriminate) ].

Lemma body_step k :
  exec_block Gen_pirls c Gen_pirls_body (begin_iter (state_after k)) =
  Ok (if cmp_holds OLt (oracle c (S k)) then Broke else Normal) (state_after (S k)).
Proof.
  unfold Gen_pirls_body.
  assert (Hfin : forall sg (l1 l2 : list (string * snapshot)), l1 = l2 ->
     Ok sg {| it := S k; enter := k; coef := S k; lp_src := Some k; mu_src := Some k; cnew := Some (S k);
              diff := Some (k, S k); logs := l1; stats := 0; printed := [] |} =
     Ok sg {| it := S k; enter := k; coef := S k; lp_src := Some k; mu_src := Some k; cnew := Some (S k);
              diff := Some (k, S k); logs := l2; stats := 0; printed := [] |}) by (intros; subst; reflexivity).
  destruct (hascons c) eqn:Hc;
  cbn; rewrite ?Hc; cbn; step_dispatch; cbn; rewrite Hnf; cbn; step_dispatch; cbn;
  unfold diff_cmp; cbn; rewrite eqb_n_Sn;
  (destruct (oracle c (S k)); cbn; apply Hfin; rewrite all_logs_S;
   destruct k; reflexivity).
Qed.
End Iteration.

(* ---------- the stopping index ---------- *)
Lemma first_lt_bounds o : forall n k, 1 <= n -> k <= first_lt o k n <= k + n - 1.
Proof.
  induction n as [|n IH]; intros k Hn; [lia|].
  destruct n as [|n']; [cbn; lia|].
  change (first_lt o k (S (S n'))) with (match o k with DLt => k | _ => first_lt o (S k) (S n') end).
  specialize (IH (S k) ltac:(lia)). destruct (o k); lia.
Qed.

Lemma first_lt_before o : forall n k j, 1 <= n -> k <= j < first_lt o k n -> o j <> DLt.
Proof.
  induction n as [|n IH]; intros k j Hn Hj; [lia|].
  destruct n as [|n']; [cbn in Hj; lia|].
  change (first_lt o k (S (S n'))) with (match o k with DLt => k | _ => first_lt o (S k) (S n') end) in Hj.
  destruct (Nat.eq_dec j k) as [->|Hne].
  - destruct (o k); try discriminate. lia.
  - destruct (o k) eqn:E; try lia; apply (IH (S k) j); try lia.
Qed.

Lemma first_lt_hit o : forall n k, 1 <= n -> first_lt o k n < k + n - 1 -> o (first_lt o k n) = DLt.
Proof.
  induction n as [|n IH]; intros k Hn Hj; [lia|].
  destruct n as [|n']; [cbn in Hj; lia|].
  change (first_lt o k (S (S n'))) with (match o k with DLt => k | _ => first_lt o (S k) (S n') end) in *.
  destruct (o k) eqn:E; try assumption; apply IH; lia.
Qed.

(* ---------- the loop ---------- *)
Section Loop.
Variable c : cfg.
Hypothesis Hnf : forall k, numfail c k = false.
Hypothesis Hcbs : cbs_ok (cbs c).

Lemma loop_spec : forall n i fuel, 1 <= n -> i + n = max_iter c -> n + 1 <= fuel ->
  loop Gen_pirls c fuel i (state_after c i) = Ok Normal (state_after c (first_lt (oracle c) (S i) n)).
Proof.
  induction n as [|n IH]; intros i fuel Hn Hi Hf; [lia|].
  destruct fuel as [|f]; [lia|].
  cbn [loop]. assert (Hlt : Nat.ltb i (max_iter c) = true) by (apply Nat.ltb_lt; lia). rewrite Hlt.
  change (p_body Gen_pirls) with Gen_pirls_body. rewrite (body_step c Hnf Hcbs i).
  destruct n as [|n'].
  - cbn [first_lt]. destruct (cmp_holds OLt (oracle c (S i))); [reflexivity|].
    destruct f as [|f']; [lia|]. cbn [loop].
    assert (Hge : Nat.ltb (S i) (max_iter c) = false) by (apply Nat.ltb_ge; lia). rewrite Hge. reflexivity.
  - change (first_lt (oracle c) (S i) (S (S n'))) with
      (match oracle c (S i) with DLt => S i | _ => first_lt (oracle c) (S (S i)) (S n') end).
    destruct (oracle c (S i)) eqn:E; cbn [cmp_holds]; try reflexivity; apply IH; lia.
Qed.

Definition final_state (k : nat) (conv : bool) : state :=
  set_printed (if conv then [] else ["did not converge"]) (set_stats 1 (state_after c k)).

Lemma post_spec k : 1 <= k ->
  exec_block Gen_pirls c Gen_pirls_post (state_after c k) =
  Ok Returned (final_state k (cmp_holds OLt (oracle c k))).
Proof.
  intros Hk. destruct k as [|j]; [lia|].
  unfold Gen_pirls_post, final_state. cbn. unfold diff_cmp; cbn. rewrite eqb_n_Sn.
  destruct (oracle c (S j)); reflexivity.
Qed.

Lemma run_spec fuel : 1 <= max_iter c -> max_iter c + 1 <= fuel ->
  run Gen_pirls c fuel = Ok Returned (final_state (stop_index c) (cmp_holds OLt (oracle c (stop_index c)))).
Proof.
  intros Hm Hf. unfold run, stop_index.
  change init_state with (state_after c 0).
  rewrite (loop_spec (max_iter c) 0 fuel Hm eq_refl Hf).
  change (p_post Gen_pirls) with Gen_pirls_post.
  pose proof (first_lt_bounds (oracle c) (max_iter c) 1 Hm) as Hb.
  rewrite post_spec by lia. reflexivity.
Qed.
End Loop.

(* ---------- contents of the logs ---------- *)
Definition cb_entries (cb : callback) (j : nat) : list snapshot :=
  (if is_some (cb_start cb) then [snap_start j] else []) ++ (if is_some (cb_end cb) then [snap_end j] else []).

Lemma filter_entries_notin d cs sn name : ~ In name (map cb_name cs) ->
  filter (fun e : string * snapshot => String.eqb (fst e) name) (entries d cs sn) = [].
Proof.
  induction cs as [|cb r IH]; intros Hn; [reflexivity|].
  rewrite entries_cons. cbn [map In] in Hn.
  destruct (is_some (cb_method cb (d_guard d))).
  - cbn [filter fst]. destruct (String.eqb_spec (cb_name cb) name) as [E|E]; [tauto|]. apply IH; tauto.
  - apply IH; tauto.
Qed.

Lemma filter_entries d cs sn cb : names_unique cs -> In cb cs ->
  map snd (filter (fun e : string * snapshot => String.eqb (fst e) (cb_name cb)) (entries d cs sn)) =
  if is_some (cb_method cb (d_guard d)) then [sn] else [].
Proof.
  unfold names_unique. induction cs as [|cb0 r IH]; intros Hu Hin; [destruct Hin|].
  cbn [map] in Hu. inversion Hu as [|x l Hnotin Hu' Ex]; subst.
  rewrite entries_cons. destruct Hin as [->|Hin].
  - destruct (is_some (cb_method cb (d_guard d))).
    + cbn [filter fst]. rewrite String.eqb_refl. cbn [map snd]. rewrite filter_entries_notin by assumption. reflexivity.
    + rewrite filter_entries_notin by assumption. reflexivity.
  - assert (Hne : cb_name cb0 <> cb_name cb).
    { intros E. apply Hnotin. rewrite E. apply in_map. assumption. }
    destruct (is_some (cb_method cb0 (d_guard d))).
    + cbn [filter fst]. destruct (String.eqb_spec (cb_name cb0) (cb_name cb)); [tauto|]. apply IH; assumption.
    + apply IH; assumption.
Qed.

Lemma log_all_logs cs cb k : names_unique cs -> In cb cs ->
  map snd (filter (fun e : string * snapshot => String.eqb (fst e) (cb_name cb)) (all_logs cs k)) =
  flat_map (cb_entries cb) (seq 0 k).
Proof.
  intros Hu Hin. induction k as [|k IH]; [reflexivity|].
  rewrite seq_S, flat_map_app. cbn [all_logs flat_map]. rewrite filter_app, map_app, IH. f_equal.
  unfold iter_logs. rewrite filter_app, map_app, !filter_entries by assumption.
  rewrite app_nil_r. reflexivity.
Qed.

Lemma filter_rev {A} (f : A -> bool) l : filter f (rev l) = rev (filter f l).
Proof.
  induction l as [|a l IH]; [reflexivity|]. cbn [rev filter]. rewrite filter_app, IH. cbn [filter].
  destruct (f a); [reflexivity|]. rewrite app_nil_r. reflexivity.
Qed.

Lemma log_of_final c k conv cb : names_unique (cbs c) -> In cb (cbs c) ->
  log_of (cb_name cb) (final_state c k conv) = flat_map (cb_entries cb) (seq 0 k).
Proof.
  intros Hu Hin. unfold log_of, final_state. cbn [logs set_printed set_stats state_after].
  rewrite filter_rev, map_rev, rev_involutive. apply log_all_logs; assumption.
Qed.

Lemma flat_entries_length cb k : List.length (flat_map (cb_entries cb) (seq 0 k)) = k * hooks_of cb.
Proof.
  induction k as [|k IH]; [reflexivity|]. rewrite seq_S, flat_map_app, app_length, IH. cbn [flat_map].
  unfold cb_entries, hooks_of. destruct (is_some (cb_start cb)), (is_some (cb_end cb)); cbn; lia.
Qed.

Lemma flat_entries_hook cb k h :
  filter (fun e => hook_eqb (s_hook e) h) (flat_map (cb_entries cb) (seq 0 k)) =
  if is_some (cb_method cb h) then map (match h with HStart => snap_start | HEnd => snap_end end) (seq 0 k) else [].
Proof.
  induction k as [|k IH].
  - destruct (is_some (cb_method cb h)); reflexivity.
  - rewrite seq_S, flat_map_app, filter_app, IH. cbn [flat_map]. rewrite app_nil_r. unfold cb_entries.
    destruct h; cbn [cb_method]; destruct (is_some (cb_start cb)), (is_some (cb_end cb));
      cbn; rewrite ?map_app; cbn; rewrite ?app_nil_r; reflexivity.
Qed.

Lemma single_hook_its cb k : hooks_of cb = 1 -> map s_it (flat_map (cb_entries cb) (seq 0 k)) = seq 1 k.
Proof.
  intros H1. induction k as [|k IH]; [reflexivity|].
  rewrite seq_S, flat_map_app, map_app, IH. rewrite (seq_S k 1). f_equal.
  unfold hooks_of in H1. unfold cb_entries. cbn [flat_map].
  destruct (is_some (cb_start cb)), (is_some (cb_end cb)); cbn in *; try lia; reflexivity.
Qed.

Lemma start_only_entries cb k : is_some (cb_start cb) = true -> cb_end cb = None ->
  flat_map (cb_entries cb) (seq 0 k) = map snap_start (seq 0 k).
Proof.
  intros Hs He. induction k as [|k IH]; [reflexivity|].
  rewrite seq_S, flat_map_app, map_app, IH. unfold cb_entries. rewrite Hs, He. reflexivity.
Qed.

Lemma end_only_entries cb k : cb_start cb = None -> is_some (cb_end cb) = true ->
  flat_map (cb_entries cb) (seq 0 k) = map snap_end (seq 0 k).
Proof.
  intros Hs He. induction k as [|k IH]; [reflexivity|].
  rewrite seq_S, flat_map_app, map_app, IH. unfold cb_entries. rewrite Hs, He. reflexivity.
Qed.

(* ---------- statements used by Props/C20.v ---------- *)
Lemma nth_error_map_seq {A} (f : nat -> A) : forall n s j, j < n -> nth_error (map f (seq s n)) j = Some (f (s + j)).
Proof.
  induction n as [|n IH]; intros s j Hj; [lia|].
  destruct j as [|j]; cbn; [rewrite Nat.add_0_r; reflexivity|].
  rewrite IH by lia. f_equal. f_equal. lia.
Qed.

Section Top.
Variable c : cfg.
Variable fuel : nat.
Hypothesis Hok : ok_cfg c.
Hypothesis Hfuel : max_iter c + 1 <= fuel.

Let N := stop_index c.
Let conv := cmp_holds OLt (oracle c N).

Lemma run_final : run Gen_pirls c fuel = Ok Returned (final_state c N conv).
Proof. destruct Hok as (Hm & Hnf & Hcb). apply run_spec; assumption. Qed.

Lemma N_bounds : 1 <= N <= max_iter c.
Proof. destruct Hok as (Hm & _). pose proof (first_lt_bounds (oracle c) (max_iter c) 1 Hm). unfold N, stop_index. lia. Qed.

Lemma iterations : exists st, run Gen_pirls c fuel = Ok Returned st /\ it st = stop_index c /\ 1 <= it st <= max_iter c.
Proof. exists (final_state c N conv). split; [apply run_final|]. split; [reflexivity|]. apply N_bounds. Qed.

Lemma stop_rule : exists st, run Gen_pirls c fuel = Ok Returned st /\
  (forall j, 1 <= j < it st -> oracle c j <> DLt) /\
  (it st < max_iter c -> oracle c (it st) = DLt) /\
  (forall j, 1 <= j <= max_iter c -> oracle c j = DLt -> it st <= j).
Proof.
  exists (final_state c N conv). split; [apply run_final|]. cbn [it final_state set_printed set_stats state_after].
  destruct Hok as (Hm & _).
  assert (Hb : forall j, 1 <= j < N -> oracle c j <> DLt).
  { intros j Hj. apply (first_lt_before (oracle c) (max_iter c) 1 j Hm). exact Hj. }
  split; [exact Hb|]. split.
  - intros Hlt. apply (first_lt_hit (oracle c) (max_iter c) 1 Hm). fold (stop_index c). fold N. lia.
  - intros j Hj E. destruct (le_lt_dec N j) as [Hle|Hgt]; [exact Hle|]. exfalso. apply (Hb j); [lia|exact E].
Qed.

Lemma nonconvergence_reported : exists st, run Gen_pirls c fuel = Ok Returned st /\
  (oracle c (it st) = DLt -> printed st = []) /\
  (oracle c (it st) <> DLt -> printed st = ["did not converge"]).
Proof.
  exists (final_state c N conv). split; [apply run_final|].
  cbn [it printed final_state set_printed set_stats state_after]. unfold conv.
  destruct (oracle c N); cbn; split; intros H; try reflexivity; try discriminate; congruence.
Qed.

Lemma statistics_always : exists st, run Gen_pirls c fuel = Ok Returned st /\ stats st = 1.
Proof. exists (final_state c N conv). split; [apply run_final|reflexivity]. Qed.

Lemma final_coef_is_last : exists st, run Gen_pirls c fuel = Ok Returned st /\
  coef st = it st /\ cnew st = Some (it st).
Proof.
  exists (final_state c N conv). split; [apply run_final|].
  pose proof N_bounds as Hb. cbn [coef cnew it final_state set_printed set_stats state_after].
  destruct N; [lia|]. split; reflexivity.
Qed.

Section Logs.
Variable cb : callback.
Hypothesis Hu : names_unique (cbs c).
Hypothesis Hin : In cb (cbs c).

Lemma log_length : exists st, run Gen_pirls c fuel = Ok Returned st /\
  List.length (log_of (cb_name cb) st) = it st * hooks_of cb.
Proof.
  exists (final_state c N conv). split; [apply run_final|].
  rewrite log_of_final by assumption. apply flat_entries_length.
Qed.

Lemma log_per_hook h : exists st, run Gen_pirls c fuel = Ok Returned st /\
  map s_it (filter (fun e => hook_eqb (s_hook e) h) (log_of (cb_name cb) st)) =
  if is_some (cb_method cb h) then seq 1 (it st) else [].
Proof.
  exists (final_state c N conv). split; [apply run_final|].
  rewrite log_of_final by assumption. rewrite flat_entries_hook.
  destruct (is_some (cb_method cb h)); [|reflexivity].
  cbn [it final_state set_printed set_stats state_after]. rewrite map_map.
  rewrite <- (seq_shift N 0). destruct h; reflexivity.
Qed.

Lemma one_log_per_iter_single : hooks_of cb = 1 -> exists st, run Gen_pirls c fuel = Ok Returned st /\
  map s_it (log_of (cb_name cb) st) = seq 1 (it st).
Proof.
  intros H1. exists (final_state c N conv). split; [apply run_final|].
  rewrite log_of_final by assumption. apply single_hook_its. exact H1.
Qed.

Lemma start_log_contents : is_some (cb_start cb) = true -> cb_end cb = None ->
  exists st, run Gen_pirls c fuel = Ok Returned st /\
  List.length (log_of (cb_name cb) st) = it st /\
  forall j, j < it st -> exists e, nth_error (log_of (cb_name cb) st) j = Some e /\
     s_hook e = HStart /\ s_it e = S j /\ s_enter e = j /\ s_coef e = j /\ s_lp e = Some j /\ s_mu e = Some j.
Proof.
  intros Hs He. exists (final_state c N conv). split; [apply run_final|].
  rewrite log_of_final by assumption. rewrite start_only_entries by assumption.
  cbn [it final_state set_printed set_stats state_after]. split; [rewrite map_length, seq_length; reflexivity|].
  intros j Hj. exists (snap_start j). rewrite nth_error_map_seq by assumption. cbn. repeat split; reflexivity.
Qed.

Lemma end_log_contents : cb_start cb = None -> is_some (cb_end cb) = true ->
  exists st, run Gen_pirls c fuel = Ok Returned st /\
  List.length (log_of (cb_name cb) st) = it st /\
  forall j, j < it st -> exists e, nth_error (log_of (cb_name cb) st) j = Some e /\
     s_hook e = HEnd /\ s_it e = S j /\ s_enter e = j /\ s_coef e = S j /\ s_cnew e = Some (S j) /\ s_diff e = Some (j, S j).
Proof.
  intros Hs He. exists (final_state c N conv). split; [apply run_final|].
  rewrite log_of_final by assumption. rewrite end_only_entries by assumption.
  cbn [it final_state set_printed set_stats state_after]. split; [rewrite map_length, seq_length; reflexivity|].
  intros j Hj. exists (snap_end j). rewrite nth_error_map_seq by assumption. cbn. repeat split; reflexivity.
Qed.
End Logs.
End Top.

(* ---------- facts about the generated tables (finite: computed) ---------- *)
Definition find_builtin (k : string) : option builtin := find (fun b => String.eqb (b_key b) k) Gen_builtins.

Lemma deviance_builtin : exists b, find_builtin "deviance" = Some b /\ cb_name (b_cb b) = "deviance" /\
  cb_start (b_cb b) = Some [VGam; VY; VMu] /\ cb_end (b_cb b) = None /\ b_ret b = RDeviance [VY; VMu].
Proof. eexists. split; [vm_compute; reflexivity|]. repeat split. Qed.

Lemma builtins_single_hook : forall b, In b Gen_builtins -> hooks_of (b_cb b) = 1 /\ cb_ok (b_cb b) /\ cb_name (b_cb b) = b_key b.
Proof.
  assert (H : forallb (fun b => Nat.eqb (hooks_of (b_cb b)) 1 &&
                 match cb_start (b_cb b) with Some a => forallb start_safe a | None => true end &&
                 String.eqb (cb_name (b_cb b)) (b_key b)) Gen_builtins = true) by (vm_compute; reflexivity).
  rewrite forallb_forall in H. intros b Hb. specialize (H b Hb).
  apply andb_prop in H as [H H3]. apply andb_prop in H as [H1 H2].
  split; [apply Nat.eqb_eq; exact H1|]. split; [|apply String.eqb_eq; exact H3].
  intros args E. rewrite E in H2. exact H2.
Qed.

Lemma builtins_keys : map b_key Gen_builtins = ["deviance"; "diffs"; "accuracy"; "coef"].
Proof. vm_compute. reflexivity. Qed.

Definition is_class (n : string) (k : ctor) : bool := String.eqb (c_class k) n.

(* every model class whose constructor accepts `callbacks` hands it to the base constructor
   (before the fix "LinearGAM ignored its callbacks argument" this was refuted for LinearGAM: finding S13) *)
Lemma callbacks_forwarded : forall k, In k Gen_ctors -> smem "callbacks" (c_params k) = true /\ ctor_reaches "callbacks" k = true.
Proof.
  assert (H : forallb (fun k => smem "callbacks" (c_params k) && ctor_reaches "callbacks" k) Gen_ctors = true) by (vm_compute; reflexivity).
  rewrite forallb_forall in H. intros k Hk. specialize (H k Hk). apply andb_prop in H. exact H.
Qed.

Lemma loop_params_forwarded : forall k, In k Gen_ctors -> ctor_reaches "max_iter" k = true /\ ctor_reaches "tol" k = true.
Proof.
  assert (H : forallb (fun k => ctor_reaches "max_iter" k && ctor_reaches "tol" k) Gen_ctors = true) by (vm_compute; reflexivity).
  rewrite forallb_forall in H. intros k Hk. apply andb_prop. apply H. exact Hk.
Qed.

Lemma model_classes : map c_class Gen_ctors = ["GAM"; "LinearGAM"; "LogisticGAM"; "PoissonGAM"; "GammaGAM"; "InvGaussGAM"; "ExpectileGAM"].
Proof. vm_compute. reflexivity. Qed.

Lemma max_iter_validated : Gen_max_iter_constraint = ">=1" /\ Gen_max_iter_dtype = "int".
Proof. split; reflexivity. Qed.

(* ---------- the full-strength "one entry per iteration for every callback" is false of the model ---------- *)
Definition two_hook_cb : callback := {| cb_name := "user"; cb_start := Some [VGam; VMu]; cb_end := Some [VDiff] |}.
Definition two_hook_cfg : cfg :=
  {| max_iter := 3; oracle := fun _ => DGt; numfail := fun _ => false; hascons := false; cbs := [two_hook_cb] |}.

Lemma two_hook_ok : ok_cfg two_hook_cfg /\ names_unique (cbs two_hook_cfg).
Proof.
  split; [split; [cbn; lia|split; [reflexivity|]]|].
  - intros cb [<-|[]] args E. injection E as <-. reflexivity.
  - repeat constructor. intros [].
Qed.

Lemma one_log_per_iter_refuted : exists c cb st, ok_cfg c /\ names_unique (cbs c) /\ In cb (cbs c) /\
  run Gen_pirls c (max_iter c + 1) = Ok Returned st /\ List.length (log_of (cb_name cb) st) <> it st.
Proof.
  exists two_hook_cfg, two_hook_cb.
  destruct (run Gen_pirls two_hook_cfg (max_iter two_hook_cfg + 1)) as [sg st| |] eqn:E; try (vm_compute in E; discriminate).
  exists st. destruct two_hook_ok as [H1 H2]. split; [exact H1|]. split; [exact H2|]. split; [left; reflexivity|].
  vm_compute in E. injection E as <- <-. split; [reflexivity|]. vm_compute. discriminate.
Qed.

(* ---------- hypotheses are satisfiable: a non-trivial configuration ---------- *)
Definition example_cfg : cfg :=
  {| max_iter := 7; oracle := fun k => match k with 3 => DEq | 5 => DLt | 6 => DLt | _ => DGt end;
     numfail := fun _ => false; hascons := true;
     cbs := map b_cb Gen_builtins ++ [two_hook_cb] |}.

Example example_cfg_ok : ok_cfg example_cfg /\ names_unique (cbs example_cfg) /\
  (exists st, run Gen_pirls example_cfg 8 = Ok Returned st /\ it st = 5 /\ printed st = [] /\ stats st = 1 /\
     map s_it (log_of "deviance" st) = [1; 2; 3; 4; 5] /\ List.length (log_of "user" st) = 10).
Proof.
  split; [split; [cbn; lia|split; [reflexivity|]]|split].
  - intros cb Hin args E.
    assert (H : forallb (fun cb => match cb_start cb with Some a => forallb start_safe a | None => true end) (cbs example_cfg) = true) by (vm_compute; reflexivity).
    rewrite forallb_forall in H. specialize (H cb Hin). rewrite E in H. exact H.
  - unfold names_unique. vm_compute. repeat constructor; cbn; intuition discriminate.
  - destruct (run Gen_pirls example_cfg 8) as [sg st| |] eqn:E; try (vm_compute in E; discriminate).
    exists st. vm_compute in E. injection E as <- <-. repeat split.
Qed.
