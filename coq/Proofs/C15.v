(* Proofs/C15.v -- lemmas about the heap machine of Model/Heap.v *)
From Coq Require Import List ZArith Bool Arith Lia.
From PG Require Import Model.Heap.
Import ListNotations.

Lemma step_query : forall h o, is_query h o = true -> step o h = h.
Proof. intros h o H. destruct o; simpl in *; try discriminate; try reflexivity. now rewrite H. Qed.

Lemma run_queries : forall ops h, (forall o, In o ops -> is_query h o = true) -> run ops h = h.
Proof.
  induction ops as [| o r IH]; intros h H; simpl; auto. unfold run in *. simpl.
  rewrite (step_query h o) by (apply H; now left). apply IH. intros o' Ho. apply H. now right.
Qed.

Lemma upd_length : forall {A} (l : list A) i x, length (upd l i x) = length l.
Proof. induction l as [| y r IH]; intros [| j] x; simpl; auto. Qed.

Lemma nth_upd_same : forall {A} (l : list A) i x d, i < length l -> nth i (upd l i x) d = x.
Proof. induction l as [| y r IH]; intros [| j] x d H; simpl in *; try lia; auto. apply IH. lia. Qed.

Lemma nth_upd_other : forall {A} (l : list A) i j x d, i <> j -> nth j (upd l i x) d = nth j l d.
Proof. induction l as [| y r IH]; intros [| i] [| j] x d H; simpl; auto; try lia. Qed.

Lemma compile_ids_length : forall d ids ts, length (compile_ids d ids ts) = length ts.
Proof. induction ids as [| i r IH]; intros ts; simpl; auto. now rewrite IH, upd_length. Qed.

Lemma compile_ids_other : forall d ids ts j, ~ In j ids -> nth j (compile_ids d ids ts) dflt_t = nth j ts dflt_t.
Proof.
  induction ids as [| i r IH]; intros ts j H; simpl; auto.
  rewrite IH by (intros Hin; apply H; now right). apply nth_upd_other. intros ->. apply H. now left.
Qed.

Definition good (d : nat) (t : tobj) : Prop := t_kind t = KSpline -> t_knots t = None \/ t_knots t = Some d.

Lemma compile_t_knots : forall d t, good d t -> t_knots (compile_t d t) = Some d.
Proof.
  intros d [k kn] H. unfold compile_t, good in *. simpl in *. destruct k; simpl; auto.
  destruct kn; simpl; auto. destruct (H eq_refl); congruence.
Qed.

Lemma compile_t_keeps : forall d t, t_knots t = Some d -> t_knots (compile_t d t) = Some d.
Proof. intros d [k kn] H. unfold compile_t. simpl in *. destruct k; simpl; auto. now rewrite H. Qed.

Lemma compile_t_good : forall d t, good d t -> good d (compile_t d t).
Proof. intros d t H _. right. now apply compile_t_knots. Qed.

Lemma compile_ids_keeps : forall d ids ts j, t_knots (nth j ts dflt_t) = Some d ->
  t_knots (nth j (compile_ids d ids ts) dflt_t) = Some d.
Proof.
  induction ids as [| i r IH]; intros ts j H; simpl; auto. apply IH.
  destruct (Nat.eq_dec i j) as [-> | Hne].
  - destruct (Nat.lt_ge_cases j (length ts)) as [Hl | Hl].
    + rewrite nth_upd_same by auto. now apply compile_t_keeps.
    + rewrite nth_overflow in H by lia. discriminate.
  - now rewrite nth_upd_other.
Qed.

Lemma compile_ids_knots : forall d ids ts,
  (forall i, In i ids -> i < length ts /\ good d (nth i ts dflt_t)) ->
  forall j, In j ids -> t_knots (nth j (compile_ids d ids ts) dflt_t) = Some d.
Proof.
  induction ids as [| i r IH]; intros ts H j Hj; simpl in *; [contradiction |].
  destruct (H i (or_introl eq_refl)) as [Hi Hg].
  assert (Hset : t_knots (nth i (upd ts i (compile_t d (nth i ts dflt_t))) dflt_t) = Some d).
  { rewrite nth_upd_same by auto. now apply compile_t_knots. }
  destruct Hj as [<- | Hj]; [now apply compile_ids_keeps |].
  apply IH; auto. intros k Hk. rewrite upd_length. destruct (H k (or_intror Hk)) as [Hk1 Hk2]. split; auto.
  destruct (Nat.eq_dec i k) as [<- | Hne].
  - rewrite nth_upd_same by auto. now apply compile_t_good.
  - now rewrite nth_upd_other.
Qed.

Lemma clean_good : forall h ids d, clean h ids -> forall i, In i ids -> i < length (h_terms h) /\ good d (nth i (h_terms h) dflt_t).
Proof. intros h ids d H i Hi. destruct (H i Hi) as [H1 H2]. split; auto. intros Hk. left. now apply H2. Qed.

Lemma get_m_upd_same : forall h ts m x, m < length (h_models h) -> get_m (mkH ts (upd (h_models h) m x)) m = x.
Proof. intros. unfold get_m. simpl. now apply nth_upd_same. Qed.

Lemma fit_fresh : forall h m d, m < length (h_models h) -> clean h (m_terms (get_m h m)) ->
  m_fit (get_m (step (Fit m d) h) m) = fresh_fit d (m_terms (get_m h m)) /\
  m_terms (get_m (step (Fit m d) h) m) = m_terms (get_m h m).
Proof.
  intros h m d Hm Hc. simpl. unfold fit_model. rewrite get_m_upd_same by auto. simpl. split; auto.
  unfold fresh_fit, knots_of. do 2 f_equal. apply map_ext_in. intros j Hj.
  apply compile_ids_knots; auto. now apply clean_good.
Qed.

Lemma fit_isolated : forall h m m' d, m <> m' ->
  (forall i, In i (m_terms (get_m h m)) -> ~ In i (m_terms (get_m h m'))) ->
  obs (step (Fit m d) h) m' = obs h m'.
Proof.
  intros h m m' d Hne Hdis. simpl. unfold fit_model, obs, get_m. simpl.
  rewrite nth_upd_other by auto. f_equal. unfold knots_of. apply map_ext_in. intros j Hj.
  rewrite compile_ids_other; auto. intros Hin. now apply (Hdis j Hin).
Qed.

(* ------------------------------------------------------------------ witness histories *)
Definition hist_refit := [NewTerm KSpline false; NewModel [0]; Fit 0 1].            (* then Fit 0 2 *)
Definition hist_shared := [NewTerm KSpline false; NewModel [0]; NewModel [0]; Fit 0 1]. (* then Fit 1 2 *)
Definition hist_shared_factor := [NewTerm KFactor false; NewModel [0]; NewModel [0]; Fit 0 1].

Lemma refit_keeps_knots :
  m_fit (get_m (run (hist_refit ++ [Fit 0 2]) empty) 0) = Some (2, [Some 1]) /\ fresh_fit 2 [0] = Some (2, [Some 2]).
Proof. split; reflexivity. Qed.

Lemma shared_terms_share_knots :
  m_fit (get_m (run (hist_shared ++ [Fit 1 2]) empty) 1) = Some (2, [Some 1]) /\ fresh_fit 2 [0] = Some (2, [Some 2]).
Proof. split; reflexivity. Qed.

Lemma shared_factor_changes_other_model :
  obs (run hist_shared_factor empty) 0 = (Some (1, [Some 1]), [Some 1]) /\
  obs (run (hist_shared_factor ++ [Fit 1 2]) empty) 0 = (Some (1, [Some 1]), [Some 2]).
Proof. split; reflexivity. Qed.

(* an unfitted model's keep_best=False grid search compiles the (shared) term objects of self *)
Lemma unfitted_gridsearch_touches_terms :
  knots_of (h_terms (run [NewTerm KSpline false; NewModel [0]; GridsearchNoKeep 0 1] empty)) [0] = [Some 1].
Proof. reflexivity. Qed.
