(* Proofs/C15.v -- lemmas about the heap machine of Model/Heap.v *)
From Coq Require Import List ZArith Bool Arith Lia.
From PG Require Import Model.Heap.
Import ListNotations.

Lemma step_query : forall h o, is_query h o = true -> step o h = h.
Proof. intros h o H. destruct o; simpl in *; try discriminate; try reflexivity. now rewrite H. Qed.

Lemma run_queries : forall ops h, (forall o, In o ops -> is_query h o = true) -> run ops h = h.
Proof.
  induction ops as [| o r IH]; intros h H; simpl; auto. unfold run in *. simpl.
  rewrite (step_query h o) by (apply H; now left). apply IH. intros o' Ho. apply H. now right.
Qed.

Lemma upd_length : forall {A} (l : list A) i x, length (upd l i x) = length l.
Proof. induction l as [| y r IH]; intros [| j] x; simpl; auto. Qed.

Lemma nth_upd_same : forall {A} (l : list A) i x d, i < length l -> nth i (upd l i x) d = x.
Proof. induction l as [| y r IH]; intros [| j] x d H; simpl in *; try lia; auto. apply IH. lia. Qed.

Lemma nth_upd_other : forall {A} (l : list A) i j x d, i <> j -> nth j (upd l i x) d = nth j l d.
Proof. induction l as [| y r IH]; intros [| i] [| j] x d H; simpl; auto; try lia. Qed.

Lemma compile_ids_length : forall d ids ts, length (compile_ids d ids ts) = length ts.
Proof. induction ids as [| i r IH]; intros ts; simpl; auto. now rewrite IH, upd_length. Qed.

Lemma compile_ids_other : forall d ids ts j, ~ In j ids -> nth j (compile_ids d ids ts) dflt_t = nth j ts dflt_t.
Proof.
  induction ids as [| i r IH]; intros ts j H; simpl; auto.
  rewrite IH by (intros Hin; apply H; now right). apply nth_upd_other. intros ->. apply H. now left.
Qed.

Lemma compile_t_idem : forall d t, compile_t d (compile_t d t) = compile_t d t.
Proof. intros d [k kn g]. unfold compile_t. simpl. destruct g; reflexivity. Qed.

Lemma compile_t_fresh : forall d t, t_knots (compile_t d (fresh_term t)) = t_knots (compile_t d t).
Proof. intros d [k kn g]. unfold compile_t, fresh_term. simpl. destruct g; reflexivity. Qed.

(* after compile_ids every listed (valid) object is the compile of what it was before, however often it is listed *)
Lemma compile_ids_in : forall d ids ts j, j < length ts ->
  nth j (compile_ids d ids ts) dflt_t = if existsb (Nat.eqb j) ids then compile_t d (nth j ts dflt_t) else nth j ts dflt_t.
Proof.
  induction ids as [| i r IH]; intros ts j Hj; simpl; auto.
  rewrite IH by (now rewrite upd_length).
  destruct (Nat.eqb j i) eqn:E; simpl.
  - apply Nat.eqb_eq in E. subst i. rewrite nth_upd_same by auto.
    destruct (existsb (Nat.eqb j) r); [apply compile_t_idem | reflexivity].
  - apply Nat.eqb_neq in E. rewrite nth_upd_other by auto. reflexivity.
Qed.

Lemma existsb_eqb_in : forall j ids, In j ids -> existsb (Nat.eqb j) ids = true.
Proof. intros j ids H. apply existsb_exists. exists j. split; auto. apply Nat.eqb_refl. Qed.

Lemma get_m_upd_same : forall h ts m x, m < length (h_models h) -> get_m (mkH ts (upd (h_models h) m x)) m = x.
Proof. intros. unfold get_m. simpl. now apply nth_upd_same. Qed.

(* the fit record, and the state of the model's term objects right after fit, are those of a fresh model: for every heap *)
Lemma fit_fresh : forall h m d, m < length (h_models h) -> valid_ids h (m_terms (get_m h m)) ->
  let h' := step (Fit m d) h in
  m_fit (get_m h' m) = fresh_fit h d (m_terms (get_m h m)) /\
  m_terms (get_m h' m) = m_terms (get_m h m) /\
  knots_of (h_terms h') (m_terms (get_m h' m)) = map (fun i => t_knots (compile_t d (fresh_term (get_t h i)))) (m_terms (get_m h m)).
Proof.
  intros h m d Hm Hv. cbv zeta. simpl. unfold fit_model. rewrite get_m_upd_same by auto. simpl.
  assert (E : knots_of (compile_ids d (m_terms (get_m h m)) (h_terms h)) (m_terms (get_m h m)) =
              map (fun i => t_knots (compile_t d (fresh_term (get_t h i)))) (m_terms (get_m h m))).
  { unfold knots_of. apply map_ext_in. intros j Hj. rewrite compile_ids_in by (now apply Hv).
    rewrite existsb_eqb_in by auto. unfold get_t. now rewrite compile_t_fresh. }
  split; [| split]; auto. unfold fresh_fit. now rewrite E.
Qed.

Lemma fit_isolated : forall h m m' d, m <> m' ->
  (forall i, In i (m_terms (get_m h m)) -> ~ In i (m_terms (get_m h m'))) ->
  obs (step (Fit m d) h) m' = obs h m'.
Proof.
  intros h m m' d Hne Hdis. simpl. unfold fit_model, obs, get_m. simpl.
  rewrite nth_upd_other by auto. f_equal. unfold knots_of. apply map_ext_in. intros j Hj.
  rewrite compile_ids_other; auto. intros Hin. now apply (Hdis j Hin).
Qed.

(* gridsearch(keep_best=True): afterwards every term object of the model is a new one *)
Lemma keep_best_fresh_objects : forall h m d sb, m < length (h_models h) ->
  forall i, In i (m_terms (get_m (step (GridsearchKeep m d sb) h) m)) -> length (h_terms h) <= i.
Proof.
  intros h m d sb Hm i Hi. simpl in Hi. unfold copy_model in Hi.
  set (h0 := if is_fitted h m then h else mkH (compile_ids d (m_terms (get_m h m)) (h_terms h)) (h_models h)) in *.
  assert (L0 : length (h_terms h0) = length (h_terms h)).
  { unfold h0. destruct (is_fitted h m); auto. simpl. apply compile_ids_length. }
  assert (M0 : h_models h0 = h_models h) by (unfold h0; destruct (is_fitted h m); auto).
  destruct (sb && is_fitted h m); simpl in Hi; unfold get_m in Hi; simpl in Hi;
    rewrite M0, nth_upd_same in Hi by auto; simpl in Hi; apply in_seq in Hi; lia.
Qed.

(* ------------------------------------------------------------------ witness histories *)
Definition hist_shared (k : tkind) := [NewTerm k false; NewModel [0]; NewModel [0]; Fit 0 1].     (* then Fit 1 2 *)

Lemma shared_term_changes_other_model : forall k,
  obs (run (hist_shared k) empty) 0 = (Some (1, [Some 1]), [Some 1]) /\
  obs (run (hist_shared k ++ [Fit 1 2]) empty) 0 = (Some (1, [Some 1]), [Some 2]).
Proof. intros k. split; reflexivity. Qed.

(* an unfitted model's keep_best=False grid search compiles the (shared) term objects of self *)
Lemma unfitted_gridsearch_touches_terms :
  knots_of (h_terms (run [NewTerm KSpline false; NewModel [0]; GridsearchNoKeep 0 1] empty)) [0] = [Some 1].
Proof. reflexivity. Qed.
