(* Proofs/C14Info.v -- info / build_from_info round trip (guarded), its refutations, get_params / set_params *)
From Coq Require Import List ZArith Ascii String Bool Arith Lia.
From PG Require Import Model.Terms Proofs.C14Dedup Proofs.C14Dist.
Import ListNotations.
Open Scope string_scope.
Open Scope list_scope.

Lemma omap_num_of : forall l, omap num_of_v (map v_of_num l) = Some l.
Proof. induction l as [| x r IH]; simpl; auto. rewrite IH. destruct x; reflexivity. Qed.
Lemma omap_ostr_of : forall l, omap ostr_of_v (map v_of_ostr l) = Some l.
Proof. induction l as [| x r IH]; simpl; auto. rewrite IH. destruct x; reflexivity. Qed.
Lemma vnum_list_of : forall l, vnum_list (vnums l) = Some l.
Proof. intros. unfold vnum_list, vnums. simpl. apply omap_num_of. Qed.
Lemma vostr_list_of : forall l, vostr_list (vostrs l) = Some l.
Proof. intros. unfold vostr_list, vostrs. simpl. apply omap_ostr_of. Qed.
Lemma oz_of : forall o, oz_of_v (v_of_oz o) = Some o.
Proof. destruct o; reflexivity. Qed.

Lemma behav_norm : forall x x', validate_simple x = Some x' -> wf_simple x -> x' = x.
Proof. intros x x' H Hwf. unfold wf_simple in Hwf. congruence. Qed.

Definition guard_simple (x : simple) : bool := hidden_default_simple x.

(* validation looks at dtype / constraints of a linear term only through term_level_ok; with the constructor defaults it
   succeeds whenever it did with the hidden values *)
Lemma build_simple_info : forall x, wf_simple x -> guard_simple x = true ->
  exists x', build_simple (info_simple x) = Some x' /\ behav_simple x' = behav_simple x.
Proof.
  intros x Hwf Hg. destruct x as [l | s | s c].
  - (* linear: rebuilt with dtype='numerical', constraints=[None] *)
    destruct l as [f lam pen vb dt con]. unfold build_simple, info_simple. cbn -[validate_simple vnum_list vostr_list vnums vostrs].
    rewrite vnum_list_of, vostr_list_of. cbn -[validate_simple].
    unfold wf_simple, validate_simple in Hwf. cbn in Hwf.
    destruct (term_level_ok dt pen (bcast lam (List.length pen)) con) eqn:Ev; [| discriminate].
    injection Hwf as Hlam. unfold validate_simple. cbn. rewrite Hlam.
    assert (Ev' : term_level_ok "numerical" pen lam [None] = true).
    { rewrite Hlam in Ev. unfold term_level_ok in *. repeat (apply andb_prop in Ev; destruct Ev as [Ev ?]).
      cbn. repeat (apply andb_true_intro; split); auto. }
    rewrite Ev'. eexists. split; [reflexivity |]. reflexivity.
  - (* spline: rebuilt with the user's knots if any, without knots otherwise; validation does not look at them *)
    destruct s as [f n o lam pen con ba dt b kn vb].
    unfold wf_simple, validate_simple in Hwf. cbn in Hwf.
    match type of Hwf with (if ?c then _ else _) = _ => destruct c eqn:Ev; [| discriminate] end.
    injection Hwf as Hlam. unfold spline_level_ok in Ev. cbn in Ev. rewrite Hlam in Ev.
    assert (Hfin : forall kn', validate_simple (SS (mkS f n o lam pen con ba dt b kn' vb)) = Some (SS (mkS f n o lam pen con ba dt b kn' vb))).
    { intros kn'. unfold validate_simple. cbn. rewrite Hlam. unfold spline_level_ok. cbn. now rewrite Ev. }
    destruct kn as [[[|] k] |]; unfold build_simple, info_simple.
    + cbn -[validate_simple vnum_list vostr_list vnums vostrs oz_of_v v_of_oz]. fold (vnums k).
      rewrite !vnum_list_of, !vostr_list_of, oz_of. cbn -[validate_simple]. rewrite Hfin. eexists. split; reflexivity.
    + cbn -[validate_simple vnum_list vostr_list vnums vostrs oz_of_v v_of_oz].
      rewrite !vnum_list_of, !vostr_list_of, oz_of. cbn -[validate_simple]. rewrite Hfin. eexists. split; reflexivity.
    + cbn -[validate_simple vnum_list vostr_list vnums vostrs oz_of_v v_of_oz].
      rewrite !vnum_list_of, !vostr_list_of, oz_of. cbn -[validate_simple]. rewrite Hfin. eexists. split; reflexivity.
  - (* factor: rebuilt with the constructor's hidden values (n_splines = 20, no knots) *)
    destruct s as [f n o lam pen con ba dt b kn vb]. unfold guard_simple in Hg. cbn in Hg.
    apply andb_prop in Hg. destruct Hg as [Hg Hk].
    apply andb_prop in Hg. destruct Hg as [Hg Hcon]. apply andb_prop in Hg. destruct Hg as [Hg Hby].
    apply andb_prop in Hg. destruct Hg as [Hg Hdt]. apply andb_prop in Hg. destruct Hg as [Ho Hba].
    apply Z.eqb_eq in Ho. apply String.eqb_eq in Hba, Hdt. subst.
    destruct b; [discriminate |]. destruct con as [| [c0 |] [| ? ?]]; try discriminate.
    assert (Hke : knots_entry kn = []) by (destruct kn as [[[|] k] |]; [discriminate | reflexivity | reflexivity]).
    unfold build_simple, info_simple. cbn [s_knots]. rewrite Hke. cbn -[validate_simple vnum_list vostr_list vnums vostrs].
    rewrite vnum_list_of, vostr_list_of. cbn -[validate_simple].
    unfold wf_simple, validate_simple in Hwf. cbn in Hwf.
    match type of Hwf with (if ?c then _ else _) = _ => destruct c eqn:Ev; [| discriminate] end.
    injection Hwf as Hlam. apply andb_prop in Ev. destruct Ev as [Ev Hc].
    unfold spline_level_ok in Ev. cbn -[term_level_ok] in Ev. rewrite Hlam in Ev.
    do 5 (apply andb_prop in Ev; destruct Ev as [Ev ?]).
    unfold validate_simple. cbn -[term_level_ok]. rewrite Hlam. unfold spline_level_ok. cbn -[term_level_ok].
    match goal with |- exists _, (if ?c then _ else _) = _ /\ _ => assert (Hcnd : c = true)
                     by (apply andb_true_intro; split; [| exact Hc];
                         do 5 (apply andb_true_intro; split; [| reflexivity]); exact Ev) end.
    eexists. split; [rewrite Hcnd; reflexivity |]. cbn. destruct kn as [[[|] k] |]; [discriminate | reflexivity | reflexivity].
Qed.

Lemma build_margs_info : forall ms, Forall wf_simple ms -> forallb guard_simple ms = true ->
  exists ms', omap build_simple (map info_simple ms) = Some ms' /\ map behav_simple ms' = map behav_simple ms /\
              List.length ms' = List.length ms.
Proof.
  induction ms as [| x r IH]; intros Hwf Hg; simpl in *; [exists []; auto |].
  inversion Hwf; subst. apply andb_prop in Hg. destruct Hg as [Hx Hr].
  destruct (build_simple_info x H1 Hx) as [x' [E1 E2]]. destruct (IH H2 Hr) as [r' [E3 [E4 E5]]].
  rewrite E1, E3. exists (x' :: r'). simpl. rewrite E2, E4, E5. auto.
Qed.

Lemma info_simple_type : forall x, exists kvs ty, info_simple x = VList kvs /\ vlookup "term_type" kvs = Some (VStr ty) /\
   String.eqb ty "intercept_term" = false /\ String.eqb ty "tensor_term" = false.
Proof.
  destruct x as [l | s | s c]; [| destruct s as [? ? ? ? ? ? ? ? ? kn ?]; destruct kn as [[[|] ?] |] ..];
    eexists; eexists; (split; [reflexivity |]); cbn; auto.
Qed.

Theorem info_roundtrip_guarded : forall t, wf_term t -> roundtrip_guard t = true ->
  exists t', build_from_info (info t) = Some t' /\ behav t' = behav t.
Proof.
  intros [vb | x | ms b vb] Hwf Hg; simpl in Hwf, Hg.
  - eexists. split; reflexivity.
  - destruct (build_simple_info x Hwf Hg) as [x' [E1 E2]].
    destruct (info_simple_type x) as [kvs [ty [Ei [El [N1 N2]]]]].
    exists (TS x'). unfold build_from_info, info. rewrite Ei. cbn [vlist obind]. rewrite El. cbn [vstr obind]. rewrite N1, N2.
    rewrite <- Ei, E1. simpl. now rewrite E2.
  - destruct Hwf as [Hwf Hby]. apply andb_prop in Hg. destruct Hg as [Hg H2].
    destruct (build_margs_info ms Hwf Hg) as [ms' [E1 [E2 E3]]].
    exists (TTe ms' b false). unfold build_from_info, info. cbn -[omap build_simple Nat.ltb oz_of_v v_of_oz by_ok]. rewrite E1.
    cbn -[Nat.ltb oz_of_v v_of_oz by_ok]. rewrite oz_of. cbn -[Nat.ltb by_ok].
    rewrite E3. assert (2 <= List.length ms)%nat by (destruct ms as [| ? [| ? ?]]; simpl in *; try discriminate; lia).
    destruct (List.length ms <? 2)%nat eqn:E; [apply Nat.ltb_lt in E; lia |]. rewrite Hby.
    split; [reflexivity |]. simpl. now rewrite E2.
Qed.

(* compile only reads what behav keeps: equal behaviour before compile gives equal behaviour after *)
Lemma behav_compile_simple : forall dk nc x y, behav_simple x = behav_simple y ->
  behav_simple (compile_simple dk nc x) = behav_simple (compile_simple dk nc y).
Proof.
  intros dk nc x y H. destruct x as [l | s | s c], y as [l' | s' | s' c']; simpl in *; try discriminate; auto.
  - destruct s as [f n o lam pen con ba dt b kn vb], s' as [f' n' o' lam' pen' con' ba' dt' b' kn' vb']. simpl in *.
    injection H as -> -> -> -> -> -> -> -> -> Hk.
    destruct kn as [[[|] k] |], kn' as [[[|] k'] |]; simpl in *; try discriminate; try reflexivity.
    now injection Hk as ->.
  - destruct s as [f n o lam pen con ba dt b kn vb], s' as [f' n' o' lam' pen' con' ba' dt' b' kn' vb']. simpl in *.
    injection H as -> -> -> -> -> -> -> -> Hk ->. reflexivity.
Qed.

Lemma behav_compile : forall dk nc t u, behav t = behav u -> behav (compile dk nc t) = behav (compile dk nc u).
Proof.
  intros dk nc t u H. destruct t as [vb | x | ms b vb], u as [vb' | y | ms' b' vb']; simpl in *; try discriminate; auto.
  - inversion H. f_equal. now apply behav_compile_simple.
  - inversion H as [[Hm Hb]]. f_equal. clear H Hb. revert ms' Hm.
    induction ms as [| x r IH]; intros [| y r'] Hm; simpl in *; try discriminate; auto.
    inversion Hm. f_equal; [now apply behav_compile_simple | now apply IH].
Qed.

Theorem info_roundtrip_compiled_guarded : forall dk nc t, wf_term t -> roundtrip_guard t = true ->
  exists t', build_from_info (info t) = Some t' /\ behav (compile dk nc t') = behav (compile dk nc t).
Proof.
  intros dk nc t Hwf Hg. destruct (info_roundtrip_guarded t Hwf Hg) as [t' [E1 E2]]. exists t'. split; auto.
  now apply behav_compile.
Qed.

(* ------------------------------------------------------------------ witnesses: the unguarded statement is false *)
Definition w_spline : sset := mkS 0 6 3 [NF 3 (-2)] [Some "auto"] [None] "ps" "numerical" None None false.
Definition w_knots : term := TS (SS (mkS 0 6 3 [NF 3 (-2)] [Some "auto"] [None] "ps" "numerical" None (Some (true, [NI (-1); NI 2])) false)).
(* a factor term after `termlist.spline_order = 2` (s(0) + f(1)) *)
Definition w_factor_order : term := TS (SF (mkS 1 20 2 [NF 3 (-2)] [Some "auto"] [None] "ps" "categorical" None None false) "one-hot").

(* repaired ("fix: a spline term's info dropped edge knots given by the user"): the former counterexample round-trips exactly,
   and a term that differs only in its user-given knots is a different term for TermList de-duplication *)
Lemma w_knots_roundtrips : wf_term w_knots /\ build_from_info (info w_knots) = Some w_knots /\
  termlist [w_knots; TS (SS w_spline); w_knots] = [w_knots; TS (SS w_spline)].
Proof. split; [reflexivity |]. split; reflexivity. Qed.
Lemma w_factor_order_refutes : wf_term w_factor_order /\
  (exists ts, tl_set "spline_order" (VInt 2) [TS (SS w_spline); TS (SF (mkS 1 20 0 [NF 3 (-2)] [Some "auto"] [None] "ps" "categorical" None None false) "one-hot")]
              = (Ok, ts) /\ nth 1 ts (TI false) = w_factor_order) /\
  forall t', build_from_info (info w_factor_order) = Some t' -> behav t' <> behav w_factor_order.
Proof.
  split; [reflexivity |]. split; [eexists; split; vm_compute; reflexivity |].
  intros t' H. vm_compute in H. inversion H; subst. vm_compute. discriminate.
Qed.

(* plural assignment is not total on valid values of the right length *)
Lemma w_plural_linear_attr_error :
  let ts := [TS (SS w_spline); TS (SL (mkL 1 [NF 3 (-2)] [Some "auto"] false "numerical" [None]))] in
  Forall wf_term ts /\ tl_size "n_splines" ts = 2%nat /\ fst (tl_set "n_splines" (VList [VInt 9; VInt 9]) ts) = EAttr /\
  fst (tl_set "n_splines" (VInt 9) ts) = EAttr.
Proof. cbv zeta. split; [repeat constructor | vm_compute; auto]. Qed.

Lemma w_plural_ragged_tensor :
  let ts := [TTe [SS (mkS 0 6 3 [NI 1; NI 2] [Some "l2"; Some "auto"] [None] "ps" "numerical" None None false); SS w_spline] None false] in
  Forall wf_term ts /\ tl_size "lam" ts = 3%nat /\ fst (tl_set "lam" (VList [VInt 1; VInt 2; VInt 3]) ts) = EVal.
Proof. cbv zeta. split; [repeat constructor | vm_compute; auto]. Qed.

(* a constructor keyword shadows later assignments: gam = GAM(s(0)+s(1), lam=[1,2]); gam.lam = [3,4]; gam.lam -> [1,2];
   and the hand-over at fit time puts [1,2] back on the terms *)
Definition w_gam : gam := mkG (Some [TS (SS w_spline); TS (SS (mkS 1 6 3 [NF 3 (-2)] [Some "auto"] [None] "ps" "numerical" None None false))])
                              [("lam", VList [VInt 1; VInt 2])] true.
Lemma w_gam_shadow :
  exists g', gam_set "lam" (VList [VInt 3; VInt 4]) w_gam = (Ok, g') /\
             gam_get "lam" g' = Some (VList [VInt 1; VInt 2]) /\
             exists g'', gam_fit_terms [] g' = (Ok, g'') /\ gam_get "lam" g'' = Some (VList [VList [VInt 1]; VList [VInt 2]]).
Proof. eexists. split; [vm_compute; reflexivity |]. split; [vm_compute; reflexivity |]. eexists. split; vm_compute; reflexivity. Qed.

(* ------------------------------------------------------------------ get_params / set_params *)
Lemma aset_same : forall {B} k (v : B) l, NoDup (map fst l) -> In (k, v) l -> aset k v l = l.
Proof.
  induction l as [| [k' v'] r IH]; intros Hnd Hin; simpl in *; [contradiction |].
  inversion Hnd; subst. destruct (String.eqb k k') eqn:E.
  - apply String.eqb_eq in E. subst k'. destruct Hin as [Hin | Hin]; [now inversion Hin |].
    exfalso. apply H1. now apply (in_map fst) in Hin.
  - destruct Hin as [Hin | Hin]; [inversion Hin; subst; rewrite String.eqb_refl in E; discriminate |].
    f_equal. now apply IH.
Qed.

Lemma set_params_same : forall names force o ps, NoDup (map fst (o_attrs o)) -> (forall p, In p ps -> In p (o_attrs o)) ->
  fold_left (set_param names force) ps o = o.
Proof.
  induction ps as [| [k v] r IH]; intros Hnd Hin; simpl; auto.
  assert (E : set_param names force o (k, v) = o).
  { unfold set_param. simpl. destruct (accepts names force o k); auto. rewrite aset_same; auto; [now destruct o | apply Hin; now left]. }
  rewrite E. apply IH; auto. intros p Hp. apply Hin. now right.
Qed.

Theorem params_roundtrip_same : forall deep force o, NoDup (map fst (o_attrs o)) ->
  set_params deep force o (get_params deep o) = o.
Proof.
  intros deep force o Hnd. unfold set_params. apply set_params_same; auto.
  intros p Hp. unfold get_params in Hp. destruct deep; auto. now apply filter_In in Hp.
Qed.

Lemma alookup_aset : forall {B} k (v : B) l, alookup k (aset k v l) = Some v.
Proof.
  induction l as [| [k' v'] r IH]; simpl; [now rewrite String.eqb_refl |].
  destruct (String.eqb k k') eqn:E; simpl; rewrite E; auto.
Qed.

Lemma alookup_filter : forall {B} (f : string -> bool) k (l : list (string * B)), f k = true ->
  alookup k (filter (fun p => f (fst p)) l) = alookup k l.
Proof.
  induction l as [| [k' v'] r IH]; intros Hf; simpl; auto.
  destruct (f k') eqn:E; simpl; destruct (String.eqb k k') eqn:Ek; auto.
  apply String.eqb_eq in Ek. subst. congruence.
Qed.

(* a public parameter that is set reads back through get_params *)
Theorem params_set_get : forall deep force o k v, public o k = true -> In k (map fst (get_params false o)) ->
  alookup k (get_params false (set_params deep force o [(k, v)])) = Some v.
Proof.
  intros deep force o k v Hp Hin. unfold set_params. simpl. unfold set_param. simpl.
  assert (Ha : accepts (map fst (get_params deep o)) force o k = true).
  { unfold accepts. assert (Hh : has_attr o k = true).
    { unfold has_attr. apply orb_true_intro. left. unfold mem_str. apply existsb_exists. exists k. split; [| apply String.eqb_refl].
      unfold get_params in Hin. apply in_map_iff in Hin. destruct Hin as [p [Hk Hp']]. apply filter_In in Hp'. destruct Hp' as [Hp' _].
      apply in_map_iff. now exists p. }
    unfold public in Hp. apply andb_prop in Hp. destruct Hp as [Hp _]. rewrite Hh, Hp. simpl. now rewrite !orb_true_r. }
  rewrite Ha. unfold get_params. simpl. unfold public in *. simpl.
  rewrite (alookup_filter (fun k => no_edge_us k && negb (mem_str k (o_exclude o))) k); auto. apply alookup_aset.
Qed.

Lemma mem_str_In : forall k l, mem_str k l = true <-> In k l.
Proof.
  intros k l. unfold mem_str. rewrite existsb_exists. split.
  - intros [x [Hx E]]. apply String.eqb_eq in E. now subst.
  - intros H. exists k. split; auto. apply String.eqb_refl.
Qed.

(* a name the object does not have is ignored ... *)
Theorem unknown_ignored : forall deep o k v, has_attr o k = false -> set_params deep false o [(k, v)] = o.
Proof.
  intros deep o k v Hh. unfold set_params. simpl. unfold set_param. simpl.
  assert (Ha : accepts (map fst (get_params deep o)) false o k = false).
  { unfold accepts. rewrite Hh. simpl. rewrite orb_false_r.
    destruct (mem_str k (map fst (get_params deep o))) eqn:E; auto. exfalso.
    apply mem_str_In in E. unfold has_attr in Hh. apply orb_false_elim in Hh. destruct Hh as [Hh _].
    assert (In k (map fst (o_attrs o))).
    { unfold get_params in E. destruct deep; auto. apply in_map_iff in E. destruct E as [p [Hk Hp]]. apply filter_In in Hp.
      apply in_map_iff. exists p. tauto. }
    apply mem_str_In in H. congruence. }
  now rewrite Ha.
Qed.

(* ... and so is a private / fitted attribute (leading or trailing underscore) unless deep or force ... *)
Theorem private_ignored : forall o k v, no_edge_us k = false -> set_params false false o [(k, v)] = o.
Proof.
  intros o k v Hu. unfold set_params, set_param. cbn [fold_left fst snd].
  assert (Ha : accepts (map fst (get_params false o)) false o k = false).
  { unfold accepts. rewrite Hu, andb_false_r, !orb_false_r.
    destruct (mem_str k (map fst (get_params false o))) eqn:E; auto. exfalso.
    apply mem_str_In in E. unfold get_params in E. apply in_map_iff in E. destruct E as [p [Hk Hp]]. apply filter_In in Hp.
    destruct Hp as [_ Hp]. unfold public in Hp. rewrite Hk, Hu in Hp. simpl in Hp. discriminate. }
  now rewrite Ha.
Qed.

(* ... unless forced *)
Theorem forced_set : forall deep o k v, alookup k (o_attrs (set_params deep true o [(k, v)])) = Some v.
Proof.
  intros deep o k v. unfold set_params. simpl. unfold set_param. simpl.
  unfold accepts. rewrite orb_true_r. simpl. apply alookup_aset.
Qed.

(* set_params(lam=...) on a model whose terms are still 'auto' and that got no lam keyword is silently dropped *)
Lemma w_gam_set_params_dropped :
  let g := mkG None [] true in
  gam_set_params "lam" (VInt 5) false g = (Ok, g) /\ gam_get "lam" g = None.
Proof. cbv zeta. split; reflexivity. Qed.
