(* Proofs/C01Inst.v -- the generic stationarity theorem instantiated with the GENERATED families and links:
   deviance derivative from C06, inverse-link derivative proved here, score equation from C01. *)
From Coq Require Import List Reals Lra Lia Arith Bool.
From Coquelicot Require Import Coquelicot.
From PG Require Import Base.Ops Base.Vec Model.Pirls Proofs.VecR Proofs.C04 Proofs.C04b Proofs.C01 Proofs.C01Grad Proofs.C06 Proofs.C07
                       Gen.Links Gen.Dists.
Import ListNotations.
Open Scope R_scope.

(* ---------- derivative of each inverse link = 1 / gradient(mu) ---------- *)
Lemma mu_derive_identity L lp : is_derive (Gen_IdentityLink_mu L) lp 1.
Proof. unfold Gen_IdentityLink_mu. auto_derive; [trivial|ring]. Qed.
Lemma mu_derive_log L lp : is_derive (Gen_LogLink_mu L) lp (Gen_LogLink_mu L lp).
Proof. unfold Gen_LogLink_mu. auto_derive; [trivial|ring]. Qed.
Lemma mu_derive_logit L lp : 0 < L ->
  is_derive (Gen_LogitLink_mu L) lp (Gen_LogitLink_mu L lp * (L - Gen_LogitLink_mu L lp) / L).
Proof. intros HL. unfold Gen_LogitLink_mu. pose proof (exp_pos (- lp)) as He.
  auto_derive; [lra|]. field. split; lra. Qed.

(* observations (w, y, mu) of a model: mu = ginv (row . b) *)
Definition obs_of (ginv : R -> R) (B : list (list R)) (wy : list (R * R)) (b : list R) : list (R * R * R) :=
  map (fun t => (fst (snd t), snd (snd t), ginv (dotR (fst t) b))) (combine B wy).
Lemma obs_of_length ginv B wy b : length wy = length B -> length (obs_of ginv B wy b) = length B.
Proof. intros H. unfold obs_of. rewrite map_length, combine_length. lia. Qed.

Section Inst.
Variables (l : linkk) (d : distk) (L : R).
Variable dev : R -> R -> R. Variable ginv : R -> R. Variable dd : R -> R -> R. Variable gi : R -> R. Variable ok : R -> R -> Prop.
Hypothesis Hdev : forall y lp, ok y lp -> is_derive (dev y) (ginv lp) (dd y (ginv lp)).
Hypothesis Hginv : forall y lp, ok y lp -> is_derive ginv lp (gi lp).
(* the family-specific algebra: dd * gi = -2 (y - mu) / (V g'), and V, g' non-zero on valid observations *)
Hypothesis Halg : forall y lp, ok y lp ->
  gprime Rfops l L (ginv lp) <> 0 /\ V0 Rfops d L (ginv lp) <> 0 /\
  dd y (ginv lp) * gi lp = -2 * ((y - ginv lp) / (V0 Rfops d L (ginv lp) * gprime Rfops l L (ginv lp))).

Lemma combine_obs_score B : forall wy b, length wy = length B ->
  List.Forall (fun t => ok (snd (snd t)) (dotR (fst t) b)) (combine B wy) ->
  List.Forall (fun t => fst (fst (snd t)) * (dd (snd (fst (snd t))) (ginv (dotR (fst t) b)) * gi (dotR (fst t) b)) = -2 * snd (snd t))
              (combine B (combine wy (obs_score l d None L (obs_of ginv B wy b)))).
Proof.
  induction B as [|row B IH]; intros [|[w y] wy] b HL Hok; cbn in HL; try discriminate; [constructor|].
  cbn [combine] in Hok. inversion Hok as [|? ? H1 H2]; subst. cbn [fst snd] in H1.
  unfold obs_of. cbn [combine map obs_score]. fold (obs_of ginv B wy b). fold (obs_score l d None L (obs_of ginv B wy b)).
  constructor.
  - cbn [fst snd]. destruct (Halg y (dotR row b) H1) as [Hg [HV E]].
    replace (w * (dd y (ginv (dotR row b)) * gi (dotR row b))) with (w * (-2 * ((y - ginv (dotR row b)) / (V0 Rfops d L (ginv (dotR row b)) * gprime Rfops l L (ginv (dotR row b)))))) by (rewrite E; ring).
    cbn [asym fr Rfops r1 Rrops]. field. split; assumption.
  - apply IH; [lia|assumption].
Qed.

(* a fixed point of the PIRLS step is a stationary point of the penalised deviance, in every direction v *)
Theorem fixed_point_is_stationary m B wy P b v :
  List.Forall (fun r => length r = m) B -> length wy = length B -> square P m -> bisym P m ->
  length b = m -> length v = m ->
  List.Forall (fun t => ok (snd (snd t)) (dotR (fst t) b)) (combine B wy) ->
  is_step Rfops m B (obs_w2 l d None L (obs_of ginv B wy b)) P
          (vaddR (matvecR B b) (obs_rr l L (obs_of ginv B wy b))) b ->
  is_derive (pendev dev ginv B wy P b v) 0 0.
Proof.
  intros HB Lw SP Hsym Lb Lv Hok Hstep.
  assert (Hok' : List.Forall (fun o => ok (snd (fst (fst o))) (snd (fst o))) (mkobs B wy b v)).
  { unfold mkobs. apply Forall_map. eapply Forall_impl; [|exact Hok]. intros t Ht. exact Ht. }
  pose proof (pendev_derive dev ginv dd gi ok Hdev Hginv m B wy P b v SP Lb Lv Hok') as D.
  assert (Hnz : List.Forall (fun t => gprime Rfops l L (snd t) <> 0 /\ V0 Rfops d L (snd t) <> 0) (obs_of ginv B wy b)).
  { unfold obs_of. apply Forall_map. eapply Forall_impl; [|exact Hok]. intros t Ht. cbn [snd].
    destruct (Halg _ _ Ht) as [Hg [HV _]]. split; assumption. }
  pose proof (score_equation l d None L m B P (obs_of ginv B wy b) b HB (obs_of_length ginv B wy b Lw) (proj1 SP) Hnz Hstep) as Hscore.
  assert (Z : dsum ginv dd gi (mkobs B wy b v) + (dotR b (matvecR P v) + dotR v (matvecR P b)) = 0).
  { apply (stationary_from_score ginv dd gi m B wy (obs_score l d None L (obs_of ginv B wy b)) P b v); try assumption.
    - unfold obs_score. rewrite map_length. apply obs_of_length. exact Lw.
    - apply combine_obs_score; assumption. }
  rewrite Z in D. exact D.
Qed.
End Inst.

(* ---------- the five model classes ---------- *)
Definition ok_pos (y lp : R) : Prop := 0 < y.
Definition ok_nonneg (y lp : R) : Prop := 0 <= y.
Definition ok_any (y lp : R) : Prop := True.
Definition ok_binom (L : R) (y lp : R) : Prop := 0 <= y <= L.

Theorem linear_fixed_point_stationary sc m B wy P b v :
  List.Forall (fun r => length r = m) B -> length wy = length B -> square P m -> bisym P m -> length b = m -> length v = m ->
  is_step Rfops m B (obs_w2 LIdentity DNormal None 1 (obs_of (Gen_IdentityLink_mu 1) B wy b)) P
          (vaddR (matvecR B b) (obs_rr LIdentity 1 (obs_of (Gen_IdentityLink_mu 1) B wy b))) b ->
  is_derive (pendev (Gen_NormalDist_deviance0 false sc 1) (Gen_IdentityLink_mu 1) B wy P b v) 0 0.
Proof.
  intros HB Lw SP Hs Lb Lv Hstep.
  apply (fixed_point_is_stationary LIdentity DNormal 1 _ _ (fun y mu => -2 * (y - mu) / Gen_NormalDist_V0 1 mu) (fun _ => 1) ok_any) with (m := m); try assumption.
  - intros y lp _. apply normal_dev_derive.
  - intros y lp _. apply mu_derive_identity.
  - intros y lp _. cbn [gprime V0 fr Rfops r1 Rrops]. unfold Gen_IdentityLink_mu, Gen_NormalDist_V0.
    split; [lra|]. split; [lra|]. field.
  - apply Forall_forall. intros; exact I.
Qed.

Theorem poisson_fixed_point_stationary m B wy P b v :
  List.Forall (fun r => length r = m) B -> length wy = length B -> square P m -> bisym P m -> length b = m -> length v = m ->
  List.Forall (fun t => 0 <= snd (snd t)) (combine B wy) ->
  is_step Rfops m B (obs_w2 LLog DPoisson None 1 (obs_of (Gen_LogLink_mu 1) B wy b)) P
          (vaddR (matvecR B b) (obs_rr LLog 1 (obs_of (Gen_LogLink_mu 1) B wy b))) b ->
  is_derive (pendev (Gen_PoissonDist_deviance0 false 1 1) (Gen_LogLink_mu 1) B wy P b v) 0 0.
Proof.
  intros HB Lw SP Hs Lb Lv Hy Hstep.
  apply (fixed_point_is_stationary LLog DPoisson 1 _ _ (fun y mu => -2 * (y - mu) / Gen_PoissonDist_V0 1 mu) (Gen_LogLink_mu 1) ok_nonneg) with (m := m); try assumption.
  - intros y lp Hy0. apply pois_dev_derive; [exact Hy0|apply exp_pos].
  - intros y lp _. apply mu_derive_log.
  - intros y lp _. pose proof (exp_pos lp) as He. unfold Gen_LogLink_mu, Gen_PoissonDist_V0. cbn.
    rewrite !Rdivt_ok by lra.
    split; [apply Rgt_not_eq; apply Rlt_gt; apply Rdiv_lt_0_compat; lra|]. split; [lra|]. field. lra.
Qed.

Theorem logistic_fixed_point_stationary L m B wy P b v : 0 < L ->
  List.Forall (fun r => length r = m) B -> length wy = length B -> square P m -> bisym P m -> length b = m -> length v = m ->
  List.Forall (fun t => 0 <= snd (snd t) <= L) (combine B wy) ->
  is_step Rfops m B (obs_w2 LLogit DBinomial None L (obs_of (Gen_LogitLink_mu L) B wy b)) P
          (vaddR (matvecR B b) (obs_rr LLogit L (obs_of (Gen_LogitLink_mu L) B wy b))) b ->
  is_derive (pendev (Gen_BinomialDist_deviance0 false 1 L) (Gen_LogitLink_mu L) B wy P b v) 0 0.
Proof.
  intros HL HB Lw SP Hs Lb Lv Hy Hstep.
  apply (fixed_point_is_stationary LLogit DBinomial L _ _ (fun y mu => -2 * (y - mu) / Gen_BinomialDist_V0 L mu)
           (fun lp => Gen_LogitLink_mu L lp * (L - Gen_LogitLink_mu L lp) / L) (ok_binom L)) with (m := m); try assumption.
  - intros y lp Hy0. apply binom_dev_derive; [exact Hy0|apply logit_mu_range; exact HL].
  - intros y lp _. apply mu_derive_logit. exact HL.
  - intros y lp _. destruct (logit_mu_range L lp HL) as [M0 M1]. set (mu := Gen_LogitLink_mu L lp) in *.
    unfold Gen_BinomialDist_V0. cbn [gprime V0 fr Rfops rmul rsub r1 Rrops fdiv].
    assert (mu * (L - mu) <> 0) by (apply Rgt_not_eq; apply Rlt_gt; apply Rmult_lt_0_compat; lra).
    rewrite !Rdivt_ok by lra.
    split; [apply Rgt_not_eq; apply Rlt_gt; apply Rdiv_lt_0_compat; [lra|apply Rmult_lt_0_compat; lra]|].
    split; [apply Rgt_not_eq; apply Rlt_gt; apply Rmult_lt_0_compat; [lra|]; apply Rlt_Rminus; apply Rmult_lt_reg_r with L; [lra|]; unfold Rdiv; rewrite Rmult_assoc, Rinv_l by lra; lra|].
    field. repeat split; lra.
Qed.

Theorem gamma_fixed_point_stationary sc m B wy P b v :
  List.Forall (fun r => length r = m) B -> length wy = length B -> square P m -> bisym P m -> length b = m -> length v = m ->
  List.Forall (fun t => 0 < snd (snd t)) (combine B wy) ->
  is_step Rfops m B (obs_w2 LLog DGamma None 1 (obs_of (Gen_LogLink_mu 1) B wy b)) P
          (vaddR (matvecR B b) (obs_rr LLog 1 (obs_of (Gen_LogLink_mu 1) B wy b))) b ->
  is_derive (pendev (Gen_GammaDist_deviance0 false sc 1) (Gen_LogLink_mu 1) B wy P b v) 0 0.
Proof.
  intros HB Lw SP Hs Lb Lv Hy Hstep.
  apply (fixed_point_is_stationary LLog DGamma 1 _ _ (fun y mu => -2 * (y - mu) / Gen_GammaDist_V0 1 mu) (Gen_LogLink_mu 1) ok_pos) with (m := m); try assumption.
  - intros y lp Hy0. apply gamma_dev_derive; [exact Hy0|apply exp_pos].
  - intros y lp _. apply mu_derive_log.
  - intros y lp _. pose proof (exp_pos lp) as He. unfold Gen_LogLink_mu, Gen_GammaDist_V0. cbn.
    rewrite !Rdivt_ok by lra.
    split; [apply Rgt_not_eq; apply Rlt_gt; apply Rdiv_lt_0_compat; lra|]. split; [apply Rgt_not_eq; nra|]. field. lra.
Qed.
Theorem invgauss_fixed_point_stationary sc m B wy P b v :
  List.Forall (fun r => length r = m) B -> length wy = length B -> square P m -> bisym P m -> length b = m -> length v = m ->
  List.Forall (fun t => 0 < snd (snd t)) (combine B wy) ->
  is_step Rfops m B (obs_w2 LLog DInvGauss None 1 (obs_of (Gen_LogLink_mu 1) B wy b)) P
          (vaddR (matvecR B b) (obs_rr LLog 1 (obs_of (Gen_LogLink_mu 1) B wy b))) b ->
  is_derive (pendev (Gen_InvGaussDist_deviance0 false sc 1) (Gen_LogLink_mu 1) B wy P b v) 0 0.
Proof.
  intros HB Lw SP Hs Lb Lv Hy Hstep.
  apply (fixed_point_is_stationary LLog DInvGauss 1 _ _ (fun y mu => -2 * (y - mu) / Gen_InvGaussDist_V0 1 mu) (Gen_LogLink_mu 1) ok_pos) with (m := m); try assumption.
  - intros y lp Hy0. apply ig_dev_derive; [exact Hy0|apply exp_pos].
  - intros y lp _. apply mu_derive_log.
  - intros y lp _. pose proof (exp_pos lp) as He. unfold Gen_LogLink_mu, Gen_InvGaussDist_V0. cbn.
    rewrite !Rdivt_ok by lra.
    assert (0 < exp lp * exp lp * exp lp) by (apply Rmult_lt_0_compat; [apply Rmult_lt_0_compat|]; assumption).
    split; [apply Rgt_not_eq; apply Rlt_gt; apply Rdiv_lt_0_compat; lra|]. split; [lra|]. field. lra.
Qed.
