(* Proofs/C14Plural.v -- plural attributes on tensor terms, term lists and models *)
From Coq Require Import List ZArith Ascii String Bool Arith Lia.
From PG Require Import Model.Terms Proofs.C14Dedup Proofs.C14Dist.
Import ListNotations.
Open Scope list_scope.

Definition fl_term (name : string) (t : term) : list value := if is_intercept t then [] else flatten (term_get name t).

Lemma simple_size_ne : forall name x, simple_size name x <> inl Ok.
Proof. intros name x. unfold simple_size. destruct (attr_get name x); [destruct (np_size v) |]; discriminate. Qed.

Lemma term_size_ne : forall name t, term_size name t <> inl Ok.
Proof.
  intros name [vb | x | ms b vb]; unfold term_size; try discriminate; [apply simple_size_ne |].
  destruct (np_size (margs_get name ms)); discriminate.
Qed.

Lemma flatten_margs_get : forall name ms, flatten (margs_get name ms) = List.concat (map (fl_simple name) ms).
Proof. intros. unfold margs_get. rewrite flatten_list, map_map. reflexivity. Qed.

Lemma flatten_tl_get : forall name ts, flatten (tl_get name ts) = List.concat (map (fl_term name) ts).
Proof.
  intros name ts. unfold tl_get. rewrite flatten_list, map_map.
  induction ts as [| t r IH]; simpl; auto. unfold fl_term at 1. destruct (is_intercept t); simpl; auto. now rewrite IH.
Qed.

Lemma regular_rows_length : forall l k,
  forallb (fun x => match x with VList lx => forallb is_atom lx && (List.length lx =? k)%nat | _ => false end) l = true ->
  List.length (List.concat (map flatten l)) = (List.length l * k)%nat.
Proof.
  induction l as [| x r IH]; intros k H; simpl in *; auto.
  apply andb_prop in H. destruct H as [Hx Hr]. destruct x; try discriminate.
  apply andb_prop in Hx. destruct Hx as [Ha Hk]. apply Nat.eqb_eq in Hk. apply forallb_atoms in Ha.
  rewrite app_length, (IH k Hr), flatten_atoms_list by auto. lia.
Qed.

Lemma np_size_flat : forall l n, np_size (VList l) = Some n -> List.length (flatten (VList l)) = n.
Proof.
  intros l n H. simpl in H. destruct (forallb is_atom l) eqn:Ea.
  - inversion H. apply forallb_atoms in Ea. now rewrite flatten_atoms_list.
  - destruct l as [| x r]; [discriminate |]. destruct x; try discriminate.
    match type of H with (if ?c then _ else _) = _ => destruct c eqn:Ec; [| discriminate] end.
    injection H as H. rewrite flatten_list, <- H. now rewrite (regular_rows_length _ _ Ec).
Qed.

Lemma margs_set_readback : forall name ms n vals ms', Forall wf_simple ms ->
  np_size (margs_get name ms) = Some n -> List.length vals = n -> atoms vals ->
  margs_set name (wrap n vals) ms = (Ok, ms') ->
  flatten (margs_get name ms') = vals /\ Forall wf_simple ms'.
Proof.
  intros name ms n vals ms' Hwf Hn Hlen Hat H. unfold margs_set in H. rewrite flatten_margs_get in H.
  pose proof (np_size_flat _ _ Hn) as Hsz. fold (margs_get name ms) in Hsz. rewrite flatten_margs_get in Hsz.
  apply (meta_set_ok (fun _ => false) (simple_size name) (attr_set name) wf_simple (fl_simple name)) in H; auto.
  - destruct H as [H1 H2]. split; auto. rewrite flatten_margs_get, H1. unfold wrap. destruct (n =? 1)%nat eqn:E.
    + apply Nat.eqb_eq in E. subst n. destruct vals as [| v [| ? ?]]; try discriminate. inversion Hat; subst.
      simpl. rewrite Hsz. destruct v; simpl in *; try discriminate; reflexivity.
    + simpl. now apply flatten_atoms_list.
  - apply simple_size_ne.
  - intros t Ht. discriminate.
  - intros t k _ _ Hk. now apply simple_size_flat.
  - intros t k vs t' Pt _ Hk Hl Ha Hs. eapply attr_set_readback; eauto.
Qed.

Lemma term_size_flat : forall name t n, is_intercept t = false -> term_size name t = inr n -> List.length (fl_term name t) = n.
Proof.
  intros name [vb | x | ms b vb] n Hi H; [discriminate | |]; unfold fl_term, term_size in *; cbn [is_intercept term_get] in *.
  - now apply simple_size_flat.
  - destruct (np_size (margs_get name ms)) eqn:E; [| discriminate]. inversion H; subst. now apply np_size_flat.
Qed.

Lemma term_set_readback : forall name t n vals t', wf_term t -> is_intercept t = false -> term_size name t = inr n ->
  List.length vals = n -> atoms vals -> term_set name t (wrap n vals) = (Ok, t') ->
  fl_term name t' = vals /\ wf_term t'.
Proof.
  intros name [vb | x | ms b vb] n vals t' Hwf Hi Hn Hlen Hat H; [discriminate | |];
    unfold fl_term, term_size, term_set, wf_term in *; cbn [is_intercept term_get] in *.
  - destruct (attr_set name x (wrap n vals)) as [st x'] eqn:E. injection H as Hst Ht. subst st t'.
    destruct (attr_set_readback name x n vals x' Hwf Hn Hlen Hat E) as [H1 H2]. split; auto.
  - destruct Hwf as [Hwf Hby].
    destruct (margs_set name (wrap n vals) ms) as [st ms'] eqn:E. injection H as Hst Ht. subst st t'.
    destruct (np_size (margs_get name ms)) as [k |] eqn:En; [| discriminate]. injection Hn as Hn. subst k.
    destruct (margs_set_readback name ms n vals ms' Hwf En Hlen Hat E) as [H1 H2]. split; auto.
Qed.

(* ------------------------------------------------------------------ the term list / model level *)
Theorem tl_set_readback : forall name v ts ts', Forall wf_term ts -> tl_set name v ts = (Ok, ts') ->
  flatten (tl_get name ts') = (if is_list v then flatten v else repeat v (tl_size name ts)) /\ Forall wf_term ts'.
Proof.
  intros name v ts ts' Hwf H. unfold tl_set, tl_size in *. rewrite flatten_tl_get in *.
  apply (meta_set_ok is_intercept (term_size name) (term_set name) wf_term (fl_term name)) in H; auto.
  - destruct H as [H1 H2]. split; auto. now rewrite flatten_tl_get.
  - apply term_size_ne.
  - intros t Ht. unfold fl_term. now rewrite Ht.
  - intros t k _ Hs Hk. now apply term_size_flat.
  - intros t k vs t' Pt Hs Hk Hl Ha Hset. destruct (term_set_readback name t k vs t' Pt Hs Hk Hl Ha Hset) as [H1 H2]. auto.
Qed.

Theorem tl_set_wrong_length : forall name l ts, List.length (flatten (VList l)) <> tl_size name ts ->
  tl_set name (VList l) ts = (EVal, ts).
Proof.
  intros name l ts H. unfold tl_set, meta_set. apply Nat.eqb_neq in H. now rewrite H.
Qed.

Theorem tl_set_scalar_broadcast : forall name v ts, is_list v = false ->
  tl_set name v ts = tl_set name (VList (repeat v (tl_size name ts))) ts.
Proof.
  intros name v ts H. unfold tl_set, meta_set.
  assert (Ha : atoms (repeat v (tl_size name ts))) by (apply atoms_repeat; unfold is_atom; now rewrite H).
  rewrite (flatten_atoms_list _ Ha), repeat_length, Nat.eqb_refl. destruct v; try reflexivity; discriminate.
Qed.

(* any number of successful assignments keeps every term well-formed, so tl_set_readback applies at every step *)
Fixpoint tl_sets (ops : list (string * value)) (ts : list term) : option (list term) :=
  match ops with
  | [] => Some ts
  | (k, v) :: r => match tl_set k v ts with (Ok, ts') => tl_sets r ts' | _ => None end
  end.

Theorem tl_sets_wf : forall ops ts ts', Forall wf_term ts -> tl_sets ops ts = Some ts' -> Forall wf_term ts'.
Proof.
  induction ops as [| [k v] r IH]; intros ts ts' Hwf H; simpl in H; [inversion H; now subst |].
  destruct (tl_set k v ts) as [st ts1] eqn:E. destruct st; try discriminate.
  apply (IH ts1); auto. now destruct (tl_set_readback k v ts ts1 Hwf E).
Qed.

Theorem tl_sets_last_readback : forall ops name v ts ts', Forall wf_term ts ->
  tl_sets (ops ++ [(name, v)]) ts = Some ts' ->
  exists ts0, tl_sets ops ts = Some ts0 /\
              flatten (tl_get name ts') = (if is_list v then flatten v else repeat v (tl_size name ts0)).
Proof.
  induction ops as [| [k w] r IH]; intros name v ts ts' Hwf H; simpl in H.
  - destruct (tl_set name v ts) as [st ts1] eqn:E. destruct st; try discriminate. inversion H; subst.
    exists ts. split; auto. now destruct (tl_set_readback name v ts ts' Hwf E).
  - destruct (tl_set k w ts) as [st ts1] eqn:E. destruct st; try discriminate. simpl. rewrite E.
    apply IH; auto. now destruct (tl_set_readback k w ts ts1 Hwf E).
Qed.

(* ------------------------------------------------------------------ GAM level *)
Theorem gam_set_readback_partial : forall name v g st g',
  match g_terms g with Some ts => Forall wf_term ts | None => True end ->
  gam_has_terms g = true -> alookup name (g_pending g) = None ->      (* no constructor keyword of that name is pending *)
  gam_set name v g = (st, g') -> st = Ok ->
  exists ts r, g_terms g = Some ts /\ gam_get name g' = Some r /\
               flatten r = (if is_list v then flatten v else repeat v (tl_size name ts)).
Proof.
  intros name v g st g' Hwf Hh Hp H Hst. subst st. unfold gam_set, gam_has_terms in *.
  destruct (g_terms g) as [[| t ts] |] eqn:Et; try discriminate.
  unfold gam_size in H. rewrite Hp in H. fold (tl_set name v (t :: ts)) in H.
  destruct (tl_set name v (t :: ts)) as [st1 ts1] eqn:E. inversion H; subst. clear H.
  destruct (tl_set_readback name v (t :: ts) ts1 Hwf E) as [H1 H2].
  exists (t :: ts). unfold gam_get. simpl. rewrite Hp.
  destruct ts1 as [| t1 r1].
  - (* the list cannot become empty: dist preserves the number of terms *)
    exfalso. unfold tl_set, meta_set, dist in E.
    assert (L : forall l rs st r, dist_rev is_intercept (term_size name) (term_set name) l rs = (st, r) -> List.length r = List.length l).
    { induction l as [| a l IH]; intros rs st r Hd; simpl in Hd; [inversion Hd; reflexivity |].
      destruct (is_intercept a).
      - destruct (dist_rev is_intercept (term_size name) (term_set name) l rs) eqn:Ed. inversion Hd; subst. simpl. now rewrite (IH _ _ _ Ed).
      - destruct (term_size name a); [inversion Hd; reflexivity |].
        destruct (List.length rs <? n)%nat; [inversion Hd; reflexivity |].
        destruct (term_set name a (wrap n (rev (firstn n rs)))) as [s1 a1]. destruct s1; try (inversion Hd; reflexivity).
        destruct (dist_rev is_intercept (term_size name) (term_set name) l (skipn n rs)) eqn:Ed. inversion Hd; subst. simpl. now rewrite (IH _ _ _ Ed). }
    assert (M : forall vs st r, (let (st0, r0) := dist_rev is_intercept (term_size name) (term_set name) (rev (t :: ts)) (rev vs) in (st0, rev r0)) = (st, r) -> r <> []).
    { intros vs st r Hd. destruct (dist_rev is_intercept (term_size name) (term_set name) (rev (t :: ts)) (rev vs)) eqn:Ed.
      apply L in Ed. inversion Hd; subst. intros Hnil. apply (f_equal (@List.length term)) in Hnil.
      rewrite rev_length, Ed, rev_length in Hnil. simpl in Hnil. discriminate. }
    destruct v; try (apply M in E; now apply E).
    destruct (List.length (flatten (VList l)) =? tl_size name (t :: ts))%nat; [apply M in E; now apply E | discriminate].
  - exists (tl_get name (t1 :: r1)). repeat split; auto.
Qed.
