(* Proofs/C03PeriodicWrap.v -- the periodic basis (order k >= 1) is continuous across the wrap: its row at the right edge
   (wrapped position 1) equals its row at the left edge (wrapped position 0).  Ingredients: the 1e-9 bump of the last
   augmented knot never reaches a non-zero term on the pieces inside [0,1] (the row only depends on the knots of index
   <= j0 + k); uniform knots are shift invariant; continuity across a knot.  Real instance.                          *)
From Coq Require Import List ZArith Reals Lra Lia Bool Arith.
From PG Require Import Base.Ops Base.Vec Model.BSpline Proofs.C03Basis Proofs.C03Row Proofs.C03Scale Proofs.C03Periodic
  Proofs.C03PeriodicSupport.
Import ListNotations.
Open Scope R_scope.

(* the piece j0 only sees the knots of index <= j0 + k *)
Lemma Bix_knots_ext (t u : nat -> R) (tinc : forall i, t i < t (S i)) (uinc : forall i, u i < u (S i)) x j0 k :
  (forall j, (j <= j0 + k)%nat -> t j = u j) ->
  forall m, (m <= k)%nat -> forall i, Bix Rfops t (ind j0) x m i = Bix Rfops u (ind j0) x m i.
Proof.
  intros E. induction m as [|m IH]; intros Hm i; [reflexivity|].
  destruct (le_lt_dec i j0) as [Hi|Hi].
  - rewrite (BS t tinc), (BS u uinc). rewrite !IH by lia.
    rewrite (E i) by lia. rewrite (E (i + S m)%nat) by lia.
    destruct (le_lt_dec (S i) j0) as [Hs|Hs].
    + rewrite (E (i + S (S m))%nat) by lia. rewrite (E (S i)) by lia. reflexivity.
    + rewrite (isupport u uinc x j0 m (S i)) by lia. lra.
  - rewrite (isupport t tinc x j0 (S m) i) by lia. rewrite (isupport u uinc x j0 (S m) i) by lia. reflexivity.
Qed.

(* shift invariance: knots translated by s indices and delta *)
Lemma Bix_shift (u : nat -> R) (s : nat) (delta : R) (Hu : forall j, u (j + s)%nat = u j + delta) x j0 :
  forall m i, Bix Rfops u (ind (j0 + s)) (x + delta) m (i + s) = Bix Rfops u (ind j0) x m i.
Proof.
  induction m as [|m IH]; intros i.
  - cbn [Bix]. unfold ind. destruct (Nat.eqb_spec (i + s) (j0 + s)), (Nat.eqb_spec i j0); try reflexivity; lia.
  - cbn [Bix]. replace (S (i + s)) with (S i + s)%nat by lia. rewrite !IH.
    replace (i + s + S m)%nat with (i + S m + s)%nat by lia.
    replace (i + s + S (S m))%nat with (i + S (S m) + s)%nat by lia.
    rewrite !Hu. cbn [Rfops fr Rrops radd rsub rmul fdiv].
    f_equal; f_equal; try (f_equal; lra); lra.
Qed.

(* for order >= 1 a B-spline vanishes at the left end of its support *)
Lemma left_end_zero (t : nat -> R) (tinc : forall i, t i < t (S i)) i m : (1 <= m)%nat ->
  Bix Rfops t (ind i) (t i) m i = 0.
Proof.
  intros Hm. destruct m as [|m]; [lia|]. rewrite (BS t tinc). rewrite (isupport t tinc (t i) i m (S i)) by lia.
  unfold Rdiv. lra.
Qed.

Lemma wrap_in01 w : 0 <= w <= 1 -> wrapR w = w.
Proof.
  intros [W0 W1]. unfold wrapR. pose proof e9_pos. rewrite fmod_small by (unfold pR; lra).
  unfold Rmin. destruct (Rle_dec w 1); lra.
Qed.
Lemma wrap_id0 : wrapR 0 = 0. Proof. apply wrap_in01. lra. Qed.
Lemma wrap_id1 : wrapR 1 = 1. Proof. apply wrap_in01. lra. Qed.

Section Wrap.
Variables n k : nat.
Hypothesis Hkn : (k < n)%nat.
Hypothesis Hk : (1 <= k)%nat.
Notation N := (n + k)%nat.
Notation t := (knot Rfops N k).
Notation tinc := (knot_inc N k (Hlt n k Hkn Hk)).
Notation h := (stepR N k).
(* the same knots without the 1e-9 bump *)
Definition uk (j : nat) : R := IZR (zdiff j k) * h.

Lemma hpos : 0 < h. Proof. apply step_pos. apply (Hlt n k Hkn Hk). Qed.
Lemma uk_inc j : uk j < uk (S j).
Proof.
  unfold uk. pose proof hpos. replace (zdiff (S j) k) with (zdiff j k + 1)%Z by (unfold zdiff; lia). rewrite plus_IZR. lra.
Qed.
Lemma t_uk j : (j < N + k)%nat -> t j = uk j.
Proof. intros H. rewrite (knot_R N k (Hlt n k Hkn Hk)). unfold uk. destruct (Nat.leb_spec (N + k) j); [lia|lra]. Qed.
Lemma nh : INR n * h = 1.
Proof.
  unfold stepR. replace (IZR (zdiff N k)) with (INR n) by (unfold zdiff; rewrite INR_IZR_INZ; f_equal; lia).
  apply Rinv_r. apply not_0_INR. lia.
Qed.
Lemma uk_shift j : uk (j + n)%nat = uk j + 1.
Proof.
  unfold uk. replace (zdiff (j + n) k) with (zdiff j k + Z.of_nat n)%Z by (unfold zdiff; lia).
  rewrite plus_IZR, <- INR_IZR_INZ. pose proof nh. lra.
Qed.
Lemma uk_k : uk k = 0. Proof. unfold uk, zdiff. rewrite Z.sub_diag. lra. Qed.
Lemma uk_N : uk N = 1.
Proof. replace N with (k + n)%nat by lia. rewrite uk_shift, uk_k. lra. Qed.

(* the bump is invisible on the pieces j0 < N *)
Lemma ucol_uk j0 i x : (j0 < N)%nat -> ucol n k j0 i x = Bix Rfops uk (ind j0) x k i.
Proof.
  intros Hj. unfold ucol. apply (Bix_knots_ext t uk tinc uk_inc x j0 k); [|lia]. intros j Hjk. apply t_uk. lia.
Qed.

(* the unfolded row at the right edge is the row at the left edge, moved n columns to the right *)
Lemma ucol_right_edge i : ucol n k (N - 1) i 1 = if Nat.leb n i then ucol n k k (i - n) 0 else 0.
Proof.
  rewrite ucol_uk by lia.
  assert (E1 : 1 = uk (S (N - 1))) by (replace (S (N - 1)) with N by lia; symmetry; apply uk_N).
  rewrite (continuity_at_knot uk uk_inc 1 (N - 1) k i E1 Hk). replace (S (N - 1)) with (k + n)%nat by lia.
  destruct (Nat.leb_spec n i) as [Hi|Hi].
  - rewrite ucol_uk by lia. replace i with (i - n + n)%nat at 1 by lia. replace 1 with (0 + 1) at 1 by lra.
    apply (Bix_shift uk n 1 uk_shift 0 k k (i - n)).
  - apply (isupport uk uk_inc 1 (k + n) k i). lia.
Qed.
Lemma ucol_left_edge_zero i : (k <= i)%nat -> ucol n k k i 0 = 0.
Proof.
  intros Hi. destruct (Nat.eq_dec i k) as [->|Hne].
  - unfold ucol. pose proof (left_end_zero t tinc k k Hk) as Z. rewrite (knot_k N k (Hlt n k Hkn Hk)) in Z. exact Z.
  - apply (ucol_zero n k Hkn Hk). lia.
Qed.

Lemma t_k0 : t k = 0. Proof. apply knot_k. apply (Hlt n k Hkn Hk). Qed.
Lemma fcol_edges c : (c < n)%nat -> fcol n k (N - 1) c 1 = fcol n k k c 0.
Proof.
  intros Hc. unfold fcol. destruct (Nat.ltb_spec c k) as [H|H].
  - rewrite (ucol_right_edge c), (ucol_right_edge (n + c)).
    destruct (Nat.leb_spec n c); [lia|]. destruct (Nat.leb_spec n (n + c)); [|lia].
    replace (n + c - n)%nat with c by lia. rewrite (ucol_left_edge_zero (n + c)) by lia.
    assert (0 <= ucol n k k c 0).
    { apply (ucol_nonneg n k Hkn Hk). pose proof (tinc k). rewrite t_k0 in *. lra. }
    rewrite tmax_l0, tmax_r0 by assumption. reflexivity.
  - rewrite (ucol_right_edge c). destruct (Nat.leb_spec n c); [lia|]. rewrite ucol_left_edge_zero by lia. reflexivity.
Qed.

(* the periodic basis takes the same row at wrapped position 1 and at wrapped position 0 *)
Theorem pcol_wrap_continuous c : (c < n)%nat -> pcol n k c 1 = pcol n k c 0.
Proof.
  intros Hc. unfold pcol. rewrite !periodic_high by lia.
  rewrite (wrap_id1), (wrap_id0).
  rewrite (b1_is_irow N k (Hlt n k Hkn Hk) Hk), (b0_is_irow N k (Hlt n k Hkn Hk)).
  unfold b1row, b0row. rewrite !(nth_folded n k Hkn Hk) by lia. apply fcol_edges. assumption.
Qed.
End Wrap.
