(* Proofs/C17.v -- posterior simulation: lemmas about the definitions GENERATED from GAM.sample and helpers (Gen/Sample.v) *)
From Coq Require Import Reals Lra Lia String ZArith Bool List.
From PG Require Import Base.Ops Model.Intervals Model.Sample Gen.Dists Gen.Sample Proofs.C06.
Import ListNotations.
Open Scope R_scope.

Lemma nth_map_lt {A B : Type} (f : A -> B) (l : list A) (i : nat) (dA : A) (dB : B) :
  (i < length l)%nat -> nth i (map f l) dB = f (nth i l dA).
Proof. intros H. rewrite (nth_indep _ dB (f dA)) by (rewrite map_length; exact H). apply map_nth. Qed.
Lemma nth_map_seq {B : Type} (f : nat -> B) (n i : nat) (dB : B) : (i < n)%nat -> nth i (map f (seq 0 n)) dB = f i.
Proof. intros H. rewrite (nth_map_lt f (seq 0 n) i 0%nat dB) by (rewrite seq_length; exact H). rewrite seq_nth by exact H. reflexivity. Qed.

(* ---------------- the diagonal loading ---------------- *)
Lemma sqrt_eps_value : Gen_sqrt_eps = / 67108864.
Proof. unfold Gen_sqrt_eps. replace (/ 4503599627370496) with ((/ 67108864) * (/ 67108864)) by (field; lra).
  apply sqrt_square. lra. Qed.
Lemma fold_rmax_ge l x : In x l -> x <= fold_right Rmax 0 l.
Proof. induction l as [|a l IH]; intros H; [destruct H|]. cbn. destruct H as [H|H].
  - subst. apply Rmax_l.
  - eapply Rle_trans; [apply IH; exact H|apply Rmax_r]. Qed.
Lemma fold_rmax_nonneg l : 0 <= fold_right Rmax 0 l.
Proof. induction l as [|a l IH]; cbn; [lra|]. eapply Rle_trans; [exact IH|apply Rmax_r]. Qed.
Lemma fold_rmax_attained l : fold_right Rmax 0 l = 0 \/ In (fold_right Rmax 0 l) l.
Proof. induction l as [|a l IH]; cbn; [left; reflexivity|].
  destruct (Rle_dec a (fold_right Rmax 0 l)) as [r|r].
  - rewrite (Rmax_right _ _ r). destruct IH as [IH|IH]; [left; exact IH|right; right; exact IH].
  - rewrite Rmax_left by lra. right. left. reflexivity. Qed.
Lemma maxabs_nonneg M : 0 <= maxabs M.
Proof. apply fold_rmax_nonneg. Qed.
Lemma maxabs_ge M i j : (i < length M)%nat -> (j < length (nth i M []))%nat -> Rabs (entry M i j) <= maxabs M.
Proof. intros Hi Hj. unfold maxabs. apply fold_rmax_ge. apply in_map. apply in_concat. exists (nth i M []).
  split; [apply nth_In; exact Hi|unfold entry; apply nth_In; exact Hj]. Qed.
(* the maximum is 0 (empty or zero matrix) or the absolute value of some entry *)
Lemma maxabs_attained M : maxabs M = 0 \/ exists x, In x (concat M) /\ maxabs M = Rabs x.
Proof. unfold maxabs. destruct (fold_rmax_attained (map Rabs (concat M))) as [H|H]; [left; exact H|right].
  apply in_map_iff in H. destruct H as [x [Hx Hin]]. exists x. split; [exact Hin|symmetry; exact Hx]. Qed.
Lemma load_diagonal_entry scale cov i j : (i < length cov)%nat -> (j < length cov)%nat ->
  entry (Gen_load_diagonal scale cov) i j = entry cov i j + (if Nat.eqb i j then / 67108864 * scale else 0).
Proof. intros Hi Hj. unfold Gen_load_diagonal, add_diag, Gen_load. rewrite sqrt_eps_value. unfold entry at 1.
  rewrite (nth_map_seq _ (length cov) i []) by exact Hi. rewrite (nth_map_seq _ (length cov) j 0) by exact Hj. reflexivity. Qed.
(* cov = scale * G entrywise (G = B B'): the matrix handed to the sampler is scale * (G + 2^-26 I) *)
Lemma load_diagonal_scaled scale (G : nat -> nat -> R) cov i j : (i < length cov)%nat -> (j < length cov)%nat ->
  entry cov i j = scale * G i j ->
  entry (Gen_load_diagonal scale cov) i j = scale * (G i j + (if Nat.eqb i j then / 67108864 else 0)).
Proof. intros Hi Hj Hc. rewrite (load_diagonal_entry scale cov i j Hi Hj), Hc. destruct (Nat.eqb i j); ring. Qed.
Lemma load_diagonal_shape scale cov : length (Gen_load_diagonal scale cov) = length cov
  /\ forall i, (i < length cov)%nat -> length (nth i (Gen_load_diagonal scale cov) []) = length cov.
Proof. unfold Gen_load_diagonal, add_diag. split.
  - rewrite map_length, seq_length. reflexivity.
  - intros i Hi. rewrite (nth_map_seq _ (length cov) i []) by exact Hi. rewrite map_length, seq_length. reflexivity. Qed.

(* ---------------- one bootstrap: a single call ---------------- *)
Lemma choice_zero choice : Forall (fun b => (b < 1)%nat) choice -> choice = repeat 0%nat (length choice).
Proof. induction 1 as [|b l Hb Hl IH]; cbn; [reflexivity|]. f_equal; [lia|exact IH]. Qed.
Lemma positions_repeat_from s n :
  map fst (filter (fun p : nat * nat => Nat.eqb (snd p) 0) (combine (seq s n) (repeat 0%nat n))) = seq s n.
Proof. revert s. induction n as [|n IH]; intros s; cbn; [reflexivity|]. f_equal. apply IH. Qed.
Lemma positions_repeat n : positions 0 (repeat 0%nat n) = seq 0 n.
Proof. unfold positions. rewrite repeat_length. apply positions_repeat_from. Qed.
Lemma first_seen_seen k : first_seen_from [0%nat] (repeat 0%nat k) = [].
Proof. induction k as [|k IH]; cbn; [reflexivity|exact IH]. Qed.
Lemma first_seen_repeat n : (1 <= n)%nat -> first_seen (repeat 0%nat n) = [0%nat].
Proof. intros H. destruct n as [|n]; [lia|]. unfold first_seen. cbn. rewrite first_seen_seen. reflexivity. Qed.

Lemma one_bootstrap_iterations : Gen_bootstrap_iterations 1 = 0%nat.
Proof. reflexivity. Qed.

Lemma mvn_args_one scale coef cov choice n_draws :
  (1 <= n_draws)%nat -> length choice = n_draws -> Forall (fun b => (b < 1)%nat) choice ->
  Gen_simulate_calls (fst (Gen_bootstrap_lists scale coef cov [])) (snd (Gen_bootstrap_lists scale coef cov [])) choice
  = [mk_mvn_call coef (Gen_load_diagonal scale cov) n_draws (seq 0 n_draws)].
Proof. intros Hn Hl Hc. rewrite (choice_zero choice Hc), Hl. unfold Gen_simulate_calls.
  rewrite first_seen_repeat by exact Hn. cbn [map]. rewrite positions_repeat. unfold Gen_mvn_call, Gen_bootstrap_lists.
  cbn [fst snd map app nth]. rewrite seq_length. reflexivity. Qed.

(* the draws returned are exactly the rows of that call's output, in order *)
Lemma index_of_seq i s n k : (s <= i < s + n)%nat -> index_of i (seq s n) k = Some (k + (i - s))%nat.
Proof. revert s k. induction n as [|n IH]; intros s k H; [lia|]. cbn. destruct (Nat.eqb s i) eqn:E.
  - apply Nat.eqb_eq in E. subst. f_equal. lia.
  - apply Nat.eqb_neq in E. rewrite IH by lia. f_equal. lia. Qed.
Lemma assemble_one c out n : mc_rows c = seq 0 n -> length out = n -> Gen_coef_draws [c] [out] n = out.
Proof. intros Hr Hl. unfold Gen_coef_draws, assemble. apply (nth_ext _ _ [] []).
  - rewrite map_length, seq_length. symmetry. exact Hl.
  - intros i Hi. rewrite map_length, seq_length in Hi. rewrite (nth_map_seq _ n i []) by exact Hi.
    cbn [row_of]. rewrite Hr, index_of_seq by lia. f_equal. lia. Qed.

(* ---------------- mu pipeline ---------------- *)
Lemma mu_draws_entry mu MM CD d i : (d < length CD)%nat -> (i < length MM)%nat ->
  nth i (nth d (Gen_mu_draws mu MM CD) []) 0 = mu (dotl (nth i MM []) (nth d CD [])).
Proof. intros Hd Hi. unfold Gen_mu_draws, transposeR, Gen_linear_predictor.
  rewrite (nth_map_seq _ (length CD) d []) by exact Hd.
  rewrite (nth_map_lt _ _ i [] 0) by (rewrite !map_length; exact Hi).
  rewrite (nth_map_lt (map mu) _ i [] []) by (rewrite map_length; exact Hi).
  rewrite (nth_map_lt _ MM i [] []) by exact Hi.
  rewrite (nth_map_lt mu _ d 0 0) by (rewrite map_length; exact Hd).
  rewrite (nth_map_lt _ CD d [] 0) by exact Hd. reflexivity. Qed.
Lemma mu_draws_shape mu MM CD : length (Gen_mu_draws mu MM CD) = length CD
  /\ forall d, (d < length CD)%nat -> length (nth d (Gen_mu_draws mu MM CD) []) = length MM.
Proof. unfold Gen_mu_draws, transposeR. split.
  - rewrite map_length, seq_length. reflexivity.
  - intros d Hd. rewrite (nth_map_seq _ (length CD) d []) by exact Hd. unfold Gen_linear_predictor. rewrite !map_length. reflexivity. Qed.
Lemma sample_at_default {A} (X : A) : Gen_sample_at None X = X /\ forall Z, Gen_sample_at (Some Z) X = Z.
Proof. split; reflexivity. Qed.

(* ---------------- y pipeline ---------------- *)
Lemma y_args_entry {A} (f : R -> A) M d i (dA : A) : (d < length M)%nat -> (i < length (nth d M []))%nat ->
  nth i (nth d (Gen_y_args f M) []) dA = f (nth i (nth d M []) 0).
Proof. intros Hd Hi. unfold Gen_y_args. rewrite (nth_map_lt (map f) M d [] []) by exact Hd. apply nth_map_lt. exact Hi. Qed.
Lemma y_args_shape {A} (f : R -> A) M : length (Gen_y_args f M) = length M
  /\ forall d, (d < length M)%nat -> length (nth d (Gen_y_args f M) []) = length (nth d M []).
Proof. unfold Gen_y_args. split; [apply map_length|]. intros d Hd. rewrite (nth_map_lt (map f) M d [] []) by exact Hd. apply map_length. Qed.

(* ---------------- shapes of the coefficient draws ---------------- *)
Lemma coef_draws_length calls outs n : length (Gen_coef_draws calls outs n) = n.
Proof. unfold Gen_coef_draws, assemble. rewrite map_length, seq_length. reflexivity. Qed.

(* ---------------- argument checks ---------------- *)
Lemma quantity_allowed_iff q : existsb (String.eqb q) ["coef"%string; "mu"%string; "y"%string] = true
  <-> (q = "coef"%string \/ q = "mu"%string \/ q = "y"%string).
Proof. cbn. rewrite !orb_true_iff, !String.eqb_eq. intuition discriminate. Qed.
Lemma checks_value : Gen_sample_checks
  = [CkQuantity ["coef"%string; "mu"%string; "y"%string]; CkFitted; CkLt "n_bootstraps"%string 1%Z; CkLt "n_draws"%string 1%Z]
    ++ (if Gen_sample_validates_data then [CkData] else []).
Proof. reflexivity. Qed.
(* proved for either form of the generated check list (with or without the data-validation block) *)
Lemma rejects_iff q fitted valid nd nb :
  let ok := (q = "coef"%string \/ q = "mu"%string \/ q = "y"%string) in
  let bad_data := (Gen_sample_validates_data = true /\ valid = false) in
  (run_checks Gen_sample_checks q fitted valid nd nb = SValueError <-> (~ ok \/ (fitted = true /\ ((nb < 1)%Z \/ (nd < 1)%Z \/ bad_data)))) /\
  (run_checks Gen_sample_checks q fitted valid nd nb = SAttributeError <-> (ok /\ fitted = false)) /\
  (run_checks Gen_sample_checks q fitted valid nd nb = SRun <-> (ok /\ fitted = true /\ (1 <= nb)%Z /\ (1 <= nd)%Z /\ ~ bad_data)).
Proof. intros ok bad_data. unfold bad_data. rewrite checks_value. generalize Gen_sample_validates_data. intros v.
  unfold run_checks, check_fails. cbn [app String.eqb Ascii.eqb Bool.eqb].
  pose proof (quantity_allowed_iff q) as HQ. fold ok in HQ.
  destruct (existsb (String.eqb q) ["coef"%string; "mu"%string; "y"%string]).
  - assert (Hok : ok) by (apply HQ; reflexivity).
    destruct fitted.
    + destruct (Z.ltb nb 1) eqn:E1; [apply Z.ltb_lt in E1|apply Z.ltb_ge in E1; destruct (Z.ltb nd 1) eqn:E2; [apply Z.ltb_lt in E2|apply Z.ltb_ge in E2]];
        destruct v; destruct valid; cbn [app];
        (split; [|split]); split; intros H0; try discriminate; try reflexivity; intuition (try discriminate; try lia).
    + destruct v; (split; [|split]); split; intros H0; try discriminate; try reflexivity; intuition (try discriminate; try lia).
  - assert (Hno : ~ ok) by (intros H0; apply HQ in H0; discriminate).
    destruct v; (split; [|split]); split; intros H0; try discriminate; try reflexivity; intuition (try discriminate; try lia). Qed.

(* non-vacuity *)
Lemma example_choice : Forall (fun b => (b < 1)%nat) [0; 0; 0]%nat /\ length [0; 0; 0]%nat = 3%nat /\ (1 <= 3)%nat.
Proof. repeat split; auto. Qed.
