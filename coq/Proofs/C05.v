(* Proofs/C05.v -- shape-constraint matrices: quadratic forms, symmetry, PSD, zero sets (real instance).
   Depends only on Base and Proofs/VecR.v. *)
From Coq Require Import List Reals Lra Lia Arith Bool.
From PG Require Import Base.Ops Base.Vec Model.Constraints Proofs.VecR.
Import ListNotations.
Open Scope R_scope.

Notation vmulR := (vmul Rrops). Notation mask01R := (mask01 Rrops). Notation violR := (viol Rrops).

(* ---------- which difference / which sign each constraint looks at ---------- *)
Definition con_order (c : con) : nat := match c with CConvex | CConcave => 2%nat | _ => 1%nat end.
Definition con_neg (c : con) : bool := match c with CMonoInc | CConvex => true | _ => false end.
Definition con_active (c : con) : bool := match c with CPyNone | CStrNone => false | _ => true end.
(* the 0/1 mask a constraint derives from the coefficients it is built from *)
Definition con_mask (c : con) (beta : list R) : list R :=
  if con_active c then mask01R (con_neg c) (diffnR (con_order c) beta) else [].
(* the violating differences of beta: negative (resp. positive) first / second differences *)
Definition viols (c : con) (beta : list R) : list R :=
  if con_active c then filter (violR (con_neg c)) (diffnR (con_order c) beta) else [].
(* beta satisfies the constraint: first differences >= 0 (inc) / <= 0 (dec), second differences >= 0 (convex) / <= 0 (concave) *)
Definition satisfies (c : con) (beta : list R) : Prop :=
  match c with
  | CPyNone | CStrNone => True
  | CMonoInc => Forall (fun x => 0 <= x) (diffR beta)
  | CMonoDec => Forall (fun x => x <= 0) (diffR beta)
  | CConvex => Forall (fun x => 0 <= x) (diffnR 2 beta)
  | CConcave => Forall (fun x => x <= 0) (diffnR 2 beta)
  end.

(* ---------- vmul ---------- *)
Lemma vmul_length u : forall v, length (vmulR u v) = Nat.min (length u) (length v).
Proof. induction u as [|a u IH]; intros [|b v]; simpl; auto. Qed.
Lemma vmul_vadd a : forall b m, vmulR (vaddR a b) m = vaddR (vmulR a m) (vmulR b m).
Proof. induction a as [|x a IH]; intros [|y b] [|z m]; simpl; auto.
  rewrite IH. f_equal. lra. Qed.
Lemma vmul_vscale c a : forall m, vmulR (vscaleR c a) m = vscaleR c (vmulR a m).
Proof. induction a as [|x a IH]; intros [|z m]; simpl; auto. fold (vscaleR c a). rewrite IH.
  unfold vscale. simpl. f_equal. lra. Qed.
Lemma vmul_zeros p : forall m, vmulR (zerosR p) m = zerosR (Nat.min p (length m)).
Proof. induction p as [|p IH]; intros [|z m]; try reflexivity. rewrite zeros_S. cbn [vmul length Nat.min].
  rewrite IH, zeros_S. f_equal. cbn. lra. Qed.
Lemma vmul_zeros_r u : forall p, vmulR u (zerosR p) = zerosR (Nat.min (length u) p).
Proof. induction u as [|a u IH]; intros [|p]; try reflexivity. rewrite zeros_S. cbn [vmul length Nat.min].
  rewrite IH, zeros_S. f_equal. cbn. lra. Qed.

(* ---------- the quadratic form of D.dot(D.T), D = sparse_diff(I, d) * diag(m) ---------- *)
Theorem masked_quadform n d m v : length v = n ->
  quadR (masked_diff_gram Rrops n d m) v = sumsqR (vmulR (diffnR d v) m).
Proof.
  intros H. unfold masked_diff_gram.
  apply (quad_gram_linop (fun u => vmulR (diffnR d u) m) (fun p => Nat.min (p - d) (length m))).
  - intros a b _. rewrite diffn_vadd. apply vmul_vadd.
  - intros c a. rewrite diffn_vscale. apply vmul_vscale.
  - intros p. rewrite diffn_zeros. apply vmul_zeros.
  - intros a. rewrite vmul_length, diffn_length. reflexivity.
  - assumption.
Qed.

Lemma sumsq_cons a u : sumsqR (a :: u) = a * a + sumsqR u. Proof. reflexivity. Qed.
Lemma sumsq_masked neg l : sumsqR (vmulR l (mask01R neg l)) = sumsqR (filter (violR neg) l).
Proof. unfold mask01. induction l as [|x l IH]; [reflexivity|]. cbn [map vmul filter].
  destruct (violR neg x); rewrite !sumsq_cons, IH; [|rewrite <- IH]; cbn; lra. Qed.

Lemma quad_1x1_zero v : quadR [[0]] v = 0.
Proof. destruct v as [|b v]; cbn; [lra|]. destruct v; cbn; lra. Qed.
Lemma matvec_mzero' n m v : matvecR (mzeroR n m) v = zerosR n.
Proof. unfold mzero, matvec. induction n; [reflexivity|]. cbn [repeat map]. rewrite IHn. rewrite dot_zeros_l. reflexivity. Qed.
Lemma quad_mzero n m v : quadR (mzeroR n m) v = 0.
Proof. unfold quad. rewrite matvec_mzero'. apply dot_zeros_r. Qed.

Lemma diffn_short d : forall l, (length l <= d)%nat -> diffnR d l = [].
Proof. intros l H. pose proof (diffn_length d l) as E. destruct (diffnR d l); [reflexivity|]. simpl in E. lia. Qed.

(* quad (C_c(beta)) v  =  sum over the positions that VIOLATE IN beta of the squared differences OF v *)
Theorem con_quadform_gen c n beta v : length beta = n -> length v = n ->
  quadR (con_matrix Rrops n beta c) v = sumsqR (vmulR (diffnR (con_order c) v) (con_mask c beta)).
Proof.
  intros Hb Hv.
  assert (N1 : forall d neg, (1 <= d)%nat -> n = 1%nat ->
            0 = sumsqR (vmulR (diffnR d v) (mask01R neg (diffnR d beta)))).
  { intros d neg Hd Hn. rewrite (diffn_short d v) by lia. reflexivity. }
  destruct c; unfold con_mask; cbn [con_matrix con_active con_order con_neg].
  1,2: rewrite quad_mzero; destruct (diffnR 1 v); reflexivity.
  all: unfold monotonicity, convexity; destruct n as [|[|n]];
    try (rewrite quad_1x1_zero; apply N1; lia); apply masked_quadform; assumption.
Qed.

Theorem con_quadform c n beta : length beta = n ->
  quadR (con_matrix Rrops n beta c) beta = sumsqR (viols c beta).
Proof.
  intros H. rewrite (con_quadform_gen c n beta beta H H). unfold con_mask, viols.
  destruct (con_active c).
  - apply sumsq_masked.
  - destruct (diffnR (con_order c) beta); reflexivity.
Qed.

Theorem con_psd c n beta v : length beta = n -> length v = n -> 0 <= quadR (con_matrix Rrops n beta c) v.
Proof. intros Hb Hv. rewrite (con_quadform_gen c n beta v Hb Hv). apply sumsq_nonneg. Qed.

(* ---------- symmetry ---------- *)
Lemma nth_mzero n m i j : nth j (nth i (mzeroR n m) []) 0 = 0.
Proof. unfold mzero. destruct (Nat.lt_ge_cases i n) as [Hi|Hi].
  - rewrite (nth_indep _ [] (zerosR m)) by (rewrite repeat_length; assumption).
    rewrite nth_repeat. unfold zeros. destruct (Nat.lt_ge_cases j m).
    + rewrite nth_repeat. reflexivity.
    + apply nth_overflow. rewrite repeat_length. assumption.
  - rewrite (nth_overflow (repeat _ n)) by (rewrite repeat_length; assumption). destruct j; reflexivity. Qed.
Lemma nth_1x1_zero i j : nth j (nth i [[0]] []) 0 = 0.
Proof. destruct i as [|[|i]]; destruct j as [|[|j]]; reflexivity. Qed.
Theorem con_sym c n beta i j :
  nth j (nth i (con_matrix Rrops n beta c) []) 0 = nth i (nth j (con_matrix Rrops n beta c) []) 0.
Proof.
  destruct c; cbn [con_matrix]; try (rewrite !nth_mzero; reflexivity);
  unfold monotonicity, convexity, masked_diff_gram; destruct n as [|[|n]];
  try (rewrite !nth_1x1_zero; reflexivity); apply gram_sym.
Qed.

(* ---------- zero set ---------- *)
Lemma filter_nil_iff {A} (p : A -> bool) l : filter p l = [] <-> Forall (fun x => p x = false) l.
Proof. induction l as [|a l IH]; simpl; [split; auto|]. destruct (p a) eqn:E; split; intros H.
  - discriminate. - inversion H; congruence. - constructor; [assumption|apply IH; assumption].
  - inversion H; subst. apply IH; assumption. Qed.
Lemma sumsq_filter_viol_zero neg l : sumsqR (filter (violR neg) l) = 0 <-> Forall (fun x => violR neg x = false) l.
Proof. rewrite <- filter_nil_iff. split.
  - intros H. apply sumsq_zero_iff in H. destruct (filter (violR neg) l) as [|a f] eqn:E; [reflexivity|].
    exfalso. assert (In a (filter (violR neg) l)) as I by (rewrite E; left; reflexivity).
    apply filter_In in I. destruct I as [_ I]. inversion H; subst.
    unfold viol in I. destruct neg; cbn in I; [apply Rltb_true in I|apply Rltb_true in I]; lra.
  - intros ->. reflexivity. Qed.
Lemma viol_false_neg x : violR true x = false <-> 0 <= x.
Proof. unfold viol. cbn. apply Rltb_false. Qed.
Lemma viol_false_pos x : violR false x = false <-> x <= 0.
Proof. unfold viol. cbn. apply Rltb_false. Qed.

Theorem con_zero_iff c n beta : length beta = n ->
  (quadR (con_matrix Rrops n beta c) beta = 0 <-> satisfies c beta).
Proof.
  intros H. rewrite (con_quadform c n beta H). unfold viols.
  destruct c; cbn [con_active con_order con_neg satisfies]; try (split; auto; fail);
  rewrite sumsq_filter_viol_zero; cbn [diffn];
  (split; intros F; eapply Forall_impl; [|exact F| |exact F]; intros x; cbv beta;
   first [apply viol_false_neg | apply viol_false_pos]).
Qed.

(* "non-decreasing" etc. in index form *)
Lemma diff_cons2 a b l : diffR (a :: b :: l) = (b - a) :: diffR (b :: l).
Proof. reflexivity. Qed.
Lemma Forall_diff_iff (P : R -> Prop) : forall l,
  Forall P (diffR l) <-> (forall i, (S i < length l)%nat -> P (nth (S i) l 0 - nth i l 0)).
Proof. induction l as [|a [|b l] IH].
  - split; [intros _ i Hi; simpl in Hi; lia|constructor].
  - split; [intros _ i Hi; simpl in Hi; lia|constructor].
  - rewrite diff_cons2. split.
    + intros F i Hi. inversion F; subst. destruct i as [|i]; [exact H1|].
      apply (proj1 IH H2 i). simpl in *. lia.
    + intros F. constructor; [exact (F O ltac:(simpl; lia))|].
      apply IH. intros i Hi. apply (F (S i)). simpl in *. lia.
Qed.

(* ====================================================================================================
   Term level: Term.build_constraints = sum_c constraint_lam * C_c(beta)  (+ constraint_l2 * I iff non-zero)
   ==================================================================================================== *)
Definition square (M : list (list R)) (n : nat) : Prop := length M = n /\ Forall (fun r => length r = n) M.
Fixpoint rsum (l : list R) : R := match l with [] => 0 | a :: l' => a + rsum l' end.
Notation constraint_sumR := (constraint_sum Rrops). Notation term_constraintsR := (term_constraints Rrops).
Notation con_matrixR := (con_matrix Rrops).

Lemma gram_square' rows : square (gramR rows) (length rows).
Proof. unfold gram; split; [apply map_length|]. apply Forall_map. apply Forall_forall. intros; apply map_length. Qed.
Lemma mzero_square n : square (mzeroR n n) n.
Proof. unfold mzero. split; [apply repeat_length|]. apply Forall_forall. intros r Hr. apply repeat_spec in Hr. subst. apply zeros_length. Qed.
Lemma one_square : square [[0]] 1. Proof. split; [reflexivity|repeat constructor]. Qed.
Lemma con_square c n beta : square (con_matrixR n beta c) n.
Proof.
  assert (G : forall d m, square (masked_diff_gram Rrops n d m) n).
  { intros d m. unfold masked_diff_gram. pose proof (gram_square' (map (fun r => vmulR (diffnR d r) m) (identR n))) as S.
    rewrite map_length in S. rewrite (proj2 (ident_lengths n)) in S. exact S. }
  destruct c; cbn [con_matrix]; try apply mzero_square;
  unfold monotonicity, convexity; destruct n as [|[|n]]; try apply one_square; apply G.
Qed.
Lemma ident_square n : square (identR n) n.
Proof. destruct (ident_lengths n). split; assumption. Qed.
Lemma matvec_length (M : list (list R)) v : length (matvecR M v) = length M. Proof. apply map_length. Qed.

Lemma madd_rows A : forall B p, Forall (fun r => length r = p) A -> Forall (fun r => length r = p) B ->
  Forall (fun r => length r = p) (maddR A B).
Proof. induction A as [|a A IH]; intros [|b B] p FA FB; simpl; try constructor.
  - inversion FA; subst. inversion FB; subst. rewrite vadd_length. lia.
  - inversion FA; subst. inversion FB; subst. apply IH; assumption. Qed.
Lemma madd_length A : forall B, length (maddR A B) = Nat.min (length A) (length B).
Proof. induction A as [|a A IH]; intros [|b B]; simpl; auto. Qed.
Lemma madd_square A B n : square A n -> square B n -> square (maddR A B) n.
Proof. intros [LA FA] [LB FB]. split; [rewrite madd_length; lia|apply madd_rows; assumption]. Qed.
Lemma mscale_square c A n : square A n -> square (mscaleR c A) n.
Proof. intros [L F]. split; [unfold mscale; rewrite map_length; assumption|].
  unfold mscale. apply Forall_map. eapply Forall_impl; [|exact F]. intros r Hr. simpl. rewrite vscale_length. assumption. Qed.

Lemma matvec_madd' A : forall B p v, Forall (fun r => length r = p) A -> Forall (fun r => length r = p) B ->
  matvecR (maddR A B) v = vaddR (matvecR A v) (matvecR B v).
Proof. induction A as [|a A IH]; intros [|b B] p v FA FB; try reflexivity.
  inversion FA; subst. inversion FB; subst. cbn [madd matvec map vadd]. f_equal.
  - apply dot_vadd_l. congruence.
  - apply (IH B (length a)); assumption. Qed.
Lemma matvec_madd A B n v : square A n -> square B n ->
  matvecR (maddR A B) v = vaddR (matvecR A v) (matvecR B v).
Proof. intros [LA FA] [LB FB]. apply (matvec_madd' A B n); assumption. Qed.
Lemma bil_madd A B n u v : square A n -> square B n ->
  dotR u (matvecR (maddR A B) v) = dotR u (matvecR A v) + dotR u (matvecR B v).
Proof. intros SA SB. rewrite (matvec_madd A B n v SA SB). apply dot_vadd_r.
  rewrite !matvec_length. destruct SA, SB. congruence. Qed.
Lemma matvec_mscale c A v : matvecR (mscaleR c A) v = vscaleR c (matvecR A v).
Proof. unfold matvec, mscale, vscale. rewrite !map_map. apply map_ext. intros r. apply dot_vscale_l. Qed.
Lemma bil_mscale c A u v : dotR u (matvecR (mscaleR c A) v) = c * dotR u (matvecR A v).
Proof. rewrite matvec_mscale. apply dot_vscale_r. Qed.

Lemma matvec_cons0' M b bs : matvecR (map (cons 0) M) (b :: bs) = matvecR M bs.
Proof. unfold matvec. rewrite map_map. apply map_ext. intros r. cbn. lra. Qed.
Lemma matvec_ident' n : forall bs, length bs = n -> matvecR (identR n) bs = bs.
Proof. induction n as [|n IH]; intros [|b bs] H; simpl in H; try discriminate; [reflexivity|].
  cbn [ident]. change (matvecR ((r1 Rrops :: zerosR n) :: map (cons (r0 Rrops)) (identR n)) (b :: bs))
    with (dotR (1 :: zerosR n) (b :: bs) :: matvecR (map (cons 0) (identR n)) (b :: bs)).
  rewrite matvec_cons0', IH by lia. cbn [dot]. rewrite dot_zeros_l. f_equal. cbn. lra. Qed.

Lemma quad_madd A B n v : square A n -> square B n -> quadR (maddR A B) v = quadR A v + quadR B v.
Proof. intros SA SB. unfold quad. apply (bil_madd A B n); assumption. Qed.
Lemma quad_mscale c A v : quadR (mscaleR c A) v = c * quadR A v.
Proof. unfold quad. apply bil_mscale. Qed.

(* the form  v |-> sum over positions violating in beta of the squared differences of v *)
Definition con_form (c : con) (beta v : list R) : R := sumsqR (vmulR (diffnR (con_order c) v) (con_mask c beta)).

Lemma constraint_sum_gen n beta clam v : length beta = n -> length v = n ->
  forall cons acc, square acc n ->
  let M := fold_left (fun acc c => maddR acc (mscaleR clam (con_matrixR n beta c))) cons acc in
  square M n /\ quadR M v = quadR acc v + clam * rsum (map (fun c => con_form c beta v) cons).
Proof.
  intros Hb Hv cons. induction cons as [|c cons IH]; intros acc SA; cbn [fold_left map rsum].
  - split; [assumption|lra].
  - assert (S1 : square (maddR acc (mscaleR clam (con_matrixR n beta c))) n)
      by (apply madd_square; [assumption|apply mscale_square, con_square]).
    destruct (IH _ S1) as [S2 Q]. split; [exact S2|]. cbv zeta in Q. rewrite Q.
    rewrite (quad_madd _ _ n) by (try assumption; apply mscale_square, con_square).
    rewrite quad_mscale.
    rewrite (con_quadform_gen c n beta v Hb Hv). unfold con_form. lra.
Qed.

Lemma constraint_sum_quad n beta cons clam v : length beta = n -> length v = n ->
  square (constraint_sumR n beta cons clam) n /\
  quadR (constraint_sumR n beta cons clam) v = clam * rsum (map (fun c => con_form c beta v) cons).
Proof. intros Hb Hv. unfold constraint_sum.
  destruct (constraint_sum_gen n beta clam v Hb Hv cons (mzeroR n n) (mzero_square n)) as [S Q].
  split; [exact S|]. cbv zeta in Q. rewrite Q, quad_mzero. lra. Qed.

(* quadratic form of Term.build_constraints at an arbitrary vector v (mask from beta) *)
Theorem term_quadform_gen n beta cons clam cl2 v : length beta = n -> length v = n ->
  quadR (term_constraintsR n beta cons clam cl2) v =
    clam * rsum (map (fun c => con_form c beta v) cons)
    + (if any_nonzero Rrops (constraint_sumR n beta cons clam) then cl2 * sumsqR v else 0).
Proof.
  intros Hb Hv. unfold term_constraints. destruct (constraint_sum_quad n beta cons clam v Hb Hv) as [S Q].
  destruct (any_nonzero Rrops (constraint_sumR n beta cons clam)).
  - rewrite (quad_madd _ _ n) by (try assumption; apply mscale_square, ident_square).
    rewrite quad_mscale, Q. unfold quad at 1. rewrite matvec_ident' by assumption. unfold sumsq. lra.
  - rewrite Q. lra.
Qed.

Lemma con_form_self c beta : con_form c beta beta = sumsqR (viols c beta).
Proof. unfold con_form, con_mask, viols. destruct (con_active c); [apply sumsq_masked|].
  destruct (diffnR (con_order c) beta); reflexivity. Qed.
Lemma con_form_nonneg c beta v : 0 <= con_form c beta v. Proof. apply sumsq_nonneg. Qed.
Lemma rsum_nonneg {A} (f : A -> R) l : (forall x, 0 <= f x) -> 0 <= rsum (map f l).
Proof. intros H. induction l; simpl; [lra|]. specialize (H a). lra. Qed.
Lemma rsum_zero_iff {A} (f : A -> R) l : (forall x, 0 <= f x) -> (rsum (map f l) = 0 <-> Forall (fun x => f x = 0) l).
Proof. intros H. induction l as [|a l IH]; simpl; [split; auto|].
  pose proof (H a). pose proof (rsum_nonneg f l H). split.
  - intros E. constructor; [lra|apply IH; lra].
  - intros F. inversion F; subst. apply IH in H5. lra. Qed.

(* quad (Term.build_constraints(beta)) beta = constraint_lam * (sum over the term's constraints of the sums of squared violating
   differences) + constraint_l2 * |beta|^2 [only when the summed matrix is non-zero] *)
Theorem term_quadform n beta cons clam cl2 : length beta = n ->
  quadR (term_constraintsR n beta cons clam cl2) beta =
    clam * rsum (map (fun c => sumsqR (viols c beta)) cons)
    + (if any_nonzero Rrops (constraint_sumR n beta cons clam) then cl2 * sumsqR beta else 0).
Proof. intros H. rewrite (term_quadform_gen n beta cons clam cl2 beta H H).
  rewrite (map_ext _ (fun c => sumsqR (viols c beta)) (fun c => con_form_self c beta)). reflexivity. Qed.

Theorem term_psd n beta cons clam cl2 v : length beta = n -> length v = n -> 0 <= clam -> 0 <= cl2 ->
  0 <= quadR (term_constraintsR n beta cons clam cl2) v.
Proof. intros Hb Hv Hc Hl. rewrite (term_quadform_gen n beta cons clam cl2 v Hb Hv).
  pose proof (rsum_nonneg (fun c => con_form c beta v) cons (fun c => con_form_nonneg c beta v)).
  pose proof (sumsq_nonneg v). destruct (any_nonzero _ _); nra. Qed.

(* lower bound used by the violation bound: the ridge only adds *)
Theorem term_quad_lower n beta cons clam cl2 v : length beta = n -> length v = n -> 0 <= cl2 ->
  clam * rsum (map (fun c => con_form c beta v) cons) <= quadR (term_constraintsR n beta cons clam cl2) v.
Proof. intros Hb Hv Hl. rewrite (term_quadform_gen n beta cons clam cl2 v Hb Hv).
  pose proof (sumsq_nonneg v). destruct (any_nonzero _ _); nra. Qed.

(* symmetry in bilinear form *)
Definition bisym (M : list (list R)) (n : nat) : Prop :=
  forall u v, length u = n -> length v = n -> dotR u (matvecR M v) = dotR v (matvecR M u).
Lemma bil_gram' p rows u v : Forall (fun x => length x = p) rows -> length u = length rows -> length v = length rows ->
  dotR u (matvecR (gramR rows) v) = dotR (lincombR p u rows) (lincombR p v rows).
Proof. intros HF Hu Hv. unfold matvec, gram. rewrite map_map.
  rewrite (map_ext_in _ (fun ri => dotR ri (lincombR p v rows))).
  2:{ intros ri _. rewrite dot_comm. symmetry. apply dot_lincomb_r; auto. }
  rewrite (dot_comm (lincombR p u rows)). rewrite (dot_lincomb_r p _ u rows HF Hu).
  f_equal. apply map_ext. intros; apply dot_comm. Qed.
Lemma masked_gram_bisym n d m : bisym (masked_diff_gram Rrops n d m) n.
Proof. intros u v Hu Hv. unfold masked_diff_gram.
  set (rows := map (fun r => vmulR (diffnR d r) m) (identR n)).
  assert (L : length rows = n) by (unfold rows; rewrite map_length; apply ident_lengths).
  assert (HF : Forall (fun x => length x = Nat.min (n - d) (length m)) rows).
  { unfold rows. apply Forall_map. destruct (ident_lengths n) as [F _]. eapply Forall_impl; [|exact F].
    intros r Hr. simpl in *. rewrite vmul_length, diffn_length, Hr. reflexivity. }
  rewrite !(bil_gram' _ rows) by (try exact HF; congruence). apply dot_comm. Qed.
Lemma mzero_bisym n : bisym (mzeroR n n) n.
Proof. intros u v _ _. rewrite !matvec_mzero', !dot_zeros_r. reflexivity. Qed.
Lemma one_bisym : bisym [[0]] 1.
Proof. intros [|a [|? ?]] [|b [|? ?]] Hu Hv; try discriminate. cbn. lra. Qed.
Lemma con_bisym c n beta : bisym (con_matrixR n beta c) n.
Proof. destruct c; cbn [con_matrix]; try apply mzero_bisym; unfold monotonicity, convexity;
  destruct n as [|[|n]]; try apply one_bisym; apply masked_gram_bisym. Qed.
Lemma madd_bisym A B n : square A n -> square B n -> bisym A n -> bisym B n -> bisym (maddR A B) n.
Proof. intros SA SB HA HB u v Hu Hv. rewrite !(bil_madd A B n) by assumption. rewrite (HA u v), (HB u v) by assumption. reflexivity. Qed.
Lemma mscale_bisym c A n : bisym A n -> bisym (mscaleR c A) n.
Proof. intros HA u v Hu Hv. rewrite !bil_mscale, (HA u v) by assumption. reflexivity. Qed.
Lemma ident_bisym n : bisym (identR n) n.
Proof. intros u v Hu Hv. rewrite !matvec_ident' by assumption. apply dot_comm. Qed.
Lemma constraint_sum_bisym n beta clam : forall cons acc, square acc n -> bisym acc n ->
  let M := fold_left (fun acc c => maddR acc (mscaleR clam (con_matrixR n beta c))) cons acc in square M n /\ bisym M n.
Proof. induction cons as [|c cons IH]; intros acc SA BA; cbn [fold_left]; [split; assumption|].
  apply IH.
  - apply madd_square; [assumption|apply mscale_square, con_square].
  - apply madd_bisym; try assumption; [apply mscale_square, con_square|apply mscale_bisym, con_bisym]. Qed.
Theorem term_bisym n beta cons clam cl2 : bisym (term_constraintsR n beta cons clam cl2) n.
Proof. unfold term_constraints, constraint_sum.
  destruct (constraint_sum_bisym n beta clam cons (mzeroR n n) (mzero_square n) (mzero_bisym n)) as [S B]. cbv zeta in S, B.
  destruct (any_nonzero _ _); [|exact B].
  apply madd_bisym; try assumption; [apply mscale_square, ident_square|apply mscale_bisym, ident_bisym]. Qed.
