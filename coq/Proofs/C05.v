(* Proofs/C05.v -- shape-constraint matrices: quadratic forms, symmetry, PSD, zero sets (real instance).
   Depends only on Base and Proofs/VecR.v. *)
From Coq Require Import List Reals Lra Lia Arith Bool.
From PG Require Import Base.Ops Base.Vec Model.Constraints Proofs.VecR.
Import ListNotations.
Open Scope R_scope.

Notation vmulR := (vmul Rrops). Notation mask01R := (mask01 Rrops). Notation violR := (viol Rrops).

(* ---------- which difference / which sign each constraint looks at ---------- *)
Definition con_order (c : con) : nat := match c with CConvex | CConcave => 2%nat | _ => 1%nat end.
Definition con_neg (c : con) : bool := match c with CMonoInc | CConvex => true | _ => false end.
Definition con_active (c : con) : bool := match c with CPyNone | CStrNone => false | _ => true end.
(* the 0/1 mask a constraint derives from the coefficients it is built from *)
Definition con_mask (c : con) (beta : list R) : list R :=
  if con_active c then mask01R (con_neg c) (diffnR (con_order c) beta) else [].
(* the violating differences of beta: negative (resp. positive) first / second differences *)
Definition viols (c : con) (beta : list R) : list R :=
  if con_active c then filter (violR (con_neg c)) (diffnR (con_order c) beta) else [].
(* beta satisfies the constraint: first differences >= 0 (inc) / <= 0 (dec), second differences >= 0 (convex) / <= 0 (concave) *)
Definition satisfies (c : con) (beta : list R) : Prop :=
  match c with
  | CPyNone | CStrNone => True
  | CMonoInc => Forall (fun x => 0 <= x) (diffR beta)
  | CMonoDec => Forall (fun x => x <= 0) (diffR beta)
  | CConvex => Forall (fun x => 0 <= x) (diffnR 2 beta)
  | CConcave => Forall (fun x => x <= 0) (diffnR 2 beta)
  end.

(* ---------- vmul ---------- *)
Lemma vmul_length u : forall v, length (vmulR u v) = Nat.min (length u) (length v).
Proof. induction u as [|a u IH]; intros [|b v]; simpl; auto. Qed.
Lemma vmul_vadd a : forall b m, vmulR (vaddR a b) m = vaddR (vmulR a m) (vmulR b m).
Proof. induction a as [|x a IH]; intros [|y b] [|z m]; simpl; auto.
  rewrite IH. f_equal. lra. Qed.
Lemma vmul_vscale c a : forall m, vmulR (vscaleR c a) m = vscaleR c (vmulR a m).
Proof. induction a as [|x a IH]; intros [|z m]; simpl; auto. fold (vscaleR c a). rewrite IH.
  unfold vscale. simpl. f_equal. lra. Qed.
Lemma vmul_zeros p : forall m, vmulR (zerosR p) m = zerosR (Nat.min p (length m)).
Proof. induction p as [|p IH]; intros [|z m]; try reflexivity. rewrite zeros_S. cbn [vmul length Nat.min].
  rewrite IH, zeros_S. f_equal. cbn. lra. Qed.
Lemma vmul_zeros_r u : forall p, vmulR u (zerosR p) = zerosR (Nat.min (length u) p).
Proof. induction u as [|a u IH]; intros [|p]; try reflexivity. rewrite zeros_S. cbn [vmul length Nat.min].
  rewrite IH, zeros_S. f_equal. cbn. lra. Qed.

(* ---------- the quadratic form of D.dot(D.T), D = sparse_diff(I, d) * diag(m) ---------- *)
Theorem masked_quadform n d m v : length v = n ->
  quadR (masked_diff_gram Rrops n d m) v = sumsqR (vmulR (diffnR d v) m).
Proof.
  intros H. unfold masked_diff_gram.
  apply (quad_gram_linop (fun u => vmulR (diffnR d u) m) (fun p => Nat.min (p - d) (length m))).
  - intros a b _. rewrite diffn_vadd. apply vmul_vadd.
  - intros c a. rewrite diffn_vscale. apply vmul_vscale.
  - intros p. rewrite diffn_zeros. apply vmul_zeros.
  - intros a. rewrite vmul_length, diffn_length. reflexivity.
  - assumption.
Qed.

Lemma sumsq_cons a u : sumsqR (a :: u) = a * a + sumsqR u. Proof. reflexivity. Qed.
Lemma sumsq_masked neg l : sumsqR (vmulR l (mask01R neg l)) = sumsqR (filter (violR neg) l).
Proof. unfold mask01. induction l as [|x l IH]; [reflexivity|]. cbn [map vmul filter].
  destruct (violR neg x); rewrite !sumsq_cons, IH; [|rewrite <- IH]; cbn; lra. Qed.

Lemma quad_1x1_zero v : quadR [[0]] v = 0.
Proof. destruct v as [|b v]; cbn; [lra|]. destruct v; cbn; lra. Qed.
Lemma matvec_mzero' n m v : matvecR (mzeroR n m) v = zerosR n.
Proof. unfold mzero, matvec. induction n; [reflexivity|]. cbn [repeat map]. rewrite IHn. rewrite dot_zeros_l. reflexivity. Qed.
Lemma quad_mzero n m v : quadR (mzeroR n m) v = 0.
Proof. unfold quad. rewrite matvec_mzero'. apply dot_zeros_r. Qed.

Lemma diffn_short d : forall l, (length l <= d)%nat -> diffnR d l = [].
Proof. intros l H. pose proof (diffn_length d l) as E. destruct (diffnR d l); [reflexivity|]. simpl in E. lia. Qed.

(* quad (C_c(beta)) v  =  sum over the positions that VIOLATE IN beta of the squared differences OF v *)
Theorem con_quadform_gen c n beta v : length beta = n -> length v = n ->
  quadR (con_matrix Rrops n beta c) v = sumsqR (vmulR (diffnR (con_order c) v) (con_mask c beta)).
Proof.
  intros Hb Hv.
  assert (N1 : forall d neg, (1 <= d)%nat -> n = 1%nat ->
            0 = sumsqR (vmulR (diffnR d v) (mask01R neg (diffnR d beta)))).
  { intros d neg Hd Hn. rewrite (diffn_short d v) by lia. reflexivity. }
  destruct c; unfold con_mask; cbn [con_matrix con_active con_order con_neg].
  1,2: rewrite quad_mzero; destruct (diffnR 1 v); reflexivity.
  all: unfold monotonicity, convexity; destruct n as [|[|n]];
    try (rewrite quad_1x1_zero; apply N1; lia); apply masked_quadform; assumption.
Qed.

Theorem con_quadform c n beta : length beta = n ->
  quadR (con_matrix Rrops n beta c) beta = sumsqR (viols c beta).
Proof.
  intros H. rewrite (con_quadform_gen c n beta beta H H). unfold con_mask, viols.
  destruct (con_active c).
  - apply sumsq_masked.
  - destruct (diffnR (con_order c) beta); reflexivity.
Qed.

Theorem con_psd c n beta v : length beta = n -> length v = n -> 0 <= quadR (con_matrix Rrops n beta c) v.
Proof. intros Hb Hv. rewrite (con_quadform_gen c n beta v Hb Hv). apply sumsq_nonneg. Qed.

(* ---------- symmetry ---------- *)
Lemma nth_mzero n m i j : nth j (nth i (mzeroR n m) []) 0 = 0.
Proof. unfold mzero. destruct (Nat.lt_ge_cases i n) as [Hi|Hi].
  - rewrite (nth_indep _ [] (zerosR m)) by (rewrite repeat_length; assumption).
    rewrite nth_repeat. unfold zeros. destruct (Nat.lt_ge_cases j m).
    + rewrite nth_repeat. reflexivity.
    + apply nth_overflow. rewrite repeat_length. assumption.
  - rewrite (nth_overflow (repeat _ n)) by (rewrite repeat_length; assumption). destruct j; reflexivity. Qed.
Lemma nth_1x1_zero i j : nth j (nth i [[0]] []) 0 = 0.
Proof. destruct i as [|[|i]]; destruct j as [|[|j]]; reflexivity. Qed.
Theorem con_sym c n beta i j :
  nth j (nth i (con_matrix Rrops n beta c) []) 0 = nth i (nth j (con_matrix Rrops n beta c) []) 0.
Proof.
  destruct c; cbn [con_matrix]; try (rewrite !nth_mzero; reflexivity);
  unfold monotonicity, convexity, masked_diff_gram; destruct n as [|[|n]];
  try (rewrite !nth_1x1_zero; reflexivity); apply gram_sym.
Qed.

(* ---------- zero set ---------- *)
Lemma filter_nil_iff {A} (p : A -> bool) l : filter p l = [] <-> Forall (fun x => p x = false) l.
Proof. induction l as [|a l IH]; simpl; [split; auto|]. destruct (p a) eqn:E; split; intros H.
  - discriminate. - inversion H; congruence. - constructor; [assumption|apply IH; assumption].
  - inversion H; subst. apply IH; assumption. Qed.
Lemma sumsq_filter_viol_zero neg l : sumsqR (filter (violR neg) l) = 0 <-> Forall (fun x => violR neg x = false) l.
Proof. rewrite <- filter_nil_iff. split.
  - intros H. apply sumsq_zero_iff in H. destruct (filter (violR neg) l) as [|a f] eqn:E; [reflexivity|].
    exfalso. assert (In a (filter (violR neg) l)) as I by (rewrite E; left; reflexivity).
    apply filter_In in I. destruct I as [_ I]. inversion H; subst.
    unfold viol in I. destruct neg; cbn in I; [apply Rltb_true in I|apply Rltb_true in I]; lra.
  - intros ->. reflexivity. Qed.
Lemma viol_false_neg x : violR true x = false <-> 0 <= x.
Proof. unfold viol. cbn. apply Rltb_false. Qed.
Lemma viol_false_pos x : violR false x = false <-> x <= 0.
Proof. unfold viol. cbn. apply Rltb_false. Qed.

Theorem con_zero_iff c n beta : length beta = n ->
  (quadR (con_matrix Rrops n beta c) beta = 0 <-> satisfies c beta).
Proof.
  intros H. rewrite (con_quadform c n beta H). unfold viols.
  destruct c; cbn [con_active con_order con_neg satisfies]; try (split; auto; fail);
  rewrite sumsq_filter_viol_zero; cbn [diffn];
  (split; intros F; eapply Forall_impl; [|exact F| |exact F]; intros x; cbv beta;
   first [apply viol_false_neg | apply viol_false_pos]).
Qed.

(* "non-decreasing" etc. in index form *)
Lemma diff_cons2 a b l : diffR (a :: b :: l) = (b - a) :: diffR (b :: l).
Proof. reflexivity. Qed.
Lemma Forall_diff_iff (P : R -> Prop) : forall l,
  Forall P (diffR l) <-> (forall i, (S i < length l)%nat -> P (nth (S i) l 0 - nth i l 0)).
Proof. induction l as [|a [|b l] IH].
  - split; [intros _ i Hi; simpl in Hi; lia|constructor].
  - split; [intros _ i Hi; simpl in Hi; lia|constructor].
  - rewrite diff_cons2. split.
    + intros F i Hi. inversion F; subst. destruct i as [|i]; [exact H1|].
      apply (proj1 IH H2 i). simpl in *. lia.
    + intros F. constructor; [exact (F O ltac:(simpl; lia))|].
      apply IH. intros i Hi. apply (F (S i)). simpl in *. lia.
Qed.
