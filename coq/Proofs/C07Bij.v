(* Proofs/C07Bij.v -- links as bijections between the mean domain and the link's range: injectivity, the sign of the
   reported gradient (it agrees with the direction of monotonicity, so the PIRLS weight 1/(g'^2 V) never divides by zero on
   the open domain), and the derivative of the inverse link as the reciprocal of the reported gradient (the inverse function
   rule the PIRLS pseudo-data rely on).  About the GENERATED definitions Gen/Links.v *)
From Coq Require Import Reals Lra Lia.
From Coquelicot Require Import Coquelicot.
From PG Require Import Base.Ops Gen.Links Proofs.C07.
Open Scope R_scope.

Lemma inj_of_left_inv (g h : R -> R) a b : h (g a) = a -> h (g b) = b -> g a = g b -> a = b.
Proof. intros Ha Hb E. rewrite <- Ha, <- Hb, E. reflexivity. Qed.

Lemma identity_inj L a b : Gen_IdentityLink_link L a = Gen_IdentityLink_link L b -> a = b.
Proof. intro E; exact E. Qed.
Lemma log_inj L a b : 0 < a -> 0 < b -> Gen_LogLink_link L a = Gen_LogLink_link L b -> a = b.
Proof. intros Ha Hb. apply (inj_of_left_inv _ (Gen_LogLink_mu L)); apply log_inv_left; assumption. Qed.
Lemma logit_inj L a b : 0 < a < L -> 0 < b < L -> Gen_LogitLink_link L a = Gen_LogitLink_link L b -> a = b.
Proof. intros Ha Hb. apply (inj_of_left_inv _ (Gen_LogitLink_mu L)); apply logit_inv_left; assumption. Qed.
Lemma inverse_inj L a b : a <> 0 -> b <> 0 -> Gen_InverseLink_link L a = Gen_InverseLink_link L b -> a = b.
Proof. intros Ha Hb. apply (inj_of_left_inv _ (Gen_InverseLink_mu L)); apply inverse_inv_left; assumption. Qed.
Lemma invsq_inj L a b : 0 < a -> 0 < b -> Gen_InvSquaredLink_link L a = Gen_InvSquaredLink_link L b -> a = b.
Proof. intros Ha Hb. apply (inj_of_left_inv _ (Gen_InvSquaredLink_mu L)); apply invsq_inv_left; assumption. Qed.

(* the inverse squared link is NOT injective on the whole non-zero line: the property's domain restriction is needed *)
Lemma invsq_not_inj_signed L : Gen_InvSquaredLink_link L 2 = Gen_InvSquaredLink_link L (-2) /\ 2 <> -2.
Proof. split; [unfold Gen_InvSquaredLink_link; f_equal; ring|lra]. Qed.

(* sign of the reported gradient *)
Lemma identity_grad_pos L m : 0 < Gen_IdentityLink_gradient L m.
Proof. unfold Gen_IdentityLink_gradient; lra. Qed.
Lemma log_grad_pos L m : 0 < m -> 0 < Gen_LogLink_gradient L m.
Proof. intro H. unfold Gen_LogLink_gradient. apply div_pos; lra. Qed.
Lemma logit_grad_pos L m : 0 < m < L -> 0 < Gen_LogitLink_gradient L m.
Proof. intros [H0 H1]. unfold Gen_LogitLink_gradient. apply div_pos; [lra|]. apply Rmult_lt_0_compat; lra. Qed.
Lemma inverse_grad_neg L m : m <> 0 -> Gen_InverseLink_gradient L m < 0.
Proof. intro H. unfold Gen_InverseLink_gradient.
  assert (0 < m * m) by (destruct (Rtotal_order m 0) as [Hn|[Hz|Hp]]; [nra|lra|nra]).
  assert (0 < / (m * m)) by (apply Rinv_0_lt_compat; assumption). lra. Qed.
Lemma invsq_grad_neg L m : 0 < m -> Gen_InvSquaredLink_gradient L m < 0.
Proof. intro H. unfold Gen_InvSquaredLink_gradient.
  assert (0 < m * m * m) by (apply Rmult_lt_0_compat; [apply Rmult_lt_0_compat|]; assumption).
  assert (0 < / (m * m * m)) by (apply Rinv_0_lt_compat; assumption). lra. Qed.

(* inverse function rule: d mu / d eta = 1 / g'(mu(eta)) *)
Lemma identity_mu_derive L e : is_derive (Gen_IdentityLink_mu L) e (/ Gen_IdentityLink_gradient L (Gen_IdentityLink_mu L e)).
Proof. unfold Gen_IdentityLink_mu, Gen_IdentityLink_gradient. auto_derive; [exact I|field]. Qed.
Lemma log_mu_derive L e : is_derive (Gen_LogLink_mu L) e (/ Gen_LogLink_gradient L (Gen_LogLink_mu L e)).
Proof. unfold Gen_LogLink_mu, Gen_LogLink_gradient. pose proof (exp_pos e). auto_derive; [exact I|field; lra]. Qed.
Lemma logit_mu_derive L e : 0 < L ->
  is_derive (Gen_LogitLink_mu L) e (/ Gen_LogitLink_gradient L (Gen_LogitLink_mu L e)).
Proof. intro HL. unfold Gen_LogitLink_mu, Gen_LogitLink_gradient. pose proof (exp_pos (- e)) as He.
  auto_derive; [lra|]. field. repeat split; try lra; nra. Qed.
Lemma inverse_mu_derive L e : e <> 0 ->
  is_derive (Gen_InverseLink_mu L) e (/ Gen_InverseLink_gradient L (Gen_InverseLink_mu L e)).
Proof. intro He. unfold Gen_InverseLink_mu, Gen_InverseLink_gradient. auto_derive; [assumption|]. field. assumption. Qed.
