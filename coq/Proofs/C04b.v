(* Proofs/C04b.v -- composition of penalties: sum with lam, block-diagonal assembly, Kronecker lifts *)
From Coq Require Import List Reals Lra Lia Arith Bool.
From PG Require Import Base.Ops Base.Vec Model.Penalties Proofs.VecR Proofs.C04.
Import ListNotations.
Open Scope R_scope.

(* ---------- matvec / quad are linear in the matrix ---------- *)
Lemma matvec_madd A : forall B v n, Forall (fun r => length r = n) A -> Forall (fun r => length r = n) B ->
  matvecR (maddR A B) v = vaddR (matvecR A v) (matvecR B v).
Proof. induction A as [|a A IH]; intros [|b B] v n HA HB; try reflexivity.
  inversion HA as [|? ? Ha HA']; inversion HB as [|? ? Hb HB']. cbn [madd matvec map vadd]. f_equal.
  - apply dot_vadd_l. congruence.
  - apply (IH B v n); assumption. Qed.
Lemma matvec_mscale c A v : matvecR (mscaleR c A) v = vscaleR c (matvecR A v).
Proof. unfold matvec, mscale, vscale. rewrite !map_map. apply map_ext. intros r. apply dot_vscale_l. Qed.
Lemma matvec_length A v : length (matvecR A v) = length A. Proof. apply map_length. Qed.
Lemma quad_madd A B v n : square A n -> square B n -> quadR (maddR A B) v = quadR A v + quadR B v.
Proof. intros [LA FA] [LB FB]. unfold quad. rewrite (matvec_madd A B v n FA FB).
  apply dot_vadd_r. rewrite !matvec_length. congruence. Qed.
Lemma quad_mscale c A v : quadR (mscaleR c A) v = c * quadR A v.
Proof. unfold quad. rewrite matvec_mscale. apply dot_vscale_r. Qed.
Lemma madd_length A : forall B, length (maddR A B) = Nat.min (length A) (length B).
Proof. induction A as [|a A IH]; intros [|b B]; cbn; auto. Qed.
Lemma madd_rows A : forall B n, Forall (fun r => length r = n) A -> Forall (fun r => length r = n) B ->
  Forall (fun r => length r = n) (maddR A B).
Proof. induction A as [|a A IH]; intros [|b B] n HA HB; cbn; try constructor.
  - inversion HA as [|? ? Ha HA']; inversion HB as [|? ? Hb HB']. rewrite vadd_length. lia.
  - inversion HA as [|? ? Ha HA']; inversion HB as [|? ? Hb HB']. apply IH; assumption. Qed.
Lemma madd_square A B n : square A n -> square B n -> square (maddR A B) n.
Proof. intros [LA FA] [LB FB]. split; [rewrite madd_length; lia | apply madd_rows; assumption]. Qed.
Lemma mscale_square c A n : square A n -> square (mscaleR c A) n.
Proof. intros [LA FA]. split; [unfold mscale; rewrite map_length; exact LA|].
  unfold mscale. apply Forall_map. eapply Forall_impl; [|exact FA]. intros r Hr. simpl in *. rewrite vscale_length. exact Hr. Qed.
Lemma mzero_square n : square (mzeroR n n) n.
Proof. unfold mzero. split; [apply repeat_length|]. apply Forall_forall. intros r Hr. apply repeat_spec in Hr. subst. apply zeros_length. Qed.
Lemma ident_square n : square (identR n) n.
Proof. destruct (ident_lengths n). split; assumption. Qed.

(* every penalty matrix the model can build for a term of size n is n x n *)
Definition pen_ok (n : nat) (p : pen) : Prop :=
  match p with PPeriodic d => (d <= n)%nat \/ n = 1%nat | _ => True end.
Lemma pen_derivative_square n d : square (pen_derivative Rrops n d) n.
Proof. unfold pen_derivative. destruct (ident_lengths n) as [HF HL].
  assert (G : square (gramR (map (diffnR d) (identR n))) n).
  { pose proof (gram_square (map (diffnR d) (identR n))) as S. rewrite map_length, HL in S. exact S. }
  destruct n as [|[|n]]; [exact G| |exact G]. split; [reflexivity|repeat constructor]. Qed.
Lemma pen_periodic_square n d M : pen_periodic Rrops n d = Some M -> square M n.
Proof. unfold pen_periodic. destruct n as [|[|n]].
  - destruct (Nat.ltb 0 d) eqn:E; [discriminate|]. intros X; inversion X. apply Nat.ltb_ge in E.
    destruct (periodic_D_shape 0 d E) as [_ HL]. pose proof (gram_square (periodic_D Rrops 0 d)) as S. rewrite HL in S. exact S.
  - intros X; inversion X. split; [reflexivity|repeat constructor].
  - destruct (Nat.ltb (S (S n)) d) eqn:E; [discriminate|]. intros X; inversion X. apply Nat.ltb_ge in E.
    destruct (periodic_D_shape (S (S n)) d E) as [_ HL]. pose proof (gram_square (periodic_D Rrops (S (S n)) d)) as S. rewrite HL in S. exact S.
Qed.
Definition resolve (k : tkind) (p : pen) : pen := match p with PAuto => resolve_auto k | _ => p end.
Lemma pen_matrix_square k n p : pen_ok n (resolve k p) -> square (pen_matrix Rrops k n p) n.
Proof. unfold pen_matrix. fold (resolve k p). destruct (resolve k p) as [| d | d | |]; intros Hok.
  - apply mzero_square.
  - apply pen_derivative_square.
  - destruct (pen_periodic Rrops n d) as [M|] eqn:E; [apply (pen_periodic_square n d); exact E|].
    exfalso. unfold pen_periodic in E. destruct n as [|[|n]]; try discriminate.
    + cbn in Hok. destruct Hok as [H|H]; [|discriminate]. assert (d = 0%nat) by lia. subst. discriminate.
    + destruct (Nat.ltb (S (S n)) d) eqn:E'; [|discriminate]. apply Nat.ltb_lt in E'. cbn in Hok. lia.
  - apply ident_square.
  - apply mzero_square.
Qed.

(* ---------- Term.build_penalties: sum_j lam_j P_j ---------- *)
Definition margin_ok (m : @margin R) : Prop :=
  Forall (fun pl => pen_ok (m_n m) (resolve (m_kind m) (fst pl))) (m_pens m).
Fixpoint sum_lam_quad (k : tkind) (n : nat) (pens : list (pen * R)) (v : list R) : R :=
  match pens with [] => 0 | (p, lam) :: rest => lam * quadR (pen_matrix Rrops k n p) v + sum_lam_quad k n rest v end.
Lemma fold_margin_square k n pens : forall acc, square acc n ->
  Forall (fun pl => pen_ok n (resolve k (fst pl))) pens ->
  square (fold_left (fun acc pl => maddR acc (mscaleR (snd pl) (pen_matrix Rrops k n (fst pl)))) pens acc) n
  /\ forall v, quadR (fold_left (fun acc pl => maddR acc (mscaleR (snd pl) (pen_matrix Rrops k n (fst pl)))) pens acc) v
       = quadR acc v + sum_lam_quad k n pens v.
Proof. induction pens as [|[p lam] pens IH]; intros acc Hacc Hok; cbn [fold_left sum_lam_quad].
  - split; [exact Hacc|intros; lra].
  - inversion Hok as [|? ? Hp Hrest]; subst. cbn [fst snd] in *.
    assert (Sq : square (maddR acc (mscaleR lam (pen_matrix Rrops k n p))) n).
    { apply madd_square; [exact Hacc|]. apply mscale_square. apply pen_matrix_square. exact Hp. }
    destruct (IH _ Sq Hrest) as [S Q]. split; [exact S|]. intros v. rewrite Q.
    rewrite (quad_madd acc _ v n Hacc); [rewrite quad_mscale; lra|].
    apply mscale_square. apply pen_matrix_square. exact Hp. Qed.
Theorem margin_penalty_sum m v : margin_ok m ->
  quadR (margin_penalty Rrops m) v = sum_lam_quad (m_kind m) (m_n m) (m_pens m) v.
Proof. intros Hok. unfold margin_penalty.
  destruct (fold_margin_square (m_kind m) (m_n m) (m_pens m) (mzeroR (m_n m) (m_n m)) (mzero_square _) Hok) as [_ Q].
  rewrite Q. unfold quad at 1. rewrite matvec_mzero, dot_zeros_r. lra. Qed.
Theorem margin_penalty_square m : margin_ok m -> square (margin_penalty Rrops m) (m_n m).
Proof. intros Hok. unfold margin_penalty.
  exact (proj1 (fold_margin_square (m_kind m) (m_n m) (m_pens m) _ (mzero_square _) Hok)). Qed.

(* ---------- block diagonal ---------- *)
Lemma dot_app u1 : forall v1 u2 v2, length u1 = length v1 -> dotR (u1 ++ u2) (v1 ++ v2) = dotR u1 v1 + dotR u2 v2.
Proof. induction u1 as [|a u1 IH]; intros [|b v1] u2 v2 H; cbn in H; try discriminate; cbn [app dot].
  - cbn. lra.
  - rewrite IH by lia. cbn. lra. Qed.
Fixpoint mv_blocks (Ps : list (list (list R))) (v : list R) : list R :=
  match Ps with [] => [] | P :: rest => matvecR P (firstn (length P) v) ++ mv_blocks rest (skipn (length P) v) end.
Fixpoint quad_blocks (Ps : list (list (list R))) (v : list R) : R :=
  match Ps with [] => 0 | P :: rest => quadR P (firstn (length P) v) + quad_blocks rest (skipn (length P) v) end.
Definition total (Ps : list (list (list R))) : nat := fold_right (fun Bk acc => (length Bk + acc)%nat) O Ps.
Lemma block_row pre r (b1 b2 : list R) right : length b1 = length r -> length b2 = right ->
  dotR (zerosR (length pre) ++ r ++ zerosR right) (pre ++ b1 ++ b2) = dotR r b1.
Proof. intros H1 H2. rewrite dot_app by (rewrite zeros_length; reflexivity). rewrite dot_zeros_l.
  rewrite dot_app by (symmetry; exact H1). rewrite dot_zeros_l. lra. Qed.
Lemma block_diag_aux_matvec Ps : forall pre v, Forall (fun P => square P (length P)) Ps -> length v = total Ps ->
  matvecR (block_diag_aux Rrops (length pre) Ps (total Ps)) (pre ++ v) = mv_blocks Ps v.
Proof. induction Ps as [|P Ps IH]; intros pre v HF HL; [reflexivity|].
  inversion HF as [|? ? [_ HP] HF']; subst. cbn [block_diag_aux mv_blocks total fold_right] in *.
  fold (total Ps) in *. unfold matvec at 1. rewrite map_app, map_map. f_equal.
  - unfold matvec. apply map_ext_in. intros r Hr. rewrite Forall_forall in HP. specialize (HP r Hr).
    rewrite <- (firstn_skipn (length P) v) at 1. replace (length P + total Ps - length P)%nat with (total Ps) by lia.
    apply block_row; [rewrite firstn_length; lia | rewrite skipn_length; lia].
  - replace (length P + total Ps - length P)%nat with (total Ps) by lia.
    specialize (IH (pre ++ firstn (length P) v) (skipn (length P) v) HF').
    rewrite app_length, firstn_length in IH. replace (Nat.min (length P) (length v)) with (length P) in IH by lia.
    rewrite <- app_assoc, firstn_skipn in IH. apply IH. rewrite skipn_length. lia. Qed.
Theorem block_diag_quad Ps v : Forall (fun P => square P (length P)) Ps -> length v = total Ps ->
  quadR (block_diag Rrops Ps) v = quad_blocks Ps v.
Proof. intros HF HL. unfold quad, block_diag.
  pose proof (block_diag_aux_matvec Ps [] v HF HL) as E. cbn [length app] in E. unfold total in E. rewrite E. clear E.
  clear HF. revert v HL. induction Ps as [|P Ps IH]; intros v HL; cbn [mv_blocks quad_blocks total fold_right] in *.
  - destruct v; [reflexivity|discriminate].
  - fold (total Ps) in *. rewrite <- (firstn_skipn (length P) v) at 1.
    rewrite dot_app by (rewrite matvec_length, firstn_length; lia).
    rewrite IH by (rewrite skipn_length; lia). reflexivity. Qed.

(* ---------- Kronecker lift I_p (x) B : acts on the p consecutive chunks of length q ---------- *)
Notation kronR := (kron Rrops). Notation kron_rowR := (kron_row Rrops).
Fixpoint quad_chunks (B : list (list R)) (q p : nat) (v : list R) : R :=
  match p with O => 0 | S p' => quadR B (firstn q v) + quad_chunks B q p' (skipn q v) end.
Lemma vscale_1 u : vscaleR 1 u = u.
Proof. unfold vscale. rewrite <- (map_id u) at 2. apply map_ext. intros; cbn; lra. Qed.
Lemma vscale_0 u : vscaleR 0 u = zerosR (length u).
Proof. induction u as [|a u IH]; [reflexivity|]. cbn [vscale map length]. rewrite zeros_S. f_equal; [cbn; lra|exact IH]. Qed.
Lemma zeros_app a b : zerosR a ++ zerosR b = zerosR (a + b).
Proof. unfold zeros. rewrite <- repeat_app. reflexivity. Qed.
Lemma kron_row_zeros p rb : kron_rowR (zerosR p) rb = zerosR (p * length rb).
Proof. induction p as [|p IH]; [reflexivity|]. rewrite zeros_S. unfold kron_row in *. cbn [flat_map].
  rewrite IH, vscale_0, zeros_app. f_equal. Qed.
Lemma kron_row_cons0 r rb : kron_rowR (0 :: r) rb = zerosR (length rb) ++ kron_rowR r rb.
Proof. unfold kron_row. cbn [flat_map]. rewrite vscale_0. reflexivity. Qed.
Lemma kron_cons0 A B q : Forall (fun r => length r = q) B ->
  kronR (map (cons 0) A) B = map (fun row => zerosR q ++ row) (kronR A B).
Proof. intros HB. unfold kron. induction A as [|ra A IH]; [reflexivity|].
  cbn [map flat_map]. rewrite map_app, IH. f_equal. rewrite map_map. apply map_ext_in.
  intros rb Hrb. rewrite kron_row_cons0. rewrite Forall_forall in HB. rewrite (HB rb Hrb). reflexivity. Qed.
Lemma kron_ident_matvec B q : square B q -> forall p v, length v = (p * q)%nat ->
  matvecR (kronR (identR p) B) v =
  (fix go p v := match p with O => [] | S p' => matvecR B (firstn q v) ++ go p' (skipn q v) end) p v.
Proof. intros [LB FB]. induction p as [|p IH]; intros v HL; [reflexivity|].
  cbn [ident]. change (r1 Rrops) with 1. change (r0 Rrops) with 0. fold (zerosR p).
  unfold kron at 1. cbn [flat_map]. fold (kronR (map (cons 0) (identR p)) B).
  rewrite (kron_cons0 _ _ q FB). unfold matvec at 1. rewrite map_app. f_equal.
  - rewrite map_map. unfold matvec. apply map_ext_in. intros rb Hrb. rewrite Forall_forall in FB. pose proof (FB rb Hrb) as Lrb.
    unfold kron_row. cbn [flat_map]. fold (kron_rowR (zerosR p) rb). rewrite kron_row_zeros, vscale_1.
    rewrite <- (firstn_skipn q v) at 1. rewrite dot_app by (rewrite firstn_length; nia).
    rewrite dot_zeros_l. lra.
  - rewrite map_map. rewrite <- (IH (skipn q v)) by (rewrite skipn_length; nia). unfold matvec. apply map_ext.
    intros row. rewrite <- (firstn_skipn q v) at 1. rewrite dot_app by (rewrite zeros_length, firstn_length; nia).
    rewrite dot_zeros_l. lra. Qed.
Theorem kron_ident_l_quad B q p v : square B q -> length v = (p * q)%nat ->
  quadR (kronR (identR p) B) v = quad_chunks B q p v.
Proof. intros SB HL. unfold quad. rewrite (kron_ident_matvec B q SB p v HL). destruct SB as [LB FB].
  revert v HL. induction p as [|p IH]; intros v HL.
  - destruct v; [reflexivity|discriminate].
  - cbn [quad_chunks]. rewrite <- (firstn_skipn q v) at 1.
    rewrite dot_app by (rewrite matvec_length, firstn_length; nia).
    rewrite IH by (rewrite skipn_length; nia). reflexivity. Qed.
