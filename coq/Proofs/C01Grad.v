(* Proofs/C01Grad.v -- a fixed point of the PIRLS step is a stationary point of the penalised deviance:
   directional derivative of  D(beta) = sum_i w_i dev(y_i, ginv(B_i . beta)) + beta' Ptot beta  along any direction v,
   by the chain rule (Coquelicot), and its vanishing from the score equation. *)
From Coq Require Import List Reals Lra Lia Arith Bool.
From Coquelicot Require Import Coquelicot.
From PG Require Import Base.Ops Base.Vec Model.Pirls Proofs.VecR Proofs.C04 Proofs.C04b Proofs.C01.
Import ListNotations.
Open Scope R_scope.

Section Grad.
Variable dev : R -> R -> R.          (* unit deviance dev y mu *)
Variable ginv : R -> R.              (* inverse link *)
Variable dd : R -> R -> R.           (* d dev / d mu at (y, mu) *)
Variable gi : R -> R.                (* d ginv / d lp *)
Variable ok : R -> R -> Prop.        (* validity of (y, lp) *)
Hypothesis Hdev : forall y lp, ok y lp -> is_derive (dev y) (ginv lp) (dd y (ginv lp)).
Hypothesis Hginv : forall y lp, ok y lp -> is_derive ginv lp (gi lp).

(* observations: (w, y, lp, u) with u = B_i . v the change of the linear predictor per unit step *)
Fixpoint pdev (obs : list (R * R * R * R)) (t : R) : R :=
  match obs with
  | [] => 0
  | (w, y, lp, u) :: r => w * dev y (ginv (lp + t * u)) + pdev r t
  end.
Fixpoint dsum (obs : list (R * R * R * R)) : R :=
  match obs with
  | [] => 0
  | (w, y, lp, u) :: r => w * (dd y (ginv lp) * (gi lp * u)) + dsum r
  end.
Lemma pdev_derive obs : List.Forall (fun o => ok (snd (fst (fst o))) (snd (fst o))) obs -> is_derive (pdev obs) 0 (dsum obs).
Proof.
  induction 1 as [|[[[w y] lp] u] r Hok _ IH]; cbn [pdev dsum].
  - apply (is_derive_ext (fun _ : R => 0)); [reflexivity|]. auto_derive; [trivial|ring].
  - cbn [fst snd] in Hok. apply (@is_derive_plus _ _ (fun t => w * dev y (ginv (lp + t * u))) (pdev r)); [|exact IH].
    apply is_derive_scal.
    assert (E : lp + 0 * u = lp) by ring.
    replace (dd y (ginv lp) * (gi lp * u)) with (scal (scal u (gi lp)) (dd y (ginv lp))) by (unfold scal; cbn; unfold mult; cbn; ring).
    apply (@is_derive_comp _ _ (dev y) (fun t => ginv (lp + t * u))).
    + rewrite E. apply Hdev. exact Hok.
    + apply (@is_derive_comp _ _ ginv (fun t => lp + t * u)).
      * rewrite E. apply (Hginv y). exact Hok.
      * auto_derive; [trivial|ring].
Qed.
End Grad.

(* the quadratic penalty along a line *)
Lemma matvec_vadd A : forall u v n, List.Forall (fun r => length r = n) A -> length u = n -> length v = n ->
  matvecR A (vaddR u v) = vaddR (matvecR A u) (matvecR A v).
Proof. induction A as [|a A IH]; intros u v n HA Lu Lv; [reflexivity|].
  inversion HA as [|? ? Ha HA']. cbn [matvec map vadd]. fold (matvecR A (vaddR u v)) (matvecR A u) (matvecR A v).
  rewrite (IH u v n HA' Lu Lv). f_equal. apply dot_vadd_r. congruence. Qed.
Lemma matvec_vscale A c v : matvecR A (vscaleR c v) = vscaleR c (matvecR A v).
Proof. unfold matvec, vscale. rewrite map_map. apply map_ext. intros r. apply dot_vscale_r. Qed.
Lemma quad_line P n b v t : square P n -> length b = n -> length v = n ->
  quadR P (vaddR b (vscaleR t v)) = quadR P b + t * (dotR b (matvecR P v) + dotR v (matvecR P b)) + t * t * quadR P v.
Proof. intros [LP FP] Lb Lv. unfold quad.
  rewrite (matvec_vadd P b (vscaleR t v) n) by (try assumption; rewrite vscale_length; assumption).
  rewrite matvec_vscale.
  rewrite dot_vadd_l by (rewrite vscale_length; congruence).
  rewrite !dot_vadd_r by (rewrite vscale_length, !matvec_length; reflexivity).
  rewrite !dot_vscale_l, !dot_vscale_r. ring. Qed.

Section Stationary.
Variable dev : R -> R -> R. Variable ginv : R -> R. Variable dd : R -> R -> R. Variable gi : R -> R. Variable ok : R -> R -> Prop.
Hypothesis Hdev : forall y lp, ok y lp -> is_derive (dev y) (ginv lp) (dd y (ginv lp)).
Hypothesis Hginv : forall y lp, ok y lp -> is_derive ginv lp (gi lp).

(* penalised deviance along beta + t v;  rows of B, obs = (w, y) per row *)
Definition mkobs (B : list (list R)) (wy : list (R * R)) (b v : list R) : list (R * R * R * R) :=
  map (fun t => (fst (snd t), snd (snd t), dotR (fst t) b, dotR (fst t) v)) (combine B wy).
Definition pendev (B : list (list R)) (wy : list (R * R)) (P : list (list R)) (b v : list R) (t : R) : R :=
  pdev dev ginv (mkobs B wy b v) t + quadR P (vaddR b (vscaleR t v)).

Theorem pendev_derive m B wy P b v :
  square P m -> length b = m -> length v = m ->
  List.Forall (fun o => ok (snd (fst (fst o))) (snd (fst o))) (mkobs B wy b v) ->
  is_derive (pendev B wy P b v) 0
            (dsum ginv dd gi (mkobs B wy b v) + (dotR b (matvecR P v) + dotR v (matvecR P b))).
Proof.
  intros SP Lb Lv Hok. unfold pendev.
  apply (@is_derive_plus _ _ (pdev dev ginv (mkobs B wy b v)) (fun t => quadR P (vaddR b (vscaleR t v)))).
  - apply pdev_derive with (ok := ok); assumption.
  - apply (is_derive_ext (fun t => quadR P b + t * (dotR b (matvecR P v) + dotR v (matvecR P b)) + t * t * quadR P v)).
    + intros t. symmetry. apply (quad_line P m); assumption.
    + auto_derive; [trivial|ring].
Qed.
End Stationary.

(* ---------- stationarity: the directional derivative vanishes when the score equation holds ---------- *)
Section Stationary2.
Variable ginv : R -> R. Variable dd : R -> R -> R. Variable gi : R -> R.
Lemma dsum_mkobs B : forall wy s b v,
  length wy = length B -> length s = length B ->
  List.Forall (fun t => fst (fst (snd t)) * (dd (snd (fst (snd t))) (ginv (dotR (fst t) b)) * gi (dotR (fst t) b)) = -2 * snd (snd t))
              (combine B (combine wy s)) ->
  dsum ginv dd gi (mkobs B wy b v) = -2 * dotR s (matvecR B v).
Proof.
  induction B as [|row B IH]; intros [|[w y] wy] [|si s] b v Lw Ls H; cbn in Lw, Ls; try discriminate.
  - cbn. ring.
  - cbn [combine] in H. inversion H as [|? ? H1 H2]; subst. cbn [fst snd] in H1.
    unfold mkobs. cbn [combine map dsum matvec dot]. fold (mkobs B wy b v) (matvecR B v).
    rewrite (IH wy s b v) by (try lia; assumption).
    cbn [radd rmul Rrops fst snd].
    transitivity ((w * (dd y (ginv (dotR row b)) * gi (dotR row b))) * dotR row v + -2 * dotR s (matvecR B v)); [ring|].
    rewrite H1. ring.
Qed.

Theorem stationary_from_score m B wy s P b v :
  List.Forall (fun r => length r = m) B -> length wy = length B -> length s = length B ->
  length b = m -> length v = m -> bisym P m ->
  List.Forall (fun t => fst (fst (snd t)) * (dd (snd (fst (snd t))) (ginv (dotR (fst t) b)) * gi (dotR (fst t) b)) = -2 * snd (snd t))
              (combine B (combine wy s)) ->
  Bt_mul Rfops m B s = matvecR P b ->                                   (* the score equation *)
  dsum ginv dd gi (mkobs B wy b v) + (dotR b (matvecR P v) + dotR v (matvecR P b)) = 0.
Proof.
  intros HB Lw Ls Lb Lv Hsym Hobs Hscore.
  rewrite (dsum_mkobs B wy s b v Lw Ls Hobs).
  rewrite (Hsym b v Lb Lv).
  rewrite <- Hscore. unfold Bt_mul. change (fr Rfops) with Rrops.
  rewrite (dot_lincomb_r m v s B HB Ls).
  replace (map (dotR v) B) with (matvecR B v) by (unfold matvec; apply map_ext; intros; apply dot_comm).
  ring.
Qed.
End Stationary2.
