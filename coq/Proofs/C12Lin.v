(* Proofs/C12Lin.v -- the penalised normal-equation operator  b |-> B'(W2 o (B b)) + Ptot b  of Model/Pirls.v is linear,
   its right-hand side is linear in the pseudo data, and when it is positive definite its solutions are unique.
   Real instance, all sizes. *)
From Coq Require Import List Reals Lra Lia Arith Bool.
From PG Require Import Base.Ops Base.Vec Model.Pirls Proofs.VecR Proofs.C01.
Import ListNotations.
Open Scope R_scope.

(* ---------- vector algebra not yet in VecR / C01 ---------- *)
Lemma vscale_vadd c u : forall v, vscaleR c (vaddR u v) = vaddR (vscaleR c u) (vscaleR c v).
Proof. induction u as [|a u IH]; intros [|b v]; try reflexivity. unfold vscale in *. cbn [vadd map]. rewrite IH. f_equal. cbn. lra. Qed.
Lemma vscale_vscale c d u : vscaleR c (vscaleR d u) = vscaleR (c * d) u.
Proof. unfold vscale. rewrite map_map. apply map_ext. intros. cbn. lra. Qed.
Lemma vscale_1 u : vscaleR 1 u = u.
Proof. unfold vscale. rewrite <- (map_id u) at 2. apply map_ext. intros. cbn. lra. Qed.
Lemma matvec_vadd A a b : length a = length b -> matvecR A (vaddR a b) = vaddR (matvecR A a) (matvecR A b).
Proof. intros H. induction A as [|r A IH]; [reflexivity|]. cbn [matvec map vadd]. fold (matvecR A (vaddR a b)) (matvecR A a) (matvecR A b).
  rewrite IH, dot_vadd_r by assumption. reflexivity. Qed.
Lemma matvec_vscale A c a : matvecR A (vscaleR c a) = vscaleR c (matvecR A a).
Proof. unfold matvec, vscale at 2. rewrite map_map. apply map_ext. intros r. rewrite dot_vscale_r. reflexivity. Qed.
Lemma vmul_vscale_r w : forall c a, vmulR w (vscaleR c a) = vscaleR c (vmulR w a).
Proof. induction w as [|x w IH]; intros c [|a1 a]; try reflexivity. unfold vscale in *. cbn [map vmul]. rewrite IH. f_equal. cbn. lra. Qed.
Lemma lincomb_vscale p c : forall a rows, lincombR p (vscaleR c a) rows = vscaleR c (lincombR p a rows).
Proof. induction a as [|x a IH]; intros rows.
  - cbn. symmetry. apply vscale_zeros.
  - destruct rows as [|r rows]; [cbn; symmetry; apply vscale_zeros|].
    unfold vscale at 1. cbn [map lincomb]. fold (vscaleR c a). rewrite IH.
    change (rmul Rrops c x) with (c * x). fold (vscaleR (c * x) r) (vscaleR x r).
    rewrite vscale_vadd, vscale_vscale. reflexivity. Qed.

(* ---------- linearity of both sides of the normal equations ---------- *)
Lemma Bt_mul_vadd m B u v : Forall (fun r => length r = m) B -> length u = length v ->
  Bt_mulR m B (vaddR u v) = vaddR (Bt_mulR m B u) (Bt_mulR m B v).
Proof. intros HB HL. unfold Bt_mul. change (fr Rfops) with Rrops. apply lincomb_vadd; assumption. Qed.
Lemma Bt_mul_vscale m B c u : Bt_mulR m B (vscaleR c u) = vscaleR c (Bt_mulR m B u).
Proof. unfold Bt_mul. change (fr Rfops) with Rrops. apply lincomb_vscale. Qed.

Theorem neq_lhs_vadd m B W2 Ptot b1 b2 : Forall (fun r => length r = m) B -> length b1 = length b2 ->
  neq_lhsR m B W2 Ptot (vaddR b1 b2) = vaddR (neq_lhsR m B W2 Ptot b1) (neq_lhsR m B W2 Ptot b2).
Proof. intros HB HL. unfold neq_lhs. change (fr Rfops) with Rrops.
  rewrite !matvec_vadd by assumption. rewrite vmul_vadd_r, Bt_mul_vadd.
  - apply vadd_swap4.
  - assumption.
  - rewrite !vmul_length, !matvec_lengthR. reflexivity. Qed.
Theorem neq_lhs_vscale m B W2 Ptot c b :
  neq_lhsR m B W2 Ptot (vscaleR c b) = vscaleR c (neq_lhsR m B W2 Ptot b).
Proof. unfold neq_lhs. change (fr Rfops) with Rrops.
  rewrite !matvec_vscale, vmul_vscale_r, Bt_mul_vscale, vscale_vadd. reflexivity. Qed.
Theorem neq_rhs_vadd m B W2 z1 z2 : Forall (fun r => length r = m) B -> length z1 = length z2 ->
  neq_rhsR m B W2 (vaddR z1 z2) = vaddR (neq_rhsR m B W2 z1) (neq_rhsR m B W2 z2).
Proof. intros HB HL. unfold neq_rhs. rewrite vmul_vadd_r. apply Bt_mul_vadd; [assumption|].
  rewrite !vmul_length. lia. Qed.
Theorem neq_rhs_vscale m B W2 c z : neq_rhsR m B W2 (vscaleR c z) = vscaleR c (neq_rhsR m B W2 z).
Proof. unfold neq_rhs. rewrite vmul_vscale_r. apply Bt_mul_vscale. Qed.

(* ---------- the quadratic form of the operator:  v . (M v) = sum_i W2_i (B_i . v)^2 + v' Ptot v ---------- *)
Fixpoint wsq (W2 u : list R) : R :=
  match W2, u with w :: W2', x :: u' => w * (x * x) + wsq W2' u' | _, _ => 0 end.
Lemma wsq_nonneg W2 : forall u, Forall (fun w => 0 <= w) W2 -> 0 <= wsq W2 u.
Proof. induction W2 as [|w W2 IH]; intros [|x u] H; cbn; try lra. inversion H; subst. specialize (IH u H3). nra. Qed.
Lemma dot_vmul_self W2 : forall u, dotR (vmulR W2 u) u = wsq W2 u.
Proof. induction W2 as [|w W2 IH]; intros [|x u]; cbn; try reflexivity. cbn in IH. rewrite IH. lra. Qed.
Lemma neq_lhs_length m B W2 Ptot b : Forall (fun r => length r = m) B -> length Ptot = m ->
  length (neq_lhsR m B W2 Ptot b) = m.
Proof. intros HB HP. unfold neq_lhs, Bt_mul. change (fr Rfops) with Rrops.
  rewrite vadd_length, lincomb_length, matvec_lengthR by assumption. lia. Qed.
Theorem quad_neq_lhs m B W2 Ptot v : Forall (fun r => length r = m) B -> length W2 = length B -> length Ptot = m ->
  dotR v (neq_lhsR m B W2 Ptot v) = wsq W2 (matvecR B v) + quadR Ptot v.
Proof. intros HB HW HP. unfold neq_lhs, Bt_mul, quad. change (fr Rfops) with Rrops.
  rewrite dot_vadd_r by (rewrite lincomb_length, matvec_lengthR by assumption; lia).
  f_equal. rewrite (dot_lincomb_r m) by (try assumption; rewrite vmul_length, matvec_lengthR; lia).
  replace (map (dotR v) B) with (matvecR B v) by (unfold matvec; apply map_ext; intros; apply dot_comm).
  apply dot_vmul_self. Qed.

(* positive definiteness of the total penalty (pyGAM always adds the ridge S = sqrt(eps) I to it) *)
Definition pdef (P : list (list R)) (m : nat) : Prop :=
  forall v, length v = m -> ~ Forall (fun x => x = 0) v -> 0 < quadR P v.
Theorem neq_lhs_pdef m B W2 Ptot v : Forall (fun r => length r = m) B -> length W2 = length B -> length Ptot = m ->
  Forall (fun w => 0 <= w) W2 -> pdef Ptot m -> length v = m -> ~ Forall (fun x => x = 0) v ->
  0 < dotR v (neq_lhsR m B W2 Ptot v).
Proof. intros HB HW HP Hw Hpd Lv Hv. rewrite quad_neq_lhs by assumption.
  pose proof (wsq_nonneg W2 (matvecR B v) Hw). specialize (Hpd v Lv Hv). lra. Qed.

(* ---------- uniqueness ---------- *)
Lemma vadd_neg_zero b1 : forall b2, length b1 = length b2 ->
  Forall (fun x => x = 0) (vaddR b1 (vscaleR (-1) b2)) -> b1 = b2.
Proof. induction b1 as [|x b1 IH]; intros [|y b2] HL H; cbn in HL; try discriminate; [reflexivity|].
  unfold vscale in H. cbn [map vadd] in H. inversion H as [|? ? H1 H2]; subst. cbn in H1.
  f_equal; [lra|]. apply IH; [lia|exact H2]. Qed.
Lemma vadd_neg_self a : vaddR a (vscaleR (-1) a) = zerosR (length a).
Proof. induction a as [|x a IH]; [reflexivity|]. unfold vscale in *. cbn [map vadd length]. rewrite IH, zeros_S. f_equal. cbn. lra. Qed.

Theorem neq_lhs_injective m B W2 Ptot b1 b2 : Forall (fun r => length r = m) B -> length W2 = length B -> length Ptot = m ->
  Forall (fun w => 0 <= w) W2 -> pdef Ptot m -> length b1 = m -> length b2 = m ->
  neq_lhsR m B W2 Ptot b1 = neq_lhsR m B W2 Ptot b2 -> b1 = b2.
Proof. intros HB HW HP Hw Hpd L1 L2 E.
  set (d := vaddR b1 (vscaleR (-1) b2)).
  assert (Ld : length d = m) by (unfold d; rewrite vadd_length, vscale_length; lia).
  assert (Ed : neq_lhsR m B W2 Ptot d = zerosR m).
  { unfold d. rewrite neq_lhs_vadd, neq_lhs_vscale, E by (try assumption; rewrite vscale_length; lia).
    rewrite vadd_neg_self, neq_lhs_length by assumption. reflexivity. }
  apply vadd_neg_zero; [lia|]. fold d.
  destruct (Forall_dec (fun x => x = 0) (fun x => Req_EM_T x 0) d) as [Hz|Hnz]; [exact Hz|].
  exfalso. pose proof (neq_lhs_pdef m B W2 Ptot d HB HW HP Hw Hpd Ld Hnz) as Hpos.
  rewrite Ed, dot_zeros_r in Hpos. lra. Qed.

Theorem step_unique m B W2 Ptot z b1 b2 : Forall (fun r => length r = m) B -> length W2 = length B -> length Ptot = m ->
  Forall (fun w => 0 <= w) W2 -> pdef Ptot m -> length b1 = m -> length b2 = m ->
  is_step Rfops m B W2 Ptot z b1 -> is_step Rfops m B W2 Ptot z b2 -> b1 = b2.
Proof. intros HB HW HP Hw Hpd L1 L2 S1 S2. apply (neq_lhs_injective m B W2 Ptot); try assumption.
  unfold is_step in *. congruence. Qed.

(* ---------- linearity of the solution in the pseudo data (for LinearGAM: in the response) ---------- *)
Theorem step_vadd m B W2 Ptot z1 z2 b1 b2 : Forall (fun r => length r = m) B -> length b1 = length b2 -> length z1 = length z2 ->
  is_step Rfops m B W2 Ptot z1 b1 -> is_step Rfops m B W2 Ptot z2 b2 ->
  is_step Rfops m B W2 Ptot (vaddR z1 z2) (vaddR b1 b2).
Proof. unfold is_step. intros HB Lb Lz S1 S2. rewrite neq_lhs_vadd, neq_rhs_vadd by assumption. congruence. Qed.
Theorem step_vscale m B W2 Ptot z b c : is_step Rfops m B W2 Ptot z b ->
  is_step Rfops m B W2 Ptot (vscaleR c z) (vscaleR c b).
Proof. unfold is_step. intros S1. rewrite neq_lhs_vscale, neq_rhs_vscale. congruence. Qed.

(* a positive definite penalty exists for every size: the ridge c I, c > 0 (satisfiability of `pdef`) *)
Lemma matvec_cons0 A x v : matvecR (map (cons 0) A) (x :: v) = matvecR A v.
Proof. unfold matvec. rewrite map_map. apply map_ext. intros r. cbn. lra. Qed.
Lemma matvec_ident : forall n v, length v = n -> matvecR (identR n) v = v.
Proof. induction n as [|n IH]; intros [|x v] H; cbn in H; try discriminate; [reflexivity|].
  cbn [ident]. fold (zerosR n). cbn [matvec map]. fold (matvecR (map (cons (r0 Rrops)) (identR n)) (x :: v)).
  change (r0 Rrops) with 0. rewrite matvec_cons0, IH by lia. f_equal. cbn [dot]. rewrite dot_zeros_l. cbn. lra. Qed.
Lemma matvec_mscale c A v : matvecR (mscaleR c A) v = vscaleR c (matvecR A v).
Proof. unfold matvec, mscale, vscale at 2. rewrite !map_map. apply map_ext. intros r. apply dot_vscale_l. Qed.
Lemma ridge_pdef c n : 0 < c -> pdef (mscaleR c (identR n)) n.
Proof. intros Hc v Lv Hv. unfold quad. rewrite matvec_mscale, matvec_ident, dot_vscale_r by assumption.
  fold (sumsqR v). pose proof (sumsq_nonneg v) as P. destruct (Req_dec (sumsqR v) 0) as [E|E].
  - exfalso. apply Hv. apply sumsq_zero_iff. exact E.
  - nra. Qed.
