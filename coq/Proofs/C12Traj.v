(* Proofs/C12Traj.v -- from one step to whole PIRLS runs.  A run is a list of iterates, each solving the step whose rows
   (B_i, W2_i, z_i) are built from the previous iterate.  Two problems whose steps have the same solutions for every entering
   coefficient vector have the same runs from the same start (the positive definite operator makes each iterate unique).
   Instances: permuted data (rows built row by row), and integer weights versus replicated rows with pyGAM's working
   weights W2 = asym * w / (g'^2 V) (linear in the sample weight w) and pseudo data (independent of w).  Real instance. *)
From Coq Require Import List Reals Lra Lia Arith Bool Permutation.
From PG Require Import Base.Ops Base.Vec Model.Pirls Model.Invariance Proofs.VecR Proofs.C01 Proofs.C12Lin Proofs.C12Perm.
Import ListNotations.
Open Scope R_scope.

Section Traj.
Variables (m : nat) (Ptot : list (list R)).
Inductive traj (rowsof : list R -> list trowR) : list (list R) -> Prop :=
| traj_one b : length b = m -> traj rowsof [b]
| traj_cons b b' rest : length b = m -> traj rowsof (b' :: rest) -> rows_stepR m (rowsof b) Ptot b' -> traj rowsof (b :: b' :: rest).
Lemma traj_hd_length rowsof b rest : traj rowsof (b :: rest) -> length b = m.
Proof. inversion 1; assumption. Qed.

Theorem traj_eq rowsof rowsof' : (forall b, length b = m -> wellformed m (rowsof b) Ptot) ->
  (forall b b1, length b = m -> (rows_stepR m (rowsof b) Ptot b1 <-> rows_stepR m (rowsof' b) Ptot b1)) ->
  forall bs bs', traj rowsof bs -> traj rowsof' bs' -> length bs = length bs' -> hd [] bs = hd [] bs' -> bs = bs'.
Proof. intros WF EQ bs bs' T. revert bs'. induction T as [b Lb | b b' rest Lb T IH S]; intros bs' T' HL Hh.
  - destruct bs' as [|c [|c' r]]; cbn in HL; try discriminate. cbn in Hh. subst. reflexivity.
  - destruct bs' as [|c [|c' r]]; cbn in HL; try discriminate. cbn in Hh. subst c.
    inversion T' as [|? ? ? Lc T'' S']; subst.
    assert (E : b' = c').
    { apply (EQ b c' Lb) in S'. destruct (wf_parts m (rowsof b) Ptot (WF b Lb)) as [HB [HW Hw]]. destruct (WF b Lb) as [_ [HP Hpd]].
      apply (step_unique m (rB (rowsof b)) (rW (rowsof b)) Ptot (rZ (rowsof b))); try assumption.
      - apply (traj_hd_length _ _ _ T). - apply (traj_hd_length _ _ _ T''). }
    subst c'. f_equal. apply IH; [exact T'' | cbn in *; lia | reflexivity]. Qed.
End Traj.

(* ---------- permuted data: every PIRLS iterate is the same ---------- *)
Theorem perm_trajectory {D} (mk : list R -> D -> trowR) m Ptot data data' bs bs' : Permutation data data' ->
  (forall b, length b = m -> wellformed m (map (mk b) data) Ptot) ->
  traj m Ptot (fun b => map (mk b) data) bs -> traj m Ptot (fun b => map (mk b) data') bs' ->
  length bs = length bs' -> hd [] bs = hd [] bs' -> bs = bs'.
Proof. intros H WF. apply traj_eq; [exact WF|]. intros b b1 _. apply perm_step, Permutation_map, H. Qed.

(* ---------- pyGAM's working rows ---------- *)
Lemma w2_weight_linear l d tau L k w y mu : w2 Rfops l d tau L (k * w) y mu = k * w2 Rfops l d tau L w y mu.
Proof. unfold w2. cbn [fr Rfops rmul Rrops fdiv]. unfold Rdivt.
  set (den := gprime Rfops l L mu * gprime Rfops l L mu * V0 Rfops d L mu). set (a := asym Rfops tau y mu).
  destruct (Req_EM_T den 0) as [E|NE]; [ring|]. field. exact NE. Qed.
(* data row (B_i, w_i, y_i); ginv = inverse link (any function) *)
Definition mkrow (ginv : R -> R) l d tau L (b : list R) (t : list R * R * R) : trowR :=
  let lp := dotR (fst (fst t)) b in let mu := ginv lp in
  (fst (fst t), w2 Rfops l d tau L (snd (fst t)) (snd t) mu, zpd Rfops l L lp (snd t) mu).
Definition wdata (dk : list ((list R * R * R) * nat)) : list (list R * R * R) :=
  map (fun p => (fst (fst (fst p)), INR (snd p) * snd (fst (fst p)), snd (fst p))) dk.
Definition rdata (dk : list ((list R * R * R) * nat)) : list (list R * R * R) := flat_map (fun p => repeat (fst p) (snd p)) dk.
Lemma mkrow_wdata ginv l d tau L b dk :
  map (mkrow ginv l d tau L b) (wdata dk) = weighted Rfops (map (fun p => (mkrow ginv l d tau L b (fst p), snd p)) dk).
Proof. unfold wdata, weighted. rewrite !map_map. apply map_ext. intros [[[Bi w] y] k]. unfold mkrow. cbn [fst snd].
  rewrite w2_weight_linear, ofnat_R. reflexivity. Qed.
Lemma mkrow_rdata ginv l d tau L b dk :
  map (mkrow ginv l d tau L b) (rdata dk) = replicated (map (fun p => (mkrow ginv l d tau L b (fst p), snd p)) dk).
Proof. unfold rdata, replicated. induction dk as [|p dk IH]; [reflexivity|]. cbn [flat_map map]. rewrite map_app, IH. f_equal.
  cbn [fst snd]. apply map_repeat'. Qed.
(* one PIRLS step on (B, k w, y) rows has the same solutions as on the replicated rows, for every family, link, expectile ... *)
Theorem repl_pirls_step ginv l d tau L m Ptot dk b b1 : Forall (fun p : (list R * R * R) * nat => length (fst (fst (fst p))) = m) dk ->
  (rows_stepR m (map (mkrow ginv l d tau L b) (wdata dk)) Ptot b1 <-> rows_stepR m (map (mkrow ginv l d tau L b) (rdata dk)) Ptot b1).
Proof. intros HF. rewrite mkrow_wdata, mkrow_rdata. apply repl_step. apply Forall_map. exact HF. Qed.
(* ... hence the same fixed points, and the same run from the same start *)
Theorem repl_trajectory ginv l d tau L m Ptot dk bs bs' : Forall (fun p : (list R * R * R) * nat => length (fst (fst (fst p))) = m) dk ->
  (forall b, length b = m -> wellformed m (map (mkrow ginv l d tau L b) (wdata dk)) Ptot) ->
  traj m Ptot (fun b => map (mkrow ginv l d tau L b) (wdata dk)) bs -> traj m Ptot (fun b => map (mkrow ginv l d tau L b) (rdata dk)) bs' ->
  length bs = length bs' -> hd [] bs = hd [] bs' -> bs = bs'.
Proof. intros HF WF. apply traj_eq; [exact WF|]. intros b b1 _. apply repl_pirls_step, HF. Qed.

(* the hypotheses are satisfiable: a two-iterate run of the example problem of C12Perm.v *)
Example ex_traj : traj 2 ex_P (fun _ => ex_rows) [[0; 0]; [3 / 2; 10 / 3]].
Proof. apply traj_cons; [reflexivity | apply traj_one; reflexivity | exact ex_step]. Qed.
