(* Proofs/C16Transfer.v -- Paramcoq free theorem for the column model, and Examples (hypotheses satisfiable) *)
From Coq Require Import List ZArith QArith Qreals Reals Lra Lia Bool.
From Param Require Import Param.
From PG Require Import Base.Ops Base.Transfer Base.ParamNat Base.Vec Model.BSpline Model.Columns Proofs.C03Transfer Proofs.C16.
Import ListNotations.

Parametricity simple. Parametricity cterm.
Parametricity Recursive row_blocks.

Definition simple_Q2R (s : simple Q) : simple R :=
  match s with
  | SLinear f => SLinear f
  | SSpline f a b n k p by_ => SSpline f (Q2R a) (Q2R b) n k p by_
  | SFactor f a b n d => SFactor f (Q2R a) (Q2R b) n d
  end.
Definition cterm_Q2R (t : cterm Q) : cterm R :=
  match t with
  | CIntercept => CIntercept
  | CSimple s => CSimple (simple_Q2R s)
  | CTensor ms by_ => CTensor (map simple_Q2R ms) by_
  end.
Lemma option_nat_refl (o : option nat) : option_R nat nat nat_R o o.
Proof. destruct o; constructor. apply nat_R_refl. Qed.
Lemma simple_QR (s : simple Q) : simple_R Q R QR s (simple_Q2R s).
Proof. destruct s; constructor; try apply nat_R_refl; try apply bool_R_refl; try apply option_nat_refl; reflexivity. Qed.
Fixpoint simples_QR (l : list (simple Q)) : list_R _ _ (simple_R Q R QR) l (map simple_Q2R l) :=
  match l with [] => list_R_nil_R _ _ _
  | a :: tl => list_R_cons_R _ _ _ a _ (simple_QR a) tl _ (simples_QR tl) end.
Lemma cterm_QR (t : cterm Q) : cterm_R Q R QR t (cterm_Q2R t).
Proof. destruct t; constructor; try apply simple_QR; try apply simples_QR; apply option_nat_refl. Qed.
Fixpoint cterms_QR (l : list (cterm Q)) : list_R _ _ (cterm_R Q R QR) l (map cterm_Q2R l) :=
  match l with [] => list_R_nil_R _ _ _
  | a :: tl => list_R_cons_R _ _ _ a _ (cterm_QR a) tl _ (cterms_QR tl) end.

Theorem row_blocks_Q2R (ts : list (cterm Q)) (row : list Q) :
  row_blocks Rfops (map cterm_Q2R ts) (map Q2R row) = option_map (map Q2R) (row_blocks Qfops ts row).
Proof.
  pose proof (row_blocks_R Q R QR Qfops Rfops Qfops_R ts _ (cterms_QR ts) row _ (list_QR row)) as H.
  destruct H as [lq lr Hl|]; cbn; [|reflexivity]. f_equal. symmetry. apply list_QR_inv. exact Hl.
Qed.

Open Scope R_scope.
(* a term list with a dummy-coded factor, a tensor of a spline and a linear marginal with a by-variable, and an intercept *)
Definition ex_terms : list (cterm Q) :=
  [CSimple (SFactor 0%nat (-1 # 2)%Q (5 # 2)%Q 3%nat true);
   CTensor [SSpline 1%nat 0%Q 1%Q 4%nat 1%nat false None; SLinear 2%nat] (Some 2%nat);
   CIntercept].
Example ex_row_blocks :
  row_blocks Rfops (map cterm_Q2R ex_terms) (map Q2R [2; 1 # 2; -3]%Q) = Some (map Q2R [0; 1; 0; 9 # 2; 9 # 2; 0; 1]%Q).
Proof. rewrite row_blocks_Q2R. vm_compute (row_blocks Qfops _ _). reflexivity. Qed.
Example ex_factor_hyp : exists row : list R, nth 0 row 0 = INR 2 /\ (2 < 3)%nat.
Proof. exists [INR 2]. split; [reflexivity|lia]. Qed.
