(* Proofs/C03PeriodicShift.v -- "the periodic basis repeats with period equal to the knot range", quantitatively.
   The exact period of the code is (1+1e-9) * range (Proofs/C03Periodic.v), so a shift by exactly one range is a shift by
   -1e-9 * range on the wrapped axis.  Order k >= 1: every column is Lipschitz with constant n = 1/h on the wrapped axis
   (C03PeriodicLip) and continuous across the wrap (C03PeriodicWrap), hence
        | B_j(x + range) - B_j(x) | <= n * 1e-9        for EVERY x  (no exclusion zone).
   Order 0: the basis is piecewise constant; the rows at x and x + range coincide unless the wrapped position of x lies
   in one of the n windows [t_j, t_j + 1e-9) just above a knot (t_0 = 0 is the wrap point).  Real instance.          *)
From Coq Require Import List ZArith Reals Lra Lia Bool Arith.
From PG Require Import Base.Ops Base.Vec Model.BSpline Proofs.C03Basis Proofs.C03Row Proofs.C03Scale Proofs.C03Periodic
  Proofs.C03PeriodicSupport Proofs.C03PeriodicLip Proofs.C03PeriodicWrap.
Import ListNotations.
Open Scope R_scope.

(* ---------- x mod p under a small backward shift ---------- *)
Lemma fmod_decomp x p : p <> 0 -> x = fmod Rfops x p + IZR (Int_part (x / p)) * p.
Proof. intros Hp. rewrite fmod_R by assumption. ring. Qed.
Lemma fmod_sub x p e : 0 < p -> 0 <= e <= fmod Rfops x p -> fmod Rfops (x - e) p = fmod Rfops x p - e.
Proof.
  intros Hp He. pose proof (fmod_range x p Hp) as [M0 M1].
  rewrite (fmod_decomp x p) at 1 by lra.
  replace (fmod Rfops x p + IZR (Int_part (x / p)) * p - e) with (fmod Rfops x p - e + IZR (Int_part (x / p)) * p) by ring.
  rewrite fmod_period by assumption. apply fmod_small. lra.
Qed.
Lemma fmod_sub_wrap x p e : 0 < p -> fmod Rfops x p < e -> e <= p -> fmod Rfops (x - e) p = fmod Rfops x p - e + p.
Proof.
  intros Hp He Hep. pose proof (fmod_range x p Hp) as [M0 M1].
  rewrite (fmod_decomp x p) at 1 by lra.
  replace (fmod Rfops x p + IZR (Int_part (x / p)) * p - e)
    with (fmod Rfops x p - e + p + IZR (Int_part (x / p) - 1) * p) by (rewrite minus_IZR; ring).
  rewrite fmod_period by assumption. apply fmod_small. lra.
Qed.

(* pcol only depends on the wrapped, clipped position *)
Lemma pcol_wrap n k c xs0 : pcol n k c xs0 = pcol n k c (wrapR xs0).
Proof.
  unfold pcol. rewrite (periodic_via_wrap n k xs0 (wrapR xs0)); [reflexivity|].
  symmetry. apply wrap_in01. apply wrap_range.
Qed.
Lemma pcol_shift_one n k c xs0 : pcol n k c (xs0 + 1) = pcol n k c (xs0 - e9).
Proof.
  unfold pcol. replace (xs0 + 1) with (xs0 - e9 + IZR 1 * pR) by (unfold pR; lra).
  rewrite periodic_period. reflexivity.
Qed.

(* ---------- order >= 1 ---------- *)
Theorem pcol_shift_bound n k c xs0 : (1 <= k < n)%nat -> (c < n)%nat ->
  Rabs (pcol n k c (xs0 + 1) - pcol n k c xs0) <= INR n * e9.
Proof.
  intros Hkn Hc. assert (Hkn' : (k < n)%nat) by lia. assert (Hk : (1 <= k)%nat) by lia.
  rewrite pcol_shift_one. rewrite (pcol_wrap n k c (xs0 - e9)), (pcol_wrap n k c xs0).
  pose proof e9_pos as E9. assert (E9s : e9 < 1) by (unfold e9; lra).
  pose proof (fmod_range xs0 pR pR_pos) as [M0 M1]. unfold wrapR.
  assert (Nn : 0 <= INR n) by apply pos_INR.
  destruct (Rle_dec e9 (fmod Rfops xs0 pR)) as [Hm|Hm].
  - rewrite fmod_sub by (try apply pR_pos; lra).
    set (m := fmod Rfops xs0 pR) in *.
    assert (W : 0 <= Rmin (m - e9) 1 /\ Rmin (m - e9) 1 <= Rmin m 1 /\ Rmin m 1 <= 1 /\ Rmin m 1 - Rmin (m - e9) 1 <= e9).
    { unfold Rmin. destruct (Rle_dec (m - e9) 1), (Rle_dec m 1); lra. }
    destruct W as [W0 [W1 [W2 W3]]].
    pose proof (pcol_lipschitz n k Hkn' Hk c _ _ Hc W0 W1 W2) as Lp.
    rewrite Rabs_minus_sym. apply Rle_trans with (INR n * (Rmin m 1 - Rmin (m - e9) 1)); [exact Lp|].
    apply Rmult_le_compat_l; assumption.
  - assert (Hm' : fmod Rfops xs0 pR < e9) by lra.
    rewrite fmod_sub_wrap; [|apply pR_pos|exact Hm'|unfold pR; lra].
    set (m := fmod Rfops xs0 pR) in *.
    replace (Rmin (m - e9 + pR) 1) with 1 by (unfold Rmin, pR; destruct (Rle_dec (m - e9 + (1 + e9)) 1); lra).
    replace (Rmin m 1) with m by (unfold Rmin; destruct (Rle_dec m 1); lra).
    rewrite (pcol_wrap_continuous n k Hkn' Hk c Hc).
    pose proof (pcol_lipschitz n k Hkn' Hk c 0 m Hc ltac:(lra) M0 ltac:(lra)) as Lp.
    rewrite Rabs_minus_sym. apply Rle_trans with (INR n * (m - 0)); [exact Lp|].
    apply Rmult_le_compat_l; lra.
Qed.

(* in the units of x: column c of b_spline_basis(x, edge knots, periodic=True) *)
Definition bcol (ek0 ek1 : R) (n k c : nat) (x : R) : R :=
  match bspline_row Rfops ek0 ek1 n k true x with Some row => nth c row 0 | None => 0 end.
Lemma bcol_pcol ek0 ek1 n k c x : bcol ek0 ek1 n k c x = pcol n k c (scaled_x Rfops ek0 ek1 x).
Proof. reflexivity. Qed.
Theorem bspline_row_shift_bound ek0 ek1 n k c x : ek0 <> ek1 -> (1 <= k < n)%nat -> (c < n)%nat ->
  Rabs (bcol ek0 ek1 n k c (x + (Rmax ek0 ek1 - Rmin ek0 ek1)) - bcol ek0 ek1 n k c x) <= INR n * / 1000000000.
Proof.
  intros Hne Hkn Hc. rewrite !bcol_pcol.
  replace (x + (Rmax ek0 ek1 - Rmin ek0 ek1)) with (x + 1 * (Rmax ek0 ek1 - Rmin ek0 ek1)) by ring.
  rewrite scaled_x_shift by assumption. apply (pcol_shift_bound n k c _ Hkn Hc).
Qed.
(* Lipschitz continuity in the units of the wrapped axis, stated for the record *)
Theorem pcol_lipschitz_wrapped n k c w1 w2 : (1 <= k < n)%nat -> (c < n)%nat -> 0 <= w1 -> w1 <= w2 -> w2 <= 1 ->
  Rabs (pcol n k c w2 - pcol n k c w1) <= INR n * (w2 - w1).
Proof. intros Hkn Hc. apply pcol_lipschitz; lia. Qed.

(* ---------- order 0: piecewise constant, jump points shifted by 1e-9 ---------- *)
Theorem order0_shift n xs0 j0 : (j0 < n)%nat ->
  knot Rfops (n + 0) 0 j0 + e9 <= fmod Rfops xs0 pR < knot Rfops (n + 0) 0 (S j0) ->
  bspline_scaled Rfops n 0 true (xs0 + 1) = bspline_scaled Rfops n 0 true xs0.
Proof.
  intros Hj [H1 H2]. assert (Hn : (0 < n + 0)%nat) by lia.
  replace (xs0 + 1) with (xs0 - e9 + IZR 1 * pR) by (unfold pR; lra). rewrite periodic_period.
  rewrite !periodic_order0 by lia. f_equal. unfold irow. cbn [deboor].
  pose proof e9_pos as E9. pose proof (fmod_range xs0 pR pR_pos) as [M0 M1].
  pose proof (knot_inc (n + 0) 0 Hn) as tinc.
  assert (T0 : 0 <= knot Rfops (n + 0) 0 j0).
  { pose proof (tmono _ tinc 0 j0 ltac:(lia)). rewrite (knot_k (n + 0) 0 Hn) in *. lra. }
  assert (T1 : knot Rfops (n + 0) 0 j0 <= 1).
  { rewrite (knot_R (n + 0) 0 Hn). destruct (Nat.leb_spec (n + 0 + 0) j0); [lia|].
    unfold stepR, zdiff. rewrite !Z.sub_0_r, <- !INR_IZR_INZ.
    assert (INR j0 <= INR (n + 0)) by (apply le_INR; lia). assert (0 < INR (n + 0)) by (apply lt_0_INR; lia).
    assert (INR j0 * / INR (n + 0) <= 1).
    { apply Rmult_le_reg_r with (INR (n + 0)); [assumption|]. rewrite Rmult_assoc, Rinv_l by lra. lra. }
    lra. }
  unfold wrapR. rewrite fmod_sub by (try apply pR_pos; lra). set (m := fmod Rfops xs0 pR) in *.
  assert (A : knot Rfops (n + 0) 0 j0 <= Rmin (m - e9) 1 < knot Rfops (n + 0) 0 (S j0)).
  { unfold Rmin. destruct (Rle_dec (m - e9) 1); lra. }
  assert (B : knot Rfops (n + 0) 0 j0 <= Rmin m 1 < knot Rfops (n + 0) 0 (S j0)).
  { unfold Rmin. destruct (Rle_dec m 1); lra. }
  unfold haar_row. rewrite (map_ext _ _ (haar_ind (n + 0) 0 Hn _ j0 A)), (map_ext _ _ (haar_ind (n + 0) 0 Hn _ j0 B)). reflexivity.
Qed.

(* ---------- Examples: the hypotheses are satisfiable ---------- *)
Example ex_shift_bound_hyp : (1 <= 3 < 6)%nat /\ (2 < 6)%nat /\ (0 : R) <> 1. Proof. repeat split; try lia. lra. Qed.
Example ex_support_hyp : exists row, bspline_scaled Rfops 6 3 true (5 / 2) = Some row.
Proof. apply periodic_total. lia. Qed.
Example ex_order0_shift_hyp :
  knot Rfops (2 + 0) 0 0 + e9 <= fmod Rfops (/ 4) pR < knot Rfops (2 + 0) 0 1.
Proof.
  assert (Hn : (0 < 2 + 0)%nat) by lia. pose proof e9_pos. assert (e9 < / 8) by (unfold e9; lra).
  rewrite fmod_small by (unfold pR; lra). rewrite !(knot_R (2 + 0) 0 Hn). cbn [Nat.leb Nat.add].
  unfold stepR, zdiff. cbn. lra.
Qed.
