(* Proofs/C10Combine.v -- utils.combine is the lexicographic Cartesian product *)
From Coq Require Import List Arith Lia.
From PG Require Import Model.Grid.
Import ListNotations.
Open Scope list_scope.

Section Combine.
Context {A : Type}.
Implicit Types gs : list (list A).

Lemma flat_map_singleton {B C} (f : B -> C) l : flat_map (fun x => [f x]) l = map f l.
Proof. induction l as [|a l IH]; [reflexivity|]. cbn. rewrite IH. reflexivity. Qed.

Definition snoc_step (last : list A) (leaf : list A) : list (list A) := map (fun node => leaf ++ [node]) last.

Lemma map_cons_flat_map_snoc last x (P : list (list A)) :
  map (cons x) (flat_map (snoc_step last) P) = flat_map (snoc_step last) (map (cons x) P).
Proof.
  induction P as [|p P IH]; [reflexivity|]. cbn [flat_map map]. rewrite map_app, IH. f_equal.
  unfold snoc_step. rewrite map_map. reflexivity.
Qed.

Lemma product_snoc gs last : product (gs ++ [last]) = flat_map (snoc_step last) (product gs).
Proof.
  induction gs as [|g r IH].
  - cbn. rewrite app_nil_r. unfold snoc_step. cbn. apply flat_map_singleton.
  - cbn [app product]. rewrite IH. clear IH.
    induction g as [|x g IHg]; [reflexivity|].
    cbn [flat_map]. rewrite flat_map_app, IHg, map_cons_flat_map_snoc. reflexivity.
Qed.

Lemma combine_snoc gs last : gs <> [] -> combine (gs ++ [last]) = flat_map (snoc_step last) (combine gs).
Proof.
  intros Hne. unfold combine. rewrite rev_app_distr. cbn [rev app].
  destruct (rev gs) as [|r0 rr] eqn:E.
  - exfalso. apply Hne. rewrite <- (rev_involutive gs), E. reflexivity.
  - reflexivity.
Qed.

Lemma combine_is_product gs : gs <> [] -> combine gs = product gs.
Proof.
  induction gs as [|x l IH] using rev_ind; [congruence|]. intros _.
  destruct l as [|g0 l'].
  - cbn. unfold combine. cbn. rewrite <- flat_map_singleton. reflexivity.
  - rewrite combine_snoc by discriminate. rewrite IH by discriminate. rewrite product_snoc. reflexivity.
Qed.

Lemma product_length gs : length (product gs) = prod_len gs.
Proof.
  induction gs as [|g r IH]; [reflexivity|]. cbn [product prod_len fold_right]. fold (prod_len r). rewrite <- IH.
  induction g as [|x g IHg]; [reflexivity|]. cbn [flat_map length]. rewrite app_length, map_length, IHg. lia.
Qed.

Lemma product_In gs : forall c, In c (product gs) <-> Forall2 (fun x g => In x g) c gs.
Proof.
  induction gs as [|g r IH]; intros c.
  - cbn. split; [intros [<-|[]]; constructor | intros H; inversion H; left; reflexivity].
  - cbn [product]. rewrite in_flat_map. split.
    + intros (x & Hx & Hc). apply in_map_iff in Hc as (t & <- & Ht). constructor; [exact Hx|]. apply IH. exact Ht.
    + intros H. inversion H as [|x g' t r' Hx Ht]; subst. exists x. split; [exact Hx|]. apply in_map. apply IH. exact Ht.
Qed.

Lemma product_elem_length gs c : In c (product gs) -> length c = length gs.
Proof. intros H. apply product_In in H. induction H; cbn; congruence. Qed.

Lemma combine_product_spec gs : gs <> [] ->
  combine gs = product gs /\
  length (combine gs) = prod_len gs /\
  (forall c, In c (combine gs) <-> Forall2 (fun x g => In x g) c gs).
Proof.
  intros H. rewrite (combine_is_product gs H). split; [reflexivity|]. split; [apply product_length|apply product_In].
Qed.

(* lexicographic order: the candidate with digits (i, j...) sits at the mixed-radix index, last factor fastest *)
Lemma product_index (g : list A) (r : list (list A)) i j (d : A) : i < length g -> j < length (product r) ->
  nth_error (product (g :: r)) (i * length (product r) + j) = option_map (cons (nth i g d)) (nth_error (product r) j).
Proof.
  revert i. induction g as [|x g IH]; intros i Hi Hj; [cbn in Hi; lia|].
  cbn [product flat_map]. destruct i as [|i].
  - cbn [Nat.mul Nat.add nth]. rewrite nth_error_app1 by (rewrite map_length; exact Hj).
    apply nth_error_map.
  - cbn [nth]. rewrite nth_error_app2 by (rewrite map_length; lia). rewrite map_length.
    replace (S i * length (product r) + j - length (product r)) with (i * length (product r) + j) by lia.
    apply IH; [cbn in Hi; lia|exact Hj].
Qed.
End Combine.
