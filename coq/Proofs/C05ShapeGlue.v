(* Proofs/C05ShapeGlue.v -- gluing shape statements across the pieces of a piecewise function (pure real analysis).
   Pieces are indexed by naturals lo..hi; piece j lives on the convex set inp j; consecutive pieces j, j+1 share the
   breakpoint a (j+1).  (M) piecewise non-decreasing + upward jumps => non-decreasing;  (L) differentiable pieces with
   a slope that is non-decreasing along the pieces and continuity at the breakpoints => secant bounds, hence convexity. *)
From Coq Require Import Reals Lra Lia Arith.
Open Scope R_scope.

Section Glue.
Variables (inp : nat -> R -> Prop) (a : nat -> R) (lo hi : nat).
Hypothesis inp_conv : forall j x y z, inp j x -> inp j z -> x <= y <= z -> inp j y.
Hypothesis brk_l : forall j, (lo <= j < hi)%nat -> inp j (a (S j)).
Hypothesis brk_r : forall j, (lo <= j < hi)%nat -> inp (S j) (a (S j)).
Hypothesis inp_le : forall j x, (lo <= j < hi)%nat -> inp j x -> x <= a (S j).
Hypothesis inp_ge : forall j x, (lo <= j < hi)%nat -> inp (S j) x -> a (S j) <= x.

Lemma later_piece_ge : forall d j y, (lo <= j)%nat -> (j + S d <= hi)%nat -> inp (j + S d) y -> a (S j) <= y.
Proof.
  induction d as [|d IH]; intros j y Hl Hh Hy.
  - replace (j + 1)%nat with (S j) in Hy by lia. apply inp_ge; [lia|assumption].
  - assert (a (S j) <= a (S (S j))) by (apply inp_ge; [lia|apply brk_l; lia]).
    assert (a (S (S j)) <= y) by (apply (IH (S j)); [lia|lia|replace (S j + S d)%nat with (j + S (S d))%nat by lia; assumption]).
    lra.
Qed.

Section Mono.
Variable P : nat -> R -> R.
Hypothesis mono_piece : forall j x y, (lo <= j <= hi)%nat -> inp j x -> inp j y -> x <= y -> P j x <= P j y.
Hypothesis jump : forall j, (lo <= j < hi)%nat -> P j (a (S j)) <= P (S j) (a (S j)).
Theorem glue_mono : forall d j x y, (lo <= j)%nat -> (j + d <= hi)%nat -> inp j x -> inp (j + d) y -> x <= y ->
  P j x <= P (j + d) y.
Proof.
  induction d as [|d IH]; intros j x y Hl Hh Hx Hy Hxy.
  - replace (j + 0)%nat with j in * by lia. apply mono_piece; try assumption; lia.
  - assert (B1 : x <= a (S j)) by (apply (inp_le j); [lia|assumption]).
    assert (B2 : a (S j) <= y) by (apply (later_piece_ge d j); assumption).
    assert (S1 : P j x <= P j (a (S j))) by (apply mono_piece; [lia|assumption|apply brk_l; lia|assumption]).
    assert (S2 : P j (a (S j)) <= P (S j) (a (S j))) by (apply jump; lia).
    assert (S3 : P (S j) (a (S j)) <= P (S j + d) y).
    { apply IH; [lia|lia|apply brk_r; lia|replace (S j + d)%nat with (j + S d)%nat by lia; assumption|assumption]. }
    replace (S j + d)%nat with (j + S d)%nat in S3 by lia. lra.
Qed.
End Mono.

Section Secant.
Variables P D : nat -> R -> R.
Hypothesis deriv : forall j x, (lo <= j <= hi)%nat -> derivable_pt_lim (P j) x (D j x).
Hypothesis D_mono : forall j1 j2 x1 x2, (lo <= j1)%nat -> (j1 <= j2)%nat -> (j2 <= hi)%nat ->
  inp j1 x1 -> inp j2 x2 -> x1 <= x2 -> D j1 x1 <= D j2 x2.
Hypothesis cont : forall j, (lo <= j < hi)%nat -> P j (a (S j)) = P (S j) (a (S j)).

Lemma secant_piece j x y : (lo <= j <= hi)%nat -> inp j x -> inp j y -> x <= y ->
  D j x * (y - x) <= P j y - P j x <= D j y * (y - x).
Proof.
  intros Hj Hx Hy Hxy. destruct (Rle_lt_or_eq_dec x y Hxy) as [Hlt|Heq]; [|subst y; lra].
  destruct (MVT_cor2 (P j) (D j) x y Hlt) as [c [E Hc]]; [intros; apply deriv; assumption|].
  assert (Ic : inp j c) by (apply (inp_conv j x c y); try assumption; lra).
  assert (D1 : D j x <= D j c) by (apply D_mono; try assumption; try lia; lra).
  assert (D2 : D j c <= D j y) by (apply D_mono; try assumption; try lia; lra).
  rewrite E. split; apply Rmult_le_compat_r; lra.
Qed.

Theorem glue_secant : forall d j x y, (lo <= j)%nat -> (j + d <= hi)%nat -> inp j x -> inp (j + d) y -> x <= y ->
  D j x * (y - x) <= P (j + d) y - P j x <= D (j + d) y * (y - x).
Proof.
  induction d as [|d IH]; intros j x y Hl Hh Hx Hy Hxy.
  - replace (j + 0)%nat with j in * by lia. apply secant_piece; try assumption; lia.
  - set (b := a (S j)).
    assert (B1 : x <= b) by (apply (inp_le j); [lia|assumption]).
    assert (B2 : b <= y) by (apply (later_piece_ge d j); assumption).
    assert (Ib : inp j b) by (apply brk_l; lia).
    assert (Ib' : inp (S j) b) by (apply brk_r; lia).
    assert (Hy' : inp (S j + d) y) by (replace (S j + d)%nat with (j + S d)%nat by lia; assumption).
    destruct (secant_piece j x b ltac:(lia) Hx Ib B1) as [L1 U1].
    destruct (IH (S j) b y ltac:(lia) ltac:(lia) Ib' Hy' B2) as [L2 U2].
    replace (S j + d)%nat with (j + S d)%nat in * by lia.
    assert (C : P j b = P (S j) b) by (apply cont; lia).
    assert (M1 : D j x <= D (S j) b) by (apply D_mono; try assumption; lia).
    assert (M2 : D j b <= D (j + S d) y) by (apply D_mono; try assumption; lia).
    assert (E1 : D j x * (y - b) <= D (S j) b * (y - b)) by (apply Rmult_le_compat_r; lra).
    assert (E2 : D j b * (b - x) <= D (j + S d) y * (b - x)) by (apply Rmult_le_compat_r; lra).
    split; lra.
Qed.

(* three points: the secant slopes are non-decreasing (cross-multiplied form, no division) *)
Theorem glue_convex : forall jx jy jz x y z, (lo <= jx)%nat -> (jx <= jy)%nat -> (jy <= jz)%nat -> (jz <= hi)%nat ->
  inp jx x -> inp jy y -> inp jz z -> x <= y -> y <= z ->
  (P jy y - P jx x) * (z - y) <= (P jz z - P jy y) * (y - x).
Proof.
  intros jx jy jz x y z H1 H2 H3 H4 Ix Iy Iz Hxy Hyz.
  destruct (glue_secant (jy - jx) jx x y H1 ltac:(lia) Ix ltac:(replace (jx + (jy - jx))%nat with jy by lia; assumption) Hxy) as [_ U].
  destruct (glue_secant (jz - jy) jy y z ltac:(lia) ltac:(lia) Iy ltac:(replace (jy + (jz - jy))%nat with jz by lia; assumption) Hyz) as [L _].
  replace (jx + (jy - jx))%nat with jy in U by lia. replace (jy + (jz - jy))%nat with jz in L by lia.
  assert (A : (P jy y - P jx x) * (z - y) <= D jy y * (y - x) * (z - y)) by (apply Rmult_le_compat_r; lra).
  assert (B : D jy y * (z - y) * (y - x) <= (P jz z - P jy y) * (y - x)) by (apply Rmult_le_compat_r; lra).
  lra.
Qed.
End Secant.
End Glue.
