(* Proofs/C05ShapeMono.v -- function-level monotonicity of the fitted spline term: non-decreasing (non-increasing)
   coefficients => non-decreasing (non-increasing) spline function at ALL real positions: inside the knot range and on the
   code's linear continuation beyond it (order >= 1); order 0 (step functions) separately. *)
From Coq Require Import List ZArith Reals Lra Lia Bool Arith.
From PG Require Import Base.Ops Base.Vec Model.BSpline Model.Constraints Proofs.VecR Proofs.C03Basis Proofs.C03Row Proofs.C03Scale
  Proofs.C05 Proofs.C05ShapeDeriv Proofs.C05ShapeSum Proofs.C05ShapeGlue Proofs.C05ShapeModel.
Import ListNotations.
Open Scope R_scope.

Section Mono.
Variables n k : nat.
Hypothesis Hk : (1 <= k < n)%nat.
Variable c : list R.
Hypothesis Hc : length c = n.
Notation t := (knot Rfops n k).
Let Hkn : (k < n)%nat. Proof. lia. Qed.

(* two located pieces in the wrong order force the points to coincide *)
Lemma pieces_ordered jx jy x y : (k - 1 <= jx <= n)%nat -> (k - 1 <= jy <= n)%nat -> inp n k jx x -> inp n k jy y ->
  (jy < jx)%nat -> y <= x.
Proof.
  intros Hjx Hjy Ix Iy Hlt.
  assert (A : y <= t (S jy)) by (apply (inp_le n k Hk c Hc jy y); [lia|assumption]).
  assert (B : t jx <= x).
  { destruct jx as [|jx']; [lia|]. apply (inp_ge n k Hk c Hc jx' x); [lia|assumption]. }
  pose proof (tmono t (knot_inc n k Hkn) (S jy) jx ltac:(lia)). lra.
Qed.

Theorem sval_nondecreasing :
  (forall i, (0 < i <= n - 1)%nat -> nth (pred i) c 0 <= nth i c 0) ->
  forall x y, x <= y -> sval n k c x <= sval n k c y.
Proof.
  intros Hinc x y Hxy.
  destruct (sval_piece n k Hk c Hc x) as [jx [Hjx [Ix Ex]]]. destruct (sval_piece n k Hk c Hc y) as [jy [Hjy [Iy Ey]]].
  destruct (le_lt_dec jx jy) as [Hle|Hlt].
  - rewrite Ex, Ey.
    pose proof (glue_mono (inp n k) t (k - 1) n (brk_l n k Hk c Hc) (brk_r n k Hk c Hc) (inp_le n k Hk c Hc) (inp_ge n k Hk c Hc)
                  (PP n k c) (PP_mono_piece n k Hk c Hc Hinc)
                  (fun j Hj => Req_le _ _ (PP_cont n k Hk c Hc j Hj)) (jy - jx) jx x y ltac:(lia) ltac:(lia) Ix) as G.
    replace (jx + (jy - jx))%nat with jy in G by lia. apply G; assumption.
  - pose proof (pieces_ordered jx jy x y Hjx Hjy Ix Iy Hlt). replace y with x by lra. lra.
Qed.
End Mono.

(* ---------- list-level hypotheses: exactly the zero sets of the constraint matrices (Proofs/C05.v satisfies) ---------- *)
Lemma inc_index_form (c : list R) : Forall (fun d => 0 <= d) (diffR c) ->
  forall i, (0 < i <= length c - 1)%nat -> nth (pred i) c 0 <= nth i c 0.
Proof. intros F i Hi. pose proof (proj1 (Forall_diff_iff (fun d => 0 <= d) c) F (pred i) ltac:(lia)) as H.
  replace (S (pred i)) with i in H by lia. lra. Qed.

Definition vneg (c : list R) : list R := map Ropp c.
Lemma vneg_length c : length (vneg c) = length c. Proof. apply map_length. Qed.
Lemma nth_vneg c i : nth i (vneg c) 0 = - nth i c 0.
Proof. unfold vneg. rewrite <- (map_nth Ropp c 0 i). f_equal. lra. Qed.
Lemma dot_vneg c : forall row, dotR (vneg c) row = - dotR c row.
Proof. induction c as [|a c IH]; intros [|b row]; cbn; try lra. cbn in IH. unfold vneg in IH. rewrite IH. lra. Qed.
Lemma sval_vneg n k c xs : sval n k (vneg c) xs = - sval n k c xs.
Proof. unfold sval. destruct (bspline_scaled Rfops n k false xs); [apply dot_vneg|lra]. Qed.

Theorem spline_nondecreasing n k c : (1 <= k < n)%nat -> length c = n -> satisfies CMonoInc c ->
  forall x y, x <= y -> sval n k c x <= sval n k c y.
Proof. intros Hk Hc Hs. apply (sval_nondecreasing n k Hk c Hc). intros i Hi. apply inc_index_form; [exact Hs|lia]. Qed.

Theorem spline_nonincreasing n k c : (1 <= k < n)%nat -> length c = n -> satisfies CMonoDec c ->
  forall x y, x <= y -> sval n k c y <= sval n k c x.
Proof.
  intros Hk Hc Hs x y Hxy.
  assert (H : sval n k (vneg c) x <= sval n k (vneg c) y).
  { apply (sval_nondecreasing n k Hk (vneg c)); [rewrite vneg_length; exact Hc| |exact Hxy].
    intros i Hi. rewrite !nth_vneg.
    pose proof (proj1 (Forall_diff_iff (fun d => d <= 0) c) Hs (pred i) ltac:(lia)) as D.
    replace (S (pred i)) with i in D by lia. lra. }
  rewrite !sval_vneg in H. lra.
Qed.

(* ---------- order 0: the basis row is the indicator of the knot interval, the spline is a step function ---------- *)
Lemma dot_ind_row (c : list R) n j0 : length c = n -> (j0 < n)%nat -> dotR c (map (ind j0) (seq 0 n)) = nth j0 c 0.
Proof. intros Hc Hj. rewrite dot_map_seq0 by exact Hc. rewrite sumf_ind.
  destruct (Nat.leb_spec 0 j0), (Nat.ltb_spec j0 (0 + n)); cbn; try lia; reflexivity. Qed.

Theorem spline0_step n c xs : (0 < n)%nat -> length c = n -> 0 <= xs <= 1 ->
  exists j0, (j0 < n)%nat /\ knot Rfops n 0 j0 <= xs <= knot Rfops n 0 (S j0) /\ sval n 0 c xs = nth j0 c 0.
Proof.
  intros Hn Hc Hx. unfold sval. rewrite scaled_order0 by exact Hn.
  destruct (irow_spec n 0 Hn xs Hx) as [j0 [Hj [Hin E]]]. exists j0. split; [lia|]. split; [exact Hin|].
  rewrite E. unfold crow. cbn [Bix]. apply dot_ind_row; [exact Hc|lia].
Qed.

(* order 0, inside the knot range: monotone coefficients give a monotone step function *)
Theorem spline0_nondecreasing n c : (0 < n)%nat -> length c = n -> satisfies CMonoInc c ->
  forall x y, 0 <= x -> x <= y -> y <= 1 -> sval n 0 c x <= sval n 0 c y.
Proof.
  intros Hn Hc Hs x y H0 Hxy H1.
  destruct (spline0_step n c x Hn Hc ltac:(lra)) as [jx [Hjx [Ix Ex]]].
  destruct (spline0_step n c y Hn Hc ltac:(lra)) as [jy [Hjy [Iy Ey]]].
  rewrite Ex, Ey. destruct (le_lt_dec jx jy) as [Hle|Hlt].
  - clear - Hs Hle Hjy Hc. induction Hle as [|m Hle IH]; [lra|].
    pose proof (inc_index_form c Hs (S m) ltac:(lia)) as D. cbn [pred] in D. specialize (IH ltac:(lia)). lra.
  - (* jy < jx and x <= y: both points sit on the knot between, x = y; the located intervals then differ only when x is a knot,
       and irow_spec located them by the same comparisons: sval is a function, so use x = y *)
    pose proof (tmono (knot Rfops n 0) (knot_inc n 0 Hn) (S jy) jx ltac:(lia)).
    assert (x = y) by lra. subst y.
    assert (E : nth jx c 0 = nth jy c 0) by (rewrite <- Ex, <- Ey; reflexivity). lra.
Qed.
