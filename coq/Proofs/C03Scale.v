(* Proofs/C03Scale.v -- the basis depends on x only through its position relative to the edge knots;
   exact period of the wrapped axis (real instance).                                             *)
From Coq Require Import List ZArith Reals Lra Lia Bool.
From PG Require Import Base.Ops Base.Transfer Base.Vec Model.BSpline.
Import ListNotations.
Open Scope R_scope.

Lemma tmin_R a b : tmin Rfops a b = Rmin a b.
Proof. unfold tmin, Rmin; cbn. unfold Rleb. destruct (Rle_dec a b); reflexivity. Qed.
Lemma tmax_R a b : tmax Rfops a b = Rmax a b.
Proof. unfold tmax, Rmax; cbn. unfold Rleb. destruct (Rle_dec a b); reflexivity. Qed.

Lemma Rmin_affine a b u v : 0 < a -> Rmin (a * u + b) (a * v + b) = a * Rmin u v + b.
Proof. intros Ha. unfold Rmin. destruct (Rle_dec u v), (Rle_dec (a*u+b) (a*v+b)); try reflexivity; nra. Qed.
Lemma Rmax_affine a b u v : 0 < a -> Rmax (a * u + b) (a * v + b) = a * Rmax u v + b.
Proof. intros Ha. unfold Rmax. destruct (Rle_dec u v), (Rle_dec (a*u+b) (a*v+b)); try reflexivity; nra. Qed.

(* scaled_x over R, in closed form *)
Lemma scaled_x_R ek0 ek1 x :
  scaled_x Rfops ek0 ek1 x =
  if Req_EM_T (Rmax ek0 ek1 - Rmin ek0 ek1) 0 then x - Rmin ek0 ek1
  else (x - Rmin ek0 ek1) / (Rmax ek0 ek1 - Rmin ek0 ek1).
Proof.
  unfold scaled_x. rewrite tmin_R, tmax_R. cbn. set (s := Rmax ek0 ek1 - Rmin ek0 ek1).
  unfold Rleb. destruct (Req_EM_T s 0) as [e|ne].
  - rewrite e. destruct (Rle_dec 0 0); [|lra]. cbn. unfold Rdivt. destruct (Req_EM_T 1 0); [lra|]. field.
  - destruct (Rle_dec s 0), (Rle_dec 0 s); cbn; try (rewrite Rdivt_ok by assumption; reflexivity). lra.
Qed.

Lemma Rmax_min_eq u v : Rmax u v - Rmin u v = 0 -> u = v.
Proof. unfold Rmax, Rmin. destruct (Rle_dec u v); lra. Qed.

Theorem scaled_x_affine a b ek0 ek1 x : 0 < a -> ek0 <> ek1 ->
  scaled_x Rfops (a * ek0 + b) (a * ek1 + b) (a * x + b) = scaled_x Rfops ek0 ek1 x.
Proof.
  intros Ha Hne. rewrite !scaled_x_R, Rmin_affine, Rmax_affine by assumption.
  assert (Hs : Rmax ek0 ek1 - Rmin ek0 ek1 <> 0) by (intro E; apply Hne, Rmax_min_eq, E).
  destruct (Req_EM_T (Rmax ek0 ek1 - Rmin ek0 ek1) 0) as [e|_]; [contradiction|].
  destruct (Req_EM_T (a * Rmax ek0 ek1 + b - (a * Rmin ek0 ek1 + b)) 0) as [e|_].
  - exfalso. apply Hs. nra.
  - field. split; [exact Hs|]. intro E. apply Hs. nra.
Qed.

Theorem scaled_x_translate b ek0 ek1 x :
  scaled_x Rfops (ek0 + b) (ek1 + b) (x + b) = scaled_x Rfops ek0 ek1 x.
Proof.
  rewrite !scaled_x_R.
  replace (ek0 + b) with (1 * ek0 + b) by lra. replace (ek1 + b) with (1 * ek1 + b) by lra.
  rewrite Rmin_affine, Rmax_affine by lra.
  replace (1 * Rmax ek0 ek1 + b - (1 * Rmin ek0 ek1 + b)) with (Rmax ek0 ek1 - Rmin ek0 ek1) by lra.
  destruct (Req_EM_T (Rmax ek0 ek1 - Rmin ek0 ek1) 0); [lra|]. field. assumption.
Qed.

(* order of the two edge knots is irrelevant (np.sort) *)
Theorem scaled_x_sym ek0 ek1 x : scaled_x Rfops ek1 ek0 x = scaled_x Rfops ek0 ek1 x.
Proof. rewrite !scaled_x_R, (Rmin_comm ek1), (Rmax_comm ek1). reflexivity. Qed.

Theorem bspline_row_affine a b ek0 ek1 n k periodic x : 0 < a -> ek0 <> ek1 ->
  bspline_row Rfops (a * ek0 + b) (a * ek1 + b) n k periodic (a * x + b) = bspline_row Rfops ek0 ek1 n k periodic x.
Proof. intros. unfold bspline_row. rewrite scaled_x_affine by assumption. reflexivity. Qed.
Theorem bspline_row_translate b ek0 ek1 n k periodic x :
  bspline_row Rfops (ek0 + b) (ek1 + b) n k periodic (x + b) = bspline_row Rfops ek0 ek1 n k periodic x.
Proof. unfold bspline_row. rewrite scaled_x_translate. reflexivity. Qed.

(* degenerate equal knots: scale 0 is replaced by 1, so the basis is translation- but not scale-invariant *)
Theorem scaled_x_degenerate e x : scaled_x Rfops e e x = x - e.
Proof. rewrite scaled_x_R. unfold Rmax, Rmin. destruct (Rle_dec e e); [|lra].
  destruct (Req_EM_T (e - e) 0); lra. Qed.

(* ---------- the wrapped axis: x mod p ---------- *)
Lemma fmod_R x p : p <> 0 -> fmod Rfops x p = x - p * IZR (Int_part (x / p)).
Proof. intros Hp. unfold fmod; cbn. rewrite Rdivt_ok by assumption. reflexivity. Qed.
Lemma fmod_range x p : 0 < p -> 0 <= fmod Rfops x p < p.
Proof.
  intros Hp. rewrite fmod_R by lra. destruct (base_Int_part (x / p)) as [H1 H2].
  assert (E : x = p * (x / p)) by (field; lra).
  split.
  - assert (p * IZR (Int_part (x / p)) <= p * (x / p)) by (apply Rmult_le_compat_l; lra). lra.
  - assert (p * (x / p - 1) < p * IZR (Int_part (x / p))) by (apply Rmult_lt_compat_l; lra). lra.
Qed.
Lemma fmod_period x p (m : Z) : 0 < p -> fmod Rfops (x + IZR m * p) p = fmod Rfops x p.
Proof.
  intros Hp. rewrite !fmod_R by lra.
  assert (E : Int_part ((x + IZR m * p) / p) = (Int_part (x / p) + m)%Z).
  { apply Int_part_spec. destruct (base_Int_part (x / p)) as [H1 H2]. rewrite plus_IZR.
    replace ((x + IZR m * p) / p) with (x / p + IZR m) by (field; lra). lra. }
  rewrite E, plus_IZR. ring.
Qed.
Lemma fmod_small x p : 0 <= x < p -> fmod Rfops x p = x.
Proof.
  intros [H0 H1]. rewrite fmod_R by lra.
  assert (E : Int_part (x / p) = 0%Z).
  { apply Int_part_spec. cbn. split.
    - apply Rmult_le_pos; [lra|]. left. apply Rinv_0_lt_compat. lra.
    - apply Rmult_lt_reg_r with p; [lra|]. unfold Rdiv. rewrite Rmult_assoc, Rinv_l by lra. lra. }
  rewrite E. cbn. lra.
Qed.

(* position relative to the edge knots: inside the knot range <-> scaled position in [0,1] *)
Lemma scaled_x_inside ek0 ek1 x : ek0 <> ek1 -> Rmin ek0 ek1 <= x <= Rmax ek0 ek1 -> 0 <= scaled_x Rfops ek0 ek1 x <= 1.
Proof.
  intros Hne [H1 H2]. rewrite scaled_x_R.
  assert (Hs : 0 < Rmax ek0 ek1 - Rmin ek0 ek1).
  { unfold Rmax, Rmin. destruct (Rle_dec ek0 ek1); lra. }
  destruct (Req_EM_T (Rmax ek0 ek1 - Rmin ek0 ek1) 0); [lra|]. split.
  - apply Rmult_le_pos; [lra|]. left. apply Rinv_0_lt_compat. assumption.
  - apply Rmult_le_reg_r with (Rmax ek0 ek1 - Rmin ek0 ek1); [assumption|].
    unfold Rdiv. rewrite Rmult_assoc, Rinv_l by lra. lra.
Qed.
(* shifting x by c knot ranges shifts the scaled position by c *)
Lemma scaled_x_shift ek0 ek1 x c : ek0 <> ek1 ->
  scaled_x Rfops ek0 ek1 (x + c * (Rmax ek0 ek1 - Rmin ek0 ek1)) = scaled_x Rfops ek0 ek1 x + c.
Proof.
  intros Hne. rewrite !scaled_x_R.
  assert (Hs : Rmax ek0 ek1 - Rmin ek0 ek1 <> 0) by (intro E; apply Hne, Rmax_min_eq, E).
  destruct (Req_EM_T (Rmax ek0 ek1 - Rmin ek0 ek1) 0); [contradiction|]. field. assumption.
Qed.

(* ---------- gen_edge_knots = (min, max) ---------- *)
Lemma lmin_cons d a (l : list R) : lmin Rfops d (a :: l) = lmin Rfops (Rmin d a) l.
Proof. unfold lmin. cbn [fold_left]. rewrite tmin_R. reflexivity. Qed.
Lemma lmax_cons d a (l : list R) : lmax Rfops d (a :: l) = lmax Rfops (Rmax d a) l.
Proof. unfold lmax. cbn [fold_left]. rewrite tmax_R. reflexivity. Qed.
Lemma lmin_spec : forall (l : list R) d,
  lmin Rfops d l <= d /\ Forall (fun v => lmin Rfops d l <= v) l /\ (lmin Rfops d l = d \/ In (lmin Rfops d l) l).
Proof.
  induction l as [|a l IH]; intros d.
  - unfold lmin; cbn. split; [lra|]. split; [constructor|left; reflexivity].
  - rewrite lmin_cons. destruct (IH (Rmin d a)) as [H1 [H2 H3]].
    pose proof (Rmin_l d a). pose proof (Rmin_r d a).
    split; [lra|]. split; [constructor; [lra|exact H2]|].
    destruct H3 as [H3|H3]; [|right; right; exact H3].
    rewrite H3. unfold Rmin. destruct (Rle_dec d a); [left; reflexivity|right; left; reflexivity].
Qed.
Lemma lmax_spec : forall (l : list R) d,
  d <= lmax Rfops d l /\ Forall (fun v => v <= lmax Rfops d l) l /\ (lmax Rfops d l = d \/ In (lmax Rfops d l) l).
Proof.
  induction l as [|a l IH]; intros d.
  - unfold lmax; cbn. split; [lra|]. split; [constructor|left; reflexivity].
  - rewrite lmax_cons. destruct (IH (Rmax d a)) as [H1 [H2 H3]].
    pose proof (Rmax_l d a). pose proof (Rmax_r d a).
    split; [lra|]. split; [constructor; [lra|exact H2]|].
    destruct H3 as [H3|H3]; [|right; right; exact H3].
    rewrite H3. unfold Rmax. destruct (Rle_dec d a); [right; left; reflexivity|left; reflexivity].
Qed.
(* numerical data: the edge knots are the least and the greatest element of the column *)
Theorem gen_edge_knots_min_max col lo hi : gen_edge_knots Rfops false col = Some (lo, hi) ->
  In lo col /\ In hi col /\ Forall (fun v => lo <= v <= hi) col.
Proof.
  destruct col as [|a rest]; [discriminate|]. cbn. intros E. inversion E; subst; clear E.
  destruct (lmin_spec rest a) as [A1 [A2 A3]]. destruct (lmax_spec rest a) as [B1 [B2 B3]].
  split; [destruct A3 as [A3|A3]; [left; symmetry; exact A3|right; exact A3]|].
  split; [destruct B3 as [B3|B3]; [left; symmetry; exact B3|right; exact B3]|].
  constructor; [lra|]. rewrite Forall_forall in *. intros v Hv. split; [apply A2|apply B2]; assumption.
Qed.
Theorem gen_edge_knots_categorical col lo hi : gen_edge_knots Rfops true col = Some (lo, hi) ->
  In (lo + / 2) col /\ In (hi - / 2) col /\ Forall (fun v => lo + / 2 <= v <= hi - / 2) col.
Proof.
  destruct col as [|a rest]; [discriminate|]. unfold gen_edge_knots. cbn [Rfops fr Rrops radd rsub]. intros E.
  assert (Hh : half Rfops = / 2) by (unfold half; cbn; rewrite Rdivt_ok by lra; lra). rewrite Hh in E.
  inversion E; subst; clear E.
  replace (lmin Rfops a rest - / 2 + / 2) with (lmin Rfops a rest) by lra.
  replace (lmax Rfops a rest + / 2 - / 2) with (lmax Rfops a rest) by lra.
  apply (gen_edge_knots_min_max (a :: rest)). reflexivity.
Qed.

(* ---------- SplineTerm.compile (after /repo e1fa477): which knots a term has after a history of compiles ---------- *)
Lemma spline_compile_idempotent given cat st col :
  spline_compile Rfops given cat (spline_compile Rfops given cat st col) col = spline_compile Rfops given cat st col.
Proof.
  unfold spline_compile. destruct st as [e|], given; try reflexivity;
    destruct (gen_edge_knots Rfops cat col); reflexivity.
Qed.
(* knots not given by the user: after any history, the knots come from the data of the LAST compile only *)
Theorem compile_history_default cat cols col :
  spline_compile_history Rfops None cat (cols ++ [col]) = gen_edge_knots Rfops cat col.
Proof.
  unfold spline_compile_history. cbn [spline_init fst snd]. rewrite fold_left_app. cbn [fold_left].
  unfold spline_compile. destruct (fold_left _ cols None); reflexivity.
Qed.
(* knots given by the user are kept across every compile *)
Theorem compile_history_given e cat cols : spline_compile_history Rfops (Some e) cat cols = Some e.
Proof.
  unfold spline_compile_history. cbn [spline_init fst snd]. induction cols as [|c cols IH]; [reflexivity|].
  cbn [fold_left spline_compile]. exact IH.
Qed.
(* compiling again on the same data changes nothing *)
Theorem compile_history_idempotent user cat cols col :
  spline_compile_history Rfops user cat ((cols ++ [col]) ++ [col]) = spline_compile_history Rfops user cat (cols ++ [col]).
Proof.
  unfold spline_compile_history. rewrite !fold_left_app. cbn [fold_left]. apply spline_compile_idempotent.
Qed.
Theorem compile_history_default_min_max cols col lo hi :
  spline_compile_history Rfops None false (cols ++ [col]) = Some (lo, hi) ->
  In lo col /\ In hi col /\ Forall (fun v => lo <= v <= hi) col.
Proof. rewrite compile_history_default. apply gen_edge_knots_min_max. Qed.
Example ex_compile_history : exists e, spline_compile_history Rfops None false ([[5; 7]] ++ [[3; 1; 2]]) = Some e.
Proof. eexists. reflexivity. Qed.
