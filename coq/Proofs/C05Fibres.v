(* Proofs/C05Fibres.v -- the coefficient slices of TensorTerm._iterate_marginal_coef_slices (pure nat arithmetic):
   they partition 0..prod(dims)-1 and each one is an axis-i line of the C-order coefficient tensor. *)
From Coq Require Import List Arith Lia Permutation PeanoNat.
From PG Require Import Base.Ops Base.Vec Model.Constraints.
Import ListNotations.

Fixpoint unravel (dims : list nat) (x : nat) : list nat :=
  match dims with
  | [] => []
  | d :: dims' => (x / nprod dims') :: unravel dims' (x mod nprod dims')
  end.

Lemma nprod_app a b : nprod (a ++ b) = nprod a * nprod b.
Proof. induction a; simpl; [lia|]. rewrite IHa. lia. Qed.

Lemma unravel_spec dims : forall x, x < nprod dims ->
  ravel dims (unravel dims x) = x /\ Forall2 (fun j d => j < d) (unravel dims x) dims /\ length (unravel dims x) = length dims.
Proof. induction dims as [|d dims IH]; intros x Hx; simpl in *.
  - split; [lia|split; [constructor|reflexivity]].
  - assert (P : nprod dims <> 0) by (intros E; rewrite E in Hx; lia).
    destruct (IH (x mod nprod dims) (Nat.mod_upper_bound _ _ P)) as (R & F & L).
    split; [|split].
    + rewrite R. pose proof (Nat.div_mod x (nprod dims) P). lia.
    + constructor; [|exact F]. apply Nat.div_lt_upper_bound; [exact P|lia].
    + simpl. f_equal. exact L.
Qed.

Lemma ravel_app pre : forall ipre d post k ipost, length ipre = length pre ->
  ravel (pre ++ d :: post) (ipre ++ k :: ipost) = ravel pre ipre * (d * nprod post) + k * nprod post + ravel post ipost.
Proof. induction pre as [|p pre IH]; intros [|j ipre] d post k ipost H; simpl in *; try discriminate; [lia|].
  rewrite IH by lia. rewrite nprod_app. simpl. lia. Qed.
Lemma set_nth_app {A} (pre : list A) x y post : set_nth (pre ++ x :: post) (length pre) y = pre ++ y :: post.
Proof. induction pre; simpl; [reflexivity|]. rewrite IHpre. reflexivity. Qed.

Lemma concat_const_length {A} (LL : list (list A)) c : (forall l, In l LL -> length l = c) -> length (concat LL) = length LL * c.
Proof. induction LL as [|l LL IH]; intros H; simpl; [reflexivity|]. rewrite app_length.
  rewrite IH by (intros l' Hl'; apply H; right; exact Hl'). rewrite (H l) by (left; reflexivity). lia. Qed.
Lemma flat_map_const_length {A B} (f : A -> list B) l c : (forall x, length (f x) = c) -> length (flat_map f l) = length l * c.
Proof. intros H. induction l; simpl; [reflexivity|]. rewrite app_length, IHl, H. lia. Qed.

Lemma dims_split (dims : list nat) i : i < length dims -> dims = firstn i dims ++ nth i dims 0 :: skipn (S i) dims.
Proof. revert i. induction dims as [|d dims IH]; intros i H; simpl in H; [lia|]. destruct i; [reflexivity|].
  simpl. f_equal. apply IH. lia. Qed.

(* membership in the list of fibres *)
Lemma in_fibres dims i f : In f (fibres dims i) <->
  exists a b, a < nprod (firstn i dims) /\ b < nprod (skipn (S i) dims) /\
    f = map (fun k => a * (nth i dims 0 * nprod (skipn (S i) dims)) + k * nprod (skipn (S i) dims) + b) (seq 0 (nth i dims 0)).
Proof. unfold fibres. rewrite in_flat_map. split.
  - intros (a & Ha & Hf). apply in_map_iff in Hf. destruct Hf as (b & Hb & Hbin). apply in_seq in Ha, Hbin.
    exists a, b. repeat split; try lia. symmetry. exact Hb.
  - intros (a & b & Ha & Hb & ->). exists a. split; [apply in_seq; lia|]. apply in_map_iff. exists b. split; [reflexivity|apply in_seq; lia]. Qed.

Theorem fibres_partition dims i : i < length dims -> Permutation (concat (fibres dims i)) (seq 0 (nprod dims)).
Proof.
  intros Hi. symmetry.
  set (A := nprod (firstn i dims)). set (K := nth i dims 0). set (Bn := nprod (skipn (S i) dims)).
  assert (N : nprod dims = A * (K * Bn)).
  { rewrite (dims_split dims i Hi) at 1. rewrite nprod_app. simpl. reflexivity. }
  apply NoDup_Permutation_bis; [apply seq_NoDup| |].
  - rewrite seq_length, (concat_const_length _ K).
    + unfold fibres. fold A K Bn. rewrite (flat_map_const_length _ _ Bn) by (intros; rewrite map_length, seq_length; reflexivity).
      rewrite seq_length, N. lia.
    + intros l Hl. apply in_fibres in Hl. destruct Hl as (a & b & _ & _ & ->). rewrite map_length, seq_length. reflexivity.
  - intros x Hx. apply in_seq in Hx. rewrite N in Hx.
    assert (PK : K * Bn <> 0) by (intros E; rewrite E in Hx; lia).
    assert (PB : Bn <> 0) by (intros E; rewrite E in PK; lia).
    apply in_concat. set (a := x / (K * Bn)). set (r := x mod (K * Bn)). set (k := r / Bn). set (b := r mod Bn).
    exists (map (fun k => a * (K * Bn) + k * Bn + b) (seq 0 K)). split.
    + apply in_fibres. exists a, b. repeat split.
      * apply Nat.div_lt_upper_bound; [exact PK|lia].
      * apply Nat.mod_upper_bound. exact PB.
    + apply in_map_iff. exists k. split.
      * pose proof (Nat.div_mod x (K * Bn) PK). pose proof (Nat.div_mod r Bn PB). fold a r in H. fold k b in H0. lia.
      * apply in_seq. split; [lia|]. simpl. apply Nat.div_lt_upper_bound; [exact PB|].
        pose proof (Nat.mod_upper_bound x (K * Bn) PK). fold r in H. lia.
Qed.

Theorem fibres_lines dims i : i < length dims -> forall f, In f (fibres dims i) ->
  exists idx, length idx = length dims /\
    (forall k, k < nth i dims 0 -> Forall2 (fun j d => j < d) (set_nth idx i k) dims) /\
    f = map (fun k => ravel dims (set_nth idx i k)) (seq 0 (nth i dims 0)).
Proof.
  intros Hi f Hf. apply in_fibres in Hf. destruct Hf as (a & b & Ha & Hb & ->).
  set (pre := firstn i dims) in *. set (post := skipn (S i) dims) in *. set (K := nth i dims 0).
  assert (D : dims = pre ++ K :: post) by (apply dims_split; exact Hi).
  assert (Lpre : length pre = i) by (unfold pre; rewrite firstn_length; lia).
  destruct (unravel_spec pre a Ha) as (Ra & Fa & La). destruct (unravel_spec post b Hb) as (Rb & Fb & Lb).
  assert (SN : forall k, set_nth (unravel pre a ++ 0 :: unravel post b) i k = unravel pre a ++ k :: unravel post b).
  { intros k. rewrite <- Lpre, <- La. apply set_nth_app. }
  exists (unravel pre a ++ 0 :: unravel post b). split; [|split].
  - rewrite D at 1. rewrite !app_length. simpl. lia.
  - intros k Hk. rewrite SN. rewrite D at 1. apply Forall2_app; [exact Fa|]. constructor; [exact Hk|exact Fb].
  - apply map_ext. intros k. rewrite SN. rewrite D at 1. rewrite ravel_app by exact La. rewrite Ra, Rb. reflexivity.
Qed.

Theorem fibres_spec dims i : i < length dims ->
  Permutation (concat (fibres dims i)) (seq 0 (nprod dims)) /\
  (forall f, In f (fibres dims i) -> exists idx, length idx = length dims /\
       (forall k, k < nth i dims 0 -> Forall2 (fun j d => j < d) (set_nth idx i k) dims) /\
       f = map (fun k => ravel dims (set_nth idx i k)) (seq 0 (nth i dims 0))).
Proof. intros Hi. split; [apply fibres_partition; exact Hi|apply fibres_lines; exact Hi]. Qed.

(* the statement is not vacuous: marginals of sizes 2,3,2, axis 1 *)
Example fibres_example : fibres [2; 3; 2] 1 = [[0; 2; 4]; [1; 3; 5]; [6; 8; 10]; [7; 9; 11]].
Proof. reflexivity. Qed.
