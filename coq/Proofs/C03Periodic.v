(* Proofs/C03Periodic.v -- the periodic basis: where it is defined (S10 gap), non-negativity, rows sum to one
   (fold by max = fold by + because the folded supports are disjoint), exact period (real instance).     *)
From Coq Require Import List ZArith Reals Lra Lia Bool Arith.
From PG Require Import Base.Ops Base.Vec Model.BSpline Proofs.C03Basis Proofs.C03Row Proofs.C03Scale.
Import ListNotations.
Open Scope R_scope.

Definition pR : R := 1 + e9.
Lemma p_model : radd (fr Rfops) (r1 (fr Rfops)) (eps9 Rfops) = pR.
Proof. rewrite eps9_R. reflexivity. Qed.
Lemma pR_pos : 0 < pR. Proof. unfold pR. pose proof e9_pos. lra. Qed.

(* ---------- list facts about the fold ---------- *)
Lemma pfold_app (A M C : list R) : length A = length C ->
  pfold Rfops (length C) (A ++ M ++ C) = vmax Rfops A C ++ M.
Proof.
  intros HL. unfold pfold. rewrite !app_length.
  replace (length A + (length M + length C) - length C)%nat with (length A + length M)%nat by lia.
  assert (E1 : firstn (length C) (A ++ M ++ C) = A).
  { rewrite <- HL. rewrite firstn_app, Nat.sub_diag, firstn_all. cbn. apply app_nil_r. }
  assert (E2 : skipn (length A + length M) (A ++ M ++ C) = C).
  { rewrite app_assoc, <- app_length. rewrite skipn_app, Nat.sub_diag, skipn_all. reflexivity. }
  assert (E3 : skipn (length C) (A ++ M ++ C) = M ++ C).
  { rewrite <- HL. rewrite skipn_app, Nat.sub_diag, skipn_all. reflexivity. }
  rewrite E1, E2, E3.
  assert (LV : length (vmax Rfops A C) = length A).
  { clear -HL. revert C HL. induction A as [|a A IH]; intros [|c C] H; cbn in *; try lia. rewrite IH by lia. reflexivity. }
  rewrite app_assoc. rewrite firstn_app. rewrite app_length, LV, Nat.sub_diag. cbn [firstn]. rewrite app_nil_r.
  rewrite <- LV at 1. rewrite <- app_length. apply firstn_all.
Qed.

Lemma tmax_sum a b : 0 <= a -> 0 <= b -> a = 0 \/ b = 0 -> tmax Rfops a b = a + b.
Proof. intros Ha Hb H. rewrite tmax_R. unfold Rmax. destruct (Rle_dec a b); destruct H; lra. Qed.
Lemma tmax_nonneg a b : 0 <= a -> 0 <= b -> 0 <= tmax Rfops a b.
Proof. intros. rewrite tmax_R. unfold Rmax. destruct (Rle_dec a b); lra. Qed.

Lemma vmax_seq_sum (f : nat -> R) : forall len a b,
  (forall i, (i < len)%nat -> 0 <= f (a + i)%nat /\ 0 <= f (b + i)%nat /\ (f (a + i)%nat = 0 \/ f (b + i)%nat = 0)) ->
  vsumR (vmax Rfops (map f (seq a len)) (map f (seq b len))) = vsumR (map f (seq a len)) + vsumR (map f (seq b len)).
Proof.
  induction len as [|len IH]; intros a b H; [cbn; lra|].
  cbn [seq map vmax]. change (vsumR (?u :: ?l)) with (u + vsumR l).
  rewrite (IH (S a) (S b)).
  - destruct (H 0%nat ltac:(lia)) as [H1 [H2 H3]]. rewrite !Nat.add_0_r in *. rewrite tmax_sum by assumption. lra.
  - intros i Hi. specialize (H (S i) ltac:(lia)). replace (S a + i)%nat with (a + S i)%nat by lia.
    replace (S b + i)%nat with (b + S i)%nat by lia. exact H.
Qed.
Lemma vmax_nonneg : forall A C : list R, Forall (fun v => 0 <= v) A -> Forall (fun v => 0 <= v) C ->
  Forall (fun v => 0 <= v) (vmax Rfops A C).
Proof.
  induction A as [|a A IH]; intros [|c C] HA HC; cbn; try constructor.
  - inversion HA; inversion HC; subst. apply tmax_nonneg; assumption.
  - inversion HA; inversion HC; subst. apply IH; assumption.
Qed.

(* ---------- the folded row of the polynomial piece j0 ---------- *)
Section P.
Variables n k : nat.
Hypothesis Hkn : (k < n)%nat.
Hypothesis Hk : (1 <= k)%nat.
Notation t := (knot Rfops (n + k) k).
Variable j0 : nat.
Variable x : R.
Hypothesis Hj : (k <= j0 < n + k)%nat.
Hypothesis Hx : t j0 <= x <= t (S j0).
Notation f := (Bix Rfops t (ind j0) x k).

Lemma full_split : crow (n + k) k j0 x = map f (seq 0 k) ++ map f (seq k (n - k)) ++ map f (seq n k).
Proof.
  unfold crow. rewrite <- !map_app. f_equal.
  replace (n + k)%nat with (k + ((n - k) + k))%nat at 1 by lia.
  rewrite seq_app, seq_app. cbn [Nat.add]. replace (k + (n - k))%nat with n by lia. reflexivity.
Qed.
Lemma fnonneg i : 0 <= f i.
Proof. apply (inonneg t (knot_inc (n + k) k ltac:(lia)) x j0 Hx). Qed.
Lemma folded : pfold Rfops k (crow (n + k) k j0 x) = vmax Rfops (map f (seq 0 k)) (map f (seq n k)) ++ map f (seq k (n - k)).
Proof.
  rewrite full_split. replace k with (length (map f (seq n k))) at 1 by (rewrite map_length, seq_length; reflexivity).
  apply pfold_app. rewrite !map_length, !seq_length. reflexivity.
Qed.
Lemma folded_sum : vsumR (pfold Rfops k (crow (n + k) k j0 x)) = 1.
Proof.
  rewrite folded, vsum_app, vmax_seq_sum.
  - rewrite <- (crow_sum (n + k) k ltac:(lia) j0 x Hj). rewrite full_split, !vsum_app. lra.
  - intros i Hi. split; [apply fnonneg|]. split; [apply fnonneg|].
    pose proof (isupport t (knot_inc (n + k) k ltac:(lia)) x j0 k) as S.
    destruct (le_lt_dec (n + i) j0) as [L|L].
    + left. apply S. lia.
    + right. apply S. lia.
Qed.
Lemma folded_nonneg : Forall (fun v => 0 <= v) (pfold Rfops k (crow (n + k) k j0 x)).
Proof.
  rewrite folded. apply Forall_app. split.
  - apply vmax_nonneg; apply Forall_map_seq; intros; apply fnonneg.
  - apply Forall_map_seq; intros; apply fnonneg.
Qed.
Lemma folded_length : length (pfold Rfops k (crow (n + k) k j0 x)) = n.
Proof.
  rewrite folded, app_length, map_length, seq_length.
  assert (LV : forall A C : list R, length A = length C -> length (vmax Rfops A C) = length A).
  { induction A as [|a A IH]; intros [|c C] H; cbn in *; try lia. rewrite IH by lia. reflexivity. }
  rewrite LV by (rewrite !map_length, !seq_length; reflexivity). rewrite map_length, seq_length. lia.
Qed.
End P.

(* ---------- bspline_scaled, periodic ---------- *)
(* the wrapped and clipped position: min(x mod (1+1e-9), 1) *)
Definition wrapR (xs0 : R) : R := Rmin (fmod Rfops xs0 pR) 1.
Lemma wrap_range xs0 : 0 <= wrapR xs0 <= 1.
Proof. unfold wrapR. pose proof (fmod_range xs0 pR pR_pos) as [X0 X1]. unfold Rmin. destruct (Rle_dec (fmod Rfops xs0 pR) 1); lra. Qed.
Lemma wrap_model xs0 : tmin Rfops (fmod Rfops xs0 (radd (fr Rfops) (r1 (fr Rfops)) (eps9 Rfops))) (r1 (fr Rfops)) = wrapR xs0.
Proof. rewrite p_model, tmin_R. reflexivity. Qed.

Lemma periodic_order0 n xs0 : (0 < n)%nat ->
  bspline_scaled Rfops n 0 true xs0 = Some (irow (n + 0) 0 (wrapR xs0)).
Proof.
  intros Hn. unfold bspline_scaled. destruct (Nat.ltb_spec n 1); [lia|].
  cbn [Nat.eqb negb andb]. rewrite !andb_false_r. rewrite wrap_model. reflexivity.
Qed.
Lemma periodic_high n k xs0 : (1 <= k < n)%nat ->
  bspline_scaled Rfops n k true xs0 = Some (pfold Rfops k (irow (n + k) k (wrapR xs0))).
Proof.
  intros Hkn. unfold bspline_scaled. destruct (Nat.ltb_spec n (S k)); [lia|]. rewrite wrap_model.
  pose proof (wrap_range xs0) as [X0 X1]. set (xs := wrapR xs0) in *.
  cbn [Rfops fr Rrops rltb rsub r0 r1 andb orb].
  assert (E1 : Rltb xs 0 = false) by (apply Rltb_false; lra). rewrite E1.
  assert (E2 : Rltb 1 xs = false) by (apply Rltb_false; lra). rewrite E2.
  destruct (Nat.eqb_spec k 0); [lia|]. cbn [orb negb andb]. reflexivity.
Qed.

(* the periodic basis is defined for EVERY x (only n_splines < spline_order + 1 raises) *)
Theorem periodic_total n k xs0 : (k < n)%nat -> exists row, bspline_scaled Rfops n k true xs0 = Some row.
Proof.
  intros Hkn. destruct (Nat.eq_dec k 0) as [->|K0].
  - rewrite periodic_order0 by lia. eexists; reflexivity.
  - rewrite periodic_high by lia. eexists; reflexivity.
Qed.

Theorem periodic_row n k xs0 row : bspline_scaled Rfops n k true xs0 = Some row ->
  length row = n /\ Forall (fun v => 0 <= v) row /\ vsumR row = 1.
Proof.
  intros E. pose proof (scaled_Some_lt _ _ _ _ _ E) as Hkn.
  pose proof (wrap_range xs0) as [X0 X1]. set (xs := wrapR xs0) in *.
  destruct (Nat.eq_dec k 0) as [K0|K0].
  - subst k. rewrite periodic_order0 in E by lia. inversion E; subst row; clear E. fold xs.
    assert (Hn : (0 < n + 0)%nat) by lia.
    pose proof (knot_k (n + 0) 0 Hn) as Tk. pose proof (knot_n (n + 0) 0 Hn) as Tn. cbn [Nat.eqb] in Tn.
    pose proof e9_pos.
    destruct (locate (n + 0) 0 Hn xs (n + 0) 0) as [j0 [Hj Hx]]; [cbn [Nat.add]; lra|].
    unfold irow. rewrite (deboor_haar (n + 0) 0 Hn xs j0 0 (n + 0) Hx). fold (crow (n + 0) 0 j0 xs).
    split; [rewrite crow_length; lia|]. split; [apply crow_nonneg; [assumption|lra]|]. apply crow_sum; [assumption|lia].
  - rewrite periodic_high in E by lia. fold xs in E.
    inversion E; subst row; clear E.
    destruct (irow_spec (n + k) k ltac:(lia) xs ltac:(lra)) as [j0 [Hj [Hin ->]]].
    split; [apply folded_length; (lia || assumption)|]. split; [apply folded_nonneg; (lia || assumption)|].
    apply folded_sum; (lia || assumption).
Qed.
(* ... so for every order, size and x there is a row, and it is non-negative and sums to one *)
Theorem periodic_everywhere n k xs0 : (k < n)%nat ->
  exists row, bspline_scaled Rfops n k true xs0 = Some row /\
              length row = n /\ Forall (fun v => 0 <= v) row /\ vsumR row = 1.
Proof. intros Hkn. destruct (periodic_total n k xs0 Hkn) as [row E]. exists row. split; [exact E|]. apply (periodic_row n k xs0 row E). Qed.

(* the row depends on x only through the wrapped, clipped position *)
Lemma periodic_via_wrap n k xs0 xs1 : wrapR xs0 = wrapR xs1 ->
  bspline_scaled Rfops n k true xs0 = bspline_scaled Rfops n k true xs1.
Proof. intros E. unfold bspline_scaled. rewrite !wrap_model, E. reflexivity. Qed.

(* exact period of the wrapped axis *)
Theorem periodic_period n k xs0 (m : Z) :
  bspline_scaled Rfops n k true (xs0 + IZR m * pR) = bspline_scaled Rfops n k true xs0.
Proof. apply periodic_via_wrap. unfold wrapR. rewrite (fmod_period xs0 pR m pR_pos). reflexivity. Qed.
Theorem bspline_row_period ek0 ek1 n k x (m : Z) : ek0 <> ek1 ->
  bspline_row Rfops ek0 ek1 n k true (x + IZR m * pR * (Rmax ek0 ek1 - Rmin ek0 ek1)) = bspline_row Rfops ek0 ek1 n k true x.
Proof.
  intros Hne. unfold bspline_row. rewrite scaled_x_shift by assumption. apply periodic_period.
Qed.
(* on the clipped sliver [1, 1+1e-9) of the wrapped axis (the former S10 gap) the row is the row of the right edge *)
Theorem periodic_sliver n k xs0 : 1 <= fmod Rfops xs0 pR ->
  bspline_scaled Rfops n k true xs0 = bspline_scaled Rfops n k true 1.
Proof.
  intros H. apply periodic_via_wrap. unfold wrapR. pose proof e9_pos.
  rewrite (fmod_small 1 pR) by (unfold pR; lra). unfold Rmin.
  destruct (Rle_dec (fmod Rfops xs0 pR) 1), (Rle_dec 1 1); lra.
Qed.
Theorem bspline_row_sliver ek0 ek1 n k x : ek0 <> ek1 ->
  Rmax ek0 ek1 <= x < Rmin ek0 ek1 + pR * (Rmax ek0 ek1 - Rmin ek0 ek1) ->
  bspline_row Rfops ek0 ek1 n k true x = bspline_row Rfops ek0 ek1 n k true (Rmax ek0 ek1).
Proof.
  intros Hne [H1 H2]. unfold bspline_row.
  assert (Hs : 0 < Rmax ek0 ek1 - Rmin ek0 ek1).
  { unfold Rmax, Rmin. destruct (Rle_dec ek0 ek1); lra. }
  assert (E1 : scaled_x Rfops ek0 ek1 (Rmax ek0 ek1) = 1).
  { rewrite scaled_x_R. destruct (Req_EM_T (Rmax ek0 ek1 - Rmin ek0 ek1) 0); [lra|]. field. lra. }
  rewrite E1. apply periodic_sliver.
  rewrite scaled_x_R. destruct (Req_EM_T (Rmax ek0 ek1 - Rmin ek0 ek1) 0); [lra|].
  set (s := Rmax ek0 ek1 - Rmin ek0 ek1) in *. set (xs := (x - Rmin ek0 ek1) / s).
  assert (X1 : 1 <= xs).
  { unfold xs. apply Rmult_le_reg_r with s; [assumption|]. unfold Rdiv. rewrite Rmult_assoc, Rinv_l by lra. unfold s in *. lra. }
  assert (X2 : xs < pR).
  { unfold xs. apply Rmult_lt_reg_r with s; [assumption|]. unfold Rdiv. rewrite Rmult_assoc, Rinv_l by lra. unfold s in *. lra. }
  pose proof pR_pos. rewrite fmod_small by lra. exact X1.
Qed.
