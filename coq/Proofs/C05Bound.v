(* Proofs/C05Bound.v -- (1) Term.build_constraints vanishes exactly on the coefficients that satisfy every constraint;
   (2) the soft-constraint violation bound at a PIRLS step / fixed point (abstract, over list matrices). *)
From Coq Require Import List Reals Lra Lia Arith Bool.
From PG Require Import Base.Ops Base.Vec Model.Constraints Proofs.VecR Proofs.C05.
Import ListNotations.
Open Scope R_scope.

(* ---------- all-zero matrices ---------- *)
Definition allzero (M : list (list R)) : Prop := Forall (Forall (fun x => x = 0)) M.
Lemma zeros_allz p : Forall (fun x => x = 0) (zerosR p).
Proof. apply Forall_forall. intros x Hx. apply repeat_spec in Hx. exact Hx. Qed.
Lemma allzero_no_nonzero M : allzero M -> any_nonzero Rrops M = false.
Proof. unfold any_nonzero. induction 1 as [|r M Hr _ IH]; [reflexivity|]. cbn [existsb]. rewrite IH, orb_false_r.
  induction Hr as [|x r Hx _ IHr]; [reflexivity|]. cbn [existsb]. rewrite IHr, orb_false_r. subst x.
  unfold nonzero, req. cbn. unfold Rleb. destruct (Rle_dec 0 0); [reflexivity|lra]. Qed.
Lemma vadd_allz u : forall v, Forall (fun x => x = 0) u -> Forall (fun x => x = 0) v -> Forall (fun x => x = 0) (vaddR u v).
Proof. induction u as [|a u IH]; intros [|b v] Hu Hv; simpl; try constructor.
  - inversion Hu; inversion Hv; subst. cbn. lra. - inversion Hu; inversion Hv; subst. apply IH; assumption. Qed.
Lemma madd_allz A : forall B, allzero A -> allzero B -> allzero (maddR A B).
Proof. induction A as [|a A IH]; intros [|b B] HA HB; simpl; try constructor.
  - inversion HA; inversion HB; subst. apply vadd_allz; assumption.
  - inversion HA; inversion HB; subst. apply IH; assumption. Qed.
Lemma mscale_allz c A : allzero A -> allzero (mscaleR c A).
Proof. intros H. unfold mscale. apply Forall_map. eapply Forall_impl; [|exact H]. intros r Hr. simpl.
  unfold vscale. apply Forall_map. eapply Forall_impl; [|exact Hr]. intros x Hx. simpl in *. subst. cbn. lra. Qed.
Lemma mzero_allz n m : allzero (mzeroR n m).
Proof. apply Forall_forall. intros r Hr. apply repeat_spec in Hr. subst. apply zeros_allz. Qed.
Lemma gram_zero_rows rows : Forall (fun r => exists p, r = zerosR p) rows -> allzero (gramR rows).
Proof. intros H. unfold gram. apply Forall_map. eapply Forall_impl; [|exact H]. intros r [p ->]. simpl.
  apply Forall_map. apply Forall_forall. intros x _. apply dot_zeros_l. Qed.
Lemma mask01_zeros neg l : Forall (fun x => violR neg x = false) l -> mask01R neg l = zerosR (length l).
Proof. unfold mask01. induction 1 as [|x l Hx _ IH]; [reflexivity|]. cbn [map length]. rewrite Hx, IH. reflexivity. Qed.
Lemma masked_gram_allz n d neg beta : Forall (fun x => violR neg x = false) (diffnR d beta) ->
  allzero (masked_diff_gram Rrops n d (mask01R neg (diffnR d beta))).
Proof. intros H. unfold masked_diff_gram. apply gram_zero_rows. apply Forall_map. apply Forall_forall. intros r _.
  rewrite (mask01_zeros neg _ H), vmul_zeros_r. eexists; reflexivity. Qed.
Lemma one_allz : allzero [[0]]. Proof. repeat constructor. Qed.

Lemma satisfies_mask c beta : satisfies c beta ->
  con_active c = true -> Forall (fun x => violR (con_neg c) x = false) (diffnR (con_order c) beta).
Proof. destruct c; cbn [satisfies con_active con_neg con_order diffn]; intros S A; try discriminate;
  (eapply Forall_impl; [|exact S]); intros x Hx; first [apply viol_false_neg | apply viol_false_pos]; exact Hx. Qed.

(* a satisfied constraint contributes the zero matrix: ties (zero differences) are NOT penalised *)
Theorem con_satisfied_zero c n beta : satisfies c beta -> allzero (con_matrix Rrops n beta c).
Proof. intros S. pose proof (satisfies_mask c beta S) as M.
  destruct c; cbn [con_matrix]; try apply mzero_allz; unfold monotonicity, convexity;
  destruct n as [|[|n]]; try apply one_allz; apply masked_gram_allz; apply M; reflexivity. Qed.

Lemma constraint_sum_allz n beta clam : forall cons acc, Forall (fun c => satisfies c beta) cons -> allzero acc ->
  allzero (fold_left (fun acc c => maddR acc (mscaleR clam (con_matrix Rrops n beta c))) cons acc).
Proof. induction cons as [|c cons IH]; intros acc F A; cbn [fold_left]; [assumption|]. inversion F; subst.
  apply IH; [assumption|]. apply madd_allz; [assumption|]. apply mscale_allz, con_satisfied_zero. assumption. Qed.

(* Term.build_constraints returns the all-zero matrix (no ridge) when every constraint is satisfied *)
Theorem term_satisfied_zero n beta cons clam cl2 : Forall (fun c => satisfies c beta) cons ->
  allzero (term_constraints Rrops n beta cons clam cl2).
Proof. intros F. unfold term_constraints.
  assert (A : allzero (constraint_sum Rrops n beta cons clam)) by (apply constraint_sum_allz; [assumption|apply mzero_allz]).
  rewrite (allzero_no_nonzero _ A). exact A. Qed.

Theorem term_zero_iff n beta cons clam cl2 : length beta = n -> 0 < clam -> 0 <= cl2 ->
  (quadR (term_constraints Rrops n beta cons clam cl2) beta = 0 <-> Forall (fun c => satisfies c beta) cons).
Proof.
  intros H Hc Hl. rewrite (term_quadform n beta cons clam cl2 H).
  pose proof (rsum_nonneg (fun c => sumsqR (viols c beta)) cons (fun c => sumsq_nonneg _)) as P.
  pose proof (sumsq_nonneg beta) as Pb. split.
  - intros E. assert (Z : rsum (map (fun c => sumsqR (viols c beta)) cons) = 0) by (destruct (any_nonzero _ _); nra).
    apply rsum_zero_iff in Z; [|intros; apply sumsq_nonneg]. eapply Forall_impl; [|exact Z].
    intros c Hcq. simpl in Hcq. apply (con_zero_iff c n beta H). rewrite (con_quadform c n beta H). exact Hcq.
  - intros F. assert (A : allzero (constraint_sum Rrops n beta cons clam)) by (apply constraint_sum_allz; [assumption|apply mzero_allz]).
    rewrite (allzero_no_nonzero _ A).
    assert (Z : rsum (map (fun c => sumsqR (viols c beta)) cons) = 0).
    { apply rsum_zero_iff; [intros; apply sumsq_nonneg|]. eapply Forall_impl; [|exact F]. intros c Sc. simpl.
      rewrite <- (con_quadform c n beta H). apply (con_zero_iff c n beta H). exact Sc. }
    rewrite Z. lra.
Qed.

(* ====================================================================================================
   The violation bound.  One PIRLS step solves  (B^T W^2 B + SP + Cc) bn = B^T W^2 z  where the constraint matrix Cc
   was built from the coefficients entering the step.  B is given by its rows, B^T u = lincomb m u B.
   ==================================================================================================== *)
Lemma dot_vmul_vsub a : forall w z, length a = length w -> length a = length z ->
  dotR a (vmulR w (vsubR z a)) = dotR (vmulR w z) a - dotR (vmulR w a) a.
Proof. induction a as [|x a IH]; intros [|y w] [|t z] Hw Hz; simpl in *; try discriminate; [lra|].
  rewrite IH by lia. lra. Qed.

Section Step.
Variables (m : nat) (B : list (list R)) (w2 z : list R) (SP Cc : list (list R)) (bn : list R).
Hypothesis B_rows : Forall (fun r => length r = m) B.
Hypothesis w2_len : length w2 = length B.
Hypothesis z_len : length z = length B.
Hypothesis bn_len : length bn = m.
Hypothesis SP_sq : square SP m.
Hypothesis Cc_sq : square Cc m.
Definition Bt (u : list R) : list R := lincombR m u B.
(* <B bn, W^2 (z - B bn)> : the weighted inner product of the fitted linear predictor with the working residual *)
Definition fit_resid : R := dotR (matvecR B bn) (vmulR w2 (vsubR z (matvecR B bn))).
Hypothesis step_eq :
  vaddR (vaddR (Bt (vmulR w2 (matvecR B bn))) (matvecR SP bn)) (matvecR Cc bn) = Bt (vmulR w2 z).

Lemma dot_Bt u : length u = length B -> dotR bn (Bt u) = dotR u (matvecR B bn).
Proof. intros Hu. unfold Bt. rewrite (dot_lincomb_r m bn u B B_rows Hu). f_equal. unfold matvec. apply map_ext. intros; apply dot_comm. Qed.

Theorem step_identity : quadR Cc bn = fit_resid - quadR SP bn.
Proof.
  pose proof (f_equal (dotR bn) step_eq) as E.
  assert (LB : length (matvecR B bn) = length B) by apply matvec_length.
  assert (L1 : length (Bt (vmulR w2 (matvecR B bn))) = m) by (apply lincomb_length; exact B_rows).
  assert (L2 : length (matvecR SP bn) = m) by (rewrite matvec_length; apply SP_sq).
  assert (L3 : length (matvecR Cc bn) = m) by (rewrite matvec_length; apply Cc_sq).
  rewrite dot_vadd_r in E by (rewrite vadd_length; lia).
  rewrite dot_vadd_r in E by lia.
  rewrite !dot_Bt in E by (rewrite vmul_length; lia).
  unfold fit_resid. rewrite dot_vmul_vsub by lia. unfold quad. lra.
Qed.

(* the soft-constraint bound: whatever lower bound V one has for the constraint form (e.g. constraint_lam times the sum of
   squared violating differences, see term_quad_lower), it is at most <B bn, W^2 (z - B bn)> - bn'(S+P)bn <= |<...>| *)
Theorem step_bound V : 0 <= quadR SP bn -> V <= quadR Cc bn ->
  V <= fit_resid - quadR SP bn /\ fit_resid - quadR SP bn <= Rabs fit_resid.
Proof. intros HSP HV. rewrite step_identity in HV. split; [exact HV|]. pose proof (Rle_abs fit_resid). lra. Qed.
End Step.

(* instance: all m coefficients belong to one constrained term; fixed point (mask and violations both from beta) *)
Theorem violation_bound_term m B w2 z SP cons clam cl2 beta :
  Forall (fun r => length r = m) B -> length w2 = length B -> length z = length B -> length beta = m ->
  square SP m -> 0 <= quadR SP beta -> 0 <= cl2 ->
  vaddR (vaddR (Bt m B (vmulR w2 (matvecR B beta))) (matvecR SP beta))
        (matvecR (term_constraints Rrops m beta cons clam cl2) beta) = Bt m B (vmulR w2 z) ->
  clam * rsum (map (fun c => sumsqR (viols c beta)) cons) <= fit_resid B w2 z beta - quadR SP beta
  /\ fit_resid B w2 z beta - quadR SP beta <= Rabs (fit_resid B w2 z beta).
Proof.
  intros HB Hw Hz Hb HS HP Hl Heq.
  assert (Sq : square (term_constraints Rrops m beta cons clam cl2) m).
  { unfold term_constraints. destruct (constraint_sum_quad m beta cons clam beta Hb Hb) as [S _].
    destruct (any_nonzero _ _); [|exact S]. apply madd_square; [exact S|apply mscale_square, ident_square]. }
  apply (step_bound m B w2 z SP _ beta HB Hw Hz Hb HS Sq Heq); [exact HP|].
  rewrite <- (map_ext _ _ (fun c => con_form_self c beta)).
  apply term_quad_lower; assumption.
Qed.

(* the hypotheses are satisfiable by a non-trivial instance: B = I_2, unit weights, no smoothing penalty, monotonic_inc with
   constraint_lam = 1, beta = (1, 0) (one violation of size 1) is a fixed point for z = (2, -1); both sides equal 1 *)
Example violation_bound_example :
  let B := [[1; 0]; [0; 1]] in let beta := [1; 0] in
  vaddR (vaddR (Bt 2 B (vmulR [1; 1] (matvecR B beta))) (matvecR [[0; 0]; [0; 0]] beta))
        (matvecR (term_constraints Rrops 2 beta [CMonoInc] 1 0) beta) = Bt 2 B (vmulR [1; 1] [2; -1])
  /\ 1 * rsum (map (fun c => sumsqR (viols c beta)) [CMonoInc]) = 1 /\ fit_resid B [1; 1] [2; -1] beta = 1.
Proof.
  cbv zeta. unfold term_constraints, constraint_sum, Bt, fit_resid, any_nonzero, nonzero, req, viols, viol, mask01.
  cbn. unfold Rltb, Rleb.
  repeat match goal with |- context [Rlt_dec ?a ?b] => destruct (Rlt_dec a b); try lra end.
  cbn. unfold Rleb.
  repeat match goal with |- context [Rle_dec ?a ?b] => destruct (Rle_dec a b); try lra end.
  cbn. split; [f_equal; [lra|f_equal; lra]|split; lra].
Qed.
