(* Proofs/C05TensorShape.v -- function-level shape for a constrained marginal of a TENSOR term.
   If every axis-i fibre of the C-order coefficient tensor satisfies the constraint and the basis rows of the OTHER marginals
   are non-negative (true inside their knot ranges), then the function of x_i is the univariate spline with the contracted
   coefficient vector, a non-negative combination of fibres, which satisfies the constraint; hence has the shape at all real x_i.
   Beyond the other marginal's range a linearly continued basis value is negative and the statement fails (S16). *)
From Coq Require Import List ZArith QArith Qreals Reals Lra Lia Arith Bool.
From PG Require Import Base.Ops Base.Vec Model.BSpline Model.Constraints Proofs.VecR Proofs.C03Basis Proofs.C03Row Proofs.C03Scale Proofs.C03Transfer
  Proofs.C05 Proofs.C05Fibres Proofs.C05ShapeSum Proofs.C05ShapeMono Proofs.C05ShapeConvex Proofs.C05ShapeFinal Proofs.C05TensorSum.
Import ListNotations.
Open Scope R_scope.

(* ---------- satisfies, as a statement about an index function ---------- *)
Definition sat_idx (cn : con) (f : nat -> R) (K : nat) : Prop :=
  match cn with
  | CPyNone | CStrNone => True
  | CMonoInc => forall k, (S k < K)%nat -> 0 <= f (S k) - f k
  | CMonoDec => forall k, (S k < K)%nat -> f (S k) - f k <= 0
  | CConvex => forall k, (S (S k) < K)%nat -> 0 <= (f (S (S k)) - f (S k)) - (f (S k) - f k)
  | CConcave => forall k, (S (S k) < K)%nat -> (f (S (S k)) - f (S k)) - (f (S k) - f k) <= 0
  end.
Lemma Forall_diff2_iff (P : R -> Prop) (c : list R) :
  Forall P (diffnR 2 c) <-> (forall k, (S (S k) < length c)%nat -> P ((nth (S (S k)) c 0 - nth (S k) c 0) - (nth (S k) c 0 - nth k c 0))).
Proof.
  change (diffnR 2 c) with (diffR (diffR c)). rewrite Forall_diff_iff, diff_length. split; intros H k Hk.
  - specialize (H k ltac:(lia)). rewrite !nth_diff in H by lia. exact H.
  - rewrite !nth_diff by lia. apply H. lia.
Qed.
Lemma satisfies_idx cn (c : list R) : satisfies cn c <-> sat_idx cn (fun k => nth k c 0) (length c).
Proof. destruct cn; cbn [satisfies sat_idx]; try tauto; first [apply Forall_diff_iff | apply Forall_diff2_iff]. Qed.

(* ---------- non-negative double sums preserve the constraint ---------- *)
Section SS.
Variables (A B : nat) (w : nat -> nat -> R).
Definition SS (G : nat -> nat -> R) : R := sumf (fun a => sumf (fun q => w a q * G a q) 0 B) 0 A.
Lemma SS_lin3 x y z G1 G2 G3 : SS (fun a q => x * G1 a q + y * G2 a q + z * G3 a q) = x * SS G1 + y * SS G2 + z * SS G3.
Proof. unfold SS. rewrite <- !sumf_scal, <- !sumf_plus. apply sumf_ext. intros a _.
  rewrite <- !sumf_scal, <- !sumf_plus. apply sumf_ext. intros q _. ring. Qed.
Hypothesis w_nonneg : forall a q, (a < A)%nat -> (q < B)%nat -> 0 <= w a q.
Lemma SS_nonneg G : (forall a q, (a < A)%nat -> (q < B)%nat -> 0 <= G a q) -> 0 <= SS G.
Proof. intros H. unfold SS. apply sumf_nonneg. intros a Ha. apply sumf_nonneg. intros q Hq.
  apply Rmult_le_pos; [apply w_nonneg|apply H]; lia. Qed.
Theorem SS_sat cn (F : nat -> nat -> nat -> R) K :
  (forall a q, (a < A)%nat -> (q < B)%nat -> sat_idx cn (F a q) K) -> sat_idx cn (fun k => SS (fun a q => F a q k)) K.
Proof.
  intros H. destruct cn; cbn [sat_idx] in *; auto; intros k Hk.
  - replace (SS (fun a q => F a q (S k)) - SS (fun a q => F a q k))
      with (SS (fun a q => 1 * F a q (S k) + (-1) * F a q k + 0 * 0)) by (rewrite SS_lin3; ring).
    apply SS_nonneg. intros a q Ha Hq. specialize (H a q Ha Hq k Hk). lra.
  - replace (SS (fun a q => F a q (S k)) - SS (fun a q => F a q k))
      with (- SS (fun a q => (-1) * F a q (S k) + 1 * F a q k + 0 * 0)) by (rewrite SS_lin3; ring).
    assert (0 <= SS (fun a q => (-1) * F a q (S k) + 1 * F a q k + 0 * 0)); [|lra].
    apply SS_nonneg. intros a q Ha Hq. specialize (H a q Ha Hq k Hk). lra.
  - replace (SS (fun a q => F a q (S (S k))) - SS (fun a q => F a q (S k)) - (SS (fun a q => F a q (S k)) - SS (fun a q => F a q k)))
      with (SS (fun a q => 1 * F a q (S (S k)) + (-2) * F a q (S k) + 1 * F a q k)) by (rewrite SS_lin3; ring).
    apply SS_nonneg. intros a q Ha Hq. specialize (H a q Ha Hq k Hk). lra.
  - replace (SS (fun a q => F a q (S (S k))) - SS (fun a q => F a q (S k)) - (SS (fun a q => F a q (S k)) - SS (fun a q => F a q k)))
      with (- SS (fun a q => (-1) * F a q (S (S k)) + 2 * F a q (S k) + (-1) * F a q k)) by (rewrite SS_lin3; ring).
    assert (0 <= SS (fun a q => (-1) * F a q (S (S k)) + 2 * F a q (S k) + (-1) * F a q k)); [|lra].
    apply SS_nonneg. intros a q Ha Hq. specialize (H a q Ha Hq k Hk). lra.
Qed.
End SS.

Lemma nth_nonneg (l : list R) i : Forall (fun v => 0 <= v) l -> 0 <= nth i l 0.
Proof. intros H. destruct (Nat.lt_ge_cases i (length l)) as [Hi|Hi]; [|rewrite nth_overflow by assumption; lra].
  rewrite Forall_forall in H. apply H. apply nth_In. assumption. Qed.

Lemma gather_map_seq (coef : list R) (g : nat -> nat) K k : (k < K)%nat ->
  nth k (gather Rrops coef (map g (seq 0 K))) 0 = nth (g k) coef 0.
Proof. intros Hk. unfold gather. rewrite map_map. change (r0 Rrops) with 0. apply (nth_map_seq0 (fun j => nth (g j) coef 0)). exact Hk. Qed.

(* ---------- the contracted coefficient vector satisfies the constraint ---------- *)
Theorem contract_satisfies cn coef (P Q : list R) K :
  Forall (fun v => 0 <= v) P -> Forall (fun v => 0 <= v) Q ->
  (forall a q, (a < length P)%nat -> (q < length Q)%nat ->
     satisfies cn (gather Rrops coef (map (fun k => a * (K * length Q) + k * length Q + q)%nat (seq 0 K)))) ->
  satisfies cn (contract coef P Q K).
Proof.
  intros HP HQ Hf. apply satisfies_idx. rewrite contract_length.
  assert (E : forall k, (k < K)%nat -> nth k (contract coef P Q K) 0 =
            SS (length P) (length Q) (fun a q => nth a P 0 * nth q Q 0) (fun a q => nth (a * (K * length Q) + k * length Q + q) coef 0)).
  { intros k Hk. unfold contract. rewrite nth_map_seq0 by exact Hk. reflexivity. }
  assert (G : sat_idx cn (fun k => SS (length P) (length Q) (fun a q => nth a P 0 * nth q Q 0)
                                      (fun a q => nth (a * (K * length Q) + k * length Q + q) coef 0)) K).
  { apply SS_sat.
    - intros a q _ _. apply Rmult_le_pos; apply nth_nonneg; assumption.
    - intros a q Ha Hq. specialize (Hf a q Ha Hq). apply satisfies_idx in Hf.
      set (g := fun k => (a * (K * length Q) + k * length Q + q)%nat) in *.
      assert (L : length (gather Rrops coef (map g (seq 0 K))) = K) by (unfold gather; rewrite !map_length, seq_length; reflexivity).
      rewrite L in Hf.
      destruct cn; cbn [sat_idx] in *; auto; intros k Hk; specialize (Hf k Hk); rewrite !gather_map_seq in Hf by lia; exact Hf. }
  destruct cn; cbn [sat_idx] in *; auto; intros k Hk; rewrite !E by lia; apply G; exact Hk.
Qed.

(* ---------- the function of x_i ---------- *)
Lemma bspline_row_length ek0 ek1 n k x r : (1 <= k)%nat -> bspline_row Rfops ek0 ek1 n k false x = Some r -> length r = n.
Proof.
  intros Hk E. unfold bspline_row in E. set (xs := scaled_x Rfops ek0 ek1 x) in *.
  destruct (Rlt_dec xs 0) as [Hl|Hl]; [|destruct (Rlt_dec 1 xs) as [Hr|Hr]].
  - apply (extrap_rowsum n k xs r Hk (or_introl Hl) E).
  - apply (extrap_rowsum n k xs r Hk (or_intror Hr) E).
  - apply (inside_row n k xs r ltac:(lra) E).
Qed.
Lemma has_shape_ext cn (f g : R -> R) : (forall x, f x = g x) -> has_shape cn f -> has_shape cn g.
Proof. intros E. destruct cn; cbn [has_shape]; auto; intros H; intros; rewrite <- !E; apply H; assumption. Qed.

(* general number of marginals: `pre` / `post` are the basis rows of the marginals before / after marginal i at the fixed values
   of the other variables; the coefficient tensor has dims = lengths of pre ++ [n] ++ lengths of post, C order *)
Definition tensor_fun (pre post : list (list R)) (ek0 ek1 : R) (n k : nat) (coef : list R) (x : R) : R :=
  match bspline_row Rfops ek0 ek1 n k false x with Some r => dotR coef (tensor_row (pre ++ r :: post)) | None => 0 end.

Theorem tensor_marginal_shape cn pre post ek0 ek1 n k coef : (1 <= k < n)%nat ->
  Forall (Forall (fun v => 0 <= v)) pre -> Forall (Forall (fun v => 0 <= v)) post ->
  Forall (fun f => satisfies cn (gather Rrops coef f)) (fibres (map (@length R) pre ++ n :: map (@length R) post) (length pre)) ->
  has_shape cn (tensor_fun pre post ek0 ek1 n k coef).
Proof.
  intros Hk Hpre Hpost Hfib.
  set (P := prodrow pre). set (Q := prodrow post). set (c' := contract coef P Q n).
  set (dims := map (@length R) pre ++ n :: map (@length R) post) in *. set (i := length pre) in *.
  assert (Li : i = length (map (@length R) pre)) by (rewrite map_length; reflexivity).
  assert (D1 : firstn i dims = map (@length R) pre).
  { unfold dims. rewrite Li, firstn_app, Nat.sub_diag, firstn_all. cbn [firstn]. apply app_nil_r. }
  assert (D2 : nth i dims O = n).
  { unfold dims. rewrite Li, app_nth2, Nat.sub_diag by lia. reflexivity. }
  assert (D3 : skipn (S i) dims = map (@length R) post).
  { unfold dims. rewrite Li, skipn_app, skipn_all2 by lia.
    replace (S (length (map (@length R) pre)) - length (map (@length R) pre))%nat with 1%nat by lia. reflexivity. }
  assert (Sat : satisfies cn c').
  { apply contract_satisfies; [apply prodrow_nonneg; exact Hpre|apply prodrow_nonneg; exact Hpost|].
    intros a q Ha Hq. rewrite Forall_forall in Hfib. apply Hfib. apply in_fibres.
    exists a, q. rewrite D1, D2, D3. unfold P, Q in Ha, Hq. rewrite prodrow_length in Ha, Hq.
    split; [exact Ha|]. split; [exact Hq|]. unfold Q. rewrite prodrow_length. reflexivity. }
  apply (has_shape_ext cn (spline_at ek0 ek1 n k c')).
  - intros x. unfold spline_at, tensor_fun. destruct (bspline_row Rfops ek0 ek1 n k false x) as [r|] eqn:E; [|reflexivity].
    pose proof (bspline_row_length ek0 ek1 n k x r ltac:(lia) E) as Lr.
    rewrite tensor_row_prodrow by (destruct pre; discriminate). rewrite prodrow_split. fold P Q.
    rewrite dot_contract, Lr. reflexivity.
  - apply coef_to_function; [exact Hk|apply contract_length|exact Sat].
Qed.

(* ---------- two marginals, either axis; the other variable inside its knot range ---------- *)
Lemma inside_row_facts ek0 ek1 n k x r : ek0 <> ek1 -> Rmin ek0 ek1 <= x <= Rmax ek0 ek1 ->
  bspline_row Rfops ek0 ek1 n k false x = Some r -> length r = n /\ Forall (fun v => 0 <= v) r.
Proof. intros Hne Hx E. unfold bspline_row in E. pose proof (scaled_x_inside ek0 ek1 x Hne Hx) as I.
  destruct (inside_row n k _ r I E) as [L [F _]]. split; assumption. Qed.

(* f(x0, x1) = coef . (rowA(x0) (x) rowB(x1)) *)
Definition tensor2_fun (eA0 eA1 : R) (nA kA : nat) (eB0 eB1 : R) (nB kB : nat) (coef : list R) (x0 x1 : R) : R :=
  match bspline_row Rfops eA0 eA1 nA kA false x0, bspline_row Rfops eB0 eB1 nB kB false x1 with
  | Some rA, Some rB => dotR coef (tensor_row [rA; rB])
  | _, _ => 0
  end.

Theorem tensor2_axis0_shape cn eA0 eA1 nA kA eB0 eB1 nB kB coef x1 : (1 <= kA < nA)%nat -> (kB < nB)%nat -> eB0 <> eB1 ->
  Rmin eB0 eB1 <= x1 <= Rmax eB0 eB1 ->
  Forall (fun f => satisfies cn (gather Rrops coef f)) (fibres [nA; nB] 0) ->
  has_shape cn (fun x0 => tensor2_fun eA0 eA1 nA kA eB0 eB1 nB kB coef x0 x1).
Proof.
  intros HA HB Hne Hx Hfib. unfold tensor2_fun.
  destruct (bspline_row Rfops eB0 eB1 nB kB false x1) as [rB|] eqn:EB.
  - destruct (inside_row_facts eB0 eB1 nB kB x1 rB Hne Hx EB) as [LB FB].
    apply (has_shape_ext cn (tensor_fun [] [rB] eA0 eA1 nA kA coef)).
    + intros x0. unfold tensor_fun. destruct (bspline_row Rfops eA0 eA1 nA kA false x0); reflexivity.
    + apply tensor_marginal_shape; [exact HA|constructor|repeat constructor; exact FB|]. cbn [map app length]. rewrite LB. exact Hfib.
  - apply (has_shape_ext cn (fun _ => 0)).
    + intros x0. destruct (bspline_row Rfops eA0 eA1 nA kA false x0); reflexivity.
    + destruct cn; cbn [has_shape]; auto; intros; lra.
Qed.

Theorem tensor2_axis1_shape cn eA0 eA1 nA kA eB0 eB1 nB kB coef x0 : (kA < nA)%nat -> (1 <= kB < nB)%nat -> eA0 <> eA1 ->
  Rmin eA0 eA1 <= x0 <= Rmax eA0 eA1 ->
  Forall (fun f => satisfies cn (gather Rrops coef f)) (fibres [nA; nB] 1) ->
  has_shape cn (fun x1 => tensor2_fun eA0 eA1 nA kA eB0 eB1 nB kB coef x0 x1).
Proof.
  intros HA HB Hne Hx Hfib. unfold tensor2_fun.
  destruct (bspline_row Rfops eA0 eA1 nA kA false x0) as [rA|] eqn:EA.
  - destruct (inside_row_facts eA0 eA1 nA kA x0 rA Hne Hx EA) as [LA FA].
    apply (has_shape_ext cn (tensor_fun [rA] [] eB0 eB1 nB kB coef)).
    + intros x1. unfold tensor_fun. destruct (bspline_row Rfops eB0 eB1 nB kB false x1); reflexivity.
    + apply tensor_marginal_shape; [exact HB|repeat constructor; exact FA|constructor|]. cbn [map app length]. rewrite LA. exact Hfib.
  - apply (has_shape_ext cn (fun _ => 0)); [intros; reflexivity|]. destruct cn; cbn [has_shape]; auto; intros; lra.
Qed.

(* ---------- the negative side (mechanism of finding S16) ---------- *)
(* a linearly continued basis row has a negative entry *)
Theorem continuation_row_has_negative_entry :
  exists row, bspline_row Rfops 0 1 4 1 false (Q2R (-1 # 2)) = Some row /\ nth 1 row 0 < 0.
Proof. eexists. split; [apply ex_extrap_left|]. unfold Q2R; cbn. lra. Qed.

(* ... and then increasing fibres do NOT give an increasing function: te(s(0, 4 splines, order 1, monotonic_inc), s(1, 4 splines, order 1))
   on [0,1]^2 with coefficient tensor coef[a][b] = a * [b = 1] (every axis-0 fibre is non-decreasing) is strictly larger at
   (x0, x1) = (-1/2, -1/2) than at (1/2, -1/2) *)
Definition s16_coef : list R := [0; 0; 0; 0;  0; 1; 0; 0;  0; 2; 0; 0;  0; 3; 0; 0].
Theorem tensor_shape_fails_beyond_other_range :
  Forall (fun f => satisfies CMonoInc (gather Rrops s16_coef f)) (fibres [4; 4]%nat 0) /\
  ~ has_shape CMonoInc (fun x0 => tensor2_fun 0 1 4 1 0 1 4 1 s16_coef x0 (Q2R (-1 # 2))).
Proof.
  split.
  - cbn. repeat constructor; cbn; lra.
  - intros H. cbn [has_shape] in H. specialize (H (Q2R (-1 # 2)) (Q2R (1 # 2)) ltac:(unfold Q2R; cbn; lra)).
    unfold tensor2_fun in H. rewrite ex_extrap_left in H. destruct ex_inside as [EI _]. rewrite EI in H.
    unfold s16_coef, Q2R in H. cbn in H. lra.
Qed.

(* ---------- a concrete instance of the hypotheses of the positive theorems ---------- *)
Example tensor_hypotheses_example :
  let coef := [0; 0; 1; 2] in
  Forall (fun f => satisfies CMonoInc (gather Rrops coef f)) (fibres [2; 2]%nat 0) /\
  Forall (Forall (fun v => 0 <= v)) [[/ 2; / 2]] /\
  Forall (fun f => satisfies CConvex (gather Rrops [0; 1; 4; 0; 2; 8] f)) (fibres [2; 3]%nat 1).
Proof. cbn. repeat split; repeat constructor; cbn; lra. Qed.
