(* Proofs/C05ShapeSum.v -- one polynomial piece j0 of the spline  sum_{i in [a, a+len)} c_i B_{i,k}  over any strictly
   increasing knots: derivative, Abel summation (the derivative is the order k-1 spline of the scaled coefficient differences),
   sign of the derivative on the knot interval of the piece, monotonicity on that interval. *)
From Coq Require Import List ZArith Reals Lra Lia Bool Arith.
From PG Require Import Base.Ops Base.Vec Model.BSpline Proofs.C03Basis Proofs.C05ShapeDeriv.
Import ListNotations.
Open Scope R_scope.

Definition sumf (f : nat -> R) (a len : nat) : R := vsumR (map f (seq a len)).
Lemma sumf_0 f a : sumf f a 0 = 0. Proof. reflexivity. Qed.
Lemma sumf_S f a len : sumf f a (S len) = f a + sumf f (S a) len. Proof. reflexivity. Qed.
Lemma sumf_snoc f a len : sumf f a (S len) = sumf f a len + f (a + len)%nat.
Proof. unfold sumf. rewrite seq_S, map_app, vsum_app. cbn. lra. Qed.
Lemma sumf_ext f g a len : (forall i, (a <= i < a + len)%nat -> f i = g i) -> sumf f a len = sumf g a len.
Proof. revert a. induction len as [|len IH]; intros a H; [reflexivity|]. rewrite !sumf_S, (H a) by lia. f_equal. apply IH. intros; apply H; lia. Qed.
Lemma sumf_nonneg f a len : (forall i, (a <= i < a + len)%nat -> 0 <= f i) -> 0 <= sumf f a len.
Proof. revert a. induction len as [|len IH]; intros a H; [rewrite sumf_0; lra|]. rewrite sumf_S.
  pose proof (H a ltac:(lia)). pose proof (IH (S a) ltac:(intros; apply H; lia)). lra. Qed.
Lemma sumf_le f g a len : (forall i, (a <= i < a + len)%nat -> f i <= g i) -> sumf f a len <= sumf g a len.
Proof. revert a. induction len as [|len IH]; intros a H; [rewrite !sumf_0; lra|]. rewrite !sumf_S.
  pose proof (H a ltac:(lia)). pose proof (IH (S a) ltac:(intros; apply H; lia)). lra. Qed.
Lemma sumf_scal c f a len : sumf (fun i => c * f i) a len = c * sumf f a len.
Proof. revert a. induction len as [|len IH]; intros a; [rewrite !sumf_0; lra|]. rewrite !sumf_S, IH. lra. Qed.
Lemma sumf_opp f a len : sumf (fun i => - f i) a len = - sumf f a len.
Proof. revert a. induction len as [|len IH]; intros a; [rewrite !sumf_0; lra|]. rewrite !sumf_S, IH. lra. Qed.

Lemma sumf_derivable (F : nat -> R -> R) (F' : nat -> R -> R) x : forall len a,
  (forall i, derivable_pt_lim (F i) x (F' i x)) ->
  derivable_pt_lim (fun x => sumf (fun i => F i x) a len) x (sumf (fun i => F' i x) a len).
Proof.
  induction len as [|len IH]; intros a H.
  - apply (derivable_pt_lim_ext (fct_cte 0)); [intros; reflexivity|]. rewrite sumf_0. apply derivable_pt_lim_const.
  - apply (derivable_pt_lim_ext (plus_fct (F a) (fun x => sumf (fun i => F i x) (S a) len))); [intros; reflexivity|].
    rewrite sumf_S. apply derivable_pt_lim_plus; [apply H|apply IH; assumption].
Qed.

(* Abel summation *)
Lemma abel (c u : nat -> R) a : forall m,
  sumf (fun i => c i * (u i - u (S i))) a (S m) =
  c a * u a - c (a + m)%nat * u (a + S m)%nat + sumf (fun i => (c i - c (pred i)) * u i) (S a) m.
Proof.
  induction m as [|m IH].
  - rewrite sumf_S, !sumf_0. replace (a + 0)%nat with a by lia. replace (a + 1)%nat with (S a) by lia. lra.
  - rewrite sumf_snoc, IH. rewrite (sumf_snoc _ (S a) m).
    replace (S a + m)%nat with (a + S m)%nat by lia. replace (pred (a + S m)) with (a + m)%nat by lia.
    replace (S (a + S m)) with (a + S (S m))%nat by lia. lra.
Qed.

Section Piece.
Variable t : nat -> R.
Hypothesis tinc : forall i, t i < t (S i).
Variable j0 : nat.
Notation B := (fun k i x => Bix Rfops t (ind j0) x k i).

Definition spl (c : nat -> R) (k a len : nat) (x : R) : R := sumf (fun i => c i * B k i x) a len.
Definition dspl (c : nat -> R) (k a len : nat) (x : R) : R := sumf (fun i => c i * dform t (ind j0) k i x) a len.
Definition uu (k i : nat) (x : R) : R := INR k * B (pred k) i x / (t (i + k)%nat - t i).
(* coefficients of the derivative spline *)
Definition dcoef (c : nat -> R) (k i : nat) : R := (c i - c (pred i)) * INR k / (t (i + k)%nat - t i).

Lemma spl_derivable c k a len x : (1 <= k)%nat -> derivable_pt_lim (spl c k a len) x (dspl c k a len x).
Proof.
  intros Hk. unfold spl, dspl. apply (sumf_derivable (fun i x => c i * B k i x) (fun i x => c i * dform t (ind j0) k i x)).
  intros i. apply (derivable_pt_lim_ext (mult_real_fct (c i) (B k i))); [intros; reflexivity|].
  apply derivable_pt_lim_scal. apply (Bix_derivative t tinc (ind j0) k i x Hk).
Qed.

Lemma dform_uu k i x : dform t (ind j0) k i x = uu k i x - uu k (S i) x.
Proof. unfold dform, uu. replace (S i + k)%nat with (i + S k)%nat by lia. unfold Rdiv. ring. Qed.

Lemma uu_support k i x : (1 <= k)%nat -> ~ (i <= j0 <= i + pred k)%nat -> uu k i x = 0.
Proof. intros Hk H. unfold uu. rewrite (isupport t tinc x j0 (pred k) i H). unfold Rdiv. ring. Qed.
Lemma uu_nonneg k i x : (1 <= k)%nat -> t j0 <= x <= t (S j0) -> 0 <= uu k i x.
Proof.
  intros Hk Hx. unfold uu. pose proof (inonneg t tinc x j0 Hx (pred k) i). pose proof (pos_INR k).
  pose proof (tsmono t tinc i (i + k)%nat ltac:(lia)).
  apply (div_nonneg (INR k * B (pred k) i x)); [apply Rmult_le_pos; assumption|lra].
Qed.

(* derivative of the piece = order k-1 spline piece of the scaled differences (when the two boundary terms vanish) *)
Theorem dspl_is_spline c k a m x : (1 <= k)%nat ->
  ~ (a <= j0 <= a + pred k)%nat -> ~ (a + S m <= j0 <= a + S m + pred k)%nat ->
  dspl c k a (S m) x = spl (fun i => dcoef c k i) (pred k) (S a) m x.
Proof.
  intros Hk H1 H2. unfold dspl.
  rewrite (sumf_ext _ (fun i => c i * (uu k i x - uu k (S i) x))) by (intros; rewrite dform_uu; reflexivity).
  rewrite (abel c (fun i => uu k i x)). rewrite (uu_support k a x Hk H1), (uu_support k (a + S m) x Hk H2).
  unfold spl. rewrite !Rmult_0_r, Rminus_0_r, Rplus_0_l. apply sumf_ext. intros i Hi. unfold dcoef, uu, Rdiv. ring.
Qed.

Theorem dspl_nonneg c k a m x : (1 <= k)%nat -> t j0 <= x <= t (S j0) ->
  ~ (a <= j0 <= a + pred k)%nat -> ~ (a + S m <= j0 <= a + S m + pred k)%nat ->
  (forall i, (a < i <= a + m)%nat -> c (pred i) <= c i) -> 0 <= dspl c k a (S m) x.
Proof.
  intros Hk Hx H1 H2 Hc. unfold dspl.
  rewrite (sumf_ext _ (fun i => c i * (uu k i x - uu k (S i) x))) by (intros; rewrite dform_uu; reflexivity).
  rewrite (abel c (fun i => uu k i x)). rewrite (uu_support k a x Hk H1), (uu_support k (a + S m) x Hk H2).
  rewrite !Rmult_0_r, Rminus_0_r, Rplus_0_l. apply sumf_nonneg. intros i Hi.
  apply Rmult_le_pos; [pose proof (Hc i ltac:(lia)); lra|apply uu_nonneg; assumption].
Qed.

(* non-decreasing coefficients => the piece is non-decreasing on its knot interval *)
Theorem piece_mono c k a m x y : (1 <= k)%nat -> t j0 <= x -> x <= y -> y <= t (S j0) ->
  ~ (a <= j0 <= a + pred k)%nat -> ~ (a + S m <= j0 <= a + S m + pred k)%nat ->
  (forall i, (a < i <= a + m)%nat -> c (pred i) <= c i) -> spl c k a (S m) x <= spl c k a (S m) y.
Proof.
  intros Hk Hx Hxy Hy H1 H2 Hc. destruct (Rle_lt_or_eq_dec x y Hxy) as [Hlt|Heq]; [|subst y; lra].
  destruct (MVT_cor2 (spl c k a (S m)) (dspl c k a (S m)) x y Hlt) as [z [E Hz]].
  - intros z _. apply spl_derivable. assumption.
  - pose proof (dspl_nonneg c k a m z Hk ltac:(lra) H1 H2 Hc) as N.
    assert (0 <= dspl c k a (S m) z * (y - x)) by (apply Rmult_le_pos; lra). lra.
Qed.
End Piece.
