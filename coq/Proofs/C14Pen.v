(* Proofs/C14Pen.v -- the penalty of a term (list) is a function of its current behaviour-determining settings *)
From Coq Require Import List ZArith QArith String Bool.
From PG Require Import Base.Ops Base.Vec Model.Penalties Model.C04Check Model.Terms Model.C14Pen Proofs.C14Dedup Proofs.C14Dist Proofs.C14Info.
Import ListNotations.
Open Scope list_scope.

Lemma pen_simple_behav : forall x, pen_simple (behav_simple x) = pen_simple x.
Proof. destruct x as [l | s | s c]; reflexivity. Qed.

Lemma omap_pen_simple_behav : forall ms, omap pen_simple (map behav_simple ms) = omap pen_simple ms.
Proof. induction ms as [| x r IH]; simpl; auto. now rewrite pen_simple_behav, IH. Qed.

Lemma pen_term_behav : forall t, pen_term (behav t) = pen_term t.
Proof.
  destruct t as [vb | x | ms b vb]; simpl; auto.
  - now rewrite pen_simple_behav.
  - now rewrite omap_pen_simple_behav.
Qed.

Lemma pen_term_settings : forall t u, behav t = behav u -> pen_term t = pen_term u.
Proof. intros t u H. rewrite <- (pen_term_behav t), <- (pen_term_behav u). now rewrite H. Qed.

Lemma penalty_now_settings : forall ts us, map behav ts = map behav us -> penalty_now ts = penalty_now us.
Proof.
  intros ts us H. unfold penalty_now.
  assert (E : omap pen_term ts = omap pen_term us).
  { revert us H. induction ts as [| t r IH]; intros [| u s] H; simpl in *; try discriminate; auto.
    injection H as H1 H2. now rewrite (pen_term_settings t u H1), (IH s H2). }
  now rewrite E.
Qed.

(* whatever was used or assigned before: once an assignment is accepted, the penalty is that of ANY term list that has the
   resulting settings -- in particular of one constructed with those settings from the start *)
Lemma penalty_after_assign : forall name v ts ts' fresh, tl_set name v ts = (Ok, ts') ->
  map behav fresh = map behav ts' -> penalty_now fresh = penalty_now ts'.
Proof. intros. now apply penalty_now_settings. Qed.

Lemma penalty_rebuilt : forall t, wf_term t -> roundtrip_guard t = true ->
  exists t', build_from_info (info t) = Some t' /\ pen_term t' = pen_term t.
Proof.
  intros t Hwf Hg. destruct (info_roundtrip_guarded t Hwf Hg) as [t' [E1 E2]]. exists t'. split; auto.
  now apply pen_term_settings.
Qed.
