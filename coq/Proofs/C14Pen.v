(* Proofs/C14Pen.v -- the penalty of a compiled term (list) is a function of its current behaviour-determining settings *)
From Coq Require Import List ZArith QArith String Bool.
From PG Require Import Base.Ops Base.Vec Model.Penalties Model.C04Check Model.Terms Model.C14Pen Proofs.C14Dedup Proofs.C14Dist Proofs.C14Info.
Import ListNotations.
Open Scope list_scope.

Lemma pen_simple_settings : forall dk nc x y, behav_simple x = behav_simple y ->
  pen_simple (compile_simple dk nc x) = pen_simple (compile_simple dk nc y).
Proof.
  intros dk nc x y H. destruct x as [l | s | s c], y as [l' | s' | s' c']; simpl in H; try discriminate.
  - destruct l, l'. simpl in *. injection H as -> -> ->. reflexivity.
  - destruct s, s'. simpl in *. injection H as -> -> -> -> -> -> -> -> -> _. reflexivity.
  - destruct s, s'. simpl in *. injection H as -> -> -> -> -> -> -> -> _ ->. reflexivity.
Qed.

Lemma omap_pen_simple_settings : forall dk nc ms ms', map behav_simple ms = map behav_simple ms' ->
  omap pen_simple (map (compile_simple dk nc) ms) = omap pen_simple (map (compile_simple dk nc) ms').
Proof.
  induction ms as [| x r IH]; intros [| y s] H; simpl in *; try discriminate; auto.
  injection H as H1 H2. now rewrite (pen_simple_settings dk nc x y H1), (IH s H2).
Qed.

Lemma pen_term_settings : forall dk nc t u, behav t = behav u -> pen_term (compile dk nc t) = pen_term (compile dk nc u).
Proof.
  intros dk nc t u H. destruct t as [vb | x | ms b vb], u as [vb' | y | ms' b' vb']; simpl in *; try discriminate; auto.
  - injection H as H. now rewrite (pen_simple_settings dk nc x y H).
  - injection H as H _. now rewrite (omap_pen_simple_settings dk nc ms ms' H).
Qed.

Lemma penalty_now_settings : forall dk nc ts us, map behav ts = map behav us ->
  penalty_now (map (compile dk nc) ts) = penalty_now (map (compile dk nc) us).
Proof.
  intros dk nc ts us H. unfold penalty_now.
  assert (E : omap pen_term (map (compile dk nc) ts) = omap pen_term (map (compile dk nc) us)).
  { revert us H. induction ts as [| t r IH]; intros [| u s] H; simpl in *; try discriminate; auto.
    injection H as H1 H2. now rewrite (pen_term_settings dk nc t u H1), (IH s H2). }
  now rewrite E.
Qed.

(* whatever was used or assigned before: once an assignment is accepted, the penalty (on any data) is that of ANY term list that
   has the resulting settings -- in particular of one constructed with those settings from the start *)
Lemma penalty_after_assign : forall dk nc name v ts ts' fresh, tl_set name v ts = (Ok, ts') ->
  map behav fresh = map behav ts' -> penalty_now (map (compile dk nc) fresh) = penalty_now (map (compile dk nc) ts').
Proof. intros. now apply penalty_now_settings. Qed.

Lemma penalty_rebuilt : forall dk nc t, wf_term t -> roundtrip_guard t = true ->
  exists t', build_from_info (info t) = Some t' /\ pen_term (compile dk nc t') = pen_term (compile dk nc t).
Proof.
  intros dk nc t Hwf Hg. destruct (info_roundtrip_guarded t Hwf Hg) as [t' [E1 E2]]. exists t'. split; auto.
  now apply pen_term_settings.
Qed.
