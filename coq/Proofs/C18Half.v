(* Proofs/C18Half.v -- expectile 1/2: the PIRLS step of ExpectileGAM is the penalised least-squares step of LinearGAM with
   the WHOLE penalty (ridge S included) doubled; against LinearGAM with doubled lam (penalty S + 2P) the defect is exactly S b. *)
From Coq Require Import List Reals Lra Lia Arith Bool.
From PG Require Import Base.Ops Base.Vec Model.Pirls Proofs.VecR Proofs.C01.
Import ListNotations.
Open Scope R_scope.

Lemma half_w2 ob : obs_w2 LIdentity DNormal (Some (1/2)) 1 ob = vscaleR (1/2) (obs_w2 LIdentity DNormal None 1 ob).
Proof. unfold obs_w2, vscale. rewrite map_map. apply map_ext. intros t. unfold w2.
  cbn [asym gprime V0 fr Rfops rltb rmul rsub r1 Rrops fdiv]. destruct (Rltb _ _); rewrite !Rdivt_ok by lra; field. Qed.
Lemma linear_w2 ob : obs_w2 LIdentity DNormal None 1 ob = map (fun t => fst (fst t)) ob.
Proof. unfold obs_w2. apply map_ext. intros t. unfold w2. cbn. rewrite Rdivt_ok by lra. field. Qed.

Lemma vmul_vscale_l c : forall u v, vmulR (vscaleR c u) v = vscaleR c (vmulR u v).
Proof. unfold vscale. induction u as [|a u IH]; intros [|b v]; cbn; try reflexivity. rewrite IH. f_equal. lra. Qed.
Lemma vscale_vadd c : forall u v, vscaleR c (vaddR u v) = vaddR (vscaleR c u) (vscaleR c v).
Proof. unfold vscale. induction u as [|a u IH]; intros [|b v]; cbn; try reflexivity. rewrite IH. f_equal. lra. Qed.
Lemma vscale_zeros c p : vscaleR c (zerosR p) = zerosR p.
Proof. unfold vscale, zeros. induction p as [|p IH]; cbn [repeat map]; [reflexivity|]. rewrite IH. f_equal. cbn. lra. Qed.
Lemma vscale_vscale c d u : vscaleR c (vscaleR d u) = vscaleR (c * d) u.
Proof. unfold vscale. rewrite map_map. apply map_ext. intros. cbn. lra. Qed.
Lemma lincomb_vscale m c : forall s B, lincombR m (vscaleR c s) B = vscaleR c (lincombR m s B).
Proof. induction s as [|a s IH]; intros B; cbn [vscale map lincomb].
  - symmetry. apply vscale_zeros.
  - destruct B as [|r B]; [symmetry; apply vscale_zeros|]. fold (vscaleR c s). rewrite IH.
    change (map (fun x : R => rmul Rrops c x) (vaddR (vscaleR a r) (lincombR m s B))) with (vscaleR c (vaddR (vscaleR a r) (lincombR m s B))).
    rewrite vscale_vadd, vscale_vscale. reflexivity. Qed.
Lemma matvec_mscale c P b : matvecR (mscaleR c P) b = vscaleR c (matvecR P b).
Proof. unfold matvec, mscale, vscale. rewrite !map_map. apply map_ext. intros r. apply dot_vscale_l. Qed.
Lemma vscale_inj c : c <> 0 -> forall u v, vscaleR c u = vscaleR c v -> u = v.
Proof. intros Hc. unfold vscale. induction u as [|a u IH]; intros [|b v] H; cbn in H; try discriminate; [reflexivity|].
  injection H as H1 H2. f_equal; [cbn in H1; nra|apply IH; exact H2]. Qed.
Lemma matvec_madd : forall A C b, length A = length C -> Forall2 (fun r s => length r = length s) A C ->
  matvecR (maddR A C) b = vaddR (matvecR A b) (matvecR C b).
Proof. induction A as [|r A IH]; intros [|s C] b HL HF; cbn in HL; try discriminate; [reflexivity|].
  inversion HF; subst. cbn [madd matvec map vadd]. fold (matvecR (maddR A C) b) (matvecR A b) (matvecR C b).
  rewrite IH by (try lia; assumption). f_equal. apply dot_vadd_l. assumption. Qed.

(* B'( (w/2) o v ) = (1/2) B'(w o v) *)
Lemma neq_half m B ws P v b :
  neq_lhsR m B (vscaleR (1/2) ws) P b = vscaleR (1/2) (neq_lhsR m B ws (mscaleR 2 P) b) /\
  neq_rhsR m B (vscaleR (1/2) ws) v = vscaleR (1/2) (neq_rhsR m B ws v).
Proof. unfold neq_lhs, neq_rhs, Bt_mul. change (fr Rfops) with Rrops. split.
  - rewrite vmul_vscale_l, lincomb_vscale, matvec_mscale, vscale_vadd, vscale_vscale.
    f_equal. replace (1 / 2 * 2) with 1 by field. unfold vscale. rewrite <- (map_id (matvecR P b)) at 1. apply map_ext. intros; cbn; lra.
  - rewrite vmul_vscale_l, lincomb_vscale. reflexivity. Qed.

(* exact: ExpectileGAM(expectile = 1/2) step  <->  LinearGAM step with total penalty 2 (S + P) *)
Theorem half_is_linear_doubled_penalty m B Ptot ob z b :
  is_step Rfops m B (obs_w2 LIdentity DNormal (Some (1/2)) 1 ob) Ptot z b <->
  is_step Rfops m B (obs_w2 LIdentity DNormal None 1 ob) (mscaleR 2 Ptot) z b.
Proof. unfold is_step. rewrite half_w2. destruct (neq_half m B (obs_w2 LIdentity DNormal None 1 ob) Ptot z b) as [-> ->].
  split; intros H; [apply (vscale_inj (1/2)) in H; [exact H|lra]|rewrite H; reflexivity]. Qed.

(* against LinearGAM with doubled lam: its total penalty is S + 2 P (the ridge S = sqrt(eps) I is NOT scaled by lam), so
   an expectile-1/2 solution b satisfies LinearGAM(2 lam)'s normal equations up to the defect S b exactly *)
Theorem half_vs_doubled_lam m B S P ob z b :
  length S = length P -> Forall2 (fun r s => length r = length s) S P ->
  is_step Rfops m B (obs_w2 LIdentity DNormal (Some (1/2)) 1 ob) (maddR S P) z b ->
  vaddR (neq_lhsR m B (obs_w2 LIdentity DNormal None 1 ob) (maddR S (mscaleR 2 P)) b) (matvecR S b) =
  neq_rhsR m B (obs_w2 LIdentity DNormal None 1 ob) z.
Proof. intros HL HF H. apply half_is_linear_doubled_penalty in H. unfold is_step in H. rewrite <- H.
  unfold neq_lhs. change (fr Rfops) with Rrops.
  assert (HF2 : Forall2 (fun r s => length r = length s) S (mscaleR 2 P)).
  { clear -HF. induction HF; cbn; constructor; [rewrite vscale_length; assumption|assumption]. }
  assert (HL2 : length S = length (mscaleR 2 P)) by (unfold mscale; rewrite map_length; exact HL).
  rewrite (matvec_madd S (mscaleR 2 P) b HL2 HF2), !matvec_mscale, (matvec_madd S P b HL HF), vscale_vadd.
  set (s := matvecR S b). set (p := matvecR P b).
  assert (E2 : vscaleR 2 s = vaddR s s).
  { clearbody s. clear. unfold vscale. induction s as [|x s IH]; cbn [map vadd]; [reflexivity|]. rewrite IH. f_equal. cbn. lra. }
  rewrite E2.
  assert (A4 : forall x a c d, length a = length d -> vaddR (vaddR x (vaddR a c)) d = vaddR x (vaddR (vaddR a d) c)).
  { clear. induction x as [|x0 x IH]; intros [|a0 a] [|c0 c] [|d0 d] HL; cbn in *; try discriminate; try reflexivity.
    f_equal; [lra|]. apply IH. lia. }
  apply A4. reflexivity. Qed.

(* hypotheses are satisfiable: one coefficient, one observation *)
Example half_example :
  let B := [[1]] in let ob := [(2,3,1)] in
  is_step Rfops 1 B (obs_w2 LIdentity DNormal (Some (1/2)) 1 ob) [[1]] [3] [3/2] /\
  is_step Rfops 1 B (obs_w2 LIdentity DNormal None 1 ob) (mscaleR 2 [[1]]) [3] [3/2].
Proof. cbn zeta. assert (A : is_step Rfops 1 [[1]] (obs_w2 LIdentity DNormal (Some (1/2)) 1 [(2,3,1)]) [[1]] [3] [3/2]).
  { unfold is_step, neq_lhs, neq_rhs, Bt_mul, obs_w2, w2. cbn. destruct (Rltb 1 3); rewrite !Rdivt_ok by lra; f_equal; field. }
  split; [exact A|]. apply half_is_linear_doubled_penalty. exact A. Qed.
