(* Proofs/C04Kron2.v -- the general k-way tensor penalty (TensorTerm.build_penalties): the lift of marginal i acts on
   the axis-i fibres of the C-ordered coefficient array; the tensor penalty is the sum over the axes.          *)
From Coq Require Import List Reals Lra Lia Arith Bool Permutation.
From PG Require Import Base.Ops Base.Vec Model.Penalties Proofs.VecR Proofs.C04 Proofs.C04b Proofs.C04Kron.
Import ListNotations.
Open Scope R_scope.

(* ---------- the fibre decomposition (executable, any element type) ----------
   dims = [n_0; ...; n_(k-1)], C order (last axis fastest).  With p = prod_{j<i} n_j, n = n_i, q = prod_{j>i} n_j
   the fibre with outer index a < p and inner index c < q is  v[a n q + c], v[a n q + c + q], ..., (n entries, stride q). *)
Definition prod_dims (l : list nat) : nat := fold_right Nat.mul 1%nat l.
Definition fibres {A} (d : A) (dims : list nat) (i : nat) (v : list A) : list (list A) :=
  let p := prod_dims (firstn i dims) in
  let n := nth i dims O in
  let q := prod_dims (skipn (S i) dims) in
  flat_map (fun a => map (fun c => strided d v (a * (n * q) + c) q n) (seq 0 q)) (seq 0 p).

Lemma prod_dims_cons n l : prod_dims (n :: l) = (n * prod_dims l)%nat. Proof. reflexivity. Qed.
Lemma prod_dims_split dims : forall k, (k < length dims)%nat ->
  prod_dims dims = (prod_dims (firstn k dims) * (nth k dims O * prod_dims (skipn (S k) dims)))%nat.
Proof. induction dims as [|n dims IH]; intros k H; cbn [length] in H; [lia|]. destruct k as [|k].
  - cbn [firstn nth skipn]. rewrite prod_dims_cons. cbn [prod_dims fold_right]. lia.
  - rewrite skipn_cons. cbn [firstn nth]. rewrite !prod_dims_cons. rewrite (IH k) at 1 by lia. lia. Qed.

(* recursive form used in the proofs *)
Fixpoint fib_rec {A} (d : A) (n q p : nat) (w : list A) : list (list A) :=
  match p with O => [] | S p' => cols d q n (firstn (n * q) w) ++ fib_rec d n q p' (skipn (n * q) w) end.
Lemma fib_rec_explicit {A} (d : A) n q p : forall w,
  fib_rec d n q p w = flat_map (fun a => map (fun c => strided d w (a * (n * q) + c) q n) (seq 0 q)) (seq 0 p).
Proof. induction p as [|p IH]; intros w; [reflexivity|].
  cbn [fib_rec seq flat_map]. rewrite <- seq_shift, flat_map_map. f_equal.
  - unfold cols. apply map_ext_in. intros c Hc. apply in_seq in Hc.
    rewrite strided_firstn by (intros k Hk; nia). apply strided_ext. lia.
  - rewrite IH. apply flat_map_ext. intros a. apply map_ext. intros c. rewrite strided_skipn. apply strided_ext. lia. Qed.
Lemma fibres_fib_rec {A} (d : A) dims i v :
  fibres d dims i v = fib_rec d (nth i dims O) (prod_dims (skipn (S i) dims)) (prod_dims (firstn i dims)) v.
Proof. rewrite fib_rec_explicit. reflexivity. Qed.

(* sanity: number of fibres, their lengths, and that together they rearrange v *)
Lemma flat_map_length_const {A B} (f : A -> list B) q l : (forall a, length (f a) = q) -> length (flat_map f l) = (length l * q)%nat.
Proof. intros H. induction l as [|a l IH]; cbn [flat_map length]; [reflexivity|]. rewrite app_length, H, IH. reflexivity. Qed.
Theorem fibres_count {A} (d : A) dims i v :
  length (fibres d dims i v) = (prod_dims (firstn i dims) * prod_dims (skipn (S i) dims))%nat.
Proof. unfold fibres. rewrite (flat_map_length_const _ (prod_dims (skipn (S i) dims))).
  - rewrite seq_length. reflexivity.
  - intros a. rewrite map_length, seq_length. reflexivity. Qed.
Corollary fibres_count_div {A} (d : A) dims i v : (i < length dims)%nat -> nth i dims O <> O ->
  length (fibres d dims i v) = (prod_dims dims / nth i dims O)%nat.
Proof. intros Hi Hn. rewrite fibres_count, (prod_dims_split dims i Hi).
  set (p := prod_dims (firstn i dims)). set (q := prod_dims (skipn (S i) dims)). set (n := nth i dims O) in *.
  replace (p * (n * q))%nat with ((p * q) * n)%nat by lia. rewrite Nat.div_mul by exact Hn. reflexivity. Qed.
Theorem fibres_lengths {A} (d : A) dims i v : Forall (fun f => length f = nth i dims O) (fibres d dims i v).
Proof. unfold fibres. apply Forall_forall. intros f Hf. apply in_flat_map in Hf. destruct Hf as [a [_ Hf]].
  apply in_map_iff in Hf. destruct Hf as [c [<- _]]. apply strided_length. Qed.
Lemma fib_rec_perm {A} (d : A) n q p : forall w, length w = (p * (n * q))%nat -> Permutation (concat (fib_rec d n q p w)) w.
Proof. induction p as [|p IH]; intros w Hw; cbn [fib_rec].
  - destruct w; [constructor|discriminate].
  - rewrite concat_app. rewrite <- (firstn_skipn (n * q) w) at 3. apply Permutation_app.
    + apply cols_perm. rewrite firstn_length. nia.
    + apply IH. rewrite skipn_length. nia. Qed.
Theorem fibres_perm {A} (d : A) dims i v : (i < length dims)%nat -> length v = prod_dims dims ->
  Permutation (concat (fibres d dims i v)) v.
Proof. intros Hi Hv. rewrite fibres_fib_rec. apply fib_rec_perm. rewrite Hv. apply prod_dims_split. exact Hi. Qed.

(* ---------- I_p (x) (P (x) I_q) acts on the fibres ---------- *)
Lemma bil_lift_rec P n q : square P n -> forall p u v, length u = (p * (n * q))%nat -> length v = (p * (n * q))%nat ->
  bilR (kronR (identR p) (kronR P (identR q))) u v = sum2 (bilR P) (fib_rec 0 n q p u) (fib_rec 0 n q p v).
Proof. intros SP p u v Hu Hv.
  rewrite (bil_kron_ident_l _ (n * q) p (kron_square _ _ _ _ SP (ident_square q)) u v Hu Hv).
  revert u v Hu Hv. induction p as [|p IH]; intros u v Hu Hv; cbn [chunks sum2 fib_rec]; [reflexivity|].
  rewrite sum2_app by (unfold cols; rewrite !map_length; reflexivity).
  rewrite (bil_kron_ident_r P n q SP) by (rewrite firstn_length; nia).
  rewrite IH by (rewrite skipn_length; nia). reflexivity. Qed.

(* ---------- the left-to-right fold of scipy.sparse.kron in _build_marginal_penalties ---------- *)
Definition dm : @margin R := mk_margin KLinear 0 [].
Definition dims_of (ms : list (@margin R)) : list nat := map (@m_n R) ms.
Lemma tensor_n_prod (ms : list (@margin R)) : tensor_n ms = prod_dims (dims_of ms).
Proof. induction ms as [|m ms IH]; [reflexivity|]. cbn [dims_of map]. rewrite prod_dims_cons. fold (dims_of ms). rewrite <- IH. reflexivity. Qed.
Lemma tensor_n_cons (m : @margin R) ms : tensor_n (m :: ms) = (m_n m * tensor_n ms)%nat. Proof. reflexivity. Qed.
Definition lift_form (ms : list (@margin R)) (k : nat) : list (list R) :=
  kronR (identR (prod_dims (firstn k (dims_of ms))))
        (kronR (margin_penalty Rrops (nth k ms dm)) (identR (prod_dims (skipn (S k) (dims_of ms))))).
Lemma lift_aux_after ms : forall i j A, (i < j)%nat ->
  marginal_lift_aux Rrops ms i j (Some A) = kronR A (identR (tensor_n ms)).
Proof. induction ms as [|m ms IH]; intros i j A H.
  - cbn [marginal_lift_aux]. change (identR (tensor_n [])) with [[1]]. rewrite kron_one_r. reflexivity.
  - cbn [marginal_lift_aux]. replace (Nat.eqb j i) with false by (symmetry; apply Nat.eqb_neq; lia).
    rewrite IH by lia. rewrite kron_assoc, kron_ident_ident, tensor_n_cons. reflexivity. Qed.
Lemma lift_aux_before ms : forall k j A, (k < length ms)%nat ->
  marginal_lift_aux Rrops ms (j + k) j (Some A) = kronR A (lift_form ms k).
Proof. induction ms as [|m ms IH]; intros k j A H; cbn [length] in H; [lia|].
  cbn [marginal_lift_aux]. destruct k as [|k].
  - replace (j + 0)%nat with j by lia. rewrite Nat.eqb_refl. rewrite lift_aux_after by lia. rewrite kron_assoc.
    unfold lift_form. cbn [dims_of map]. rewrite skipn_cons. cbn [firstn skipn nth]. fold (dims_of ms).
    change (identR (prod_dims [])) with [[1]]. rewrite kron_one_l, tensor_n_prod. reflexivity.
  - replace (Nat.eqb j (j + S k)) with false by (symmetry; apply Nat.eqb_neq; lia).
    replace (j + S k)%nat with (S j + k)%nat by lia. rewrite IH by lia. rewrite kron_assoc. f_equal.
    unfold lift_form. cbn [dims_of map]. rewrite skipn_cons. cbn [firstn nth]. fold (dims_of ms).
    rewrite prod_dims_cons, <- kron_assoc, kron_ident_ident. reflexivity. Qed.
Theorem marginal_lift_kron ms i : (i < length ms)%nat -> marginal_lift Rrops ms i = lift_form ms i.
Proof. intros H. unfold marginal_lift. destruct ms as [|m ms]; [cbn in H; lia|].
  assert (E : marginal_lift_aux Rrops (m :: ms) i 0 None = marginal_lift_aux Rrops (m :: ms) i 0 (Some [[1]])).
  { cbn [marginal_lift_aux]. rewrite kron_one_l. reflexivity. }
  rewrite E. pose proof (lift_aux_before (m :: ms) i 0 [[1]] H) as L. cbn [Nat.add] in L.
  etransitivity; [exact L|apply kron_one_l]. Qed.

Lemma nth_dims ms i : nth i (dims_of ms) O = m_n (nth i ms dm).
Proof. unfold dims_of. change O with (m_n dm) at 1. apply map_nth. Qed.
Lemma lift_form_square ms i : (i < length ms)%nat -> margin_ok (nth i ms dm) -> square (lift_form ms i) (tensor_n ms).
Proof. intros Hi Hok. unfold lift_form. rewrite tensor_n_prod.
  rewrite (prod_dims_split (dims_of ms) i) by (unfold dims_of; rewrite map_length; exact Hi).
  apply kron_square; [apply ident_square|]. apply kron_square; [|apply ident_square].
  rewrite nth_dims. apply margin_penalty_square. exact Hok. Qed.

(* ---------- (a) the lift of marginal i = sum over all axis-i fibres ---------- *)
Theorem lift_bil ms i u v : (i < length ms)%nat -> margin_ok (nth i ms dm) ->
  length u = tensor_n ms -> length v = tensor_n ms ->
  bilR (marginal_lift Rrops ms i) u v
  = sum2 (bilR (margin_penalty Rrops (nth i ms dm))) (fibres 0 (dims_of ms) i u) (fibres 0 (dims_of ms) i v).
Proof. intros Hi Hok Hu Hv. rewrite (marginal_lift_kron ms i Hi). unfold lift_form. rewrite !fibres_fib_rec.
  pose proof (prod_dims_split (dims_of ms) i) as S. unfold dims_of at 1 in S. rewrite map_length in S. specialize (S Hi).
  rewrite tensor_n_prod, S in Hu, Hv. rewrite nth_dims in *.
  apply bil_lift_rec; [apply margin_penalty_square; exact Hok|exact Hu|exact Hv]. Qed.
Definition fibre_sum (ms : list (@margin R)) (i : nat) (v : list R) : R :=
  vsumR (map (quadR (margin_penalty Rrops (nth i ms dm))) (fibres 0 (dims_of ms) i v)).
Theorem tensor_kron_lift ms i v : (i < length ms)%nat -> margin_ok (nth i ms dm) -> length v = tensor_n ms ->
  quadR (marginal_lift Rrops ms i) v = fibre_sum ms i v.
Proof. intros Hi Hok Hv. rewrite quad_bil, (lift_bil ms i v v Hi Hok Hv Hv). apply sum2_diag. Qed.
(* the same, without default elements: the i-th marginal is m *)
Theorem tensor_kron_lift_nth ms i m v : nth_error ms i = Some m -> margin_ok m -> length v = tensor_n ms ->
  quadR (marginal_lift Rrops ms i) v
  = vsumR (map (quadR (margin_penalty Rrops m)) (fibres 0 (map (@m_n R) ms) i v)).
Proof. intros E Hok Hv. assert (Hi : (i < length ms)%nat) by (apply nth_error_Some; congruence).
  pose proof (nth_error_nth ms i dm E) as En. rewrite <- En in Hok.
  rewrite (tensor_kron_lift ms i v Hi Hok Hv). unfold fibre_sum. rewrite En. reflexivity. Qed.

(* ---------- (b) the tensor penalty is the sum over the axes ---------- *)
Lemma bil_madd A B u v n : square A n -> square B n -> bilR (maddR A B) u v = bilR A u v + bilR B u v.
Proof. intros [LA FA] [LB FB]. unfold bilR. rewrite (matvec_madd A B v n FA FB).
  apply dot_vadd_r. rewrite !matvec_length. congruence. Qed.
Lemma bil_mzero n u v : bilR (mzeroR n n) u v = 0.
Proof. unfold bilR. rewrite matvec_mzero. apply dot_zeros_r. Qed.
Lemma fold_lift_bil (L : nat -> list (list R)) N l : (forall i, In i l -> square (L i) N) -> forall acc, square acc N ->
  square (fold_left (fun acc i => maddR acc (L i)) l acc) N /\
  forall u v, bilR (fold_left (fun acc i => maddR acc (L i)) l acc) u v = bilR acc u v + vsumR (map (fun i => bilR (L i) u v) l).
Proof. induction l as [|i l IH]; intros HL acc Hacc; cbn [fold_left map vsum].
  - split; [exact Hacc|]. intros. cbn. lra.
  - assert (Si : square (L i) N) by (apply HL; left; reflexivity).
    destruct (IH (fun j Hj => HL j (or_intror Hj)) (maddR acc (L i)) (madd_square _ _ _ Hacc Si)) as [Sq Q].
    split; [exact Sq|]. intros u v. rewrite Q, (bil_madd acc (L i) u v N Hacc Si). cbn. lra. Qed.
Lemma Forall_nth_dm ms i : Forall margin_ok ms -> (i < length ms)%nat -> margin_ok (nth i ms dm).
Proof. intros HF Hi. rewrite Forall_forall in HF. apply HF. apply nth_In. exact Hi. Qed.
Theorem tensor_penalty_square ms : Forall margin_ok ms -> square (tensor_penalty Rrops ms) (tensor_n ms).
Proof. intros HF. unfold tensor_penalty.
  apply (fold_lift_bil (marginal_lift Rrops ms) (tensor_n ms) (seq 0 (length ms))); [|apply mzero_square].
  intros i Hi. apply in_seq in Hi. rewrite marginal_lift_kron by lia. apply lift_form_square; [lia|]. apply Forall_nth_dm; [exact HF|lia]. Qed.
Theorem tensor_penalty_bil ms u v : Forall margin_ok ms -> length u = tensor_n ms -> length v = tensor_n ms ->
  bilR (tensor_penalty Rrops ms) u v
  = vsumR (map (fun i => sum2 (bilR (margin_penalty Rrops (nth i ms dm))) (fibres 0 (dims_of ms) i u) (fibres 0 (dims_of ms) i v))
               (seq 0 (length ms))).
Proof. intros HF Hu Hv. unfold tensor_penalty.
  destruct (fold_lift_bil (marginal_lift Rrops ms) (tensor_n ms) (seq 0 (length ms))) with (acc := mzeroR (tensor_n ms) (tensor_n ms)) as [_ Q].
  - intros i Hi. apply in_seq in Hi. rewrite marginal_lift_kron by lia. apply lift_form_square; [lia|]. apply Forall_nth_dm; [exact HF|lia].
  - apply mzero_square.
  - rewrite Q, bil_mzero, Rplus_0_l. f_equal. apply map_ext_in. intros i Hi. apply in_seq in Hi.
    apply lift_bil; [lia| |exact Hu|exact Hv]. apply Forall_nth_dm; [exact HF|lia]. Qed.
Theorem tensor_penalty_quadform ms v : Forall margin_ok ms -> length v = tensor_n ms ->
  quadR (tensor_penalty Rrops ms) v = vsumR (map (fun i => fibre_sum ms i v) (seq 0 (length ms))).
Proof. intros HF Hv. rewrite quad_bil, (tensor_penalty_bil ms v v HF Hv Hv). f_equal. apply map_ext. intros i. apply sum2_diag. Qed.

(* ---------- symmetric PSD ---------- *)
Lemma vsum_nonneg l : Forall (fun x => 0 <= x) l -> 0 <= vsumR l.
Proof. induction 1 as [|x l Hx _ IH]; cbn [vsum]; cbn; lra. Qed.
Theorem tensor_penalty_sym_psd ms : Forall margin_ok ms ->
  Forall (fun m => bisym (margin_penalty Rrops m) (m_n m) /\ psd (margin_penalty Rrops m) (m_n m)) ms ->
  bisym (tensor_penalty Rrops ms) (tensor_n ms) /\ psd (tensor_penalty Rrops ms) (tensor_n ms).
Proof. intros HF HP. split.
  - intros u v Hu Hv. fold (bilR (tensor_penalty Rrops ms) u v). fold (bilR (tensor_penalty Rrops ms) v u).
    rewrite (tensor_penalty_bil ms u v HF Hu Hv), (tensor_penalty_bil ms v u HF Hv Hu). f_equal.
    apply map_ext_in. intros i Hi. apply in_seq in Hi. apply sum2_sym. intros fu fv Hfu Hfv.
    assert (Hm : In (nth i ms dm) ms) by (apply nth_In; lia). rewrite Forall_forall in HP. destruct (HP _ Hm) as [Sy _].
    pose proof (fibres_lengths 0 (dims_of ms) i u) as Lu. pose proof (fibres_lengths 0 (dims_of ms) i v) as Lv.
    rewrite Forall_forall in Lu, Lv. rewrite nth_dims in Lu, Lv. apply Sy; [apply Lu|apply Lv]; assumption.
  - intros v Hv. rewrite (tensor_penalty_quadform ms v HF Hv). apply vsum_nonneg. apply Forall_forall. intros x Hx.
    apply in_map_iff in Hx. destruct Hx as [i [<- Hi]]. apply in_seq in Hi. unfold fibre_sum. apply vsum_nonneg.
    apply Forall_forall. intros y Hy. apply in_map_iff in Hy. destruct Hy as [f [<- Hf]].
    assert (Hm : In (nth i ms dm) ms) by (apply nth_In; lia). rewrite Forall_forall in HP. destruct (HP _ Hm) as [_ Ps].
    apply Ps. pose proof (fibres_lengths 0 (dims_of ms) i v) as Lv. rewrite Forall_forall in Lv. rewrite <- nth_dims. apply Lv. exact Hf. Qed.
