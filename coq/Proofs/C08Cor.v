(* Proofs/C08Cor.v -- consequences of the documented definitions that a reader of the summary relies on: ranges and order
   relations of the GENERATED statistic formulas (Gen/Stats.v), and "the squared deviance residuals add up to the deviance" *)
From Coq Require Import Reals Lra List.
From PG Require Import Base.Ops Gen.Stats Proofs.C08.
Import ListNotations.
Open Scope R_scope.

Lemma div_nonneg a b : 0 <= a -> 0 < b -> 0 <= a / b.
Proof. intros Ha Hb. unfold Rdiv. apply Rmult_le_pos; [assumption|]. apply Rlt_le, Rinv_0_lt_compat; assumption. Qed.

(* the small-sample correction is non-negative while residual degrees of freedom remain, and the unknown-scale AIC charges
   exactly one more parameter than the known-scale one *)
Lemma AICc_ge_AIC AIC edof n : 0 <= edof -> edof + 2 < n -> AIC <= Gen_AICc AIC edof n.
Proof. intros He Hn. rewrite AICc_doc.
  assert (0 <= 2 * (edof + 1) * (edof + 2) / (n - edof - 2)) by (apply div_nonneg; [|lra]; apply Rmult_le_pos; lra).
  lra. Qed.
Lemma AIC_scale_charge ll edof : Gen_AIC false ll edof = Gen_AIC true ll edof + 2.
Proof. rewrite !AIC_doc. ring. Qed.
Lemma AIC_decreasing_in_ll known l1 l2 edof : l1 < l2 -> Gen_AIC known l2 edof < Gen_AIC known l1 edof.
Proof. intro H. rewrite !AIC_doc. lra. Qed.

(* GCV is non-negative for a non-negative deviance, and strictly increasing in the deviance at fixed edof *)
Lemma GCV_nonneg n dev edof : 0 < n -> 0 <= dev -> n - Gen_gamma_default * edof <> 0 -> 0 <= Gen_GCV Gen_gamma_default n dev edof.
Proof. intros Hn Hd Hne. unfold Gen_GCV. apply div_nonneg; [apply Rmult_le_pos; lra|].
  set (t := n - Gen_gamma_default * edof) in *.
  destruct (Rtotal_order t 0) as [Hneg|[Hz|Hp]]; [|contradiction|apply Rmult_lt_0_compat; assumption].
  replace (t * t) with ((- t) * (- t)) by ring. apply Rmult_lt_0_compat; lra. Qed.

(* explained deviance: at most one for a non-negative model deviance, one exactly for a saturated fit, non-negative exactly
   when the model does not do worse than the null model *)
Lemma explained_deviance_range full_d null_d : 0 < null_d ->
  (0 <= full_d -> Gen_explained_deviance full_d null_d <= 1) /\
  (Gen_explained_deviance full_d null_d = 1 <-> full_d = 0) /\
  (0 <= Gen_explained_deviance full_d null_d <-> full_d <= null_d).
Proof. intro Hn. unfold Gen_explained_deviance.
  assert (Hi : 0 < / null_d) by (apply Rinv_0_lt_compat; assumption).
  assert (Hq : full_d = (full_d / null_d) * null_d) by (field; lra).
  split; [|split].
  - intro Hf. assert (0 <= full_d / null_d) by (apply div_nonneg; assumption). lra.
  - split; intro H.
    + assert (E : full_d / null_d = 0) by lra. rewrite Hq, E. ring.
    + rewrite H. unfold Rdiv. rewrite Rmult_0_l. ring.
  - split; intro H.
    + assert (E : full_d / null_d <= 1) by lra.
      assert (E2 : full_d / null_d * null_d <= 1 * null_d) by (apply Rmult_le_compat_r; lra).
      rewrite <- Hq in E2. lra.
    + assert (full_d / null_d <= 1); [|lra].
      unfold Rdiv. replace 1 with (null_d * / null_d) by (field; lra). apply Rmult_le_compat_r; lra. Qed.

(* the deviance residuals of a data set square-sum to its deviance (rows with y = mu carry zero unit deviance:
   Props/C06.v C06_dev_zero_iff) *)
Fixpoint sum_sq_resid (rows : list (R * R * R)) : R :=
  match rows with
  | [] => 0
  | (y, mu, d) :: rest => Gen_deviance_residual y mu d * Gen_deviance_residual y mu d + sum_sq_resid rest
  end.
Fixpoint sum_dev (rows : list (R * R * R)) : R :=
  match rows with [] => 0 | (_, _, d) :: rest => d + sum_dev rest end.
Definition row_ok (r : R * R * R) : Prop := let '(y, mu, d) := r in 0 <= d /\ (y = mu -> d = 0).

Lemma dev_resid_sq_all y mu d : 0 <= d -> (y = mu -> d = 0) ->
  Gen_deviance_residual y mu d * Gen_deviance_residual y mu d = d.
Proof. intros Hd Hz. destruct (Req_dec y mu) as [E|NE]; [|apply dev_resid_sq; assumption].
  rewrite (Hz E). unfold Gen_deviance_residual. rewrite sqrt_0. ring. Qed.

Lemma resid_squares_sum_to_deviance rows : Forall row_ok rows -> sum_sq_resid rows = sum_dev rows.
Proof. induction rows as [|[[y mu] d] rest IH]; intro H; [reflexivity|].
  pose proof (Forall_inv H) as [Hd Hz]. pose proof (Forall_inv_tail H) as Ht. cbn [sum_sq_resid sum_dev].
  rewrite (dev_resid_sq_all y mu d Hd Hz), (IH Ht). reflexivity. Qed.

Example rows_ok_example : Forall row_ok [(1, 3, 2); (2, 2, 0); (5, 1, 7)].
Proof. repeat constructor; unfold row_ok; try lra; intro; lra. Qed.
