(* Proofs/C18PrimFlocq.v -- the PrimFloat bisection machine (bit-exact binary64, Model/FitQuantile.v) REFINES the rounded-real
   machine with rnd = Flocq's binary64 round-to-nearest-even, step by step, for all finite inputs in range; hence the
   universally quantified binary64 corollary of the rounded invariant.
   This is the only file of the development that uses Coq.Floats.FloatAxioms (the standard library's specification of the
   primitive float operations) through Flocq.IEEE754.PrimFloat (Prim2B, add_equiv, sub_equiv, div_equiv, abs_equiv, eqb/ltb/leb_equiv).
   NaN / infinities are excluded by hypothesis (finiteness and the range [0,1]); no overflow is possible there. *)
From Coq Require Import ZArith Reals Lra Lia Bool List Floats.
From Flocq Require Import Core BinarySingleNaN PrimFloat.
From PG Require Import Base.Ops Gen.FitQuantile Model.FitQuantile Proofs.C18Bisect Proofs.C18Flocq.
Import ListNotations.
Open Scope R_scope.

Notation pfloat := Coq.Floats.PrimFloat.float.
Local Existing Instance Hprec.
Local Existing Instance Hmax.
Definition FR (x : pfloat) : R := B2R (Prim2B x).
Definition fin (x : pfloat) : Prop := is_finite (Prim2B x) = true.

(* ---------- Flocq's binary64 rounding is the rnd64 / fmt64 of Proofs/C18Flocq.v ---------- *)
Lemma rnd_is_rnd64 x : round radix2 (fexp prec emax) (round_mode mode_NE) x = rnd64 x. Proof. reflexivity. Qed.
Lemma FR_fmt x : fmt64 (FR x). Proof. unfold FR, fmt64. apply (generic_format_B2R prec emax). Qed.
Definition C64 := b64_contract.
Lemma rnd64_le x y : x <= y -> rnd64 x <= rnd64 y. Proof. apply (proj1 C64). Qed.
Lemma rnd64_id x : fmt64 x -> rnd64 x = x. Proof. apply (proj1 (proj2 C64)). Qed.
Lemma fmt64_0 : fmt64 0. Proof. apply C64. Qed.
Lemma fmt64_1 : fmt64 1. Proof. apply C64. Qed.
Lemma fmt64_2 : fmt64 2. Proof. replace 2 with (2 * 1) by ring. apply (proj1 (proj2 (proj2 (proj2 C64)))). exact fmt64_1. Qed.
Lemma fmt64_opp x : fmt64 x -> fmt64 (- x). Proof. apply generic_format_opp. Qed.
Lemma rnd64_bound x b : fmt64 b -> Rabs x <= b -> Rabs (rnd64 x) <= b.
Proof. intros Fb H. apply Rabs_le. apply Rabs_le_inv in H. split.
  - rewrite <- (rnd64_id (- b)) by (apply fmt64_opp; exact Fb). apply rnd64_le. lra.
  - rewrite <- (rnd64_id b Fb). apply rnd64_le. lra. Qed.
Lemma four_lt_emax : 4 < bpow radix2 emax.
Proof. change 4 with (bpow radix2 2). apply bpow_lt. reflexivity. Qed.

(* ---------- constants ---------- *)
Ltac const_tac E := unfold FR, fin, Prim2B; rewrite B2R_SF2B, is_finite_SF2B; rewrite E; split; [unfold SF2R, F2R; simpl; lra|reflexivity].
Lemma FR_zero : FR (0x0.0p+0)%float = 0 /\ fin (0x0.0p+0)%float.
Proof. assert (E : Prim2SF (0x0.0p+0)%float = S754_zero false) by (vm_compute; reflexivity). const_tac E. Qed.
Lemma FR_one : FR (0x1.0000000000000p+0)%float = 1 /\ fin (0x1.0000000000000p+0)%float.
Proof. assert (E : Prim2SF (0x1.0000000000000p+0)%float = S754_finite false 4503599627370496 (-52)) by (vm_compute; reflexivity). const_tac E. Qed.
Lemma FR_two : FR (0x1.0000000000000p+1)%float = 2 /\ fin (0x1.0000000000000p+1)%float.
Proof. assert (E : Prim2SF (0x1.0000000000000p+1)%float = S754_finite false 4503599627370496 (-51)) by (vm_compute; reflexivity). const_tac E. Qed.

(* ---------- arithmetic: each primitive operation is the rounded real operation (no overflow in range) ---------- *)
Lemma FR_add a b : fin a -> fin b -> Rabs (FR a + FR b) <= 2 ->
  FR (a + b)%float = rnd64 (FR a + FR b) /\ fin (a + b)%float.
Proof. intros Fa Fb Hb. unfold FR, fin in *. rewrite add_equiv.
  pose proof (Bplus_correct prec emax Hprec Hmax mode_NE (Prim2B a) (Prim2B b) Fa Fb) as H.
  rewrite rnd_is_rnd64 in H. rewrite Rlt_bool_true in H.
  - destruct H as (H1 & H2 & _). split; assumption.
  - pose proof (rnd64_bound _ 2 fmt64_2 Hb). pose proof four_lt_emax. lra. Qed.
Lemma FR_sub a b : fin a -> fin b -> Rabs (FR a - FR b) <= 2 ->
  FR (a - b)%float = rnd64 (FR a - FR b) /\ fin (a - b)%float.
Proof. intros Fa Fb Hb. unfold FR, fin in *. rewrite sub_equiv.
  pose proof (Bminus_correct prec emax Hprec Hmax mode_NE (Prim2B a) (Prim2B b) Fa Fb) as H.
  rewrite rnd_is_rnd64 in H. rewrite Rlt_bool_true in H.
  - destruct H as (H1 & H2 & _). split; assumption.
  - pose proof (rnd64_bound _ 2 fmt64_2 Hb). pose proof four_lt_emax. lra. Qed.
Lemma FR_half a : fin a -> Rabs (FR a) <= 2 ->
  FR (a / (0x1.0000000000000p+1))%float = rnd64 (FR a / 2) /\ fin (a / (0x1.0000000000000p+1))%float.
Proof. intros Fa Hb. destruct FR_two as [T2 F2]. unfold FR, fin in *. rewrite div_equiv.
  assert (Hnz : B2R (Prim2B (0x1.0000000000000p+1)%float) <> 0) by (rewrite T2; lra).
  pose proof (Bdiv_correct prec emax Hprec Hmax mode_NE (Prim2B a) (Prim2B (0x1.0000000000000p+1)%float) Hnz) as H.
  rewrite rnd_is_rnd64, T2 in H. rewrite Rlt_bool_true in H.
  - destruct H as (H1 & H2 & _). split; [exact H1|rewrite H2; exact Fa].
  - assert (Rabs (B2R (Prim2B a) / 2) <= 2) by (apply Rabs_le; apply Rabs_le_inv in Hb; lra).
    pose proof (rnd64_bound _ 2 fmt64_2 H0). pose proof four_lt_emax. lra. Qed.
Lemma FR_abs a : FR (abs a) = Rabs (FR a) /\ (fin (abs a) <-> fin a).
Proof. unfold FR, fin. rewrite abs_equiv, B2R_Babs, is_finite_Babs. split; tauto. Qed.

(* ---------- comparisons ---------- *)
Lemma Rltb_bool x y : Rltb x y = Rlt_bool x y.
Proof. unfold Rltb. destruct (Rlt_dec x y); case Rlt_bool_spec; intros; try reflexivity; lra. Qed.
Lemma Rleb_bool x y : Rleb x y = Rle_bool x y.
Proof. unfold Rleb. destruct (Rle_dec x y); case Rle_bool_spec; intros; try reflexivity; lra. Qed.
Lemma Reqb_bool x y : fq_Reqb x y = Req_bool x y.
Proof. unfold fq_Reqb. destruct (Req_EM_T x y); case Req_bool_spec; intros; try reflexivity; contradiction. Qed.
Lemma f_ltb a b : fin a -> fin b -> PrimFloat.ltb a b = Rltb (FR a) (FR b).
Proof. intros. rewrite ltb_equiv, Rltb_bool. apply Bltb_correct; assumption. Qed.
Lemma f_leb a b : fin a -> fin b -> PrimFloat.leb a b = Rleb (FR a) (FR b).
Proof. intros. rewrite leb_equiv, Rleb_bool. apply Bleb_correct; assumption. Qed.
Lemma f_eqb a b : fin a -> fin b -> PrimFloat.eqb a b = fq_Reqb (FR a) (FR b).
Proof. intros. rewrite eqb_equiv, Reqb_bool. apply Beqb_correct; assumption. Qed.

(* ---------- the generated PrimFloat loop pieces are the rounded-real ones ---------- *)
(* the midpoint: for ALL finite min_, max_ with 0 <= min_ <= max_ <= 1 the PrimFloat value (max_ + min_) / 2.0 is, as a real,
   rnd64 (rnd64 (max_ + min_) / 2) -- and it is finite *)
Theorem midpoint_refines mn mx : fin mn -> fin mx -> 0 <= FR mn -> FR mn <= FR mx -> FR mx <= 1 ->
  FR (Gen_fq_new_expectile_f mn mx) = Gen_fq_new_expectile rnd64 (FR mn) (FR mx) /\ fin (Gen_fq_new_expectile_f mn mx).
Proof. intros Fn Fx H0 H1 H2. unfold Gen_fq_new_expectile_f, Gen_fq_new_expectile.
  assert (B : Rabs (FR mx + FR mn) <= 2) by (apply Rabs_le; lra).
  destruct (FR_add mx mn Fx Fn B) as [E1 F1].
  assert (B2 : Rabs (FR (mx + mn)%float) <= 2) by (rewrite E1; apply rnd64_bound; [exact fmt64_2|exact B]).
  destruct (FR_half _ F1 B2) as [E2 F2]. rewrite E2, E1. split; [reflexivity|exact F2]. Qed.
Lemma stall_refines e mn mx : fin e -> fin mn -> fin mx -> Gen_fq_stall_f e mn mx = Gen_fq_stall (FR e) (FR mn) (FR mx).
Proof. intros. unfold Gen_fq_stall_f, Gen_fq_stall. rewrite !f_eqb by assumption. reflexivity. Qed.
Lemma branch_refines r q : fin r -> fin q -> Gen_fq_branch_test_f r q = Gen_fq_branch_test (FR r) (FR q).
Proof. intros. unfold Gen_fq_branch_test_f, Gen_fq_branch_test. apply f_ltb; assumption. Qed.
Lemma range_refines e : fin e -> Gen_expectile_out_of_range_f e = Gen_expectile_out_of_range (FR e).
Proof. intros. destruct FR_one as [E1 F1]. destruct FR_zero as [E0 F0]. unfold Gen_expectile_out_of_range_f, Gen_expectile_out_of_range.
  rewrite !f_leb by assumption. rewrite E1, E0. reflexivity. Qed.
Lemma inside_refines e : fin e -> f_inside e = Rltb 0 (FR e) && Rltb (FR e) 1.
Proof. intros. destruct FR_one as [E1 F1]. destruct FR_zero as [E0 F0]. unfold f_inside.
  change 0%float with (0x0.0p+0)%float. change 1%float with (0x1.0000000000000p+0)%float.
  rewrite !f_ltb by assumption. rewrite E1, E0. reflexivity. Qed.
Lemma within_refines r q tol : fin r -> fin q -> fin tol -> 0 <= FR r <= 1 -> 0 <= FR q <= 1 ->
  Gen_fq_within_tol_f r q tol = Gen_fq_within_tol rnd64 (FR r) (FR q) (FR tol).
Proof. intros Fr Fq Ft Hr Hq. unfold Gen_fq_within_tol_f, Gen_fq_within_tol.
  assert (B : Rabs (FR r - FR q) <= 2) by (apply Rabs_le; lra).
  destruct (FR_sub r q Fr Fq B) as [E1 F1]. destruct (FR_abs (r - q)%float) as [E2 F2].
  rewrite f_leb by (try assumption; apply F2; exact F1). rewrite E2, E1. reflexivity. Qed.

(* ---------- abstraction of a PrimFloat state and the simulation ---------- *)
Definition absS (s : fqstf) : fqst :=
  mk_fqst (FR (f_min s)) (FR (f_max s)) (FR (f_e s)) (f_n s) (f_broke s) (f_stalled s) (f_refits s).
(* finite fields, no ValueError so far, every stored expectile strictly inside (0,1) *)
Definition okS (s : fqstf) : Prop :=
  fin (f_min s) /\ fin (f_max s) /\ fin (f_e s) /\ f_raised s = false /\ forallb f_inside (f_trace s) = true /\
  (f_stalled s = true -> Gen_fq_stall_f (Gen_fq_new_expectile_f (f_min s) (f_max s)) (f_min s) (f_max s) = true).
Definition goodS (s : fqstf) : Prop := okS s /\ fq_invf fmt64 (absS s).

Lemma running_refines max_iter s : f_raised s = false -> fqf_running max_iter s = fq_running max_iter (absS s).
Proof. intros H. unfold fqf_running, fq_running, absS. cbn [q_broke q_stalled q_n]. rewrite H. cbn. rewrite andb_true_r. reflexivity. Qed.

Lemma init_refines e0 : fin e0 -> 0 < FR e0 < 1 -> goodS (fqf_init e0) /\ absS (fqf_init e0) = fq_init (FR e0).
Proof. intros Fe He. destruct FR_one as [E1 F1]. destruct FR_zero as [E0 F0].
  assert (A : absS (fqf_init e0) = fq_init (FR e0)).
  { unfold absS, fqf_init, fq_init, Gen_fq_init_min_f, Gen_fq_init_max_f, Gen_fq_init_min, Gen_fq_init_max.
    cbn [f_min f_max f_e f_n f_broke f_stalled f_refits]. rewrite E0, E1. reflexivity. }
  split; [|exact A]. split.
  - unfold okS, fqf_init, Gen_fq_init_min_f, Gen_fq_init_max_f. cbn [f_min f_max f_e f_raised f_trace forallb f_stalled]. repeat split; try assumption. discriminate.
  - rewrite A. destruct C64 as (C1 & C2 & C3 & C4 & C5 & C6). apply fq_init_inv; try assumption. apply FR_fmt. Qed.

Lemma invf_step quantile tol r max_iter s : fq_invf fmt64 s -> fq_running max_iter s = true ->
  fq_invf fmt64 (fq_body rnd64 quantile tol r s).
Proof. destruct C64 as (C1 & C2 & C3 & C4 & C5 & C6). intros. eapply fq_body_inv; eassumption. Qed.

(* one pass of the PrimFloat body is one pass of the rounded-real body on the abstracted state; nothing is ever rejected *)
Lemma body_refines quantile tol r max_iter s :
  fin quantile -> fin tol -> fin r -> 0 <= FR r <= 1 -> 0 <= FR quantile <= 1 ->
  goodS s -> fqf_running max_iter s = true ->
  goodS (fqf_body quantile tol r s) /\
  absS (fqf_body quantile tol r s) = fq_body rnd64 (FR quantile) (FR tol) (FR r) (absS s).
Proof. intros Fq Ft Fr Hr Hq [(Fn & Fx & Fe & Hraise & Htr & _) Hinv] Hrun.
  rewrite (running_refines _ _ Hraise) in Hrun.
  assert (Hinv' := invf_step (FR quantile) (FR tol) (FR r) max_iter (absS s) Hinv Hrun).
  destruct (running_flags _ _ Hrun) as (_ & Hst & _).
  destruct Hinv as [(H0 & H1 & He & Hin) _]. destruct (Hin Hst) as [Hlo Hhi]. cbn [absS q_min q_max q_e] in H0, H1, He, Hlo, Hhi.
  assert (A : absS (fqf_body quantile tol r s) = fq_body rnd64 (FR quantile) (FR tol) (FR r) (absS s) /\ okS (fqf_body quantile tol r s)).
  { unfold fqf_body, fq_body. rewrite (within_refines r quantile tol Fr Fq Ft Hr Hq).
    destruct (Gen_fq_within_tol rnd64 (FR r) (FR quantile) (FR tol)).
    { split; [reflexivity|]. unfold okS. cbn [f_min f_max f_e f_raised f_trace f_stalled fst snd]. repeat split; try assumption. discriminate. }
    unfold Gen_fq_bracket_f, Gen_fq_bracket. rewrite (branch_refines r quantile Fr Fq). cbn [absS q_min q_max q_e].
    destruct (Gen_fq_branch_test (FR r) (FR quantile)); cbn [fst snd].
    - destruct (midpoint_refines (f_e s) (f_max s) Fe Fx ltac:(lra) ltac:(lra) ltac:(lra)) as [Em Fm].
      rewrite (stall_refines _ _ _ Fm Fe Fx), Em.
      destruct (Gen_fq_stall (Gen_fq_new_expectile rnd64 (FR (f_e s)) (FR (f_max s))) (FR (f_e s)) (FR (f_max s))) eqn:St.
      + split; [reflexivity|]. unfold okS. cbn [f_min f_max f_e f_raised f_trace f_stalled fst snd]. repeat split; try assumption.
        intros _. rewrite (stall_refines _ _ _ Fm Fe Fx), Em. exact St.
      + apply stall_false in St. destruct C64 as (C1 & C2 & C3 & C4 & C5 & C6).
        destruct (midpoint_in_bracket rnd64 fmt64 C1 C2 C4 (FR (f_e s)) (FR (f_max s)) (FR_fmt _) (FR_fmt _) ltac:(lra)) as [L U].
        assert (In : Gen_expectile_out_of_range (FR (Gen_fq_new_expectile_f (f_e s) (f_max s))) = false).
        { rewrite Em. unfold Gen_expectile_out_of_range. apply orb_false_iff; split; apply Rleb_false; lra. }
        rewrite (range_refines _ Fm), In. split; [unfold absS; cbn [f_min f_max f_e f_n f_broke f_stalled f_refits fst snd q_n q_refits]; rewrite Em; reflexivity|].
        unfold okS. cbn [f_min f_max f_e f_raised f_trace f_stalled forallb]. repeat split; try assumption; try discriminate.
        rewrite Htr, andb_true_r, (inside_refines _ Fm), Em.
        rewrite (proj2 (Rltb_true _ _)), (proj2 (Rltb_true _ _)) by lra. reflexivity.
    - destruct (midpoint_refines (f_min s) (f_e s) Fn Fe ltac:(lra) ltac:(lra) ltac:(lra)) as [Em Fm].
      rewrite (stall_refines _ _ _ Fm Fn Fe), Em.
      destruct (Gen_fq_stall (Gen_fq_new_expectile rnd64 (FR (f_min s)) (FR (f_e s))) (FR (f_min s)) (FR (f_e s))) eqn:St.
      + split; [reflexivity|]. unfold okS. cbn [f_min f_max f_e f_raised f_trace f_stalled fst snd]. repeat split; try assumption.
        intros _. rewrite (stall_refines _ _ _ Fm Fn Fe), Em. exact St.
      + apply stall_false in St. destruct C64 as (C1 & C2 & C3 & C4 & C5 & C6).
        destruct (midpoint_in_bracket rnd64 fmt64 C1 C2 C4 (FR (f_min s)) (FR (f_e s)) (FR_fmt _) (FR_fmt _) ltac:(lra)) as [L U].
        assert (In : Gen_expectile_out_of_range (FR (Gen_fq_new_expectile_f (f_min s) (f_e s))) = false).
        { rewrite Em. unfold Gen_expectile_out_of_range. apply orb_false_iff; split; apply Rleb_false; lra. }
        rewrite (range_refines _ Fm), In. split; [unfold absS; cbn [f_min f_max f_e f_n f_broke f_stalled f_refits fst snd q_n q_refits]; rewrite Em; reflexivity|].
        unfold okS. cbn [f_min f_max f_e f_raised f_trace f_stalled forallb]. repeat split; try assumption; try discriminate.
        rewrite Htr, andb_true_r, (inside_refines _ Fm), Em.
        rewrite (proj2 (Rltb_true _ _)), (proj2 (Rltb_true _ _)) by lra. reflexivity. }
  destruct A as [A1 A2]. split; [split; [exact A2|rewrite A1; exact Hinv']|exact A1]. Qed.

(* ---------- the whole loop ---------- *)
Section Loop.
Variables (quantile tol : pfloat) (max_iter : Z) (ratio : nat -> pfloat).
Hypothesis ratio_ok : forall k, fin (ratio k) /\ 0 <= FR (ratio k) <= 1.
Hypothesis q_fin : fin quantile.   Hypothesis q_rng : 0 <= FR quantile <= 1.
Hypothesis tol_fin : fin tol.
Let ratioR := fun k => FR (ratio k).

Lemma loop_refines : forall fuel s, goodS s ->
  goodS (fqf_loop fuel quantile tol max_iter ratio s) /\
  absS (fqf_loop fuel quantile tol max_iter ratio s) = fq_loop rnd64 fuel (FR quantile) (FR tol) max_iter ratioR (absS s).
Proof. induction fuel as [|f IH]; intros s Hs; cbn [fqf_loop fq_loop]; [split; [exact Hs|reflexivity]|].
  assert (Hr : f_raised s = false) by (destruct Hs as [(_ & _ & _ & H & _ & _) _]; exact H).
  rewrite <- (running_refines max_iter s Hr).
  destruct (fqf_running max_iter s) eqn:E; [|split; [exact Hs|reflexivity]].
  destruct (ratio_ok (f_refits s)) as [Fr Rr].
  destruct (body_refines quantile tol (ratio (f_refits s)) max_iter s q_fin tol_fin Fr Rr q_rng Hs E) as [G A].
  destruct (IH _ G) as [G' A']. split; [exact G'|]. rewrite A', A. reflexivity. Qed.

Theorem primfloat_bisect e0 : fin e0 -> 0 < FR e0 < 1 ->
  (* at every point of every run: no ValueError, the expectile and every value ever stored are strictly inside (0,1)
     (as binary64 comparisons), and the state is, as reals, the state of the rounded-real machine *)
  (forall fuel, let s := fqf_loop fuel quantile tol max_iter ratio (fqf_init e0) in
     f_raised s = false /\ f_inside (f_e s) = true /\ forallb f_inside (f_trace s) = true /\
     (f_stalled s = false -> PrimFloat.ltb (f_min s) (f_e s) = true /\ PrimFloat.ltb (f_e s) (f_max s) = true) /\
     absS s = fq_loop rnd64 fuel (FR quantile) (FR tol) max_iter ratioR (fq_init (FR e0))) /\
  (* exit: within tol, or the bracket cannot be halved any further, or exactly max_iter refits *)
  (let s := fqf_loop (Z.to_nat max_iter) quantile tol max_iter ratio (fqf_init e0) in
   fqf_running max_iter s = false /\ (f_refits s <= Z.to_nat max_iter)%nat /\ f_n s = Z.of_nat (f_refits s) /\
   (forall j, (j < f_refits s)%nat -> Gen_fq_within_tol_f (ratio j) quantile tol = false) /\
   ((f_broke s = true /\ f_stalled s = false /\ Gen_fq_within_tol_f (ratio (f_refits s)) quantile tol = true) \/
    (f_broke s = false /\ f_stalled s = true /\ Gen_fq_within_tol_f (ratio (f_refits s)) quantile tol = false /\
       Gen_fq_stall_f (Gen_fq_new_expectile_f (f_min s) (f_max s)) (f_min s) (f_max s) = true) \/
    (f_broke s = false /\ f_stalled s = false /\ f_refits s = Z.to_nat max_iter))).
Proof. intros Fe He. destruct (init_refines e0 Fe He) as [G0 A0].
  assert (W : forall k, Gen_fq_within_tol_f (ratio k) quantile tol = Gen_fq_within_tol rnd64 (ratioR k) (FR quantile) (FR tol)).
  { intros k. destruct (ratio_ok k) as [Fr Rr]. apply within_refines; assumption. }
  split.
  - intros fuel s. destruct (loop_refines fuel _ G0) as [[(Fn & Fx & Fe' & Hr & Ht & Hsf) Hi] A]. fold s in Fn, Fx, Fe', Hr, Ht, Hsf, Hi, A.
    rewrite A0 in A. destruct Hi as [(H0 & H1 & He' & Hin) _]. cbn [absS q_min q_max q_e q_stalled] in H0, H1, He', Hin.
    repeat split; try assumption.
    + rewrite (inside_refines _ Fe'). rewrite (proj2 (Rltb_true _ _)), (proj2 (Rltb_true _ _)) by lra. reflexivity.
    + rewrite (f_ltb _ _ Fn Fe'). apply Rltb_true. apply (Hin H).
    + rewrite (f_ltb _ _ Fe' Fx). apply Rltb_true. apply (Hin H).
  - intros s. destruct (loop_refines (Z.to_nat max_iter) _ G0) as [[(Fn & Fx & Fe' & Hr & Ht & Hsf) Hi] A]. fold s in Fn, Fx, Fe', Hr, Ht, Hsf, Hi, A.
    rewrite A0 in A.
    pose proof (fq_exit rnd64 (FR quantile) (FR tol) max_iter ratioR (FR e0)) as X. cbv zeta in X. rewrite <- A in X.
    destruct X as (X1 & X2 & X3 & X4 & X5). cbn [absS q_refits q_n q_broke q_stalled q_min q_max] in X2, X3, X4, X5.
    rewrite <- (running_refines max_iter s Hr) in X1.
    repeat split; try assumption.
    + intros j Hj. rewrite W. apply X4. exact Hj.
    + destruct X5 as [(B1 & B2 & B3)|[(B1 & B2 & B3 & B4)|(B1 & B2 & B3)]].
      * left. rewrite W. repeat split; assumption.
      * right. left. rewrite W. repeat split; try assumption. apply Hsf. exact B2.
      * right. right. repeat split; assumption. Qed.
End Loop.

(* the statement asked for, in one piece: value, finiteness, and "an end of the bracket or strictly inside it" *)
Theorem midpoint_refines_full mn mx : fin mn -> fin mx -> 0 <= FR mn -> FR mn <= FR mx -> FR mx <= 1 ->
  FR (Gen_fq_new_expectile_f mn mx) = rnd64 (rnd64 (FR mx + FR mn) / 2) /\ fin (Gen_fq_new_expectile_f mn mx) /\
  let e' := FR (Gen_fq_new_expectile_f mn mx) in (e' = FR mn \/ e' = FR mx) \/ (FR mn < e' < FR mx).
Proof. intros Fn Fx H0 H1 H2. destruct (midpoint_refines mn mx Fn Fx H0 H1 H2) as [E F]. split; [exact E|split; [exact F|]].
  cbv zeta. rewrite E. destruct C64 as (C1 & C2 & C3 & C4 & C5 & C6).
  apply (midpoint_trichotomy rnd64 fmt64 C1 C2 C4 (FR mn) (FR mx) (FR_fmt _) (FR_fmt _) H1). Qed.
