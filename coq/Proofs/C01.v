(* Proofs/C01.v -- the PIRLS step: score equation at a fixed point, closed form for normal/identity,
   ties between the hand-written parametric step model (Model/Pirls.v) and the generated formulas. Real instance. *)
From Coq Require Import List Reals Lra Lia Arith Bool.
From PG Require Import Base.Ops Base.Vec Model.Pirls Proofs.VecR Gen.Links Gen.Dists Gen.Stats.
Import ListNotations.
Open Scope R_scope.

Notation vmulR := (vmul Rfops). Notation Bt_mulR := (Bt_mul Rfops).
Notation neq_lhsR := (neq_lhs Rfops). Notation neq_rhsR := (neq_rhs Rfops).

(* ---------- ties to the generated definitions ---------- *)
Lemma gprime_identity L mu : gprime Rfops LIdentity L mu = Gen_IdentityLink_gradient L mu. Proof. reflexivity. Qed.
Lemma gprime_log L mu : mu <> 0 -> gprime Rfops LLog L mu = Gen_LogLink_gradient L mu.
Proof. intros. cbn. rewrite Rdivt_ok by assumption. reflexivity. Qed.
Lemma gprime_logit L mu : mu * (L - mu) <> 0 -> gprime Rfops LLogit L mu = Gen_LogitLink_gradient L mu.
Proof. intros. cbn. rewrite Rdivt_ok by assumption. reflexivity. Qed.
Lemma gprime_inverse L mu : mu <> 0 -> gprime Rfops LInverse L mu = Gen_InverseLink_gradient L mu.
Proof. intros. cbn. unfold Gen_InverseLink_gradient. rewrite Rdivt_ok by (apply Rmult_integral_contrapositive_currified; assumption).
  field. assumption. Qed.
Lemma gprime_invsq L mu : mu <> 0 -> gprime Rfops LInvSq L mu = Gen_InvSquaredLink_gradient L mu.
Proof. intros. cbn. unfold Gen_InvSquaredLink_gradient.
  rewrite Rdivt_ok by (repeat apply Rmult_integral_contrapositive_currified; assumption). field. assumption. Qed.
Lemma V0_normal L mu : V0 Rfops DNormal L mu = Gen_NormalDist_V0 L mu. Proof. reflexivity. Qed.
Lemma V0_binomial L mu : L <> 0 -> V0 Rfops DBinomial L mu = Gen_BinomialDist_V0 L mu.
Proof. intros. cbn. rewrite Rdivt_ok by assumption. reflexivity. Qed.
Lemma V0_poisson L mu : V0 Rfops DPoisson L mu = Gen_PoissonDist_V0 L mu. Proof. reflexivity. Qed.
Lemma V0_gamma L mu : V0 Rfops DGamma L mu = Gen_GammaDist_V0 L mu. Proof. reflexivity. Qed.
Lemma V0_invgauss L mu : V0 Rfops DInvGauss L mu = Gen_InvGaussDist_V0 L mu. Proof. reflexivity. Qed.
(* the code's W (not squared) and the model's W^2 *)
Lemma Gen_W_sq gp V w : 0 < gp * gp * V -> 0 < w -> Gen_W gp V w * Gen_W gp V w = w / (gp * gp * V).
Proof. intros H Hw. unfold Gen_W.
  assert (P : 0 < gp * gp * V * / w) by (apply Rmult_lt_0_compat; [assumption|apply Rinv_0_lt_compat; assumption]).
  rewrite <- Rinv_mult, sqrt_sqrt by (apply Rlt_le; exact P).
  assert (gp <> 0) by (intro E; rewrite E, !Rmult_0_l in H; lra).
  assert (V <> 0) by (intro E; rewrite E, Rmult_0_r in H; lra).
  assert (w <> 0) by lra. field. repeat split; assumption. Qed.
Lemma w2_is_Gen_W_sq l d L w y mu : 0 < gprime Rfops l L mu * gprime Rfops l L mu * V0 Rfops d L mu -> 0 < w ->
  w2 Rfops l d None L w y mu = Gen_W (gprime Rfops l L mu) (V0 Rfops d L mu) w * Gen_W (gprime Rfops l L mu) (V0 Rfops d L mu) w.
Proof. intros H Hw. rewrite Gen_W_sq by assumption. unfold w2. cbn [asym fr Rfops rmul Rrops r1 fdiv].
  rewrite Rdivt_ok by lra. ring. Qed.
Lemma zpd_is_Gen l L lp y mu : zpd Rfops l L lp y mu = Gen_pseudo_data (gprime Rfops l L mu) lp y mu.
Proof. reflexivity. Qed.
Lemma asym_is_Gen tau y mu : 0 <= tau <= 1 ->
  asym Rfops (Some tau) y mu = (b2r (Rltb mu y) * tau + b2r (Rleb y mu) * (1 - tau)).
Proof. intros. cbn [asym fr Rfops rltb Rrops]. unfold Rltb, Rleb, b2r.
  destruct (Rlt_dec mu y); destruct (Rle_dec y mu); cbn; try lra. Qed.

(* ---------- vector algebra ---------- *)
Lemma vmul_length u : forall v, length (vmulR u v) = Nat.min (length u) (length v).
Proof. induction u as [|a u IH]; intros [|b v]; cbn; auto. Qed.
Lemma vmul_vadd_r w : forall a b, vmulR w (vaddR a b) = vaddR (vmulR w a) (vmulR w b).
Proof. induction w as [|x w IH]; intros [|a1 a] [|b1 b]; cbn; try reflexivity.
  rewrite IH. f_equal. lra. Qed.
Lemma vscale_plus x y r : vscaleR (x + y) r = vaddR (vscaleR x r) (vscaleR y r).
Proof. induction r as [|c r IH]; [reflexivity|]. unfold vscale in *. cbn [map vadd]. rewrite IH. f_equal. cbn. lra. Qed.
Lemma vadd_swap4 a : forall b c d, vaddR (vaddR a b) (vaddR c d) = vaddR (vaddR a c) (vaddR b d).
Proof. induction a as [|a1 a IH]; intros [|b1 b] [|c1 c] [|d1 d]; cbn [vadd]; try reflexivity.
  rewrite IH. f_equal. cbn. lra. Qed.
Lemma lincomb_vadd p : forall a b rows, length a = length b ->
  Forall (fun r => length r = p) rows ->
  lincombR p (vaddR a b) rows = vaddR (lincombR p a rows) (lincombR p b rows).
Proof. induction a as [|x a IH]; intros [|y b] rows HL HF; cbn in HL; try discriminate.
  - cbn. symmetry. apply vadd_zeros_l. apply zeros_length.
  - destruct rows as [|r rows]; [cbn; symmetry; apply vadd_zeros_l; apply zeros_length|].
    inversion HF as [|? ? Hr HF']; subst. cbn [vadd lincomb].
    rewrite IH by (try lia; assumption).
    change (radd Rrops x y) with (x + y). fold (vscaleR (x + y) r) (vscaleR x r) (vscaleR y r).
    rewrite vscale_plus. apply vadd_swap4. Qed.
Lemma vadd_cancel_l a : forall x y, length x = length a -> length y = length a -> vaddR a x = vaddR a y -> x = y.
Proof. induction a as [|a1 a IH]; intros [|x1 x] [|y1 y] Lx Ly H; cbn in *; try discriminate; [reflexivity|].
  inversion H. f_equal; [lra|]. apply IH; try lia. assumption. Qed.
Lemma matvec_lengthR A v : length (matvecR A v) = length A. Proof. apply map_length. Qed.

(* ---------- the score equation at a fixed point of the step ---------- *)
(* z = lp + rr with lp = B b the entering linear predictor: then  B'(W2 o rr) = Ptot b *)
Theorem step_fixed_point m B W2 Ptot rr b :
  Forall (fun r => length r = m) B -> length W2 = length B -> length rr = length B ->
  length Ptot = m ->
  is_step Rfops m B W2 Ptot (vaddR (matvecR B b) rr) b ->
  Bt_mulR m B (vmulR W2 rr) = matvecR Ptot b.
Proof.
  intros HB LW Lr LP H. unfold is_step, neq_lhs, neq_rhs in H.
  change (fr Rfops) with Rrops in H.
  rewrite vmul_vadd_r in H. unfold Bt_mul in *. change (fr Rfops) with Rrops in *.
  rewrite lincomb_vadd in H; [| rewrite !vmul_length, matvec_lengthR; lia | assumption].
  apply vadd_cancel_l in H; [symmetry; exact H | |].
  - rewrite matvec_lengthR, lincomb_length by assumption. exact LP.
  - rewrite !lincomb_length by assumption. reflexivity.
Qed.

(* per-observation: W^2 (y - mu) g' = asym w (y - mu) / (V g') *)
Lemma w2_times_resid l d tau L w y mu :
  gprime Rfops l L mu <> 0 -> V0 Rfops d L mu <> 0 ->
  w2 Rfops l d tau L w y mu * ((y - mu) * gprime Rfops l L mu)
  = asym Rfops tau y mu * w * (y - mu) / (V0 Rfops d L mu * gprime Rfops l L mu).
Proof. intros Hg HV. unfold w2. cbn [fr Rfops rmul Rrops fdiv].
  set (g := gprime Rfops l L mu) in *. set (V := V0 Rfops d L mu) in *. set (a := asym Rfops tau y mu).
  rewrite Rdivt_ok by (repeat apply Rmult_integral_contrapositive_currified; assumption). field. split; assumption. Qed.

(* observations as (w, y, mu) triples *)
Definition obs_w2 l d tau L (ob : list (R * R * R)) : list R := map (fun t => w2 Rfops l d tau L (fst (fst t)) (snd (fst t)) (snd t)) ob.
Definition obs_rr l L (ob : list (R * R * R)) : list R := map (fun t => (snd (fst t) - snd t) * gprime Rfops l L (snd t)) ob.
Definition obs_score l d tau L (ob : list (R * R * R)) : list R :=
  map (fun t => asym Rfops tau (snd (fst t)) (snd t) * fst (fst t) * (snd (fst t) - snd t) / (V0 Rfops d L (snd t) * gprime Rfops l L (snd t))) ob.
Lemma vmul_w2_rr l d tau L ob :
  Forall (fun t => gprime Rfops l L (snd t) <> 0 /\ V0 Rfops d L (snd t) <> 0) ob ->
  vmulR (obs_w2 l d tau L ob) (obs_rr l L ob) = obs_score l d tau L ob.
Proof. induction 1 as [|t ob [Hg HV] _ IH]; [reflexivity|]. cbn [obs_w2 obs_rr obs_score map vmul].
  fold (obs_w2 l d tau L ob) (obs_rr l L ob) (obs_score l d tau L ob). rewrite IH. f_equal.
  apply w2_times_resid; assumption. Qed.

Theorem score_equation l d tau L m B Ptot ob b :
  Forall (fun r => length r = m) B -> length ob = length B -> length Ptot = m ->
  Forall (fun t => gprime Rfops l L (snd t) <> 0 /\ V0 Rfops d L (snd t) <> 0) ob ->
  is_step Rfops m B (obs_w2 l d tau L ob) Ptot (vaddR (matvecR B b) (obs_rr l L ob)) b ->
  Bt_mulR m B (obs_score l d tau L ob) = matvecR Ptot b.
Proof. intros HB Lo LP Hnz H. rewrite <- (vmul_w2_rr l d tau L ob Hnz).
  apply step_fixed_point; try assumption; unfold obs_w2, obs_rr; rewrite map_length; assumption. Qed.

(* ---------- normal / identity: the step does not depend on the entering coefficients ---------- *)
Theorem normal_identity_closed_form m B Ptot (ob : list (R * R * R)) b :
  (* identity link: the mean equals the linear predictor, so z = lp + (y - mu) = y *)
  let ws := map (fun t => fst (fst t)) ob in let ys := map (fun t => snd (fst t)) ob in
  Forall (fun t => fst (fst t) <> 0 \/ True) ob ->
  neq_lhsR m B (obs_w2 LIdentity DNormal None 1 ob) Ptot b = neq_lhsR m B ws Ptot b /\
  map (fun t => zpd Rfops LIdentity 1 (snd t) (snd (fst t)) (snd t)) ob = ys.
Proof. intros ws ys _. split.
  - f_equal. unfold obs_w2, ws. apply map_ext. intros t. unfold w2. cbn. rewrite Rdivt_ok by lra. field.
  - unfold ys. apply map_ext. intros t. cbn. ring. Qed.
