(* Proofs/C06.v -- families: variance function, deviance, log-density, sampler.  About GENERATED definitions Gen/Dists.v *)
From Coq Require Import Reals Lra Lia List.
From Coquelicot Require Import Coquelicot.
From PG Require Import Base.Ops Gen.Dists.
Open Scope R_scope.

Lemma ln_le_sub x : 0 < x -> ln x <= x - 1.
Proof. intros Hx. destruct (Req_dec (ln x) 0) as [e|ne].
  - assert (x = 1) by (apply ln_inv; [lra|lra|rewrite ln_1; exact e]). subst. rewrite ln_1. lra.
  - pose proof (exp_ineq1 (ln x) ne) as H0. rewrite exp_ln in H0 by lra. lra. Qed.
Lemma ln_lt_sub x : 0 < x -> x <> 1 -> ln x < x - 1.
Proof. intros Hx Hn. assert (ne : ln x <> 0) by (intro e; apply Hn; apply ln_inv; [lra|lra|rewrite ln_1; exact e]).
  pose proof (exp_ineq1 (ln x) ne) as H0. rewrite exp_ln in H0 by lra. lra. Qed.
Lemma div_pos a b : 0 < a -> 0 < b -> 0 < a / b. Proof. intros; apply Rdiv_lt_0_compat; assumption. Qed.
(* y ln(y/u) >= y - u, with equality iff y = u   (y > 0, u > 0) *)
Lemma ylogy_ge y u : 0 < y -> 0 < u -> y - u <= y * ln (y / u).
Proof. intros Hy Hu. assert (H : ln (u / y) <= u / y - 1) by (apply ln_le_sub, div_pos; lra).
  replace (ln (y / u)) with (- ln (u / y)) by (rewrite <- ln_Rinv by (apply div_pos; lra); f_equal; field; lra).
  assert (y * ln (u / y) <= y * (u / y - 1)) by (apply Rmult_le_compat_l; lra).
  replace (y * (u / y - 1)) with (u - y) in * by (field; lra). lra. Qed.
Lemma ylogy_gt y u : 0 < y -> 0 < u -> y <> u -> y - u < y * ln (y / u).
Proof. intros Hy Hu Hne. assert (H : ln (u / y) < u / y - 1).
  { apply ln_lt_sub; [apply div_pos; lra|]. intro E. apply Hne. apply (f_equal (fun t => t * y)) in E. field_simplify in E; lra. }
  replace (ln (y / u)) with (- ln (u / y)) by (rewrite <- ln_Rinv by (apply div_pos; lra); f_equal; field; lra).
  assert (y * ln (u / y) < y * (u / y - 1)) by (apply Rmult_lt_compat_l; lra).
  replace (y * (u / y - 1)) with (u - y) in * by (field; lra). lra. Qed.
Lemma ylogydu_ge y u : 0 <= y -> 0 < u -> y - u <= Gen_ylogydu y u.
Proof. intros Hy Hu. unfold Gen_ylogydu. destruct (Req_EM_T y 0); [lra|]. apply ylogy_ge; lra. Qed.
Lemma ylogydu_eq y u : 0 <= y -> 0 < u -> Gen_ylogydu y u = y - u -> y = u.
Proof. intros Hy Hu. unfold Gen_ylogydu. destruct (Req_EM_T y 0) as [e|ne]; intros E; [exfalso; lra|].
  destruct (Req_dec y u) as [|Hne]; [assumption|]. pose proof (ylogy_gt y u ltac:(lra) Hu Hne). lra. Qed.
Lemma ylogydu_self y : 0 <= y -> Gen_ylogydu y y = 0.
Proof. intros. unfold Gen_ylogydu. destruct (Req_EM_T y 0); [reflexivity|]. replace (y / y) with 1 by (field; assumption). rewrite ln_1. ring. Qed.


Lemma sq_nonneg a : 0 <= a * a. Proof. exact (Rle_0_sqr a). Qed.
Lemma sq_zero a : a * a = 0 -> a = 0. Proof. intros H. destruct (Rmult_integral _ _ H); assumption. Qed.
Lemma sq_div_nonneg a b : 0 < b -> 0 <= a * a / b.
Proof. intros. unfold Rdiv. apply Rmult_le_pos; [apply sq_nonneg|left; apply Rinv_0_lt_compat; lra]. Qed.
Lemma sq_div_zero a b : 0 < b -> a * a / b = 0 -> a = 0.
Proof. intros Hb E. apply (f_equal (fun t => t * b)) in E. unfold Rdiv in E. rewrite Rmult_assoc, Rinv_l, Rmult_1_r, Rmult_0_l in E by lra. apply sq_zero; assumption. Qed.

(* =============== Normal (y, mu any reals) =============== *)
Lemma normal_dev_nonneg sc y mu : 0 < sc -> 0 <= Gen_NormalDist_deviance0 false sc 1 y mu /\ 0 <= Gen_NormalDist_deviance0 true sc 1 y mu.
Proof. intros. unfold Gen_NormalDist_deviance0. cbv zeta iota. split; [apply sq_nonneg|apply sq_div_nonneg; assumption]. Qed.
Lemma normal_dev_zero_iff sc y mu : 0 < sc -> (Gen_NormalDist_deviance0 false sc 1 y mu = 0 <-> y = mu).
Proof. intros. unfold Gen_NormalDist_deviance0. cbv zeta iota. split; intros E; [apply sq_zero in E; lra|subst; ring]. Qed.
Lemma normal_dev_derive sc y mu : is_derive (fun m => Gen_NormalDist_deviance0 false sc 1 y m) mu (-2 * (y - mu) / Gen_NormalDist_V0 1 mu).
Proof. unfold Gen_NormalDist_deviance0, Gen_NormalDist_V0. cbv zeta iota. auto_derive; [trivial|field]. Qed.
Lemma normal_loglik_gap sc y mu : 0 < sc ->
  Gen_NormalDist_deviance0 false sc 1 y mu = 2 * sc * (Gen_NormalDist_log_pdf sc 1 1 y y - Gen_NormalDist_log_pdf sc 1 1 y mu).
Proof. intros Hsc. unfold Gen_NormalDist_deviance0, Gen_NormalDist_log_pdf, Spec_norm_logpdf. cbv zeta iota.
  replace (sc / 1) with sc by field.
  assert (Hs : sqrt sc * sqrt sc = sc) by (apply sqrt_sqrt; lra). rewrite Hs. field. lra. Qed.
Lemma normal_sample sc mu : 0 < sc ->
  Gen_NormalDist_sample_mean sc 1 mu = mu /\ Gen_NormalDist_sample_var sc 1 mu = sc * Gen_NormalDist_V0 1 mu.
Proof. intros Hsc. unfold Gen_NormalDist_sample_mean, Gen_NormalDist_sample_var, Gen_NormalDist_sample_args,
    Spec_normal_mean, Spec_normal_var, Gen_NormalDist_V0, Reqb. cbv zeta.
  destruct (Req_EM_T sc 0); [lra|]. cbn [negb fst snd]. split; [reflexivity|]. rewrite sqrt_sqrt by lra. ring. Qed.

(* =============== Binomial: levels L > 0, 0 <= y <= L, 0 < mu < L, scale = 1 =============== *)
Lemma binom_dev_nonneg L y mu : 0 <= y <= L -> 0 < mu < L -> 0 <= Gen_BinomialDist_deviance0 false 1 L y mu.
Proof. intros [Y0 Y1] [M0 M1]. unfold Gen_BinomialDist_deviance0. cbv zeta iota.
  pose proof (ylogydu_ge y mu Y0 M0). pose proof (ylogydu_ge (L - y) (L - mu) ltac:(lra) ltac:(lra)). lra. Qed.
Lemma binom_dev_zero_iff L y mu : 0 <= y <= L -> 0 < mu < L -> (Gen_BinomialDist_deviance0 false 1 L y mu = 0 <-> y = mu).
Proof. intros [Y0 Y1] [M0 M1]. unfold Gen_BinomialDist_deviance0. cbv zeta iota. split.
  - intros E. pose proof (ylogydu_ge y mu Y0 M0) as A. pose proof (ylogydu_ge (L - y) (L - mu) ltac:(lra) ltac:(lra)) as B.
    apply (ylogydu_eq y mu Y0 M0). lra.
  - intros ->. rewrite !ylogydu_self by lra. ring. Qed.
Lemma binom_dev_derive L y mu : 0 <= y <= L -> 0 < mu < L ->
  is_derive (fun m => Gen_BinomialDist_deviance0 false 1 L y m) mu (-2 * (y - mu) / Gen_BinomialDist_V0 L mu).
Proof. intros [Y0 Y1] [M0 M1]. unfold Gen_BinomialDist_deviance0, Gen_BinomialDist_V0, Gen_ylogydu. cbv zeta iota.
  destruct (Req_EM_T y 0) as [e0|n0]; destruct (Req_EM_T (L - y) 0) as [eL|nL].
  - exfalso; lra.
  - subst y. auto_derive; [repeat split; try lra; apply div_pos; lra | field; lra].
  - assert (y = L) by lra. subst y. auto_derive; [repeat split; try lra; apply div_pos; lra | field; lra].
  - auto_derive; [repeat split; try lra; apply div_pos; lra | field; lra].
Qed.
Lemma xlny_div a b c : 0 <= a -> 0 < b -> 0 < c -> xlny a (b / c) = xlny a b - xlny a c.
Proof. intros. unfold xlny. destruct (Req_EM_T a 0); [ring|]. rewrite ln_div by lra. ring. Qed.
Lemma binom_loglik_gap L y mu : 0 <= y <= L -> 0 < mu < L ->
  Gen_BinomialDist_deviance0 false 1 L y mu = 2 * 1 * (Gen_BinomialDist_log_pdf 1 L 1 y y - Gen_BinomialDist_log_pdf 1 L 1 y mu).
Proof. intros [Y0 Y1] [M0 M1]. unfold Gen_BinomialDist_deviance0, Gen_BinomialDist_log_pdf, Spec_binom_logpmf_kernel, Gen_ylogydu, xlny.
  cbv zeta iota. assert (HL : 0 < L) by lra.
  destruct (Req_EM_T y 0) as [e0|n0]; destruct (Req_EM_T (L - y) 0) as [eL|nL]; try (exfalso; lra).
  - subst y. replace (1 - 0 / L) with 1 by (field; lra). rewrite ln_1.
    replace (1 - mu / L) with ((L - mu) / L) by (field; lra). replace ((L - 0) / (L - mu)) with (/ ((L - mu) / L)) by (field; lra).
    rewrite ln_Rinv by (apply div_pos; lra). ring.
  - assert (y = L) by lra. subst y. replace (L / L) with 1 by (field; lra). rewrite ln_1.
    replace (L / mu) with (/ (mu / L)) by (field; lra). rewrite ln_Rinv by (apply div_pos; lra). ring.
  - assert (0 < y) by lra. assert (0 < L - y) by lra.
    replace (1 - y / L) with ((L - y) / L) by (field; lra). replace (1 - mu / L) with ((L - mu) / L) by (field; lra).
    rewrite !ln_div by lra. ring.
Qed.
Lemma binom_sample L mu : 0 < L ->
  Gen_BinomialDist_sample_mean 1 L mu = mu /\ Gen_BinomialDist_sample_var 1 L mu = 1 * Gen_BinomialDist_V0 L mu.
Proof. intros. unfold Gen_BinomialDist_sample_mean, Gen_BinomialDist_sample_var, Gen_BinomialDist_sample_args,
    Spec_binomial_mean, Spec_binomial_var, Gen_BinomialDist_V0. cbv zeta. cbn [fst snd]. split; field; lra. Qed.

(* =============== Poisson: y >= 0, mu > 0, scale = 1 =============== *)
Lemma pois_dev_nonneg y mu : 0 <= y -> 0 < mu -> 0 <= Gen_PoissonDist_deviance0 false 1 1 y mu.
Proof. intros Y M. unfold Gen_PoissonDist_deviance0. cbv zeta iota. pose proof (ylogydu_ge y mu Y M). lra. Qed.
Lemma pois_dev_zero_iff y mu : 0 <= y -> 0 < mu -> (Gen_PoissonDist_deviance0 false 1 1 y mu = 0 <-> y = mu).
Proof. intros Y M. unfold Gen_PoissonDist_deviance0. cbv zeta iota. split.
  - intros E. apply (ylogydu_eq y mu Y M). lra.
  - intros ->. rewrite ylogydu_self by lra. ring. Qed.
Lemma pois_dev_derive y mu : 0 <= y -> 0 < mu ->
  is_derive (fun m => Gen_PoissonDist_deviance0 false 1 1 y m) mu (-2 * (y - mu) / Gen_PoissonDist_V0 1 mu).
Proof. intros Y M. unfold Gen_PoissonDist_deviance0, Gen_PoissonDist_V0, Gen_ylogydu. cbv zeta iota.
  destruct (Req_EM_T y 0) as [e0|n0].
  - subst y. auto_derive; [trivial | field; lra].
  - auto_derive; [repeat split; try lra; apply div_pos; lra | field; lra]. Qed.
Lemma pois_loglik_gap y mu : 0 <= y -> 0 < mu ->
  Gen_PoissonDist_deviance0 false 1 1 y mu = 2 * 1 * (Gen_PoissonDist_log_pdf 1 1 1 y y - Gen_PoissonDist_log_pdf 1 1 1 y mu).
Proof. intros Y M. unfold Gen_PoissonDist_deviance0, Gen_PoissonDist_log_pdf, Spec_poisson_logpmf_kernel, Gen_ylogydu, xlny. cbv zeta iota.
  destruct (Req_EM_T y 0) as [e0|n0]; [subst; ring|]. rewrite !Rmult_1_r. rewrite ln_div by lra. ring. Qed.
Lemma pois_sample mu : Gen_PoissonDist_sample_mean 1 1 mu = mu /\ Gen_PoissonDist_sample_var 1 1 mu = 1 * Gen_PoissonDist_V0 1 mu.
Proof. unfold Gen_PoissonDist_sample_mean, Gen_PoissonDist_sample_var, Gen_PoissonDist_sample_args, Spec_poisson_mean, Spec_poisson_var, Gen_PoissonDist_V0. split; ring. Qed.

(* =============== Gamma: y > 0, mu > 0, scale > 0 =============== *)
Lemma gamma_dev_nonneg sc y mu : 0 < y -> 0 < mu -> 0 <= Gen_GammaDist_deviance0 false sc 1 y mu.
Proof. intros Y M. unfold Gen_GammaDist_deviance0. cbv zeta iota.
  pose proof (ln_le_sub (y / mu) (div_pos _ _ Y M)). replace ((y - mu) / mu) with (y / mu - 1) by (field; lra). lra. Qed.
Lemma gamma_dev_zero_iff sc y mu : 0 < y -> 0 < mu -> (Gen_GammaDist_deviance0 false sc 1 y mu = 0 <-> y = mu).
Proof. intros Y M. unfold Gen_GammaDist_deviance0. cbv zeta iota. replace ((y - mu) / mu) with (y / mu - 1) by (field; lra). split.
  - intros E. destruct (Req_dec (y / mu) 1) as [e|ne].
    + apply (f_equal (fun t => t * mu)) in e. field_simplify in e; lra.
    + pose proof (ln_lt_sub (y / mu) (div_pos _ _ Y M) ne). lra.
  - intros ->. replace (mu / mu) with 1 by (field; lra). rewrite ln_1. ring. Qed.
Lemma gamma_dev_derive sc y mu : 0 < y -> 0 < mu ->
  is_derive (fun m => Gen_GammaDist_deviance0 false sc 1 y m) mu (-2 * (y - mu) / Gen_GammaDist_V0 1 mu).
Proof. intros Y M. unfold Gen_GammaDist_deviance0, Gen_GammaDist_V0. cbv zeta iota.
  auto_derive; [repeat split; try lra; apply div_pos; lra | field; lra]. Qed.
Lemma gamma_loglik_gap sc y mu : 0 < sc -> 0 < y -> 0 < mu ->
  Gen_GammaDist_deviance0 false sc 1 y mu = 2 * sc * (Gen_GammaDist_log_pdf sc 1 1 y y - Gen_GammaDist_log_pdf sc 1 1 y mu).
Proof. intros S Y M. unfold Gen_GammaDist_deviance0, Gen_GammaDist_log_pdf, Spec_gamma_logpdf_kernel. cbv zeta iota.
  replace (y / (1 / sc)) with (y * sc) by (field; lra). replace (mu / (1 / sc)) with (mu * sc) by (field; lra).
  rewrite ln_div, !ln_mult by lra. field. repeat split; lra. Qed.
Lemma gamma_sample sc mu : 0 < sc ->
  Gen_GammaDist_sample_mean sc 1 mu = mu /\ Gen_GammaDist_sample_var sc 1 mu = sc * Gen_GammaDist_V0 1 mu.
Proof. intros. unfold Gen_GammaDist_sample_mean, Gen_GammaDist_sample_var, Gen_GammaDist_sample_args, Spec_gamma_mean, Spec_gamma_var, Gen_GammaDist_V0.
  cbv zeta. cbn [fst snd]. split; field; lra. Qed.

(* =============== Inverse Gaussian: y > 0, mu > 0, scale > 0 =============== *)
Lemma ig_dev_nonneg sc y mu : 0 < y -> 0 < mu -> 0 <= Gen_InvGaussDist_deviance0 false sc 1 y mu.
Proof. intros Y M. unfold Gen_InvGaussDist_deviance0. cbv zeta iota. apply sq_div_nonneg.
  apply Rmult_lt_0_compat; [apply Rmult_lt_0_compat|]; assumption. Qed.
Lemma ig_dev_zero_iff sc y mu : 0 < y -> 0 < mu -> (Gen_InvGaussDist_deviance0 false sc 1 y mu = 0 <-> y = mu).
Proof. intros Y M. unfold Gen_InvGaussDist_deviance0. cbv zeta iota. split.
  - intros E. apply sq_div_zero in E; [lra|]. apply Rmult_lt_0_compat; [apply Rmult_lt_0_compat|]; assumption.
  - intros ->. unfold Rdiv. ring. Qed.
Lemma ig_dev_derive sc y mu : 0 < y -> 0 < mu ->
  is_derive (fun m => Gen_InvGaussDist_deviance0 false sc 1 y m) mu (-2 * (y - mu) / Gen_InvGaussDist_V0 1 mu).
Proof. intros Y M. unfold Gen_InvGaussDist_deviance0, Gen_InvGaussDist_V0. cbv zeta iota.
  assert (P : 0 < mu * mu * y) by (apply Rmult_lt_0_compat; [apply Rmult_lt_0_compat|]; assumption).
  auto_derive; [lra | field; lra]. Qed.
Lemma ig_loglik_gap sc y mu : 0 < sc -> 0 < y -> 0 < mu ->
  Gen_InvGaussDist_deviance0 false sc 1 y mu = 2 * sc * (Gen_InvGaussDist_log_pdf sc 1 1 y y - Gen_InvGaussDist_log_pdf sc 1 1 y mu).
Proof. intros S Y M. unfold Gen_InvGaussDist_deviance0, Gen_InvGaussDist_log_pdf, Spec_invgauss_logpdf. cbv zeta iota. field. repeat split; lra. Qed.
Lemma ig_sample sc mu : 0 < sc ->
  Gen_InvGaussDist_sample_mean sc 1 mu = mu /\ Gen_InvGaussDist_sample_var sc 1 mu = sc * Gen_InvGaussDist_V0 1 mu.
Proof. intros. unfold Gen_InvGaussDist_sample_mean, Gen_InvGaussDist_sample_var, Gen_InvGaussDist_sample_args, Spec_wald_mean, Spec_wald_var, Gen_InvGaussDist_V0.
  cbn [fst snd]. split; [reflexivity|field; lra]. Qed.

(* =============== scaled deviance, weights, phi (all families share the generated shape) =============== *)
Lemma phi_known sc V0 edof ws ys mus : Gen_phi true sc V0 edof ws ys mus = sc. Proof. reflexivity. Qed.
Lemma phi_unknown sc V0 edof ws ys mus :
  Gen_phi false sc V0 edof ws ys mus = Gen_pearson V0 ws ys mus / (INR (length mus) - edof).
Proof. reflexivity. Qed.
Lemma pearson_cons V0 w y mu ws ys mus :
  Gen_pearson V0 (w :: ws) (y :: ys) (mu :: mus) = w * ((y - mu) * (y - mu)) / V0 mu + Gen_pearson V0 ws ys mus.
Proof. cbn [Gen_pearson]. unfold Rdiv. ring. Qed.
