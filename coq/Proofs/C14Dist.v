(* Proofs/C14Dist.v -- plural attributes: what is read back after a successful assignment is what was assigned *)
From Coq Require Import List ZArith Ascii String Bool Arith Lia.
From PG Require Import Model.Terms Proofs.C14Dedup.
Import ListNotations.
Open Scope list_scope.

Definition atoms (l : list value) : Prop := Forall (fun v => is_atom v = true) l.

Lemma flatten_atom : forall v, is_atom v = true -> flatten v = [v].
Proof. destruct v; simpl; auto; discriminate. Qed.

Lemma flatten_list : forall l, flatten (VList l) = List.concat (map flatten l).
Proof. induction l as [| x r IH]; simpl; auto. simpl in IH. now rewrite IH. Qed.

Lemma flatten_atoms_list : forall l, atoms l -> flatten (VList l) = l.
Proof.
  intros l H. rewrite flatten_list. induction H as [| x r Hx _ IH]; simpl; auto. now rewrite (flatten_atom x Hx), IH.
Qed.

Lemma flatten_is_atoms : forall v, atoms (flatten v).
Proof.
  induction v as [| b | z | m e | s | l IH] using value_ind'; try (constructor; [reflexivity | constructor]).
  rewrite flatten_list. induction IH as [| x r Hx _ IHr]; simpl; [constructor |]. apply Forall_app. split; auto.
Qed.

Lemma atoms_repeat : forall v n, is_atom v = true -> atoms (repeat v n).
Proof. intros v n H. induction n; simpl; constructor; auto. Qed.

Lemma forallb_atoms : forall l, forallb is_atom l = true <-> atoms l.
Proof. intros l. unfold atoms. rewrite forallb_forall, Forall_forall. tauto. Qed.

Lemma length_concat_rev : forall {B} (l : list (list B)), List.length (List.concat (rev l)) = List.length (List.concat l).
Proof.
  intros B l. induction l as [| x r IH]; simpl; auto. rewrite concat_app, !app_length. simpl. rewrite app_nil_r. lia.
Qed.

(* ------------------------------------------------------------------ the generic distribution loop *)
Section DistFacts.
  Context {A : Type} (skip : A -> bool) (size_of : A -> status + nat) (set1 : A -> value -> status * A).
  Variable P : A -> Prop.                 (* well-formedness of an element *)
  Variable fl : A -> list value.          (* the flattened values an element contributes to the plural read-back *)
  Hypothesis Hne : forall t, size_of t <> inl Ok.
  Hypothesis Hskip : forall t, skip t = true -> fl t = [].
  Hypothesis Hsize : forall t n, P t -> skip t = false -> size_of t = inr n -> List.length (fl t) = n.
  Hypothesis Hset : forall t n vals t', P t -> skip t = false -> size_of t = inr n -> List.length vals = n -> atoms vals ->
                      set1 t (wrap n vals) = (Ok, t') -> fl t' = vals /\ P t'.

  Lemma dist_rev_ok : forall l rs l', Forall P l -> atoms rs ->
    dist_rev skip size_of set1 l rs = (Ok, l') -> List.length rs = List.length (List.concat (map fl l)) ->
    List.concat (map fl (rev l')) = rev rs /\ Forall P l'.
  Proof.
    induction l as [| t l0 IH]; intros rs l' HP Hat H Hlen; simpl in *.
    - inversion H; subst. destruct rs; [split; auto | discriminate].
    - inversion HP as [| ? ? HPt HPl]; subst. destruct (skip t) eqn:Es.
      + destruct (dist_rev skip size_of set1 l0 rs) as [st r] eqn:Er. inversion H; subst.
        rewrite (Hskip t Es) in Hlen. simpl in Hlen.
        destruct (IH rs r HPl Hat Er Hlen) as [H1 H2]. split; [| constructor; auto].
        simpl. rewrite map_app, concat_app. simpl. now rewrite (Hskip t Es), !app_nil_r.
      + destruct (size_of t) as [e | n] eqn:En; [inversion H; subst; exfalso; now apply (Hne t) |].
        destruct (List.length rs <? n)%nat eqn:El; [inversion H; subst; discriminate |].
        apply Nat.ltb_ge in El.
        pose proof (Hsize t n HPt Es En) as Hn.
        destruct (set1 t (wrap n (rev (firstn n rs)))) as [st1 t1] eqn:E1.
        destruct st1; try (inversion H; subst; discriminate).
        destruct (dist_rev skip size_of set1 l0 (skipn n rs)) as [st r] eqn:Er. injection H as Hst Hl'. subst st l'.
        assert (Hf : List.length (rev (firstn n rs)) = n) by (rewrite rev_length, firstn_length; lia).
        assert (Haf : atoms (rev (firstn n rs))).
        { apply Forall_rev. unfold atoms in *. rewrite <- (firstn_skipn n rs) in Hat. apply Forall_app in Hat. tauto. }
        destruct (Hset t n _ t1 HPt Es En Hf Haf E1) as [Hfl HP1].
        assert (Hsk : atoms (skipn n rs)).
        { unfold atoms in *. rewrite <- (firstn_skipn n rs) in Hat. apply Forall_app in Hat. tauto. }
        assert (Hl2 : List.length (skipn n rs) = List.length (List.concat (map fl l0))).
        { rewrite skipn_length. rewrite app_length in Hlen. lia. }
        destruct (IH (skipn n rs) r HPl Hsk Er Hl2) as [H1 H2]. split; [| constructor; auto].
        simpl. rewrite map_app, concat_app. simpl. rewrite app_nil_r, H1, Hfl, <- rev_app_distr. now rewrite firstn_skipn.
  Qed.

  Lemma dist_ok : forall l vs l', Forall P l -> atoms vs ->
    dist skip size_of set1 l vs = (Ok, l') -> List.length vs = List.length (List.concat (map fl l)) ->
    List.concat (map fl l') = vs /\ Forall P l'.
  Proof.
    intros l vs l' HP Hat H Hlen. unfold dist in H.
    destruct (dist_rev skip size_of set1 (rev l) (rev vs)) as [st r] eqn:Er. inversion H; subst.
    destruct (dist_rev_ok (rev l) (rev vs) r) as [H1 H2]; auto.
    - now apply Forall_rev.
    - now apply Forall_rev.
    - rewrite rev_length, map_rev, length_concat_rev. exact Hlen.
    - rewrite rev_involutive in H1. split; auto. now apply Forall_rev.
  Qed.

  Lemma meta_set_ok : forall l v l', Forall P l ->
    meta_set skip size_of set1 (List.length (List.concat (map fl l))) v l = (Ok, l') ->
    List.concat (map fl l') = (if is_list v then flatten v else repeat v (List.length (List.concat (map fl l)))) /\ Forall P l'.
  Proof.
    intros l v l' HP H. unfold meta_set in H. destruct v; simpl;
      try (apply dist_ok in H; auto; [apply atoms_repeat; reflexivity | now rewrite repeat_length]).
    destruct (List.length (flatten (VList l0)) =? List.length (List.concat (map fl l)))%nat eqn:E; [| discriminate].
    apply Nat.eqb_eq in E. apply dist_ok in H; auto. apply flatten_is_atoms.
  Qed.
End DistFacts.

(* ------------------------------------------------------------------ simple terms *)
Lemma omap_num_roundtrip : forall vals l, omap num_of_v vals = Some l -> map v_of_num l = vals.
Proof.
  induction vals as [| v r IH]; intros l H; simpl in H; [inversion H; reflexivity |].
  destruct (num_of_v v) as [n |] eqn:En; [| discriminate]. destruct (omap num_of_v r) as [ns |] eqn:Er; [| discriminate].
  inversion H; subst. simpl. rewrite (IH ns eq_refl). f_equal. destruct v; simpl in En; inversion En; reflexivity.
Qed.

Lemma omap_ostr_roundtrip : forall vals l, omap ostr_of_v vals = Some l -> map v_of_ostr l = vals.
Proof.
  induction vals as [| v r IH]; intros l H; simpl in H; [inversion H; reflexivity |].
  destruct (ostr_of_v v) as [n |] eqn:En; [| discriminate]. destruct (omap ostr_of_v r) as [ns |] eqn:Er; [| discriminate].
  inversion H; subst. simpl. rewrite (IH ns eq_refl). f_equal. destruct v; simpl in En; inversion En; reflexivity.
Qed.

Lemma omap_length : forall {X Y} (f : X -> option Y) l r, omap f l = Some r -> List.length r = List.length l.
Proof.
  intros X Y f. induction l as [| x l IH]; intros r H; simpl in H; [inversion H; reflexivity |].
  destruct (f x); [| discriminate]. destruct (omap f l) eqn:E; [| discriminate]. inversion H; subst. simpl. now rewrite (IH l0 eq_refl).
Qed.

Lemma atoms_nums : forall l, atoms (map v_of_num l).
Proof. induction l as [| x r IH]; simpl; constructor; auto. destruct x; reflexivity. Qed.
Lemma atoms_ostrs : forall l, atoms (map v_of_ostr l).
Proof. induction l as [| x r IH]; simpl; constructor; auto. destruct x; reflexivity. Qed.

Lemma np_size_atoms : forall l, atoms l -> np_size (VList l) = Some (List.length l).
Proof. intros l H. simpl. apply forallb_atoms in H. now rewrite H. Qed.

Lemma bcast_same : forall {X} (l : list X) k, List.length l = k -> bcast l k = l.
Proof. intros X l k H. destruct l as [| x [| y r]]; simpl in *; subst; auto. Qed.

(* list_or_single applied to (wrap n vals) parses exactly vals *)
Lemma los_wrap_num : forall n vals l, List.length vals = n -> atoms vals ->
  list_or_single num_of_v (wrap n vals) = Some l -> map v_of_num l = vals.
Proof.
  intros n vals l Hn Hat H. unfold wrap in H. destruct (n =? 1)%nat eqn:E.
  - apply Nat.eqb_eq in E. subst n. destruct vals as [| v [| ? ?]]; try discriminate. simpl in H.
    inversion Hat; subst. destruct v; simpl in *; try discriminate; inversion H; reflexivity.
  - simpl in H. now apply omap_num_roundtrip.
Qed.
Lemma los_wrap_ostr : forall n vals l, List.length vals = n -> atoms vals ->
  list_or_single ostr_of_v (wrap n vals) = Some l -> map v_of_ostr l = vals.
Proof.
  intros n vals l Hn Hat H. unfold wrap in H. destruct (n =? 1)%nat eqn:E.
  - apply Nat.eqb_eq in E. subst n. destruct vals as [| v [| ? ?]]; try discriminate. simpl in H.
    inversion Hat; subst. destruct v; simpl in *; try discriminate; inversion H; reflexivity.
  - simpl in H. now apply omap_ostr_roundtrip.
Qed.

Lemma wrap_one : forall vals, List.length vals = 1%nat -> exists v, vals = [v] /\ wrap 1 vals = v.
Proof. intros [| v [| ? ?]] H; try discriminate. exists v. split; reflexivity. Qed.

Definition fl_simple (name : string) (x : simple) : list value := flatten (get_or_none name x).

Lemma valid_lam_pen_l : forall dt pen lam con, term_level_ok dt pen lam con = true -> List.length lam = List.length pen.
Proof.
  intros dt pen lam con H. unfold term_level_ok in H. repeat (apply andb_prop in H; destruct H as [H ?]).
  now apply Nat.eqb_eq.
Qed.

Ltac len_from_valid Ev :=
  unfold spline_level_ok, term_level_ok in Ev; simpl in Ev;
  repeat match goal with H : _ && _ = true |- _ => apply andb_prop in H; destruct H end;
  match goal with H : (List.length _ =? List.length _)%nat = true |- _ => apply Nat.eqb_eq in H; exact H end.

Lemma wf_lengths : forall x, wf_simple x ->
  match x with SL l => List.length (l_lam l) = List.length (l_pen l)
             | SS s | SF s _ => List.length (s_lam s) = List.length (s_pen s) end.
Proof.
  intros x H. unfold wf_simple, validate_simple in H.
  destruct (valid_simple (norm_simple x)) eqn:Ev; [| discriminate]. injection H as Hn. rewrite Hn in Ev.
  destruct x as [l | s | s c]; simpl in Ev; len_from_valid Ev.
Qed.

Lemma validate_wf : forall x x', validate_simple x = Some x' -> wf_simple x'.
Proof.
  intros x x' H. unfold wf_simple, validate_simple in *.
  destruct (valid_simple (norm_simple x)) eqn:Ev; [| discriminate]. inversion H; subst.
  assert (Hn : norm_simple (norm_simple x) = norm_simple x).
  { destruct x as [l | s | s c]; simpl in *; rewrite bcast_same; auto; len_from_valid Ev. }
  now rewrite Hn, Ev.
Qed.

Lemma simple_size_flat : forall name x n, simple_size name x = inr n -> List.length (fl_simple name x) = n.
Proof.
  intros name x n H. unfold simple_size, fl_simple, get_or_none in *.
  destruct (attr_get name x) as [v |] eqn:Eg; [| discriminate].
  destruct (np_size v) as [k |] eqn:Ek; [| discriminate]. inversion H; subst k. clear H.
  assert (Hv : (exists l, v = VList l /\ atoms l) \/ (is_atom v = true)).
  { destruct x as [l | s | s c]; simpl in Eg;
      repeat match type of Eg with (if ?b then _ else _) = _ => destruct b end; inversion Eg; subst;
      try (right; reflexivity); left; eexists; split; try reflexivity; try apply atoms_nums; try apply atoms_ostrs. }
  destruct Hv as [[l [-> Hl]] | Hv].
  - rewrite np_size_atoms in Ek by auto. inversion Ek. now rewrite flatten_atoms_list.
  - rewrite flatten_atom by auto. destruct v; simpl in *; try discriminate; inversion Ek; reflexivity.
Qed.

Arguments flatten : simpl never.

Ltac t_name name E := apply String.eqb_eq in E; subst name; simpl in *; unfold vnums, vostrs in *.

Ltac t_lam El Hfl HL Hlen Hat :=
  let EQ := fresh "EQ" in
  match type of El with context [list_or_single num_of_v ?w] =>
    destruct (list_or_single num_of_v w) as [q |] eqn:EQ; [| discriminate] end;
  simpl in El; injection El as El; rewrite <- El; clear El; simpl; unfold vnums;
  apply los_wrap_num in EQ; auto;
  rewrite flatten_atoms_list in Hfl by apply atoms_nums; rewrite map_length in Hfl;
  rewrite bcast_same; [rewrite flatten_atoms_list by apply atoms_nums; exact EQ |];
  rewrite <- HL, Hfl, <- Hlen, <- EQ; now rewrite map_length.

Ltac t_ostr El Hat :=
  let EQ := fresh "EQ" in
  match type of El with context [list_or_single ostr_of_v ?w] =>
    destruct (list_or_single ostr_of_v w) as [q |] eqn:EQ; [| discriminate] end;
  simpl in El; injection El as El; rewrite <- El; clear El; simpl; unfold vostrs;
  apply los_wrap_ostr in EQ; auto;
  rewrite flatten_atoms_list by apply atoms_ostrs; exact EQ.

Ltac t_scalar El Hfl Hlen :=
  let v := fresh "v" in let Hw := fresh "Hw" in
  try (rewrite flatten_atom in Hfl by reflexivity); simpl in Hfl; rewrite <- Hfl in Hlen, El; clear Hfl;
  match goal with Hl : List.length ?vals = 1%nat |- _ => destruct (wrap_one vals Hl) as [v [-> Hw]]; rewrite Hw in El end;
  destruct v; simpl in El; try discriminate; injection El as El; subst; simpl; first [reflexivity | now rewrite flatten_atom by reflexivity].

(* the per-term step: after `setattr(term, name, wrap vals); term._validate_arguments()` succeeded, the term reads back vals *)
Lemma attr_set_readback : forall name x n vals x', wf_simple x -> simple_size name x = inr n ->
  List.length vals = n -> atoms vals -> attr_set name x (wrap n vals) = (Ok, x') ->
  fl_simple name x' = vals /\ wf_simple x'.
Proof.
  intros name x n vals x' Hwf Hsz Hlen Hat H.
  pose proof (simple_size_flat name x n Hsz) as Hfl. pose proof (wf_lengths x Hwf) as HL.
  unfold attr_set in H.
  match type of H with (match ?u with _ => _ end) = _ => destruct u as [x1 |] eqn:Eu; [| discriminate] end.
  destruct (validate_simple x1) as [x2 |] eqn:Ev; [| discriminate]. inversion H; subst x2. clear H.
  split; [| eapply validate_wf; eauto].
  unfold validate_simple in Ev. destruct (valid_simple (norm_simple x1)); [| discriminate]. injection Ev as Ex'. subst x'.
  clear Hsz Hwf.
  unfold fl_simple, get_or_none in *.
  destruct x as [l | s | s c]; simpl in Eu, HL.
  - destruct (upd_l l name (wrap n vals)) as [l' |] eqn:El; [| discriminate]. injection Eu as Eu. subst x1.
    unfold upd_l in El.
    destruct (String.eqb name "lam") eqn:E1; [t_name name E1; t_lam El Hfl HL Hlen Hat |].
    destruct (String.eqb name "penalties") eqn:E2; [t_name name E2; t_ostr El Hat |].
    destruct (String.eqb name "constraints") eqn:E3; [t_name name E3; t_ostr El Hat |].
    destruct (String.eqb name "dtype") eqn:E4; [t_name name E4; t_scalar El Hfl Hlen |].
    destruct (String.eqb name "feature") eqn:E5; [t_name name E5; t_scalar El Hfl Hlen |].
    discriminate.
  - destruct (upd_s s name (wrap n vals)) as [s' |] eqn:El; [| discriminate]. injection Eu as Eu. subst x1.
    unfold upd_s in El.
    destruct (String.eqb name "lam") eqn:E1; [t_name name E1; t_lam El Hfl HL Hlen Hat |].
    destruct (String.eqb name "penalties") eqn:E2; [t_name name E2; t_ostr El Hat |].
    destruct (String.eqb name "constraints") eqn:E3; [t_name name E3; t_ostr El Hat |].
    destruct (String.eqb name "dtype") eqn:E4; [t_name name E4; t_scalar El Hfl Hlen |].
    destruct (String.eqb name "feature") eqn:E5; [t_name name E5; t_scalar El Hfl Hlen |].
    destruct (String.eqb name "n_splines") eqn:E6; [t_name name E6; t_scalar El Hfl Hlen |].
    destruct (String.eqb name "spline_order") eqn:E7; [t_name name E7; t_scalar El Hfl Hlen |].
    destruct (String.eqb name "basis") eqn:E8; [t_name name E8; t_scalar El Hfl Hlen |].
    discriminate.
  - destruct (upd_s s name (wrap n vals)) as [s' |] eqn:El; [| discriminate]. injection Eu as Eu. subst x1.
    unfold upd_s in El.
    destruct (String.eqb name "lam") eqn:E1; [t_name name E1; t_lam El Hfl HL Hlen Hat |].
    destruct (String.eqb name "penalties") eqn:E2; [t_name name E2; t_ostr El Hat |].
    destruct (String.eqb name "constraints") eqn:E3; [t_name name E3; t_ostr El Hat |].
    destruct (String.eqb name "dtype") eqn:E4; [t_name name E4; t_scalar El Hfl Hlen |].
    destruct (String.eqb name "feature") eqn:E5; [t_name name E5; t_scalar El Hfl Hlen |].
    destruct (String.eqb name "n_splines") eqn:E6; [t_name name E6; t_scalar El Hfl Hlen |].
    destruct (String.eqb name "spline_order") eqn:E7; [t_name name E7; t_scalar El Hfl Hlen |].
    destruct (String.eqb name "basis") eqn:E8; [t_name name E8; t_scalar El Hfl Hlen |].
    discriminate.
Qed.
