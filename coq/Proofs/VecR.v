(* Proofs/VecR.v -- lemmas about the real instance of Base/Vec.v *)
From Coq Require Import List Reals Lra Lia Arith.
From PG Require Import Base.Ops Base.Vec.
Import ListNotations.
Open Scope R_scope.

Notation vaddR := (vadd Rrops). Notation vsubR := (vsub Rrops). Notation vscaleR := (vscale Rrops).
Notation dotR := (dot Rrops). Notation sumsqR := (sumsq Rrops). Notation zerosR := (zeros Rrops).
Notation diffR := (diff Rrops). Notation diffnR := (diffn Rrops). Notation lincombR := (lincomb Rrops).
Notation gramR := (gram Rrops). Notation matvecR := (matvec Rrops). Notation quadR := (quad Rrops).
Notation identR := (ident Rrops). Notation maddR := (madd Rrops). Notation mscaleR := (mscale Rrops).
Notation mzeroR := (mzero Rrops). Notation cdiffR := (cdiff Rrops). Notation cdiffnR := (cdiffn Rrops).
Notation rotlR := (@rotl R). Notation vsumR := (vsum Rrops).

Lemma zeros_S p : zerosR (S p) = 0 :: zerosR p. Proof. reflexivity. Qed.
Lemma vadd_length u : forall v, length (vaddR u v) = Nat.min (length u) (length v).
Proof. induction u as [|a u IH]; intros [|b v]; simpl; auto. Qed.
Lemma vsub_length u : forall v, length (vsubR u v) = Nat.min (length u) (length v).
Proof. induction u as [|a u IH]; intros [|b v]; simpl; auto. Qed.
Lemma vscale_length c u : length (vscaleR c u) = length u. Proof. apply map_length. Qed.
Lemma zeros_length p : length (zerosR p) = p. Proof. apply repeat_length. Qed.
Lemma lincomb_length p : forall bs rows, Forall (fun r => length r = p) rows -> length (lincombR p bs rows) = p.
Proof. induction bs as [|b bs IH]; intros rows H; simpl. apply zeros_length.
  destruct rows as [|r rows]. apply zeros_length. inversion H; subst.
  rewrite vadd_length, vscale_length, IH by assumption. lia. Qed.

Lemma dot_comm u : forall v, dotR u v = dotR v u.
Proof. induction u as [|a u IH]; intros [|b v]; simpl; auto. rewrite IH. lra. Qed.
Lemma dot_zeros_r u : forall p, dotR u (zerosR p) = 0.
Proof. induction u as [|a u IH]; intros [|p]; try reflexivity. rewrite zeros_S. cbn [dot]. rewrite IH. cbn. lra. Qed.
Lemma dot_zeros_l u : forall p, dotR (zerosR p) u = 0.
Proof. intros. rewrite dot_comm. apply dot_zeros_r. Qed.
Lemma dot_vscale_r c u : forall v, dotR u (vscaleR c v) = c * dotR u v.
Proof. induction u as [|a u IH]; intros [|b v]; simpl; try lra. fold (vscaleR c v). rewrite IH. lra. Qed.
Lemma dot_vscale_l c u v : dotR (vscaleR c u) v = c * dotR u v.
Proof. rewrite dot_comm, dot_vscale_r, dot_comm. reflexivity. Qed.
Lemma dot_vadd_r u : forall v w, length v = length w -> dotR u (vaddR v w) = dotR u v + dotR u w.
Proof. induction u as [|a u IH]; intros [|b v] [|c w] H; simpl in *; try lra; try discriminate.
  rewrite IH by lia. lra. Qed.
Lemma dot_vadd_l u v w : length u = length v -> dotR (vaddR u v) w = dotR u w + dotR v w.
Proof. intros. rewrite dot_comm, dot_vadd_r by assumption. rewrite (dot_comm w u), (dot_comm w v). reflexivity. Qed.
Lemma sumsq_nonneg u : 0 <= sumsqR u.
Proof. unfold sumsq. induction u; simpl. lra. nra. Qed.
Lemma sumsq_zero_iff u : sumsqR u = 0 <-> Forall (fun x => x = 0) u.
Proof. unfold sumsq. induction u as [|a u IH]; simpl.
  - split; auto.
  - pose proof (sumsq_nonneg u) as P. unfold sumsq in P. split.
    + intros H. assert (a * a = 0 /\ dotR u u = 0) as [H1 H2] by nra. constructor; [nra|apply IH; assumption].
    + intros H. inversion H; subst. apply IH in H3. rewrite H3. lra.
Qed.

Lemma dot_lincomb_r p r : forall bs rows, Forall (fun x => length x = p) rows -> length bs = length rows ->
  dotR r (lincombR p bs rows) = dotR bs (map (dotR r) rows).
Proof. induction bs as [|b bs IH]; intros [|x rows] HF HL; simpl in *; try discriminate.
  - apply dot_zeros_r.
  - inversion HF; subst. fold (vscaleR b x). rewrite dot_vadd_r, dot_vscale_r, IH; auto.
    rewrite vscale_length, lincomb_length; auto. Qed.

Theorem quad_gram p rows bs : Forall (fun x => length x = p) rows -> length bs = length rows ->
  quadR (gramR rows) bs = sumsqR (lincombR p bs rows).
Proof. intros HF HL. unfold quad, matvec, gram, sumsq. rewrite map_map.
  rewrite (map_ext_in _ (fun ri => dotR ri (lincombR p bs rows))).
  2:{ intros ri _. rewrite dot_comm. symmetry. apply dot_lincomb_r; auto. }
  rewrite (dot_lincomb_r p (lincombR p bs rows) bs rows HF HL).
  f_equal. apply map_ext. intros; apply dot_comm. Qed.

(* gram is symmetric: entry (i,j) = dot ri rj *)
Lemma gram_entry rows i j : nth j (nth i (gramR rows) []) 0 = dotR (nth i rows []) (nth j rows []).
Proof.
  unfold gram. destruct (Nat.lt_ge_cases i (length rows)) as [Hi|Hi].
  - rewrite (nth_indep _ [] (map (dotR []) rows)) by (rewrite map_length; assumption).
    rewrite (map_nth (fun ri => map (dotR ri) rows) rows [] i).
    destruct (Nat.lt_ge_cases j (length rows)) as [Hj|Hj].
    + rewrite (nth_indep _ 0 (dotR (nth i rows []) [])) by (rewrite map_length; assumption).
      apply (map_nth (dotR (nth i rows [])) rows [] j).
    + rewrite (nth_overflow (map _ rows)) by (rewrite map_length; assumption). rewrite (@nth_overflow _ rows j []) by assumption.
      rewrite dot_comm. reflexivity.
  - rewrite (nth_overflow (map _ rows)) by (rewrite map_length; assumption).
    rewrite (nth_overflow rows) by assumption. destruct j; reflexivity.
Qed.
Lemma gram_sym rows i j : nth j (nth i (gramR rows) []) 0 = nth i (nth j (gramR rows) []) 0.
Proof. rewrite !gram_entry. apply dot_comm. Qed.

(* ---- linearity of diff ---- *)
Lemma tl_vadd u v : tl (vaddR u v) = vaddR (tl u) (tl v).
Proof. destruct u as [|a [|a' u]], v as [|b v]; simpl; auto. Qed.
Lemma vsub_vadd4 a : forall b c d, vsubR (vaddR a b) (vaddR c d) = vaddR (vsubR a c) (vsubR b d).
Proof. induction a as [|x a IH]; intros [|y b] [|z c] [|w d]; simpl; auto.
  rewrite IH. f_equal. lra. Qed.
Lemma diff_vadd u v : diffR (vaddR u v) = vaddR (diffR u) (diffR v).
Proof. unfold diff. rewrite tl_vadd. apply vsub_vadd4. Qed.
Lemma tl_vscale c u : tl (vscaleR c u) = vscaleR c (tl u). Proof. destruct u; reflexivity. Qed.
Lemma vsub_vscale c u : forall v, vsubR (vscaleR c u) (vscaleR c v) = vscaleR c (vsubR u v).
Proof. induction u as [|a u IH]; intros [|b v]; simpl; auto. unfold vscale in *. simpl. rewrite IH. f_equal. lra. Qed.
Lemma diff_vscale c u : diffR (vscaleR c u) = vscaleR c (diffR u).
Proof. unfold diff. rewrite tl_vscale. apply vsub_vscale. Qed.
Lemma vsub_zeros p : forall q, vsubR (zerosR p) (zerosR q) = zerosR (Nat.min p q).
Proof. induction p; intros [|q]; simpl; auto. unfold zeros in *. rewrite IHp. simpl. f_equal. lra. Qed.
Lemma diff_zeros p : diffR (zerosR p) = zerosR (pred p).
Proof. unfold diff. destruct p; simpl; auto. change (repeat 0 p) with (zerosR p). change (0 :: zerosR p) with (zerosR (S p)). rewrite vsub_zeros. f_equal. lia. Qed.
Lemma diffn_vadd d : forall u v, diffnR d (vaddR u v) = vaddR (diffnR d u) (diffnR d v).
Proof. induction d; intros; simpl; auto. rewrite IHd, diff_vadd. reflexivity. Qed.
Lemma diffn_vscale d c : forall u, diffnR d (vscaleR c u) = vscaleR c (diffnR d u).
Proof. induction d; intros; simpl; auto. rewrite IHd, diff_vscale. reflexivity. Qed.
Lemma diffn_zeros d : forall p, diffnR d (zerosR p) = zerosR (p - d).
Proof. induction d; intros; simpl. f_equal; lia. rewrite IHd, diff_zeros. f_equal. lia. Qed.
Lemma diff_length u : length (diffR u) = pred (length u).
Proof. unfold diff. rewrite vsub_length. destruct u; simpl; lia. Qed.
Lemma diffn_length d : forall u, length (diffnR d u) = (length u - d)%nat.
Proof. induction d; intros; simpl. lia. rewrite diff_length, IHd. lia. Qed.

(* a generic "linear length-shifting operator" interface so that diffn and cdiffn share the gram proof *)
Section LinOp.
Variable F : list R -> list R.
Variable shift : nat -> nat.
Hypothesis F_vadd : forall u v, length u = length v -> F (vaddR u v) = vaddR (F u) (F v).
Hypothesis F_vscale : forall c u, F (vscaleR c u) = vscaleR c (F u).
Hypothesis F_zeros : forall p, F (zerosR p) = zerosR (shift p).
Hypothesis F_length : forall u, length (F u) = shift (length u).
Lemma lincomb_map_F p : forall bs rows, Forall (fun r => length r = p) rows ->
  lincombR (shift p) bs (map F rows) = F (lincombR p bs rows).
Proof. induction bs as [|b bs IH]; intros [|r rows] HF; simpl; try (symmetry; apply F_zeros).
  inversion HF; subst. fold (vscaleR b r). fold (vscaleR b (F r)).
  rewrite F_vadd, F_vscale, IH; auto. rewrite vscale_length, lincomb_length; auto. Qed.
End LinOp.

(* ---- identity and lincomb over it ---- *)
Lemma lincomb_cons0 p : forall bs rows, lincombR (S p) bs (map (cons 0) rows) = 0 :: lincombR p bs rows.
Proof. induction bs as [|b bs IH]; intros [|r rows]; try reflexivity.
  cbn [map lincomb]. rewrite IH. unfold vscale. cbn [map vadd]. f_equal. cbn. lra. Qed.
Lemma vscale_zeros c p : vscaleR c (zerosR p) = zerosR p.
Proof. induction p as [|p IH]; [reflexivity|]. rewrite zeros_S. unfold vscale in *. cbn [map]. rewrite IH. f_equal. cbn. lra. Qed.
Lemma vadd_zeros_l p : forall u, length u = p -> vaddR (zerosR p) u = u.
Proof. induction p as [|p IH]; intros [|a u] H; simpl in H; try discriminate; [reflexivity|].
  rewrite zeros_S. cbn [vadd]. rewrite IH by lia. f_equal. cbn. lra. Qed.
Lemma lincomb_ident : forall n bs, length bs = n -> lincombR n bs (identR n) = bs.
Proof. induction n as [|n IH]; intros [|b bs] H; simpl in H; try discriminate; [reflexivity|].
  cbn [ident lincomb]. fold (zerosR n). change (r0 Rrops) with 0. change (r1 Rrops) with 1.
  rewrite lincomb_cons0, IH by lia.
  unfold vscale at 1. cbn [map]. fold (vscaleR b (zerosR n)). rewrite vscale_zeros. cbn [vadd].
  rewrite vadd_zeros_l by lia. f_equal. cbn. lra. Qed.
Lemma ident_lengths n : Forall (fun r => length r = n) (identR n) /\ length (identR n) = n.
Proof. induction n as [|n [IH1 IH2]]; [split; constructor|]. split.
  - cbn [ident]. constructor. simpl. fold (zerosR n). rewrite zeros_length. reflexivity.
    apply Forall_map. eapply Forall_impl; [|exact IH1]. intros r Hr. simpl in *. lia.
  - cbn [ident]. simpl. rewrite map_length. lia. Qed.

(* quad of a gram of F applied to the identity rows = sumsq (F beta) *)
Theorem quad_gram_linop F shift
  (F_vadd : forall u v, length u = length v -> F (vaddR u v) = vaddR (F u) (F v))
  (F_vscale : forall c u, F (vscaleR c u) = vscaleR c (F u))
  (F_zeros : forall p, F (zerosR p) = zerosR (shift p))
  (F_length : forall u, length (F u) = shift (length u))
  n bs : length bs = n -> quadR (gramR (map F (identR n))) bs = sumsqR (F bs).
Proof. intros H. destruct (ident_lengths n) as [HF HL].
  rewrite (quad_gram (shift n)).
  - rewrite (lincomb_map_F F shift) by assumption. rewrite lincomb_ident by assumption. reflexivity.
  - apply Forall_map. eapply Forall_impl; [|exact HF]. intros r Hr. simpl in *. rewrite F_length. congruence.
  - rewrite map_length. lia.
Qed.
