(* Proofs/C11.v -- lemmas behind Props/C11.v *)
From Coq Require Import List String Bool Arith Lia.
From PG Require Import Model.Validation Gen.C11Traces Model.C11Check.
Import ListNotations.

(* ---------------------------------------------------------------- array contents: every length, every position *)
Lemma allfin_false_iff : forall l,
  forallb is_fin l = false <-> exists i e, nth_error l i = Some e /\ is_fin e = false.
Proof.
  induction l as [|x l IH]; simpl.
  - split; [discriminate|]. intros [i [e [H _]]]. destruct i; discriminate.
  - rewrite andb_false_iff. split.
    + intros [Hx|Hl].
      * exists 0, x. split; [reflexivity|exact Hx].
      * apply IH in Hl. destruct Hl as [i [e [H1 H2]]]. exists (S i), e. split; assumption.
    + intros [i [e [H1 H2]]]. destruct i as [|i]; simpl in H1.
      * inversion H1; subst. left; exact H2.
      * right. apply IH. exists i, e. split; assumption.
Qed.

Lemma nonempty_false_iff : forall (l : list ecls), negb (Nat.eqb (List.length l) 0) = false <-> l = [].
Proof. destruct l; simpl; split; intro H; try reflexivity; discriminate. Qed.

Lemma vres_of_raise : forall b, vres_of b = RaiseValueError <-> b = true.
Proof. destruct b; simpl; split; intro H; try reflexivity; discriminate. Qed.

Lemma check_array_spec : forall nf d,
  check_array nf d = RaiseValueError <->
  (exists i, nonfinite_at d i) \/ (nf = true /\ d_width_ok d = false) \/ d_elems d = [].
Proof.
  intros nf d. unfold check_array, a_check_array, abstract, nonfinite_at; simpl.
  rewrite vres_of_raise, !orb_true_iff, negb_true_iff, allfin_false_iff, andb_true_iff, negb_true_iff.
  rewrite (negb_true_iff (negb _)), nonempty_false_iff.
  split.
  - intros [[[i [e H]]|H]|H]; [left; exists i, e; exact H|right; left; exact H|right; right; exact H].
  - intros [[i [e H]]|[H|H]]; [left; left; exists i, e; exact H|left; right; exact H|right; exact H].
Qed.

Lemma check_array_any_position : forall nf c t pre e post l w dm ct,
  is_fin e = false -> check_array nf (mk_desc c t (pre ++ e :: post) l w dm ct) = RaiseValueError.
Proof.
  intros. apply check_array_spec. left. exists (List.length pre), e. simpl. split; [|assumption].
  rewrite nth_error_app2 by lia. rewrite Nat.sub_diag. reflexivity.
Qed.

Example check_array_position_example :
  check_array false (mk_desc CList DFloat ([Fin; Fin] ++ NInf :: [Fin]) true true true true) = RaiseValueError
  /\ check_array false (mk_desc CList DFloat [Fin; Fin; Fin] true true true true) = Accept.
Proof. split; reflexivity. Qed.

Lemma check_y_spec : forall d, check_y d = RaiseValueError <->
  (exists i, nonfinite_at d i) \/ d_elems d = [] \/ d_dom_ok d = false.
Proof.
  intros d. unfold check_y, a_check_y. rewrite vres_of_raise, orb_true_iff, negb_true_iff.
  change (a_check_array false (abstract d) = true) with (vres_of (a_check_array false (abstract d)) = RaiseValueError -> True) || idtac.
  rewrite <- (vres_of_raise (a_check_array false (abstract d))). fold (check_array false d). rewrite check_array_spec.
  simpl. split.
  - intros [[H|[[H _]|H]]|H]; [left; exact H|discriminate|right; left; exact H|right; right; exact H].
  - intros [H|[H|H]]; [left; left; exact H|left; right; right; exact H|right; exact H].
Qed.

Lemma check_X_spec : forall nf cats d, check_X nf cats d = RaiseValueError <->
  (exists i, nonfinite_at d i) \/ (nf = true /\ d_width_ok d = false) \/ d_elems d = [] \/ (cats = true /\ d_cat_ok d = false).
Proof.
  intros nf cats d. unfold check_X, a_check_X. rewrite vres_of_raise, orb_true_iff, andb_true_iff, negb_true_iff.
  rewrite <- (vres_of_raise (a_check_array nf (abstract d))). fold (check_array nf d). rewrite check_array_spec.
  simpl. tauto.
Qed.

(* ---------------------------------------------------------------- abstraction of concrete descriptors *)
Lemma corrupted_abstract : forall k d, corrupted k d -> a_corrupted k (abstract d) = true.
Proof.
  intros k d H. destruct k; simpl in *; try (rewrite H; reflexivity).
  apply negb_true_iff. apply allfin_false_iff. destruct H as [i [e H]]. exists i, e. exact H.
Qed.

Lemma valid_abstract : forall d, valid d -> a_valid (abstract d) = true.
Proof.
  intros d [Hf [Hn [Hl [Hw [Hd Hc]]]]]. unfold a_valid, abstract; simpl. rewrite Hl, Hw, Hd, Hc.
  assert (forallb is_fin (d_elems d) = true) as ->.
  { destruct (forallb is_fin (d_elems d)) eqn:E; [reflexivity|].
    apply allfin_false_iff in E. destruct E as [i [e [H1 H2]]]. rewrite (Hf _ _ H1) in H2. discriminate. }
  destruct (d_elems d); [contradiction Hn; reflexivity|reflexivity].
Qed.

(* ---------------------------------------------------------------- completeness of the finite enumerations *)
Lemma all_bool_complete : forall b, In b all_bool.
Proof. destruct b; simpl; tauto. Qed.
Lemma all_kinds_complete : forall k, In k all_kinds.
Proof. destruct k; simpl; tauto. Qed.
Lemma all_adesc_complete : forall a, In a all_adesc.
Proof.
  intros [c t b1 b2 b3 b4 b5 b6]. unfold all_adesc.
  apply in_flat_map. exists c. split; [destruct c; simpl; tauto|].
  apply in_flat_map. exists t. split; [destruct t; simpl; tauto|].
  apply in_flat_map. exists b1. split; [apply all_bool_complete|].
  apply in_flat_map. exists b2. split; [apply all_bool_complete|].
  apply in_flat_map. exists b3. split; [apply all_bool_complete|].
  apply in_flat_map. exists b4. split; [apply all_bool_complete|].
  apply in_flat_map. exists b5. split; [apply all_bool_complete|].
  apply in_map. apply all_bool_complete.
Qed.

(* ---------------------------------------------------------------- the generated table, decided by computation *)
Lemma table_ok_today : table_ok c11_traces = true.
Proof. vm_compute. reflexivity. Qed.
Lemma exceptions_genuine_today : exceptions_genuine c11_traces = true.
Proof. vm_compute. reflexivity. Qed.
Lemma unfitted_ok_today : unfitted_ok c11_traces = true.
Proof. vm_compute. reflexivity. Qed.

Lemma table_ok_sound : forall tr, table_ok tr = true ->
  forall e k a f s, In e tr -> cell_ok e k a f s = true.
Proof.
  intros tr T e k a f s He. unfold table_ok in T.
  rewrite forallb_forall in T. specialize (T e He).
  rewrite forallb_forall in T. specialize (T k (all_kinds_complete k)).
  rewrite forallb_forall in T. specialize (T a (all_adesc_complete a)).
  rewrite forallb_forall in T. specialize (T f (all_bool_complete f)).
  rewrite forallb_forall in T. exact (T s (all_bool_complete s)).
Qed.

Lemma cell_ok_all : forall e k a f s, In e c11_traces -> cell_ok e k a f s = true.
Proof. exact (table_ok_sound c11_traces table_ok_today). Qed.

Lemma outcome_is_ve_eq : forall o, outcome_is_ve o = true -> o = RaisedVE.
Proof. destruct o; simpl; intro H; try discriminate; reflexivity. Qed.
Lemma outcome_is_ae_eq : forall o, outcome_is_ae o = true -> o = RaisedAE.
Proof. destruct o; simpl; intro H; try discriminate; reflexivity. Qed.

Lemma entrypoints_partial : forall e k d fitted skip,
  In e c11_traces -> applicable e k = true -> corrupted k d -> state_ok e fitted = true ->
  excepted e k (d_cont d) (d_dt d) fitted = false ->
  run_trace (e_actions e) d fitted skip = RaisedVE.
Proof.
  intros e k d fitted skip He Ha Hc Hs Hx.
  pose proof (cell_ok_all e k (abstract d) fitted skip He) as C. unfold cell_ok in C.
  rewrite Ha, (corrupted_abstract k d Hc), Hs in C. simpl in C.
  unfold run_trace. destruct (outcome_is_ve (run_atrace (e_actions e) (abstract d) fitted skip)) eqn:E.
  - apply outcome_is_ve_eq; exact E.
  - change (a_cont (abstract d)) with (d_cont d) in C. change (a_dt (abstract d)) with (d_dt d) in C. rewrite Hx in C. discriminate.
Qed.

(* the hypotheses are satisfiable: GAM.fit, weights, -Inf in the middle of a list, unfitted model *)
Definition ex_desc := mk_desc CList DFloat [Fin; NInf; Fin] true true true true.
Example entrypoints_partial_example : exists e,
  In e c11_traces /\ e_cls e = "GAM"%string /\ e_meth e = "fit"%string /\ e_arg e = AW /\ applicable e KNonFinite = true /\
  corrupted KNonFinite ex_desc /\ state_ok e false = true /\ excepted e KNonFinite (d_cont ex_desc) (d_dt ex_desc) false = false /\
  run_trace (e_actions e) ex_desc false false = RaisedVE.
Proof.
  destruct (find_entry "GAM" "fit" AW) as [e|] eqn:F; [|vm_compute in F; discriminate].
  exists e. pose proof (find_some _ _ F) as [HI _].
  vm_compute in F. inversion F; subst e. clear F.
  repeat split; try exact HI; try (vm_compute; reflexivity).
  exists 1, NInf. split; reflexivity.
Qed.

(* ---------------------------------------------------------------- refutation of the unguarded statement *)
Definition nan_desc := mk_desc CNdarray DFloat [Fin; NaN; Fin] true true true true.

Definition refuting (cls meth : string) (arg : argk) (k : ckind) (d : desc) (fitted skip : bool) (e : entry) : bool :=
  String.eqb (e_cls e) cls && String.eqb (e_meth e) meth && argk_eqb (e_arg e) arg && applicable e k && state_ok e fitted
  && negb (outcome_is_ve (run_trace (e_actions e) d fitted skip)).

Lemma refuting_sound : forall cls meth arg k d fitted skip,
  corrupted k d -> existsb (refuting cls meth arg k d fitted skip) c11_traces = true ->
  ~ (forall e k d fitted skip, In e c11_traces -> applicable e k = true -> corrupted k d -> state_ok e fitted = true ->
       run_trace (e_actions e) d fitted skip = RaisedVE).
Proof.
  intros cls meth arg k d fitted skip Hc Hex Hall. apply existsb_exists in Hex. destruct Hex as [e [He Hr]].
  unfold refuting in Hr. rewrite !andb_true_iff in Hr. destruct Hr as [[[[[_ _] _] Ha] Hs] Hn].
  rewrite (Hall e k d fitted skip He Ha Hc Hs) in Hn. discriminate.
Qed.

Lemma nan_desc_corrupted : corrupted KNonFinite nan_desc.
Proof. exists 1, NaN. split; reflexivity. Qed.

(* independent witnesses, each a recorded defect of pyGAM that is not yet repaired: sample(y) with a skipped bootstrap loop,
   fit_quantile(y) on a fitted model (score / PoissonGAM.predict exposure / unfitted gridsearch / loglikelihood lengths /
   PoissonGAM list targets were repaired in /repo and their exceptions removed) *)
Definition len_desc := mk_desc CNdarray DFloat [Fin; Fin; Fin] false true true true.
Lemma len_desc_corrupted : corrupted KLen len_desc.
Proof. reflexivity. Qed.
(* the only exception left: LogisticGAM.accuracy / score compare the lengths of X and y only after predicting from X
   (ValueError is raised, but after X was used) -- all the genuine validation gaps found earlier (score, PoissonGAM.predict
   exposure, sample, unfitted gridsearch, loglikelihood lengths, fit_quantile on a fitted model, PoissonGAM list targets)
   were repaired in /repo and their exceptions removed *)
Lemma entrypoints_refuted :
  ~ (forall e k d fitted skip, In e c11_traces -> applicable e k = true -> corrupted k d -> state_ok e fitted = true ->
       run_trace (e_actions e) d fitted skip = RaisedVE).
Proof. apply (refuting_sound "LogisticGAM" "accuracy" AX KLen len_desc true false len_desc_corrupted). vm_compute. reflexivity. Qed.

(* every listed exception is a genuine failure of the extracted traces (the list is tight) *)
Lemma exceptions_genuine_sound : forall tr, exceptions_genuine tr = true -> forall x, In x exceptions ->
  exists e a s, In e tr /\ exc_entry_matches x e = true /\ applicable e (x_kind x) = true /\
    state_ok e (x_fitted x) = true /\ a_corrupted (x_kind x) a = true /\ (opt_match cont_eqb (x_cont x) (a_cont a) && opt_match dkind_eqb (x_dt x) (a_dt a)) = true /\
    run_atrace (e_actions e) a (x_fitted x) s <> RaisedVE.
Proof.
  intros tr G x Hx. unfold exceptions_genuine in G.
  rewrite forallb_forall in G. specialize (G x Hx). unfold exc_genuine in G.
  apply existsb_exists in G. destruct G as [e [He G]].
  destruct (exc_entry_matches x e && applicable e (x_kind x) && state_ok e (x_fitted x)) eqn:E1; [|discriminate].
  apply existsb_exists in G. destruct G as [a [_ G]].
  destruct (a_corrupted (x_kind x) a && (opt_match cont_eqb (x_cont x) (a_cont a) && opt_match dkind_eqb (x_dt x) (a_dt a))) eqn:E2; [|discriminate].
  apply existsb_exists in G. destruct G as [s [_ G]].
  apply andb_true_iff in E1. destruct E1 as [E1 St]. apply andb_true_iff in E1. destruct E1 as [M Ap].
  apply andb_true_iff in E2. destruct E2 as [Co Ct].
  exists e, a, s. repeat split; try assumption.
  intro Hve. rewrite Hve in G. discriminate.
Qed.

Lemma exceptions_genuine_all : forall x, In x exceptions ->
  exists e a s, In e c11_traces /\ exc_entry_matches x e = true /\ applicable e (x_kind x) = true /\
    state_ok e (x_fitted x) = true /\ a_corrupted (x_kind x) a = true /\ (opt_match cont_eqb (x_cont x) (a_cont a) && opt_match dkind_eqb (x_dt x) (a_dt a)) = true /\
    run_atrace (e_actions e) a (x_fitted x) s <> RaisedVE.
Proof. exact (exceptions_genuine_sound c11_traces exceptions_genuine_today). Qed.

(* ---------------------------------------------------------------- unfitted models *)
Lemma unfitted_ok_sound : forall tr, unfitted_ok tr = true -> forall e a s, In e tr -> e_fitting e = false ->
  (if a_valid a then outcome_is_ae (run_atrace (e_actions e) a false s)
   else outcome_is_ae (run_atrace (e_actions e) a false s) || outcome_is_ve (run_atrace (e_actions e) a false s)) = true.
Proof.
  intros tr T e a s He Hf. unfold unfitted_ok in T.
  rewrite forallb_forall in T. specialize (T e He). rewrite Hf in T.
  apply orb_true_iff in T. destruct T as [T|T]; [discriminate|].
  rewrite forallb_forall in T. specialize (T a (all_adesc_complete _)).
  rewrite forallb_forall in T. exact (T s (all_bool_complete _)).
Qed.

Lemma unfitted_attribute_error : forall e d skip, In e c11_traces -> e_fitting e = false ->
  (valid d -> run_trace (e_actions e) d false skip = RaisedAE) /\
  (run_trace (e_actions e) d false skip = RaisedAE \/ run_trace (e_actions e) d false skip = RaisedVE).
Proof.
  intros e d skip He Hf.
  pose proof (unfitted_ok_sound c11_traces unfitted_ok_today e (abstract d) skip He Hf) as T.
  unfold run_trace. split.
  - intro Hv. rewrite (valid_abstract d Hv) in T. apply outcome_is_ae_eq; exact T.
  - destruct (a_valid (abstract d)).
    + left. apply outcome_is_ae_eq; exact T.
    + apply orb_true_iff in T. destruct T as [T|T]; [left; apply outcome_is_ae_eq|right; apply outcome_is_ve_eq]; exact T.
Qed.

Definition ok_desc := mk_desc CNdarray DFloat [Fin; Fin; Fin] true true true true.
Example unfitted_example : valid ok_desc /\ exists e, In e c11_traces /\ e_fitting e = false /\ e_meth e = "predict"%string.
Proof.
  split.
  - repeat split; try reflexivity; try discriminate.
    intros i e H. destruct i as [|[|[|i]]]; simpl in H; try (inversion H; reflexivity). destruct i; discriminate.
  - destruct (find_entry "GAM" "predict" AX) as [e|] eqn:F; [|vm_compute in F; discriminate].
    exists e. pose proof (find_some _ _ F) as [HI _]. vm_compute in F. inversion F; subst e. repeat split; try (vm_compute; reflexivity). exact HI.
Qed.
