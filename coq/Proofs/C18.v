(* Proofs/C18.v -- expectile balance from the score equation of the PIRLS step (Proofs/C01.v) restricted to an intercept
   column, and expectile 1/2 == least squares with the whole penalty doubled.  Real instance. *)
From Coq Require Import List Reals Lra Lia Arith Bool.
From PG Require Import Base.Ops Base.Vec Model.Pirls Model.Expectile Proofs.VecR Proofs.C01 Gen.Stats.
Import ListNotations.
Open Scope R_scope.

Notation pos_sumR := (pos_sum Rrops). Notation neg_sumR := (neg_sum Rrops).

(* ---------- column j of B' s ---------- *)
Lemma nth_zerosR j p : nth j (zerosR p) 0 = 0.
Proof. unfold zeros. revert j. induction p as [|p IH]; intros [|j]; cbn; auto. Qed.
Lemma nth_vaddR j : forall u v, length u = length v -> nth j (vaddR u v) 0 = nth j u 0 + nth j v 0.
Proof. induction j as [|j IH]; intros [|a u] [|b v] H; cbn in H; try discriminate; cbn [vadd nth]; try (cbn; lra).
  apply IH. injection H as H. exact H. Qed.
Lemma nth_vscaleR j c : forall u, nth j (vscaleR c u) 0 = c * nth j u 0.
Proof. unfold vscale. induction j as [|j IH]; intros [|a u]; cbn; try lra; auto. Qed.
Lemma nth_lincomb m j : forall s B, Forall (fun r => length r = m) B ->
  nth j (lincombR m s B) 0 = dotR s (map (fun r => nth j r 0) B).
Proof. induction s as [|a s IH]; intros B HB; cbn [lincomb].
  - cbn. apply nth_zerosR.
  - destruct B as [|r B]; [cbn; apply nth_zerosR|]. inversion HB as [|? ? Hr HB']; subst.
    rewrite nth_vaddR by (rewrite vscale_length, lincomb_length by assumption; reflexivity).
    fold (vscaleR a r). rewrite nth_vscaleR, IH by assumption. cbn. reflexivity. Qed.
Lemma dot_ones_col j : forall s B, length s = length B -> Forall (fun r => nth j r 0 = 1) B ->
  dotR s (map (fun r => nth j r 0) B) = vsumR s.
Proof. induction s as [|a s IH]; intros [|r B] HL HB; cbn in HL; try discriminate; [reflexivity|].
  inversion HB; subst. cbn [map dot vsum]. rewrite IH by (try lia; assumption). cbn. rewrite H1. lra. Qed.

(* ---------- row j of Ptot b when that row is the bare ridge ---------- *)
Lemma dot_ridge_row m : forall j b se, (j < m)%nat -> length b = m -> dotR (ridge_row Rrops m j se) b = se * nth j b 0.
Proof. unfold ridge_row. induction m as [|m IH]; intros j b se Hj Hb; [lia|].
  destruct b as [|x b]; [discriminate|]. destruct j as [|j].
  - cbn [repeat app dot nth]. replace (S m - 0 - 1)%nat with m by lia.
    fold (zerosR m). rewrite dot_zeros_l. cbn. lra.
  - cbn [repeat app dot nth]. replace (S m - S j - 1)%nat with (m - j - 1)%nat by lia.
    rewrite IH by (cbn in Hb; lia). cbn. lra. Qed.
Lemma nth_matvec j P b : nth j (matvecR P b) 0 = dotR (nth j P []) b.
Proof. unfold matvec. change 0 with ((fun r => dotR r b) []). apply (map_nth (fun r => dotR r b)). Qed.

(* ---------- the score of normal / identity / expectile tau, summed ---------- *)
Lemma vsum_score tau ob :
  vsumR (obs_score LIdentity DNormal (Some tau) 1 ob) = tau * pos_sumR ob - (1 - tau) * neg_sumR ob.
Proof. induction ob as [|t ob IH]; [cbn; lra|].
  cbn [obs_score map vsum pos_sum neg_sum]. fold (obs_score LIdentity DNormal (Some tau) 1 ob). rewrite IH.
  cbn [asym fr Rfops rltb Rrops V0 gprime r1 r0 radd rsub rmul].
  destruct (Rltb (snd t) (snd (fst t))); field. Qed.

(* ---------- balance ---------- *)
Theorem balance tau se m j B Ptot ob b :
  Forall (fun r => length r = m) B -> length ob = length B -> length Ptot = m -> length b = m -> (j < m)%nat ->
  (* intercept: column j of the model matrix is constant one, and its row of the total penalty is the bare ridge *)
  Forall (fun r => nth j r 0 = 1) B -> nth j Ptot [] = ridge_row Rrops m j se ->
  (* b is a fixed point of the PIRLS step of the normal / identity / expectile-tau model at the means recorded in ob *)
  is_step Rfops m B (obs_w2 LIdentity DNormal (Some tau) 1 ob) Ptot (vaddR (matvecR B b) (obs_rr LIdentity 1 ob)) b ->
  tau * pos_sumR ob = (1 - tau) * neg_sumR ob + se * nth j b 0.
Proof. intros HB Lo LP Lb Hj Hone Hrow Hstep.
  assert (Hnz : Forall (fun t : R * R * R => gprime Rfops LIdentity 1 (snd t) <> 0 /\ V0 Rfops DNormal 1 (snd t) <> 0) ob).
  { apply Forall_forall. intros t _. cbn. split; lra. }
  pose proof (score_equation LIdentity DNormal (Some tau) 1 m B Ptot ob b HB Lo LP Hnz Hstep) as E.
  apply (f_equal (fun v => nth j v 0)) in E. unfold Bt_mul in E. change (fr Rfops) with Rrops in E.
  rewrite nth_lincomb in E by assumption.
  rewrite dot_ones_col in E by (try assumption; unfold obs_score; rewrite map_length; assumption).
  rewrite vsum_score, nth_matvec, Hrow, dot_ridge_row in E by assumption. lra. Qed.

Corollary balance_resid_zero tau se m j B Ptot ob b :
  Forall (fun r => length r = m) B -> length ob = length B -> length Ptot = m -> length b = m -> (j < m)%nat ->
  Forall (fun r => nth j r 0 = 1) B -> nth j Ptot [] = ridge_row Rrops m j se ->
  is_step Rfops m B (obs_w2 LIdentity DNormal (Some tau) 1 ob) Ptot (vaddR (matvecR B b) (obs_rr LIdentity 1 ob)) b ->
  balance_resid Rrops tau se (nth j b 0) ob = 0.
Proof. intros. unfold balance_resid. cbn [radd rsub rmul r1 Rrops]. erewrite balance by eassumption. lra. Qed.

(* the asymmetry used above is the generated one (ExpectileGAM._W squares to asym * w for identity / normal) *)
Lemma Gen_Expectile_W_sq tau w y mu : 0 < tau < 1 -> 0 < w ->
  Gen_Expectile_W tau 1 1 w y mu * Gen_Expectile_W tau 1 1 w y mu = w2 Rfops LIdentity DNormal (Some tau) 1 w y mu.
Proof. intros Ht Hw. unfold Gen_Expectile_W, w2. cbn [asym gprime V0 fr Rfops rltb rmul rsub r1 Rrops fdiv].
  rewrite Rdivt_ok by lra. unfold Rltb, Rleb, b2r.
  assert (Hs : sqrt (1 * 1 * 1 * / w) * sqrt (1 * 1 * 1 * / w) = / w).
  { rewrite sqrt_sqrt; [field; lra|]. apply Rlt_le. replace (1 * 1 * 1 * / w) with (/ w) by (field; lra). apply Rinv_0_lt_compat; lra. }
  assert (Hp : 0 < sqrt (1 * 1 * 1 * / w)).
  { apply sqrt_lt_R0. replace (1 * 1 * 1 * / w) with (/ w) by (field; lra). apply Rinv_0_lt_compat; lra. }
  set (q := sqrt (1 * 1 * 1 * / w)) in *.
  assert (Hq : / q * / q = w). { rewrite <- Rinv_mult, Hs. field. lra. }
  destruct (Rlt_dec mu y); destruct (Rle_dec y mu); try lra.
  - replace (1 * tau + 0 * (1 - tau)) with tau by ring.
    transitivity ((/ q * / q) * (sqrt tau * sqrt tau)); [ring|]. rewrite Hq, sqrt_sqrt by lra. field.
  - replace (0 * tau + 1 * (1 - tau)) with (1 - tau) by ring.
    transitivity ((/ q * / q) * (sqrt (1 - tau) * sqrt (1 - tau))); [ring|]. rewrite Hq, sqrt_sqrt by lra. field. Qed.

(* ---------- satisfiability: two observations, intercept only ---------- *)
(* B = [[1];[1]], w = (1,1), y = (0,4), tau = 1/4, ridge se: the fixed point b0 solves (3/4)(b0) + se b0 = (1/4)(4 - b0),
   i.e. b0 = 1/(1+se); checked here with se = 0 for readability: b0 = 1, residuals -1 and 3: 1/4 * 3 = 3/4 * 1 *)
Example balance_example :
  let B := [[1];[1]] in let ob := [(1,0,1);(1,4,1)] in let b := [1] in let Ptot := [[0]] in
  is_step Rfops 1 B (obs_w2 LIdentity DNormal (Some (1/4)) 1 ob) Ptot (vaddR (matvecR B b) (obs_rr LIdentity 1 ob)) b /\
  nth 0 Ptot [] = ridge_row Rrops 1 0 0 /\ (1/4) * pos_sumR ob = (1 - 1/4) * neg_sumR ob + 0 * nth 0 b 0.
Proof. cbn zeta. split; [|split].
  - unfold is_step, neq_lhs, neq_rhs, Bt_mul, obs_w2, obs_rr, w2. cbn.
    assert (A : Rltb 1 0 = false) by (apply Rltb_false; lra). assert (C : Rltb 1 4 = true) by (apply Rltb_true; lra).
    rewrite A, C. rewrite !Rdivt_ok by lra. f_equal. field.
  - reflexivity.
  - cbn. assert (A : Rltb 1 0 = false) by (apply Rltb_false; lra). assert (C : Rltb 1 4 = true) by (apply Rltb_true; lra).
    rewrite A, C. lra. Qed.
