(* Proofs/C02Examples.v -- the former S7 witness (now a regression example), and
   Examples showing that the hypotheses of the C02 theorems are satisfiable by non-trivial values.                 *)
From Coq Require Import List ZArith QArith Qreals Reals Lra Lia Bool.
From PG Require Import Base.Ops Base.Vec Model.BSpline Model.Columns Model.Predict Proofs.VecR Proofs.C16 Proofs.C16Transfer
  Proofs.C02 Proofs.C02Grid Proofs.C02Gen Proofs.C02Transfer.
Import ListNotations.
Open Scope R_scope.

(* te(l(0), l(1), by=2) on three features, two grid points per marginal: the former S7 witness.  Since the repair of
   _flatten_mesh its by-column is one (kept as a regression example) *)
Definition wit_ms : list (simple R) := [SLinear 0%nat; SLinear 1%nat].
Definition wit_lin (f : nat) : R * R := (0, 1).
Example former_S7_witness_by_column_is_one :
  Forall (fun row => nth 2 row 0 = 1) (mesh_gridR wit_lin 3 2 (CTensor wit_ms (Some 2%nat))) /\
  length (mesh_gridR wit_lin 3 2 (CTensor wit_ms (Some 2%nat))) = 4%nat.
Proof.
  split; [apply mesh_grid_by_one; [reflexivity|lia]|].
  destruct (grid_tensor wit_lin 3 2 wit_ms (Some 2%nat) _ eq_refl) as [L _]; [| | |exact L].
  - cbn. repeat constructor; cbn; intuition discriminate.
  - repeat constructor.
  - intros j E. inversion E; subst j. split; [lia|]. cbn. intros [H|[H|[]]]; discriminate.
Qed.

(* ---- hypotheses are satisfiable ---- *)
Example ex_additive_hyp : exists l, lpR (map cterm_Q2R ex2_terms) (map Q2R ex2_beta) (map Q2R [1 # 2; 3; 2]%Q) = Some l.
Proof. eexists. apply ex2_lp. Qed.
Example ex_locality_hyp : agree_on (term_reads (nth 1 (map cterm_Q2R ex2_terms) CIntercept)) [1; 2; 3; 4] [1; 2; 3; 5] /\
  [1; 2; 3; 4] <> [1; 2; 3; 5].
Proof.
  split; [|intros H; inversion H; lra]. intros f Hf. cbn in Hf.
  repeat (destruct Hf as [Hf|Hf]; [subst f; reflexivity|]). destruct Hf.
Qed.
Example ex_grid_simple_hyp : let s := SSpline 0%nat 0 1 4%nat 1%nat false (Some 1%nat) in
  (simple_feature s < 2)%nat /\ (forall j, simple_by s = Some j -> (j < 2)%nat /\ j <> simple_feature s) /\
  exists g, default_gridR wit_lin 2 5 (CSimple s) = Some g.
Proof. cbn. split; [lia|]. split; [intros j H; inversion H; lia|]. eexists. reflexivity. Qed.
Example ex_grid_tensor_hyp : NoDup (map simple_feature wit_ms) /\ Forall (fun s => (simple_feature s < 3)%nat) wit_ms /\
  Forall (fun j => (j < 2)%nat) [1; 0]%nat /\ (forall j, Some 2%nat = Some j -> (j < 3)%nat /\ ~ In j (map simple_feature wit_ms)).
Proof.
  split; [cbn; repeat constructor; cbn; intuition discriminate|]. split; [repeat constructor|]. split; [repeat constructor|].
  intros j E. inversion E; subst j. split; [lia|]. cbn. intros [H|[H|[]]]; discriminate.
Qed.
Example ex_tensor_by_hyp : nth 1 (map cterm_Q2R ex2_terms) CIntercept =
    CTensor [SSpline 0%nat (Q2R 0) (Q2R 1) 3%nat 1%nat false None; SLinear 1%nat] (Some 2%nat) /\
  ~ In 2%nat (map simple_feature [SSpline 0%nat (Q2R 0) (Q2R 1) 3%nat 1%nat false None; SLinear 1%nat]).
Proof. split; [reflexivity|]. cbn. intros [H|[H|[]]]; discriminate. Qed.
Example ex_link_hyp : (0 < 1)%R. Proof. lra. Qed.
