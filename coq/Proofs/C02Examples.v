(* Proofs/C02Examples.v -- the refutation witness for "by-variable set to one" on a tensor term's default grid, and
   Examples showing that the hypotheses of the C02 theorems are satisfiable by non-trivial values.                 *)
From Coq Require Import List ZArith QArith Qreals Reals Lra Lia Bool.
From PG Require Import Base.Ops Base.Vec Model.BSpline Model.Columns Model.Predict Proofs.VecR Proofs.C16 Proofs.C16Transfer
  Proofs.C02 Proofs.C02Grid Proofs.C02Gen Proofs.C02Transfer.
Import ListNotations.
Open Scope R_scope.

(* te(l(0), l(1), by=2) on three features, two grid points per marginal *)
Definition wit_ms : list (simple R) := [SLinear 0%nat; SLinear 1%nat].
Definition wit_lin (f : nat) : R * R := (0, 1).
Theorem tensor_by_column_not_one : exists lin m n ms j g,
  ~ In j (map simple_feature ms) /\ (j < m)%nat /\ default_gridR lin m n (CTensor ms (Some j)) = Some g /\
  ~ (forall row, In row g -> nth j row 0 = 1).
Proof.
  exists wit_lin, 3%nat, 2%nat, wit_ms, 2%nat, (mesh_gridR wit_lin 3 2 (CTensor wit_ms (Some 2%nat))).
  assert (Hn : ~ In 2%nat (map simple_feature wit_ms)) by (cbn; intros [H|[H|[]]]; discriminate).
  split; [exact Hn|]. split; [lia|]. split; [reflexivity|]. intros H.
  pose proof (mesh_grid_other_columns_zero wit_lin 3 2 (CTensor wit_ms (Some 2%nat)) 2 Hn) as Z.
  destruct (grid_tensor wit_lin 3 2 wit_ms (Some 2%nat) _ eq_refl) as [L _].
  { cbn. repeat constructor; cbn; intuition discriminate. }
  { repeat constructor. }
  destruct (mesh_gridR wit_lin 3 2 (CTensor wit_ms (Some 2%nat))) as [|row g] eqn:E; [cbn in L; discriminate|].
  specialize (H row (or_introl eq_refl)). pose proof (Forall_inv Z) as Z0. cbv beta in Z0. lra.
Qed.

(* ---- hypotheses are satisfiable ---- *)
Example ex_additive_hyp : exists l, lpR (map cterm_Q2R ex2_terms) (map Q2R ex2_beta) (map Q2R [1 # 2; 3; 2]%Q) = Some l.
Proof. eexists. apply ex2_lp. Qed.
Example ex_locality_hyp : agree_on (term_reads (nth 1 (map cterm_Q2R ex2_terms) CIntercept)) [1; 2; 3; 4] [1; 2; 3; 5] /\
  [1; 2; 3; 4] <> [1; 2; 3; 5].
Proof.
  split; [|intros H; inversion H; lra]. intros f Hf. cbn in Hf.
  repeat (destruct Hf as [Hf|Hf]; [subst f; reflexivity|]). destruct Hf.
Qed.
Example ex_grid_simple_hyp : let s := SSpline 0%nat 0 1 4%nat 1%nat false (Some 1%nat) in
  (simple_feature s < 2)%nat /\ (forall j, simple_by s = Some j -> (j < 2)%nat /\ j <> simple_feature s) /\
  exists g, default_gridR wit_lin 2 5 (CSimple s) = Some g.
Proof. cbn. split; [lia|]. split; [intros j H; inversion H; lia|]. eexists. reflexivity. Qed.
Example ex_grid_tensor_hyp : NoDup (map simple_feature wit_ms) /\ Forall (fun s => (simple_feature s < 3)%nat) wit_ms /\
  Forall (fun j => (j < 2)%nat) [1; 0]%nat.
Proof. cbn. repeat split; repeat constructor; cbn; intuition discriminate. Qed.
Example ex_tensor_by_hyp : nth 1 (map cterm_Q2R ex2_terms) CIntercept =
    CTensor [SSpline 0%nat (Q2R 0) (Q2R 1) 3%nat 1%nat false None; SLinear 1%nat] (Some 2%nat) /\
  ~ In 2%nat (map simple_feature [SSpline 0%nat (Q2R 0) (Q2R 1) 3%nat 1%nat false None; SLinear 1%nat]).
Proof. split; [reflexivity|]. cbn. intros [H|[H|[]]]; discriminate. Qed.
Example ex_link_hyp : (0 < 1)%R. Proof. lra. Qed.
