(* Proofs/C16.v -- per-term model-matrix columns: widths, index bookkeeping, factor indicators, tensor = row-wise
   Kronecker product, by-variable (real instance of Model/Columns.v).                                          *)
From Coq Require Import List ZArith Reals Lra Lia Bool Arith.
From PG Require Import Base.Ops Base.Vec Model.BSpline Model.Columns Proofs.C03Basis Proofs.C03Scale Proofs.C03Row Proofs.C03Periodic.
Import ListNotations.
Open Scope R_scope.

Notation blockR := (block Rfops). Notation block_simpleR := (block_simple Rfops).
Notation row_blocksR := (row_blocks Rfops).

(* ---------- widths ---------- *)
Lemma haar_row_length t m x : length (haar_row Rfops t m x) = m.
Proof. unfold haar_row. rewrite map_length, seq_length. reflexivity. Qed.
Lemma bspline_scaled_length n k per xs row : bspline_scaled Rfops n k per xs = Some row -> length row = n.
Proof.
  intros E. destruct per.
  - apply (periodic_row n k xs row E).
  - destruct (Rle_dec 0 xs) as [H0|H0]; [destruct (Rle_dec xs 1) as [H1|H1]|].
    + apply (inside_row n k xs row (conj H0 H1) E).
    + destruct k as [|k].
      * pose proof (scaled_Some_lt _ _ _ _ _ E). rewrite scaled_order0 in E by lia. inversion E. unfold irow. cbn [deboor].
        rewrite haar_row_length. lia.
      * apply (extrap_rowsum n (S k) xs row); [lia|right; lra|exact E].
    + destruct k as [|k].
      * pose proof (scaled_Some_lt _ _ _ _ _ E). rewrite scaled_order0 in E by lia. inversion E. unfold irow. cbn [deboor].
        rewrite haar_row_length. lia.
      * apply (extrap_rowsum n (S k) xs row); [lia|left; lra|exact E].
Qed.
Lemma scale_by_length by_ row (b : list R) : length (scale_by Rfops by_ row b) = length b.
Proof. destruct by_; cbn; [apply map_length|reflexivity]. Qed.
Lemma block_simple_length s row b : block_simpleR s row = Some b -> length b = n_coefs_simple s.
Proof.
  destruct s as [f|f e0 e1 n k p by_|f e0 e1 n d]; cbn [block_simple n_coefs_simple].
  - intros E; inversion E; reflexivity.
  - unfold bspline_row. destruct (bspline_scaled Rfops n k p _) as [r|] eqn:E; [|discriminate].
    cbn. intros H; inversion H. rewrite scale_by_length. apply (bspline_scaled_length _ _ _ _ _ E).
  - unfold bspline_row. destruct (bspline_scaled Rfops n 0 false _) as [r|] eqn:E; [|discriminate].
    cbn. intros H; inversion H. pose proof (bspline_scaled_length _ _ _ _ _ E) as L.
    destruct d; [|lia]. destruct r; cbn in *; lia.
Qed.
Lemma kron_row_length (a b : list R) : length (kron_row Rrops a b) = (length a * length b)%nat.
Proof. unfold kron_row. induction a as [|x a IH]; cbn; [reflexivity|]. rewrite app_length, IH. unfold vscale. rewrite map_length. reflexivity. Qed.
Lemma tensor_blocks_length ms row : forall acc r, tensor_blocks Rfops acc ms row = Some r ->
  length r = (length acc * fold_right (fun m a => n_coefs_simple m * a) 1 ms)%nat.
Proof.
  induction ms as [|m ms IH]; intros acc r; cbn [tensor_blocks fold_right].
  - intros E; inversion E. lia.
  - destruct (block_simpleR m row) as [b|] eqn:Eb; [|discriminate]. intros E. rewrite (IH _ _ E).
    unfold tensor2. change (fr Rfops) with Rrops. rewrite kron_row_length, (block_simple_length _ _ _ Eb). lia.
Qed.
Lemma block_length t row b : blockR t row = Some b -> length b = n_coefs t.
Proof.
  destruct t as [|s|ms by_]; cbn [block n_coefs].
  - intros E; inversion E; reflexivity.
  - apply block_simple_length.
  - destruct ms as [|m ms]; [discriminate|]. destruct (block_simpleR m row) as [b0|] eqn:E0; [|discriminate].
    destruct (tensor_blocks Rfops b0 ms row) as [r|] eqn:E1; [|discriminate]. cbn. intros H; inversion H.
    rewrite scale_by_length, (tensor_blocks_length _ _ _ _ E1), (block_simple_length _ _ _ E0). reflexivity.
Qed.
Theorem row_blocks_length ts row : forall r, row_blocksR ts row = Some r -> length r = total_coefs ts.
Proof.
  induction ts as [|t ts IH]; intros r; cbn [row_blocks total_coefs fold_right].
  - intros E; inversion E; reflexivity.
  - destruct (blockR t row) as [b|] eqn:Eb; [|discriminate]. destruct (row_blocksR ts row) as [r'|] eqn:Er; [|discriminate].
    intros E; inversion E. rewrite app_length, (block_length _ _ _ Eb), (IH _ eq_refl). reflexivity.
Qed.

(* ---------- index bookkeeping ---------- *)
Lemma coef_start_0 (ts : list (cterm R)) : coef_start ts 0 = 0%nat. Proof. reflexivity. Qed.
Lemma coef_start_S (t : cterm R) ts i : coef_start (t :: ts) (S i) = (n_coefs t + coef_start ts i)%nat. Proof. reflexivity. Qed.
Lemma coef_start_next (ts : list (cterm R)) : forall i, (i < length ts)%nat ->
  coef_start ts (S i) = (coef_start ts i + n_coefs (nth i ts CIntercept))%nat.
Proof.
  induction ts as [|t ts IH]; intros i Hi; [cbn in Hi; lia|].
  destruct i as [|i]; [rewrite coef_start_S, !coef_start_0; cbn; lia|].
  rewrite (coef_start_S t ts (S i)), (coef_start_S t ts i), IH by (cbn in Hi; lia). cbn [nth]. lia.
Qed.
Lemma coef_start_all (ts : list (cterm R)) : coef_start ts (length ts) = total_coefs ts.
Proof. unfold coef_start. rewrite firstn_all. reflexivity. Qed.

Theorem indices_address_block ts row : forall r i, row_blocksR ts row = Some r -> (i < length ts)%nat ->
  exists b, blockR (nth i ts CIntercept) row = Some b /\
            slice r (coef_start ts i) (n_coefs (nth i ts CIntercept)) = b.
Proof.
  induction ts as [|t ts IH]; intros r i E Hi; [cbn in Hi; lia|].
  cbn [row_blocks] in E. destruct (blockR t row) as [b|] eqn:Eb; [|discriminate].
  destruct (row_blocksR ts row) as [r'|] eqn:Er; [|discriminate]. inversion E; subst r; clear E.
  pose proof (block_length _ _ _ Eb) as Lb.
  destruct i as [|i].
  - exists b. split; [exact Eb|]. unfold slice. rewrite coef_start_0. cbn [skipn nth]. rewrite <- Lb.
    rewrite firstn_app, Nat.sub_diag, firstn_all. cbn. apply app_nil_r.
  - destruct (IH r' i eq_refl ltac:(cbn in Hi; lia)) as [b' [E1 E2]]. exists b'. split; [exact E1|].
    cbn [nth]. rewrite coef_start_S. unfold slice in *. rewrite <- Lb.
    rewrite skipn_app. rewrite skipn_all2 by lia. cbn [app].
    replace (length b + coef_start ts i - length b)%nat with (coef_start ts i) by lia. exact E2.
Qed.

Lemma indices_partition_aux (ts : list (cterm R)) : forall off,
  concat (map (fun i => seq (off + coef_start ts i) (n_coefs (nth i ts CIntercept))) (seq 0 (length ts)))
  = seq off (total_coefs ts).
Proof.
  induction ts as [|t ts IH]; intros off; [reflexivity|].
  cbn [length]. rewrite <- cons_seq, <- seq_shift. cbn [map concat]. rewrite map_map.
  rewrite coef_start_0, Nat.add_0_r. cbn [nth].
  change (total_coefs (t :: ts)) with (n_coefs t + total_coefs ts)%nat.
  rewrite seq_app. f_equal.
  rewrite <- (IH (off + n_coefs t)%nat). f_equal. apply map_ext. intros i.
  rewrite coef_start_S. cbn [nth]. f_equal. lia.
Qed.
(* the index ranges of the terms, in term order, tile 0 .. n_coefs-1: disjoint and covering *)
Theorem indices_partition (ts : list (cterm R)) :
  concat (map (coef_indices ts) (seq 0 (length ts))) = seq 0 (total_coefs ts).
Proof. apply (indices_partition_aux ts 0). Qed.

(* ---------- tensor = row-wise Kronecker product ---------- *)
Lemma nth_vscale c (b : list R) j : nth j (vscale Rrops c b) 0 = c * nth j b 0.
Proof.
  unfold vscale. destruct (Nat.lt_ge_cases j (length b)) as [H|H].
  - rewrite (nth_indep _ 0 (rmul Rrops c 0)) by (rewrite map_length; assumption). rewrite map_nth. reflexivity.
  - rewrite !nth_overflow by (rewrite ?map_length; assumption). lra.
Qed.
Theorem kron_row_entry (b : list R) : forall (a : list R) i j, (j < length b)%nat ->
  nth (i * length b + j) (kron_row Rrops a b) 0 = nth i a 0 * nth j b 0.
Proof.
  induction a as [|x a IH]; intros i j Hj.
  - cbn. destruct (i * length b + j)%nat, i; lra.
  - unfold kron_row. cbn [flat_map]. fold (kron_row Rrops a b). destruct i as [|i].
    + cbn [Nat.mul Nat.add nth]. rewrite app_nth1 by (unfold vscale; rewrite map_length; assumption). apply nth_vscale.
    + rewrite app_nth2 by (unfold vscale; rewrite map_length; lia). unfold vscale at 1. rewrite map_length.
      replace (S i * length b + j - length b)%nat with (i * length b + j)%nat by lia. cbn [nth]. apply IH. assumption.
Qed.
Lemma tensor_blocks_fold row : forall ms bs acc, Forall2 (fun m b => block_simpleR m row = Some b) ms bs ->
  tensor_blocks Rfops acc ms row = Some (fold_left (tensor2 Rfops) bs acc).
Proof.
  induction ms as [|m ms IH]; intros bs acc H; inversion H; subst; cbn [tensor_blocks fold_left]; [reflexivity|].
  rewrite H2. apply IH. assumption.
Qed.
Theorem tensor_is_rowwise_kron row m ms by_ b bs : block_simpleR m row = Some b ->
  Forall2 (fun m b => block_simpleR m row = Some b) ms bs ->
  blockR (CTensor (m :: ms) by_) row = Some (scale_by Rfops by_ row (fold_left (tensor2 Rfops) bs b)).
Proof. intros E H. cbn [block]. rewrite E, (tensor_blocks_fold row ms bs b H). reflexivity. Qed.

(* ---------- by-variable ---------- *)
Theorem by_scales_spline f e0 e1 n k p j row :
  block_simpleR (SSpline f e0 e1 n k p (Some j)) row =
  option_map (vscale Rrops (nth j row 0)) (block_simpleR (SSpline f e0 e1 n k p None) row).
Proof. cbn [block_simple]. destruct (bspline_row Rfops e0 e1 n k p _); reflexivity. Qed.
Theorem by_scales_tensor ms j row :
  blockR (CTensor ms (Some j)) row = option_map (vscale Rrops (nth j row 0)) (blockR (CTensor ms None) row).
Proof.
  cbn [block]. destruct ms as [|m ms]; [reflexivity|]. destruct (block_simpleR m row); [|reflexivity].
  destruct (tensor_blocks Rfops l ms row); reflexivity.
Qed.

(* ---------- intercept, linear ---------- *)
Theorem intercept_block row : blockR CIntercept row = Some [1]. Proof. reflexivity. Qed.
Theorem linear_block f row : blockR (CSimple (SLinear f)) row = Some [nth f row 0]. Proof. reflexivity. Qed.
Theorem spline_block f e0 e1 n k p row :
  blockR (CSimple (SSpline f e0 e1 n k p None)) row = bspline_row Rfops e0 e1 n k p (nth f row 0).
Proof. cbn [block block_simple]. destruct (bspline_row Rfops e0 e1 n k p _); reflexivity. Qed.

(* ---------- factor term on consecutive integer codes 0..L-1 ---------- *)
Theorem factor_indicator f L c dummy row : (c < L)%nat -> nth f row 0 = INR c ->
  block_simpleR (SFactor f (0 - / 2) (INR L - 1 + / 2) L dummy) row =
  Some ((if dummy then @tl R else fun l => l) (map (ind c) (seq 0 L))).
Proof.
  intros Hc Hx. cbn [block_simple]. unfold feat. cbn [Rfops fr Rrops r0]. rewrite Hx.
  unfold bspline_row.
  assert (HL : 0 < INR L) by (apply lt_0_INR; lia).
  assert (Hxs : scaled_x Rfops (0 - / 2) (INR L - 1 + / 2) (INR c) = (INR c + / 2) / INR L).
  { rewrite scaled_x_R. unfold Rmax, Rmin. assert (1 <= INR L) by (apply (le_INR 1); lia).
    destruct (Rle_dec (0 - / 2) (INR L - 1 + / 2)); [|lra].
    destruct (Req_EM_T (INR L - 1 + / 2 - (0 - / 2)) 0); [lra|]. field. lra. }
  rewrite Hxs. rewrite scaled_order0 by lia. cbn [option_map]. f_equal.
  unfold irow. cbn [deboor]. unfold haar_row. rewrite Nat.add_0_r.
  assert (EM : map (haar Rfops (knot Rfops L 0) ((INR c + / 2) / INR L)) (seq 0 L) = map (ind c) (seq 0 L));
    [|rewrite EM; destruct dummy; reflexivity].
  apply map_ext.
  assert (Hk : (0 < L)%nat) by lia.
  apply (haar_ind L 0 Hk).
  rewrite !(knot_R L 0 Hk). unfold stepR, zdiff. rewrite !Z.sub_0_r, <- !INR_IZR_INZ.
  assert (Hc1 : INR (S c) = INR c + 1) by apply S_INR.
  pose proof e9_pos. assert (D1 : INR c * / INR L <= (INR c + / 2) / INR L).
  { unfold Rdiv. apply Rmult_le_compat_r; [left; apply Rinv_0_lt_compat; lra|lra]. }
  assert (D2 : (INR c + / 2) / INR L < INR (S c) * / INR L).
  { rewrite Hc1. unfold Rdiv. apply Rmult_lt_compat_r; [apply Rinv_0_lt_compat; lra|lra]. }
  destruct (Nat.leb_spec (L + 0) c); [lia|]. destruct (Nat.leb_spec (L + 0) (S c)); lra.
Qed.

(* ---------- SplineTerm.compile as a constructor of the compiled term ---------- *)
Theorem compile_spline_default f cat n k p by_ cols col :
  compile_spline Rfops f None cat n k p by_ (cols ++ [col]) =
  option_map (fun e => SSpline f (fst e) (snd e) n k p by_) (gen_edge_knots Rfops cat col).
Proof. unfold compile_spline. rewrite compile_history_default. destruct (gen_edge_knots Rfops cat col) as [[lo hi]|]; reflexivity. Qed.
Theorem compile_spline_given f lo hi cat n k p by_ cols :
  compile_spline Rfops f (Some (lo, hi)) cat n k p by_ cols = Some (SSpline f lo hi n k p by_).
Proof. unfold compile_spline. rewrite compile_history_given. reflexivity. Qed.
