(* Proofs/C05ShapeModel.v -- the spline function of the C03 row model (non-periodic, order k >= 1, n basis functions,
   scaled coordinate xs; inside [0,1] the Cox-de Boor pieces, outside the code's linear continuation) cut into pieces
   j = k-1 (left continuation), k..n-1 (knot intervals), n (right continuation), with their derivatives. *)
From Coq Require Import List ZArith Reals Lra Lia Bool Arith.
From PG Require Import Base.Ops Base.Vec Model.BSpline Proofs.VecR Proofs.C03Basis Proofs.C03Row
  Proofs.C05ShapeDeriv Proofs.C05ShapeSum.
Import ListNotations.
Open Scope R_scope.

(* value of the spline with coefficient vector c at scaled position xs (0 if the code raises: n < k+1) *)
Definition sval (n k : nat) (c : list R) (xs : R) : R :=
  match bspline_scaled Rfops n k false xs with Some row => dotR c row | None => 0 end.

Lemma dot_map_seq (f : nat -> R) : forall (c : list R) a,
  dotR c (map f (seq a (length c))) = sumf (fun i => nth (i - a) c 0 * f i) a (length c).
Proof.
  induction c as [|x c IH]; intros a; [reflexivity|].
  cbn [length seq map dot]. rewrite sumf_S, IH. replace (a - a)%nat with 0%nat by lia. cbn [nth].
  change (radd Rrops ?u ?v) with (u + v). change (rmul Rrops ?u ?v) with (u * v). f_equal.
  apply sumf_ext. intros i Hi. replace (i - a)%nat with (S (i - S a)) by lia. reflexivity.
Qed.
Lemma dot_map_seq0 (f : nat -> R) (c : list R) n : length c = n ->
  dotR c (map f (seq 0 n)) = sumf (fun i => nth i c 0 * f i) 0 n.
Proof. intros <-. rewrite dot_map_seq. apply sumf_ext. intros i _. replace (i - 0)%nat with i by lia. reflexivity. Qed.

Lemma dot_vadd_vscale (c g b : list R) x : length g = length b ->
  dotR c (vaddR (vscaleR x g) b) = x * dotR c g + dotR c b.
Proof. intros H. rewrite dot_vadd_r by (rewrite vscale_length; assumption). rewrite dot_vscale_r. reflexivity. Qed.

Lemma grads_map_seq t k (f : nat -> R) : forall len a,
  grads Rfops t k a (map f (seq a (S len))) =
  map (fun i => IZR (zdiff k 0) * (Rdivt (f i) (t (i + k)%nat - t i) - Rdivt (f (S i)) (t (S (i + k)) - t (S i)))) (seq a len).
Proof.
  induction len as [|len IH]; intros a; [reflexivity|].
  change (seq a (S (S len))) with (a :: S a :: seq (S (S a)) len). cbn [map]. rewrite grads_cons2.
  change (f (S a) :: map f (seq (S (S a)) len)) with (map f (seq (S a) (S len))). rewrite IH. reflexivity.
Qed.

Lemma sumf_ind (f : nat -> R) j0 : forall len a,
  sumf (fun i => f i * ind j0 i) a len = if (Nat.leb a j0 && Nat.ltb j0 (a + len))%bool then f j0 else 0.
Proof.
  induction len as [|len IH]; intros a.
  - rewrite sumf_0. destruct (Nat.leb_spec a j0), (Nat.ltb_spec j0 (a + 0)); cbn; try reflexivity; lia.
  - rewrite sumf_S, IH. unfold ind.
    destruct (Nat.eqb_spec a j0), (Nat.leb_spec a j0), (Nat.leb_spec (S a) j0), (Nat.ltb_spec j0 (a + S len)), (Nat.ltb_spec j0 (S a + len));
      cbn; subst; try lia; lra.
Qed.

Section Model.
Variables n k : nat.
Hypothesis Hk : (1 <= k < n)%nat.
Let Hkn : (k < n)%nat. Proof. lia. Qed.
Notation t := (knot Rfops n k).
Notation tinc := (knot_inc n k Hkn).
Variable c : list R.
Hypothesis Hc : length c = n.
Notation cf := (fun i => nth i c 0).

Lemma tk0 : t k = 0. Proof. apply knot_k; assumption. Qed.
Lemma tn1 : t n = 1.
Proof. rewrite (knot_n n k Hkn). destruct (Nat.eqb_spec k 0); [lia|lra]. Qed.

(* uniform spacing of the knots that are not bumped *)
Lemma knot_gap i : (i + k < n + k)%nat -> t (i + k)%nat - t i = INR k * stepR n k.
Proof.
  intros H. rewrite !(knot_R n k Hkn).
  destruct (Nat.leb_spec (n + k) (i + k)), (Nat.leb_spec (n + k) i); try lia.
  unfold zdiff. rewrite !minus_IZR, <- !INR_IZR_INZ, plus_INR. ring.
Qed.

(* polynomial piece j0 of the spline and of its derivative, all n basis functions *)
Definition Pin (j0 : nat) (x : R) : R := spl t j0 cf k 0 n x.
Definition Din (j0 : nat) (x : R) : R := dspl t j0 cf k 0 n x.
Definition s0 := Pin k 0.        Definition G0 := Din k 0.
Definition s1 := Pin (n - 1) 1.  Definition G1 := Din (n - 1) 1.

Definition inp (j : nat) (x : R) : Prop :=
  if Nat.ltb j k then x <= 0 else if Nat.ltb j n then t j <= x <= t (S j) else 1 <= x.
Definition PP (j : nat) (x : R) : R :=
  if Nat.ltb j k then s0 + x * G0 else if Nat.ltb j n then Pin j x else s1 + (x - 1) * G1.
Definition DD (j : nat) (x : R) : R :=
  if Nat.ltb j k then G0 else if Nat.ltb j n then Din j x else G1.

Lemma dot_crow j0 x : dotR c (crow n k j0 x) = Pin j0 x.
Proof. unfold crow, Pin, spl. apply dot_map_seq0. exact Hc. Qed.

Lemma Rdivt_div a d : d <> 0 -> Rdivt a d = a / d. Proof. apply Rdivt_ok. Qed.
Lemma grads_piece j0 x :
  grads Rfops t k 0 (map (Bix Rfops t (ind j0) x (pred k)) (seq 0 (S n))) = map (fun i => dform t (ind j0) k i x) (seq 0 n).
Proof.
  rewrite grads_map_seq. apply map_ext. intros i. unfold dform.
  rewrite !Rdivt_ok.
  - unfold zdiff. rewrite Z.sub_0_r, <- INR_IZR_INZ. replace (S (i + k)) with (i + S k)%nat by lia. reflexivity.
  - pose proof (tsmono t tinc (S i) (S (i + k)) ltac:(lia)). lra.
  - pose proof (tsmono t tinc i (i + k)%nat ltac:(lia)). lra.
Qed.
Lemma dot_g0 : dotR c (g0row n k) = G0.
Proof. unfold g0row. rewrite (prev0_model n k Hkn) by lia. rewrite grads_piece. unfold G0, Din, dspl. apply dot_map_seq0. exact Hc. Qed.
Lemma dot_g1 : dotR c (g1row n k) = G1.
Proof. unfold g1row. rewrite (prev1_model n k Hkn) by lia. rewrite grads_piece. unfold G1, Din, dspl. apply dot_map_seq0. exact Hc. Qed.

(* every xs lies in a piece on which the model's value is that piece *)
Theorem sval_piece xs : exists j, (k - 1 <= j <= n)%nat /\ inp j xs /\ sval n k c xs = PP j xs.
Proof.
  unfold sval. destruct (Rlt_dec xs 0) as [Hl|Hl]; [|destruct (Rlt_dec 1 xs) as [Hr|Hr]].
  - exists (k - 1)%nat. unfold inp, PP. destruct (Nat.ltb_spec (k - 1) k); [|lia].
    split; [lia|]. split; [lra|]. rewrite scaled_left by (lia || assumption).
    destruct (g0_facts n k Hkn ltac:(lia)) as [L _].
    rewrite dot_vadd_vscale by (rewrite L, b0row_length; reflexivity).
    rewrite dot_g0. unfold b0row. rewrite dot_crow. unfold s0. lra.
  - exists n. unfold inp, PP. destruct (Nat.ltb_spec n k); [lia|]. destruct (Nat.ltb_spec n n); [lia|].
    split; [lia|]. split; [lra|]. rewrite scaled_right by (lia || assumption).
    destruct (g1_facts n k Hkn ltac:(lia)) as [L _].
    rewrite dot_vadd_vscale by (rewrite L, b1row_length; reflexivity).
    rewrite dot_g1. unfold b1row. rewrite dot_crow. unfold s1. lra.
  - rewrite scaled_inside by (assumption || lra). destruct (irow_spec n k Hkn xs ltac:(lra)) as [j0 [Hj [Hin E]]].
    exists j0. unfold inp, PP. destruct (Nat.ltb_spec j0 k); [lia|]. destruct (Nat.ltb_spec j0 n); [|lia].
    split; [lia|]. split; [exact Hin|]. rewrite E. apply dot_crow.
Qed.

(* ---------- the glue hypotheses about the pieces ---------- *)
Lemma inp_conv j x y z : inp j x -> inp j z -> x <= y <= z -> inp j y.
Proof. unfold inp. destruct (Nat.ltb j k); [|destruct (Nat.ltb j n)]; lra. Qed.
Lemma brk_l j : (k - 1 <= j < n)%nat -> inp j (t (S j)).
Proof. intros H. unfold inp. destruct (Nat.ltb_spec j k).
  - replace (S j) with k by lia. rewrite tk0. lra.
  - destruct (Nat.ltb_spec j n); [|lia]. pose proof (tinc j). lra. Qed.
Lemma brk_r j : (k - 1 <= j < n)%nat -> inp (S j) (t (S j)).
Proof. intros H. unfold inp. destruct (Nat.ltb_spec (S j) k); [lia|]. destruct (Nat.ltb_spec (S j) n).
  - pose proof (tinc (S j)). lra.
  - replace (S j) with n by lia. rewrite tn1. lra. Qed.
Lemma inp_le j x : (k - 1 <= j < n)%nat -> inp j x -> x <= t (S j).
Proof. intros H. unfold inp. destruct (Nat.ltb_spec j k).
  - replace (S j) with k by lia. rewrite tk0. lra.
  - destruct (Nat.ltb_spec j n); [lra|lia]. Qed.
Lemma inp_ge j x : (k - 1 <= j < n)%nat -> inp (S j) x -> t (S j) <= x.
Proof. intros H. unfold inp. destruct (Nat.ltb_spec (S j) k); [lia|]. destruct (Nat.ltb_spec (S j) n); [lra|].
  replace (S j) with n by lia. rewrite tn1. lra. Qed.

Lemma H1ok j0 : (k <= j0)%nat -> ~ (0 <= j0 <= 0 + pred k)%nat. Proof. lia. Qed.
Lemma H2ok j0 : (j0 < n)%nat -> ~ (0 + S (n - 1) <= j0 <= 0 + S (n - 1) + pred k)%nat. Proof. lia. Qed.
Lemma Pin_n j0 x : Pin j0 x = spl t j0 cf k 0 (S (n - 1)) x.
Proof. unfold Pin. replace (S (n - 1)) with n by lia. reflexivity. Qed.
Lemma Din_n j0 x : Din j0 x = dspl t j0 cf k 0 (S (n - 1)) x.
Proof. unfold Din. replace (S (n - 1)) with n by lia. reflexivity. Qed.

Lemma PP_deriv j x : derivable_pt_lim (PP j) x (DD j x).
Proof.
  unfold PP, DD. destruct (Nat.ltb j k); [|destruct (Nat.ltb j n)].
  - apply (derivable_pt_lim_ext (plus_fct (fct_cte s0) (mult_fct id (fct_cte G0)))); [intros; reflexivity|].
    replace G0 with (0 + (1 * fct_cte G0 x + id x * 0)) at 2 by (unfold fct_cte, id; ring).
    apply derivable_pt_lim_plus; [apply derivable_pt_lim_const|].
    apply derivable_pt_lim_mult; [apply derivable_pt_lim_id|apply derivable_pt_lim_const].
  - apply (spl_derivable t tinc). lia.
  - apply (derivable_pt_lim_ext (plus_fct (fct_cte s1) (mult_fct (minus_fct id (fct_cte 1)) (fct_cte G1)))); [intros; reflexivity|].
    replace G1 with (0 + ((1 - 0) * fct_cte G1 x + (minus_fct id (fct_cte 1)) x * 0)) at 2 by (unfold fct_cte, id, minus_fct; ring).
    apply derivable_pt_lim_plus; [apply derivable_pt_lim_const|].
    apply derivable_pt_lim_mult; [|apply derivable_pt_lim_const].
    apply derivable_pt_lim_minus; [apply derivable_pt_lim_id|apply derivable_pt_lim_const].
Qed.

(* continuity of the spline and (order >= 2) of its derivative across the breakpoints *)
Lemma Pin_cont j : (k <= j)%nat -> (S j < n)%nat -> Pin j (t (S j)) = Pin (S j) (t (S j)).
Proof. intros H1 H2. unfold Pin, spl. apply sumf_ext. intros i _. f_equal.
  apply (continuity_at_knot t tinc (t (S j)) j k i eq_refl). lia. Qed.
Lemma PP_cont j : (k - 1 <= j < n)%nat -> PP j (t (S j)) = PP (S j) (t (S j)).
Proof.
  intros H. unfold PP. destruct (Nat.ltb_spec j k).
  - replace (S j) with k by lia. destruct (Nat.ltb_spec k k); [lia|]. destruct (Nat.ltb_spec k n); [|lia].
    rewrite tk0. unfold s0. lra.
  - destruct (Nat.ltb_spec j n); [|lia]. destruct (Nat.ltb_spec (S j) k); [lia|]. destruct (Nat.ltb_spec (S j) n).
    + apply Pin_cont; lia.
    + replace (S j) with n by lia. rewrite tn1. unfold s1. replace j with (n - 1)%nat by lia. lra.
Qed.
Lemma Din_cont j : (2 <= k)%nat -> (k <= j)%nat -> (S j < n)%nat -> Din j (t (S j)) = Din (S j) (t (S j)).
Proof. intros Hk2 H1 H2. unfold Din, dspl. apply sumf_ext. intros i _. f_equal. unfold dform.
  rewrite (continuity_at_knot t tinc (t (S j)) j (pred k) i eq_refl) by lia.
  rewrite (continuity_at_knot t tinc (t (S j)) j (pred k) (S i) eq_refl) by lia. reflexivity. Qed.

(* ================= non-decreasing coefficients ================= *)
Section Inc.
Hypothesis c_inc : forall i, (0 < i <= n - 1)%nat -> cf (pred i) <= cf i.

Lemma Din_nonneg j0 x : (k <= j0 < n)%nat -> t j0 <= x <= t (S j0) -> 0 <= Din j0 x.
Proof. intros Hj Hx. rewrite Din_n. apply (dspl_nonneg t tinc); try assumption; try lia. Qed.
Lemma G0_nonneg : 0 <= G0.
Proof. unfold G0. apply Din_nonneg; [lia|]. rewrite tk0. pose proof (tinc k). rewrite tk0 in *. lra. Qed.
Lemma G1_nonneg : 0 <= G1.
Proof. unfold G1. apply Din_nonneg; [lia|]. replace (S (n - 1)) with n by lia. rewrite tn1.
  pose proof (tinc (n - 1)). replace (S (n - 1)) with n in * by lia. rewrite tn1 in *. lra. Qed.

Lemma PP_mono_piece j x y : (k - 1 <= j <= n)%nat -> inp j x -> inp j y -> x <= y -> PP j x <= PP j y.
Proof.
  intros Hj. unfold inp, PP. destruct (Nat.ltb_spec j k); [|destruct (Nat.ltb_spec j n)]; intros Hx Hy Hxy.
  - pose proof G0_nonneg. nra.
  - rewrite !Pin_n. apply (piece_mono t tinc); try lra; try lia; try assumption.
  - pose proof G1_nonneg. nra.
Qed.
End Inc.
End Model.
