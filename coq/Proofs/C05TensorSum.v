(* Proofs/C05TensorSum.v -- finite-sum and Kronecker-row algebra for tensor terms (real instance):
   utils.tensor_product on one data row is kron_row (C order); iterating it over the marginals (TensorTerm.build_columns) gives
   tensor_row; for any axis i the row factors as  P (x) (r_i (x) Q)  and contracting the coefficient tensor with P and Q leaves a
   coefficient VECTOR for marginal i:   coef . (P (x) r (x) Q) = c' . r ,  c'_k = sum_{a,q} P_a Q_q coef[a K B + k B + q]. *)
From Coq Require Import List Reals Lra Lia Arith Bool.
From PG Require Import Base.Ops Base.Vec Model.Constraints Proofs.VecR Proofs.C03Basis Proofs.C05ShapeSum.
Import ListNotations.
Open Scope R_scope.

Notation kronR := (kron_row Rrops).

(* ---------- more sumf ---------- *)
Lemma sumf_zero a n : sumf (fun _ => 0) a n = 0.
Proof. revert a. induction n as [|n IH]; intros a; [reflexivity|]. rewrite sumf_S, IH. lra. Qed.
Lemma sumf_plus f g a len : sumf (fun i => f i + g i) a len = sumf f a len + sumf g a len.
Proof. revert a. induction len as [|len IH]; intros a; [rewrite !sumf_0; lra|]. rewrite !sumf_S, IH. lra. Qed.
Lemma sumf_scal_r c f a len : sumf (fun i => f i * c) a len = sumf f a len * c.
Proof. revert a. induction len as [|len IH]; intros a; [rewrite !sumf_0; lra|]. rewrite !sumf_S, IH. lra. Qed.
Lemma sumf_shift f : forall len a, sumf f a len = sumf (fun j => f (a + j)%nat) 0 len.
Proof. induction len as [|len IH]; intros a; [reflexivity|]. rewrite !sumf_snoc, IH. reflexivity. Qed.
Lemma sumf_app f a n1 n2 : sumf f a (n1 + n2) = sumf f a n1 + sumf f (a + n1) n2.
Proof. induction n2 as [|n2 IH]; [rewrite Nat.add_0_r, sumf_0; lra|].
  replace (n1 + S n2)%nat with (S (n1 + n2)) by lia. rewrite !sumf_snoc, IH. replace (a + (n1 + n2))%nat with (a + n1 + n2)%nat by lia. lra. Qed.
Lemma sumf_block f m : forall A, sumf f 0 (A * m) = sumf (fun a => sumf (fun j => f (a * m + j)%nat) 0 m) 0 A.
Proof. induction A as [|A IH]; [reflexivity|]. rewrite sumf_snoc, <- IH. replace (S A * m)%nat with (A * m + m)%nat by lia.
  rewrite sumf_app. f_equal. rewrite (sumf_shift f m). reflexivity. Qed.
Lemma sumf_exchange (g : nat -> nat -> R) B : forall A,
  sumf (fun a => sumf (g a) 0 B) 0 A = sumf (fun b => sumf (fun a => g a b) 0 A) 0 B.
Proof. induction A as [|A IH].
  - rewrite sumf_0. symmetry. rewrite (sumf_ext _ (fun _ => 0)) by (intros; apply sumf_0). apply sumf_zero.
  - rewrite sumf_snoc, IH, <- sumf_plus. apply sumf_ext. intros b _. rewrite sumf_snoc. reflexivity. Qed.

Lemma dot_sumf : forall (v u : list R), dotR u v = sumf (fun i => nth i u 0 * nth i v 0) 0 (length v).
Proof. induction v as [|b v IH]; intros [|a u]; try reflexivity.
  - change (dotR [] (b :: v)) with 0. symmetry.
    rewrite (sumf_ext _ (fun _ => 0)) by (intros i _; destruct i; cbn; lra). apply sumf_zero.
  - cbn [dot length]. rewrite sumf_S, IH. cbn [nth]. change (radd Rrops ?x ?y) with (x + y). change (rmul Rrops ?x ?y) with (x * y).
    f_equal. rewrite (sumf_shift _ (length v) 1). apply sumf_ext. intros i _. reflexivity. Qed.
Lemma nth_map_seq0 (f : nat -> R) n i : (i < n)%nat -> nth i (map f (seq 0 n)) 0 = f i.
Proof. intros H. rewrite nth_map_seq. destruct (Nat.ltb_spec i n); [reflexivity|lia]. Qed.

(* ---------- kron_row ---------- *)
Lemma kron_cons x a (b : list R) : kronR (x :: a) b = vscaleR x b ++ kronR a b. Proof. reflexivity. Qed.
Lemma kron_length (a b : list R) : length (kronR a b) = (length a * length b)%nat.
Proof. induction a as [|x a IH]; [reflexivity|]. rewrite kron_cons, app_length, IH, vscale_length. reflexivity. Qed.
Lemma nth_vscale x (b : list R) i : nth i (vscaleR x b) 0 = x * nth i b 0.
Proof. unfold vscale. replace 0 with (x * 0) at 1 by lra. change (rmul Rrops) with Rmult. apply (map_nth (fun y => x * y)). Qed.
Lemma nth_kron (b : list R) : forall a ia ib, (ib < length b)%nat ->
  nth (ia * length b + ib) (kronR a b) 0 = nth ia a 0 * nth ib b 0.
Proof. induction a as [|x a IH]; intros ia ib Hb.
  - change (kronR [] b) with (@nil R). assert (E : forall m, nth m (@nil R) 0 = 0) by (intros [|m]; reflexivity). rewrite !E. lra.
  - rewrite kron_cons. destruct ia as [|ia].
    + cbn [Nat.mul Nat.add nth]. rewrite app_nth1 by (rewrite vscale_length; exact Hb). apply nth_vscale.
    + rewrite app_nth2 by (rewrite vscale_length; lia). rewrite vscale_length.
      replace (S ia * length b + ib - length b)%nat with (ia * length b + ib)%nat by lia. cbn [nth]. apply IH. exact Hb. Qed.
Lemma kron_app (u v c : list R) : kronR (u ++ v) c = kronR u c ++ kronR v c.
Proof. unfold kron_row. apply flat_map_app. Qed.
Lemma vscale_app' x (u v : list R) : vscaleR x (u ++ v) = vscaleR x u ++ vscaleR x v. Proof. apply map_app. Qed.
Lemma vscale_vscale x y (c : list R) : vscaleR x (vscaleR y c) = vscaleR (x * y) c.
Proof. unfold vscale. rewrite map_map. apply map_ext. intros z. cbn. lra. Qed.
Lemma kron_vscale x (b c : list R) : kronR (vscaleR x b) c = vscaleR x (kronR b c).
Proof. induction b as [|y b IH]; [reflexivity|]. change (vscaleR x (y :: b)) with ((x * y) :: vscaleR x b).
  rewrite !kron_cons, IH, vscale_app', vscale_vscale. reflexivity. Qed.
Lemma kron_assoc (a b c : list R) : kronR (kronR a b) c = kronR a (kronR b c).
Proof. induction a as [|x a IH]; [reflexivity|]. rewrite !kron_cons, kron_app, IH, kron_vscale. reflexivity. Qed.
Lemma kron_1_l (b : list R) : kronR [1] b = b.
Proof. rewrite kron_cons. cbn [kron_row flat_map]. rewrite app_nil_r. unfold vscale. rewrite <- (map_id b) at 2. apply map_ext. intros; cbn; lra. Qed.
Lemma kron_1_r (a : list R) : kronR a [1] = a.
Proof. induction a as [|x a IH]; [reflexivity|]. rewrite kron_cons, IH. cbn. f_equal. lra. Qed.
Lemma kron_nonneg (a b : list R) : Forall (fun v => 0 <= v) a -> Forall (fun v => 0 <= v) b -> Forall (fun v => 0 <= v) (kronR a b).
Proof. intros Ha Hb. induction Ha as [|x a Hx _ IH]; [constructor|]. rewrite kron_cons. apply Forall_app. split; [|exact IH].
  unfold vscale. apply Forall_map. eapply Forall_impl; [|exact Hb]. intros y Hy. cbn. nra. Qed.

(* ---------- TensorTerm.build_columns on one data row: tensor_product iterated left to right over the marginal rows ---------- *)
Definition tensor_row (rows : list (list R)) : list R :=
  match rows with [] => [] | r :: rest => fold_left kronR rest r end.
(* right-nested product with unit, convenient for the proofs *)
Definition prodrow (rows : list (list R)) : list R := fold_right kronR [1] rows.
Lemma fold_left_kron : forall rest acc, fold_left kronR rest acc = kronR acc (prodrow rest).
Proof. induction rest as [|r rest IH]; intros acc; cbn [fold_left prodrow fold_right]; [symmetry; apply kron_1_r|].
  rewrite IH, kron_assoc. reflexivity. Qed.
Lemma tensor_row_prodrow rows : rows <> [] -> tensor_row rows = prodrow rows.
Proof. destruct rows as [|r rest]; [congruence|]. intros _. cbn [tensor_row prodrow fold_right]. apply fold_left_kron. Qed.
Lemma prodrow_app pre post : prodrow (pre ++ post) = kronR (prodrow pre) (prodrow post).
Proof. induction pre as [|p pre IH]; cbn [app prodrow fold_right]; [symmetry; apply kron_1_l|].
  fold (prodrow (pre ++ post)). fold (prodrow pre). rewrite IH, kron_assoc. reflexivity. Qed.
Lemma prodrow_split pre r post : prodrow (pre ++ r :: post) = kronR (prodrow pre) (kronR r (prodrow post)).
Proof. rewrite prodrow_app. reflexivity. Qed.
Lemma prodrow_nonneg rows : Forall (Forall (fun v => 0 <= v)) rows -> Forall (fun v => 0 <= v) (prodrow rows).
Proof. induction 1 as [|r rows Hr _ IH]; cbn [prodrow fold_right]; [repeat constructor; lra|]. apply kron_nonneg; assumption. Qed.
Lemma prodrow_length rows : length (prodrow rows) = nprod (map (@length R) rows).
Proof. induction rows as [|r rows IH]; [reflexivity|]. cbn [prodrow fold_right map nprod]. fold (prodrow rows). rewrite kron_length, IH. reflexivity. Qed.

(* ---------- the contraction ---------- *)
(* coefficient vector seen by the middle factor: c'_k = sum_a sum_q P_a Q_q coef[a (K B) + k B + q] *)
Definition contract (coef P Q : list R) (K : nat) : list R :=
  map (fun k => sumf (fun a => sumf (fun q => nth a P 0 * nth q Q 0 * nth (a * (K * length Q) + k * length Q + q) coef 0) 0 (length Q)) 0 (length P))
      (seq 0 K).
Lemma contract_length coef P Q K : length (contract coef P Q K) = K.
Proof. unfold contract. rewrite map_length, seq_length. reflexivity. Qed.

Theorem dot_contract coef P Q r : dotR coef (kronR P (kronR r Q)) = dotR (contract coef P Q (length r)) r.
Proof.
  set (K := length r). set (B := length Q). set (A := length P).
  rewrite dot_sumf, kron_length, kron_length. fold A K B.
  rewrite (sumf_block _ (K * B) A).
  rewrite (sumf_ext _ (fun a => sumf (fun k => sumf (fun q =>
             nth (a * (K * B) + k * B + q) coef 0 * (nth a P 0 * (nth k r 0 * nth q Q 0))) 0 B) 0 K)).
  2:{ intros a _. rewrite (sumf_block _ B K). apply sumf_ext. intros k Hk. apply sumf_ext. intros q Hq.
      replace (a * (K * B) + (k * B + q))%nat with (a * (K * B) + k * B + q)%nat by lia. f_equal.
      replace (K * B)%nat with (length (kronR r Q)) by (rewrite kron_length; reflexivity).
      replace (a * length (kronR r Q) + k * B + q)%nat with (a * length (kronR r Q) + (k * B + q))%nat by lia.
      rewrite nth_kron by (rewrite kron_length; fold K B; nia). unfold B. rewrite nth_kron by (fold B; lia). reflexivity. }
  rewrite sumf_exchange. rewrite dot_sumf. fold K. apply sumf_ext. intros k Hk.
  unfold contract. rewrite nth_map_seq0 by lia. fold A B. rewrite <- sumf_scal_r. apply sumf_ext. intros a _.
  rewrite <- sumf_scal_r. apply sumf_ext. intros q _. ring.
Qed.
