(* Proofs/C04.v -- smoothing penalties: quadratic forms, symmetry, PSD, null spaces (real instance) *)
From Coq Require Import List Reals Lra Lia Arith Bool.
From PG Require Import Base.Ops Base.Vec Model.Penalties Proofs.VecR.
Import ListNotations.
Open Scope R_scope.

(* ---------- bilinear form of a gram matrix ---------- *)
Lemma bil_gram p rows u v : Forall (fun x => length x = p) rows -> length u = length rows -> length v = length rows ->
  dotR u (matvecR (gramR rows) v) = dotR (lincombR p u rows) (lincombR p v rows).
Proof. intros HF Hu Hv. unfold matvec, gram. rewrite map_map.
  rewrite (map_ext_in _ (fun ri => dotR ri (lincombR p v rows))).
  2:{ intros ri _. rewrite dot_comm. symmetry. apply dot_lincomb_r; auto. }
  rewrite (dot_comm (lincombR p u rows)). rewrite (dot_lincomb_r p _ u rows HF Hu).
  f_equal. apply map_ext. intros; apply dot_comm. Qed.

Definition bisym (M : list (list R)) (n : nat) : Prop :=
  forall u v, length u = n -> length v = n -> dotR u (matvecR M v) = dotR v (matvecR M u).
Definition psd (M : list (list R)) (n : nat) : Prop := forall u, length u = n -> 0 <= quadR M u.
Definition square (M : list (list R)) (n : nat) : Prop := length M = n /\ Forall (fun r => length r = n) M.

Lemma gram_bisym p rows : Forall (fun x => length x = p) rows -> bisym (gramR rows) (length rows).
Proof. intros HF u v Hu Hv. rewrite !(bil_gram p) by assumption. apply dot_comm. Qed.
Lemma gram_square rows : square (gramR rows) (length rows).
Proof. unfold gram; split; [apply map_length|]. apply Forall_map. apply Forall_forall. intros; apply map_length. Qed.

(* ---------- cyclic difference is linear ---------- *)
Lemma rotl_length (u : list R) : length (rotlR u) = length u.
Proof. destruct u; simpl; [reflexivity|]. rewrite app_length. simpl. lia. Qed.
Lemma vadd_app u1 : forall v1 u2 v2, length u1 = length v1 ->
  vaddR (u1 ++ u2) (v1 ++ v2) = vaddR u1 v1 ++ vaddR u2 v2.
Proof. induction u1 as [|a u1 IH]; intros [|b v1] u2 v2 H; simpl in H; try discriminate; [reflexivity|].
  cbn [app vadd]. rewrite IH by lia. reflexivity. Qed.
Lemma rotl_vadd u v : length u = length v -> rotlR (vaddR u v) = vaddR (rotlR u) (rotlR v).
Proof. destruct u as [|a u], v as [|b v]; simpl; intros H; try discriminate; [reflexivity|].
  rewrite vadd_app by lia. reflexivity. Qed.
Lemma vscale_app c (u v : list R) : vscaleR c (u ++ v) = vscaleR c u ++ vscaleR c v.
Proof. apply map_app. Qed.
Lemma rotl_vscale c u : rotlR (vscaleR c u) = vscaleR c (rotlR u).
Proof. destruct u as [|a u]; [reflexivity|]. unfold vscale. cbn [map rotl]. rewrite map_app. reflexivity. Qed.
Lemma zeros_snoc p : zerosR p ++ [0] = zerosR (S p).
Proof. induction p as [|p IH]; [reflexivity|]. rewrite !zeros_S. cbn [app]. rewrite IH. rewrite zeros_S. reflexivity. Qed.
Lemma rotl_zeros p : rotlR (zerosR p) = zerosR p.
Proof. destruct p; [reflexivity|]. rewrite zeros_S. cbn [rotl]. apply zeros_snoc. Qed.
Lemma cdiff_vadd u v : length u = length v -> cdiffR (vaddR u v) = vaddR (cdiffR u) (cdiffR v).
Proof. intros H. unfold cdiff. rewrite rotl_vadd by assumption. apply vsub_vadd4. Qed.
Lemma cdiff_vscale c u : cdiffR (vscaleR c u) = vscaleR c (cdiffR u).
Proof. unfold cdiff. rewrite rotl_vscale. apply vsub_vscale. Qed.
Lemma cdiff_zeros p : cdiffR (zerosR p) = zerosR p.
Proof. unfold cdiff. rewrite rotl_zeros, vsub_zeros. f_equal. lia. Qed.
Lemma cdiff_length u : length (cdiffR u) = length u.
Proof. unfold cdiff. rewrite vsub_length, rotl_length. lia. Qed.
Lemma cdiffn_length d : forall u, length (cdiffnR d u) = length u.
Proof. induction d; intros; simpl; [reflexivity|]. rewrite cdiff_length. apply IHd. Qed.
Lemma cdiffn_vadd d : forall u v, length u = length v -> cdiffnR d (vaddR u v) = vaddR (cdiffnR d u) (cdiffnR d v).
Proof. induction d; intros u v H; simpl; auto. rewrite IHd by assumption. apply cdiff_vadd. rewrite !cdiffn_length. assumption. Qed.
Lemma cdiffn_vscale d c : forall u, cdiffnR d (vscaleR c u) = vscaleR c (cdiffnR d u).
Proof. induction d; intros; simpl; auto. rewrite IHd, cdiff_vscale. reflexivity. Qed.
Lemma cdiffn_zeros d : forall p, cdiffnR d (zerosR p) = zerosR p.
Proof. induction d; intros; simpl; auto. rewrite IHd. apply cdiff_zeros. Qed.

(* ---------- the quadratic forms ---------- *)
Theorem derivative_quadform n d bs : (1 <= d)%nat -> length bs = n ->
  quadR (pen_derivative Rrops n d) bs = sumsqR (diffnR d bs).
Proof.
  intros Hd H. unfold pen_derivative.
  assert (G : quadR (gramR (map (diffnR d) (identR n))) bs = sumsqR (diffnR d bs)).
  { apply (quad_gram_linop (diffnR d) (fun p => (p - d)%nat)).
    + intros; apply diffn_vadd.
    + intros; apply diffn_vscale.
    + intros; apply diffn_zeros.
    + intros; apply diffn_length.
    + assumption. }
  destruct n as [|[|n]]; [exact G| |exact G].
  - destruct bs as [|b [|? ?]]; try discriminate. destruct d as [|d]; [lia|].
    cbn [diffn]. assert (E : diffnR d [b] = [b] \/ diffnR d [b] = []).
    { clear. induction d; [left; reflexivity|]. cbn [diffn]. destruct IHd as [-> | ->]; right; reflexivity. }
    destruct E as [-> | ->]; cbn; lra.
Qed.

Theorem periodic_quadform n d bs : (1 <= d)%nat -> length bs = n ->
  quadR (pen_cyclic_spec Rrops n d) bs = sumsqR (cdiffnR d bs).
Proof.
  intros Hd H. unfold pen_cyclic_spec.
  assert (G : quadR (gramR (map (cdiffnR d) (identR n))) bs = sumsqR (cdiffnR d bs)).
  { apply (quad_gram_linop (cdiffnR d) (fun p => p)).
    + intros; apply cdiffn_vadd; assumption.
    + intros; apply cdiffn_vscale.
    + intros; apply cdiffn_zeros.
    + intros; apply cdiffn_length.
    + assumption. }
  destruct n as [|[|n]]; [exact G| |exact G].
  - destruct bs as [|b [|? ?]]; try discriminate. destruct d as [|d]; [lia|].
    assert (E : cdiffnR (S d) [b] = [0]).
    { clear. induction d; [cbn; f_equal; lra|]. cbn [cdiffn] in *. rewrite IHd. cbn. f_equal. lra. }
    rewrite E. cbn. lra.
Qed.

Lemma matvec_cons0 M b bs : matvecR (map (cons 0) M) (b :: bs) = matvecR M bs.
Proof. unfold matvec. rewrite map_map. apply map_ext. intros r. cbn. lra. Qed.
Lemma matvec_ident n : forall bs, length bs = n -> matvecR (identR n) bs = bs.
Proof. induction n as [|n IH]; intros [|b bs] H; simpl in H; try discriminate; [reflexivity|].
  cbn [ident]. change (matvecR ((r1 Rrops :: zerosR n) :: map (cons (r0 Rrops)) (identR n)) (b :: bs))
    with (dotR (1 :: zerosR n) (b :: bs) :: matvecR (map (cons 0) (identR n)) (b :: bs)).
  rewrite matvec_cons0, IH by lia. cbn [dot]. rewrite dot_zeros_l. f_equal. cbn. lra. Qed.
Theorem l2_quadform n bs : length bs = n -> quadR (pen_l2 Rrops n) bs = sumsqR bs.
Proof. intros H. unfold quad, pen_l2. rewrite matvec_ident by assumption. reflexivity. Qed.

Lemma matvec_mzero n m v : matvecR (mzeroR n m) v = zerosR n.
Proof. unfold mzero, matvec. induction n; [reflexivity|]. cbn [repeat map]. rewrite IHn. rewrite dot_zeros_l. reflexivity. Qed.
Theorem none_quadform n bs : quadR (pen_none Rrops n) bs = 0.
Proof. unfold quad, pen_none. rewrite matvec_mzero. apply dot_zeros_r. Qed.

(* ---------- null spaces ---------- *)
Lemma diff_const c n : diffR (repeat c n) = zerosR (pred n).
Proof. unfold diff. destruct n; [reflexivity|]. cbn [repeat tl pred]. induction n; [reflexivity|].
  cbn [repeat vsub]. rewrite zeros_S. f_equal; [cbn; lra|]. exact IHn. Qed.
Theorem derivative_null_constants d c n : (1 <= d)%nat -> diffnR d (repeat c n) = zerosR (n - d).
Proof. intros Hd. destruct d; [lia|]. clear Hd. induction d.
  - cbn [diffn]. rewrite diff_const. f_equal. lia.
  - change (diffnR (S (S d)) (repeat c n)) with (diffR (diffnR (S d) (repeat c n))).
    rewrite IHd, diff_zeros. f_equal. lia. Qed.
(* arithmetic progressions a, a+b, a+2b, ... *)
Fixpoint arith (a b : R) (n : nat) : list R := match n with O => [] | S n' => a :: arith (a + b) b n' end.
Lemma diff_arith a b n : diffR (arith a b n) = repeat b (pred n).
Proof. unfold diff. destruct n; [reflexivity|]. cbn [arith tl pred]. revert a. induction n; intros a; [reflexivity|].
  cbn [arith vsub repeat]. f_equal; [cbn; lra|]. apply IHn. Qed.
Theorem derivative_null_lines d a b n : (2 <= d)%nat -> diffnR d (arith a b n) = zerosR (n - d).
Proof. intros Hd. destruct d as [|[|d]]; try lia. clear Hd.
  assert (E : diffnR 1 (arith a b n) = repeat b (pred n)) by (apply diff_arith).
  induction d.
  - change (diffnR 2 (arith a b n)) with (diffR (diffnR 1 (arith a b n))). rewrite E, diff_const. f_equal. lia.
  - change (diffnR (S (S (S d))) (arith a b n)) with (diffR (diffnR (S (S d)) (arith a b n))).
    rewrite IHd, diff_zeros. f_equal. lia. Qed.
Lemma rotl_repeat (c : R) n : rotlR (repeat c n) = repeat c n.
Proof. destruct n; [reflexivity|]. cbn [repeat rotl]. induction n; [reflexivity|]. cbn [repeat app]. f_equal. exact IHn. Qed.
Lemma vsub_self_repeat c n : vsubR (repeat c n) (repeat c n) = zerosR n.
Proof. induction n; [reflexivity|]. cbn [repeat vsub]. rewrite zeros_S. f_equal; [cbn; lra|exact IHn]. Qed.
Theorem periodic_null_constants d c n : (1 <= d)%nat -> cdiffnR d (repeat c n) = zerosR n.
Proof. intros Hd. destruct d; [lia|]. clear Hd. induction d.
  - cbn [cdiffn]. unfold cdiff. rewrite rotl_repeat. apply vsub_self_repeat.
  - change (cdiffnR (S (S d)) (repeat c n)) with (cdiffR (cdiffnR (S d) (repeat c n))).
    rewrite IHd. apply cdiff_zeros. Qed.
Lemma sumsq_zeros p : sumsqR (zerosR p) = 0. Proof. apply dot_zeros_r. Qed.

(* the code's periodic penalty is still a Gram matrix, hence symmetric PSD *)
Lemma periodic_is_gram n d M : pen_periodic Rrops n d = Some M ->
  M = [[0]] \/ exists rows, M = gramR rows.
Proof. unfold pen_periodic. destruct n as [|[|n]].
  - destruct (Nat.ltb 0 d); [discriminate|]. intros E; inversion E. right; eexists; reflexivity.
  - intros E; inversion E. left; reflexivity.
  - destruct (Nat.ltb (S (S n)) d); [discriminate|]. intros E; inversion E. right; eexists; reflexivity.
Qed.
Lemma add_at_length (r : list R) pos v : (pos + length v <= length r)%nat -> length (add_at Rrops r pos v) = length r.
Proof. intros H. unfold add_at. rewrite !app_length, vadd_length, !firstn_length, !skipn_length. lia. Qed.
Lemma slice_length {A} (l : list A) a b : length (slice l a b) = Nat.min b (length l - a).
Proof. unfold slice. rewrite firstn_length, skipn_length. reflexivity. Qed.
Lemma Forall_firstn {A} (P : A -> Prop) k l : Forall P l -> Forall P (firstn k l).
Proof. intros H. apply Forall_forall. intros x Hx. rewrite Forall_forall in H. apply H.
  rewrite <- (firstn_skipn k l). apply in_or_app. left; assumption. Qed.
Lemma Forall_skipn {A} (P : A -> Prop) k l : Forall P l -> Forall P (skipn k l).
Proof. intros H. apply Forall_forall. intros x Hx. rewrite Forall_forall in H. apply H.
  rewrite <- (firstn_skipn k l). apply in_or_app. right; assumption. Qed.
Lemma periodic_D_shape n d : (d <= n)%nat ->
  Forall (fun r => length r = (n - d)%nat) (periodic_D Rrops n d) /\ length (periodic_D Rrops n d) = n.
Proof.
  intros Hdn. unfold periodic_D. set (N := (n + 2 * d)%nat).
  destruct (ident_lengths N) as [HF HL].
  set (D0 := map (diffnR d) (identR N)).
  assert (H0 : Forall (fun r => length r = (n + d)%nat) D0 /\ length D0 = N).
  { split; [|unfold D0; rewrite map_length; exact HL]. unfold D0. apply Forall_map.
    eapply Forall_impl; [|exact HF]. intros r Hr. simpl in Hr. rewrite diffn_length, Hr. unfold N. lia. }
  destruct H0 as [H0 L0].
  set (D1 := map (fun r => add_at Rrops r (n - d) (vscaleR (sgn Rrops d) (firstn d r))) D0).
  assert (H1 : Forall (fun r => length r = (n + d)%nat) D1 /\ length D1 = N).
  { split; [|unfold D1; rewrite map_length; exact L0]. unfold D1. apply Forall_map.
    eapply Forall_impl; [|exact H0]. intros r Hr. simpl in Hr. rewrite add_at_length; [exact Hr|].
    rewrite vscale_length, firstn_length. lia. }
  destruct H1 as [H1 L1].
  set (D2 := firstn (N - N / 2) D1 ++ rev (map (@rev R) (firstn (N / 2) D1))).
  assert (Hdiv : (N / 2 <= N)%nat) by (apply Nat.div_le_upper_bound; lia).
  assert (H2 : Forall (fun r => length r = (n + d)%nat) D2 /\ length D2 = N).
  { split.
    - unfold D2. apply Forall_app. split; [apply Forall_firstn; exact H1|].
      apply Forall_rev. apply Forall_map. apply Forall_firstn.
      eapply Forall_impl; [|exact H1]. intros r Hr. simpl in *. rewrite rev_length. exact Hr.
    - unfold D2. rewrite app_length, rev_length, map_length, !firstn_length, L1. lia. }
  destruct H2 as [H2 L2].
  split.
  - apply Forall_map. unfold slice at 2. apply Forall_firstn. apply Forall_skipn.
    eapply Forall_impl; [|exact H2]. intros r Hr. simpl in *. rewrite slice_length, Hr. lia.
  - rewrite map_length, slice_length, L2. unfold N. lia.
Qed.

Theorem periodic_code_sym_psd n d M : pen_periodic Rrops n d = Some M -> bisym M n /\ psd M n.
Proof.
  unfold pen_periodic. destruct n as [|[|n]].
  - destruct (Nat.ltb 0 d) eqn:E; [discriminate|]. intros X; inversion X; subst. apply Nat.ltb_ge in E.
    destruct (periodic_D_shape 0 d E) as [HF HL]. split.
    + intros u v Hu Hv. apply (gram_bisym (0 - d)); rewrite ?HL; assumption.
    + intros u Hu. unfold quad. rewrite (bil_gram (0 - d)); rewrite ?HL; try assumption. apply sumsq_nonneg.
  - intros X; inversion X; subst. split.
    + intros u v Hu Hv. destruct u as [|a [|? ?]]; try discriminate. destruct v as [|b [|? ?]]; try discriminate. cbn. lra.
    + intros u Hu. destruct u as [|a [|? ?]]; try discriminate. cbn. lra.
  - destruct (Nat.ltb (S (S n)) d) eqn:E; [discriminate|]. intros X; inversion X; subst. apply Nat.ltb_ge in E.
    destruct (periodic_D_shape (S (S n)) d E) as [HF HL]. split.
    + intros u v Hu Hv. rewrite <- HL in Hu, Hv. revert u v Hu Hv. apply (gram_bisym (S (S n) - d)). exact HF.
    + intros u Hu. unfold quad. rewrite (bil_gram (S (S n) - d)); rewrite ?HL; try assumption. apply sumsq_nonneg.
Qed.
