(* Proofs/C08.v -- the statistic formulas GENERATED from pygam.py equal their documented definitions *)
From Coq Require Import Reals Lra List.
From PG Require Import Base.Ops Gen.Stats.
Open Scope R_scope.

Lemma AIC_doc known ll edof : Gen_AIC known ll edof = -2 * ll + 2 * edof + (if known then 0 else 2).
Proof. unfold Gen_AIC, b2r. destruct known; cbn; ring. Qed.
Lemma AICc_doc AIC edof n : Gen_AICc AIC edof n = AIC + 2 * (edof + 1) * (edof + 2) / (n - edof - 2).
Proof. unfold Gen_AICc. reflexivity. Qed.
Lemma GCV_doc n dev edof : n - Gen_gamma_default * edof <> 0 ->
  Gen_gamma_default = 14 / 10 /\ Gen_GCV Gen_gamma_default n dev edof = n * dev / (n - 14 / 10 * edof) ^ 2.
Proof. intros H. unfold Gen_gamma_default in *. split; [lra|]. unfold Gen_GCV. field. lra. Qed.
(* UBRE with the default add_scale = True: the scale that Wood's UBRE subtracts is added back *)
Lemma UBRE_doc n dev edof scale : n <> 0 ->
  Gen_add_scale_default = true /\
  Gen_UBRE Gen_add_scale_default Gen_gamma_default n dev edof scale = dev / n + 2 * (14 / 10) * edof * scale / n /\
  Gen_UBRE false Gen_gamma_default n dev edof scale = dev / n - scale + 2 * (14 / 10) * edof * scale / n.
Proof. intros H. unfold Gen_add_scale_default, Gen_UBRE, Gen_gamma_default, b2r. cbn.
  split; [reflexivity|]. split; field; assumption. Qed.
Lemma r2_doc full_d null_d full_ll null_ll edof :
  Gen_explained_deviance full_d null_d = 1 - full_d / null_d /\
  Gen_McFadden full_ll null_ll = 1 - full_ll / null_ll /\
  Gen_McFadden_adj full_ll null_ll edof = 1 - (full_ll - edof) / null_ll.
Proof. repeat split; reflexivity. Qed.

(* deviance residuals: the square is the (weighted) deviance and the sign is that of y - mu *)
Lemma sign_sq x : x <> 0 -> Gen_sign x * Gen_sign x = 1.
Proof. intros. unfold Gen_sign, Rltb. destruct (Rlt_dec 0 x); [ring|]. destruct (Rlt_dec x 0); [ring|lra]. Qed.
Lemma dev_resid_sq y mu dev : 0 <= dev -> y <> mu ->
  Gen_deviance_residual y mu dev * Gen_deviance_residual y mu dev = dev.
Proof. intros Hd Hne. unfold Gen_deviance_residual.
  replace (Gen_sign (y - mu) * sqrt dev * (Gen_sign (y - mu) * sqrt dev))
    with ((Gen_sign (y - mu) * Gen_sign (y - mu)) * (sqrt dev * sqrt dev)) by ring.
  rewrite sign_sq by lra. rewrite sqrt_sqrt by assumption. ring. Qed.
Lemma dev_resid_sign y mu dev : 0 < dev ->
  (mu < y -> 0 < Gen_deviance_residual y mu dev) /\ (y < mu -> Gen_deviance_residual y mu dev < 0) /\
  (y = mu -> Gen_deviance_residual y mu dev = 0).
Proof. intros Hd. assert (S : 0 < sqrt dev) by (apply sqrt_lt_R0; assumption).
  unfold Gen_deviance_residual, Gen_sign, Rltb. repeat split; intros H.
  - destruct (Rlt_dec 0 (y - mu)); [lra|lra].
  - destruct (Rlt_dec 0 (y - mu)); [lra|]. destruct (Rlt_dec (y - mu) 0); [nra|lra].
  - subst. destruct (Rlt_dec 0 (mu - mu)); [lra|]. destruct (Rlt_dec (mu - mu) 0); [lra|ring]. Qed.
(* accuracy counts exactly the observations whose thresholded mean equals the 0/1 response *)
Lemma accuracy_hit y mu : (y = 0 \/ y = 1) ->
  (Gen_accuracy_hit y mu = true <-> ((1 / 2 < mu /\ y = 1) \/ (mu <= 1 / 2 /\ y = 0))).
Proof. intros Hy. unfold Gen_accuracy_hit, Reqb, b2r, Rltb.
  destruct (Rlt_dec (1 / 2) mu) as [h|h]; cbv beta iota.
  - destruct (Req_EM_T 1 y) as [e|n]; split; intros H.
    + left; split; lra.
    + reflexivity.
    + discriminate.
    + exfalso. destruct H as [[? ?]|[? ?]]; [apply n; lra|lra].
  - destruct (Req_EM_T 0 y) as [e|n]; split; intros H.
    + right; split; lra.
    + reflexivity.
    + discriminate.
    + exfalso. destruct H as [[? ?]|[? ?]]; [lra|apply n; lra]. Qed.
