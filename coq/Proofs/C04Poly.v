(* Proofs/C04Poly.v -- the d-th difference annihilates every polynomial sequence of degree below d (C04: "leaves constants - and,
   non-cyclic, polynomials of degree below d - unpenalised").  Function-level forward differences, the class of sequences killed by
   the m-th difference is closed under shifts, sums, scalings and multiplication by the index (which raises m by one); then the
   list-level np.diff of the model is the function-level difference on the sampled points. *)
From Coq Require Import List Reals Lra Lia Arith.
From PG Require Import Base.Ops Base.Vec Model.Penalties Proofs.VecR Proofs.C04.
Import ListNotations.
Open Scope R_scope.

Definition fdiff (f : nat -> R) (i : nat) : R := f (S i) - f i.
Fixpoint fdiffn (d : nat) (f : nat -> R) : nat -> R := match d with O => f | S d' => fdiff (fdiffn d' f) end.
Definition shiftf (f : nat -> R) (i : nat) : R := f (S i).
Definition killed (m : nat) (f : nat -> R) : Prop := forall i, fdiffn m f i = 0.

Lemma fdiffn_ext d : forall f g, (forall i, f i = g i) -> forall i, fdiffn d f i = fdiffn d g i.
Proof. induction d as [|d IH]; intros f g E i; cbn [fdiffn]; [apply E|]. unfold fdiff. rewrite (IH f g E), (IH f g E). reflexivity. Qed.
Lemma fdiffn_S_inner d : forall f i, fdiffn (S d) f i = fdiffn d (fdiff f) i.
Proof. induction d as [|d IH]; intros f i; [reflexivity|]. change (fdiffn (S (S d)) f i) with (fdiff (fdiffn (S d) f) i).
  unfold fdiff at 1. rewrite (IH f (S i)), (IH f i). reflexivity. Qed.
Lemma fdiffn_shift d : forall f i, fdiffn d (shiftf f) i = fdiffn d f (S i).
Proof. induction d as [|d IH]; intros f i; [reflexivity|]. cbn [fdiffn]. unfold fdiff. rewrite !IH. reflexivity. Qed.
Lemma fdiffn_add d : forall f g i, fdiffn d (fun j => f j + g j) i = fdiffn d f i + fdiffn d g i.
Proof. induction d as [|d IH]; intros f g i; [reflexivity|]. cbn [fdiffn]. unfold fdiff. rewrite !IH. lra. Qed.
Lemma fdiffn_scale d c : forall f i, fdiffn d (fun j => c * f j) i = c * fdiffn d f i.
Proof. induction d as [|d IH]; intros f i; [reflexivity|]. cbn [fdiffn]. unfold fdiff. rewrite !IH. lra. Qed.

Lemma killed_ext m f g : (forall i, f i = g i) -> killed m f -> killed m g.
Proof. intros E K i. rewrite <- (fdiffn_ext m f g E). apply K. Qed.
Lemma killed_S m f : killed m f -> killed (S m) f.
Proof. intros K i. cbn [fdiffn]. unfold fdiff. rewrite !K. lra. Qed.
Lemma killed_le m m' f : (m <= m')%nat -> killed m f -> killed m' f.
Proof. induction 1 as [|m' _ IH]; intros K; [exact K|]. apply killed_S, IH, K. Qed.
Lemma killed_shift m f : killed m f -> killed m (shiftf f).
Proof. intros K i. rewrite fdiffn_shift. apply K. Qed.
Lemma killed_add m f g : killed m f -> killed m g -> killed m (fun j => f j + g j).
Proof. intros Kf Kg i. rewrite fdiffn_add, Kf, Kg. lra. Qed.
Lemma killed_scale m c f : killed m f -> killed m (fun j => c * f j).
Proof. intros K i. rewrite fdiffn_scale, K. lra. Qed.
Lemma killed_fdiff m f : killed (S m) f -> killed m (fdiff f).
Proof. intros K i. rewrite <- fdiffn_S_inner. apply K. Qed.

(* multiplying by the index raises the order by one:  D (i f) = i D f + shift f, with D f killed by m and shift f killed by S m *)
Lemma killed_times_index m : forall f, killed m f -> killed (S m) (fun j => INR j * f j).
Proof. induction m as [|m IH]; intros f K.
  - intros i. cbn [fdiffn]. unfold fdiff. pose proof (K (S i)) as A. pose proof (K i) as B. cbn [fdiffn] in A, B. rewrite A, B. lra.
  - intros i. rewrite fdiffn_S_inner.
    assert (E : forall j, fdiff (fun j => INR j * f j) j = INR j * fdiff f j + shiftf f j).
    { intros j. unfold fdiff, shiftf. rewrite S_INR. lra. }
    rewrite (fdiffn_ext (S m) _ _ E). rewrite fdiffn_add.
    rewrite (IH (fdiff f) (killed_fdiff m f K) i).
    rewrite (killed_shift (S m) f K i). lra. Qed.

(* monomials and polynomials *)
Lemma killed_const c : killed 1 (fun _ => c).
Proof. intros i. cbn. unfold fdiff. lra. Qed.
Lemma killed_monomial j : killed (S j) (fun i => INR i ^ j).
Proof. induction j as [|j IH]; [apply (killed_ext 1 (fun _ => 1)); [intros; reflexivity | apply killed_const]|].
  apply (killed_ext (S (S j)) (fun i => INR i * INR i ^ j)); [intros i; reflexivity|]. apply killed_times_index, IH. Qed.

(* polynomial with coefficient list cs (constant term first) evaluated at the index *)
Fixpoint polyval (cs : list R) (x : R) : R := match cs with [] => 0 | c :: cs' => c + x * polyval cs' x end.
Lemma killed_poly : forall cs, killed (length cs) (fun i => polyval cs (INR i)).
Proof. induction cs as [|c cs IH]; [intros i; reflexivity|]. cbn [length polyval].
  apply (killed_add (S (length cs)) (fun _ => c) (fun i => INR i * polyval cs (INR i))).
  - apply (killed_le 1); [lia | apply killed_const].
  - apply killed_times_index, IH. Qed.

(* list level: np.diff of the sampled sequence is the sampled function-level difference *)
Definition sample (f : nat -> R) (a n : nat) : list R := map f (seq a n).
Lemma sample_S f a n : sample f a (S n) = f a :: sample f (S a) n. Proof. reflexivity. Qed.
Lemma vsub_sample f : forall n a, vsubR (sample f (S a) n) (sample f a (S n)) = sample (fdiff f) a n.
Proof. induction n as [|n IH]; intros a; [reflexivity|].
  rewrite (sample_S f (S a) n), (sample_S f a (S n)), (sample_S (fdiff f) a n). cbn [vsub].
  f_equal; [try (unfold fdiff; cbn; lra) ..]; try apply IH. Qed.
Lemma diff_sample f : forall n a, diffR (sample f a n) = sample (fdiff f) a (pred n).
Proof. unfold diff. intros n a. destruct n as [|n]; [reflexivity|]. rewrite sample_S at 1. cbn [tl pred]. apply vsub_sample. Qed.
Lemma diffn_sample d : forall f n a, diffnR d (sample f a n) = sample (fdiffn d f) a (n - d).
Proof. induction d as [|d IH]; intros f n a; [cbn [diffn fdiffn]; f_equal; lia|].
  cbn [diffn]. rewrite IH, diff_sample. cbn [fdiffn]. f_equal. lia. Qed.
Lemma sample_killed m f a n : killed m f -> sample (fdiffn m f) a n = zerosR n.
Proof. intros K. unfold sample. revert a. induction n as [|n IH]; intros a; [reflexivity|]. cbn [seq map]. rewrite K, IH. reflexivity. Qed.

(* the theorem: a polynomial sequence of degree < d (at most d coefficients), sampled at a, a+1, ..., has vanishing d-th difference,
   hence zero quadratic form under the order-d derivative penalty *)
Theorem derivative_null_polynomials d cs a n : (length cs <= d)%nat ->
  diffnR d (sample (fun i => polyval cs (INR i)) a n) = zerosR (n - d).
Proof. intros L. rewrite diffn_sample. apply sample_killed. apply (killed_le (length cs)); [exact L | apply killed_poly]. Qed.

Lemma sumsq_zeros p : sumsqR (zerosR p) = 0.
Proof. unfold sumsq. apply dot_zeros_r. Qed.
Lemma sample_length f a n : length (sample f a n) = n.
Proof. unfold sample. rewrite map_length, seq_length. reflexivity. Qed.
(* ... so the order-d derivative penalty leaves it unpenalised *)
Theorem derivative_penalty_null_polynomials d cs n : (1 <= d)%nat -> (length cs <= d)%nat ->
  quadR (pen_derivative Rrops n d) (sample (fun i => polyval cs (INR i)) 0 n) = 0.
Proof. intros D L. rewrite (derivative_quadform n d _ D (sample_length _ 0 n)), (derivative_null_polynomials d cs 0 n L). apply sumsq_zeros. Qed.

Example null_polynomial_example :
  diffnR 3 (sample (fun i => polyval [2; -1; 1/2]%R (INR i)) 0 6) = zerosR 3 /\ (length [2; -1; 1/2]%R <= 3)%nat.
Proof. split; [apply derivative_null_polynomials|]; cbn; lia. Qed.
