(* Proofs/C04Kron3.v -- marginal penalties with non-negative lam are symmetric PSD (so the hypothesis of
   C04Kron2.tensor_penalty_sym_psd is dischargeable), and worked examples of the fibre decomposition.       *)
From Coq Require Import List Reals Lra Lia Arith Bool Permutation ZArith.
From PG Require Import Base.Ops Base.Vec Model.Penalties Proofs.VecR Proofs.C04 Proofs.C04b Proofs.C04Kron Proofs.C04Kron2.
Import ListNotations.
Open Scope R_scope.

(* ---------- every penalty matrix of the model is symmetric PSD ---------- *)
Definition sympsd (M : list (list R)) (n : nat) : Prop := bisym M n /\ psd M n.
Lemma gram_sympsd p rows : Forall (fun x => length x = p) rows -> sympsd (gramR rows) (length rows).
Proof. intros HF. split; [apply (gram_bisym p); exact HF|].
  intros u Hu. unfold quad. rewrite (bil_gram p) by assumption. apply sumsq_nonneg. Qed.
Lemma zero11_sympsd : sympsd [[0]] 1.
Proof. split.
  - intros u v Hu Hv. destruct u as [|a [|? ?]]; try discriminate. destruct v as [|b [|? ?]]; try discriminate. cbn. lra.
  - intros u Hu. destruct u as [|a [|? ?]]; try discriminate. cbn. lra. Qed.
Lemma nil_sympsd n : sympsd [] n.
Proof. split.
  - intros u v _ _. cbn. destruct u, v; reflexivity.
  - intros u _. unfold quad. cbn. destruct u; cbn; lra. Qed.
Lemma mzero_sympsd n : sympsd (mzeroR n n) n.
Proof. split.
  - intros u v _ _. rewrite !matvec_mzero, !dot_zeros_r. reflexivity.
  - intros u _. unfold quad. rewrite matvec_mzero, dot_zeros_r. lra. Qed.
Lemma ident_sympsd n : sympsd (identR n) n.
Proof. split.
  - intros u v Hu Hv. rewrite !matvec_ident by assumption. apply dot_comm.
  - intros u Hu. unfold quad. rewrite matvec_ident by assumption. apply sumsq_nonneg. Qed.
Lemma pen_derivative_sympsd n d : sympsd (pen_derivative Rrops n d) n.
Proof. unfold pen_derivative. destruct (ident_lengths n) as [HF HL].
  assert (G : sympsd (gramR (map (diffnR d) (identR n))) n).
  { pose proof (gram_sympsd (n - d) (map (diffnR d) (identR n))) as S. rewrite map_length, HL in S. apply S.
    apply Forall_map. eapply Forall_impl; [|exact HF]. intros r Hr. cbn beta in *. rewrite diffn_length, Hr. reflexivity. }
  destruct n as [|[|n]]; [exact G|exact zero11_sympsd|exact G]. Qed.
Theorem pen_matrix_sympsd k n p : sympsd (pen_matrix Rrops k n p) n.
Proof. unfold pen_matrix. destruct (match p with PAuto => resolve_auto k | _ => p end) as [| d | d | |].
  - apply mzero_sympsd.
  - apply pen_derivative_sympsd.
  - destruct (pen_periodic Rrops n d) as [M|] eqn:E; [exact (periodic_code_sym_psd n d M E)|apply nil_sympsd].
  - apply ident_sympsd.
  - apply mzero_sympsd. Qed.

Lemma bil_mscale c A u v : bilR (mscaleR c A) u v = c * bilR A u v.
Proof. unfold bilR. rewrite matvec_mscale. apply dot_vscale_r. Qed.
Lemma sympsd_madd_mscale acc X n c : square acc n -> square X n -> 0 <= c -> sympsd acc n -> sympsd X n ->
  sympsd (maddR acc (mscaleR c X)) n.
Proof. intros Sa SX Hc [Ba Pa] [BX PX]. pose proof (mscale_square c X n SX) as ScX. split.
  - intros u v Hu Hv. fold (bilR (maddR acc (mscaleR c X)) u v). fold (bilR (maddR acc (mscaleR c X)) v u).
    rewrite !(bil_madd acc _ _ _ n Sa ScX), !bil_mscale. unfold bilR. rewrite (Ba u v Hu Hv), (BX u v Hu Hv). reflexivity.
  - intros u Hu. rewrite (quad_madd acc _ u n Sa ScX), quad_mscale.
    pose proof (Pa u Hu). pose proof (PX u Hu). nra. Qed.
Definition lam_nonneg (m : @margin R) : Prop := Forall (fun pl => 0 <= snd pl) (m_pens m).
Theorem margin_penalty_sympsd m : margin_ok m -> lam_nonneg m -> sympsd (margin_penalty Rrops m) (m_n m).
Proof. unfold margin_ok, lam_nonneg, margin_penalty. destruct m as [k n pens]. cbn [m_kind m_n m_pens].
  intros Hok Hlam.
  assert (G : forall acc, square acc n -> sympsd acc n ->
    sympsd (fold_left (fun acc pl => maddR acc (mscaleR (snd pl) (pen_matrix Rrops k n (fst pl)))) pens acc) n).
  { induction pens as [|[p lam] pens IH]; intros acc Sa Pa; cbn [fold_left]; [exact Pa|].
    inversion Hok as [|? ? Hp Hrest]; inversion Hlam as [|? ? Hl Hlrest]; subst. cbn [fst snd] in *.
    assert (SX : square (pen_matrix Rrops k n p) n) by (apply pen_matrix_square; exact Hp).
    apply IH; try assumption.
    - apply madd_square; [exact Sa|apply mscale_square; exact SX].
    - apply sympsd_madd_mscale; try assumption. apply pen_matrix_sympsd. }
  apply G; [apply mzero_square|apply mzero_sympsd]. Qed.
Theorem tensor_penalty_sym_psd_lam ms : Forall margin_ok ms -> Forall lam_nonneg ms ->
  square (tensor_penalty Rrops ms) (tensor_n ms) /\
  bisym (tensor_penalty Rrops ms) (tensor_n ms) /\ psd (tensor_penalty Rrops ms) (tensor_n ms).
Proof. intros Hok Hlam. split; [apply tensor_penalty_square; exact Hok|].
  apply tensor_penalty_sym_psd; [exact Hok|]. apply Forall_forall. intros m Hm. rewrite Forall_forall in Hok, Hlam.
  apply margin_penalty_sympsd; [apply Hok|apply Hlam]; exact Hm. Qed.

(* ---------- examples: the fibre function on a 2 x 3 x 2 array (C order) ---------- *)
Example fibres_232_axis0 : fibres 0%nat [2;3;2]%nat 0 (seq 0 12) = [[0;6];[1;7];[2;8];[3;9];[4;10];[5;11]]%nat.
Proof. reflexivity. Qed.
Example fibres_232_axis1 : fibres 0%nat [2;3;2]%nat 1 (seq 0 12) = [[0;2;4];[1;3;5];[6;8;10];[7;9;11]]%nat.
Proof. reflexivity. Qed.
Example fibres_232_axis2 : fibres 0%nat [2;3;2]%nat 2 (seq 0 12) = [[0;1];[2;3];[4;5];[6;7];[8;9];[10;11]]%nat.
Proof. reflexivity. Qed.
Example fibres_232_axis1_R : forall v0 v1 v2 v3 v4 v5 v6 v7 v8 v9 v10 v11 : R,
  fibres 0 [2;3;2]%nat 1 [v0;v1;v2;v3;v4;v5;v6;v7;v8;v9;v10;v11] = [[v0;v2;v4];[v1;v3;v5];[v6;v8;v10];[v7;v9;v11]].
Proof. reflexivity. Qed.

(* a 3-way tensor term with sizes 2, 3, 2 and non-trivial marginal penalties:
   2 D1'D1,   D2'D2 + 3 I,   5 D1'D1 + I                                                  *)
Definition ex_ms {T} (c : Z -> T) : list (@margin T) :=
  [ mk_margin (KSpline false false) 2 [(PDeriv 1, c 2%Z)];
    mk_margin (KSpline false false) 3 [(PDeriv 2, c 1%Z); (PL2, c 3%Z)];
    mk_margin (KSpline false false) 2 [(PDeriv 1, c 5%Z); (PL2, c 1%Z)] ].
Definition ex_vZ : list Z := [3; -1; 4; 1; -5; 9; 2; -6; 5; 3; -5; 8]%Z.
Definition zdm : @margin Z := mk_margin KLinear 0 [].
Definition fibre_sum_Z (ms : list (@margin Z)) (i : nat) (v : list Z) : Z :=
  vsum Zrops (map (quad Zrops (margin_penalty Zrops (nth i ms zdm))) (fibres 0%Z (map (@m_n Z) ms) i v)).
(* the integer instance of the model computes the same numbers on both sides, axis by axis and in total *)
Example ex_lift_Z :
  map (fun i => quad Zrops (marginal_lift Zrops (ex_ms (fun z => z)) i) ex_vZ) [0;1;2]%nat
  = map (fun i => fibre_sum_Z (ex_ms (fun z => z)) i ex_vZ) [0;1;2]%nat.
Proof. vm_compute. reflexivity. Qed.
Example ex_lift_Z_values :
  map (fun i => fibre_sum_Z (ex_ms (fun z => z)) i ex_vZ) [0;1;2]%nat = [64; 1209; 2586]%Z.
Proof. vm_compute. reflexivity. Qed.
Example ex_tensor_Z :
  quad Zrops (tensor_penalty Zrops (ex_ms (fun z => z))) ex_vZ = (64 + 1209 + 2586)%Z.
Proof. vm_compute. reflexivity. Qed.

(* the real instance: the hypotheses of the theorems hold of this term ... *)
Example ex_ok : Forall margin_ok (ex_ms IZR) /\ Forall lam_nonneg (ex_ms IZR).
Proof. split; repeat constructor; cbn; lra. Qed.
(* ... and the general theorem instantiates to the explicit fibre sum along axis 1 *)
Example ex_lift_R : forall v0 v1 v2 v3 v4 v5 v6 v7 v8 v9 v10 v11 : R,
  let P1 := margin_penalty Rrops (mk_margin (KSpline false false) 3 [(PDeriv 2, 1); (PL2, 3)]) in
  quadR (marginal_lift Rrops (ex_ms IZR) 1) [v0;v1;v2;v3;v4;v5;v6;v7;v8;v9;v10;v11]
  = quadR P1 [v0;v2;v4] + quadR P1 [v1;v3;v5] + quadR P1 [v6;v8;v10] + quadR P1 [v7;v9;v11].
Proof. intros. destruct ex_ok as [Hok _].
  rewrite (tensor_kron_lift_nth (ex_ms IZR) 1 _ _ eq_refl); [|repeat constructor|reflexivity].
  change (fibres 0 (map (@m_n R) (ex_ms IZR)) 1 [v0;v1;v2;v3;v4;v5;v6;v7;v8;v9;v10;v11])
    with [[v0;v2;v4];[v1;v3;v5];[v6;v8;v10];[v7;v9;v11]].
  cbn [map vsum]. fold P1. cbn [radd r0 Rrops]. lra. Qed.
(* the marginal quadratic form itself, written out *)
Example ex_P1_form : forall a b c : R,
  quadR (margin_penalty Rrops (mk_margin (KSpline false false) 3 [(PDeriv 2, 1); (PL2, 3)])) [a;b;c]
  = (a - 2 * b + c) * (a - 2 * b + c) + 3 * (a * a + b * b + c * c).
Proof. intros. rewrite margin_penalty_sum by (repeat constructor).
  cbn [sum_lam_quad m_kind m_n m_pens]. unfold pen_matrix. cbn [resolve_auto].
  rewrite (derivative_quadform 3 2 [a;b;c]) by (auto with arith). rewrite (l2_quadform 3 [a;b;c] eq_refl).
  cbn. lra. Qed.
