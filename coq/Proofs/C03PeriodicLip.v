(* Proofs/C03PeriodicLip.v -- every column of the periodic basis (order k >= 1) is Lipschitz on the wrapped axis [0,1] with
   constant n = 1/h (h = knot spacing of the scaled axis): |B'| <= 1/h on every polynomial piece by the B-spline derivative
   formula (Proofs/C05ShapeDeriv.v), pieces glued by continuity at the knots (Proofs/C05ShapeGlue.v).  Real instance.   *)
From Coq Require Import List ZArith Reals Lra Lia Bool Arith.
From PG Require Import Base.Ops Base.Vec Model.BSpline Proofs.C03Basis Proofs.C03Row Proofs.C03Scale Proofs.C03Periodic
  Proofs.C03PeriodicSupport Proofs.C05ShapeDeriv Proofs.C05ShapeGlue.
Import ListNotations.
Open Scope R_scope.

Lemma Rabs_le_both x a : Rabs x <= a -> - a <= x <= a.
Proof. unfold Rabs. destruct (Rcase_abs x); lra. Qed.

Lemma vsum_ge_nth : forall (l : list R), Forall (fun v => 0 <= v) l -> forall i, nth i l 0 <= vsumR l.
Proof.
  induction l as [|a l IH]; intros F i.
  - destruct i; cbn; lra.
  - inversion F; subst. assert (0 <= vsumR l).
    { clear -H2. induction l as [|b l IH]; cbn; [lra|]. inversion H2; subst. cbn in IH. specialize (IH H3). lra. }
    destruct i as [|i]; cbn [nth]; change (vsumR (a :: l)) with (a + vsumR l); [lra|]. specialize (IH H2 i). lra.
Qed.

(* any strictly increasing knots: on the piece j0 every B-spline of order m <= j0 is at most 1 *)
Lemma Bix_le_1 (t : nat -> R) (tinc : forall i, t i < t (S i)) x j0 m i : t j0 <= x <= t (S j0) -> (m <= j0)%nat ->
  Bix Rfops t (ind j0) x m i <= 1.
Proof.
  intros Hx Hm. destruct (le_lt_dec i j0) as [Hi|Hi].
  - pose proof (partition_of_unity t tinc x j0 m 0 (j0 - m) ltac:(lia)) as PU. unfold sumB in PU.
    replace (m + S (j0 - m))%nat with (S j0) in PU by lia.
    pose proof (vsum_ge_nth (map (Bix Rfops t (ind j0) x m) (seq 0 (S j0)))
                  (Forall_map_seq _ _ 0 (S j0) (fun i => inonneg t tinc x j0 Hx m i)) i) as G.
    rewrite nth_map_seq in G. destruct (Nat.ltb_spec i (S j0)); [|lia]. lra.
  - rewrite (isupport t tinc x j0 m i) by lia. lra.
Qed.

Section Lip.
Variables n k : nat.
Hypothesis Hkn : (k < n)%nat.
Hypothesis Hk : (1 <= k)%nat.
Notation t := (knot Rfops (n + k) k).
Notation tinc := (knot_inc (n + k) k (Hlt n k Hkn Hk)).
Notation h := (stepR (n + k) k).

Lemma h_pos : 0 < h. Proof. apply step_pos. apply (Hlt n k Hkn Hk). Qed.
Lemma h_inv : / h = INR n.
Proof.
  unfold stepR. rewrite Rinv_inv. unfold zdiff. rewrite INR_IZR_INZ. f_equal. lia.
Qed.
Lemma knot_gap_ge i m : INR m * h <= t (i + m)%nat - t i.
Proof.
  rewrite !(knot_R (n + k) k (Hlt n k Hkn Hk)). pose proof e9_pos. pose proof h_pos.
  assert (E : IZR (zdiff (i + m) k) = IZR (zdiff i k) + INR m).
  { unfold zdiff. rewrite INR_IZR_INZ, <- plus_IZR. f_equal. lia. }
  rewrite E. destruct (Nat.leb_spec (n + k + k) (i + m)), (Nat.leb_spec (n + k + k) i); try lia; nra.
Qed.

(* |d/dx B_{i,k}| <= 1/h on the closed piece j0 (k <= j0) *)
Lemma dform_bound j0 i x : (k <= j0)%nat -> t j0 <= x <= t (S j0) ->
  Rabs (dform t (ind j0) k i x) <= / h.
Proof.
  intros Hj Hx. unfold dform. pose proof h_pos as Hh.
  assert (Kp : 0 < INR k) by (apply lt_0_INR; lia).
  assert (T : forall (b d : R), 0 <= b <= 1 -> INR k * h <= d -> 0 <= INR k * (b / d) <= / h).
  { intros b d [B0 B1] Hd. assert (Dp : 0 < d) by nra.
    assert (Q : 0 <= INR k / d <= / h).
    { split; [apply Rmult_le_pos; [lra|left; apply Rinv_0_lt_compat; lra]|].
      assert (I1 : / d <= / (INR k * h)) by (apply Rinv_le_contravar; nra).
      assert (I2 : INR k * / (INR k * h) = / h) by (field; split; lra).
      unfold Rdiv. rewrite <- I2. apply Rmult_le_compat_l; lra. }
    replace (INR k * (b / d)) with (b * (INR k / d)) by (unfold Rdiv; ring). nra. }
  pose proof (T (Bix Rfops t (ind j0) x (pred k) i) (t (i + k)%nat - t i)
                (conj (inonneg t tinc x j0 Hx (pred k) i) (Bix_le_1 t tinc x j0 (pred k) i Hx ltac:(lia))) (knot_gap_ge i k)) as A1.
  pose proof (T (Bix Rfops t (ind j0) x (pred k) (S i)) (t (i + S k)%nat - t (S i))
                (conj (inonneg t tinc x j0 Hx (pred k) (S i)) (Bix_le_1 t tinc x j0 (pred k) (S i) Hx ltac:(lia)))) as A2.
  assert (G2 : INR k * h <= t (i + S k)%nat - t (S i)).
  { replace (i + S k)%nat with (S i + k)%nat by lia. apply knot_gap_ge. }
  specialize (A2 G2). rewrite Rmult_minus_distr_l. apply Rabs_le. lra.
Qed.

(* one unfolded column on one piece *)
Lemma ucol_piece_lip j0 i x y : (k <= j0)%nat -> t j0 <= x -> x <= y -> y <= t (S j0) ->
  Rabs (ucol n k j0 i y - ucol n k j0 i x) <= / h * (y - x).
Proof.
  intros Hj H1 Hxy H2. destruct (Req_dec x y) as [->|Hne].
  - rewrite Rminus_diag_eq by reflexivity. rewrite Rabs_R0. lra.
  - assert (Hlt' : x < y) by lra.
    destruct (MVT_cor2 (ucol n k j0 i) (dform t (ind j0) k i) x y Hlt') as [c [E Hc]].
    { intros c _. apply (Bix_derivative t tinc (ind j0) k i c Hk). }
    rewrite E, Rabs_mult. rewrite (Rabs_right (y - x)) by lra.
    apply Rmult_le_compat_r; [lra|]. apply dform_bound; [assumption|lra].
Qed.
Lemma fcol_piece_lip j0 c x y : (k <= j0)%nat -> t j0 <= x -> x <= y -> y <= t (S j0) ->
  Rabs (fcol n k j0 c y - fcol n k j0 c x) <= / h * (y - x).
Proof.
  intros Hj H1 Hxy H2. rewrite !(fcol_sel n k Hkn Hk) by lra. apply ucol_piece_lip; assumption.
Qed.
Lemma fcol_cont j0 c : fcol n k j0 c (t (S j0)) = fcol n k (S j0) c (t (S j0)).
Proof.
  unfold fcol, ucol. rewrite !(continuity_at_knot t tinc (t (S j0)) j0 k _ eq_refl Hk). reflexivity.
Qed.

Definition inpc (j : nat) (w : R) : Prop := t j <= w <= t (S j).

(* gluing: L*w + f and L*w - f are non-decreasing along the pieces *)
Lemma fcol_glue (sgn : R) c : sgn = 1 \/ sgn = -1 -> forall d j x y, (k <= j)%nat -> (j + d <= n + k - 1)%nat ->
  inpc j x -> inpc (j + d) y -> x <= y ->
  / h * x + sgn * fcol n k j c x <= / h * y + sgn * fcol n k (j + d) c y.
Proof.
  intros Hs.
  apply (glue_mono inpc t k (n + k - 1)).
  - intros j Hj. unfold inpc. pose proof (tinc j). pose proof (tinc (S j)). lra.
  - intros j Hj. unfold inpc. pose proof (tinc (S j)). lra.
  - intros j x Hj Hx. unfold inpc in Hx. lra.
  - intros j x Hj Hx. unfold inpc in Hx. lra.
  - intros j x y Hj Hx Hy Hxy. unfold inpc in *.
    pose proof (fcol_piece_lip j c x y ltac:(lia) ltac:(lra) Hxy ltac:(lra)) as Lp.
    apply Rabs_le_both in Lp. destruct Hs as [-> | ->]; lra.
  - intros j Hj. rewrite fcol_cont. lra.
Qed.

(* the columns of the periodic basis on the wrapped axis [0,1] *)
Lemma wrap_id w : 0 <= w <= 1 -> wrapR w = w.
Proof.
  intros [W0 W1]. unfold wrapR. pose proof e9_pos. rewrite fmod_small by (unfold pR; lra).
  unfold Rmin. destruct (Rle_dec w 1); lra.
Qed.
Theorem pcol_lipschitz c w1 w2 : (c < n)%nat -> 0 <= w1 -> w1 <= w2 -> w2 <= 1 ->
  Rabs (pcol n k c w2 - pcol n k c w1) <= INR n * (w2 - w1).
Proof.
  intros Hc W0 W12 W1. rewrite <- h_inv.
  destruct (pcol_piece n k w1 ltac:(lia)) as [j1 [Hj1 [I1 E1]]]. destruct (pcol_piece n k w2 ltac:(lia)) as [j2 [Hj2 [I2 E2]]].
  rewrite (wrap_id w1) in * by lra. rewrite (wrap_id w2) in * by lra.
  destruct (le_lt_dec j1 j2) as [Hle|Hlt'].
  - rewrite E1, E2 by assumption.
    pose proof (fcol_glue 1 c (or_introl eq_refl) (j2 - j1) j1 w1 w2 ltac:(lia) ltac:(lia) I1) as G1.
    pose proof (fcol_glue (-1) c (or_intror eq_refl) (j2 - j1) j1 w1 w2 ltac:(lia) ltac:(lia) I1) as G2.
    replace (j1 + (j2 - j1))%nat with j2 in * by lia. specialize (G1 I2 W12). specialize (G2 I2 W12).
    apply Rabs_le. lra.
  - (* located pieces in the wrong order: the two points coincide *)
    pose proof (tmono t tinc (S j2) j1 ltac:(lia)). assert (w1 = w2) by lra. subst w2.
    rewrite Rminus_diag_eq by reflexivity. rewrite Rabs_R0. lra.
Qed.
End Lip.
