(* Proofs/C01Alg.v -- the generated solver expression (Gen/Solver.v) instantiates the abstract factorisation theorems *)
From mathcomp Require Import all_ssreflect all_algebra.
From PG Require Import Alg.Solve Alg.Order Gen.Solver.
Set Implicit Arguments. Unset Strict Implicit. Unset Printing Implicit Defensive.
Import GRing.Theory Num.Theory.
Local Open Scope ring_scope.

Section A.
Variable F : fieldType.
Variables (n k m : nat).
Variables (WB : 'M[F]_(n,m)) (Q : 'M[F]_(n,k)) (R : 'M[F]_(k,m)) (E : 'M[F]_(m,m)).
(* U1 has as many columns as the code keeps singular directions: Gen_c k m.  The theorems need all m of them;
   on a tree where Gen_c k m is not (convertible to) m this file does not type-check: obligation broken. *)
Variables (U1 : 'M[F]_(k, Gen_c k m)) (U2 : 'M[F]_(m, Gen_c k m)) (D V : 'M[F]_m) (Dinv : 'M[F]_(m, Gen_c k m)).
Hypothesis HQR : WB = Q *m R.
Hypothesis HQ : Q^T *m Q = 1%:M.
Hypothesis HR : R = U1 *m D *m V^T.
Hypothesis HE : E = U2 *m D *m V^T.
Hypothesis HU : U1^T *m U1 + U2^T *m U2 = 1%:M.
Hypothesis HV : V^T *m V = 1%:M.
Hypothesis HVV : V *m V^T = 1%:M.
Hypothesis HD : D *m Dinv = 1%:M.
Hypothesis HDs : D^T = D.

Theorem update_solves_normal_equations (z : 'cV[F]_n) :
  (WB^T *m WB + E^T *m E) *m Gen_coef_new V Dinv U1 Q z = WB^T *m z.
Proof. exact: (normal_eq HQR HQ HR HE HU HV HD HDs z). Qed.
Theorem edof_is_trace_of_influence :
  Gen_edof U1 = \tr (WB *m Gen_Bmat V Dinv U1 Q).
Proof. by rewrite /Gen_edof (edof_trace HQR HQ HR HV HD). Qed.
Theorem cov_is_sandwich (scale : F) :
  (WB^T *m WB + E^T *m E) *m Gen_cov scale (Gen_Bmat V Dinv U1 Q) *m (WB^T *m WB + E^T *m E) = scale *: (WB^T *m WB).
Proof.
rewrite /Gen_cov -scalemxAr -scalemxAl; congr (_ *: _).
exact: (cov_sandwich HQR HQ HR HE HU HV HD HDs).
Qed.
End A.
