(* Proofs/C05TensorFinal.v -- combination: the tensor term's constraint quadratic form is zero at the fitted coefficients
   => for every constrained marginal, the function of that marginal's variable has the shape, the other variables being fixed
   anywhere inside their knot ranges (non-negative basis values). *)
From Coq Require Import List Reals Lra Lia Arith Bool.
From PG Require Import Base.Ops Base.Vec Model.BSpline Model.Constraints Proofs.VecR Proofs.C05 Proofs.C05Bound Proofs.C05Fibres
  Proofs.C05ShapeFinal Proofs.C05TensorSum Proofs.C05TensorShape Proofs.C05TensorQuad.
Import ListNotations.
Open Scope R_scope.

Theorem marginal_constraint_zero_to_function ms pre post ek0 ek1 n k coef clam cl2 :
  (1 <= k < n)%nat -> map cm_n ms = map (@length R) pre ++ n :: map (@length R) post ->
  Forall (Forall (fun v => 0 <= v)) pre -> Forall (Forall (fun v => 0 <= v)) post ->
  length coef = nprod (map cm_n ms) -> 0 < clam -> 0 <= cl2 ->
  quadR (marginal_constraints Rrops ms (length pre) coef clam cl2) coef = 0 ->
  Forall (fun cn => has_shape cn (tensor_fun pre post ek0 ek1 n k coef)) (cm_cons (nth (length pre) ms dcm)).
Proof.
  intros Hk Hd Hpre Hpost Lc Hl Hl2 Q.
  assert (Hi : (length pre < length ms)%nat).
  { rewrite <- (map_length cm_n ms), Hd, app_length, map_length. cbn [length]. lia. }
  pose proof (proj1 (marginal_constraints_zero_iff ms (length pre) coef clam cl2 Hi Lc Hl Hl2) Q) as Q'. clear Q. rename Q' into Q.
  apply Forall_forall. intros cn Hcn. apply tensor_marginal_shape; try assumption.
  rewrite <- Hd. eapply Forall_impl; [|exact Q]. intros f Hf. rewrite Forall_forall in Hf. apply Hf. exact Hcn.
Qed.

Theorem tensor_constraint_zero_to_function ms pre post ek0 ek1 n k coef clam cl2 :
  (1 <= k < n)%nat -> map cm_n ms = map (@length R) pre ++ n :: map (@length R) post ->
  Forall (Forall (fun v => 0 <= v)) pre -> Forall (Forall (fun v => 0 <= v)) post ->
  length coef = nprod (map cm_n ms) -> 0 < clam -> 0 <= cl2 ->
  quadR (tensor_constraints Rrops ms coef clam cl2) coef = 0 ->
  Forall (fun cn => has_shape cn (tensor_fun pre post ek0 ek1 n k coef)) (cm_cons (nth (length pre) ms dcm)).
Proof.
  intros Hk Hd Hpre Hpost Lc Hl Hl2 Q.
  assert (Hi : (length pre < length ms)%nat).
  { rewrite <- (map_length cm_n ms), Hd, app_length, map_length. cbn [length]. lia. }
  pose proof (proj1 (tensor_constraints_zero_iff ms coef clam cl2 Lc Hl Hl2) Q (length pre) Hi) as Q'. clear Q. rename Q' into Q.
  apply Forall_forall. intros cn Hcn. apply tensor_marginal_shape; try assumption.
  rewrite <- Hd. eapply Forall_impl; [|exact Q]. intros f Hf. rewrite Forall_forall in Hf. apply Hf. exact Hcn.
Qed.

(* a concrete instance: te(s(0, n=2, monotonic_inc), s(1, n=2)) with coefficient tensor [[0,0],[1,2]]: both axis-0 slices are
   non-decreasing, the tensor constraint form vanishes, and the hypotheses of the theorem hold with the other marginal's row (1/2, 1/2) *)
Example tensor_zero_example :
  let ms := [mk_cmargin 2 [CMonoInc]; mk_cmargin 2 [CPyNone]] in
  let coef := [0; 0; 1; 2] in
  quadR (tensor_constraints Rrops ms coef 1000000000 (/ 1000)) coef = 0 /\
  map cm_n ms = map (@length R) [] ++ 2%nat :: map (@length R) [[/ 2; / 2]] /\ length coef = nprod (map cm_n ms).
Proof.
  cbv zeta. split; [|split; reflexivity].
  apply tensor_constraints_zero_iff; [reflexivity|lra|lra|].
  intros i Hi. cbn [length] in Hi. destruct i as [|[|i]]; [| |lia]; cbn; repeat constructor; cbn; lra.
Qed.
