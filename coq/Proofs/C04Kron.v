(* Proofs/C04Kron.v -- algebra of the list Kronecker product (real instance): associativity, I_a (x) I_b = I_(ab),
   shapes, and the two basic bilinear-form lemmas
     u' (I_p (x) B) v = sum over the p consecutive chunks            (last axis)
     u' (A (x) I_m) v = sum over the m strided columns               (first axis)
   used by Proofs/C04Kron2.v for the general k-way tensor penalty.                                            *)
From Coq Require Import List Reals Lra Lia Arith Bool Permutation.
From PG Require Import Base.Ops Base.Vec Model.Penalties Proofs.VecR Proofs.C04 Proofs.C04b.
Import ListNotations.
Open Scope R_scope.

(* ---------- list helpers ---------- *)
Lemma flat_map_flat_map {A B C} (f : A -> list B) (g : B -> list C) l :
  flat_map g (flat_map f l) = flat_map (fun x => flat_map g (f x)) l.
Proof. induction l as [|a l IH]; cbn [flat_map]; [reflexivity|]. rewrite flat_map_app, IH. reflexivity. Qed.
Lemma flat_map_map {A B C} (h : A -> B) (g : B -> list C) l : flat_map g (map h l) = flat_map (fun x => g (h x)) l.
Proof. induction l as [|a l IH]; cbn [flat_map map]; [reflexivity|]. rewrite IH. reflexivity. Qed.
Lemma map_flat_map {A B C} (f : B -> C) (g : A -> list B) l : map f (flat_map g l) = flat_map (fun x => map f (g x)) l.
Proof. induction l as [|a l IH]; cbn [flat_map map]; [reflexivity|]. rewrite map_app, IH. reflexivity. Qed.
Lemma map_const_repeat {A B} (b : B) (l : list A) : map (fun _ => b) l = repeat b (length l).
Proof. induction l as [|a l IH]; cbn; [reflexivity|]. rewrite IH. reflexivity. Qed.
Lemma flat_map_ext_in {A B} (f g : A -> list B) l : (forall a, In a l -> f a = g a) -> flat_map f l = flat_map g l.
Proof. induction l as [|a l IH]; intros H; cbn [flat_map]; [reflexivity|].
  rewrite (H a (or_introl eq_refl)), IH; [reflexivity|]. intros b Hb. apply H. right; exact Hb. Qed.

(* ---------- associativity ---------- *)
Lemma vscale_vscale a b u : vscaleR a (vscaleR b u) = vscaleR (a * b) u.
Proof. unfold vscale. rewrite map_map. apply map_ext. intros x. cbn. lra. Qed.
Lemma vscale_flat_map {A} a (f : A -> list R) l : vscaleR a (flat_map f l) = flat_map (fun x => vscaleR a (f x)) l.
Proof. unfold vscale. apply map_flat_map. Qed.
Lemma kron_row_assoc ra rb rc : kron_rowR (kron_rowR ra rb) rc = kron_rowR ra (kron_rowR rb rc).
Proof. unfold kron_row. rewrite flat_map_flat_map. apply flat_map_ext. intros a.
  rewrite vscale_flat_map. change (vscaleR a rb) with (map (fun x => a * x) rb). rewrite flat_map_map.
  apply flat_map_ext. intros b. rewrite vscale_vscale. reflexivity. Qed.
Theorem kron_assoc A B C : kronR (kronR A B) C = kronR A (kronR B C).
Proof. unfold kron. rewrite flat_map_flat_map. apply flat_map_ext. intros ra.
  rewrite flat_map_map, map_flat_map. apply flat_map_ext. intros rb.
  rewrite map_map. apply map_ext. intros rc. apply kron_row_assoc. Qed.

(* ---------- units ---------- *)
Lemma ident_1 : identR 1 = [[1]]. Proof. reflexivity. Qed.
Lemma kron_row_one_r ra : kron_rowR ra [1] = ra.
Proof. unfold kron_row. induction ra as [|a ra IH]; [reflexivity|]. cbn [flat_map]. rewrite IH. cbn. f_equal. lra. Qed.
Lemma kron_one_r A : kronR A [[1]] = A.
Proof. unfold kron. induction A as [|ra A IH]; [reflexivity|]. cbn [flat_map]. rewrite IH. cbn [map app]. rewrite kron_row_one_r. reflexivity. Qed.
Lemma kron_row_one_l rb : kron_rowR [1] rb = rb.
Proof. unfold kron_row. cbn [flat_map]. rewrite vscale_1, app_nil_r. reflexivity. Qed.
Lemma kron_one_l B : kronR [[1]] B = B.
Proof. unfold kron. cbn [flat_map]. rewrite app_nil_r. rewrite <- (map_id B) at 2. apply map_ext. apply kron_row_one_l. Qed.

(* ---------- I_a (x) I_b = I_(a b) ---------- *)
Lemma ident_add b : forall c,
  identR (b + c) = map (fun r => r ++ zerosR c) (identR b) ++ map (app (zerosR b)) (identR c).
Proof. induction b as [|b IH]; intros c.
  - cbn [Nat.add ident map app]. rewrite <- (map_id (identR c)) at 1. apply map_ext. reflexivity.
  - cbn [Nat.add ident]. rewrite IH. cbn [map app]. f_equal.
    + f_equal. apply eq_sym, zeros_app.
    + rewrite map_app, !map_map. f_equal; apply map_ext; reflexivity. Qed.
Theorem kron_ident_ident a : forall b, kronR (identR a) (identR b) = identR (a * b).
Proof. induction a as [|a IH]; intros b; [reflexivity|].
  destruct (ident_lengths b) as [HF HL].
  cbn [ident]. change (r0 Rrops) with 0. change (r1 Rrops) with 1.
  unfold kron at 1. cbn [flat_map]. fold (kronR (map (cons 0) (identR a)) (identR b)).
  rewrite (kron_cons0 _ _ b HF), IH. cbn [Nat.mul]. rewrite ident_add. f_equal.
  apply map_ext_in. intros rb Hrb. rewrite Forall_forall in HF. specialize (HF rb Hrb).
  unfold kron_row. cbn [flat_map]. fold (kron_rowR (zerosR a) rb). rewrite kron_row_zeros, vscale_1, HF. reflexivity. Qed.

(* ---------- shapes ---------- *)
Lemma kron_row_length ra rb : length (kron_rowR ra rb) = (length ra * length rb)%nat.
Proof. unfold kron_row. induction ra as [|a ra IH]; cbn [flat_map length]; [reflexivity|].
  rewrite app_length, vscale_length, IH. reflexivity. Qed.
Lemma kron_length A B : length (kronR A B) = (length A * length B)%nat.
Proof. unfold kron. induction A as [|ra A IH]; cbn [flat_map length]; [reflexivity|].
  rewrite app_length, map_length, IH. reflexivity. Qed.
Lemma kron_square A B n m : square A n -> square B m -> square (kronR A B) (n * m).
Proof. intros [LA FA] [LB FB]. split; [rewrite kron_length; congruence|].
  unfold kron. apply Forall_forall. intros r Hr. apply in_flat_map in Hr. destruct Hr as [ra [Hra Hr]].
  apply in_map_iff in Hr. destruct Hr as [rb [<- Hrb]]. rewrite kron_row_length.
  rewrite Forall_forall in FA, FB. rewrite (FA ra Hra), (FB rb Hrb). reflexivity. Qed.

(* ---------- chunks, paired sums, bilinear forms ---------- *)
Definition bilR (M : list (list R)) (u v : list R) : R := dotR u (matvecR M v).
Lemma quad_bil M v : quadR M v = bilR M v v. Proof. reflexivity. Qed.
Fixpoint chunks {A} (q p : nat) (w : list A) : list (list A) :=
  match p with O => [] | S p' => firstn q w :: chunks q p' (skipn q w) end.
Fixpoint sum2 (f : list R -> list R -> R) (us vs : list (list R)) : R :=
  match us, vs with u :: us', v :: vs' => f u v + sum2 f us' vs' | _, _ => 0 end.

Lemma chunks_length {A} q p : forall (w : list A), length (chunks q p w) = p.
Proof. induction p as [|p IH]; intros w; cbn [chunks length]; [reflexivity|]. rewrite IH. reflexivity. Qed.
Lemma chunks_rows {A} q p : forall (w : list A), length w = (p * q)%nat -> Forall (fun r => length r = q) (chunks q p w).
Proof. induction p as [|p IH]; intros w Hw; cbn [chunks]; constructor.
  - rewrite firstn_length. nia.
  - apply IH. rewrite skipn_length. nia. Qed.
Lemma chunks_concat {A} q p : forall (w : list A), length w = (p * q)%nat -> concat (chunks q p w) = w.
Proof. induction p as [|p IH]; intros w Hw; cbn [chunks concat].
  - destruct w; [reflexivity|discriminate].
  - rewrite IH by (rewrite skipn_length; nia). apply firstn_skipn. Qed.
Lemma sum2_app f us1 : forall vs1 us2 vs2, length us1 = length vs1 ->
  sum2 f (us1 ++ us2) (vs1 ++ vs2) = sum2 f us1 vs1 + sum2 f us2 vs2.
Proof. induction us1 as [|u us1 IH]; intros [|v vs1] us2 vs2 H; cbn in H; try discriminate; cbn [app sum2].
  - lra.
  - rewrite IH by lia. lra. Qed.
Lemma sum2_map_r f (g : list R -> list R) us : forall vs, sum2 f us (map g vs) = sum2 (fun u v => f u (g v)) us vs.
Proof. induction us as [|u us IH]; intros [|v vs]; cbn [map sum2]; try reflexivity. rewrite IH. reflexivity. Qed.
Lemma sum2_diag f l : sum2 f l l = vsumR (map (fun x => f x x) l).
Proof. induction l as [|x l IH]; cbn [sum2 map vsum]; [reflexivity|]. rewrite IH. reflexivity. Qed.
Lemma sum2_sym f g us : forall vs, (forall u v, In u us -> In v vs -> f u v = g v u) -> sum2 f us vs = sum2 g vs us.
Proof. induction us as [|u us IH]; intros [|v vs] H; cbn [sum2]; try reflexivity.
  rewrite (H u v) by (left; reflexivity). rewrite IH; [reflexivity|]. intros; apply H; right; assumption. Qed.

(* last axis: I_p (x) B acts chunk-wise (bilinear version of C04b.kron_ident_l_quad) *)
Theorem bil_kron_ident_l B q p : square B q -> forall u v, length u = (p * q)%nat -> length v = (p * q)%nat ->
  bilR (kronR (identR p) B) u v = sum2 (bilR B) (chunks q p u) (chunks q p v).
Proof. intros SB u v Hu Hv. unfold bilR at 1. rewrite (kron_ident_matvec B q SB p v Hv). destruct SB as [LB FB].
  revert u v Hu Hv. induction p as [|p IH]; intros u v Hu Hv.
  - destruct u; [reflexivity|discriminate].
  - cbn [chunks sum2]. rewrite <- (firstn_skipn q u) at 1.
    rewrite dot_app by (rewrite matvec_length, firstn_length; nia).
    rewrite IH by (rewrite skipn_length; nia). reflexivity. Qed.

(* ---------- first axis: A (x) I_m ---------- *)
Lemma dot_kron_row rb q : length rb = q -> forall ra w, length w = (length ra * q)%nat ->
  dotR (kron_rowR ra rb) w = dotR ra (map (dotR rb) (chunks q (length ra) w)).
Proof. intros Hrb. induction ra as [|a ra IH]; intros w Hw; [reflexivity|]. cbn [length] in Hw.
  unfold kron_row. cbn [flat_map length chunks map dot]. fold (kron_rowR ra rb).
  rewrite <- (firstn_skipn q w) at 1. rewrite dot_app by (rewrite vscale_length, firstn_length; nia).
  rewrite dot_vscale_l, IH by (rewrite skipn_length; nia). reflexivity. Qed.
Lemma matvec_kron A B n q w : Forall (fun r => length r = n) A -> Forall (fun r => length r = q) B ->
  length w = (n * q)%nat ->
  matvecR (kronR A B) w = flat_map (fun ra => map (fun rb => dotR ra (map (dotR rb) (chunks q n w))) B) A.
Proof. intros HA HB Hw. unfold matvec, kron. induction A as [|ra A IH]; [reflexivity|].
  inversion HA as [|? ? Hra HA']; subst. cbn [flat_map]. rewrite map_app, map_map, IH by assumption. f_equal.
  apply map_ext_in. intros rb Hrb. rewrite Forall_forall in HB.
  rewrite (dot_kron_row rb q (HB rb Hrb)) by exact Hw. reflexivity. Qed.

Lemma zipcons_map {A} (g : A -> R) (h : A -> list R) l : zipcons (map g l) (map h l) = map (fun y => g y :: h y) l.
Proof. induction l as [|a l IH]; cbn [map zipcons]; [reflexivity|]. rewrite IH. reflexivity. Qed.
Lemma zipcons_length {A} (r : list A) : forall t, length (zipcons r t) = Nat.min (length r) (length t).
Proof. induction r as [|x r IH]; intros [|c t]; cbn [zipcons length Nat.min]; try reflexivity. rewrite IH. reflexivity. Qed.
Lemma transpose_length {A} q (W : list (list A)) : Forall (fun r => length r = q) W -> length (transpose q W) = q.
Proof. induction W as [|r W IH]; intros HF; cbn [transpose]; [apply repeat_length|].
  inversion HF; subst. rewrite zipcons_length, IH by assumption. lia. Qed.
(* the columns of W are its products with the unit vectors *)
Lemma cols_via_ident q W : Forall (fun r => length r = q) W ->
  map (fun e => map (dotR e) W) (identR q) = transpose q W.
Proof. destruct (ident_lengths q) as [_ HL]. induction W as [|r W IH]; intros HF.
  - cbn [map transpose]. rewrite map_const_repeat, HL. reflexivity.
  - inversion HF as [|? ? Hr HF']; subst. cbn [map transpose]. rewrite <- IH by assumption.
    pose proof (matvec_ident (length r) r eq_refl) as E. unfold matvec in E.
    transitivity (zipcons (map (fun e => dotR e r) (identR (length r))) (map (fun e => map (dotR e) W) (identR (length r)))).
    + symmetry. apply zipcons_map.
    + rewrite E. reflexivity. Qed.
Lemma sum2_dot_zipcons a : forall b X Y, length a = length b -> length X = length a -> length Y = length a ->
  sum2 dotR (zipcons a X) (zipcons b Y) = dotR a b + sum2 dotR X Y.
Proof. induction a as [|x a IH]; intros [|y b] [|c X] [|d Y] Hab HX HY; cbn [length] in *; try discriminate.
  - cbn. lra.
  - cbn [zipcons sum2 dot]. rewrite IH by lia. cbn. lra. Qed.
Lemma sum2_dot_repeat_nil q : sum2 dotR (repeat [] q) (repeat [] q) = 0.
Proof. induction q as [|q IH]; cbn [repeat sum2 dot]; [reflexivity|]. rewrite IH. cbn. lra. Qed.
Lemma sum2_dot_transpose q : forall W Y, length W = length Y ->
  Forall (fun r => length r = q) W -> Forall (fun r => length r = q) Y ->
  sum2 dotR (transpose q W) (transpose q Y) = sum2 dotR W Y.
Proof. induction W as [|w W IH]; intros [|y Y] HL HW HY; cbn [length] in HL; try discriminate.
  - cbn [transpose sum2]. apply sum2_dot_repeat_nil.
  - inversion HW as [|? ? Hw HW']; inversion HY as [|? ? Hy HY']; subst. cbn [transpose sum2].
    rewrite sum2_dot_zipcons; [rewrite IH by (assumption || lia); reflexivity|..];
      rewrite ?transpose_length by assumption; congruence. Qed.
Lemma transpose_map_map {A B} (f : A -> B -> R) xs l :
  transpose (length l) (map (fun x => map (f x) l) xs) = map (fun y => map (fun x => f x y) xs) l.
Proof. induction xs as [|x xs IH]; cbn [map transpose].
  - symmetry. apply map_const_repeat.
  - rewrite IH. apply zipcons_map. Qed.
Lemma dot_flat_map_chunks m (g : list R -> list R) A : (forall ra, In ra A -> length (g ra) = m) ->
  forall u, length u = (length A * m)%nat -> dotR u (flat_map g A) = sum2 dotR (chunks m (length A) u) (map g A).
Proof. induction A as [|ra A IH]; intros Hg u Hu; cbn [length] in Hu.
  - destruct u; [reflexivity|discriminate].
  - cbn [flat_map length chunks map sum2]. rewrite <- (firstn_skipn m u) at 1.
    rewrite dot_app by (rewrite firstn_length, (Hg ra (or_introl eq_refl)); nia).
    rewrite IH; [reflexivity| |rewrite skipn_length; nia]. intros; apply Hg; right; assumption. Qed.

(* u' (A (x) I_m) v = sum over the m columns of the n x m arrangement of u, v *)
Theorem bil_kron_ident_r_transpose A n m : square A n -> forall u v, length u = (n * m)%nat -> length v = (n * m)%nat ->
  bilR (kronR A (identR m)) u v
  = sum2 (bilR A) (transpose m (chunks m n u)) (transpose m (chunks m n v)).
Proof. intros [LA FA] u v Hu Hv. destruct (ident_lengths m) as [FI LI]. unfold bilR at 1.
  rewrite (matvec_kron A (identR m) n m v FA FI Hv).
  pose proof (chunks_rows m n v Hv) as Rv. pose proof (chunks_rows m n u Hu) as Ru.
  rewrite (flat_map_ext _ (fun ra => map (dotR ra) (transpose m (chunks m n v)))).
  2:{ intros ra. rewrite <- (cols_via_ident m _ Rv), map_map. reflexivity. }
  rewrite (dot_flat_map_chunks m).
  2:{ intros ra _. rewrite map_length. apply transpose_length. exact Rv. }
  2:{ rewrite LA. exact Hu. }
  rewrite LA. rewrite <- (sum2_dot_transpose m).
  2:{ rewrite chunks_length, map_length. congruence. }
  2:{ exact Ru. }
  2:{ apply Forall_map. apply Forall_forall. intros ra _. rewrite map_length. apply transpose_length. exact Rv. }
  pose proof (transpose_length m _ Rv) as LT.
  pose proof (transpose_map_map dotR A (transpose m (chunks m n v))) as TM. rewrite LT in TM. rewrite TM.
  change (map (fun y => map (fun x => dotR x y) A) (transpose m (chunks m n v)))
    with (map (matvecR A) (transpose m (chunks m n v))).
  rewrite sum2_map_r. reflexivity. Qed.

(* ---------- columns as strided sub-vectors ---------- *)
Lemma nth_skipn {A} (d : A) k : forall w off, nth off (skipn k w) d = nth (k + off) w d.
Proof. induction k as [|k IH]; intros w off; [reflexivity|]. destruct w as [|x w]; cbn [skipn Nat.add nth].
  - destruct off; reflexivity.
  - apply IH. Qed.
Lemma nth_firstn_lt {A} (d : A) L : forall w c, (c < L)%nat -> nth c (firstn L w) d = nth c w d.
Proof. induction L as [|L IH]; intros w c Hc; [lia|]. destruct w as [|x w]; cbn [firstn]; [reflexivity|].
  destruct c as [|c]; [reflexivity|]. cbn [nth]. apply IH. lia. Qed.
Lemma strided_length {A} (d : A) w s cnt : forall off, length (strided d w off s cnt) = cnt.
Proof. induction cnt as [|cnt IH]; intros off; cbn [strided length]; [reflexivity|]. rewrite IH. reflexivity. Qed.
Lemma strided_skipn {A} (d : A) k w s cnt : forall off, strided d (skipn k w) off s cnt = strided d w (k + off) s cnt.
Proof. induction cnt as [|cnt IH]; intros off; cbn [strided]; [reflexivity|].
  rewrite nth_skipn, IH. f_equal. f_equal. lia. Qed.
Lemma strided_firstn {A} (d : A) L w s cnt : forall off, (forall k, (k < cnt)%nat -> (off + k * s < L)%nat) ->
  strided d (firstn L w) off s cnt = strided d w off s cnt.
Proof. induction cnt as [|cnt IH]; intros off H; cbn [strided]; [reflexivity|].
  rewrite nth_firstn_lt by (specialize (H O); lia). rewrite IH; [reflexivity|].
  intros k Hk. specialize (H (S k)). cbn [Nat.mul] in H. lia. Qed.
Lemma strided_ext {A} (d : A) w s cnt off off' : off = off' -> strided d w off s cnt = strided d w off' s cnt.
Proof. intros ->. reflexivity. Qed.
Lemma zipcons_seq {A} (d : A) (r : list A) : forall (h : nat -> list A),
  zipcons r (map h (seq 0 (length r))) = map (fun c => nth c r d :: h c) (seq 0 (length r)).
Proof. induction r as [|x r IH]; intros h; [reflexivity|]. cbn [length seq map zipcons nth]. f_equal.
  rewrite <- seq_shift, !map_map. apply IH. Qed.
Lemma zipcons_seq' {A} (d : A) (r : list A) m (h : nat -> list A) : length r = m ->
  zipcons r (map h (seq 0 m)) = map (fun c => nth c r d :: h c) (seq 0 m).
Proof. intros <-. apply zipcons_seq. Qed.
Definition cols {A} (d : A) (m n : nat) (w : list A) : list (list A) := map (fun c => strided d w c m n) (seq 0 m).
Lemma transpose_chunks {A} (d : A) m n : forall w, length w = (n * m)%nat -> transpose m (chunks m n w) = cols d m n w.
Proof. unfold cols. induction n as [|n IH]; intros w Hw.
  - cbn [chunks transpose strided]. rewrite map_const_repeat, seq_length. reflexivity.
  - cbn [chunks transpose strided]. rewrite IH by (rewrite skipn_length; nia).
    assert (Lf : length (firstn m w) = m) by (rewrite firstn_length; nia).
    rewrite (zipcons_seq' d _ m _ Lf). apply map_ext_in. intros c Hc. apply in_seq in Hc.
    rewrite nth_firstn_lt by lia. rewrite strided_skipn. f_equal. apply strided_ext. lia. Qed.

Theorem bil_kron_ident_r A n m : square A n -> forall u v, length u = (n * m)%nat -> length v = (n * m)%nat ->
  bilR (kronR A (identR m)) u v = sum2 (bilR A) (cols 0 m n u) (cols 0 m n v).
Proof. intros SA u v Hu Hv. rewrite (bil_kron_ident_r_transpose A n m SA u v Hu Hv).
  rewrite !(transpose_chunks 0) by assumption. reflexivity. Qed.
Corollary quad_kron_ident_r A n m v : square A n -> length v = (n * m)%nat ->
  quadR (kronR A (identR m)) v = vsumR (map (quadR A) (cols 0 m n v)).
Proof. intros SA Hv. rewrite quad_bil, (bil_kron_ident_r A n m SA v v Hv Hv). apply sum2_diag. Qed.

(* the columns are a rearrangement of the vector *)
Lemma concat_zipcons_perm {A} (r : list A) : forall T, length T = length r ->
  Permutation (concat (zipcons r T)) (r ++ concat T).
Proof. induction r as [|x r IH]; intros [|c T] H; cbn [length] in H; try discriminate; [constructor|].
  cbn [zipcons concat app]. constructor. rewrite (IH T) by lia.
  rewrite !app_assoc. apply Permutation_app_tail. apply Permutation_app_comm. Qed.
Lemma concat_repeat_nil {A} q : concat (repeat (@nil A) q) = [].
Proof. induction q; cbn; auto. Qed.
Lemma concat_transpose_perm {A} q (W : list (list A)) : Forall (fun r => length r = q) W ->
  Permutation (concat (transpose q W)) (concat W).
Proof. induction W as [|r W IH]; intros HF; cbn [transpose concat].
  - rewrite concat_repeat_nil. constructor.
  - inversion HF as [|? ? Hr HF']; subst. rewrite concat_zipcons_perm by (apply transpose_length; assumption).
    apply Permutation_app_head. apply IH. assumption. Qed.
Lemma cols_perm {A} (d : A) m n w : length w = (n * m)%nat -> Permutation (concat (cols d m n w)) w.
Proof. intros Hw. rewrite <- (transpose_chunks d) by assumption.
  rewrite concat_transpose_perm by (apply chunks_rows; assumption). rewrite chunks_concat by assumption. reflexivity. Qed.
