(* Proofs/C04Transfer.v -- Paramcoq free theorems for the penalty model: what the Z / Q instances compute
   (used by the correspondence check) is what the R instance (used by the theorems) denotes.          *)
From Coq Require Import List ZArith QArith Reals Lra Lia Bool.
From Param Require Import Param.
From PG Require Import Base.Ops Base.Transfer Base.ParamNat Base.Vec Model.Penalties Proofs.VecR Proofs.C04.
Import ListNotations.

Parametricity pen. Parametricity tkind.
Parametricity Recursive pen_periodic.
Parametricity Recursive pen_derivative.
Parametricity Recursive quad.
Parametricity Recursive cdiffn.
Parametricity Recursive sumsq.

Lemma pen_Rrefl (p : pen) : pen_R p p.
Proof. destruct p; constructor; apply nat_R_refl. Qed.

(* integer instance -> real instance *)
Theorem pen_periodic_Z2R n d :
  pen_periodic Rrops n d = option_map (map (map IZR)) (pen_periodic Zrops n d).
Proof.
  pose proof (pen_periodic_R Z R ZR Zrops Rrops Zrops_R n n (nat_R_refl n) d d (nat_R_refl d)) as H.
  destruct H as [MZ MR HM|]; cbn; [|reflexivity]. f_equal. symmetry. apply llist_ZR_inv. exact HM.
Qed.
Theorem pen_derivative_Z2R n d :
  pen_derivative Rrops n d = map (map IZR) (pen_derivative Zrops n d).
Proof.
  pose proof (pen_derivative_R Z R ZR Zrops Rrops Zrops_R n n (nat_R_refl n) d d (nat_R_refl d)) as H.
  symmetry. apply llist_ZR_inv. exact H.
Qed.
Fixpoint llist_ZR (l : list (list Z)) : list_R (list Z) (list R) (list_R Z R ZR) l (map (map IZR) l) :=
  match l with [] => list_R_nil_R _ _ _
  | a :: tl => list_R_cons_R _ _ _ a (map IZR a) (list_ZR a) tl (map (map IZR) tl) (llist_ZR tl) end.
Theorem quad_Z2R (M : list (list Z)) (v : list Z) :
  quadR (map (map IZR) M) (map IZR v) = IZR (quad Zrops M v).
Proof. symmetry. exact (quad_R Z R ZR Zrops Rrops Zrops_R M _ (llist_ZR M) v _ (list_ZR v)). Qed.
Theorem sumsq_cdiffn_Z2R d (v : list Z) :
  sumsqR (cdiffnR d (map IZR v)) = IZR (sumsq Zrops (cdiffn Zrops d v)).
Proof. symmetry.
  exact (sumsq_R Z R ZR Zrops Rrops Zrops_R _ _
          (cdiffn_R Z R ZR Zrops Rrops Zrops_R d d (nat_R_refl d) v _ (list_ZR v))). Qed.

(* The property's statement for the cyclic penalty is FALSE of the code's construction: constants are penalised. *)
Theorem periodic_code_refuted :
  exists n d bs M, (1 <= d)%nat /\ length bs = n /\ pen_periodic Rrops n d = Some M /\
                   quadR M bs <> sumsqR (cdiffnR d bs).
Proof.
  exists 4%nat, 1%nat, (map IZR [1; 1; 1; 1]%Z).
  eexists. split; [lia|]. split; [reflexivity|]. split.
  - rewrite pen_periodic_Z2R. vm_compute pen_periodic. cbn [option_map]. reflexivity.
  - rewrite quad_Z2R, sumsq_cdiffn_Z2R. vm_compute (quad _ _ _). vm_compute (sumsq _ _). 
    intro H. apply eq_IZR in H. discriminate.
Qed.
(* ... and for sizes n < d the code raises instead of returning a matrix *)
Theorem periodic_code_raises : pen_periodic Rrops 2 3 = None.
Proof. rewrite pen_periodic_Z2R. reflexivity. Qed.
