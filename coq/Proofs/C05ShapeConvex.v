(* Proofs/C05ShapeConvex.v -- (1) the derivative of the model's spline pieces is the order k-1 spline of the first
   differences divided by the knot spacing; (2) second differences >= 0 => the spline function is convex at ALL real
   positions (secant slopes non-decreasing; midpoint form), including the linear continuation; concave dually;
   (3) the continuation slopes are the one-sided derivatives of the boundary polynomial pieces. *)
From Coq Require Import List ZArith Reals Lra Lia Bool Arith.
From PG Require Import Base.Ops Base.Vec Model.BSpline Model.Constraints Proofs.VecR Proofs.C03Basis Proofs.C03Row
  Proofs.C05 Proofs.C05ShapeDeriv Proofs.C05ShapeSum Proofs.C05ShapeGlue Proofs.C05ShapeModel Proofs.C05ShapeMono.
Import ListNotations.
Open Scope R_scope.

Section Cvx.
Variables n k : nat.
Hypothesis Hk : (1 <= k < n)%nat.
Variable c : list R.
Hypothesis Hc : length c = n.
Notation t := (knot Rfops n k).
Let Hkn : (k < n)%nat. Proof. lia. Qed.
Notation tinc := (knot_inc n k Hkn).
Notation cf := (fun i => nth i c 0).
Notation h := (stepR n k).

(* coefficients of the derivative spline: first differences over the knot spacing *)
Definition dco (i : nat) : R := (cf i - cf (pred i)) / h.
Lemma dcoef_uniform i : (i < n)%nat -> dcoef t cf k i = dco i.
Proof.
  intros Hi. unfold dcoef, dco. rewrite (knot_gap n k Hk c Hc i) by lia.
  pose proof (step_pos n k Hkn). assert (INR k <> 0) by (apply not_0_INR; lia). field. split; lra.
Qed.

(* derivative formula for the pieces of the model (uniform knots): d/dx sum_i c_i B_{i,k} = sum_i (c_i - c_{i-1})/h B_{i,k-1} *)
Lemma Din_as_spline j x : (k <= j < n)%nat -> Din n k c j x = spl t j dco (pred k) 1 (n - 1) x.
Proof.
  intros Hj. rewrite (Din_n n k Hk c Hc).
  rewrite (dspl_is_spline t tinc j cf k 0 (n - 1) x) by lia.
  unfold spl. apply sumf_ext. intros i Hi. rewrite dcoef_uniform by lia. reflexivity.
Qed.
Theorem piece_derivative_formula j x : (k <= j < n)%nat ->
  derivable_pt_lim (Pin n k c j) x (spl t j dco (pred k) 1 (n - 1) x).
Proof. intros Hj. rewrite <- Din_as_spline by exact Hj. apply (spl_derivable t tinc). lia. Qed.

Lemma Din_order1 j x : pred k = 0%nat -> (k <= j < n)%nat -> Din n k c j x = dco j.
Proof.
  intros E Hj. rewrite Din_as_spline by exact Hj. rewrite E. unfold spl. cbn [Bix]. rewrite sumf_ind.
  destruct (Nat.leb_spec 1 j), (Nat.ltb_spec j (1 + (n - 1))); cbn; try lia; reflexivity.
Qed.

Section Hyp.
Hypothesis c_cvx : forall i, (2 <= i <= n - 1)%nat -> 0 <= cf i - 2 * cf (i - 1)%nat + cf (i - 2)%nat.

Lemma dco_mono i : (2 <= i <= n - 1)%nat -> dco (pred i) <= dco i.
Proof.
  intros Hi. unfold dco. pose proof (step_pos n k Hkn) as Hp. pose proof (c_cvx i Hi) as H.
  replace (pred (pred i)) with (i - 2)%nat by lia. replace (pred i) with (i - 1)%nat by lia.
  unfold Rdiv. apply Rmult_le_compat_r; [left; apply Rinv_0_lt_compat; exact Hp|lra].
Qed.

Lemma Din_mono_piece j x y : (k <= j < n)%nat -> t j <= x -> x <= y -> y <= t (S j) -> Din n k c j x <= Din n k c j y.
Proof.
  intros Hj Hx Hxy Hy. destruct (pred k) as [|k'] eqn:E.
  - rewrite !Din_order1 by assumption. lra.
  - rewrite !Din_as_spline by exact Hj. rewrite E. replace (n - 1)%nat with (S (n - 2)) by lia.
    apply (piece_mono t tinc j dco (S k') 1 (n - 2) x y); try assumption; try lia.
    intros i Hi. apply dco_mono. lia.
Qed.

Lemma DD_mono_piece j x y : (k - 1 <= j <= n)%nat -> inp n k j x -> inp n k j y -> x <= y -> DD n k c j x <= DD n k c j y.
Proof.
  intros Hj. unfold inp, DD. destruct (Nat.ltb_spec j k); [|destruct (Nat.ltb_spec j n)]; intros Ix Iy Hxy; try lra.
  apply Din_mono_piece; try lra; lia.
Qed.
Lemma DD_jump j : (k - 1 <= j < n)%nat -> DD n k c j (t (S j)) <= DD n k c (S j) (t (S j)).
Proof.
  intros Hj. unfold DD. destruct (Nat.ltb_spec j k).
  - replace (S j) with k by lia. destruct (Nat.ltb_spec k k); [lia|]. destruct (Nat.ltb_spec k n); [|lia].
    rewrite (tk0 n k Hk). unfold G0. lra.
  - destruct (Nat.ltb_spec j n); [|lia]. destruct (Nat.ltb_spec (S j) k); [lia|]. destruct (Nat.ltb_spec (S j) n).
    + destruct (pred k) as [|k'] eqn:E.
      * rewrite !Din_order1 by (assumption || lia). apply (dco_mono (S j)). lia.
      * right. apply (Din_cont n k Hk c Hc); lia.
    + replace (S j) with n by lia. rewrite (tn1 n k Hk c Hc). unfold G1. replace j with (n - 1)%nat by lia. lra.
Qed.

Lemma DD_mono j1 j2 x1 x2 : (k - 1 <= j1)%nat -> (j1 <= j2)%nat -> (j2 <= n)%nat ->
  inp n k j1 x1 -> inp n k j2 x2 -> x1 <= x2 -> DD n k c j1 x1 <= DD n k c j2 x2.
Proof.
  intros H1 H2 H3 I1 I2 Hx.
  pose proof (glue_mono (inp n k) t (k - 1) n (brk_l n k Hk c Hc) (brk_r n k Hk c Hc) (inp_le n k Hk c Hc) (inp_ge n k Hk c Hc)
                (DD n k c) DD_mono_piece DD_jump (j2 - j1) j1 x1 x2 H1 ltac:(lia) I1) as G.
  replace (j1 + (j2 - j1))%nat with j2 in G by lia. apply G; assumption.
Qed.

(* secant slopes are non-decreasing, cross-multiplied (no division): for x <= y <= z *)
Theorem sval_convex x y z : x <= y -> y <= z ->
  (sval n k c y - sval n k c x) * (z - y) <= (sval n k c z - sval n k c y) * (y - x).
Proof.
  intros Hxy Hyz.
  destruct (Rle_lt_or_eq_dec x y Hxy) as [Hlt1|E1]; [|subst y; lra].
  destruct (Rle_lt_or_eq_dec y z Hyz) as [Hlt2|E2]; [|subst z; lra].
  destruct (sval_piece n k Hk c Hc x) as [jx [Hjx [Ix Ex]]]. destruct (sval_piece n k Hk c Hc y) as [jy [Hjy [Iy Ey]]].
  destruct (sval_piece n k Hk c Hc z) as [jz [Hjz [Iz Ez]]].
  assert (O1 : (jx <= jy)%nat).
  { destruct (le_lt_dec jx jy); [assumption|]. pose proof (pieces_ordered n k Hk c Hc jx jy x y Hjx Hjy Ix Iy l). lra. }
  assert (O2 : (jy <= jz)%nat).
  { destruct (le_lt_dec jy jz); [assumption|]. pose proof (pieces_ordered n k Hk c Hc jy jz y z Hjy Hjz Iy Iz l). lra. }
  rewrite Ex, Ey, Ez.
  apply (glue_convex (inp n k) t (k - 1) n (inp_conv n k) (brk_l n k Hk c Hc) (brk_r n k Hk c Hc) (inp_le n k Hk c Hc) (inp_ge n k Hk c Hc)
           (PP n k c) (DD n k c) (fun j x _ => PP_deriv n k Hk c Hc j x) DD_mono (PP_cont n k Hk c Hc)); try assumption; lia.
Qed.
End Hyp.
End Cvx.

(* ---------- list-level hypotheses ---------- *)
Lemma nth_diff (c : list R) : forall i, (S i < length c)%nat -> nth i (diffR c) 0 = nth (S i) c 0 - nth i c 0.
Proof.
  induction c as [|a [|b c] IH]; intros i Hi; try (simpl in Hi; lia).
  rewrite diff_cons2. destruct i as [|i]; [reflexivity|]. cbn [nth]. rewrite IH by (simpl in *; lia). reflexivity.
Qed.
Lemma cvx_index_form (c : list R) : Forall (fun d => 0 <= d) (diffnR 2 c) ->
  forall i, (2 <= i <= length c - 1)%nat -> 0 <= nth i c 0 - 2 * nth (i - 1) c 0 + nth (i - 2) c 0.
Proof.
  intros F i Hi. change (diffnR 2 c) with (diffR (diffR c)) in F.
  pose proof (proj1 (Forall_diff_iff (fun d => 0 <= d) (diffR c)) F (i - 2)%nat) as H.
  rewrite diff_length in H. specialize (H ltac:(lia)).
  rewrite !nth_diff in H by lia. replace (S (S (i - 2))) with i in H by lia. replace (S (i - 2)) with (i - 1)%nat in H by lia. lra.
Qed.

Theorem spline_convex n k c : (1 <= k < n)%nat -> length c = n -> satisfies CConvex c ->
  forall x y z, x <= y -> y <= z -> (sval n k c y - sval n k c x) * (z - y) <= (sval n k c z - sval n k c y) * (y - x).
Proof. intros Hk Hc Hs. apply (sval_convex n k Hk c Hc). intros i Hi. apply cvx_index_form; [exact Hs|lia]. Qed.

Theorem spline_concave n k c : (1 <= k < n)%nat -> length c = n -> satisfies CConcave c ->
  forall x y z, x <= y -> y <= z -> (sval n k c z - sval n k c y) * (y - x) <= (sval n k c y - sval n k c x) * (z - y).
Proof.
  intros Hk Hc Hs x y z Hxy Hyz.
  assert (H : (sval n k (vneg c) y - sval n k (vneg c) x) * (z - y) <= (sval n k (vneg c) z - sval n k (vneg c) y) * (y - x)).
  { apply (sval_convex n k Hk (vneg c)); [rewrite vneg_length; exact Hc| |exact Hxy|exact Hyz].
    intros i Hi. rewrite !nth_vneg.
    assert (F : Forall (fun d => 0 <= d) (diffnR 2 (vneg c))).
    { change (diffnR 2 (vneg c)) with (diffR (diffR (vneg c))). apply Forall_diff_iff. intros j Hj.
      rewrite diff_length, vneg_length in Hj. rewrite !nth_diff by (rewrite vneg_length; lia). rewrite !nth_vneg.
      change (diffnR 2 c) with (diffR (diffR c)) in Hs.
      pose proof (proj1 (Forall_diff_iff (fun d => d <= 0) (diffR c)) Hs j) as D. rewrite diff_length in D. specialize (D Hj).
      rewrite !nth_diff in D by lia. lra. }
    pose proof (cvx_index_form (vneg c) F i ltac:(rewrite vneg_length; lia)) as G. rewrite !nth_vneg in G. lra. }
  rewrite !sval_vneg in H. lra.
Qed.

(* midpoint forms *)
Corollary spline_convex_midpoint n k c : (1 <= k < n)%nat -> length c = n -> satisfies CConvex c ->
  forall x z, sval n k c ((x + z) / 2) <= (sval n k c x + sval n k c z) / 2.
Proof.
  intros Hk Hc Hs x z. destruct (Rle_lt_dec x z) as [H|H].
  - destruct (Rle_lt_or_eq_dec x z H) as [Hlt|E]; [|subst z; replace ((x + x) / 2) with x by lra; lra].
    pose proof (spline_convex n k c Hk Hc Hs x ((x + z) / 2) z ltac:(lra) ltac:(lra)) as G.
    replace (z - (x + z) / 2) with ((z - x) / 2) in G by lra. replace ((x + z) / 2 - x) with ((z - x) / 2) in G by lra.
    assert (0 < (z - x) / 2) by lra. nra.
  - pose proof (spline_convex n k c Hk Hc Hs z ((x + z) / 2) x ltac:(lra) ltac:(lra)) as G.
    replace (x - (x + z) / 2) with ((x - z) / 2) in G by lra. replace ((x + z) / 2 - z) with ((x - z) / 2) in G by lra.
    assert (0 < (x - z) / 2) by lra. nra.
Qed.
Corollary spline_concave_midpoint n k c : (1 <= k < n)%nat -> length c = n -> satisfies CConcave c ->
  forall x z, (sval n k c x + sval n k c z) / 2 <= sval n k c ((x + z) / 2).
Proof.
  intros Hk Hc Hs x z. destruct (Rle_lt_dec x z) as [H|H].
  - destruct (Rle_lt_or_eq_dec x z H) as [Hlt|E]; [|subst z; replace ((x + x) / 2) with x by lra; lra].
    pose proof (spline_concave n k c Hk Hc Hs x ((x + z) / 2) z ltac:(lra) ltac:(lra)) as G.
    replace (z - (x + z) / 2) with ((z - x) / 2) in G by lra. replace ((x + z) / 2 - x) with ((z - x) / 2) in G by lra.
    assert (0 < (z - x) / 2) by lra. nra.
  - pose proof (spline_concave n k c Hk Hc Hs z ((x + z) / 2) x ltac:(lra) ltac:(lra)) as G.
    replace (x - (x + z) / 2) with ((x - z) / 2) in G by lra. replace ((x + z) / 2 - z) with ((x - z) / 2) in G by lra.
    assert (0 < (x - z) / 2) by lra. nra.
Qed.
