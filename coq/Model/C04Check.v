(* Model/C04Check.v -- case type and checker used by the generated correspondence files for C04 *)
From Coq Require Import List ZArith QArith Qabs Bool Arith.
From PG Require Import Base.Ops Base.Vec Model.Penalties.
Import ListNotations.

Definition Qmat_of (m : list (list (Z * Z))) : list (list Q) := map (map (fun p => Qdy (fst p) (snd p))) m.
Definition Zmat_of (m : list (list (Z * Z))) : list (list Z) := map (map (fun p => (fst p * 2 ^ (snd p))%Z)) m.
Definition Qclose (tol : Q) (a b : Q) : bool :=
  Qle_bool (Qabs (a - b)) (tol * (1 + Qabs b)).

Inductive c04case :=
| CFn (p : pen) (n : nat) (impl : list (list (Z * Z)))                (* penalties.<fn>(n, None): exact integers *)
| CFnErr (p : pen) (n : nat)                                          (* penalties.<fn>(n, None) raised ValueError *)
| CTerms (ts : list (@term Q)) (tol : Q) (impl : list (list (Z * Z))).   (* TermList.build_penalties *)

Definition check_case (c : c04case) : bool :=
  match c with
  | CFn p n impl =>
      forallb (fun r => forallb (fun e => Z.leb 0 (snd e)) r) impl &&
      negb (match p with PPeriodic d => match pen_periodic Zrops n d with None => true | Some _ => false end | _ => false end) &&
      meqb Z.eqb (pen_matrix Zrops (KSpline false false) n p) (Zmat_of impl)
  | CFnErr p n => match p with PPeriodic d => match pen_periodic Zrops n d with None => true | Some _ => false end | _ => false end
  | CTerms ts tol impl =>
      meqb (Qclose tol) (Qmat_of impl) (model_penalty Qrops ts)
  end.
