(* Model/C16Check.v -- case type and checker used by the generated correspondence files for C16 *)
From Coq Require Import List ZArith QArith Qabs Bool Arith.
From PG Require Import Base.Ops Base.Vec Model.BSpline Model.C03Check Model.Columns.
Import ListNotations.

Inductive c16case :=
| CCols (ts : list (cterm Q)) (tol : Q)
        (rows : list (list (Z * Z) * option (list (Z * Z))))   (* (feature values of one sample, implementation row) *)
        (idx : list (nat * nat))                                (* per term: (first index, count) of get_coef_indices *)
        (ncoefs : nat)                                          (* TermList.n_coefs *)
| CFactorCompile (train : list (Z * Z)) (dummy : bool) (ek : (Z * Z) * (Z * Z)) (n : nat)
| CSplineCompile (hist : list (list (Z * Z))) (user : option ((Z * Z) * (Z * Z))) (categorical : bool)
                 (ek : (Z * Z) * (Z * Z)).   (* edge_knots_ of a spline term after compiling on the columns of hist in order *)

Definition simple_eqb (a b : simple Q) : bool :=
  match a, b with
  | SFactor f lo hi n d, SFactor f' lo' hi' n' d' =>
      Nat.eqb f f' && Qeqb lo lo' && Qeqb hi hi' && Nat.eqb n n' && Bool.eqb d d'
  | _, _ => false
  end.

Definition check_case (c : c16case) : bool :=
  match c with
  | CCols ts tol rows idx ncoefs =>
      forallb (fun r => outcome_ok tol (snd r) (row_blocks Qfops ts (map Qof (fst r)))) rows &&
      Nat.eqb (length idx) (length ts) &&
      forallb (fun p => Nat.eqb (coef_start ts (fst p)) (fst (snd p)) &&
                        Nat.eqb (n_coefs (nth (fst p) ts CIntercept)) (snd (snd p)))
              (combine (seq 0 (length ts)) idx) &&
      Nat.eqb (total_coefs ts) ncoefs
  | CFactorCompile train dummy ek n =>
      match compile_factor Qfops 0 dummy (map Qof train) with
      | Some s => simple_eqb s (SFactor 0 (Qof (fst ek)) (Qof (snd ek)) n dummy)
      | None => false
      end
  | CSplineCompile hist user cat ek =>
      match compile_spline Qfops 0 (option_map Qpair user) cat 1 0 false None (map (map Qof) hist) with
      | Some (SSpline _ lo hi _ _ _ _) =>
          (* 1e-12 relative: `min - 0.5` of a categorical spline on non-integer data is rounded by binary64 *)
          Qclose3 (1 # 1000000000000) (Qof (fst ek)) lo && Qclose3 (1 # 1000000000000) (Qof (snd ek)) hi
      | _ => false
      end
  end.
