(* Model/Loop.v -- first-order IR for the control skeleton of GAM._pirls and its callback dispatch,
   and a big-step interpreter with explicit fuel.  DEFINITIONS ONLY (proofs: Proofs/C20*.v).

   What is abstract:
   * coefficient vectors are identified by a natural number: 0 = the vector held by the model when the loop is
     entered (initial estimate or warm start), k >= 1 = the vector `coef_new` produced by loop iteration k;
   * `diff` is a pair (a, b) = "computed from self.coef_ with id a and coef_new with id b"; its comparison with
     `self.tol` comes from an oracle  nat -> dcmp  indexed by b (for a = b the value is 0 < tol);
   * a log entry is a snapshot of the abstract state at the moment of the call (which coefficient vector the model
     holds, from which vector `lp`/`mu` were computed, ...);
   * exceptions raised by the numerical kernels (LinAlgError, the QR-NaN guard, failed asserts) abort the fit:
     result `Err`; the oracle `numfail` says in which iteration the QR guard fires. *)
From Coq Require Import List String Bool Arith.
Import ListNotations.
Open Scope string_scope.

Inductive hook := HStart | HEnd.
Definition hook_eqb (a b : hook) : bool :=
  match a, b with HStart, HStart | HEnd, HEnd => true | _, _ => false end.

(* diff compared with tol: <, =, >, or unordered (NaN) *)
Inductive dcmp := DLt | DEq | DGt | DNan.
Inductive cmpop := OLt | OLe | OGt | OGe.
Definition cmp_holds (o : cmpop) (d : dcmp) : bool :=
  match o, d with
  | OLt, DLt | OLe, DLt | OLe, DEq | OGt, DGt | OGe, DGt | OGe, DEq => true
  | _, _ => false
  end.

(* variables of _pirls that the model tracks; VOther = any other local (always treated as bound) *)
Inductive var := VGam | VY | VLp | VMu | VCoefNew | VDiff | VOther (name : string).

Inductive akind :=
| KLinPred            (* x = self._linear_predictor(...)      : computed from the coefficients the model holds *)
| KMuOfLp             (* mu = self.link.mu(lp, ...)           : inherits lp's source *)
| KKeep               (* x = x[mask]                          : same source *)
| KSolve              (* coef_new = ...                       : the vector produced by this iteration *)
| KDiff               (* diff = norm(self.coef_ - coef_new) / norm(coef_new) *)
| KOther.             (* any other local *)

Inductive atom :=
| AAssign (targets : list string) (k : akind)
| ASetCoef                         (* self.coef_ = coef_new *)
| ALog (h : hook)                  (* self._on_loop_start(vars()) / self._on_loop_end(vars()) *)
| AEffect (what : string)          (* allow-listed in-place call without modelled effect (np.fill_diagonal) *)
| ARaise
| ABreak
| AReturn
| AStats (reads : list string)     (* self._estimate_model_statistics(...) *)
| APrint (msg : string).

Inductive cond :=
| CHasConstraint                   (* self.terms.hasconstraint *)
| CNumFail                         (* not np.isfinite(Q).all() or not np.isfinite(R).all() *)
| CDiffTol (o : cmpop).            (* diff <o> self.tol *)

Inductive sstmt := SAtom (a : atom) | SIf (c : cond) (body : list atom).

(* `for callback in self.callbacks: if hasattr(callback, <guard>): self.logs_[str(callback)].append(callback.<call>(<kwargs: variables>))` *)
Record dispatch := { d_guard : hook; d_call : hook }.

Record prog := {
  p_body : list sstmt;             (* body of `for _ in range(self.max_iter)` *)
  p_post : list sstmt;             (* what follows the loop *)
  p_start : dispatch;              (* _on_loop_start *)
  p_end : dispatch                 (* _on_loop_end *)
}.

(* a callback object: its log key (str(callback)) and, per method it has, the argument names *)
Record callback := { cb_name : string; cb_start : option (list var); cb_end : option (list var) }.
Definition cb_method (c : callback) (h : hook) : option (list var) :=
  match h with HStart => cb_start c | HEnd => cb_end c end.

Record snapshot := {
  s_hook : hook;                   (* which method produced the entry *)
  s_it : nat;                      (* loop iteration (1-based) *)
  s_enter : nat;                   (* coefficient id the model held when this iteration began *)
  s_coef : nat;                    (* coefficient id the model holds now (gam.coef_) *)
  s_lp : option nat;               (* coefficient id lp was computed from *)
  s_mu : option nat;               (* coefficient id mu was computed from *)
  s_cnew : option nat;             (* coef_new *)
  s_diff : option (nat * nat)      (* diff = f(coef id, coef_new id) *)
}.

Record state := {
  it : nat; enter : nat; coef : nat;
  lp_src : option nat; mu_src : option nat; cnew : option nat; diff : option (nat * nat);
  logs : list (string * snapshot);     (* newest first *)
  stats : nat;                         (* how many times the statistics were estimated *)
  printed : list string                (* lines printed, newest first *)
}.

Definition init_state : state :=
  {| it := 0; enter := 0; coef := 0; lp_src := None; mu_src := None; cnew := None; diff := None;
     logs := []; stats := 0; printed := [] |}.

Definition set_lp v st := {| it := it st; enter := enter st; coef := coef st; lp_src := v; mu_src := mu_src st; cnew := cnew st; diff := diff st; logs := logs st; stats := stats st; printed := printed st |}.
Definition set_mu v st := {| it := it st; enter := enter st; coef := coef st; lp_src := lp_src st; mu_src := v; cnew := cnew st; diff := diff st; logs := logs st; stats := stats st; printed := printed st |}.
Definition set_cnew v st := {| it := it st; enter := enter st; coef := coef st; lp_src := lp_src st; mu_src := mu_src st; cnew := v; diff := diff st; logs := logs st; stats := stats st; printed := printed st |}.
Definition set_diff v st := {| it := it st; enter := enter st; coef := coef st; lp_src := lp_src st; mu_src := mu_src st; cnew := cnew st; diff := v; logs := logs st; stats := stats st; printed := printed st |}.
Definition set_coef v st := {| it := it st; enter := enter st; coef := v; lp_src := lp_src st; mu_src := mu_src st; cnew := cnew st; diff := diff st; logs := logs st; stats := stats st; printed := printed st |}.
Definition set_logs v st := {| it := it st; enter := enter st; coef := coef st; lp_src := lp_src st; mu_src := mu_src st; cnew := cnew st; diff := diff st; logs := v; stats := stats st; printed := printed st |}.
Definition set_stats v st := {| it := it st; enter := enter st; coef := coef st; lp_src := lp_src st; mu_src := mu_src st; cnew := cnew st; diff := diff st; logs := logs st; stats := v; printed := printed st |}.
Definition set_printed v st := {| it := it st; enter := enter st; coef := coef st; lp_src := lp_src st; mu_src := mu_src st; cnew := cnew st; diff := diff st; logs := logs st; stats := stats st; printed := v |}.
Definition begin_iter st := {| it := S (it st); enter := coef st; coef := coef st; lp_src := lp_src st; mu_src := mu_src st; cnew := cnew st; diff := diff st; logs := logs st; stats := stats st; printed := printed st |}.

Definition snap (h : hook) (st : state) : snapshot :=
  {| s_hook := h; s_it := it st; s_enter := enter st; s_coef := coef st; s_lp := lp_src st; s_mu := mu_src st;
     s_cnew := cnew st; s_diff := diff st |}.

Record cfg := {
  max_iter : nat;
  oracle : nat -> dcmp;            (* oracle k: the diff of the vector produced by iteration k, compared with tol *)
  numfail : nat -> bool;           (* the QR guard fires in iteration k *)
  hascons : bool;
  cbs : list callback              (* self.callbacks after _validate_params, in order *)
}.

Inductive signal := Normal | Broke | Returned.
Inductive result := Ok (sg : signal) (st : state) | Err (e : string) | OutOfFuel.

Definition is_some {A} (o : option A) : bool := match o with Some _ => true | None => false end.

Definition arg_bound (st : state) (v : var) : bool :=
  match v with
  | VGam | VY | VOther _ => true
  | VLp => is_some (lp_src st)
  | VMu => is_some (mu_src st)
  | VCoefNew => is_some (cnew st)
  | VDiff => is_some (diff st)
  end.

(* the dispatch loop of _on_loop_start/_on_loop_end; None = an exception (missing method: AttributeError,
   argument not among vars(): AssertionError 'CallBack cannot reference') *)
Fixpoint dispatch_cbs (d : dispatch) (cs : list callback) (st : state) : option state :=
  match cs with
  | [] => Some st
  | c :: r =>
      match cb_method c (d_guard d) with
      | None => dispatch_cbs d r st
      | Some _ =>
          match cb_method c (d_call d) with
          | None => None
          | Some args =>
              if forallb (arg_bound st) args
              then dispatch_cbs d r (set_logs ((cb_name c, snap (d_call d) st) :: logs st) st)
              else None
          end
      end
  end.

Definition diff_cmp (c : cfg) (d : nat * nat) : dcmp :=
  if Nat.eqb (fst d) (snd d) then DLt else oracle c (snd d).

Definition eval_cond (c : cfg) (cd : cond) (st : state) : option bool :=
  match cd with
  | CHasConstraint => Some (hascons c)
  | CNumFail => Some (numfail c (it st))
  | CDiffTol o => match diff st with Some d => Some (cmp_holds o (diff_cmp c d)) | None => None end
  end.

Definition exec_atom (p : prog) (c : cfg) (a : atom) (st : state) : result :=
  match a with
  | AAssign _ KLinPred => Ok Normal (set_lp (Some (coef st)) st)
  | AAssign _ KMuOfLp => match lp_src st with Some s => Ok Normal (set_mu (Some s) st) | None => Err "lp unbound" end
  | AAssign _ KKeep => Ok Normal st
  | AAssign _ KSolve => Ok Normal (set_cnew (Some (it st)) st)
  | AAssign _ KDiff => match cnew st with Some b => Ok Normal (set_diff (Some (coef st, b)) st) | None => Err "coef_new unbound" end
  | AAssign _ KOther => Ok Normal st
  | ASetCoef => match cnew st with Some b => Ok Normal (set_coef b st) | None => Err "coef_new unbound" end
  | ALog h => match dispatch_cbs (match h with HStart => p_start p | HEnd => p_end p end) (cbs c) st with
              | Some st' => Ok Normal st' | None => Err "callback failed" end
  | AEffect _ => Ok Normal st
  | ARaise => Err "raise"
  | ABreak => Ok Broke st
  | AReturn => Ok Returned st
  | AStats _ => match cnew st with Some _ => Ok Normal (set_stats (S (stats st)) st) | None => Err "WB/B/U1 unbound" end
  | APrint m => Ok Normal (set_printed (m :: printed st) st)
  end.

Fixpoint exec_atoms (p : prog) (c : cfg) (l : list atom) (st : state) : result :=
  match l with
  | [] => Ok Normal st
  | a :: r => match exec_atom p c a st with Ok Normal st' => exec_atoms p c r st' | x => x end
  end.

Definition exec_sstmt (p : prog) (c : cfg) (s : sstmt) (st : state) : result :=
  match s with
  | SAtom a => exec_atom p c a st
  | SIf cd body => match eval_cond c cd st with
                   | Some true => exec_atoms p c body st
                   | Some false => Ok Normal st
                   | None => Err "unbound variable in condition" end
  end.

Fixpoint exec_block (p : prog) (c : cfg) (l : list sstmt) (st : state) : result :=
  match l with
  | [] => Ok Normal st
  | s :: r => match exec_sstmt p c s st with Ok Normal st' => exec_block p c r st' | x => x end
  end.

(* for _ in range(self.max_iter): body.   i = number of completed iterations; one unit of fuel per test of the range *)
Fixpoint loop (p : prog) (c : cfg) (fuel : nat) (i : nat) (st : state) : result :=
  match fuel with
  | 0 => OutOfFuel
  | S f =>
      if Nat.ltb i (max_iter c) then
        match exec_block p c (p_body p) (begin_iter st) with
        | Ok Normal st' => loop p c f (S i) st'
        | Ok Broke st' => Ok Normal st'
        | x => x
        end
      else Ok Normal st
  end.

Definition run (p : prog) (c : cfg) (fuel : nat) : result :=
  match loop p c fuel 0 init_state with
  | Ok Normal st => match exec_block p c (p_post p) st with
                    | Ok Broke _ => Err "break outside loop"
                    | x => x end
  | x => x
  end.

(* ---- observables ---- *)
Definition log_of (name : string) (st : state) : list snapshot :=     (* oldest first, as in gam.logs_[name] *)
  rev (map snd (filter (fun e => String.eqb (fst e) name) (logs st))).

(* the stopping index predicted from the oracle: first k in 1..max_iter with diff_k < tol, else max_iter *)
Fixpoint first_lt (o : nat -> dcmp) (k : nat) (n : nat) : nat :=   (* searches k, k+1, ..., k+n-1; returns k+n-1 if none (n>=1) *)
  match n with
  | 0 => k
  | 1 => k
  | S n' => match o k with DLt => k | _ => first_lt o (S k) n' end
  end.
Definition stop_index (c : cfg) : nat := first_lt (oracle c) 1 (max_iter c).

(* ---- hypotheses used by the theorems ---- *)
Definition start_safe (v : var) : bool := match v with VCoefNew | VDiff => false | _ => true end.
(* a callback that can be dispatched: its on_loop_start does not ask for variables that do not exist yet in the
   first iteration (coef_new, diff); otherwise validate_callback_data asserts and the fit aborts *)
Definition cb_ok (cb : callback) : Prop :=
  forall args, cb_start cb = Some args -> forallb start_safe args = true.
Definition cbs_ok (cs : list callback) : Prop := forall cb, In cb cs -> cb_ok cb.
(* logs_ is keyed by str(callback): distinct callbacks must have distinct names to have separate logs *)
Definition names_unique (cs : list callback) : Prop := NoDup (map cb_name cs).
Definition hooks_of (cb : callback) : nat :=
  (if is_some (cb_start cb) then 1 else 0) + (if is_some (cb_end cb) then 1 else 0).
Definition ok_cfg (c : cfg) : Prop :=
  1 <= max_iter c /\ (forall k, numfail c k = false) /\ cbs_ok (cbs c).

(* ---- constructor forwarding table ---- *)
Record ctor := { c_class : string; c_base : string; c_params : list string; c_forwarded : list string; c_stored : list string;
  c_cb_default : list string (* default value of the `callbacks` parameter *) }.
Definition smem (x : string) (l : list string) : bool := existsb (String.eqb x) l.
Definition ctor_forwards (k : string) (c : ctor) : bool := implb (smem k (c_params c)) (smem k (c_forwarded c)).
(* a constructor parameter reaches the attribute that the loop reads: the base class stores it
   (self.k = k), a subclass passes it on to the base constructor under the same name *)
Definition ctor_reaches (k : string) (c : ctor) : bool :=
  if String.eqb (c_base c) "GAM" then ctor_forwards k c
  else implb (smem k (c_params c)) (smem k (c_stored c)).

(* ---- built-in callback table ---- *)
Inductive retkind := RDeviance (uses : list var) | RAccuracy (uses : list var) | RDiff | RCoef | ROpaque.
Record builtin := { b_key : string; b_cb : callback; b_ret : retkind }.
