(* Model/C20Check.v -- case type and checker used by the generated correspondence files for C20.
   A case = one real fit: its configuration, the observed stream (diff_k compared with tol) and what the
   implementation exposed afterwards; check_case runs the interpreter on the GENERATED skeleton with that stream
   and compares. *)
From Coq Require Import List String Bool Arith.
From PG Require Import Model.Loop Gen.C20Skeleton.
Import ListNotations.
Open Scope string_scope.
Open Scope list_scope.

Inductive cbspec := CBuiltin (key : string) | CUser (cb : callback).

Definition resolve (s : cbspec) : option callback :=
  match s with
  | CBuiltin k => option_map b_cb (find (fun b => String.eqb (b_key b) k) Gen_builtins)
  | CUser cb => Some cb
  end.

Fixpoint resolve_all (l : list cbspec) : option (list callback) :=
  match l with
  | [] => Some []
  | s :: r => match resolve s, resolve_all r with Some c, Some cs => Some (c :: cs) | _, _ => None end
  end.

(* which callbacks the loop sees: the requested ones if the class hands `callbacks` on to the base class
   (or they were set as an attribute after construction), otherwise the base-class default *)
Definition effective (cls : string) (via_ctor : bool) (requested : list cbspec) : option (list callback) :=
  match find (fun k => String.eqb (c_class k) cls) Gen_ctors, find (fun k => String.eqb (c_class k) "GAM") Gen_ctors with
  | Some k, Some base =>
      if negb via_ctor || ctor_reaches "callbacks" k then resolve_all requested
      else resolve_all (map CBuiltin (c_cb_default base))
  | _, _ => None
  end.

Record c20obs := {
  o_lens : list (string * nat);          (* gam.logs_: key -> length, every key *)
  o_hooks : list (string * list hook);   (* user callbacks that log which method was called *)
  o_coef_ids : list (list nat);          (* 'coef' log: per entry, ids of the vectors equal to it ([] if not enabled) *)
  o_dev_ids : list (list nat);           (* 'deviance' log: per entry, ids of the vectors whose deviance equals it *)
  o_diff_ids : list (list (nat * nat));  (* 'diffs' log: per entry, pairs (a,b) with norm(v_a - v_b)/norm(v_b) equal to it *)
  o_final_ids : list nat;                (* ids of the vectors equal to gam.coef_ after fit *)
  o_printed : list string;               (* stdout lines *)
  o_stats : bool                         (* statistics_ populated *)
}.

Inductive c20case :=
| Case (cls : string) (via_ctor : bool) (requested : list cbspec) (maxit : nat) (hasc : bool)
       (stream : list dcmp) (obs : c20obs).

Definition nat_mem (x : nat) (l : list nat) : bool := existsb (Nat.eqb x) l.
Definition pair_mem (x : nat * nat) (l : list (nat * nat)) : bool :=
  existsb (fun p => Nat.eqb (fst x) (fst p) && Nat.eqb (snd x) (snd p)) l.

Fixpoint all2 {A B} (f : A -> B -> bool) (l : list A) (m : list B) : bool :=
  match l, m with
  | [], [] => true
  | a :: l', b :: m' => f a b && all2 f l' m'
  | _, _ => false
  end.

Definition opt_in (o : option nat) (l : list nat) : bool := match o with Some x => nat_mem x l | None => false end.
Definition optp_in (o : option (nat * nat)) (l : list (nat * nat)) : bool := match o with Some x => pair_mem x l | None => false end.

Definition names_of (cs : list callback) : list string := nodup string_dec (map cb_name cs).

Definition check_case (cs : c20case) : bool :=
  match cs with
  | Case cls via_ctor requested maxit hasc stream obs =>
    match effective cls via_ctor requested with
    | None => false
    | Some cbl =>
      let c := {| max_iter := maxit; oracle := fun k => nth (k - 1) stream DGt; numfail := fun _ => false;
                  hascons := hasc; cbs := cbl |} in
      match run Gen_pirls c (maxit + 1) with
      | Ok Returned st =>
          (* every key of logs_ is the name of a callback and has the predicted length; every callback with
             entries has a key *)
          forallb (fun kv => smem (fst kv) (names_of cbl) && Nat.eqb (snd kv) (List.length (log_of (fst kv) st))) (o_lens obs) &&
          forallb (fun n => Nat.eqb (List.length (log_of n st)) 0 || smem n (map fst (o_lens obs))) (names_of cbl) &&
          forallb (fun kv => all2 hook_eqb (snd kv) (map s_hook (log_of (fst kv) st))) (o_hooks obs) &&
          (match o_coef_ids obs with [] => true | ids => all2 (fun s e => nat_mem (s_coef e) s) ids (log_of "coef" st) end) &&
          (match o_dev_ids obs with [] => true | ids => all2 (fun s e => opt_in (s_mu e) s) ids (log_of "deviance" st) end) &&
          (match o_diff_ids obs with [] => true | ids => all2 (fun s e => optp_in (s_diff e) s) ids (log_of "diffs" st) end) &&
          nat_mem (coef st) (o_final_ids obs) &&
          all2 String.eqb (o_printed obs) (rev (printed st)) &&
          Bool.eqb (o_stats obs) (Nat.eqb (stats st) 1) &&
          Nat.eqb (List.length stream) (it st)
      | _ => false
      end
    end
  end.
