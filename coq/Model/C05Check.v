(* Model/C05Check.v -- case type and checker used by the generated correspondence files for C05.
   All numbers cross as exact dyadics (m, e) = m * 2^e of the implementation's binary64 values. *)
From Coq Require Import List ZArith QArith Qabs Bool Arith.
From PG Require Import Base.Ops Base.Vec Model.Constraints.
Import ListNotations.

Definition qd (p : Z * Z) : Q := Qdy (fst p) (snd p).
Definition qvec (v : list (Z * Z)) : list Q := map qd v.
Definition qmat (m : list (list (Z * Z))) : list (list Q) := map qvec m.
Definition qclose (tol : Q) (a b : Q) : bool := Qle_bool (Qabs (a - b)) (tol * (1 + Qabs b)).
Definition nat_list_eqb (a b : list nat) : bool :=
  Nat.eqb (length a) (length b) && forallb (fun p => Nat.eqb (fst p) (snd p)) (combine a b).
Definition nat_mat_eqb (a b : list (list nat)) : bool :=
  Nat.eqb (length a) (length b) && forallb (fun p => nat_list_eqb (fst p) (snd p)) (combine a b).

Inductive c05case :=
(* penalties.<constraint>(n, coef) returned impl (entries are small integers: compared exactly) *)
| KFn (c : con) (n : nat) (coef : list (Z * Z)) (impl : list (list (Z * Z)))
(* penalties.<constraint>(n, coef) raised ValueError *)
| KFnRaises (c : con) (n : nat) (coef : list (Z * Z))
(* TermList.build_constraints(coefs, clam, cl2) (also used for one Term / TensorTerm) returned impl *)
| KTerms (ts : list cterm) (coefs : list (Z * Z)) (clam cl2 : Z * Z) (tol : Q) (hascon : bool) (impl : list (list (Z * Z)))
(* list(TensorTerm._iterate_marginal_coef_slices(i)) for marginal sizes dims *)
| KFibres (dims : list nat) (i : nat) (impl : list (list nat)).

Definition con_chk (c : con) (n : nat) (coef : list Q) : option (list (list Q)) :=
  match c with
  | CPyNone | CStrNone => Some (con_matrix Qrops n coef c)      (* penalties.none ignores coef *)
  | CMonoInc => monotonicity_chk Qrops n coef true
  | CMonoDec => monotonicity_chk Qrops n coef false
  | CConvex => convexity_chk Qrops n coef true
  | CConcave => convexity_chk Qrops n coef false
  end.

Definition check_case (k : c05case) : bool :=
  match k with
  | KFn c n coef impl =>
      match con_chk c n (qvec coef) with
      | Some M => meqb Qeq_bool M (qmat impl)
      | None => false
      end
  | KFnRaises c n coef =>
      match con_chk c n (qvec coef) with Some _ => false | None => true end
  | KTerms ts coefs clam cl2 tol hascon impl =>
      Bool.eqb (model_hasconstraint ts) hascon &&
      meqb (qclose tol) (qmat impl) (model_constraints Qrops ts (qvec coefs) (qd clam) (qd cl2))
  | KFibres dims i impl => nat_mat_eqb (fibres dims i) impl
  end.
