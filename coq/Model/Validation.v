(* Model/Validation.v -- executable model of pyGAM's data validation (pygam/utils.py check_array, check_y, check_X,
   check_lengths, check_X_y) on an abstract input descriptor, and of the *validation trace* of a public entry point
   (the ordered validator calls / reads applied to one data argument, extracted from pygam/pygam.py by
   translator/skel_c11.py into Gen/C11Traces.v).  Definitions only. *)
From Coq Require Import List String Bool Arith.
Import ListNotations.

(* ---------------------------------------------------------------- input descriptors *)
Inductive ecls := Fin | NaN | PInf | NInf.                      (* class of one array element *)
Definition is_fin (e : ecls) : bool := match e with Fin => true | _ => false end.

Inductive container := CNdarray | CList | CTuple.
(* numpy dtype kind after np.array(..).  DObject: object array of Python numbers (arithmetic works, check_array casts it);
   DStr: numeric strings, or objects with None inside (float cast works: 'inf' -> inf, None -> nan; arithmetic: TypeError) *)
Inductive dkind := DFloat | DInt | DBool | DObject | DStr.

Record desc := mk_desc {
  d_cont : container;
  d_dt : dkind;
  d_elems : list ecls;      (* the elements, row-major; any length *)
  d_len_ok : bool;          (* same number of samples as the other data arguments of the call *)
  d_width_ok : bool;        (* X: number of columns = statistics_['m_features'] of the fitted model *)
  d_dom_ok : bool;          (* y: link.link(y, dist) has no NaN  (y in the domain of the link) *)
  d_cat_ok : bool           (* X: every categorical column within the fitted edge knots *)
}.

(* what the validators can see of a descriptor *)
Record adesc := mk_adesc {
  a_cont : container; a_dt : dkind;
  a_allfin : bool;          (* np.isfinite(array).all() *)
  a_nonempty : bool;        (* array.shape[0] >= min_samples = 1 *)
  a_len_ok : bool; a_width_ok : bool; a_dom_ok : bool; a_cat_ok : bool
}.

Definition abstract (d : desc) : adesc :=
  mk_adesc (d_cont d) (d_dt d) (forallb is_fin (d_elems d)) (negb (Nat.eqb (List.length (d_elems d)) 0))
           (d_len_ok d) (d_width_ok d) (d_dom_ok d) (d_cat_ok d).

(* ---------------------------------------------------------------- the validators (true = raises ValueError) *)
(* check_array(array, force_2d, n_feats, ndim, min_samples=1): isfinite().all(), then n_feats, then min_samples.
   (int / float / bool dtypes are accepted, bool is cast to float; containers are converted by np.array.) *)
Definition a_check_array (n_feats_given : bool) (a : adesc) : bool :=
  negb (a_allfin a) || (n_feats_given && negb (a_width_ok a)) || negb (a_nonempty a).
(* check_y: ravel, check_array(ndim=1), then the link-domain test *)
Definition a_check_y (a : adesc) : bool := a_check_array false a || negb (a_dom_ok a).
(* check_X(X, n_feats, edge_knots, dtypes, features): check_array(force_2d, n_feats), then categorical ranges *)
Definition a_check_X (nf cats : bool) (a : adesc) : bool := a_check_array nf a || (cats && negb (a_cat_ok a)).
(* check_lengths / check_X_y *)
Definition a_check_len (a : adesc) : bool := negb (a_len_ok a).

Inductive vres := Accept | RaiseValueError.
Definition vres_of (b : bool) : vres := if b then RaiseValueError else Accept.
Definition check_array (n_feats_given : bool) (d : desc) : vres := vres_of (a_check_array n_feats_given (abstract d)).
Definition check_y (d : desc) : vres := vres_of (a_check_y (abstract d)).
Definition check_X (nf cats : bool) (d : desc) : vres := vres_of (a_check_X nf cats (abstract d)).
Definition check_lengths (d : desc) : vres := vres_of (a_check_len (abstract d)).
Definition check_X_y (d : desc) : vres := vres_of (a_check_len (abstract d)).

(* ---------------------------------------------------------------- validation traces *)
Inductive action :=
| CheckFitted                                   (* if not self._is_fitted: raise AttributeError *)
| CheckY (params_validated : bool)              (* check_y(y, self.link, self.distribution); the flag: self._validate_params()
                                                   ran earlier in this call (before it, on a never fitted model, self.link is
                                                   still the constructor string and the domain test dies with AttributeError) *)
| CheckX (nf cats : bool) | CheckArray | CheckLen | CheckXy
| NeedsArray (what : string)                    (* .ravel() / .astype() / .shape read off the argument as passed *)
| NeedsNumeric (what : string)                  (* arithmetic on the argument before any cast to float *)
| Use (what : string)                           (* any other read of the argument: terminal *)
| MayRefit                                      (* a call that does not receive the argument (re)fits a model on the other,
                                                   valid, arguments: no effect on the argument; it may end the call with an
                                                   OptimizationError before the argument is looked at (see C11Check.check_case) *)
| IfUnfitted (body : list action)               (* if not self._is_fitted: body *)
| IfFitted (body : list action)
| MaybeSkip (body : list action)                (* for-loop whose trip count depends on a parameter (may be 0) *)
| TryVE (body : list action).                   (* try: body  except ValueError: continue *)

(* Crashed: an ndarray attribute read off a list / tuple argument (AttributeError of the *container*, not the fitted guard) *)
(* CrashedTE: arithmetic on string / None data (TypeError) *)
Inductive outcome := RaisedVE | RaisedAE | Used (what : string) | Crashed (what : string) | CrashedTE (what : string) | Finished.

Definition is_array (c : container) : bool := match c with CNdarray => true | _ => false end.

(* None = fell through *)
Fixpoint run_action (fitted skip : bool) (a : adesc) (act : action) {struct act} : option outcome :=
  let run_list := fix run_list (l : list action) : option outcome :=
    match l with
    | [] => None
    | x :: r => match run_action fitted skip a x with Some o => Some o | None => run_list r end
    end in
  match act with
  | CheckFitted => if fitted then None else Some RaisedAE
  | CheckY pv => if a_check_array false a then Some RaisedVE
                 else if fitted || pv then (if a_check_y a then Some RaisedVE else None)
                 else Some RaisedAE
  | CheckX nf cats => if a_check_X nf cats a then Some RaisedVE else None
  | CheckArray => if a_check_array false a then Some RaisedVE else None
  | CheckLen | CheckXy => if a_check_len a then Some RaisedVE else None
  | NeedsArray w => if is_array (a_cont a) then None else Some (Crashed w)
  | NeedsNumeric w => match a_dt a with DStr => Some (CrashedTE w) | _ => None end
  | Use w => Some (Used w)
  | MayRefit => None
  | IfUnfitted body => if fitted then None else run_list body
  | IfFitted body => if fitted then run_list body else None
  | MaybeSkip body => if skip then None else run_list body
  | TryVE body => match run_list body with
                  | Some RaisedVE => Some (Used "ValueError swallowed by except ValueError"%string)
                  | r => r
                  end
  end.

Fixpoint run_list (fitted skip : bool) (a : adesc) (l : list action) : option outcome :=
  match l with
  | [] => None
  | x :: r => match run_action fitted skip a x with Some o => Some o | None => run_list fitted skip a r end
  end.

Definition run_atrace (l : list action) (a : adesc) (fitted skip : bool) : outcome :=
  match run_list fitted skip a l with Some o => o | None => Finished end.

Definition run_trace (l : list action) (d : desc) (fitted skip : bool) : outcome :=
  run_atrace l (abstract d) fitted skip.

(* ---------------------------------------------------------------- entry points and corruption kinds *)
Inductive argk := AX | AY | AW | AE | AXs.       (* X, y, weights, exposure, sample_at_X *)

Record entry := mk_entry {
  e_cls : string; e_origin : string; e_meth : string; e_arg : argk;
  e_fitting : bool;          (* fit / gridsearch / fit_quantile: does not need a fitted model *)
  e_has_y : bool;            (* the call has another sample-length argument to disagree with *)
  e_actions : list action
}.

Inductive ckind := KNonFinite | KLen | KWidth | KDomain | KCat.

(* which corruptions the property text asks about, per argument *)
Definition applicable (e : entry) (k : ckind) : bool :=
  match k, e_arg e with
  | KNonFinite, _ => true
  | KLen, (AY | AW | AE) => true
  | KLen, AX => e_has_y e
  | KLen, AXs => false
  | (KWidth | KCat), (AX | AXs) => negb (e_fitting e)       (* a fitting method defines the width / categories *)
  | (KWidth | KCat), _ => false
  | KDomain, AY => true
  | KDomain, _ => false
  end.

Definition a_corrupted (k : ckind) (a : adesc) : bool :=
  match k with
  | KNonFinite => negb (a_allfin a)
  | KLen => negb (a_len_ok a)
  | KWidth => negb (a_width_ok a)
  | KDomain => negb (a_dom_ok a)
  | KCat => negb (a_cat_ok a)
  end.

Definition a_valid (a : adesc) : bool :=
  a_allfin a && a_nonempty a && a_len_ok a && a_width_ok a && a_dom_ok a && a_cat_ok a.

(* concrete statements *)
Definition nonfinite_at (d : desc) (i : nat) : Prop := exists e, nth_error (d_elems d) i = Some e /\ is_fin e = false.
Definition corrupted (k : ckind) (d : desc) : Prop :=
  match k with
  | KNonFinite => exists i, nonfinite_at d i
  | KLen => d_len_ok d = false
  | KWidth => d_width_ok d = false
  | KDomain => d_dom_ok d = false
  | KCat => d_cat_ok d = false
  end.
Definition valid (d : desc) : Prop :=
  (forall i e, nth_error (d_elems d) i = Some e -> e = Fin) /\ d_elems d <> [] /\
  d_len_ok d = true /\ d_width_ok d = true /\ d_dom_ok d = true /\ d_cat_ok d = true.

(* ---------------------------------------------------------------- finite enumeration of abstract descriptors *)
Definition all_bool := [true; false].
Definition all_cont := [CNdarray; CList; CTuple].
Definition all_dt := [DFloat; DInt; DBool; DObject; DStr].
Definition all_adesc : list adesc :=
  flat_map (fun c => flat_map (fun t => flat_map (fun b1 => flat_map (fun b2 => flat_map (fun b3 =>
  flat_map (fun b4 => flat_map (fun b5 => map (fun b6 => mk_adesc c t b1 b2 b3 b4 b5 b6) all_bool) all_bool) all_bool)
  all_bool) all_bool) all_bool) all_dt) all_cont.

Definition cont_eqb (a b : container) : bool :=
  match a, b with CNdarray, CNdarray | CList, CList | CTuple, CTuple => true | _, _ => false end.
Definition argk_eqb (a b : argk) : bool :=
  match a, b with AX, AX | AY, AY | AW, AW | AE, AE | AXs, AXs => true | _, _ => false end.
Definition dkind_eqb (a b : dkind) : bool :=
  match a, b with DFloat, DFloat | DInt, DInt | DBool, DBool | DObject, DObject | DStr, DStr => true | _, _ => false end.
Definition ckind_eqb (a b : ckind) : bool :=
  match a, b with KNonFinite, KNonFinite | KLen, KLen | KWidth, KWidth | KDomain, KDomain | KCat, KCat => true
  | _, _ => false end.
Definition outcome_is_ve (o : outcome) : bool := match o with RaisedVE => true | _ => false end.
Definition outcome_is_ae (o : outcome) : bool := match o with RaisedAE => true | _ => false end.
