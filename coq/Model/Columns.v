(* Model/Columns.v -- executable model of the per-term model-matrix columns of pygam/terms.py, one data row at a time:
     Intercept.build_columns   -> [1]
     LinearTerm.build_columns  -> [x_f]
     SplineTerm.build_columns  -> b_spline_basis row of x_f (edge knots fixed at compile time), times x_by if `by` is set
     FactorTerm.build_columns  -> order-0 basis on [min-1/2, max+1/2] with n = number of levels seen at compile time,
                                  first column dropped under dummy coding
     TensorTerm.build_columns  -> iterated utils.tensor_product of the marginal blocks (a_i * b_j at position i*m_b + j,
                                  i.e. C order), times x_by
     TermList.build_columns    -> horizontal concatenation in term order; n_coefs; get_coef_indices
   A data row is the list of feature values of one sample.  None = the code raises.  Definitions only.            *)
From Coq Require Import List ZArith Bool Arith.
From PG Require Import Base.Ops Base.Vec Model.BSpline.
Import ListNotations.

Section C.
Context {T : Type}.
(* compiled simple (non-tensor) terms *)
Inductive simple :=
| SLinear (f : nat)
| SSpline (f : nat) (ek0 ek1 : T) (n k : nat) (periodic : bool) (by_ : option nat)
| SFactor (f : nat) (ek0 ek1 : T) (n : nat) (dummy : bool).
Inductive cterm :=
| CIntercept
| CSimple (s : simple)
| CTensor (ms : list simple) (by_ : option nat).

Context (o : fops T).
Definition feat (row : list T) (f : nat) : T := nth f row (r0 (fr o)).
Definition scale_by (by_ : option nat) (row : list T) (b : list T) : list T :=
  match by_ with None => b | Some j => vscale (fr o) (feat row j) b end.

Definition block_simple (s : simple) (row : list T) : option (list T) :=
  match s with
  | SLinear f => Some [feat row f]
  | SSpline f ek0 ek1 n k periodic by_ =>
      option_map (scale_by by_ row) (bspline_row o ek0 ek1 n k periodic (feat row f))
  | SFactor f ek0 ek1 n dummy =>
      option_map (fun b => if dummy then tl b else b) (bspline_row o ek0 ek1 n O false (feat row f))
  end.

(* utils.tensor_product on one row: a[:, None] * b[None, :] flattened in C order *)
Definition tensor2 (a b : list T) : list T := kron_row (fr o) a b.
Fixpoint tensor_blocks (acc : list T) (ms : list simple) (row : list T) : option (list T) :=
  match ms with
  | [] => Some acc
  | m :: rest =>
      match block_simple m row with
      | Some b => tensor_blocks (tensor2 acc b) rest row
      | None => None
      end
  end.
Definition block (t : cterm) (row : list T) : option (list T) :=
  match t with
  | CIntercept => Some [r1 (fr o)]
  | CSimple s => block_simple s row
  | CTensor ms by_ =>
      match ms with
      | [] => None
      | m :: rest =>
          match block_simple m row with
          | Some b => option_map (scale_by by_ row) (tensor_blocks b rest row)
          | None => None
          end
      end
  end.
Fixpoint row_blocks (ts : list cterm) (row : list T) : option (list T) :=
  match ts with
  | [] => Some []
  | t :: rest =>
      match block t row, row_blocks rest row with
      | Some b, Some r => Some (b ++ r)
      | _, _ => None
      end
  end.

Definition n_coefs_simple (s : simple) : nat :=
  match s with
  | SLinear _ => 1
  | SSpline _ _ _ n _ _ _ => n
  | SFactor _ _ _ n dummy => Nat.sub n (if dummy then 1 else 0)
  end.
Definition n_coefs (t : cterm) : nat :=
  match t with
  | CIntercept => 1
  | CSimple s => n_coefs_simple s
  | CTensor ms _ => fold_right (fun m acc => Nat.mul (n_coefs_simple m) acc) 1%nat ms
  end.
Definition total_coefs (ts : list cterm) : nat := fold_right (fun t acc => Nat.add (n_coefs t) acc) O ts.
(* TermList.get_coef_indices(i) = range(start, start + n_coefs_i) *)
Definition coef_start (ts : list cterm) (i : nat) : nat := total_coefs (firstn i ts).
Definition coef_indices (ts : list cterm) (i : nat) : list nat :=
  seq (coef_start ts i) (n_coefs (nth i ts CIntercept)).

(* FactorTerm.compile: n_splines = number of distinct values, edge knots = (min - 1/2, max + 1/2) *)
Fixpoint count_distinct (seen : list T) (l : list T) : nat :=
  match l with
  | [] => O
  | a :: rest => if existsb (req (fr o) a) seen then count_distinct seen rest else S (count_distinct (a :: seen) rest)
  end.
Definition compile_factor (f : nat) (dummy : bool) (col : list T) : option simple :=
  match gen_edge_knots o true col with
  | Some (lo, hi) => Some (SFactor f lo hi (count_distinct [] col) dummy)
  | None => None
  end.
(* SplineTerm.compile as a term constructor: the knots after a history of compiles (see spline_compile in BSpline.v) *)
Definition compile_spline (f : nat) (user : option (T * T)) (categorical : bool) (n k : nat) (periodic : bool)
           (by_ : option nat) (cols : list (list T)) : option simple :=
  match spline_compile_history o user categorical cols with
  | Some (lo, hi) => Some (SSpline f lo hi n k periodic by_)
  | None => None
  end.
End C.
Arguments simple : clear implicits.
Arguments cterm : clear implicits.
