(* Model/C06Check.v -- tactics used by the generated interval goals of C06 *)
From Coq Require Import Reals Lra.
From Interval Require Import Tactic.
From PG Require Import Base.Ops Gen.Dists.
Open Scope R_scope.
(* decide the `if y = 0` tests of ylogydu / xlny / the truthiness test of a scale on literal arguments *)
Ltac kill_if :=
  repeat match goal with
  | |- context [Req_EM_T ?a ?b] =>
      let H := fresh "E" in
      destruct (Req_EM_T a b) as [H|H]; [try (exfalso; lra) | try (exfalso; apply H; lra)]
  end.
Ltac c06 := unfold Gen_phi, Gen_NormalDist_sample_args, Gen_BinomialDist_sample_args, Gen_PoissonDist_sample_args,
                   Gen_GammaDist_sample_args, Gen_InvGaussDist_sample_args,
                   Gen_NormalDist_deviance, Gen_BinomialDist_deviance, Gen_PoissonDist_deviance, Gen_GammaDist_deviance, Gen_InvGaussDist_deviance,
                   Gen_NormalDist_deviance0, Gen_BinomialDist_deviance0, Gen_PoissonDist_deviance0, Gen_GammaDist_deviance0, Gen_InvGaussDist_deviance0,
                   Gen_NormalDist_log_pdf, Gen_BinomialDist_log_pdf, Gen_PoissonDist_log_pdf, Gen_GammaDist_log_pdf, Gen_InvGaussDist_log_pdf,
                   Spec_binom_logpmf_kernel, Spec_poisson_logpmf_kernel, Gen_ylogydu, xlny, Reqb;
            cbv zeta; cbn [negb fst snd Gen_pearson length INR]; kill_if; cbn [negb fst snd]; interval with (i_prec 120).
